// M: the cases files for coq/Corr/CorrC05.v.
package main

import (
	"fmt"
	"math/big"
	"sort"
	"strings"
	"unicode"

	"verifharness/lib"
)

type mcase struct {
	term   string
	in     input
	random bool
	failed bool // the direct check failed on this input: always part of the Coq file (cap 20)
}

type emitter struct {
	strings, regexps, ints, lexes, types, parses, texts, values, creates, objects, objectsR, exts []mcase
	pfloats                                                       map[string]bool
	letters                                                       map[rune]bool
	tletters                                                      map[rune]bool
	failed                                                        bool // set by evaluate for the current input
}

func newEmitter(cfg *lib.Config) *emitter {
	return &emitter{letters: map[rune]bool{}, tletters: map[rune]bool{}, pfloats: map[string]bool{}}
}

func gOptStr(present bool, s string) string { return lib.GOpt(present, lib.GStr(s), "str") }

// lexedPayload: Some text when the lexer produced a first token of the wanted kind
func lexedPayload(o Obs, kind string) (bool, string) {
	if o.Aux["tokkind"] == kind && o.Aux["ntok"] != "0" && o.Aux["ntok"] != "" {
		return true, unhex(o.Aux["toktext"])
	}
	return false, ""
}

func (e *emitter) addString(in input, s string, o Obs) {
	if o.Aux["printclass"] != "ok" {
		return
	}
	ok, tok := lexedPayload(o, "6")
	// the text must have been lexed completely: the literal and the end token
	whole := ok && o.Aux["lexclass"] == "ok" && o.Aux["ntok"] == "2"
	e.strings = append(e.strings, mcase{fmt.Sprintf("(%s, %s, %s)", lib.GStr(s), lib.GStr(unhex(o.Out)), gOptStr(whole, tok)), in, in.Family == "random", e.failed})
}

func (e *emitter) addRegexp(in input, src string, o Obs) {
	if o.Aux["printclass"] != "ok" {
		return
	}
	ok, tok := lexedPayload(o, "5")
	whole := ok && o.Aux["lexclass"] == "ok" && o.Aux["ntok"] == "2"
	e.regexps = append(e.regexps, mcase{fmt.Sprintf("(%s, %s, %s)", lib.GStr(src), lib.GStr(unhex(o.Out)), gOptStr(whole, tok)), in, in.Family == "random", e.failed})
}

func gBigZ(dec string) string {
	z, ok := new(big.Int).SetString(dec, 10)
	if !ok {
		panic("not an integer: " + dec)
	}
	return lib.GBig(z)
}

func (e *emitter) addInt(in input, o Obs) {
	if o.Aux["printclass"] != "ok" {
		return
	}
	ok, tok := lexedPayload(o, "3")
	whole := ok && o.Aux["lexclass"] == "ok" && o.Aux["ntok"] == "2"
	parsed := "(@None Z)"
	if o.Aux["parsedkind"] == "Int" {
		parsed = "(Some " + gBigZ(o.Aux["parsed"]) + ")"
	}
	e.ints = append(e.ints, mcase{fmt.Sprintf("(%s, %s, %s, %s)", gBigZ(in.Int), lib.GStr(unhex(o.Out)), gOptStr(whole, tok), parsed), in, in.Family == "random", e.failed})
}

// a printed float is a lexer case: one float token with the printed text
func (e *emitter) addFloat(in input, o Obs) {
	if o.Aux["printclass"] != "ok" {
		return
	}
	e.addLex(in, unhex(o.Out), o)
}

// addLex: text, kind of the first token (0 = the lexer failed before it had one), its text, and for an integer token
// the value strconv.ParseInt(text, 0, 64) gives (None = error)
func (e *emitter) addLex(in input, text string, o Obs) {
	if len(text) == 0 {
		return
	}
	switch c := text[0]; {
	case c == '\'' || c == '"' || c == '/' || c == '+' || c == '-' || (c >= '0' && c <= '9'):
	default:
		return // not a literal the model covers
	}
	for _, r := range text {
		if r >= 0x80 && unicode.IsLetter(r) {
			e.letters[r] = true
		}
	}
	kind, tok := "0", ""
	if o.Aux["ntok"] != "0" && o.Aux["ntok"] != "" {
		kind, tok = o.Aux["tokkind"], unhex(o.Aux["toktext"])
	}
	iv := "(@None Z)"
	if v, ok := o.Aux["intval"]; ok && v != "error" {
		iv = "(Some " + gBigZ(v) + ")"
	}
	e.lexes = append(e.lexes, mcase{fmt.Sprintf("(%s, %s%%N, %s, %s)", lib.GStr(text), kind, lib.GStr(tok), iv), in, in.Family == "random", e.failed})
}

// addText: (text, whether the value printer wrote it, Some tokens | None = the lexer failed) for coq/Model/LiteralText.v
func (e *emitter) addText(in input, o Obs) {
	ht, ok := o.Aux["ptext"]
	if !ok {
		return
	}
	text := unhex(ht)
	obs := "(@None (list tok))"
	if o.Aux["plexfail"] != "1" {
		ts, ok := o.Aux["ptoks"]
		if !ok {
			return // the alias form: the tokens were not recorded
		}
		obs = "(Some " + ts + ")"
	}
	for _, r := range text {
		if r >= 0x80 && unicode.IsLetter(r) {
			e.tletters[r] = true
		}
	}
	e.texts = append(e.texts, mcase{fmt.Sprintf("(%s, %s, %s)", lib.GStr(text), lib.GBool(o.Aux["pprinted"] == "1"), obs), in, in.Family == "random", e.failed})
}

// addParse: (tokens, Some value | None) for coq/Model/TokenParse.v
func (e *emitter) addParse(in input, o Obs) {
	e.addText(in, o)
	ts, ok := o.Aux["ptoks"]
	if !ok || o.Aux["pdump"] == "-" {
		return
	}
	for _, f := range strings.Split(o.Aux["pfloats"], "\x00") {
		if f != "" {
			e.pfloats[f] = true
		}
	}
	obs := "(@None pval)"
	if d := o.Aux["pdump"]; d != "" {
		obs = "(Some " + d + ")"
	}
	e.parses = append(e.parses, mcase{fmt.Sprintf("(%s, %s)", ts, obs), in, in.Family == "random", e.failed})
}

func (e *emitter) addType(in input, o Obs) {
	addTypeCase(e, in, o)
}

// pick: all non-random cases first, then random ones, up to the budget
func pick(cs []mcase, budget int) []mcase {
	var out []mcase
	for _, c := range cs {
		if c.failed && len(out) < 20 {
			out = append(out, c)
		}
	}
	for _, c := range cs {
		if c.failed {
			continue
		}
		if !c.random && len(out) < budget {
			out = append(out, c)
		}
	}
	for _, c := range cs {
		if c.random && !c.failed && len(out) < budget {
			out = append(out, c)
		}
	}
	return out
}

func (e *emitter) flush(cfg *lib.Config, res *lib.Result) {
	budget := 1500
	if cfg.Thorough() {
		budget = 12000
	}
	imports := []string{"Model.Base", "Model.QuoteLex", "Corr.CorrC05"}
	write := func(name, typ, obl, expr string, cs []mcase, prelude string) {
		cs = pick(cs, budget)
		// shards of at most 2000 cases
		for sh := 0; sh*2000 < len(cs) || (sh == 0 && len(cs) == 0); sh++ {
			hi := (sh + 1) * 2000
			if hi > len(cs) {
				hi = len(cs)
			}
			cf := &lib.CasesFile{Imports: imports, Typ: typ, Obligations: map[string]string{obl: expr}, Prelude: prelude}
			for _, c := range cs[sh*2000 : hi] {
				cf.Add(c.term, c.in)
			}
			res.CorrFiles = append(res.CorrFiles, cf.WriteTo(cfg.Out, fmt.Sprintf("cases_%s_%d", name, sh)))
		}
	}
	if cfg.Replay != "" {
		// a replay emits only the kinds it has
		budget = 1 << 30
	}
	if len(e.strings) > 0 || cfg.Replay == "" {
		write("strings", "str * str * option str", "string_quote_lex", "string_mismatches cases", e.strings, "")
	}
	if len(e.regexps) > 0 || cfg.Replay == "" {
		write("regexps", "str * str * option str", "regexp_quote_lex", "regexp_mismatches cases", e.regexps, "")
	}
	if len(e.ints) > 0 || cfg.Replay == "" {
		write("ints", "Z * str * option str * option Z", "int_format_lex_parse", "int_mismatches cases", e.ints, "")
	}
	if len(e.lexes) > 0 || cfg.Replay == "" {
		var ls []string
		for r := range e.letters {
			ls = append(ls, lib.GN(uint64(r)))
		}
		sort.Strings(ls)
		write("lex", "str * N * str * option Z", "lexer_literals", "lex_mismatches letters cases", e.lexes,
			"Definition letters : list N := "+lib.GList(ls, "N")+".\n")
	}
	if len(e.parses) > 0 || cfg.Replay == "" {
		var fs []string
		for f := range e.pfloats {
			fs = append(fs, f)
		}
		sort.Strings(fs)
		imports = []string{"Model.Base", "Model.QuoteLex", "Model.TokenParse", "Corr.CorrC05"}
		write("parse", "list tok * option pval", "parser_tokens", "parse_mismatches pfloats cases", e.parses,
			"Definition pfloats : list (str * str) := "+lib.GList(fs, "str * str")+".\n")
	}
	if len(e.texts) > 0 || cfg.Replay == "" {
		var ls []string
		for r := range e.tletters {
			ls = append(ls, lib.GN(uint64(r)))
		}
		sort.Strings(ls)
		imports = []string{"Model.Base", "Model.QuoteLex", "Model.TokenParse", "Model.LiteralText", "Corr.CorrC05"}
		write("text", "str * bool * option (list tok)", "lexer_text_print_lit", "text_mismatches tletters cases", e.texts,
			"Definition tletters : list N := "+lib.GList(ls, "N")+".\n")
	}
	if len(e.values) > 0 || cfg.Replay == "" {
		imports = []string{"Model.Base", "Model.QuoteLex", "Model.TokenParse", "Model.ValuePrint", "Corr.CorrC05"}
		write("values", "list node * ref * option (list tok)", "value_print_graph", "value_mismatches cases", e.values, "")
	}
	if len(e.creates) > 0 || cfg.Replay == "" {
		imports = []string{"Model.Base", "Model.Ty", "Model.QuoteLex", "Model.TypePrint", "Corr.CorrC05"}
		write("create", "tname * list pv * option ty * list ty", "creator_arguments", "create_mismatches cases", e.creates, "")
	}
	if len(e.objects) > 0 || cfg.Replay == "" {
		imports = []string{"Model.Base", "Model.ObjectPrint", "Corr.CorrC05"}
		write("objects", "otab * ihash N N * ores (list oattr) * option (ihash N N)", "object_init_hash", "object_mismatches cases", e.objects, "")
		if len(e.objectsR) > 0 || cfg.Replay == "" {
			write("objects_random", "otab * ihash N N * ores (list oattr) * option (ihash N N)", "object_init_hash_random", "object_mismatches cases", e.objectsR, "")
		}
	}
	if len(e.exts) > 0 || cfg.Replay == "" {
		imports = []string{"Model.Base", "Model.ObjectExt", "Corr.CorrC05"}
		write("ext", "list str * list xval * list (str * xval) * xres (list xval) * option (xres (list xval))", "object_type_extension", "ext_mismatches cases", e.exts, "")
	}
	flushTypes(e, cfg, res, budget)
}
