// Generators of C05: byte-level strings, regexp sources, integers, floats, literal values, type recipes.
package main

import (
	"math"
	"unicode/utf8"

	"verifharness/lat"
	"verifharness/lib"
)

// the nasty alphabet of DESIGN.md 5/C05: every symbol is a byte string (one character, or one invalid byte)
var stringAlphabet = []string{
	"'", "\"", "\\", "$", "\x00", "\t", "\n", "\r", "\x01", "\x1f", "/", " ", "a", "n", "u", "{", "}",
	"\x7f", "é", "€", "\U00010000", "�", "\x80", "\xff", "\xc3",
}

// symbols of regexp sources (each one is valid regexp syntax on its own or next to its neighbours often enough)
var regexpAlphabet = []string{
	"a", ".", "*", "\\\\", "/", "\\/", "\\n", "\n", "\x00", "\\d", "[a/]", "(b|c)", "$", "^", "é", "�", "'", "\"",
	"\\.", "\\x41", "x{2}", " ", "\t", "\\\n", "\\\x00", "+", "?",
}

// words over an alphabet: all of length <= maxLen, in order of length
func allWords(alpha []string, maxLen int, f func(string)) {
	var rec func(prefix string, l int)
	rec = func(prefix string, l int) {
		if l == 0 {
			f(prefix)
			return
		}
		for _, a := range alpha {
			rec(prefix+a, l-1)
		}
	}
	for l := 0; l <= maxLen; l++ {
		rec("", l)
	}
}

func randomWord(r *lib.Rng, alpha []string, n int) string {
	s := ""
	for i := 0; i < n; i++ {
		switch {
		case r.Chance(1, 10):
			// any byte
			s += string([]byte{byte(r.Intn(256))})
		case r.Chance(1, 10):
			// any scalar value
			c := rune(r.Intn(0x110000))
			if c >= 0xd800 && c < 0xe000 {
				c = 0xe000
			}
			s += string(c)
		default:
			s += alpha[r.Intn(len(alpha))]
		}
	}
	return s
}

// strings that are valid UTF-8 only (payloads of types travel through JSON recipes)
func validOnly(alpha []string) []string {
	var out []string
	for _, a := range alpha {
		if utf8.ValidString(a) {
			out = append(out, a)
		}
	}
	return out
}

func interestingInts() []int64 {
	is := []int64{0, 1, -1, 9, 10, -10, 99, 100, 255, 256, 1 << 31, -(1 << 31), 1<<32 - 1, 1 << 53, math.MaxInt64, math.MinInt64,
		math.MaxInt64 - 1, math.MinInt64 + 1, 1000000000000000000, -1000000000000000000, 999999999999999999, 8, 7, 64, 777, 808}
	p := int64(1)
	for i := 0; i < 18; i++ {
		p *= 10
		is = append(is, p, p-1, p+1, -p, -p+1, -p-1)
	}
	for i := uint(1); i < 63; i++ {
		is = append(is, 1<<i, 1<<i-1, -(1 << i))
	}
	return is
}

func interestingFloats() []float64 {
	fs := []float64{0, math.Copysign(0, -1), 1, -1, 0.1, -0.1, 0.5, 1.5, 2.5, 100000, 1000000, 999999, 123456, 1234567, 0.0001, 0.00001,
		1e20, 1e21, 1e22, 1e-5, 1e-7, 1e100, 1e-100, 1e308, -1e308, 1e-308, math.MaxFloat64, -math.MaxFloat64, math.SmallestNonzeroFloat64,
		-math.SmallestNonzeroFloat64, 2.2250738585072014e-308, 2.225073858507201e-308, 1.7976931348623157e308, 0.30000000000000004,
		1.2345678901234567, 12345678.901234567, 9007199254740993, 9007199254740992, 4.35, 1e15, 1e16, 1e17, 123456789012345680000,
		5e-324, 3.141592653589793, 2.718281828459045, 1 / 3.0, 2 / 3.0, 1e6, 1e5, 12345.6, 123456.7, 100, 10, 1e3, 1e4}
	for e := -30; e <= 30; e++ {
		fs = append(fs, math.Pow(10, float64(e)), 3*math.Pow(10, float64(e)), -7.5*math.Pow(10, float64(e)))
	}
	return fs
}

func randomFiniteFloat(r *lib.Rng) float64 {
	for {
		var f float64
		switch r.Intn(4) {
		case 0:
			f = math.Float64frombits(r.Next())
		case 1:
			// 17 significant digits, moderate exponent
			f = (float64(r.Next()%100000000000000000) / 1e16) * math.Pow(10, float64(r.Intn(40)-20))
		case 2:
			f = float64(int64(r.Next()>>11)) / float64(int64(1)<<uint(r.Intn(60)))
		default:
			f = float64(r.Intn(2000000)-1000000) / 100
		}
		if !math.IsNaN(f) && !math.IsInf(f, 0) {
			return f
		}
	}
}

// ---------------------------------------------------------------------------------------------
// types

var nastyPayloads = []string{"", "a", "A", "ab", "a b", "'", "\"", "\\", "a\\b", "a'b", "a\"b", "$", "${x}", "\n", "\t", "\r", "\x00", "\x01", "\x1f",
	"é", "€", "\U00010000", "a\nb'", "\\n", "\\'", "x\\", "'\\", "/", "#", "a,b", "[", "]", "{", "=>", "\x7f", "default", "undef", "true", "Integer"}

func sizesOf() [][2]int64 {
	return [][2]int64{{0, lat.Max}, {0, 0}, {1, 1}, {0, 1}, {1, 2}, {2, 5}, {1, lat.Max}, {3, 3}, {0, 10}, {5, lat.Max}, {lat.Max, lat.Max}}
}

func rcp(k string) *Recipe           { return &Recipe{K: k, Bool: -1} }
func rInt(lo, hi int64) *Recipe      { return &Recipe{K: "Integer", Lo: lo, Hi: hi} }
func rW(k string, t *Recipe) *Recipe { return &Recipe{K: k, Sub: []*Recipe{t}} }
func rArr(e *Recipe, lo, hi int64) *Recipe {
	return &Recipe{K: "Array", Sub: []*Recipe{e}, Lo: lo, Hi: hi}
}
func rHash(k, v *Recipe, lo, hi int64) *Recipe {
	return &Recipe{K: "Hash", Sub: []*Recipe{k, v}, Lo: lo, Hi: hi}
}
func rTup(ts ...*Recipe) *Recipe { return &Recipe{K: "Tuple", Sub: ts} }
func rTupSz(lo, hi int64, ts ...*Recipe) *Recipe {
	return &Recipe{K: "Tuple", Sub: ts, HasSize: true, Lo: lo, Hi: hi}
}
func rVar(ts ...*Recipe) *Recipe          { return &Recipe{K: "Variant", Sub: ts} }
func rEnum(ci bool, vs ...string) *Recipe { return &Recipe{K: "Enum", CI: ci, Strs: vs} }
func rStruct(names []string, kinds []int, ts ...*Recipe) *Recipe {
	return &Recipe{K: "Struct", Names: names, KeyKind: kinds, Sub: ts}
}

// cornerTypes: the parameter corner cases of every constructor the printer/parser pair must agree on
func cornerTypes() []*Recipe {
	var out []*Recipe
	anyT, strT, intT := rcp("Any"), rcp("String"), rInt(lat.Min, lat.Max)
	// Integer / Float / String size / Collection bounds
	for _, lo := range []int64{lat.Min, lat.Min + 1, -1, 0, 1, 5, lat.Max - 1, lat.Max} {
		for _, hi := range []int64{lat.Min, -1, 0, 1, 5, 6, lat.Max - 1, lat.Max} {
			if lo <= hi {
				out = append(out, rInt(lo, hi))
			}
		}
	}
	for _, lo := range []float64{-math.MaxFloat64, -1.5, 0, math.Copysign(0, -1), 1, 2.5, 1e21, 1e-7, 100000, 0.1} {
		for _, hi := range []float64{-1.5, 0, 1, 2.5, 1e21, 1e22, 100000, 1e100, math.MaxFloat64, 0.30000000000000004} {
			if lo <= hi {
				out = append(out, &Recipe{K: "Float", FLo: lo, FHi: hi})
			}
		}
	}
	for _, sz := range sizesOf() {
		out = append(out, &Recipe{K: "StringSz", Lo: sz[0], Hi: sz[1]}, &Recipe{K: "Collection", Lo: sz[0], Hi: sz[1]},
			rArr(anyT, sz[0], sz[1]), rArr(intT, sz[0], sz[1]), rArr(rcp("Unit"), sz[0], sz[1]),
			rHash(anyT, anyT, sz[0], sz[1]), rHash(strT, intT, sz[0], sz[1]), rHash(rcp("Unit"), rcp("Unit"), sz[0], sz[1]),
			rHash(strT, anyT, sz[0], sz[1]), rHash(anyT, intT, sz[0], sz[1]),
			rTupSz(sz[0], sz[1]), rTupSz(sz[0], sz[1], intT), rTupSz(sz[0], sz[1], intT, strT), rTupSz(sz[0], sz[1], intT, strT, anyT),
			&Recipe{K: "Callable", Sub: []*Recipe{strT}, HasSize: true, Lo: sz[0], Hi: sz[1]})
	}
	// a String size without lower bound prints with default (fix d2e056c)
	out = append(out, &Recipe{K: "StringSz", Lo: lat.Min, Hi: 3}, &Recipe{K: "StringSz", Lo: lat.Min, Hi: lat.Max}, &Recipe{K: "StringSz", Lo: -5, Hi: 5},
		&Recipe{K: "StringSz", Lo: lat.Min, Hi: 0}, rW("Optional", &Recipe{K: "StringSz", Lo: lat.Min, Hi: 7}))
	out = append(out, rTup(), rTup(intT), rTup(intT, strT), rTup(rInt(0, 5)), rTup(rInt(0, 5), rInt(1, 1)), rTup(rTup()), rTup(rTupSz(0, 0)),
		rTupSz(0, 0, rInt(1, 2)), rTup(rArr(anyT, 0, lat.Max)), rTup(rTup(intT), rTup(strT, intT)))
	// strings inside types
	for _, p := range nastyPayloads {
		out = append(out, rEnum(false, p), rEnum(true, p), rEnum(false, "x", p), &Recipe{K: "StringVal", S: p},
			rW("Optional", &Recipe{K: "StringVal", S: p}), rW("NotUndef", &Recipe{K: "StringVal", S: p}),
			rStruct([]string{p}, []int{0}, intT), rStruct([]string{p}, []int{1}, intT), rStruct([]string{p}, []int{2}, rW("Optional", intT)),
			&Recipe{K: "TypeRef", S: p}, &Recipe{K: "Runtime", S: "go", S2: p})
	}
	out = append(out, rEnum(false), rEnum(true), rEnum(false, "a", "b", "c"), rEnum(true, "a", "B"), rEnum(false, "a", "a"))
	for _, p := range []string{"", "a", "^a+$", ".*", "a/b", "\\d+", "a\\\\b", "\\.", "[a-z]", "(a|b)", "'", "\"", "$", "é", "x{2,3}", "\\x41", " ", "a b"} {
		out = append(out, &Recipe{K: "Pattern", Strs: []string{p}}, &Recipe{K: "Regexp", S: p}, &Recipe{K: "Pattern", Strs: []string{"q", p}})
	}
	out = append(out, &Recipe{K: "Pattern"})
	// structs
	opt := rW("Optional", intT)
	out = append(out, rStruct(nil, nil),
		rStruct([]string{"a", "b"}, []int{0, 0}, intT, strT), rStruct([]string{"a", "b"}, []int{1, 0}, intT, strT),
		rStruct([]string{"a", "b"}, []int{2, 2}, opt, anyT), rStruct([]string{"a"}, []int{0}, opt), rStruct([]string{"a"}, []int{0}, anyT),
		rStruct([]string{"a"}, []int{2}, anyT), rStruct([]string{"a"}, []int{0}, rW("NotUndef", anyT)), rStruct([]string{"a"}, []int{1}, rW("NotUndef", anyT)),
		rStruct([]string{"a"}, []int{1}, opt), rStruct([]string{"a"}, []int{0}, rcp("Undef")), rStruct([]string{"a"}, []int{2}, rcp("Undef")),
		rStruct([]string{"Aa", "b_c", "d1"}, []int{0, 1, 2}, intT, strT, anyT),
		rStruct([]string{"a"}, []int{0}, rStruct([]string{"b"}, []int{1}, rArr(intT, 0, 3))))
	// a Struct value that accepts undef and holds a Tuple whose `size != nil` flag changes on the way through the text (a Tuple without
	// slots is built without a size and prints as Tuple[0, 0]; a Tuple sized by its own length prints without the size): the key of the
	// reparsed Struct is decided on the reparsed value (thorough tier seed 1, cases_types_14 case 107: the oracle lookup of the tie compared the flag)
	for _, tp := range []*Recipe{rTup(), rTupSz(0, 0), rTupSz(1, 1, intT), rTup(rTup()), rTup(rTupSz(1, 1, strT))} {
		for _, kind := range []int{0, 1, 2} {
			out = append(out, rStruct([]string{"c"}, []int{kind}, rVar(rW("Optional", strT), tp)), rStruct([]string{"c"}, []int{kind}, rW("Optional", tp)),
				rStruct([]string{"a", "b", "c"}, []int{1, 2, kind}, rInt(5, 5), &Recipe{K: "Pattern", Strs: []string{".*"}},
					rVar(rW("Optional", strT), &Recipe{K: "Float", FLo: 2.5, FHi: 5.5}, tp)))
		}
	}
	// wrappers, variants, nesting
	for _, w := range []string{"Optional", "NotUndef", "Type", "Sensitive", "Iterable", "Iterator"} {
		for _, e := range []*Recipe{anyT, intT, strT, rcp("Undef"), rInt(0, 5), rEnum(false, "a", "b"), rW("Optional", intT), rW("Type", intT),
			rTup(intT), rVar(intT, strT), rcp("Unit"), rcp("Default"), rcp("Callable"), rArr(anyT, 0, lat.Max)} {
			out = append(out, rW(w, e))
		}
	}
	out = append(out, rVar(), rVar(intT), rVar(intT, strT), rVar(intT, intT), rVar(rVar(intT, strT), rcp("Undef")), rVar(rcp("Undef"), intT),
		rVar(rInt(0, 5), rInt(3, 7)), rVar(rEnum(false, "a"), rEnum(false, "b")), rVar(anyT, intT))
	// callables
	out = append(out, rcp("Callable"),
		&Recipe{K: "Callable", Sub: []*Recipe{strT, intT}},
		&Recipe{K: "Callable", Sub: []*Recipe{strT}, Ret: intT},
		&Recipe{K: "Callable", Sub: []*Recipe{}, HasSize: true, Lo: 0, Hi: 0},
		&Recipe{K: "Callable", Sub: []*Recipe{}, HasSize: true, Lo: 0, Hi: 0, Ret: strT},
		&Recipe{K: "Callable", Sub: []*Recipe{strT}, Block: rcp("Callable")},
		&Recipe{K: "Callable", Sub: []*Recipe{strT}, Block: rW("Optional", rcp("Callable"))},
		&Recipe{K: "Callable", Sub: []*Recipe{strT}, Block: rcp("Callable"), Ret: intT},
		&Recipe{K: "Callable", Sub: []*Recipe{rcp("Callable")}},
		&Recipe{K: "Callable", Sub: []*Recipe{strT, rcp("Callable")}},
		&Recipe{K: "Callable", Sub: []*Recipe{strT, intT}, HasSize: true, Lo: 1, Hi: 2},
		&Recipe{K: "Callable", Sub: []*Recipe{strT, intT}, HasSize: true, Lo: 2, Hi: lat.Max},
		&Recipe{K: "Callable", Sub: []*Recipe{rTup(intT)}},
		&Recipe{K: "Callable", Sub: []*Recipe{rTup(intT)}, Ret: intT},
	)
	// atoms without parameters
	for _, k := range []string{"Any", "Unit", "Undef", "Default", "Boolean", "FloatDefault", "Numeric", "Scalar", "ScalarData", "String", "Binary",
		"Data", "RichData", "Timespan", "Timestamp", "SemVer"} {
		out = append(out, rcp(k))
	}
	out = append(out, &Recipe{K: "Boolean", Bool: 0}, &Recipe{K: "Boolean", Bool: 1},
		&Recipe{K: "TimespanR", Lo: 0, Hi: 1000000000}, &Recipe{K: "TimespanR", Lo: 1500000000, Hi: 3600000000000},
		&Recipe{K: "TypeRef", S: "Foo::Bar"}, &Recipe{K: "TypeRef", S: "Foo[1,2]"}, &Recipe{K: "Runtime", S: "go", S2: "foo.Bar"})
	return out
}

func randomRecipe(r *lib.Rng, depth int) *Recipe {
	if depth > 0 && r.Chance(1, 6) {
		// an extra kind of this property around a random type
		sub := randomRecipe(r, depth-1)
		switch r.Intn(5) {
		case 0:
			return &Recipe{K: "Callable", Sub: []*Recipe{sub, randomRecipe(r, depth-1)}}
		case 1:
			return &Recipe{K: "Callable", Sub: []*Recipe{sub}, Ret: randomRecipe(r, depth-1)}
		case 2:
			return rW("Iterator", sub)
		case 3:
			return rEnum(r.Bool(), randomWord(r, validOnly(stringAlphabet), r.Intn(4)), randomWord(r, validOnly(stringAlphabet), r.Intn(3)))
		default:
			return rStruct([]string{randomWord(r, validOnly(stringAlphabet), 1+r.Intn(3))}, []int{r.Intn(3)}, sub)
		}
	}
	return fromSpec(lat.RandomType(r, depth))
}

// ---------------------------------------------------------------------------------------------
// literal values (recipes of harness/lat)

func randomValue(r *lib.Rng, depth int) *lat.VSpec {
	va := validOnly(stringAlphabet)
	if depth <= 0 || r.Chance(1, 3) {
		switch r.Intn(8) {
		case 0:
			return lat.VU()
		case 1:
			return &lat.VSpec{K: "Default"}
		case 2:
			return lat.VB(r.Bool())
		case 3:
			is := interestingInts()
			return lat.VI(is[r.Intn(len(is))])
		case 4:
			return lat.VF(randomFiniteFloat(r))
		case 5:
			return &lat.VSpec{K: "Regexp", S: []string{"a", "^a+$", "a/b", "\\d", ".*", "[a-z]"}[r.Intn(6)]}
		case 6:
			return lat.VT(lat.RandomType(r, 1))
		default:
			return lat.VS(randomWord(r, va, r.Intn(5)))
		}
	}
	n := r.Intn(4)
	if r.Bool() {
		vs := make([]*lat.VSpec, n)
		for i := range vs {
			vs[i] = randomValue(r, depth-1)
		}
		return lat.VA(vs...)
	}
	var kvs []*lat.VSpec
	for i := 0; i < n; i++ {
		var k *lat.VSpec
		switch r.Intn(3) {
		case 0:
			k = lat.VS(randomWord(r, va, 1+r.Intn(3)) + string(rune('a'+i)))
		case 1:
			k = lat.VI(int64(i*7 - 3))
		default:
			k = lat.VS(string(rune('a' + i)))
		}
		kvs = append(kvs, k, randomValue(r, depth-1))
	}
	return lat.VH(kvs...)
}

func cornerValues() []*lat.VSpec {
	vs := []*lat.VSpec{lat.VU(), {K: "Default"}, lat.VB(true), lat.VB(false), lat.VA(), lat.VH(), lat.VA(lat.VA()), lat.VA(lat.VH()),
		lat.VA(lat.VU(), lat.VU()), lat.VH(lat.VS("a"), lat.VU()), lat.VH(lat.VU(), lat.VI(1)), lat.VH(lat.VI(1), lat.VS("x"), lat.VI(2), lat.VA(lat.VI(3))),
		lat.VA(lat.VS("default"), lat.VS("undef"), lat.VS("true"), lat.VS("x"), lat.VS("Integer"), lat.VS("type")),
		lat.VH(lat.VS("type"), lat.VI(1)), lat.VS("type"), lat.VA(lat.VS("type")),
		lat.VH(lat.VA(lat.VI(1)), lat.VH(lat.VS("k"), lat.VA())), lat.VH(lat.VB(true), lat.VB(false)), lat.VH(lat.VF(1.5), lat.VF(-0.0)),
		lat.VA(lat.VT(lat.Int(0, 5)), lat.VT(lat.A("String")), lat.VT(lat.Arr(lat.Int(lat.Min, lat.Max), 0, lat.Max))),
		lat.VT(lat.Tup(lat.Int(0, 5))), lat.VT(lat.Struct(lat.Member{Name: "a", Kind: 1, T: lat.A("String")})),
		lat.VH(lat.VT(lat.A("String")), lat.VT(lat.A("Any"))),
		{K: "Regexp", S: "a"}, {K: "Regexp", S: "a/b"}, {K: "Regexp", S: ""}, lat.VA(&lat.VSpec{K: "Regexp", S: "\\d+"}),
		lat.VI(lat.Min), lat.VI(lat.Max), lat.VA(lat.VI(lat.Min), lat.VI(-1)), lat.VH(lat.VI(lat.Min), lat.VI(lat.Max)),
	}
	return vs
}
