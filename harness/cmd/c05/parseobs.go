// Observation for layer L2: the token stream of a text and the value types.Parse makes of it (unresolved),
// as terms of coq/Model/TokenParse.v.
package main

import (
	"fmt"
	"math"
	"strconv"
	"strings"

	"github.com/lyraproj/pcore/px"
	"github.com/lyraproj/pcore/types"

	"verifharness/lib"
)

var tokCtor = map[int]string{0: "KEnd", 7: "KLBracket", 8: "KRBracket", 9: "KLBrace", 10: "KRBrace", 11: "KLParen", 12: "KRParen",
	13: "KComma", 14: "KDot", 15: "KRocket", 16: "KEqual"}
var tokCtorS = map[int]string{1: "KName", 2: "KIdent", 3: "KInt", 4: "KFloat", 5: "KRegexp", 6: "KString"}

type unsupported struct{ what string }

// dumpPval prints a parsed value as a term of type pval; a float is PVFloat of the decimal text of its bits
func dumpPval(v px.Value, depth int) string {
	if depth > 100 {
		panic(unsupported{"too deep"})
	}
	switch x := v.(type) {
	case *types.UndefValue:
		return "PVUndef"
	case *types.DefaultValue:
		return "PVDefault"
	case px.Boolean:
		return "(PVBool " + lib.GBool(x.Bool()) + ")"
	case px.Integer:
		return "(PVInt " + lib.GZ(x.Int()) + ")"
	case px.Float:
		return "(PVFloat " + lib.GStr(strconv.FormatUint(math.Float64bits(x.Float()), 10)) + ")"
	case px.StringValue:
		return "(PVStr " + lib.GStr(x.String()) + ")"
	case *types.Regexp:
		return "(PVRegexp " + lib.GStr(x.PatternString()) + ")"
	case *types.DeferredType:
		ps := x.Parameters()
		if ps == nil {
			return "(PVType " + lib.GStr(x.Name()) + " None)"
		}
		es := make([]string, len(ps))
		for i, e := range ps {
			es[i] = dumpPval(e, depth+1)
		}
		return "(PVType " + lib.GStr(x.Name()) + " (Some " + lib.GList(es, "pval") + "))"
	case *types.Array:
		es := []string{}
		x.Each(func(e px.Value) { es = append(es, dumpPval(e, depth+1)) })
		return "(PVArr " + lib.GList(es, "pval") + ")"
	case *types.Hash:
		es := []string{}
		x.EachPair(func(k, e px.Value) { es = append(es, "("+dumpPval(k, depth+1)+", "+dumpPval(e, depth+1)+")") })
		return "(PVHash " + lib.GList(es, "pval * pval") + ")"
	}
	panic(unsupported{fmt.Sprintf("%T", v)})
}

// parseObs records in aux: ptoks (the tokens, or "" when the lexer failed), pfloats (float token texts with the bits
// strconv.ParseFloat gives), prx (regexp token texts with whether they compile), pdump (the parsed value, "" = error,
// "-" = a value outside the model)
func parseObs(text string, aux map[string]string) {
	toks, failure, _, _ := types.VerifTokens(text)
	// the text itself and whether the lexer read all of it: the tie of the whole-text lexer model (Model/LiteralText.v)
	aux["ptext"] = hx(text)
	if failure != nil {
		aux["plexfail"] = "1"
		return
	}
	var ts, fl []string
	for i, t := range toks {
		if i == 0 && t.Kind == 2 && t.Text == "type" {
			return // the alias form `type X = ...` is not in the model
		}
		if c, ok := tokCtor[t.Kind]; ok {
			ts = append(ts, c)
		} else {
			ts = append(ts, "("+tokCtorS[t.Kind]+" "+lib.GStr(t.Text)+")")
		}
		if t.Kind == 4 {
			if f, err := strconv.ParseFloat(t.Text, 64); err == nil {
				fl = append(fl, "("+lib.GStr(t.Text)+", "+lib.GStr(strconv.FormatUint(math.Float64bits(f), 10))+")")
			}
		}
	}
	// the end token is implicit in the model (next of an empty list)
	ts = ts[:len(ts)-1]
	aux["ptoks"] = lib.GList(ts, "tok")
	aux["pfloats"] = strings.Join(fl, "\x00")
	var v px.Value
	c, _ := guard(func() { v = types.Parse(text) })
	if c != "ok" {
		aux["pdump"] = ""
		return
	}
	func() {
		defer func() {
			if r := recover(); r != nil {
				if _, ok := r.(unsupported); ok {
					aux["pdump"] = "-"
					return
				}
				panic(r)
			}
		}()
		aux["pdump"] = dumpPval(v, 0)
	}()
}
