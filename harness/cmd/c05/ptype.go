// Types built by the PARSER (not by the Go constructors): a corpus of type texts in every argument form the
// creators accept - the forms Parameters() writes and the alternative ones (a list as the single argument of
// Tuple / Callable / Enum / Pattern / Struct, an Integer type for a size, default for a bound, an empty list, an
// empty hash). Every text that ParseType accepts denotes a type T, and the property speaks of every type.
// M: the creator on the parsed arguments against `create` of coq/Model/TypePrint.v (cases_create_*.v).
package main

import (
	"fmt"
	"strings"

	"github.com/lyraproj/pcore/pcore"
	"github.com/lyraproj/pcore/px"
	"github.com/lyraproj/pcore/types"

	"verifharness/lat"
	"verifharness/lib"
)

func ptypeCorpus() []string {
	var out []string
	add := func(format string, a ...interface{}) { out = append(out, fmt.Sprintf(format, a...)) }
	lists := []string{"", "Integer", "Integer, String", "Integer[0, 5], Optional[String]", "Array[Integer], Hash[String, Integer]",
		"Any", "Unit", "Tuple[Integer], String", "String, Integer, Float", "Variant[Integer, String]", "Enum['a', 'b']"}
	sizes := []string{"0, 0", "0", "1", "1, 1", "1, 2", "0, default", "2, default", "3, 3", "0, 1", "2", "5, 10", "default"}
	// a list (also the empty one) as the single argument, with and without a size
	for _, l := range lists {
		add("Tuple[[%s]]", l)
		add("Tuple[[%s], Integer]", l)
		add("Callable[[%s]]", l)
		add("Callable[[%s], String]", l)
		if l != "" {
			add("Tuple[%s]", l)
			add("Callable[%s]", l)
			add("Callable[[%s, Callable]]", l)
			add("Callable[[%s, Optional[Callable]], Integer]", l)
			add("Variant[%s]", l)
		}
		for _, sz := range sizes {
			add("Tuple[[%s], Integer[%s]]", l, sz)
			if l == "" {
				add("Tuple[%s]", sz)
				add("Callable[%s]", sz)
			} else {
				add("Tuple[%s, %s]", l, sz)
				add("Callable[%s, %s]", l, sz)
				add("Callable[[%s, %s]]", l, sz)
			}
		}
	}
	// Enum / Pattern / Struct with a list
	for _, vs := range []string{"", "'a'", "'a', 'b'", "'A', 'b', 'C'", "'a', 'a'", "''", "'true'", "'x y'"} {
		add("Enum[[%s]]", vs)
		add("Enum[[%s], true]", vs)
		add("Enum[[%s], false]", vs)
		add("Enum[[%s], 'z']", vs)
		if vs != "" {
			add("Enum[%s]", vs)
			add("Enum[%s, true]", vs)
			add("Enum[%s, false]", vs)
		}
	}
	for _, rs := range []string{"", "/a/", "/a/, /b+/", "'a'", "'a', /b/", "Regexp[/c/]", "Regexp[/c/], 'd', /e/", "Regexp"} {
		add("Pattern[[%s]]", rs)
		if rs != "" {
			add("Pattern[%s]", rs)
		}
	}
	for _, h := range []string{"", "'a' => Integer", "'a' => Integer, 'b' => Optional[String]", "Optional['a'] => Integer", "NotUndef['a'] => Any",
		"a => Integer", "'a' => Undef", "Optional['a'] => Optional[Integer], NotUndef['b'] => Optional[Integer], 'c' => Optional[Integer]",
		"'a' => Struct[{'b' => Tuple[[Integer]]}]", "'' => Integer", "1 => Integer", "'a' => 1"} {
		add("Struct[{%s}]", h)
		add("Struct[[{%s}]]", h)
	}
	add("Struct[[]]")
	// sizes and bounds in every form
	for _, sz := range append([]string{"Integer", "Integer[1, 2]", "Integer[0, 0]", "Integer[1]", "Integer[default, 3]", "default, default", "default, 2", "2, 1"}, sizes...) {
		add("Array[Integer, %s]", sz)
		add("Array[%s]", sz)
		add("Hash[String, Integer, %s]", sz)
		add("Hash[%s]", sz)
		add("Collection[%s]", sz)
		add("String[%s]", sz)
		add("Integer[%s]", sz)
	}
	out = append(out, "Integer[default]", "Integer[default, 5]", "Integer[-5, default]", "Integer[0x10, 0x20]", "Integer[010]", "Integer[-0]",
		"Float[default, 1.5]", "Float[1.5]", "Float[1.0, 2.0]", "Float[default, default]", "Float[1, 2]", "Float[-1.5e3, 1.5E3]", "Float[2.0, 1.0]",
		"Boolean[true]", "Boolean[false]", "Boolean['true']", "String[1, 1]", "String[Integer[1, 2]]", "Array[Array[Integer, 1], 1]",
		"Array[Integer[1, 2]]", "Array[Unit, 0, 0]", "Array[Any, 0, 0]", "Array[Any]", "Array[0, 0]", "Array[Integer, 1, 2, 3]", "Hash[Unit, Unit, 0, 0]", "Hash[0, 0]",
		"Hash[String]", "Hash[String, Integer, 1, 2, 3]", "Hash[Any, Any]", "Hash[Integer[1, 2], Integer[3, 4]]",
		"Optional['a']", "NotUndef['a']", "Optional[Any]", "NotUndef[Any]", "Optional[Optional[Integer]]", "Optional[Integer, String]", "Optional[1]",
		"Variant[Integer]", "Variant[Integer, Variant[String, Float]]", "Variant[Variant[Integer]]", "Variant[Integer, Integer]", "Variant[1]",
		"Type[Type]", "Type[Integer[0, 5]]", "Type[Any]", "Type[1]", "Sensitive[String]", "Sensitive[Any]", "Iterable[Integer]", "Iterator[Integer]",
		"Regexp['a']", "Regexp[/a/]", "Regexp[/a\\/b/]", "Regexp['']", "Regexp[//]", "Regexp[/a/, /b/]", "Pattern['a', /b/, Regexp[/c/]]",
		"Enum['a', 'b', true]", "Enum[true]", "Enum[false]", "Enum['a', 1]", "Enum[1]",
		"Tuple[ [ ] ]", "Tuple[[\n]]", "Tuple[[Integer,],]", "Tuple[[[Integer]]]", "Tuple[[Integer], 1, 2]", "Tuple[[Integer], 'x']", "Tuple[Integer, [String]]",
		"Tuple[[Integer, 1, 2]]", "Tuple[[1, 2]]", "Tuple[[0, 0]]", "Tuple[[default]]", "Tuple[[Integer], Integer[1, 2], Integer]",
		"Callable[[0, 0]]", "Callable[[], Callable]", "Callable[[Callable]]", "Callable[Integer, Integer[1, 2]]",
		"Any", "Unit", "Undef", "Default", "Boolean", "Integer", "Float", "Numeric", "Scalar", "ScalarData", "String", "Enum", "Pattern", "Regexp", "Binary",
		"Collection", "Array", "Hash", "Tuple", "Struct", "Variant", "Optional", "NotUndef", "Type", "Sensitive", "Callable", "Iterable", "Iterator",
		"Data", "RichData", "Timespan", "Timestamp", "SemVer", "Runtime['go', 'x']", "TypeReference['Foo']",
	)
	return out
}

// ptypeTags: the open-finding classes of a type text. C05-callable-parameters-ambiguous: the first parameter type
// of a Callable is a Tuple
func ptypeTags(text string) []string {
	if strings.HasPrefix(text, "Callable[Tuple[") || strings.HasPrefix(text, "Callable[[Tuple[") {
		return []string{"callable-parameters-ambiguous"}
	}
	return nil
}

var tnameCtor = map[string]string{"Any": "NAny", "Unit": "NUnit", "Undef": "NUndef", "Default": "NDefault", "Boolean": "NBoolean", "Integer": "NInteger",
	"Float": "NFloat", "Numeric": "NNumeric", "Scalar": "NScalar", "ScalarData": "NScalarData", "String": "NString", "Enum": "NEnum", "Pattern": "NPattern",
	"Regexp": "NRegexp", "Binary": "NBinary", "Collection": "NCollection", "Array": "NArray", "Hash": "NHash", "Tuple": "NTuple", "Struct": "NStruct",
	"Variant": "NVariant", "Optional": "NOptional", "NotUndef": "NNotUndef", "Type": "NType", "Sensitive": "NSensitive"}

// gPv: a resolved creator argument as a term of type pv (gpv ty); panics with unsupported outside the model
func gPv(v px.Value, depth int) string {
	if depth > 50 {
		panic(unsupported{"too deep"})
	}
	switch x := v.(type) {
	case *types.UndefValue:
		return "GUndef"
	case *types.DefaultValue:
		return "GDefault"
	case px.Boolean:
		return "(GBool " + lib.GBool(x.Bool()) + ")"
	case px.Integer:
		return "(GInt " + lib.GZ(x.Int()) + ")"
	case px.Float:
		return "(GFloat " + lib.GZ(types.VerifFloatKey(x.Float())) + ")"
	case px.StringValue:
		return "(GStr " + lib.GStr(x.String()) + ")"
	case *types.Regexp:
		return "(GRegexp " + lib.GStr(x.PatternString()) + ")"
	case *types.Array:
		es := []string{}
		x.Each(func(e px.Value) { es = append(es, gPv(e, depth+1)) })
		return "(GArr " + lib.GList(es, "pv") + ")"
	case *types.Hash:
		es := []string{}
		x.EachPair(func(k, e px.Value) { es = append(es, "("+gPv(k, depth+1)+", "+gPv(e, depth+1)+")") })
		return "(GHash " + lib.GList(es, "pv * pv") + ")"
	case px.Type:
		d := types.VerifDecodeType(x)
		if !lat.InModel(d) {
			panic(unsupported{"type outside the model"})
		}
		return "(GTy " + lat.GTy(d) + ")"
	}
	panic(unsupported{fmt.Sprintf("%T", v)})
}

func isASCII(s string) bool {
	for i := 0; i < len(s); i++ {
		if s[i] >= 0x80 {
			return false
		}
	}
	return true
}

// createObs records in aux: cname (constructor of tname), cargs (the resolved arguments, list pv) of the outermost
// type expression of the text. Nothing when the text is not Name[...] of a modelled name or an argument is outside
// the model (or not ASCII: the model's strings.ToLower is the ASCII one).
func createObs(text string, aux map[string]string) {
	if !isASCII(text) {
		return
	}
	var parsed px.Value
	if c, _ := guard(func() { parsed = types.Parse(text) }); c != "ok" {
		return
	}
	dt, ok := parsed.(*types.DeferredType)
	if !ok || len(dt.Parameters()) == 0 {
		return
	}
	ctor, ok := tnameCtor[dt.Name()]
	if !ok {
		return
	}
	var args px.Value
	c, _ := guard(func() {
		pcore.Do(func(ctx px.Context) {
			args = types.ResolveDeferred(ctx, types.WrapValues(dt.Parameters()), px.EmptyMap)
		})
	})
	if c != "ok" {
		return // an argument does not resolve: the creator is not reached
	}
	func() {
		defer func() {
			if r := recover(); r != nil {
				if _, ok := r.(unsupported); !ok {
					panic(r)
				}
			}
		}()
		es := []string{}
		args.(*types.Array).Each(func(e px.Value) { es = append(es, gPv(e, 0)) })
		aux["cargs"] = lib.GList(es, "pv")
		aux["cname"] = ctor
	}()
}

// parseTypeText: ctx.ParseType(text)
func parseTypeText(text string) (t px.Type, class, msg string) {
	class, msg = guard(func() {
		pcore.Do(func(ctx px.Context) { t = ctx.ParseType(text) })
	})
	return
}

// addCreate: (name, arguments, Some T | None when the creator reports an error, the nested types accepting undef)
func (e *emitter) addCreate(in input, o Obs) {
	if o.Aux["cname"] == "" {
		return
	}
	obs := "(@None ty)"
	au := "(@nil ty)"
	if o.Class != "nobuild" {
		var ok bool
		if obs, au, ok = decodedWithAu(o); !ok {
			return
		}
		obs = "(Some " + obs + ")"
	} else if !strings.HasPrefix(o.Aux["buildclass"], "reported:") {
		return // a runtime fault is not an answer of the creator (and a violation elsewhere)
	}
	e.creates = append(e.creates, mcase{fmt.Sprintf("(%s, %s, %s, %s)", o.Aux["cname"], o.Aux["cargs"], obs, au), in, false, e.failed})
}

// pvalueCorpus: literal values given by their text (built by the parser and the resolver, not by WrapValues /
// WrapHash): empty containers in every position, the alternative type forms as values, every literal syntax
func pvalueCorpus() []string {
	return []string{
		"[]", "{}", "[[]]", "[{}]", "[[], []]", "[{}, {}]", "[[], {}, [[]], [{}]]", "{[] => {}, {} => []}", "{'a' => [], 'b' => [], 'c' => {}}",
		"[[], [[], [[], []]]]", "{'a' => {'b' => {'c' => {}}}}", "[1, [2, [3, [4, []]]]]", "[ ]", "{ }", "[\n]", "[[ ], { }]",
		"[Tuple[[]], Callable[[]]]", "{'a' => Tuple[[]], 'b' => [], 'c' => Callable[[]]}", "[Tuple[[]], Tuple[[]], []]", "Tuple[[]]", "Callable[[]]",
		"[Enum[[]], Pattern[[]], Struct[[]], Struct[{}]]", "[Tuple[[Integer]], Tuple[[Integer], Integer[1, 2]], Callable[[Integer], String]]",
		"[Callable[[], String], Callable[[], Callable]]", "[Enum[['a', 'b']], Enum[[], true], Pattern[[/a/]], Struct[[{'a' => Integer}]]]",
		"[Array[0, 0], Hash[0, 0], Array[Integer, 0, 0]]", "{Tuple[[]] => Tuple[[]]}", "{Integer => String, String => Integer}",
		"[0x10, 010, 0, -0, -1, 1e3, 1.0e-3, 1.5, -1.5E+3]", "[9223372036854775807, -9223372036854775808]",
		"['a', \"a\", \"\\u{41}\", 'it\\'s', \"q\\\"q\", '']", "[undef, default, true, false]", "[/a/, /a\\/b/, //]", "[a, b]", "{a => 1, b => [c]}",
		"[1, 2, ]", "{'a' => 1, }", "[a => 1, b => 2]", "[1, a => 2, 3]", "[a => 1, 2, b => 3, c => 4]", "[[a => 1]]", "{'a' => [b => 2]}",
		"[1,2,3]", "{'a'=>1,'b'=>2}", "[ 1 , 2 ]", "[\n1,\n2\n]", "{'x' => [1, {'y' => [2, {'z' => []}]}]}",
		"[Integer, Integer[1], Integer[1, 2], Integer[default, 2], String[default, 3], Float[1.5], Float[default, 2.5]]",
		"[Optional['a'], NotUndef['b'], Optional[Integer], Variant[Integer, String], Type[Integer]]",
		"[Struct[{'a' => Integer, Optional['b'] => String}], Hash[String, Integer, 1, 2], Array[Integer, 1]]",
		"undef", "default", "true", "1", "-1", "1.5", "'a'", "/a/", "Integer", "a",
	}
}
