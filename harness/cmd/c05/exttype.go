// Extensions of parameterized Object types: an Object type that declares `type_parameters` is used with arguments,
// My::P[1, 'x'], My::P[default, 'x'], My::P[{b => 'x'}] (types/objecttypeextension.go). The extension keeps the GIVEN
// parameters by name; Parameters() writes them back positionally (`default` for a parameter that is not given, cut
// after the last given one) or, for more than two declared parameters, as one Hash of named arguments.
//
// Input class: every number of declared parameters (1..4, some inherited from a parent type), every type of the first
// parameter that matters to the reader (it decides whether a single Hash is named arguments), EVERY subset of the
// parameters given (none, only the first, only the second, only the last, all), every route (the text My::P[a, b]
// read by the parser, with and without trailing `default`s; the named text My::P[{...}]; NewObjectTypeExtension with
// positional arguments and with one Hash), alone and nested in Array/Type/Variant/Optional/Tuple/Struct/Hash, and as
// a literal value in program format inside an array and a hash. Everything of one case happens in ONE context, in
// which the base types are declared (a named type is read back through the loader).
//
// D: the type prints, the text parses to an equal type that prints the same; the values read back equal.
// M: cases_ext_0.v - names, arguments, the instance table, Parameters() of the result (or the issue), Parameters() of
// the second generation against print_ext / initialize / parameters of coq/Model/ObjectExt.v.
package main

import (
	"encoding/json"
	"fmt"
	"strconv"
	"strings"

	"github.com/lyraproj/pcore/pcore"
	"github.com/lyraproj/pcore/px"
	"github.com/lyraproj/pcore/types"

	"verifharness/lat"
	"verifharness/lib"
)

type XP struct {
	Name string  `json:"name"`
	T    *Recipe `json:"t"`
}

type XR struct {
	Parent []XP     `json:"parent,omitempty"` // type parameters of a parent type My::B; My::P = Object[{parent => My::B, ..}]
	Params []XP     `json:"params,omitempty"` // type parameters of My::P itself
	Args   []*VR    `json:"args,omitempty"`   // positional arguments (Default = not given)
	Named  bool     `json:"named,omitempty"`  // ONE Hash argument with the keys Keys and the values Args
	Keys   []string `json:"keys,omitempty"`
	Route  string   `json:"route"`            // text | go
	Wrap   string   `json:"wrap,omitempty"`   // "", Array, Type, Variant, Optional, Tuple, Struct, Hash
}

func (x *XR) json() string {
	b, _ := json.Marshal(x)
	return string(b)
}

func (x *XR) names() []string {
	var ns []string
	for _, p := range append(append([]XP{}, x.Parent...), x.Params...) {
		ns = append(ns, p.Name)
	}
	return ns
}

func declText(name, parent string, ps []XP) string {
	var sb strings.Builder
	sb.WriteString("type " + name + " = Object[{")
	if parent != "" {
		sb.WriteString("parent => " + parent + ", ")
	}
	sb.WriteString("type_parameters => {")
	for i, p := range ps {
		if i > 0 {
			sb.WriteString(", ")
		}
		sb.WriteString(p.Name + " => " + p.T.Build().String())
	}
	sb.WriteString("}}]")
	return sb.String()
}

// the type of a declared parameter as the Object type keeps it (objecttype.go:428: Optional[T] unless T is Optional)
func paramType(p XP) px.Type {
	t := p.T.Build()
	if _, ok := t.(*types.OptionalType); !ok {
		t = types.NewOptionalType(t)
	}
	return t
}

type xenc struct{ atoms []px.Value }

func stringKeys(h *types.Hash) bool {
	ok := true
	h.EachKey(func(k px.Value) {
		if _, s := k.(px.StringValue); !s {
			ok = false
		}
	})
	return ok
}

func (e *xenc) enc(v px.Value) string {
	if _, ok := v.(*types.DefaultValue); ok {
		return "XDefault"
	}
	if h, ok := v.(*types.Hash); ok && stringKeys(h) {
		var es []string
		h.EachPair(func(k, v px.Value) { es = append(es, "("+lib.GStr(k.String())+", "+e.enc(v)+")") })
		return "(XHash " + lib.GList(es, "str * xval") + ")"
	}
	for i, a := range e.atoms {
		if px.Equals(a, v, nil) && px.Equals(v, a, nil) {
			return "(XAtom " + lib.GN(uint64(i)) + ")"
		}
	}
	e.atoms = append(e.atoms, v)
	return "(XAtom " + lib.GN(uint64(len(e.atoms)-1)) + ")"
}

func (e *xenc) encList(vs []px.Value) string {
	ss := make([]string, len(vs))
	for i, v := range vs {
		ss[i] = e.enc(v)
	}
	return lib.GList(ss, "xval")
}

var xerrCtor = map[string]string{
	"reported:PCORE_NOT_PARAMETERIZED_TYPE":     "XNotParameterized",
	"reported:PCORE_MISSING_TYPE_PARAMETER":     "XMissingParam",
	"reported:PCORE_TYPE_MISMATCH":              "XMismatch",
	"reported:PCORE_EMPTY_TYPE_PARAMETER_LIST":  "XEmptyList",
}

// rtType / rtValue: the round trip inside the context c, observations under a key prefix
func rtType(c px.Context, t px.Type, aux map[string]string, p string) {
	var text string
	cl, m := guard(func() { text = t.String() })
	aux[p+"printclass"] = cl
	if cl != "ok" {
		aux[p+"msg"] = m
		return
	}
	aux[p+"text"] = hx(text)
	var t2 px.Type
	cl, m = guard(func() { t2 = c.ParseType(text) })
	aux[p+"parseclass"] = cl
	if cl != "ok" {
		aux[p+"msg"] = m
		return
	}
	eq := false
	cl, _ = guard(func() { eq = t.Equals(t2, nil) && t2.Equals(t, nil) })
	aux[p+"eqclass"] = cl
	aux[p+"equal"] = strconv.FormatBool(eq)
	var text2 string
	cl, _ = guard(func() { text2 = t2.String() })
	aux[p+"print2class"] = cl
	aux[p+"text2"] = hx(text2)
}

func rtValue(c px.Context, v px.Value, aux map[string]string, p string) {
	var text string
	cl, m := guard(func() { text = px.ToString2(v, types.Program) })
	aux[p+"printclass"] = cl
	if cl != "ok" {
		aux[p+"msg"] = m
		return
	}
	aux[p+"text"] = hx(text)
	var v2 px.Value
	cl, m = guard(func() { v2 = types.ResolveDeferred(c, types.Parse(text), px.EmptyMap) })
	aux[p+"parseclass"] = cl
	if cl != "ok" {
		aux[p+"msg"] = m
		return
	}
	eq := false
	cl, _ = guard(func() { eq = v.Equals(v2, nil) && v2.Equals(v, nil) })
	aux[p+"eqclass"] = cl
	aux[p+"equal"] = strconv.FormatBool(eq)
	var text2 string
	cl, _ = guard(func() { text2 = px.ToString2(v2, types.Program) })
	aux[p+"print2class"] = cl
	aux[p+"text2"] = hx(text2)
}

func wrapType(w string, t px.Type) px.Type {
	intT := types.DefaultIntegerType()
	switch w {
	case "Array":
		return types.NewArrayType(t, nil)
	case "Type":
		return types.NewTypeType(t)
	case "Variant":
		return types.NewVariantType(t, intT)
	case "Optional":
		return types.NewOptionalType(t)
	case "Tuple":
		return types.NewTupleType([]px.Type{intT, t}, nil)
	case "Struct":
		return types.NewStructType([]*types.StructElement{types.NewStructElement(types.WrapString("k"), t)})
	case "Hash":
		return types.NewHashType(types.DefaultStringType(), t, nil)
	}
	return t
}

// extCase: the whole case in one context
func extCase(x *XR, o *Obs) {
	aux := o.Aux
	pcore.Do(func(c px.Context) {
		// the declarations
		cl, m := guard(func() {
			parent := ""
			if len(x.Parent) > 0 {
				parent = "My::B"
				px.AddTypes(c, c.ParseType(declText("My::B", "", x.Parent)))
			}
			if len(x.Params) > 0 || parent != "" {
				px.AddTypes(c, c.ParseType(declText("My::P", parent, x.Params)))
			} else {
				px.AddTypes(c, c.ParseType("type My::P = Object[{attributes => {a => Integer}}]"))
			}
		})
		if cl != "ok" {
			o.Class, o.Msg = "nodecl", m
			return
		}
		base := c.ParseType("My::P")
		// the arguments
		var args []px.Value
		cl, m = guard(func() {
			vs := make([]px.Value, len(x.Args))
			for i, a := range x.Args {
				vs[i] = a.Build()
			}
			if x.Named {
				es := make([]*types.HashEntry, len(vs))
				for i := range vs {
					es[i] = types.WrapHashEntry2(x.Keys[i], vs[i])
				}
				args = []px.Value{types.WrapHash(es)}
			} else {
				args = vs
			}
		})
		if cl != "ok" {
			o.Class, o.Msg = "nodecl", m
			return
		}
		argText := ""
		var t px.Type
		switch x.Route {
		case "go":
			cl, m = guard(func() { t = types.NewObjectTypeExtension(c, base.(px.ObjectType), args) })
		default:
			ss := make([]string, len(args))
			for i, a := range args {
				ss[i] = px.ToString2(a, types.Program)
			}
			argText = "My::P[" + strings.Join(ss, ", ") + "]"
			aux["xtext"] = hx(argText)
			cl, m = guard(func() { t = c.ParseType(argText) })
		}
		aux["xbuild"] = cl
		// M: the model case
		guard(func() { extModelCase(c, x, args, t, cl, aux) })
		if cl != "ok" {
			o.Class, o.Msg = "nobuild", m
			return
		}
		tt := wrapType(x.Wrap, t)
		rtType(c, tt, aux, "")
		o.Out = aux["text"]
		rtValue(c, types.WrapValues([]px.Value{types.WrapInteger(1), tt}), aux, "va.")
		rtValue(c, types.WrapHash([]*types.HashEntry{types.WrapHashEntry2("t", tt)}), aux, "vh.")
	})
}

func extModelCase(c px.Context, x *XR, args []px.Value, t px.Type, buildClass string, aux map[string]string) {
	if x.Route != "go" && len(args) == 0 {
		return // My::P[] is a syntax error, not a call of the constructor
	}
	if len(args) == 1 {
		if h, ok := args[0].(*types.Hash); ok && !stringKeys(h) {
			return // named arguments are keyed by k.String(); the model has String keys
		}
	}
	e := &xenc{}
	ps := append(append([]XP{}, x.Parent...), x.Params...)
	names := make([]string, len(ps))
	ptypes := make([]px.Type, len(ps))
	for i, p := range ps {
		names[i] = lib.GStr(p.Name)
		ptypes[i] = paramType(p)
	}
	// candidates the model may ask the instance oracle about: every argument, the values of a named-argument Hash,
	// that Hash, and the Hash of the given parameters in argument order and in declared order
	var cands []px.Value
	cands = append(cands, args...)
	given := []*types.HashEntry{}
	put := func(k string, v px.Value) {
		if _, d := v.(*types.DefaultValue); d {
			return
		}
		for i, ge := range given {
			if ge.Key().String() == k {
				given[i] = types.WrapHashEntry2(k, v)
				return
			}
		}
		given = append(given, types.WrapHashEntry2(k, v))
	}
	named := false
	if len(args) == 1 && len(ps) > 0 {
		if h, ok := args[0].(*types.Hash); ok && !px.IsInstance(ptypes[0], h) {
			named = true
			h.EachPair(func(k, v px.Value) {
				cands = append(cands, v)
				put(k.String(), v)
			})
		}
	}
	if !named {
		for i, p := range ps {
			if i < len(args) {
				put(p.Name, args[i])
			}
		}
	}
	cands = append(cands, types.WrapHash(given))
	var ordered []*types.HashEntry
	for _, p := range ps {
		for _, ge := range given {
			if ge.Key().String() == p.Name {
				ordered = append(ordered, ge)
			}
		}
	}
	cands = append(cands, types.WrapHash(ordered))
	var tb []string
	seen := map[string]bool{}
	for i, p := range ps {
		for _, v := range cands {
			if px.IsInstance(ptypes[i], v) {
				s := "(" + lib.GStr(p.Name) + ", " + e.enc(v) + ")"
				if !seen[s] {
					seen[s] = true
					tb = append(tb, s)
				}
			}
		}
	}
	xres := func(cl string, t px.Type) (string, bool) {
		if cl == "ok" {
			pt, ok := t.(px.ParameterizedType)
			if !ok {
				return "", false
			}
			return "(XOk " + e.encList(pt.Parameters()) + ")", true
		}
		ctor, ok := xerrCtor[cl]
		if !ok {
			return "", false
		}
		return "(@XErr (list xval) " + ctor + ")", true
	}
	obs, ok := xres(buildClass, t)
	if !ok {
		return
	}
	obs2 := "(@None (xres (list xval)))"
	if buildClass == "ok" {
		var t2 px.Type
		cl, _ := guard(func() { t2 = c.ParseType(t.String()) })
		if s, ok := xres(cl, t2); ok {
			obs2 = "(Some " + s + ")"
		} else {
			// neither a parameterized type nor one of the constructor's issues: a value outside the model's answers
			obs2 = "(Some (@XErr (list xval) XNotParameterized))"
		}
	}
	aux["extcase"] = "(" + strings.Join([]string{lib.GList(names, "str"), e.encList(args), lib.GList(tb, "str * xval"), obs, obs2}, ", ") + ")"
}

func (e *emitter) addExt(in input, o Obs) {
	if t := o.Aux["extcase"]; t != "" {
		e.exts = append(e.exts, mcase{t, in, in.Family == "ext-random", e.failed})
	}
}

// ---------------------------------------------------------------------------------------------
// D

func extEvaluate(in input, o Obs, res *lib.Result, violate func(clause, what string, tags []string)) bool {
	x := in.Ext
	switch o.Class {
	case "nodecl":
		res.Count("xtype.nodecl")
		violate("parses", fmt.Sprintf("the declarations of %s are rejected: %s", x.json(), o.Msg), nil)
		return false
	case "nobuild":
		res.Count("xtype.not-a-type")
		if !strings.HasPrefix(o.Aux["xbuild"], "reported:") {
			violate("parses", fmt.Sprintf("the extension %s (%q): the constructor escapes with %s %s", x.json(), unhex(o.Aux["xtext"]), o.Aux["xbuild"], o.Msg), nil)
			return false
		}
		return true
	}
	ok := true
	for _, p := range []struct{ pfx, what string }{{"", "the type"}, {"va.", "the value [1, T] with the type T ="}, {"vh.", "the value {'t' => T} with the type T ="}} {
		a := func(k string) string { return o.Aux[p.pfx+k] }
		what := fmt.Sprintf("%s %s", p.what, x.json())
		text := unhex(a("text"))
		switch {
		case a("printclass") != "ok":
			violate("prints", fmt.Sprintf("%s cannot be printed: %s %s", what, a("printclass"), a("msg")), nil)
		case a("parseclass") != "ok":
			violate("parses", fmt.Sprintf("%s prints as %q, which does not parse: %s %s", what, text, a("parseclass"), a("msg")), nil)
		case a("eqclass") != "ok":
			violate("equal", fmt.Sprintf("%s prints as %q; comparing the parsed result fails: %s", what, text, a("eqclass")), nil)
		case a("equal") != "true":
			violate("equal", fmt.Sprintf("%s prints as %q, which parses to something not equal to it (that prints as %q)", what, text, unhex(a("text2"))), nil)
		case p.pfx == "" && unhex(a("text2")) != text:
			violate("prints-same", fmt.Sprintf("%s prints as %q, the parsed type prints as %q", what, text, unhex(a("text2"))), nil)
		default:
			continue
		}
		ok = false
		break
	}
	return ok
}

// ---------------------------------------------------------------------------------------------
// generators

func xp(name string, t *Recipe) XP { return XP{Name: name, T: t} }

// values that fit a parameter of the given type (first ones) and one that does not (last)
func extValuesFor(t *Recipe) (fit []*VR, misfit *VR) {
	strHash := vHash("", vS("b"), vS("x"))
	switch t.K {
	case "Integer":
		return []*VR{vI(1), vK("Undef")}, vS("x")
	case "String":
		return []*VR{vS("x"), vS("it's")}, vI(1)
	case "Boolean":
		return []*VR{vB(true)}, vI(1)
	case "Hash":
		return []*VR{vHash("", vS("x"), vI(1)), vHash(""), strHash, vHash("", vS("a"), vHash(""))}, vI(1)
	case "Array":
		return []*VR{vArr("", vI(1)), vArr("")}, vI(1)
	case "Type":
		return []*VR{vTypeR(rInt(1, 2)), vTypeR(rcp("String"))}, vI(1)
	}
	// Any, Data, RichData, Collection-free top types: everything, also a Hash that looks like named arguments
	return []*VR{vI(1), strHash, vHash("", vS("c"), vB(true)), vArr("", vI(1)), vK("Undef"), vHash("")}, nil
}

func extDecls() [][2][]XP {
	intT, strT, boolT, anyT := rInt(lat.Min, lat.Max), rcp("String"), rcp("Boolean"), rcp("Any")
	hashT := rHash(strT, anyT, 0, lat.Max)
	firsts := []*Recipe{intT, anyT, hashT, rcp("Data"), rcp("RichData"), rOpt(intT), rW("Type", anyT)}
	var out [][2][]XP
	for _, f := range firsts {
		out = append(out,
			[2][]XP{nil, {xp("a", f)}},
			[2][]XP{nil, {xp("a", f), xp("b", strT)}},
			[2][]XP{nil, {xp("a", f), xp("b", strT), xp("c", boolT)}})
	}
	out = append(out,
		[2][]XP{nil, {xp("a", intT), xp("b", hashT)}},
		[2][]XP{nil, {xp("a", strT), xp("b", anyT), xp("c", hashT)}},
		[2][]XP{nil, {xp("a", intT), xp("b", strT), xp("c", boolT), xp("d", rArr(intT, 0, lat.Max))}},
		[2][]XP{nil, {xp("a", anyT), xp("b", strT), xp("c", boolT), xp("d", intT)}},
		[2][]XP{nil, {xp("p_1", intT), xp("q", intT)}},
		// inherited parameters come first
		[2][]XP{{xp("a", intT)}, {xp("b", strT)}},
		[2][]XP{{xp("a", intT), xp("b", strT)}, {xp("c", boolT)}},
		[2][]XP{{xp("a", anyT)}, {xp("b", strT), xp("c", boolT)}},
		[2][]XP{{xp("a", intT)}, nil},
		// not parameterized
		[2][]XP{nil, nil},
	)
	return out
}

var extWraps = []string{"", "Array", "Type", "Variant", "Optional", "Tuple", "Struct", "Hash"}

func vDefault() *VR { return vK("Default") }

// extCorner: every subset of the declared parameters given x every route
func extCorner() []*XR {
	var out []*XR
	n := 0
	add := func(x *XR) {
		n++
		out = append(out, x)
		// nested in another type: every wrapper in turn, and every wrapper for the sparse subsets
		w := *x
		w.Wrap = extWraps[1+n%(len(extWraps)-1)]
		out = append(out, &w)
	}
	for _, d := range extDecls() {
		ps := append(append([]XP{}, d[0]...), d[1]...)
		k := len(ps)
		if k == 0 {
			out = append(out, &XR{Route: "go", Args: []*VR{vI(1)}}, &XR{Route: "text", Args: []*VR{vI(1)}}, &XR{Route: "go", Named: true, Keys: []string{"a"}, Args: []*VR{vI(1)}})
			continue
		}
		for mask := 0; mask < 1<<uint(k); mask++ {
			for variant := 0; variant < 2; variant++ {
				// positional arguments in full length; the values: first fitting one, or (variant 1) the second
				full := make([]*VR, k)
				var keys []string
				var vals []*VR
				last := -1
				for i, p := range ps {
					full[i] = vDefault()
					if mask&(1<<uint(i)) != 0 {
						fit, _ := extValuesFor(p.T)
						v := fit[(variant*(1+i))%len(fit)]
						full[i] = v
						keys = append(keys, p.Name)
						vals = append(vals, v)
						last = i
					}
				}
				mk := func(route string, args []*VR, keys []string) *XR {
					return &XR{Parent: d[0], Params: d[1], Route: route, Args: args, Keys: keys, Named: keys != nil}
				}
				cut := full[:last+1]
				for _, route := range []string{"text", "go"} {
					add(mk(route, full, nil))
					if last+1 < k && last >= 0 {
						add(mk(route, cut, nil))
					}
					if keys != nil {
						add(mk(route, vals, keys))
						if len(keys) > 1 {
							// the named arguments in the reverse order
							rk, rv := make([]string, len(keys)), make([]*VR, len(keys))
							for i := range keys {
								rk[len(keys)-1-i], rv[len(keys)-1-i] = keys[i], vals[i]
							}
							add(mk(route, rv, rk))
						}
						if len(keys) < k {
							// the parameters that are not given spelled out: name => default
							ak, av := make([]string, k), make([]*VR, k)
							for i, p := range ps {
								ak[i], av[i] = p.Name, full[i]
							}
							add(mk(route, av, ak))
						}
					} else {
						add(mk(route, nil, []string{}))
					}
				}
				if variant == 0 && mask != 0 && k <= 3 {
					// every fitting value of the first given parameter, in every wrapper
					for i, p := range ps {
						if mask&(1<<uint(i)) == 0 {
							continue
						}
						fit, _ := extValuesFor(p.T)
						for j := 1; j < len(fit); j++ {
							args := append([]*VR{}, full...)
							args[i] = fit[j]
							out = append(out, mk("text", args, nil), mk("go", args, nil))
						}
						break
					}
					if mask&1 == 0 || mask == 1<<uint(k)-1 || mask == 1 {
						for _, w := range extWraps[1:] {
							x := mk("go", full, nil)
							x.Wrap = w
							out = append(out, x)
						}
					}
				}
			}
		}
		// what the constructor rejects or ignores: a value of the wrong type, an unknown name, surplus arguments
		for i, p := range ps {
			if _, mis := extValuesFor(p.T); mis != nil {
				args := make([]*VR, i+1)
				for j := range args {
					args[j] = vDefault()
				}
				args[i] = mis
				out = append(out, &XR{Parent: d[0], Params: d[1], Route: "go", Args: args}, &XR{Parent: d[0], Params: d[1], Route: "text", Args: args},
					&XR{Parent: d[0], Params: d[1], Route: "go", Args: []*VR{mis}, Named: true, Keys: []string{p.Name}})
			}
		}
		fit0, _ := extValuesFor(ps[0].T)
		surplus := []*VR{fit0[0]}
		for i := 1; i <= k; i++ {
			surplus = append(surplus, vI(7))
		}
		if k > 1 {
			fit1, _ := extValuesFor(ps[1].T)
			surplus[1] = fit1[0]
			for i := 2; i < k; i++ {
				f, _ := extValuesFor(ps[i].T)
				surplus[i] = f[0]
			}
		}
		out = append(out, &XR{Parent: d[0], Params: d[1], Route: "go", Args: surplus}, &XR{Parent: d[0], Params: d[1], Route: "text", Args: surplus},
			&XR{Parent: d[0], Params: d[1], Route: "go", Args: []*VR{vI(1)}, Named: true, Keys: []string{"zz"}},
			&XR{Parent: d[0], Params: d[1], Route: "text", Args: []*VR{fit0[0], vI(1)}, Named: true, Keys: []string{ps[0].Name, "zz"}},
			&XR{Parent: d[0], Params: d[1], Route: "go", Args: nil})
	}
	return out
}

func randomExt(r *lib.Rng) *XR {
	intT, strT, boolT, anyT := rInt(lat.Min, lat.Max), rcp("String"), rcp("Boolean"), rcp("Any")
	pool := []*Recipe{intT, strT, boolT, anyT, rHash(strT, anyT, 0, lat.Max), rcp("Data"), rArr(intT, 0, lat.Max), rW("Type", anyT), rOpt(strT), intT, strT}
	names := []string{"a", "b", "c", "d", "e"}
	k := 1 + r.Intn(5)
	ps := make([]XP, k)
	for i := range ps {
		ps[i] = xp(names[i], pool[r.Intn(len(pool))])
	}
	x := &XR{Route: []string{"text", "go"}[r.Intn(2)], Wrap: extWraps[r.Intn(len(extWraps))]}
	if r.Chance(1, 4) {
		cut := 1 + r.Intn(k)
		x.Parent, x.Params = ps[:cut], ps[cut:]
	} else {
		x.Params = ps
	}
	anyV := []*VR{vI(1), vS("x"), vB(true), vK("Undef"), vHash("", vS("b"), vS("x")), vHash(""), vArr("", vI(1)), vHash("", vS("a"), vI(1), vS("c"), vB(false))}
	val := func(p XP) *VR {
		if r.Chance(1, 12) {
			return anyV[r.Intn(len(anyV))]
		}
		fit, _ := extValuesFor(p.T)
		return fit[r.Intn(len(fit))]
	}
	if r.Chance(2, 5) {
		// named, in a random order, a random subset
		perm := make([]int, k)
		for i := range perm {
			perm[i] = i
		}
		for i := k - 1; i > 0; i-- {
			j := r.Intn(i + 1)
			perm[i], perm[j] = perm[j], perm[i]
		}
		x.Named = true
		for _, i := range perm {
			if r.Chance(3, 5) {
				x.Keys = append(x.Keys, ps[i].Name)
				if r.Chance(1, 8) {
					x.Args = append(x.Args, vDefault())
				} else {
					x.Args = append(x.Args, val(ps[i]))
				}
			}
		}
	} else {
		n := 1 + r.Intn(k)
		if r.Chance(1, 15) {
			n = k + 1
		}
		for i := 0; i < n; i++ {
			if i < k && r.Chance(1, 2) {
				x.Args = append(x.Args, val(ps[i]))
			} else if i < k {
				x.Args = append(x.Args, vDefault())
			} else {
				x.Args = append(x.Args, vI(9))
			}
		}
	}
	return x
}
