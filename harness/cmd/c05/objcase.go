// M for Object types: the init hash given to InitFromHash, the attributes it makes (or the issue it reports) and
// the InitHash() of the result, as terms of coq/Model/ObjectPrint.v (cases_objects_*.v, object_mismatches).
// Types and values are numbered per case: one number for equal (px.Equals) types, one for equal values (undef = 0);
// the oracle tables hold what the implementation answers about them.
package main

import (
	"fmt"
	"strings"

	"github.com/lyraproj/pcore/pcore"
	"github.com/lyraproj/pcore/px"
	"github.com/lyraproj/pcore/types"

	"verifharness/lib"
)

type objTables struct {
	types  []px.Type
	values []px.Value
}

func (tb *objTables) tid(t px.Type) uint64 {
	for i, r := range tb.types {
		if px.Equals(r, t, nil) && px.Equals(t, r, nil) {
			return uint64(i)
		}
	}
	tb.types = append(tb.types, t)
	return uint64(len(tb.types) - 1)
}

func (tb *objTables) vid(v px.Value) uint64 {
	for i, r := range tb.values {
		if px.Equals(r, v, nil) && px.Equals(v, r, nil) {
			return uint64(i)
		}
	}
	tb.values = append(tb.values, v)
	return uint64(len(tb.values) - 1)
}

var kindCtor = map[string]string{"": "KDefault", "constant": "KConstant", "derived": "KDerived", "given_or_derived": "KGivenOrDerived", "reference": "KReference"}

var oerrCtor = map[string]string{
	"reported:PCORE_CONSTANT_WITH_FINAL":            "EConstantWithFinal",
	"reported:PCORE_ILLEGAL_KIND_VALUE_COMBINATION": "EIllegalKindValue",
	"reported:PCORE_TYPE_MISMATCH":                  "ETypeMismatch",
	"reported:PCORE_CONSTANT_REQUIRES_VALUE":        "EConstantRequiresValue",
	"reported:PCORE_BOTH_CONSTANT_AND_ATTRIBUTE":    "EBothConstantAndAttribute",
	"reported:PCORE_OVERRIDDEN_NOT_FOUND":           "EOverriddenNotFound",
}

func gOptBool(h px.OrderedMap, key string) string {
	v, ok := h.Get4(key)
	if !ok {
		return "(@None bool)"
	}
	return "(Some " + lib.GBool(v.(px.Boolean).Bool()) + ")"
}

// gSpec: an attribute hash {type, final, override, kind, value} as mk_spec
func (tb *objTables) gSpec(h px.OrderedMap) string {
	t, _ := h.Get4("type")
	kind := "(@None akind)"
	if k, ok := h.Get4("kind"); ok {
		kind = "(Some " + kindCtor[k.String()] + ")"
	}
	val := "(@None N)"
	if v, ok := h.Get4("value"); ok {
		val = "(Some " + lib.GN(tb.vid(v)) + ")"
	}
	return fmt.Sprintf("(mk_spec %s %s %s %s %s)", lib.GN(tb.tid(t.(px.Type))), gOptBool(h, "final"), gOptBool(h, "override"), kind, val)
}

// gIHash: the `attributes` and `constants` of an init hash as mk_ihash
func (tb *objTables) gIHash(h px.OrderedMap) string {
	var as, cs []string
	if ah, ok := h.Get4("attributes"); ok {
		ah.(px.OrderedMap).EachPair(func(k, v px.Value) {
			m := ""
			switch x := v.(type) {
			case px.Type:
				m = "(MBare " + lib.GN(tb.tid(x)) + ")"
			case px.OrderedMap:
				m = "(MHash " + tb.gSpec(x) + ")"
			default:
				panic(unsupported{"attribute spec"})
			}
			as = append(as, "("+lib.GStr(k.String())+", "+m+")")
		})
	}
	if ch, ok := h.Get4("constants"); ok {
		ch.(px.OrderedMap).EachPair(func(k, v px.Value) {
			cs = append(cs, "("+lib.GStr(k.String())+", "+lib.GN(tb.vid(v))+")")
		})
	}
	return "(mk_ihash " + lib.GList(as, "str * mspec N N") + " " + lib.GList(cs, "str * N") + ")"
}

// objectCase: aux["objcase"] = the case term, for a recipe inside the model (no parent, no type parameters, no name,
// every type given as a type)
func objectCase(o *OR, aux map[string]string) {
	if o.Parent != nil || len(o.TParams) > 0 || o.Name != "" {
		return
	}
	for _, a := range o.Attrs {
		if a.TStr != "" {
			return
		}
	}
	attrsOnly := len(o.Funcs) == 0 && o.HasEq == 0 && !o.HasSer
	defer func() {
		if r := recover(); r != nil {
			if _, ok := r.(unsupported); !ok {
				panic(r)
			}
		}
	}()
	pcore.Do(func(c px.Context) {
		tb := &objTables{values: []px.Value{px.Undef}}
		h := o.InitHash()
		input := tb.gIHash(h)
		ot := types.AllocObjectType()
		class, _ := guard(func() { ot.InitFromHash(c, h) })
		var obs, printed string
		if class == "ok" {
			var as []string
			ot.EachAttribute(false, func(a px.Attribute) {
				val := "(@None N)"
				if a.HasValue() {
					val = "(Some " + lib.GN(tb.vid(a.Value())) + ")"
				}
				as = append(as, fmt.Sprintf("(mk_attr %s %s %s %s %s %s)", lib.GStr(a.Name()), lib.GN(tb.tid(a.Type())), kindCtor[string(a.Kind())], val,
					lib.GBool(a.Final()), lib.GBool(a.Override())))
			})
			obs = "(OOk " + lib.GList(as, "oattr") + ")"
			printed = "(Some " + tb.gIHash(ot.InitHash()) + ")"
		} else {
			ctor, ok := oerrCtor[class]
			if !ok || !attrsOnly {
				return
			}
			obs = "(@OErr (list oattr) " + ctor + ")"
			printed = "(@None (ihash N N))"
		}
		// the oracle tables
		var gen, opt, optof, undefs, defaults, inst []string
		for i := 0; i < len(tb.values); i++ {
			v := tb.values[i]
			gen = append(gen, fmt.Sprintf("(%s, %s)", lib.GN(uint64(i)), lib.GN(tb.tid(px.Generalize(v.PType())))))
			if v.Equals(px.Undef, nil) {
				undefs = append(undefs, lib.GN(uint64(i)))
			}
			if _, ok := v.(*types.DefaultValue); ok {
				defaults = append(defaults, lib.GN(uint64(i)))
			}
		}
		nt := len(tb.types)
		for i := 0; i < nt; i++ {
			optof = append(optof, fmt.Sprintf("(%s, %s)", lib.GN(uint64(i)), lib.GN(tb.tid(types.NewOptionalType(tb.types[i])))))
		}
		for i, t := range tb.types {
			if _, ok := t.(*types.OptionalType); ok {
				opt = append(opt, lib.GN(uint64(i)))
			}
			for j, v := range tb.values {
				if px.IsInstance(t, v) {
					inst = append(inst, fmt.Sprintf("(%s, %s)", lib.GN(uint64(i)), lib.GN(uint64(j))))
				}
			}
		}
		tab := fmt.Sprintf("{| tb_gen := %s; tb_opt := %s; tb_optof := %s; tb_undef := %s; tb_default := %s; tb_inst := %s |}",
			lib.GList(gen, "N * N"), lib.GList(opt, "N"), lib.GList(optof, "N * N"), lib.GList(undefs, "N"), lib.GList(defaults, "N"), lib.GList(inst, "N * N"))
		aux["objcase"] = "(" + strings.Join([]string{tab, input, obs, printed}, ", ") + ")"
	})
}

func (e *emitter) addObject(in input, o Obs) {
	if t := o.Aux["objcase"]; t != "" {
		if in.Family == "object-corner" || in.Family == "object-parsed" {
			e.objects = append(e.objects, mcase{t, in, false, e.failed})
		} else {
			e.objectsR = append(e.objectsR, mcase{t, in, false, e.failed})
		}
	}
}
