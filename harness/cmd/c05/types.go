// M for types (layer L3): filled in by emitTypes once coq/Model/TypePrint.v exists.
package main

import "verifharness/lib"

func addTypeCase(e *emitter, in input, o Obs) {}

func flushTypes(e *emitter, cfg *lib.Config, res *lib.Result, budget int) {}
