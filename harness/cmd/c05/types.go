// M for types (layer L3): the decoded type, its printed text and the decoded result of parsing that text,
// against print_ty / reparse of coq/Model/TypePrint.v.
package main

import (
	"encoding/json"
	"fmt"
	"sort"

	"github.com/lyraproj/pcore/types"

	"verifharness/lat"
	"verifharness/lib"
)

var floatTable = map[string]string{}

func addTypeCase(e *emitter, in input, o Obs) {
	if o.Aux["printclass"] != "ok" || o.Aux["dec"] == "" {
		return
	}
	// The resolving half of the tie leaves out the by-specification exception (the parsed type differs from T, so
	// the oracle table of undef-accepting types, taken from T, does not describe it) and the open findings of the
	// text layer (the expression level model has no text); the printing half is compared for every type.
	full := !(exactStringPrintsAsString(in.Recipe, "") || len(typeTags(in.Recipe)) > 0)
	var dec, dec2 types.VerifTy
	if json.Unmarshal([]byte(o.Aux["dec"]), &dec) != nil || !lat.InModel(&dec) {
		return
	}
	t2 := "(@None ty)"
	if full && o.Aux["parseclass"] == "ok" {
		if json.Unmarshal([]byte(o.Aux["dec2"]), &dec2) != nil || !lat.InModel(&dec2) {
			return
		}
		t2 = "(Some " + lat.GTy(&dec2) + ")"
	}
	var au []*types.VerifTy
	_ = json.Unmarshal([]byte(o.Aux["au"]), &au)
	var aus []string
	seen := map[string]bool{}
	for _, a := range au {
		if !lat.InModel(a) {
			continue
		}
		g := lat.GTy(a)
		if !seen[g] {
			seen[g] = true
			aus = append(aus, g)
		}
	}
	fl := map[string]string{}
	_ = json.Unmarshal([]byte(o.Aux["floats"]), &fl)
	for k, v := range fl {
		floatTable[k] = unhex(v)
	}
	term := fmt.Sprintf("(%s, %s, %s, %s, %s)", lat.GTy(&dec), lib.GStr(unhex(o.Out)), t2, lib.GList(aus, "ty"), lib.GBool(full))
	e.types = append(e.types, mcase{term, in, in.Family == "random", e.failed})
}

func flushTypes(e *emitter, cfg *lib.Config, res *lib.Result, budget int) {
	if len(e.types) == 0 && cfg.Replay != "" {
		return
	}
	var keys []string
	for k := range floatTable {
		keys = append(keys, k)
	}
	sort.Strings(keys)
	var fs []string
	for _, k := range keys {
		fs = append(fs, fmt.Sprintf("((%s)%%Z, %s)", k, lib.GStr(floatTable[k])))
	}
	prelude := "Definition floats : list (Z * str) := " + lib.GList(fs, "Z * str") + ".\n"
	cs := pick(e.types, 2*budget)
	for sh := 0; sh*1000 < len(cs) || (sh == 0 && len(cs) == 0); sh++ {
		hi := (sh + 1) * 1000
		if hi > len(cs) {
			hi = len(cs)
		}
		cf := &lib.CasesFile{Imports: []string{"Model.Base", "Model.Ty", "Model.QuoteLex", "Model.TypePrint", "Corr.CorrC05"},
			Typ: "ty * str * option ty * list ty * bool", Obligations: map[string]string{"type_print_reparse": "type_mismatches floats cases", "type_text_expression": "type_expr_mismatches floats cases"}, Prelude: prelude}
		for _, c := range cs[sh*1000 : hi] {
			cf.Add(c.term, c.in)
		}
		res.CorrFiles = append(res.CorrFiles, cf.WriteTo(cfg.Out, fmt.Sprintf("cases_types_%d", sh)))
	}
}

// decodedWithAu: the decoded type of an observation as a term of ty, and the list of its nested types that accept
// undef (the oracle of the Struct key convention); ok=false outside the model
func decodedWithAu(o Obs) (dec, au string, ok bool) {
	var d types.VerifTy
	if o.Aux["dec"] == "" || json.Unmarshal([]byte(o.Aux["dec"]), &d) != nil || !lat.InModel(&d) {
		return "", "", false
	}
	var aus []*types.VerifTy
	_ = json.Unmarshal([]byte(o.Aux["au"]), &aus)
	var gs []string
	seen := map[string]bool{}
	for _, a := range aus {
		if !lat.InModel(a) {
			continue
		}
		g := lat.GTy(a)
		if !seen[g] {
			seen[g] = true
			gs = append(gs, g)
		}
	}
	return lat.GTy(&d), lib.GList(gs, "ty"), true
}
