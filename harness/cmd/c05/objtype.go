// Object types printed in full (no name: Object[{...}]; or any Object type printed with types.Expanded).
//
// An Object type is its init hash read by InitFromHash (types/objecttype.go:363) into attributes (of every kind:
// plain, constant, derived, given_or_derived, reference; with and without a value, final, override), functions, type
// parameters, equality, equality_include_type, serialization and a parent; initHash() (objecttype.go:1259) with
// attribute.initHash (attribute.go:116) and compressedMembersHash (:1348) writes it back, choosing between the short
// forms (`constants => {name => value}`, `name => Type`) and the full attribute hash. The property speaks of every
// type, so: every attribute kind x every declared type (equal to / wider than / narrower than the type of the value,
// Optional or not) x every kind of value (also undef, default, empty containers, types, Object types as values).
//
// Construction routes: the Go route AllocObjectType().InitFromHash(ctx, hash of px.Values) (what the creator
// newObjectType2 does, without the parser), `parsed` (second generation), a type given as a String, the same Object
// type nested in other types (Array[..], Optional[..], Struct, Type[..], an attribute type, a parent) and used as a
// value (TypeR in VR); plus a corpus of texts (objectTypeTexts, kind ptype).
//
// M: cases_objects_*.v - the init hash given, the attributes observed (px.Attribute: Name, Type, Kind, Value, Final,
// Override), and the observed InitHash() against init_from_hash / init_hash of coq/Model/ObjectPrint.v.
package main

import (
	"fmt"
	"sort"
	"strings"

	"github.com/lyraproj/pcore/pcore"
	"github.com/lyraproj/pcore/px"
	"github.com/lyraproj/pcore/types"

	"verifharness/lat"
	"verifharness/lib"
)

type OAttr struct {
	Name     string  `json:"name"`
	T        *Recipe `json:"t,omitempty"`
	TStr     string  `json:"tstr,omitempty"` // the type given as a String (read by the parser), instead of T
	Kind     string  `json:"kind,omitempty"`
	V        *VR     `json:"v,omitempty"`
	Final    int     `json:"final,omitempty"`    // 0 absent, 1 true, 2 false
	Override int     `json:"override,omitempty"` // 0 absent, 1 true, 2 false
	Bare     bool    `json:"bare,omitempty"`     // name => Type instead of name => {type => Type}
}

type OR struct {
	Name    string   `json:"name,omitempty"`
	Parent  *Recipe  `json:"parent,omitempty"`
	Attrs   []*OAttr `json:"attrs,omitempty"`
	Consts  []*OAttr `json:"consts,omitempty"` // Name and V only: the section constants => {name => value}
	Funcs   []*OAttr `json:"funcs,omitempty"`  // Name, T (a Callable), Final, Override, Bare
	TParams []*OAttr `json:"tparams,omitempty"`
	HasAttr bool     `json:"has_attr,omitempty"` // an empty attributes => {} is written
	Eq      []string `json:"eq,omitempty"`
	HasEq   int      `json:"has_eq,omitempty"`  // 0 absent, 1 list, 2 a single String
	EqInc   int      `json:"eq_inc,omitempty"`  // 0 absent, 1 true, 2 false
	Ser     []string `json:"ser,omitempty"`     // serialization
	HasSer  bool     `json:"has_ser,omitempty"` // serialization => [...] is written
}

func tri(h map[string]px.Value, key string, v int) {
	switch v {
	case 1:
		h[key] = types.WrapBoolean(true)
	case 2:
		h[key] = types.WrapBoolean(false)
	}
}

// ordered hash of px.Values from keys in the given order
func ohash(keys []string, m map[string]px.Value) px.Value {
	es := make([]*types.HashEntry, 0, len(keys))
	for _, k := range keys {
		if v, ok := m[k]; ok {
			es = append(es, types.WrapHashEntry2(k, v))
		}
	}
	return types.WrapHash(es)
}

func (a *OAttr) typeValue() px.Value {
	if a.TStr != "" {
		return types.WrapString(a.TStr)
	}
	return a.T.Build()
}

func (a *OAttr) spec() px.Value {
	if a.Bare {
		return a.typeValue()
	}
	m := map[string]px.Value{"type": a.typeValue()}
	if a.Kind != "" {
		m["kind"] = types.WrapString(a.Kind)
	}
	if a.V != nil {
		m["value"] = a.V.Build()
	}
	tri(m, "final", a.Final)
	tri(m, "override", a.Override)
	return ohash([]string{"type", "final", "override", "kind", "value"}, m)
}

func members(as []*OAttr, f func(*OAttr) px.Value) px.Value {
	es := make([]*types.HashEntry, 0, len(as))
	for _, a := range as {
		es = append(es, types.WrapHashEntry2(a.Name, f(a)))
	}
	return types.WrapHash(es)
}

func wrapStrings(ss []string) px.Value {
	vs := make([]px.Value, len(ss))
	for i, s := range ss {
		vs[i] = types.WrapString(s)
	}
	return types.WrapValues(vs)
}

// InitHash: the init hash as px.Values (Go constructors only)
func (o *OR) InitHash() px.OrderedMap {
	m := map[string]px.Value{}
	if o.Name != "" {
		m["name"] = types.WrapString(o.Name)
	}
	if o.Parent != nil {
		m["parent"] = o.Parent.Build()
	}
	if len(o.TParams) > 0 {
		m["type_parameters"] = members(o.TParams, func(a *OAttr) px.Value { return a.spec() })
	}
	if len(o.Attrs) > 0 || o.HasAttr {
		m["attributes"] = members(o.Attrs, func(a *OAttr) px.Value { return a.spec() })
	}
	if len(o.Consts) > 0 {
		m["constants"] = members(o.Consts, func(a *OAttr) px.Value { return a.V.Build() })
	}
	if len(o.Funcs) > 0 {
		m["functions"] = members(o.Funcs, func(a *OAttr) px.Value { return a.spec() })
	}
	switch o.HasEq {
	case 1:
		m["equality"] = wrapStrings(o.Eq)
	case 2:
		m["equality"] = types.WrapString(o.Eq[0])
	}
	tri(m, "equality_include_type", o.EqInc)
	if o.HasSer {
		m["serialization"] = wrapStrings(o.Ser)
	}
	return ohash([]string{"name", "parent", "type_parameters", "attributes", "constants", "functions", "equality", "equality_include_type", "serialization"}, m).(px.OrderedMap)
}

// Build: what the creator of Object[{...}] does with a non-empty hash (objecttype.go:1430), without the parser
func (o *OR) Build() px.Type {
	var t px.Type
	pcore.Do(func(c px.Context) {
		ot := types.AllocObjectType()
		ot.InitFromHash(c, o.InitHash())
		t = ot
	})
	return t
}

func (o *OR) eachRecipe(f func(*Recipe)) {
	o.Parent.walk(f)
	for _, as := range [][]*OAttr{o.Attrs, o.Funcs, o.TParams} {
		for _, a := range as {
			a.T.walk(f)
		}
	}
}

func (o *OR) eachValue(f func(*VR)) {
	for _, as := range [][]*OAttr{o.Attrs, o.Consts} {
		for _, a := range as {
			a.V.walk(f)
		}
	}
}

// ---------------------------------------------------------------------------------------------
// open-finding classes and exclusions of an Object recipe

// objNamed: the recipe holds a named Object type; it prints as its name, which stands for the type only where a
// loader knows it (not generated at the root of a String() round trip; the Expanded text is checked instead)
func recipeNamedObject(t *Recipe) bool {
	found := false
	t.walk(func(r *Recipe) {
		if r.Obj != nil && r.Obj.Name != "" {
			found = true
		}
	})
	return found
}

// ---------------------------------------------------------------------------------------------
// generators

func rObj(o *OR) *Recipe { return &Recipe{K: "Object", Obj: o} }

func attr(name string, t *Recipe, kind string, v *VR) *OAttr {
	return &OAttr{Name: name, T: t, Kind: kind, V: v}
}

func vK(k string) *VR        { return &VR{K: k} }
func vB(b bool) *VR          { return &VR{K: "Bool", B: b} }
func vF(f string) *VR        { return &VR{K: "Float", F: f} }
func vRx(s string) *VR       { return &VR{K: "Regexp", S: s} }
func vTypeR(t *Recipe) *VR   { return &VR{K: "TypeR", R: t} }
func rOpt(t *Recipe) *Recipe { return rW("Optional", t) }

// values an attribute may hold
func objValues() []*VR {
	intT := rInt(lat.Min, lat.Max)
	return []*VR{vK("Undef"), vK("Default"), vB(true), vI(3), vI(0), vI(lat.Min), vF("1.5"), vS("x"), vS(""), vS("it's\n"), vRx("x"),
		vArr(""), vArr("", vI(1), vI(2)), vArr("", vI(1), vS("x")), vArr("", vArr("")), vArr("", vK("Undef")), vK("EmptyArray"),
		vHash(""), vHash("", vS("k"), vI(1)), vK("EmptyMap"), vHash("", vS("k"), vArr("", vI(1))),
		vTypeR(intT), vTypeR(rInt(1, 2)), vTypeR(rcp("String")), vTypeR(rArr(intT, 0, lat.Max)),
		vTypeR(rObj(&OR{Attrs: []*OAttr{attr("x", intT, "", nil)}})),
	}
}

// declared types of an attribute: the generalized types of those values, wider ones, narrower ones
func objAttrTypes() []*Recipe {
	intT, strT, anyT := rInt(lat.Min, lat.Max), rcp("String"), rcp("Any")
	return []*Recipe{anyT, rcp("Undef"), rcp("Default"), rcp("Boolean"), &Recipe{K: "Boolean", Bool: 1}, intT, rInt(0, 10), rInt(3, 3), rcp("FloatDefault"),
		rcp("Numeric"), rcp("Scalar"), rcp("ScalarData"), rcp("Data"), rcp("RichData"), strT, &Recipe{K: "StringSz", Lo: 1, Hi: lat.Max}, rEnum(false, "x", "y"),
		&Recipe{K: "Regexp"}, &Recipe{K: "Regexp", S: "x"}, &Recipe{K: "Pattern", Strs: []string{"x"}},
		rArr(intT, 0, lat.Max), rArr(rcp("Numeric"), 0, lat.Max), rArr(anyT, 0, lat.Max), rArr(intT, 0, 0), rArr(rcp("Unit"), 0, 0), rArr(rVar(intT, strT), 0, lat.Max),
		rArr(rArr(rcp("Unit"), 0, 0), 0, lat.Max), rTup(intT, strT), &Recipe{K: "Collection", Lo: 0, Hi: lat.Max},
		rHash(strT, intT, 0, lat.Max), rHash(strT, anyT, 0, lat.Max), rHash(rcp("Unit"), rcp("Unit"), 0, 0), rStruct([]string{"k"}, []int{0}, intT),
		rW("Type", anyT), rW("Type", intT), rW("Type", rInt(1, 2)), rW("Type", rW("Type", anyT)),
		rOpt(anyT), rOpt(intT), rOpt(strT), rOpt(rcp("Numeric")), rOpt(rArr(intT, 0, lat.Max)), rOpt(rW("Type", anyT)), rOpt(rcp("Undef")),
		rVar(rcp("Undef"), intT), rVar(intT, strT), rW("NotUndef", anyT), rW("NotUndef", intT), rVar(),
	}
}

var attrKinds = []string{"", "constant", "derived", "given_or_derived", "reference"}

// cornerObjects: one attribute - every kind x every declared type x every value (bounded exhaustive for the kinds
// that take a value; the kinds without one over every type); then every other part of the init hash
func cornerObjects() []*OR {
	var out []*OR
	one := func(a *OAttr) { out = append(out, &OR{Attrs: []*OAttr{a}}) }
	tps := objAttrTypes()
	for _, t := range tps {
		for _, k := range attrKinds {
			one(attr("a", t, k, nil))
		}
		one(&OAttr{Name: "a", T: t, Bare: true})
		one(&OAttr{Name: "a", T: t, Final: 1})
		one(&OAttr{Name: "a", T: t, Final: 2, Override: 2})
	}
	for _, v := range objValues() {
		out = append(out, &OR{Consts: []*OAttr{{Name: "c", V: v}}})
		for _, t := range tps {
			for _, k := range []string{"", "constant", "reference"} {
				one(attr("a", t, k, v))
			}
		}
		one(attr("a", rcp("Any"), "derived", v))
		one(attr("a", rOpt(rcp("Any")), "given_or_derived", v))
		one(&OAttr{Name: "a", T: rcp("Any"), Kind: "constant", V: v, Final: 1})
		one(&OAttr{Name: "a", T: rcp("Any"), Kind: "constant", V: v, Final: 2})
		one(&OAttr{Name: "a", T: rcp("Any"), V: v, Final: 1})
	}
	intT, strT := rInt(lat.Min, lat.Max), rcp("String")
	ab := func() []*OAttr { return []*OAttr{attr("a", intT, "", nil), attr("b", rOpt(strT), "", nil)} }
	cf := func(sub ...*Recipe) *Recipe { return &Recipe{K: "Callable", Sub: sub} }
	// no members at all, in every way of saying so
	out = append(out, &OR{HasAttr: true}, &OR{EqInc: 1}, &OR{EqInc: 2}, &OR{HasEq: 1}, &OR{HasSer: true}, &OR{HasAttr: true, HasEq: 1, HasSer: true})
	// the type given as a String
	out = append(out, &OR{Attrs: []*OAttr{{Name: "a", TStr: "Integer", Bare: true}}}, &OR{Attrs: []*OAttr{{Name: "a", TStr: "Optional[Integer[0, 5]]"}}},
		&OR{Attrs: []*OAttr{{Name: "a", TStr: "Numeric", Kind: "constant", V: vI(3)}}})
	// several members: declared constants between the others, the constants section, both
	out = append(out,
		&OR{Attrs: []*OAttr{attr("a", intT, "constant", vI(3)), attr("b", strT, "", nil), attr("c", rcp("Numeric"), "constant", vI(3))}},
		&OR{Attrs: ab(), Consts: []*OAttr{{Name: "c", V: vI(1)}, {Name: "d", V: vS("x")}, {Name: "e", V: vArr("", vI(1), vI(2))}}},
		&OR{Attrs: []*OAttr{attr("a", intT, "", vI(3)), attr("b", rOpt(strT), "", vS("x")), attr("c", rOpt(strT), "", vK("Undef")), attr("d", rcp("Any"), "", vK("Undef"))}},
		&OR{Attrs: []*OAttr{attr("a", intT, "", nil)}, Consts: []*OAttr{{Name: "a", V: vI(1)}}},
	)
	// equality, equality_include_type, serialization
	for _, eq := range [][]string{{}, {"a"}, {"b"}, {"a", "b"}, {"b", "a"}, {"c"}, {"a", "a"}} {
		out = append(out, &OR{Attrs: ab(), HasEq: 1, Eq: eq}, &OR{Attrs: ab(), HasSer: true, Ser: eq}, &OR{Attrs: ab(), HasEq: 1, Eq: eq, EqInc: 2})
		if len(eq) == 1 {
			out = append(out, &OR{Attrs: ab(), HasEq: 2, Eq: eq})
		}
	}
	out = append(out, &OR{Attrs: []*OAttr{attr("a", intT, "constant", vI(3))}, HasEq: 1, Eq: []string{"a"}},
		&OR{Attrs: []*OAttr{attr("a", intT, "derived", nil), attr("b", intT, "", nil)}, HasSer: true, Ser: []string{"b"}},
		&OR{Attrs: []*OAttr{attr("a", intT, "given_or_derived", nil), attr("b", intT, "", nil)}, HasSer: true, Ser: []string{"a", "b"}},
		&OR{Attrs: []*OAttr{attr("a", intT, "given_or_derived", nil), attr("b", intT, "", vI(1))}, HasSer: true, Ser: []string{"b", "a"}})
	// functions
	out = append(out, &OR{Funcs: []*OAttr{{Name: "f", T: rcp("Callable"), Bare: true}}}, &OR{Funcs: []*OAttr{{Name: "f", T: cf(intT)}}},
		&OR{Funcs: []*OAttr{{Name: "f", T: &Recipe{K: "Callable", Sub: []*Recipe{intT}, Ret: strT}, Final: 1}, {Name: "g", T: cf(), Final: 2}}},
		&OR{Attrs: ab(), Funcs: []*OAttr{{Name: "f", T: cf(intT, strT)}}}, &OR{Attrs: ab(), Funcs: []*OAttr{{Name: "a", T: cf()}}},
		&OR{Funcs: []*OAttr{{Name: "f", T: &Recipe{K: "Callable", Sub: []*Recipe{}, HasSize: true, Lo: 0, Hi: 0, Ret: intT}}}})
	// type parameters
	out = append(out, &OR{TParams: []*OAttr{{Name: "p", T: intT, Bare: true}}}, &OR{TParams: []*OAttr{{Name: "p", T: intT}, {Name: "q", T: rOpt(strT), Bare: true}}},
		&OR{TParams: []*OAttr{{Name: "p", T: rW("Type", intT), Bare: true}}, Attrs: ab()})
	// a parent: inherited members, overrides, equality of the parent
	par := rObj(&OR{Attrs: []*OAttr{attr("a", intT, "", nil)}})
	parC := rObj(&OR{Consts: []*OAttr{{Name: "a", V: vI(1)}}})
	parE := rObj(&OR{Attrs: []*OAttr{attr("a", intT, "", nil)}, HasEq: 1, Eq: []string{"a"}})
	parF := rObj(&OR{Funcs: []*OAttr{{Name: "f", T: rcp("Callable")}}})
	out = append(out, &OR{Parent: par}, &OR{Parent: par, Attrs: []*OAttr{attr("b", strT, "", nil)}},
		&OR{Parent: par, Attrs: []*OAttr{{Name: "a", T: rInt(0, 5), Override: 1}}}, &OR{Parent: par, Attrs: []*OAttr{{Name: "a", T: rInt(0, 5)}}},
		&OR{Parent: par, Attrs: []*OAttr{{Name: "a", T: strT, Override: 1}}}, &OR{Attrs: []*OAttr{{Name: "a", T: intT, Override: 1}}},
		&OR{Parent: parC, Consts: []*OAttr{{Name: "a", V: vI(2)}}}, &OR{Parent: parC, Consts: []*OAttr{{Name: "b", V: vI(2)}}},
		&OR{Parent: parC, Attrs: []*OAttr{{Name: "a", T: intT, Kind: "constant", V: vI(2), Override: 1}}},
		&OR{Parent: parC, Attrs: []*OAttr{{Name: "a", T: rInt(0, 5), Kind: "constant", V: vI(2), Override: 1}}},
		&OR{Parent: parE, Attrs: []*OAttr{attr("b", strT, "", nil)}, HasEq: 1, Eq: []string{"b"}},
		&OR{Parent: parE, Attrs: []*OAttr{attr("b", strT, "", nil)}, HasEq: 1, Eq: []string{"a"}},
		&OR{Parent: parF, Funcs: []*OAttr{{Name: "f", T: cf(intT), Override: 1}}}, &OR{Parent: rcp("Object")}, &OR{Parent: intT},
		&OR{Parent: rObj(&OR{Parent: par, Attrs: []*OAttr{attr("b", strT, "", nil)}}), Attrs: []*OAttr{attr("c", strT, "constant", vS("x"))}})
	// an Object type as the type of an attribute, as a constant, as a value
	inner := rObj(&OR{Attrs: []*OAttr{attr("x", intT, "", nil)}, Consts: []*OAttr{{Name: "c", V: vI(1)}}})
	innerW := rObj(&OR{Attrs: []*OAttr{attr("c", rcp("Numeric"), "constant", vI(3))}})
	out = append(out, &OR{Attrs: []*OAttr{attr("a", inner, "", nil)}}, &OR{Attrs: []*OAttr{attr("a", rOpt(innerW), "", nil)}},
		&OR{Consts: []*OAttr{{Name: "t", V: vTypeR(inner)}, {Name: "u", V: vTypeR(innerW)}}},
		&OR{Attrs: []*OAttr{attr("a", rW("Type", rcp("Any")), "", vTypeR(innerW))}}, &OR{Attrs: []*OAttr{attr("a", rW("Type", rcp("Any")), "constant", vTypeR(innerW))}})
	return out
}

// cornerObjectRecipes: those Object types at the root, and a selection nested in other types
func cornerObjectRecipes() []*Recipe {
	var out []*Recipe
	objs := cornerObjects()
	for _, o := range objs {
		out = append(out, rObj(o))
	}
	// named: prints as the name; the Expanded text is what is checked
	intT := rInt(lat.Min, lat.Max)
	out = append(out, rObj(&OR{Name: "Foo"}), rObj(&OR{Name: "Foo::Bar", Attrs: []*OAttr{attr("a", intT, "", nil), attr("c", rcp("Numeric"), "constant", vI(3))}}))
	for i, o := range objs {
		if i%37 != 5 && !(len(o.Attrs) == 1 && o.Attrs[0].Kind == "constant" && o.Attrs[0].V != nil && o.Attrs[0].V.K == "Int" && o.Attrs[0].V.I == 3) {
			continue
		}
		t := rObj(o)
		switch i % 6 {
		case 0:
			out = append(out, rArr(t, 0, lat.Max))
		case 1:
			out = append(out, rOpt(t))
		case 2:
			out = append(out, rStruct([]string{"k"}, []int{0}, t))
		case 3:
			out = append(out, rVar(t, intT))
		case 4:
			out = append(out, rW("Type", t))
		default:
			out = append(out, rTup(intT, t))
		}
	}
	return out
}

func randomObject(r *lib.Rng, depth int) *OR {
	o := &OR{}
	names := []string{"a", "b", "c", "d", "a_b", "x1", "_y"}
	tps, vals := objAttrTypes(), objValues()
	used := map[string]bool{}
	name := func() string {
		for i := 0; i < 10; i++ {
			n := names[r.Intn(len(names))]
			if !used[n] {
				used[n] = true
				return n
			}
		}
		n := fmt.Sprintf("z%d", len(used))
		used[n] = true
		return n
	}
	if depth > 0 && r.Chance(1, 4) {
		o.Parent = rObj(randomObject(r, depth-1))
		for _, a := range o.Parent.Obj.Attrs {
			if r.Chance(2, 3) {
				used[a.Name] = true
			}
		}
	}
	rt := func() *Recipe {
		switch r.Intn(8) {
		case 0:
			return randomRecipe(r, 1)
		case 1:
			if depth > 0 {
				return rObj(randomObject(r, depth-1))
			}
		}
		return tps[r.Intn(len(tps))]
	}
	rv := func() *VR {
		switch r.Intn(10) {
		case 0:
			return fromVSpec(randomValue(r, 1))
		case 1:
			if depth > 0 {
				return vTypeR(rObj(randomObject(r, depth-1)))
			}
		}
		return vals[r.Intn(len(vals))]
	}
	// a type that takes the value: retried by the generator a few times against a cheap static table is not
	// possible without the lattice, so the implementation decides (a rejected recipe counts as type.nobuild)
	for i, n := 0, r.Intn(5); i < n; i++ {
		a := &OAttr{Name: name(), T: rt(), Kind: attrKinds[[]int{0, 0, 0, 1, 1, 1, 2, 3, 4}[r.Intn(9)]]}
		if a.Kind == "constant" || (a.Kind == "" || a.Kind == "reference") && r.Bool() {
			a.V = rv()
			// steer towards types that take the value
			if r.Chance(3, 4) {
				a.T = typeFor(r, a.V)
			}
		}
		if a.V == nil && a.Kind == "" && r.Bool() {
			a.Bare = true
		}
		if r.Chance(1, 8) {
			a.Final = 1 + r.Intn(2)
		}
		if r.Chance(1, 20) {
			a.Override = 1 + r.Intn(2)
		}
		o.Attrs = append(o.Attrs, a)
	}
	for i, n := 0, r.Intn(3); i < n && r.Bool(); i++ {
		o.Consts = append(o.Consts, &OAttr{Name: name(), V: rv()})
	}
	if r.Chance(1, 4) {
		cs := []*Recipe{rcp("Callable"), {K: "Callable", Sub: []*Recipe{rInt(lat.Min, lat.Max)}}, {K: "Callable", Sub: []*Recipe{rcp("String")}, Ret: rcp("Boolean")}}
		for i, n := 0, 1+r.Intn(2); i < n; i++ {
			o.Funcs = append(o.Funcs, &OAttr{Name: name(), T: cs[r.Intn(len(cs))], Bare: r.Bool(), Final: r.Intn(3)})
		}
	}
	if r.Chance(1, 8) {
		o.TParams = append(o.TParams, &OAttr{Name: "p", T: tps[r.Intn(len(tps))], Bare: r.Bool()})
	}
	var plain []string
	for _, a := range o.Attrs {
		if a.Kind == "" || a.Kind == "reference" || r.Chance(1, 10) {
			plain = append(plain, a.Name)
		}
	}
	if len(plain) > 0 && r.Chance(1, 3) {
		o.HasEq = 1
		o.Eq = plain[:1+r.Intn(len(plain))]
		if len(o.Eq) == 1 && r.Bool() {
			o.HasEq = 2
		}
	}
	if r.Chance(1, 6) {
		o.EqInc = 1 + r.Intn(2)
	}
	if len(plain) > 0 && r.Chance(1, 4) {
		o.HasSer = true
		o.Ser = plain[:1+r.Intn(len(plain))]
	}
	return o
}

// typeFor: a declared type that is likely to take the value - its generalized type, something wider, something narrower
func typeFor(r *lib.Rng, v *VR) *Recipe {
	intT, strT, anyT := rInt(lat.Min, lat.Max), rcp("String"), rcp("Any")
	var exact, narrow *Recipe
	wide := []*Recipe{anyT, rcp("RichData")}
	switch v.K {
	case "Undef":
		exact, narrow = rcp("Undef"), rOpt(intT)
		wide = append(wide, rOpt(anyT), rOpt(strT), rVar(rcp("Undef"), intT), rcp("Data"))
	case "Default":
		exact, narrow = rcp("Default"), intT
	case "Bool":
		exact, narrow = rcp("Boolean"), &Recipe{K: "Boolean", Bool: map[bool]int{false: 0, true: 1}[v.B]}
		wide = append(wide, rcp("Scalar"), rcp("Data"), rOpt(exact))
	case "Int":
		exact, narrow = intT, rInt(v.I, v.I)
		wide = append(wide, rcp("Numeric"), rcp("Scalar"), rcp("ScalarData"), rcp("Data"), rOpt(intT), rVar(intT, strT), rW("NotUndef", intT))
	case "Float":
		exact, narrow = rcp("FloatDefault"), rcp("FloatDefault")
		wide = append(wide, rcp("Numeric"), rcp("Scalar"), rOpt(rcp("Numeric")))
	case "Str":
		exact, narrow = strT, rEnum(false, v.S, "other")
		wide = append(wide, rcp("Scalar"), rcp("Data"), rOpt(strT), rVar(intT, strT))
	case "Regexp":
		exact, narrow = &Recipe{K: "Regexp"}, &Recipe{K: "Regexp", S: v.S}
		wide = append(wide, rcp("Scalar"), rOpt(exact))
	case "Arr", "EmptyArray":
		exact, narrow = rArr(intT, 0, lat.Max), rArr(anyT, len64(v.Sub), len64(v.Sub))
		wide = append(wide, rArr(anyT, 0, lat.Max), rArr(rcp("Numeric"), 0, lat.Max), &Recipe{K: "Collection", Lo: 0, Hi: lat.Max}, rOpt(rArr(intT, 0, lat.Max)), rcp("Data"))
	case "Hash", "EmptyMap":
		exact, narrow = rHash(strT, intT, 0, lat.Max), rHash(anyT, anyT, len64(v.Sub)/2, len64(v.Sub)/2)
		wide = append(wide, rHash(anyT, anyT, 0, lat.Max), rHash(strT, anyT, 0, lat.Max), &Recipe{K: "Collection", Lo: 0, Hi: lat.Max})
	case "Type", "TypeR":
		exact, narrow = rW("Type", anyT), rW("Type", anyT)
		wide = append(wide, rOpt(rW("Type", anyT)), rVar(rW("Type", anyT), strT))
	default:
		return anyT
	}
	switch r.Intn(5) {
	case 0, 1:
		return exact
	case 2:
		return narrow
	}
	return wide[r.Intn(len(wide))]
}

func len64(x []*VR) int64 { return int64(len(x)) }

// objectTypeTexts: Object types given by their text (built by the parser: bare-word keys, quoted keys, types
// as Strings, every section in another order)
func objectTypeTexts() []string {
	return []string{
		"Object[{}]", "Object[{attributes => {}}]", "Object[{constants => {}}]", "Object[{functions => {}}]", "Object[{equality => []}]", "Object[{serialization => []}]",
		"Object[{equality_include_type => true}]", "Object[{equality_include_type => false}]", "Object[{annotations => {}}]", "Object[{type_parameters => {}}]",
		"Object[{attributes => {a => Integer}}]", "Object[{'attributes' => {'a' => Integer}}]", "Object[{attributes => {a => 'Integer'}}]", "Object[{attributes => {a => {type => 'Integer'}}}]",
		"Object[{attributes => {a => {type => Integer, kind => constant, value => 3}}}]", "Object[{attributes => {a => {type => Numeric, kind => constant, value => 3}}}]",
		"Object[{attributes => {a => Integer, c => {type => Optional[Integer], kind => constant, value => 3}}}]", "Object[{attributes => {c => {type => Any, kind => constant, value => 'x'}}}]",
		"Object[{attributes => {c => {type => Array[Numeric], kind => constant, value => [1, 2]}}}]", "Object[{attributes => {c => {type => Optional[String], kind => constant, value => undef}}}]",
		"Object[{attributes => {c => {type => Optional[String], value => undef}}}]", "Object[{attributes => {c => {type => Any, value => undef}}}]",
		"Object[{constants => {c => 3, d => 'x', e => [1, 2], f => undef, g => default, h => Integer[1, 2], i => {'k' => 1}, j => 1.5, k => /x/, l => true}}]",
		"Object[{constants => {b => 1}, attributes => {a => {type => String, value => 'x'}}}]", "Object[{attributes => {a => {type => String, value => 'x'}}, constants => {b => 1}}]",
		"Object[{attributes => {a => {type => Integer, kind => derived}, b => {type => Integer, kind => given_or_derived}, c => {type => Integer, kind => reference}}}]",
		"Object[{attributes => {a => {type => Integer, final => true}, b => {type => Integer, final => false}, c => {type => Integer, override => false}}}]",
		"Object[{attributes => {a => Integer, b => String}, equality => a}]", "Object[{attributes => {a => Integer, b => String}, equality => [b, a], equality_include_type => false}]",
		"Object[{attributes => {a => Integer, b => Optional[String]}, serialization => [a]}]", "Object[{functions => {f => Callable[Integer]}}]",
		"Object[{functions => {f => {type => Callable[[Integer], String], final => true}}}]", "Object[{type_parameters => {p => Integer}}]", "Object[{type_parameters => {p => {type => Integer}}}]",
		"Object[{parent => Object[{attributes => {a => Integer}}], attributes => {b => String}}]", "Object[{parent => Object}]", "Object[{parent => 'Object'}]",
		"Object[{parent => Object[{attributes => {a => Integer}}], attributes => {a => {type => Integer[0, 5], override => true}}}]",
		"Object[{attributes => {a => Object[{attributes => {x => Integer}}]}}]", "Object[{constants => {t => Object[{attributes => {x => Integer}}]}}]",
		"Array[Object[{attributes => {c => {type => Numeric, kind => constant, value => 3}}}]]", "Optional[Object[{constants => {c => 3}}]]", "Type[Object[{attributes => {a => Integer}}]]",
		"Object[{attributes => {a => Integer}, functions => {a => Callable}}]", "Object[{attributes => {a => Integer}, constants => {a => 1}}]", "Object[{attributes => {a => Integer}, equality => [b]}]",
		"Object[{attributes => {'a b' => Integer}}]", "Object[{parent => Integer}]", "Object[{attributes => {a => {type => Integer, kind => constant}}}]", "Object[{attributes => {a => {type => Integer, value => 'x'}}}]",
		"Object[{attributes => {a => {type => Integer, kind => derived, value => 1}}}]", "Object[{attributes => {a => {type => Integer, kind => constant, value => 1, final => false}}}]",
		"Object[{unknown => 1}]", "Object[1]", "Object[{}, {}]", "Object[{attributes => 1}]", "Object[{attributes => {a => 1}}]", "Object[{attributes => {a => {}}}]", "Object",
	}
}

// sortedKeys of a string set
func sortedKeys(m map[string]bool) []string {
	var ks []string
	for k := range m {
		ks = append(ks, k)
	}
	sort.Strings(ks)
	return ks
}

var _ = fmt.Sprintf
var _ = strings.HasPrefix
