// Recipes of types: a type is built through the Go constructors (never through the parser), so that a case
// replays exactly. The JSON shape is that of lat.Spec (harness/lat, the lattice properties' pools are
// reused as they are) plus the kinds that only printing/parsing cares about.
package main

import (
	"encoding/json"
	"time"

	"github.com/lyraproj/pcore/px"
	"github.com/lyraproj/pcore/types"

	"verifharness/lat"
)

type Recipe struct {
	K       string    `json:"k"`
	Lo      int64     `json:"lo,omitempty"`
	Hi      int64     `json:"hi,omitempty"`
	FLo     float64   `json:"flo,omitempty"`
	FHi     float64   `json:"fhi,omitempty"`
	Bool    int       `json:"bool,omitempty"`
	S       string    `json:"s,omitempty"`
	S2      string    `json:"s2,omitempty"`
	Strs    []string  `json:"strs,omitempty"`
	CI      bool      `json:"ci,omitempty"`
	Sub     []*Recipe `json:"sub,omitempty"`
	Names   []string  `json:"names,omitempty"`
	KeyKind []int     `json:"key_kind,omitempty"`
	HasSize bool      `json:"has_size,omitempty"`
	// Callable: Sub = parameter types, HasSize/Lo/Hi = size of the parameter tuple; Ret / Block optional
	Ret   *Recipe `json:"ret,omitempty"`
	Block *Recipe `json:"block,omitempty"`
	// Via (root only): "" = fresh objects from the constructors; "shared" = equal sub-recipes are ONE instance
	// (the same type object at several positions); "parsed" = the type the parser makes of the text of that type
	Via string `json:"via,omitempty"`
	// Object (objtype.go): nil = the default Object type
	Obj *OR `json:"obj,omitempty"`
}

// buildMemo: when not nil, Build returns the same instance for equal recipes
var buildMemo map[string]px.Type

func (s *Recipe) BuildVia() px.Type {
	if s.Via == "shared" {
		buildMemo = map[string]px.Type{}
		defer func() { buildMemo = nil }()
	}
	return s.Build()
}

func fromSpec(s *lat.Spec) *Recipe {
	b, err := json.Marshal(s)
	if err != nil {
		panic(err)
	}
	r := &Recipe{}
	if err := json.Unmarshal(b, r); err != nil {
		panic(err)
	}
	return r
}

func (s *Recipe) json() string {
	b, err := json.Marshal(s)
	if err != nil {
		panic(err)
	}
	return string(b)
}

func size(lo, hi int64) *types.IntegerType { return types.NewIntegerType(lo, hi) }

func (s *Recipe) subTypes() []px.Type {
	ts := make([]px.Type, len(s.Sub))
	for i := range s.Sub {
		ts[i] = s.Sub[i].Build()
	}
	return ts
}

// Build constructs the type (fresh objects on every call, except the library's own singletons).
func (s *Recipe) Build() px.Type {
	if buildMemo == nil || s.Via != "" {
		return s.build()
	}
	key := s.json()
	if t, ok := buildMemo[key]; ok {
		return t
	}
	t := s.build()
	buildMemo[key] = t
	return t
}

func (s *Recipe) build() px.Type {
	sub := func(i int) px.Type { return s.Sub[i].Build() }
	switch s.K {
	case "Any":
		return types.DefaultAnyType()
	case "Unit":
		return types.DefaultUnitType()
	case "Undef":
		return types.DefaultUndefType()
	case "Default":
		return types.DefaultDefaultType()
	case "Boolean":
		if s.Bool < 0 {
			return types.DefaultBooleanType()
		}
		return types.NewBooleanType(s.Bool == 1)
	case "Integer":
		return types.NewIntegerType(s.Lo, s.Hi)
	case "Float":
		return types.NewFloatType(s.FLo, s.FHi)
	case "FloatDefault":
		return types.DefaultFloatType()
	case "Numeric":
		return types.DefaultNumericType()
	case "Scalar":
		return types.DefaultScalarType()
	case "ScalarData":
		return types.DefaultScalarDataType()
	case "String":
		return types.DefaultStringType()
	case "StringSz":
		return types.NewStringType(size(s.Lo, s.Hi), "")
	case "StringVal":
		return types.WrapString(s.S).PType()
	case "Enum":
		return types.NewEnumType(append([]string{}, s.Strs...), s.CI)
	case "Pattern":
		rx := make([]*types.RegexpType, len(s.Strs))
		for i, p := range s.Strs {
			rx[i] = types.NewRegexpType(p)
		}
		return types.NewPatternType(rx)
	case "Regexp":
		return types.NewRegexpType(s.S)
	case "Binary":
		return types.DefaultBinaryType()
	case "Collection":
		return types.NewCollectionType(size(s.Lo, s.Hi))
	case "Array":
		return types.NewArrayType(sub(0), size(s.Lo, s.Hi))
	case "Hash":
		return types.NewHashType(sub(0), sub(1), size(s.Lo, s.Hi))
	case "Tuple":
		if s.HasSize {
			return types.NewTupleType(s.subTypes(), size(s.Lo, s.Hi))
		}
		return types.NewTupleType(s.subTypes(), nil)
	case "Struct":
		es := make([]*types.StructElement, len(s.Sub))
		for i := range s.Sub {
			var key px.Value = types.WrapString(s.Names[i])
			switch s.KeyKind[i] {
			case 1:
				key = types.NewOptionalType(types.WrapString(s.Names[i]).PType())
			case 2:
				key = types.WrapString(s.Names[i]).PType()
			}
			es[i] = types.NewStructElement(key, sub(i))
		}
		return types.NewStructType(es)
	case "Variant":
		return types.NewVariantType(s.subTypes()...)
	case "Optional":
		return types.NewOptionalType(sub(0))
	case "NotUndef":
		return types.NewNotUndefType(sub(0))
	case "Type":
		return types.NewTypeType(sub(0))
	case "Sensitive":
		return types.NewSensitiveType(sub(0))
	case "Iterable":
		return types.NewIterableType(sub(0))
	case "Iterator":
		return types.NewIteratorType(sub(0))
	case "Data":
		return types.DefaultDataType()
	case "RichData":
		return types.DefaultRichDataType()
	case "Timespan":
		return types.DefaultTimespanType()
	case "TimespanR":
		return types.NewTimespanType(time.Duration(s.Lo), time.Duration(s.Hi))
	case "Timestamp":
		return types.DefaultTimestampType()
	case "SemVer":
		return types.DefaultSemVerType()
	case "Callable":
		if len(s.Sub) == 0 && !s.HasSize && s.Ret == nil && s.Block == nil {
			return types.DefaultCallableType()
		}
		var sz *types.IntegerType
		if s.HasSize {
			sz = size(s.Lo, s.Hi)
		}
		var ret, block px.Type
		if s.Ret != nil {
			ret = s.Ret.Build()
		}
		if s.Block != nil {
			block = s.Block.Build()
		}
		return types.NewCallableType(types.NewTupleType(s.subTypes(), sz), ret, block)
	case "Object":
		if s.Obj == nil {
			return types.DefaultObjectType()
		}
		return s.Obj.Build()
	case "TypeRef":
		return types.NewTypeReferenceType(s.S)
	case "Runtime":
		return types.NewRuntimeType(s.S, s.S2, nil)
	}
	panic("Recipe.Build: unknown kind " + s.K)
}

// contains tells whether the recipe mentions the kind anywhere
func (s *Recipe) contains(kind string) bool {
	if s == nil {
		return false
	}
	if s.K == kind {
		return true
	}
	for _, e := range s.Sub {
		if e.contains(kind) {
			return true
		}
	}
	if s.Obj != nil {
		found := false
		s.Obj.eachRecipe(func(r *Recipe) {
			if r.K == kind {
				found = true
			}
		})
		if found {
			return true
		}
	}
	return s.Ret.contains(kind) || s.Block.contains(kind)
}

// strings of the recipe (Enum values, exact String values, Struct member names, regexp sources)
func (s *Recipe) walk(f func(r *Recipe)) {
	if s == nil {
		return
	}
	f(s)
	for _, e := range s.Sub {
		e.walk(f)
	}
	s.Ret.walk(f)
	s.Block.walk(f)
	if s.Obj != nil {
		s.Obj.eachRecipe(f)
	}
}
