// M for container values: the object graph of a value (which instance sits where) and the tokens of its
// program-format text, against print_value of coq/Model/ValuePrint.v (Array.ToString2 / Hash.ToString2 with
// the recursion detector that all nested calls share).
package main

import (
	"fmt"
	"strings"

	"github.com/lyraproj/pcore/px"
	"github.com/lyraproj/pcore/types"

	"verifharness/lib"
)

func gTok(t types.VerifToken) string {
	if c, ok := tokCtor[t.Kind]; ok {
		return c
	}
	return "(" + tokCtorS[t.Kind] + " " + lib.GStr(t.Text) + ")"
}

// leafTokens: the tokens a value that is not an Array or Hash prints as inside a container (the brackets of
// the singleton array around it removed); ok=false when the text cannot be lexed
func leafTokens(v px.Value) (ts []string, ok bool) {
	var text string
	if c, _ := guard(func() { text = px.ToString2(types.WrapValues([]px.Value{v}), types.Program) }); c != "ok" {
		return nil, false
	}
	toks, failure, _, _ := types.VerifTokens(text)
	if failure != nil || len(toks) < 3 || toks[0].Kind != 7 || toks[len(toks)-2].Kind != 8 {
		return nil, false
	}
	for _, t := range toks[1 : len(toks)-2] {
		ts = append(ts, gTok(t))
	}
	return ts, true
}

// heapObs records in aux: hnodes (the Array / Hash instances reachable from v, children before parents, as a
// Gallina list of node; an instance occurs once however often it is referenced) and hroot (the reference to v).
// Nothing is recorded when a leaf does not lex (known finding U+FFFD) or the graph has a cycle.
func heapObs(v px.Value, aux map[string]string) {
	addr := map[px.Value]int{}
	onPath := map[px.Value]bool{}
	var nodes []string
	bad := false
	var ref func(v px.Value) string
	ref = func(v px.Value) string {
		if bad {
			return ""
		}
		switch x := v.(type) {
		case *types.Array, *types.Hash:
			if a, ok := addr[v]; ok {
				return fmt.Sprintf("(RNode %d)", a)
			}
			if onPath[v] || len(nodes) > 5000 {
				bad = true
				return ""
			}
			onPath[v] = true
			var term string
			if ar, ok := x.(*types.Array); ok {
				es := []string{}
				ar.Each(func(e px.Value) { es = append(es, ref(e)) })
				term = "(NArr " + lib.GList(es, "ref") + ")"
			} else {
				es := []string{}
				x.(*types.Hash).EachPair(func(k, e px.Value) { es = append(es, "("+ref(k)+", "+ref(e)+")") })
				term = "(NHash " + lib.GList(es, "ref * ref") + ")"
			}
			delete(onPath, v)
			addr[v] = len(nodes)
			nodes = append(nodes, term)
			return fmt.Sprintf("(RNode %d)", addr[v])
		}
		ts, ok := leafTokens(v)
		if !ok {
			bad = true
			return ""
		}
		return "(RLeaf " + lib.GList(ts, "tok") + ")"
	}
	var root string
	if c, _ := guard(func() { root = ref(v) }); c != "ok" || bad {
		return
	}
	aux["hnodes"] = lib.GList(nodes, "node")
	aux["hroot"] = root
	aux["hshared"] = fmt.Sprint(strings.Count(strings.Join(nodes, " ")+" "+root, "RNode") - len(nodes))
}

// addValue: (heap, root, Some tokens of the printed text | None when that text does not lex)
func (e *emitter) addValue(in input, o Obs) {
	if o.Aux["hroot"] == "" || o.Aux["printclass"] != "ok" {
		return
	}
	obs := "(@None (list tok))"
	if o.Aux["lexclass"] == "ok" {
		ts, ok := o.Aux["ptoks"]
		if !ok {
			return // a text the token observation leaves out (first token `type`)
		}
		obs = "(Some " + ts + ")"
	}
	e.values = append(e.values, mcase{fmt.Sprintf("(%s, %s, %s)", o.Aux["hnodes"], o.Aux["hroot"], obs), in,
		strings.HasPrefix(in.Family, "random"), e.failed})
}
