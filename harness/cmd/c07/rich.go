package main

// M: cases_rich (coq/Model/KeysRich.v, coq/Corr/CorrC07Rich.v) - the Timestamp, Timespan, Runtime and Go runtime types of
// the pool (families Rep of multirep.go, every construction route) as construction terms of the model: the route is the
// constructor expression (NewTimestampType of times in a zone / with a monotonic reading, Timestamp[...] of a parsed text,
// an Integer, a Timestamp value, ...), so that two routes of one description are two different terms which the model must
// answer alike.  Oracles (tables in the prelude of the file, filled from the implementation's own functions): the text of
// a bound in UTC, the text of a duration, String() / PkgPath() / %p of a reflect.Type.

import (
	"fmt"
	"reflect"
	"sort"
	"strings"
	"time"

	"github.com/lyraproj/pcore/types"

	"verifharness/lib"
)

type richTables struct {
	ts  map[string]string // Gallina instant -> text
	sp  map[int64]string
	go_ map[int]string
}

func gInst(tm time.Time) string {
	return fmt.Sprintf("(mk_inst %s %s)", lib.GZ(tm.Unix()), lib.GZ(int64(tm.Nanosecond())))
}

// gTime: a time.Time as a term: instant, offset of its location, the monotonic reading (its value is not known: 7)
func (rt *richTables) gTime(tm time.Time, mono bool) string {
	_, off := tm.Zone()
	rt.ts[gInst(tm)] = types.WrapTimestamp(tm.UTC()).String()
	m := "None"
	if mono {
		m = "(Some 7)"
	}
	return fmt.Sprintf("(mkTime %s %s %s)", gInst(tm), lib.GZ(int64(off)), m)
}

func goIds() []string {
	ids := make([]string, 0, len(goZero))
	for k := range goZero {
		ids = append(ids, k)
	}
	sort.Strings(ids)
	return ids
}

// richTermOf: the type as a term of Corr/CorrC07Rich.v (rich), by family and route
func (rt *richTables) richTermOf(d *V) (string, bool) {
	if d.K != "Type" || d.R != "" || d.T == nil || d.T.K != "Rep" {
		return "", false
	}
	t := d.T
	a := make([]string, len(t.Strs))
	for i, s := range t.Strs {
		a[i] = string(s)
	}
	switch t.S {
	case "Timestamp":
		lo, loMin, _ := instant(a[0])
		hi, _, hiMax := instant(a[1])
		cet, pdt := time.FixedZone("CET", 3600), time.FixedZone("PDT", -7*3600)
		newT := func(l, h string) string { return fmt.Sprintf("(RTs (new_timestamp_type %s %s))", l, h) }
		// Timestamp[l] when the upper bound is the maximum, Timestamp[l, h] otherwise; default for an extreme
		two := func(f func(tm time.Time) string) string {
			l, h := "BDefault", "BDefault"
			if !loMin {
				l = f(lo)
			}
			if !hiMax {
				h = f(hi)
			}
			if hiMax {
				return fmt.Sprintf("(RTs (new_timestamp_type2 %s None))", l)
			}
			return fmt.Sprintf("(RTs (new_timestamp_type2 %s (Some %s)))", l, h)
		}
		parsed := func(zone int64) func(tm time.Time) string {
			return func(tm time.Time) string {
				rt.gTime(tm, false)
				return fmt.Sprintf("(BParsed %s %s)", gInst(tm), lib.GZ(zone))
			}
		}
		localOff := func(tm time.Time) int64 {
			_, off := time.Unix(tm.Unix(), 0).Zone()
			return int64(off)
		}
		switch t.R {
		case "":
			return newT(rt.gTime(lo, false), rt.gTime(hi, false)), true
		case "zone+1":
			return newT(rt.gTime(lo.In(cet), false), rt.gTime(hi.In(cet), false)), true
		case "zone-7":
			return newT(rt.gTime(lo.In(pdt), false), rt.gTime(hi.In(pdt), false)), true
		case "mixed-zones":
			return newT(rt.gTime(lo.In(pdt), false), rt.gTime(hi.In(cet), false)), true
		case "mono":
			ml, mh := lo, hi
			if !loMin {
				ml = lo.Local()
			}
			if !hiMax {
				mh = hi.Local()
			}
			return newT(rt.gTime(ml, !loMin), rt.gTime(mh, !hiMax)), true
		case "mono-zone":
			return newT(rt.gTime(lo.In(cet), false), rt.gTime(hi.In(pdt), false)), true
		case "text":
			return two(parsed(0)), true
		case "float":
			return two(func(tm time.Time) string { return parsed(localOff(tm))(tm) }), true
		case "int":
			return two(func(tm time.Time) string {
				rt.gTime(tm, false)
				return fmt.Sprintf("(BInt %s %s)", lib.GZ(tm.Unix()), lib.GZ(localOff(tm)))
			}), true
		case "value-text":
			return two(func(tm time.Time) string { return "(BValue " + rt.gTime(tm.UTC(), false) + ")" }), true
		case "hash-tz":
			return two(parsed(3600)), true
		case "meta-new":
			l := "BDefault"
			if !loMin {
				l = "(BValue " + rt.gTime(lo.In(pdt), false) + ")"
			}
			if hiMax {
				return fmt.Sprintf("(RTs (new_timestamp_type2 %s None))", l), true
			}
			return fmt.Sprintf("(RTs (new_timestamp_type2 %s (Some (BValue %s))))", l, rt.gTime(hi.In(cet), false)), true
		case "meta-new-mono", "meta-new-mono-b", "meta-new-mono-c", "meta-new-mono-d":
			l := "BDefault"
			if !loMin {
				l = "(BValue " + rt.gTime(lo.Local(), true) + ")"
			}
			if hiMax {
				return fmt.Sprintf("(RTs (new_timestamp_type2 %s None))", l), true
			}
			return fmt.Sprintf("(RTs (new_timestamp_type2 %s (Some (BValue %s))))", l, rt.gTime(hi.Local(), true)), true
		}
	case "Timespan":
		lo, loMin, _ := span(a[0])
		hi, _, hiMax := span(a[1])
		text := func(d time.Duration) { rt.sp[int64(d)] = types.WrapTimespan(d).SerializationString() }
		text(lo)
		text(hi)
		two := func(f func(d time.Duration) string) string {
			l, h := "SDefault", "SDefault"
			if !loMin {
				l = f(lo)
			}
			if !hiMax {
				h = f(hi)
			}
			if hiMax {
				return fmt.Sprintf("(RSp (new_timespan_type2 %s None))", l)
			}
			return fmt.Sprintf("(RSp (new_timespan_type2 %s (Some %s)))", l, h)
		}
		switch t.R {
		case "":
			return fmt.Sprintf("(RSp (new_timespan_type %s %s))", lib.GZ(int64(lo)), lib.GZ(int64(hi))), true
		case "text", "hash", "float":
			return two(func(d time.Duration) string { return "(SParsed " + lib.GZ(int64(d)) + ")" }), true
		case "int":
			return two(func(d time.Duration) string { return "(SInt " + lib.GZ(int64(d/time.Second)) + ")" }), true
		case "meta-new":
			return two(func(d time.Duration) string { return "(SValue " + lib.GZ(int64(d)) + ")" }), true
		}
	case "Runtime":
		r, name, pat := a[0], a[1], a[2]
		hasPat := strings.HasPrefix(pat, "/")
		gpat := lib.GOpt(false, "", "list N")
		if hasPat {
			gpat = lib.GOpt(true, lib.GStr(pat[1:]), "list N")
		}
		switch t.R {
		case "":
			return fmt.Sprintf("(RRt (new_runtime_type %s %s %s))", lib.GStr(r), lib.GStr(name), gpat), true
		case "text", "meta-new":
			if r == "" && name == "" && !hasPat {
				return "(RRt (Some default_runtime_type))", true
			}
			gname := lib.GOpt(false, "", "list N")
			if name != "" || hasPat {
				gname = lib.GOpt(true, lib.GStr(name), "list N")
			}
			return fmt.Sprintf("(RRt (new_runtime_type2 %s %s %s))", lib.GStr(r), gname, gpat), true
		}
	case "GoRuntime":
		for i, id := range goIds() {
			if id == a[0] {
				gt := reflect.TypeOf(goZero[id])
				rt.go_[i] = lib.GPair(lib.GNat(i), lib.GPair(lib.GPair(lib.GStr(gt.String()), lib.GStr(gt.PkgPath())), lib.GStr(fmt.Sprintf("%p", gt))))
				return fmt.Sprintf("(RGo %s)", lib.GNat(i)), true
			}
		}
	}
	return "", false
}

// richCases emits the pool of these types and, for every one of them, its observed hash key and its observed row and
// column of the Equals matrix over that pool (all ordered pairs, every route against every route).
func (ck *checker) richCases(cfg *lib.Config) lib.CorrFile {
	cf := &lib.CasesFile{Imports: []string{"Model.Base", "Model.Keys", "Model.KeysRich", "Corr.CorrC07Rich"}, Typ: "rich_case",
		Obligations: map[string]string{"rich_model": "c07_rich_mismatches tb rich_pool cases"}}
	rt := &richTables{ts: map[string]string{}, sp: map[int64]string{}, go_: map[int]string{}}
	items := ck.p.items
	var idx []int
	var terms []string
	for i, it := range items {
		if !it.keyOK {
			continue
		}
		if s, ok := rt.richTermOf(it.d); ok {
			idx = append(idx, i)
			terms = append(terms, s)
			ck.res.Count("rich-types." + string(it.d.T.S) + "@" + it.d.T.R)
		}
	}
	for x, i := range idx {
		var row, col []string
		for y, j := range idx {
			if ck.eq[i].get(j) {
				row = append(row, lib.GNat(y))
				if terms[x] != terms[y] {
					ck.res.Nontrivial("rich " + terms[x] + " ~ " + terms[y])
				}
			}
			if ck.eq[j].get(i) {
				col = append(col, lib.GNat(y))
			}
		}
		cf.Add(fmt.Sprintf("(%s, %s, %s, %s)", lib.GNat(x), lib.GStr(items[i].key), lib.GList(row, "nat"), lib.GList(col, "nat")),
			map[string]interface{}{"kind": "row", "clause": "rich-model", "vs": []*V{items[i].d}})
		ck.res.Count("rich-cases")
		if x%60 == 7 {
			ck.res.Sample(map[string]interface{}{"rich_type": items[i].text, "model_term": terms[x], "equal_to": len(row)})
		}
	}
	var b strings.Builder
	b.WriteString("Definition tb : rich_tables := mkTables\n [")
	first := true
	keys := make([]string, 0, len(rt.ts))
	for k := range rt.ts {
		keys = append(keys, k)
	}
	sort.Strings(keys)
	for _, k := range keys {
		if !first {
			b.WriteString("; ")
		}
		first = false
		b.WriteString(lib.GPair(k, lib.GStr(rt.ts[k])))
	}
	b.WriteString("]\n [")
	sps := make([]int64, 0, len(rt.sp))
	for k := range rt.sp {
		sps = append(sps, k)
	}
	sort.Slice(sps, func(i, j int) bool { return sps[i] < sps[j] })
	for n, k := range sps {
		if n > 0 {
			b.WriteString("; ")
		}
		b.WriteString(lib.GPair(lib.GZ(k), lib.GStr(rt.sp[k])))
	}
	b.WriteString("]\n [")
	gos := make([]int, 0, len(rt.go_))
	for k := range rt.go_ {
		gos = append(gos, k)
	}
	sort.Ints(gos)
	for n, k := range gos {
		if n > 0 {
			b.WriteString("; ")
		}
		b.WriteString(rt.go_[k])
	}
	b.WriteString("].\n")
	b.WriteString("Definition rich_pool : list rich :=\n " + lib.GList(terms, "rich") + ".\n")
	cf.Prelude = b.String()
	ck.res.Extra["rich_types_in_model"] = len(idx)
	return cf.WriteTo(cfg.Out, "cases_rich")
}
