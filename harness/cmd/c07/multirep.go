package main

// Types that have several internal representations of one parameter (added in wave 6, when the seeded change
// C07-m9 was missed): the parameter of a URI type is nothing, a *url.URL (from a string, from a URI value, from
// NewUriType, or the type of a URI value) or a Hash; the bounds of a Timestamp type are time.Time values with a
// location, given as a string, a number, a Timestamp, a hash or a time.Time; the bounds of a Timespan type, the
// parts of a Runtime type, the range of a SemVer type, the regexps of a Pattern / Regexp type and the name of a
// TypeReference likewise come in through several constructors.
//
// A description T{K: "Rep", S: family, Strs: the abstract parameter, R: route} denotes one type; the route names
// the constructor.  Routes of one description hold the SAME parameter (the same URL text, the same instants, the
// same durations, ...): they must be equal to one another, answer every Equals question alike and have one hash
// key (routeIndependence).  Different parameters that the library may or may not take for equal (the URL form and
// the Hash form of a URI, 'http://Example.com' and 'http://example.com', '' and '?', '1.x' and '>=1.0.0 <2.0.0')
// are different descriptions: for them D demands what the property states - the same answer in both directions,
// transitivity, the same key exactly when equal - on all pairs of the pool.

import (
	"fmt"
	htmltemplate "html/template"
	"net/url"
	"reflect"
	"regexp"
	"strconv"
	"strings"
	texttemplate "text/template"
	"time"

	"github.com/lyraproj/pcore/px"
	"github.com/lyraproj/pcore/types"
	"github.com/lyraproj/semver/semver"
	"verifharness/lib"
)

func tRep(family string, args ...string) *T { return &T{K: "Rep", S: Str(family), Strs: strs(args)} }

func (t *T) withRoute(r string) *T {
	c := *t
	c.R = r
	return &c
}

func (t *T) repString() string {
	qs := make([]string, len(t.Strs))
	for i, s := range t.Strs {
		qs[i] = strconv.QuoteToASCII(string(s))
	}
	s := fmt.Sprintf("%s<%s>", string(t.S), strings.Join(qs, ","))
	if t.R != "" {
		s += "@" + t.R
	}
	return s
}

var repRoutes = map[string][]string{
	"URI":       {"uri-value", "new", "ptype", "meta-new", "meta-uri", "in-variant"},
	"URI0":      {"default", "meta-new", "ptype-generic"},
	"URIH":      {},
	"Timestamp": {"zone+1", "zone-7", "mixed-zones", "text", "int", "float", "value-text", "hash-tz", "meta-new", "mono", "mono-zone", "meta-new-mono", "meta-new-mono-b", "meta-new-mono-c", "meta-new-mono-d"},
	"TypeSet0":  {"again"},
	"Timespan":  {"text", "int", "float", "hash", "meta-new"},
	"Runtime":   {"text", "meta-new"},
	"GoRuntime": {"rtype", "rvalue"},
	"SemVer":    {"range-value", "new", "meta-new"},
	"Pattern":   {"text-string", "text-literal", "text-regexp-type", "compiled", "meta-new"},
	"Regexp":    {"text-string", "text-literal", "compiled", "meta-new", "meta-regexp"},
	"TypeRef":   {"new", "meta-new"},
}

// repInModel: the families that are in the universe of coq/Model/Keys.v (the term ignores the route)
func (t *T) repInModel() bool { return t.S == "Pattern" || t.S == "Regexp" }

func (t *T) repGallina() string {
	switch t.S {
	case "Pattern":
		ss := make([]string, len(t.Strs))
		for i, s := range t.Strs {
			ss[i] = lib.GStr(string(s))
		}
		return fmt.Sprintf("(TPattern %s)", lib.GList(ss, "str"))
	case "Regexp":
		return fmt.Sprintf("(TRegexp %s)", lib.GStr(string(t.Strs[0])))
	}
	panic("no Gallina term for " + t.repString())
}

func quoteP(s string) string {
	return "'" + strings.Replace(strings.Replace(s, `\`, `\\`, -1), `'`, `\'`, -1) + "'"
}

// instant: "min", "max" or "<seconds>:<nanoseconds>"
func instant(s string) (t time.Time, isMin, isMax bool) {
	switch s {
	case "min":
		return types.MinTime, true, false
	case "max":
		return types.MaxTime, false, true
	}
	p := strings.SplitN(s, ":", 2)
	sec, _ := strconv.ParseInt(p[0], 10, 64)
	ns, _ := strconv.ParseInt(p[1], 10, 64)
	return time.Unix(sec, ns).UTC(), false, false
}

// span: "min", "max" or nanoseconds
func span(s string) (d time.Duration, isMin, isMax bool) {
	switch s {
	case "min":
		return time.Duration(minI), true, false
	case "max":
		return time.Duration(maxI), false, true
	}
	n, _ := strconv.ParseInt(s, 10, 64)
	return time.Duration(n), false, false
}

func notApplicable(t *T) px.Type {
	panic("route not applicable") // counted as a rejected route
}

var goZero = map[string]interface{}{"int": int(0), "int64": int64(0), "string": "", "float64": float64(0), "[]int": []int(nil), "*int": (*int)(nil),
	// two different Go types with one text form "template.Template" (what 403c461 repaired): told apart by the reflect.Type only
	"text/template.Template": texttemplate.Template{}, "html/template.Template": htmltemplate.Template{}}

func (t *T) buildRep(c px.Context) px.Type {
	a := make([]string, len(t.Strs))
	for i, s := range t.Strs {
		a[i] = string(s)
	}
	newOf := func(mt px.ObjectType, args ...px.Value) px.Type { return px.New(c, mt, args...).(px.Type) }
	switch t.S {
	case "URI":
		s := a[0]
		switch t.R {
		case "":
			return c.ParseType("URI[" + quoteP(s) + "]")
		case "uri-value":
			if s == "" {
				return notApplicable(t) // URI('') is rejected: String[1]
			}
			return c.ParseType("URI[URI(" + quoteP(s) + ")]")
		case "new":
			return types.NewUriType(types.ParseURI(s))
		case "ptype":
			return types.WrapURI2(s).PType()
		case "meta-new":
			return newOf(types.URIMetaType, types.WrapString(s))
		case "meta-uri":
			return newOf(types.URIMetaType, types.WrapURI2(s))
		case "in-variant":
			// taken out of a parsed Variant: the parser builds the member as part of a larger expression
			return c.ParseType("Variant[Integer, URI[" + quoteP(s) + "]]").(*types.VariantType).Types()[1]
		}
	case "TypeSet0":
		// a parsed TypeSet that nothing has resolved: its versions are absent (nil)
		return c.ParseType(a[0])
	case "URIH":
		if t.R == "" {
			return c.ParseType("URI[" + uriHashText(a) + "]")
		}
	case "URI0":
		switch t.R {
		case "":
			return c.ParseType("URI")
		case "default":
			return types.DefaultUriType()
		case "meta-new":
			return newOf(types.URIMetaType)
		case "ptype-generic":
			return px.Generalize(types.WrapURI2("http://example.com").PType())
		}
	case "Timestamp":
		lo, loMin, _ := instant(a[0])
		hi, _, hiMax := instant(a[1])
		cet, pdt := time.FixedZone("CET", 3600), time.FixedZone("PDT", -7*3600)
		text := func(tm time.Time, dflt bool) string {
			if dflt {
				return "default"
			}
			return quoteP(tm.UTC().Format("2006-01-02T15:04:05.000000000") + " UTC")
		}
		num := func(tm time.Time, dflt bool, float bool) string {
			if dflt {
				return "default"
			}
			if float {
				if tm.Nanosecond()%500000000 != 0 {
					panic("route not applicable")
				}
				return strconv.FormatInt(tm.Unix(), 10) + "." + strconv.Itoa(tm.Nanosecond()/100000000)
			}
			if tm.Nanosecond() != 0 {
				panic("route not applicable")
			}
			return strconv.FormatInt(tm.Unix(), 10)
		}
		two := func(l, h string) px.Type {
			if hiMax {
				if loMin {
					return c.ParseType("Timestamp[" + l + "]")
				}
				return c.ParseType("Timestamp[" + l + "]")
			}
			return c.ParseType("Timestamp[" + l + ", " + h + "]")
		}
		switch t.R {
		case "":
			return types.NewTimestampType(lo, hi)
		case "zone+1":
			return types.NewTimestampType(lo.In(cet), hi.In(cet))
		case "zone-7":
			return types.NewTimestampType(lo.In(pdt), hi.In(pdt))
		case "mixed-zones":
			return types.NewTimestampType(lo.In(pdt), hi.In(cet))
		case "text":
			return two(text(lo, loMin), text(hi, hiMax))
		case "int":
			return two(num(lo, loMin, false), num(hi, hiMax, false))
		case "float":
			return two(num(lo, loMin, true), num(hi, hiMax, true))
		case "value-text":
			v := func(tm time.Time, dflt bool) string {
				if dflt {
					return "default"
				}
				return "Timestamp(" + text(tm, false) + ")"
			}
			return two(v(lo, loMin), v(hi, hiMax))
		case "hash-tz":
			// the same instant written as a wall clock reading of another zone
			h := func(tm time.Time, dflt bool) string {
				if dflt {
					return "default"
				}
				return "{string => " + quoteP(tm.In(cet).Format("2006-01-02T15:04:05.000000000")) + ", timezone => 'CET'}"
			}
			return two(h(lo, loMin), h(hi, hiMax))
		case "mono", "mono-zone":
			// bounds that carry a monotonic clock reading (not the two extremes: out of the range of a reading)
			if loMin && hiMax {
				return notApplicable(t)
			}
			ml, mh := lo, hi
			if !loMin {
				ml = monoTime(lo)
			}
			if !hiMax {
				mh = monoTime(hi)
			}
			if t.R == "mono-zone" {
				// In strips the reading: the twin without one, in other zones
				ml, mh = ml.In(cet), mh.In(pdt)
			}
			return types.NewTimestampType(ml, mh)
		case "meta-new", "meta-new-mono", "meta-new-mono-b", "meta-new-mono-c", "meta-new-mono-d":
			// -b, -c, -d: the same construction again.  Two carriers of a monotonic reading differ by the jitter of two
			// clock readings (a few ns, sometimes none): several copies make it all but certain that a tree which compares
			// the readings is seen to answer differently for one description
			// In, UTC and Local strip the reading: the carrier is used as it is, the plain route changes the zone
			zone := func(tm time.Time, loc *time.Location) time.Time {
				if t.R != "meta-new" {
					return monoTime(tm)
				}
				return tm.In(loc)
			}
			var args []px.Value
			if loMin {
				args = append(args, types.WrapDefault())
			} else {
				args = append(args, types.WrapTimestamp(zone(lo, pdt)))
			}
			if !hiMax {
				args = append(args, types.WrapTimestamp(zone(hi, cet)))
			}
			return newOf(types.TimestampMetaType, args...)
		}
	case "Timespan":
		lo, loMin, _ := span(a[0])
		hi, _, hiMax := span(a[1])
		two := func(l, h string) px.Type {
			if hiMax {
				return c.ParseType("Timespan[" + l + "]")
			}
			return c.ParseType("Timespan[" + l + ", " + h + "]")
		}
		each := func(f func(d time.Duration) string) px.Type {
			l, h := "default", "default"
			if !loMin {
				l = f(lo)
			}
			if !hiMax {
				h = f(hi)
			}
			return two(l, h)
		}
		switch t.R {
		case "":
			return types.NewTimespanType(lo, hi)
		case "text":
			return each(func(d time.Duration) string {
				sign := ""
				if d < 0 {
					sign, d = "-", -d
				}
				s := int64(d / time.Second)
				return quoteP(fmt.Sprintf("%s%d-%02d:%02d:%02d.%09d", sign, s/86400, s/3600%24, s/60%60, s%60, int64(d%time.Second)))
			})
		case "int":
			return each(func(d time.Duration) string {
				if d%time.Second != 0 {
					panic("route not applicable")
				}
				return strconv.FormatInt(int64(d/time.Second), 10)
			})
		case "float":
			return each(func(d time.Duration) string {
				if d%(time.Second/2) != 0 {
					panic("route not applicable")
				}
				return strconv.FormatFloat(float64(d)/1e9, 'f', 1, 64)
			})
		case "hash":
			return each(func(d time.Duration) string {
				neg := ""
				if d < 0 {
					neg, d = ", negative => true", -d
				}
				return fmt.Sprintf("{seconds => %d, nanoseconds => %d%s}", int64(d/time.Second), int64(d%time.Second), neg)
			})
		case "meta-new":
			var args []px.Value
			if loMin {
				args = append(args, types.WrapDefault())
			} else {
				args = append(args, types.WrapTimespan(lo))
			}
			if !hiMax {
				args = append(args, types.WrapTimespan(hi))
			}
			return newOf(types.TimespanMetaType, args...)
		}
	case "Runtime":
		rt, name, pat := a[0], a[1], a[2]
		hasPat := strings.HasPrefix(pat, "/")
		var rx *types.RegexpType
		if hasPat {
			rx = types.NewRegexpType(pat[1:])
		}
		switch t.R {
		case "":
			return types.NewRuntimeType(rt, name, rx)
		case "text":
			if rt == "" && name == "" && !hasPat {
				return c.ParseType("Runtime")
			}
			s := "Runtime[" + quoteP(rt)
			if name != "" || hasPat {
				s += ", " + quoteP(name)
			}
			if hasPat {
				s += ", Regexp[/" + pat[1:] + "/]"
			}
			return c.ParseType(s + "]")
		case "meta-new":
			args := []px.Value{}
			if rt != "" || name != "" || hasPat {
				args = append(args, types.WrapString(rt))
			}
			if name != "" || hasPat {
				args = append(args, types.WrapString(name))
			}
			if hasPat {
				args = append(args, rx)
			}
			return newOf(types.RuntimeMetaType, args...)
		}
	case "GoRuntime":
		z, ok := goZero[a[0]]
		if !ok {
			panic("bad Go type " + a[0])
		}
		switch t.R {
		case "":
			return types.NewGoRuntimeType(z)
		case "rtype":
			return types.NewGoRuntimeType(reflect.TypeOf(z))
		case "rvalue":
			return types.NewGoRuntimeType(reflect.ValueOf(z))
		}
	case "SemVer":
		switch t.R {
		case "":
			if len(a) == 0 {
				return c.ParseType("SemVer")
			}
			qs := make([]string, len(a))
			for i, s := range a {
				qs[i] = quoteP(s)
			}
			return c.ParseType("SemVer[" + strings.Join(qs, ", ") + "]")
		case "range-value":
			if len(a) == 0 {
				return types.DefaultSemVerType()
			}
			qs := make([]string, len(a))
			for i, s := range a {
				qs[i] = "SemVerRange(" + quoteP(s) + ")"
			}
			return c.ParseType("SemVer[" + strings.Join(qs, ", ") + "]")
		case "new":
			if len(a) != 1 {
				return notApplicable(t)
			}
			return types.NewSemVerType(semver.MustParseVersionRange(a[0]))
		case "meta-new":
			vs := make([]px.Value, len(a))
			for i, s := range a {
				if i%2 == 0 {
					vs[i] = types.WrapString(s)
				} else {
					vs[i] = types.WrapSemVerRange(semver.MustParseVersionRange(s))
				}
			}
			return newOf(types.SemVerMetaType, types.WrapValues(vs))
		}
	case "Pattern":
		parts := func(f func(s string) string) px.Type {
			qs := make([]string, len(a))
			for i, s := range a {
				qs[i] = f(s)
			}
			return c.ParseType("Pattern[" + strings.Join(qs, ", ") + "]")
		}
		switch t.R {
		case "":
			rs := make([]*types.RegexpType, len(a))
			for i, s := range a {
				rs[i] = types.NewRegexpType(s)
			}
			return types.NewPatternType(rs)
		case "text-string":
			if len(a) == 0 {
				return c.ParseType("Pattern")
			}
			return parts(quoteP)
		case "text-literal":
			if len(a) == 0 {
				return notApplicable(t)
			}
			return parts(func(s string) string { return "/" + s + "/" })
		case "text-regexp-type":
			if len(a) == 0 {
				return notApplicable(t)
			}
			return parts(func(s string) string {
				if s == "" {
					return "Regexp"
				}
				return "Regexp[/" + s + "/]"
			})
		case "compiled":
			rs := make([]*types.RegexpType, len(a))
			for i, s := range a {
				rs[i] = types.NewRegexpTypeR(regexp.MustCompile(s))
			}
			return types.NewPatternType(rs)
		case "meta-new":
			vs := make([]px.Value, len(a))
			for i, s := range a {
				vs[i] = types.WrapRegexp(s)
			}
			return newOf(types.PatternMetaType, types.WrapValues(vs))
		}
	case "Regexp":
		s := a[0]
		switch t.R {
		case "":
			return types.NewRegexpType(s)
		case "text-string":
			return c.ParseType("Regexp[" + quoteP(s) + "]")
		case "text-literal":
			return c.ParseType("Regexp[/" + s + "/]")
		case "compiled":
			return types.NewRegexpTypeR(regexp.MustCompile(s))
		case "meta-new":
			return newOf(types.RegexpMetaType, types.WrapString(s))
		case "meta-regexp":
			return newOf(types.RegexpMetaType, types.WrapRegexp(s))
		}
	case "TypeRef":
		switch t.R {
		case "":
			return c.ParseType("TypeReference[" + quoteP(a[0]) + "]")
		case "new":
			return types.NewTypeReferenceType(a[0])
		case "meta-new":
			return newOf(types.TypeReferenceMetaType, types.WrapString(a[0]))
		}
	}
	panic("bad route " + t.R + " of " + t.repString())
}

// urlParts is the harness' own reading of the parts of a URL text (for the counts and the replay output only: no
// clause of D depends on it)
func urlParts(s string) int {
	u, err := url.Parse(s)
	if err != nil {
		return -1
	}
	n := 0
	for _, p := range []bool{u.Scheme != "", u.User != nil, u.Host != "", u.Path != "", u.RawQuery != "", u.Fragment != "", u.Opaque != ""} {
		if p {
			n++
		}
	}
	return n
}

// repFamily: the descriptions, each by its routes.  all = every route for every description (thorough tier);
// otherwise every route for the descriptions marked full and two routes in rotation for the others.
func repFamily(all bool) []*V {
	var r []*V
	n := 0
	add := func(full bool, t *T) {
		r = append(r, vType(t))
		rs := repRoutes[string(t.S)]
		if all || full {
			for _, rt := range rs {
				r = append(r, vType(t.withRoute(rt)))
			}
		} else if len(rs) > 0 {
			r = append(r, vType(t.withRoute(rs[n%len(rs)])), vType(t.withRoute(rs[(n+2)%len(rs)])))
		}
		n++
	}
	// URI: no parameter; URLs without any part; URLs that differ in what is no part (case of scheme and host, a bare
	// '?' or '#', the escaped form of the path); one part each; all parts
	add(true, tRep("URI0"))
	for _, s := range []string{"", "#", "?", "//", "http://example.com", "http://example.com/a"} {
		add(true, tRep("URI", s))
	}
	for _, s := range []string{"http://Example.com", "HTTP://example.com", "http://example.com/a?q#f", "http://example.com:80", "http://example.com:80/", "http://example.com:8080",
		"http://u@example.com", "http://u:p@example.com/a", "mailto:x@y", "/a/b", "/a%2fb", "a", "?q", "#f", "//example.com", "//Example.COM", "http:", "https:", "file:///a",
		"http://example.com/?", "http://example.com/#", "http://example.com?", "//?#", "http://example.com/a%20b", "http://example.com/a b"} {
		add(false, tRep("URI", s))
	}
	// the Hash form (a parsed text: the parser is the only route to it), entries in both orders; values: s: a String, i: an Integer, r: a Regexp
	for _, es := range [][]string{{}, {"scheme", "s:http"}, {"scheme", "s:HTTP"}, {"scheme", "s:https"}, {"host", "s:example.com"}, {"host", "s:Example.com"}, {"path", "s:/a/b"}, {"path", "s:/a"}, {"path", "s:a"},
		{"query", "s:q"}, {"fragment", "s:f"}, {"scheme", "s:http", "host", "s:example.com"}, {"host", "s:example.com", "scheme", "s:http"},
		{"scheme", "s:http", "host", "s:example.com", "path", "s:/a"}, {"path", "s:/a", "host", "s:example.com", "scheme", "s:http"},
		{"scheme", "s:http", "host", "s:example.com", "path", "s:/a", "query", "s:q", "fragment", "s:f"}, {"fragment", "s:f", "query", "s:q", "path", "s:/a", "host", "s:example.com", "scheme", "s:http"},
		{"scheme", "s:http", "host", "s:example.com", "port", "i:80"}, {"scheme", "s:http", "host", "s:example.com", "port", "i:8080"}, {"port", "i:80", "host", "s:example.com", "scheme", "s:http"},
		{"scheme", "s:http", "host", "s:example.com", "port", "i:80", "path", "s:/"}, {"scheme", "s:mailto", "opaque", "s:x@y"}, {"scheme", "s:http", "userinfo", "s:u", "host", "s:example.com"},
		{"scheme", "s:http", "userinfo", "s:u:p", "host", "s:example.com", "path", "s:/a"}, {"scheme", "s:file", "path", "s:/a"}, {"scheme", "r:http"}, {"scheme", "r:HTTP"},
		{"scheme", "s:http", "host", "s:example.com", "path", "s:/a b"}, {"scheme", "s:http", "host", "s:example.com", "path", "s:/a%20b"}, {"port", "i:80"}, {"port", "i:0"}} {
		add(true, tRep("URIH", es...))
	}
	// values of other kinds (types): the implementation only
	for _, s := range []string{"{scheme => 'http', host => NotUndef}", "{host => Undef}", "{scheme => Pattern[/http/]}", "{scheme => Enum['http', 'https']}", "{scheme => Enum['https', 'http']}"} {
		r = append(r, vType(tText("URI["+s+"]")))
	}
	// Timestamp types: bounds as instants
	t0, t1 := "946684800:0", "978307200:0"
	for i, b := range [][2]string{{"min", "max"}, {t0, "max"}, {"min", t1}, {t0, t1}, {t0, t0}, {"946684800:500000000", "max"}, {"946684800:1", "max"}, {"min", "946684800:1"},
		{"0:0", "max"}, {"-1:0", "max"}, {"946684800:500000000", t1}, {t1, "max"}, {"min", t0}, {"946681200:0", "max"}, {"946688400:0", "max"}} {
		add(i < 7, tRep("Timestamp", b[0], b[1]))
	}
	// Timespan types: bounds in nanoseconds
	for i, b := range [][2]string{{"min", "max"}, {"1000000000", "max"}, {"min", "5000000000"}, {"1000000000", "5000000000"}, {"1500000000", "5000000000"}, {"0", "max"}, {"1000000000", "1000000000"},
		{"-1000000000", "1000000000"}, {"1", "max"}, {"1000000001", "max"}, {"min", "1000000000"}, {"86400000000000", "max"}, {"-1500000000", "max"}} {
		add(i < 4, tRep("Timespan", b[0], b[1]))
	}
	// Runtime types: runtime, name, pattern ("" none, "/p" the pattern p)
	for _, b := range [][3]string{{"", "", ""}, {"ruby", "", ""}, {"ruby", "N", ""}, {"ruby", "M", ""}, {"ruby", "N", "/a"}, {"ruby", "N", "/b"}, {"ruby", "", "/a"}, {"", "N", ""}, {"", "", "/a"}, {"", "N", "/a"},
		{"java", "N", ""}, {"java", "", ""}, {"ruby", "n", ""}, {"ruby", "N", "/"}} {
		add(true, tRep("Runtime", b[0], b[1], b[2]))
	}
	for _, g := range []string{"int", "int64", "string", "[]int", "*int", "text/template.Template", "html/template.Template"} {
		add(true, tRep("GoRuntime", g))
	}
	// SemVer types: the same range in several spellings are different descriptions
	for _, a := range [][]string{{}, {"1.x"}, {">=1.0.0 <2.0.0"}, {"1.x", "2.x"}, {"2.x", "1.x"}, {">=1.0.0"}, {"1.0.0"}, {"=1.0.0"}, {"*"}, {">=0.0.0"}, {"1.x", "1.x"}, {"~1.0.0"}, {">=1.0.0 <1.1.0"}, {"1.0.x"}} {
		add(true, tRep("SemVer", a...))
	}
	for i, a := range [][]string{{"a"}, {"a", "b"}, {"b", "a"}, {""}, {}, {"a", "a"}, {"ab"}, {"a|b"}} {
		add(i < 4, tRep("Pattern", a...))
	}
	for _, s := range []string{"a", "", "ab", "a|b"} {
		add(true, tRep("Regexp", s))
	}
	for _, s := range []string{"Foo", "foo", "Bar", "Integer", "UnresolvedReference", "Foo::Bar", "Integer[1]"} {
		add(true, tRep("TypeRef", s))
	}
	// TypeSets that nothing has resolved (absent versions), the same text twice, another name, other content
	for _, s := range []string{"TypeSet[{pcore_version => '1.0.0', version => '1.0.0', name => 'C07::U1'}]", "TypeSet[{pcore_version => '1.0.0', version => '1.0.0', name => 'C07::U2'}]",
		"TypeSet[{pcore_version => '1.0.0', version => '1.0.1', name => 'C07::U1', types => {A => Integer}}]", "TypeSet[{version => '1.0.0'}]"} {
		add(true, tRep("TypeSet0", s))
	}
	// SemVer and SemVerRange values by their constructors; the absent version
	for _, s := range []string{"1.0.0", "1.0.1", "1.0.0-rc1", "1.0.0+b1", "2.3.4-rc1+b2", "0.0.0", ""} {
		d := vSemVer(s)
		r = append(r, d)
		for _, rt := range semVerRoutes {
			r = append(r, d.withRoute(rt))
		}
	}
	r = append(r, vArr(vSemVer("")), vHash(vSemVer(""), vInt(1)), vHash(vStr("a"), vSemVer("").withRoute("typeset-attr")), vArr(vSemVer("1.0.0").withRoute("typeset-attr")))
	for _, s := range []string{"1.x", ">=1.0.0 <2.0.0", ">=1.0.0", "1.0.0", "<2.0.0", ">=1.0.0 <=2.0.0", "1.x || 2.x"} {
		d := vSemVerRange(s)
		r = append(r, d)
		for _, rt := range semVerRangeRoutes {
			r = append(r, d.withRoute(rt))
		}
	}
	// one level down: in an array, as a hash key, as a hash value, in an entry
	for _, t := range []*T{tRep("URI0"), tRep("URI", ""), tRep("URI", "").withRoute("ptype"), tRep("URI", "#").withRoute("new"), tRep("URI", "?").withRoute("meta-new"), tRep("URI", "http://example.com"),
		tRep("URI", "http://example.com").withRoute("ptype"), tText("URI[{scheme => 'http', host => 'example.com'}]"), tRep("Timestamp", t0, "max"), tRep("Timestamp", t0, "max").withRoute("zone+1"),
		tRep("Timestamp", t0, "max").withRoute("text"), tRep("Runtime", "ruby", "N", ""), tRep("Runtime", "ruby", "N", "/a"), tRep("Runtime", "ruby", "N", "").withRoute("text"),
		tRep("Timespan", "1000000000", "max"), tRep("Timespan", "1000000000", "max").withRoute("text"), tRep("SemVer", "1.x"), tRep("SemVer", "1.x").withRoute("new")} {
		d := vType(t)
		r = append(r, vArr(d), vHash(d, vInt(1)), vHash(vStr("a"), d), vEntry(d, d))
	}
	return r
}

// uriHashText: the Hash literal of a URIH description (keys and values in pairs; s: String, i: Integer, r: Regexp)
func uriHashText(a []string) string {
	ps := []string{}
	for i := 0; i+1 < len(a); i += 2 {
		v := a[i+1]
		switch v[:2] {
		case "s:":
			v = quoteP(v[2:])
		case "i:":
			v = v[2:]
		case "r:":
			v = "/" + v[2:] + "/"
		}
		ps = append(ps, a[i]+" => "+v)
	}
	return "{" + strings.Join(ps, ", ") + "}"
}

// ---------------------------------------------------------------- M: cases_uri (coq/Model/KeysUri.v)

// uparamsOf: the parameter of a URI type of the pool as a term of Model/KeysUri.v - nothing; the fields of the
// url.URL that net/url parses from the text (what every URL route hands to the library; net/url is trusted); the
// entries of the Hash
func uparamsOf(d *V) (string, bool) {
	if d.K != "Type" || d.R != "" {
		return "", false
	}
	t := d.T
	switch {
	case t.K == "Text" && (t.S == "URI" || t.S == "URI[{}]"), t.K == "Rep" && t.S == "URI0":
		return "UNone", true
	case t.K == "Rep" && t.S == "URIH":
		if len(t.Strs) == 0 {
			return "UNone", true // newUriType3: the empty Hash gives the default type
		}
		var es []string
		for i := 0; i+1 < len(t.Strs); i += 2 {
			v := string(t.Strs[i+1])
			var vt string
			switch v[:2] {
			case "s:":
				vt = "(VStr " + lib.GStr(v[2:]) + ")"
			case "i:":
				n, _ := strconv.ParseInt(v[2:], 10, 64)
				vt = "(VInt " + lib.GZ(n) + ")"
			case "r:":
				vt = "(VRegexp " + lib.GStr(v[2:]) + ")"
			default:
				return "", false
			}
			es = append(es, lib.GPair("(VStr "+lib.GStr(string(t.Strs[i]))+")", vt))
		}
		return "(UHash " + lib.GList(es, "value * value") + ")", true
	case t.K == "Rep" && t.S == "URI":
		u, err := url.Parse(string(t.Strs[0]))
		if err != nil {
			return "", false
		}
		user := lib.GOpt(false, "", "list N")
		if u.User != nil {
			user = lib.GOpt(true, lib.GStr(u.User.String()), "list N")
		}
		port := lib.GOpt(false, "", "Z")
		if p, err := strconv.Atoi(u.Port()); err == nil {
			port = lib.GOpt(true, lib.GZ(int64(p)), "Z")
		}
		return fmt.Sprintf("(UUrl (mkUrl %s %s %s %s %s %s %s %s %s %s %s))", lib.GStr(u.Scheme), user, lib.GStr(u.Host), port, lib.GStr(u.Path), lib.GStr(u.RawQuery),
			lib.GStr(u.Fragment), lib.GStr(u.Opaque), lib.GBool(u.ForceQuery), lib.GStr(u.RawPath), lib.GStr(u.RawFragment)), true
	}
	return "", false
}

// uriCases emits pairs of URI types of the pool (every representation, every route) with the observed Equals answers
// in both directions and the observed hash keys: first the pairs on which the direct check sees an inconsistency,
// then the pairs that are equal in a direction or share a key, then a sample of the others.
func (ck *checker) uriCases(cfg *lib.Config) lib.CorrFile {
	cf := &lib.CasesFile{Imports: []string{"Model.Base", "Model.Keys", "Model.KeysUri", "Corr.CorrC07"}, Typ: "uri_case",
		Obligations: map[string]string{"uri_model": "c07_uri_mismatches cases"}}
	items := ck.p.items
	var idx []int
	terms := map[int]string{}
	for i, it := range items {
		if !it.keyOK {
			continue
		}
		if s, ok := uparamsOf(it.d); ok {
			idx = append(idx, i)
			terms[i] = s
		}
	}
	max := 900
	if cfg.Thorough() {
		max = 12000
	}
	done := map[[2]int]bool{}
	emit := func(i, j int) {
		if done[[2]int{i, j}] || len(cf.Cases) >= max {
			return
		}
		done[[2]int{i, j}] = true
		cf.Add(fmt.Sprintf("(%s, %s, %s, %s, %s, %s)", terms[i], terms[j], lib.GBool(ck.eq[i].get(j)), lib.GBool(ck.eq[j].get(i)), lib.GStr(items[i].key), lib.GStr(items[j].key)),
			map[string]interface{}{"kind": "values", "clause": "uri-model", "vs": []*V{items[i].d, items[j].d}})
		ck.res.Count("uri-cases")
		if ck.eq[i].get(j) && items[i].text != items[j].text {
			ck.res.Nontrivial("uri " + items[i].text + " ~ " + items[j].text)
		}
		if len(cf.Cases)%300 == 1 {
			ck.res.Sample(map[string]interface{}{"uri_type": items[i].text, "other": items[j].text, "equals": ck.eq[i].get(j), "same_key": items[i].key == items[j].key})
		}
	}
	for pass := 0; pass < 3; pass++ {
		for a, i := range idx {
			for b, j := range idx {
				eab, eba, same := ck.eq[i].get(j), ck.eq[j].get(i), items[i].key == items[j].key
				switch pass {
				case 0:
					if eab != eba || eab != same {
						emit(i, j)
					}
				case 1:
					if eab || eba || same {
						emit(i, j)
					}
				case 2:
					if b == (a+1)%len(idx) || b == (a*7+3)%len(idx) || b == (a*13+5)%len(idx) || terms[i] == "UNone" || terms[j] == "UNone" || len(idx) < 40 {
						emit(i, j)
					}
				}
			}
		}
	}
	ck.res.Extra["uri_types_in_model"] = len(idx)
	return cf.WriteTo(cfg.Out, "cases_uri")
}

// ---------------------------------------------------------------- SemVer and SemVerRange values by their constructors

var semVerRoutes = []string{"new-string", "new-parts", "new-hash", "cast-range", "typeset-attr"}

// (a range made from two versions - SemVerRange.new(min, max, exclude_max), semver.FromVersions - is not equal to the parsed
// range with the same bounds and has another normalized text and key: consistent, the semver library's notion; no route)
var semVerRangeRoutes = []string{"new-string"}

func (v *V) buildVersionRoute(c px.Context) px.Value {
	s := string(v.S)
	if v.K == "SemVer" {
		if v.R == "typeset-attr" {
			// the attribute pcore_version of a TypeSet: absent while nothing has resolved the TypeSet, 1.0.0 afterwards
			ts := c.ParseType("TypeSet[{pcore_version => '1.0.0', version => '1.0.0', name => 'C07::Attr'}]")
			if s != "" {
				ts = ts.(px.ResolvableType).Resolve(c)
			}
			r, _ := ts.(px.ReadableObject).Get("pcore_version")
			return r
		}
		ver := semver.MustParseVersion(s)
		q := func(x string) px.Value { return types.WrapString(x) }
		switch v.R {
		case "new-string":
			return px.New(c, types.DefaultSemVerType(), q(s))
		case "new-parts":
			args := []px.Value{types.WrapInteger(int64(ver.Major())), types.WrapInteger(int64(ver.Minor())), types.WrapInteger(int64(ver.Patch()))}
			if ver.PreRelease() != "" || ver.Build() != "" {
				if ver.PreRelease() == "" {
					panic("route not applicable")
				}
				args = append(args, q(ver.PreRelease()))
			}
			if ver.Build() != "" {
				args = append(args, q(ver.Build()))
			}
			return px.New(c, types.DefaultSemVerType(), args...)
		case "new-hash":
			es := []*types.HashEntry{types.WrapHashEntry2("major", types.WrapInteger(int64(ver.Major()))), types.WrapHashEntry2("minor", types.WrapInteger(int64(ver.Minor()))),
				types.WrapHashEntry2("patch", types.WrapInteger(int64(ver.Patch())))}
			if ver.PreRelease() != "" {
				es = append(es, types.WrapHashEntry2("prerelease", q(ver.PreRelease())))
			}
			if ver.Build() != "" {
				es = append(es, types.WrapHashEntry2("build", q(ver.Build())))
			}
			return px.New(c, types.DefaultSemVerType(), types.WrapHash(es))
		case "cast-range":
			// a SemVer is a SemVer type with an exact range
			return (*types.SemVer)(types.NewSemVerType(semver.ExactVersionRange(ver)))
		}
	} else {
		rng := semver.MustParseVersionRange(s)
		switch v.R {
		case "new-string":
			return px.New(c, types.DefaultSemVerRangeType(), types.WrapString(s))
		case "new-bounds", "new-hash":
			// only ranges of the form >=a <b or >=a <=b
			var lo, hi string
			var excl bool
			if n, _ := fmt.Sscanf(s, ">=%s <=%s", &lo, &hi); n == 2 {
				excl = false
			} else if n, _ := fmt.Sscanf(s, ">=%s <%s", &lo, &hi); n == 2 {
				excl = true
			} else {
				panic("route not applicable")
			}
			_ = rng
			l, h := types.WrapSemVer(semver.MustParseVersion(lo)), types.WrapSemVer(semver.MustParseVersion(hi))
			if v.R == "new-hash" {
				return px.New(c, types.DefaultSemVerRangeType(), types.WrapHash([]*types.HashEntry{types.WrapHashEntry2("min", l), types.WrapHashEntry2("max", h), types.WrapHashEntry2("exclude_max", types.WrapBoolean(excl))}))
			}
			return px.New(c, types.DefaultSemVerRangeType(), l, h, types.WrapBoolean(excl))
		}
	}
	panic("bad route " + v.R + " of " + v.K)
}
