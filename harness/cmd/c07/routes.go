package main

// Construction routes.  A description denotes one abstract value; V.R names the way the pcore value is
// made from it.  Every route of a description must give a value that is equal to, and has the hash key
// of, the value of every other route (the Gallina term of the description does not mention the route):
// what differs is hidden state - the location and the monotonic clock reading inside a time.Time, the
// spare capacity of a backing slice, the pre-built key index of a Hash made from an array, the entry
// slice that Merge/Delete/Slice share or copy.

import (
	"encoding/base64"
	"regexp"
	"time"

	"github.com/lyraproj/pcore/px"
	"github.com/lyraproj/pcore/types"
	"verifharness/lib"
)

var timestampRoutes = []string{"zone+1", "zone-7", "zone0", "local", "mono", "new-int", "mono-zone+1", "mono-utc", "mono-stripped", "mono-add0"}
var binaryRoutes = []string{"b64", "array", "spare-cap"}
var regexpRoutes = []string{"compiled"}
var arrayRoutes = []string{"add", "addall", "addall-entry", "slice", "reject", "map", "spare-cap", "entry-asarray", "hash-keys", "delete"}
var entryRoutes = []string{"from-hash", "from-pairs", "each"}

// routes of a Hash whose description holds the final entries k0,v0,k1,v1,...
var hashRoutes = []string{
	"hash2", "build", "pairs", "pair-entries", "pairs-dup-first", "pairs-dup-mid", "pairs-dup-last", "pairs-dup-all", "pairs-dup-rev",
	"flat", "flat-dup-first", "flat-dup-all", "new", "new-dup-first", "merge", "merge-replace", "merge-from-pairs", "addall-pairs",
	"delete", "delete-from-pairs", "deleteall", "select", "reject", "slice", "mutable",
}

// routes whose description holds the elements of the array that the Hash is made from (may repeat keys):
// WrapHashFromArray, Hash.new.  Not in the universe of VHash terms (see V.inModel): they are the
// subject of the from-array cases.
const routeFromArray = "from-array"
const routeNewFromArray = "new-from-array"

func (v *V) isRawFromArray() bool {
	return v.K == "Hash" && (v.R == routeFromArray || v.R == routeNewFromArray)
}

func routesOf(k string) []string {
	switch k {
	case "Timestamp":
		return timestampRoutes
	case "Binary":
		return binaryRoutes
	case "Regexp":
		return regexpRoutes
	case "Arr":
		return arrayRoutes
	case "Entry":
		return entryRoutes
	case "Hash":
		return hashRoutes
	case "SemVer":
		return semVerRoutes
	case "SemVerRange":
		return semVerRangeRoutes
	case "TName":
		return nameRoutes
	case "Deferred":
		return deferredRoutes
	case "RObj":
		return robjRoutes
	}
	return nil
}

func (v *V) withRoute(r string) *V {
	c := *v
	c.R = r
	return &c
}

// routeApplicable: the route can make exactly the described value
func (v *V) routeApplicable() bool {
	switch v.K {
	case "SemVer":
		if v.S == "" {
			return v.R == "typeset-attr" // the absent version
		}
		return v.R != "typeset-attr" || v.S == "1.0.0"
	case "TName":
		return v.nameExpr() != nil
	case "Timestamp":
		switch v.R {
		case "mono", "mono-zone+1", "mono-utc", "mono-stripped", "mono-add0":
			// a wall clock reading with a monotonic reading covers the years 1885-2157
			return v.I > -2000000000 && v.I < 4000000000
		case "new-int":
			return v.Ns == 0
		}
	case "Arr":
		switch v.R {
		case "entry-asarray", "addall-entry":
			return len(v.Vs) == 2
		case "hash-keys":
			for _, e := range v.Vs {
				if !e.keyable() {
					return false
				}
			}
			return distinctCanon(v.Vs)
		case "delete", "reject":
			return !containsCanon(v.Vs, vStr(junkText))
		}
	case "Entry":
		if v.R == "from-pairs" {
			return v.Vs[0].keyable()
		}
	case "Hash":
		if v.isRawFromArray() {
			return true
		}
		n := len(v.Vs) / 2
		switch v.R {
		case "flat", "flat-dup-first", "flat-dup-all":
			// a flat array whose elements all are arrays or entries is read as an array of pairs
			all := n > 0
			for _, e := range v.Vs {
				all = all && (e.K == "Arr" || e.K == "Entry")
			}
			return !all
		case "new", "new-dup-first":
			return n > 0
		}
	}
	return true
}

const junkText = "\x7fjunk"

func distinctCanon(vs []*V) bool {
	seen := map[string]bool{}
	for _, e := range vs {
		t := canonText(e)
		if seen[t] {
			return false
		}
		seen[t] = true
	}
	return true
}

func containsCanon(vs []*V, x *V) bool {
	t := canonText(x)
	for _, e := range vs {
		if canonText(e) == t {
			return true
		}
	}
	return false
}

// junkKeys: n values that are keys of no entry of the hash
func (v *V) junkKeys(c px.Context, n int) []px.Value {
	var ks []*V
	for i := 0; i+1 < len(v.Vs); i += 2 {
		ks = append(ks, v.Vs[i])
	}
	var r []px.Value
	for _, cand := range []*V{vStr(junkText), vInt(987654321), vStr(junkText + "2"), vInt(987654322), vStr(junkText + "3")} {
		if len(r) < n && !containsCanon(ks, cand) {
			r = append(r, cand.build(c))
		}
	}
	return r
}

func pairOf(k, v px.Value) px.Value { return types.WrapValues([]px.Value{k, v}) }

func (v *V) buildRoute(c px.Context) px.Value {
	switch v.K {
	case "Timestamp":
		t := time.Unix(v.I, v.Ns)
		switch v.R {
		case "zone+1":
			return types.WrapTimestamp(t.In(time.FixedZone("CET", 3600)))
		case "zone-7":
			return types.WrapTimestamp(t.In(time.FixedZone("PDT", -7*3600)))
		case "zone0":
			return types.WrapTimestamp(t.In(time.FixedZone("Z0", 0)))
		case "local":
			return types.WrapTimestamp(t) // time.Unix returns a local time
		case "mono":
			return types.WrapTimestamp(monoTime(t))
		case "mono-zone+1":
			// Add keeps the monotonic reading; In, UTC and Round(0) strip it: the twins without a reading
			return types.WrapTimestamp(monoTime(t).In(time.FixedZone("CET", 3600)))
		case "mono-utc":
			return types.WrapTimestamp(monoTime(t).UTC())
		case "mono-stripped":
			return types.WrapTimestamp(monoTime(t).Round(0))
		case "mono-add0":
			return types.WrapTimestamp(monoTime(t).Add(time.Second).Add(-time.Second))
		case "new-int":
			return px.New(c, types.DefaultTimestampType(), types.WrapInteger(v.I))
		}
	case "Binary":
		bs := []byte(v.S)
		switch v.R {
		case "b64":
			return types.BinaryFromString(base64.StdEncoding.EncodeToString(bs), "%B")
		case "array":
			es := make([]px.Value, len(bs))
			for i, b := range bs {
				es[i] = types.WrapInteger(int64(b))
			}
			return types.BinaryFromArray(types.WrapValues(es))
		case "spare-cap":
			return types.WrapBinary(append(make([]byte, 0, len(bs)+9), bs...))
		}
	case "Regexp":
		if v.R == "compiled" {
			return types.WrapRegexp2(regexp.MustCompile(string(v.S)))
		}
	case "SemVer", "SemVerRange":
		return v.buildVersionRoute(c)
	case "Arr":
		es := make([]px.Value, len(v.Vs))
		for i, e := range v.Vs {
			es[i] = e.build(c)
		}
		n := len(es)
		junk := types.WrapString(junkText)
		switch v.R {
		case "add":
			var a px.List = types.WrapValues([]px.Value{})
			for _, e := range es {
				a = a.Add(e)
			}
			return a
		case "addall":
			return types.WrapValues(es[: n/2 : n/2]).AddAll(types.WrapValues(es[n/2:]))
		case "addall-entry":
			// AddAll with a list that is not an Array
			return types.WrapValues([]px.Value{}).AddAll(types.WrapHashEntry(es[0], es[1]))
		case "slice":
			all := append(append([]px.Value{junk}, es...), junk, junk)
			return types.WrapValues(all).Slice(1, n+1)
		case "reject":
			var all []px.Value
			for i, e := range es {
				if i%2 == 0 {
					all = append(all, junk)
				}
				all = append(all, e)
			}
			all = append(all, junk)
			return types.WrapValues(all).Reject(func(e px.Value) bool { return e == px.Value(junk) })
		case "map":
			return types.WrapValues(es).Map(func(e px.Value) px.Value { return e })
		case "spare-cap":
			return types.WrapValues(append(make([]px.Value, 0, n+5), es...))
		case "entry-asarray":
			return types.WrapHashEntry(es[0], es[1]).AsArray()
		case "hash-keys":
			hs := make([]*types.HashEntry, n)
			for i, e := range es {
				hs[i] = types.WrapHashEntry(e, junk)
			}
			return types.WrapHash(hs).Keys()
		case "delete":
			all := append(append([]px.Value{junk}, es...), junk)
			return types.WrapValues(all).Delete(junk)
		}
	case "Entry":
		k, e := v.Vs[0].build(c), v.Vs[1].build(c)
		switch v.R {
		case "from-hash":
			return types.WrapHash([]*types.HashEntry{types.WrapHashEntry(k, e)}).At(0)
		case "from-pairs":
			stale := types.WrapString("stale")
			return types.WrapHashFromArray(types.WrapValues([]px.Value{pairOf(k, stale), pairOf(k, e)})).At(0)
		case "each":
			var r px.Value
			types.WrapHash([]*types.HashEntry{types.WrapHashEntry(k, e)}).Each(func(x px.Value) { r = x })
			return r
		}
	case "Hash":
		return v.buildHashRoute(c)
	}
	panic("bad route " + v.R + " of " + v.K)
}

func (v *V) buildHashRoute(c px.Context) px.Value {
	if v.isRawFromArray() {
		es := make([]px.Value, len(v.Vs))
		for i, e := range v.Vs {
			es[i] = e.build(c)
		}
		if v.R == routeNewFromArray {
			return px.New(c, types.DefaultHashType(), types.WrapValues(es))
		}
		return types.WrapHashFromArray(types.WrapValues(es))
	}
	n := len(v.Vs) / 2
	ks, vs := make([]px.Value, n), make([]px.Value, n)
	for i := 0; i < n; i++ {
		ks[i], vs[i] = v.Vs[2*i].build(c), v.Vs[2*i+1].build(c)
	}
	stale := px.Value(types.WrapString("stale"))
	entries := func(from, to int, val func(i int) px.Value) []*types.HashEntry {
		es := make([]*types.HashEntry, 0, to-from)
		for i := from; i < to; i++ {
			es = append(es, types.WrapHashEntry(ks[i], val(i)))
		}
		return es
	}
	real := func(i int) px.Value { return vs[i] }
	old := func(int) px.Value { return stale }
	// the list of [key, value] pairs with the given stale pairs (index of the key) inserted before position at
	pairs := func(staleAt map[int][]int, rev bool) []px.Value {
		var ps []px.Value
		for i := 0; i <= n; i++ {
			for _, k := range staleAt[i] {
				ps = append(ps, pairOf(ks[k], stale))
			}
			if i < n {
				j := i
				if rev {
					j = n - 1 - i
				}
				ps = append(ps, pairOf(ks[j], vs[j]))
			}
		}
		return ps
	}
	flat := func(ps []px.Value) []px.Value {
		var fs []px.Value
		for _, p := range ps {
			l := p.(px.List)
			fs = append(fs, l.At(0), l.At(1))
		}
		return fs
	}
	allKeys := make([]int, n)
	for i := range allKeys {
		allKeys[i] = i
	}
	dupFirst, dupMid, dupLast := map[int][]int{}, map[int][]int{}, map[int][]int{}
	if n > 0 {
		dupFirst[0] = []int{0}     // [k0,stale],[k0,v0],[k1,v1],...: new keys follow the repeated one
		dupMid[n/2] = []int{n / 2} // ...,[km,stale],[km,vm],...
		dupLast[n-1] = []int{n - 1}
	}
	fromArray := func(ps []px.Value) *types.Hash { return types.WrapHashFromArray(types.WrapValues(ps)) }
	junk := v.junkKeys(c, 2)
	// the entries with junk entries at the given positions
	withJunk := func(at ...int) []*types.HashEntry {
		var es []*types.HashEntry
		j := 0
		for i := 0; i <= n; i++ {
			for _, p := range at {
				if p == i && j < len(junk) {
					es = append(es, types.WrapHashEntry(junk[j], stale))
					j++
				}
			}
			if i < n {
				es = append(es, types.WrapHashEntry(ks[i], vs[i]))
			}
		}
		return es
	}
	isJunk := func(k px.Value) bool {
		for _, j := range junk {
			if k == j {
				return true
			}
		}
		return false
	}
	switch v.R {
	case "hash2":
		es := entries(0, n, real)
		l := make([]px.Value, n)
		for i, e := range es {
			l[i] = e
		}
		return types.WrapHash2(types.WrapValues(l))
	case "build":
		return types.BuildHash(n, func(h *types.Hash, es []*types.HashEntry) []*types.HashEntry {
			return append(es, entries(0, n, real)...)
		})
	case "pairs":
		return fromArray(pairs(nil, false))
	case "pair-entries":
		// the pairs are HashEntry values
		ps := make([]px.Value, 0, n+1)
		if n > 0 {
			ps = append(ps, types.WrapHashEntry(ks[0], stale))
		}
		for _, e := range entries(0, n, real) {
			ps = append(ps, e)
		}
		return fromArray(ps)
	case "pairs-dup-first":
		return fromArray(pairs(dupFirst, false))
	case "pairs-dup-mid":
		return fromArray(pairs(dupMid, false))
	case "pairs-dup-last":
		return fromArray(pairs(dupLast, false))
	case "pairs-dup-all":
		// every key first with a stale value: every entry is replaced in place
		return fromArray(pairs(map[int][]int{0: allKeys}, false))
	case "pairs-dup-rev":
		// the stale pairs fix the order, the real pairs come in reverse order
		return fromArray(pairs(map[int][]int{0: allKeys}, true))
	case "flat":
		return fromArray(flat(pairs(nil, false)))
	case "flat-dup-first":
		return fromArray(flat(pairs(dupFirst, false)))
	case "flat-dup-all":
		return fromArray(flat(pairs(map[int][]int{0: allKeys}, false)))
	case "new":
		return px.New(c, types.DefaultHashType(), types.WrapValues(pairs(nil, false)))
	case "new-dup-first":
		return px.New(c, types.DefaultHashType(), types.WrapValues(pairs(dupFirst, false)))
	case "merge":
		return types.WrapHash(entries(0, n/2, real)).Merge(types.WrapHash(entries(n/2, n, real)))
	case "merge-replace":
		return types.WrapHash(entries(0, n, old)).Merge(types.WrapHash(entries(0, n, real)))
	case "merge-from-pairs":
		// the receiver of Merge has a pre-built index
		var ps []px.Value
		if n/2 > 0 {
			ps = append(ps, pairOf(ks[0], stale))
		}
		for i := 0; i < n/2; i++ {
			ps = append(ps, pairOf(ks[i], stale))
		}
		return fromArray(ps).Merge(types.WrapHash(entries(0, n, real)))
	case "addall-pairs":
		return types.WrapHash([]*types.HashEntry{}).AddAll(types.WrapValues(pairs(dupFirst, false)))
	case "delete":
		if len(junk) < 1 {
			panic("no junk key")
		}
		return types.WrapHash(withJunk(n / 2)).Delete(junk[0])
	case "delete-from-pairs":
		// the receiver of Delete has a pre-built index: [k0,stale],[junk,stale],[k0,v0],[k1,v1],...
		if len(junk) < 1 {
			panic("no junk key")
		}
		var ps []px.Value
		if n > 0 {
			ps = append(ps, pairOf(ks[0], stale))
		}
		ps = append(ps, pairOf(junk[0], stale))
		ps = append(ps, pairs(nil, false)...)
		return fromArray(ps).Delete(junk[0])
	case "deleteall":
		if len(junk) < 2 {
			panic("no junk keys")
		}
		return types.WrapHash(withJunk(0, n)).DeleteAll(types.WrapValues(junk))
	case "select":
		return types.WrapHash(withJunk(0, n/2)).SelectPairs(func(k, _ px.Value) bool { return !isJunk(k) })
	case "reject":
		return types.WrapHash(withJunk(n/2, n)).RejectPairs(func(k, _ px.Value) bool { return isJunk(k) })
	case "slice":
		return types.WrapHash(withJunk(0, n)).Slice(1, n+1)
	case "mutable":
		// the Hash inside a MutableHashValue after a sequence of Put (the index is reset by every Put)
		m := types.NewMutableHash()
		for i := 0; i < n; i++ {
			m.Put(ks[i], stale)
		}
		for i := n - 1; i >= 0; i-- {
			m.Put(ks[i], vs[i])
		}
		return &m.Hash
	}
	panic("bad route " + v.R + " of Hash")
}

// routed returns a copy of the description in which nodes are given random routes
func routed(r *lib.Rng, d *V) *V {
	c := *d
	if len(d.Vs) > 0 {
		c.Vs = make([]*V, len(d.Vs))
		for i, e := range d.Vs {
			c.Vs[i] = routed(r, e)
		}
	}
	if rs := routesOf(d.K); len(rs) > 0 && d.R == "" && r.Chance(2, 3) {
		c.R = rs[r.Intn(len(rs))]
		if !c.routeApplicable() {
			c.R = ""
		}
	}
	return &c
}

func (v *V) hasRoute() bool {
	return v.any(func(x *V) bool { return x.R != "" }, func(t *T) bool { return t.R != "" })
}

// unroutedT: the type description without the routes of the Rep types inside
func unroutedT(t *T) *T {
	if t == nil || !t.any(func(x *T) bool { return x.R != "" }) {
		return t
	}
	c := *t
	c.R = ""
	if len(t.Ts) > 0 {
		c.Ts = make([]*T, len(t.Ts))
		for i, e := range t.Ts {
			c.Ts[i] = unroutedT(e)
		}
	}
	return &c
}

// unrouted returns the description without any route
func unrouted(d *V) *V {
	c := *d
	c.R = ""
	c.T = unroutedT(d.T)
	if len(d.Vs) > 0 {
		c.Vs = make([]*V, len(d.Vs))
		for i, e := range d.Vs {
			c.Vs[i] = unrouted(e)
		}
	}
	return &c
}

// monoTime: the instant t as a time.Time that carries a monotonic clock reading (time.Now is used as the carrier of the
// reading only: the wall clock reading of the result is t, Add keeps the reading)
func monoTime(t time.Time) time.Time {
	now := time.Now()
	m := now.Add(t.Sub(now))
	if !m.Equal(t) {
		panic("route mono: cannot reach the instant")
	}
	return m
}
