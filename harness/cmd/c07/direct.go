package main

// D: the property checked directly on the implementation, on all pairs and triples of the pool.

import (
	"fmt"
	"sort"
	"strings"

	"github.com/lyraproj/pcore/px"
	"github.com/lyraproj/pcore/types"
	"verifharness/lib"
)

type bitrow []uint64

func newRow(n int) bitrow       { return make(bitrow, (n+63)/64) }
func (r bitrow) set(i int)      { r[i/64] |= 1 << uint(i%64) }
func (r bitrow) get(i int) bool { return r[i/64]&(1<<uint(i%64)) != 0 }

type checker struct {
	p    *pool
	res  *lib.Result
	eq   []bitrow // eq[i].get(j) = a_i.Equals(a_j)
	viol map[string]int
}

func tagsOf(ds ...*V) []string {
	set := map[string]bool{}
	tops := []string{}
	for _, d := range ds {
		ks := map[string]bool{}
		d.kinds(ks)
		for k := range ks {
			set["has:"+k] = true
		}
		set["top:"+d.K] = true
		tops = append(tops, d.K)
		// parsed type expressions: the name of the type, so that every kind of type is a group of its own
		d.any(func(*V) bool { return false }, func(t *T) bool {
			if t.K == "Rep" {
				set["rep:"+string(t.S)] = true
			}
			if t.K == "Text" {
				n := string(t.S)
				if i := strings.IndexByte(n, '['); i >= 0 {
					n = n[:i]
				}
				set["text:"+n] = true
			}
			return false
		})
		if d.hasNaN() {
			set["nan"] = true
		}
		if d.hasSensitive() {
			set["sensitive"] = true
		}
		if !d.inModel() {
			set["outside-model"] = true
		}
	}
	sort.Strings(tops)
	s := "tops:"
	for i, t := range tops {
		if i > 0 {
			s += "+"
		}
		s += t
	}
	set[s] = true
	r := make([]string, 0, len(set))
	for k := range set {
		r = append(r, k)
	}
	sort.Strings(r)
	return r
}

// violate records a counter-example; at most 12 per clause are kept (the first ones are the
// smallest: the pool starts with the corpus and the small families)
func (ck *checker) violate(clause, what string, ds ...*V) {
	ck.violateT(clause, what, nil, ds...)
}

// violateT: extra are the narrow tags of known findings (see known_findings/C07.json)
func (ck *checker) violateT(clause, what string, extra []string, ds ...*V) {
	ck.viol[clause]++
	if ck.viol[clause] > 150 {
		return
	}
	ck.res.Violate(lib.Violation{Clause: clause, What: what, Input: map[string]interface{}{"kind": "values", "clause": clause, "vs": ds}, Tags: append(tagsOf(ds...), extra...)})
}

// identityKey: the hash key of an Object type or a TypeSet, "\x00tObject<n>" / "\x00tTypeSet<n>" where n is
// a counter incremented for every type created (types/objecttype.go:151, types/typeset.go:171)
func identityKey(k string) bool {
	for _, p := range []string{"\x00tObject", "\x00tTypeSet"} {
		if strings.HasPrefix(k, p) && len(k) > len(p) {
			digits := true
			for _, c := range k[len(p):] {
				digits = digits && c >= '0' && c <= '9'
			}
			if digits {
				return true
			}
		}
	}
	return false
}

// kfIdentityKey is the tag of the open finding object-type-key-by-identity: two equal values whose
// keys differ and are both identity keys of Object types / TypeSets
func kfIdentityKey(k1, k2 string) []string {
	if k1 != k2 && identityKey(k1) && identityKey(k2) {
		return []string{"kf:object-type-key-by-identity"}
	}
	return nil
}

// isTypeSetText: a TypeSet given as a type expression
func isTypeSetText(d *V) bool {
	return d.K == "Type" && d.T.K == "Text" && strings.HasPrefix(string(d.T.S), "TypeSet[")
}

// kfTypeSetKey is the tag of the open finding typeset-key-by-content: two TypeSets that are equal (same name, authority,
// pcore URI and versions) whose hash keys, which also hold the types of the sets, differ
func kfTypeSetKey(x, y *V, k1, k2 string) []string {
	if k1 != k2 && isTypeSetText(x) && isTypeSetText(y) && string(x.T.S) != string(y.T.S) {
		return []string{"kf:typeset-key-by-content"}
	}
	return nil
}

func (ck *checker) equals(x, y px.Value, dx, dy *V, how string) bool {
	var e bool
	fault, err := guarded(func() { e = x.Equals(y, nil) })
	ck.res.Evaluations++
	if fault != "" {
		ck.violate("fault", fmt.Sprintf("%s.Equals(%s) [%s] escapes with a runtime fault: %s", dx, dy, how, fault), dx, dy)
		return false
	}
	if err != "" {
		ck.violate("fault", fmt.Sprintf("%s.Equals(%s) [%s] panics: %s", dx, dy, how, err), dx, dy)
		return false
	}
	return e
}

func (ck *checker) keys() {
	for _, it := range ck.p.items {
		it := it
		fault, err := guarded(func() { it.key = string(px.ToKey(it.a)) })
		ck.res.Evaluations++
		it.keyOK = fault == "" && err == ""
		if fault != "" {
			ck.violate("fault", fmt.Sprintf("ToKey(%s) escapes with a runtime fault: %s", it.d, fault), it.d)
			continue
		}
		if it.keyOK != it.d.keyable() {
			ck.res.Count(fmt.Sprintf("key.unexpected-keyable-%v.%s", it.keyOK, it.d.K))
		}
		if !it.keyOK {
			ck.res.Count("key.none")
			continue
		}
		// hidden state: the key of the second copy before and after its caches were forced
		var kb string
		fb, eb := guarded(func() { kb = string(px.ToKey(it.b)) })
		if fb != "" || eb != "" || !it.keyB0OK || kb != it.keyB0 {
			ck.violate("hidden-state", fmt.Sprintf("ToKey(%s) = %q, but %q (%s%s) after PType(), String(), ToKey() were called on the value", it.d, it.keyB0, kb, fb, eb), it.d)
		} else if kb != it.key && ck.equals(it.a, it.b, it.d, it.d, "two copies") {
			// two separately built copies that are equal have the same key
			ck.violateT("key-iff-eq", fmt.Sprintf("two separately built copies of %s are equal but their hash keys differ: %q, %q", it.d, it.key, kb), kfIdentityKey(it.key, kb), it.d, it.d)
		}
	}
}

func (ck *checker) pairs() {
	items := ck.p.items
	n := len(items)
	ck.eq = make([]bitrow, n)
	for i, x := range items {
		row := newRow(n)
		ck.eq[i] = row
		for j, y := range items {
			e := ck.equals(x.a, y.a, x.d, y.d, "fresh copies")
			if e {
				row.set(j)
			}
			// the same answer through px.Equals
			var pe bool
			fault, err := guarded(func() { pe = px.Equals(x.a, y.a, nil) })
			if fault != "" || err != "" || pe != e {
				ck.violate("px-equals", fmt.Sprintf("px.Equals(%s, %s) = %v %s%s but the method Equals = %v", x.d, y.d, pe, fault, err, e), x.d, y.d)
			}
			// hidden state: forcing the lazy caches of either operand does not change the answer
			if eb := ck.equals(x.b, y.a, x.d, y.d, "receiver's caches forced"); eb != e {
				ck.violate("hidden-state", fmt.Sprintf("%s.Equals(%s) = %v, but %v when the receiver is a second, separately built copy on which PType(), String(), ToKey() were called", x.d, y.d, e, eb), x.d, y.d)
			}
			if eb := ck.equals(x.a, y.b, x.d, y.d, "argument's caches forced"); eb != e {
				ck.violate("hidden-state", fmt.Sprintf("%s.Equals(%s) = %v, but %v when the argument is a second, separately built copy on which PType(), String(), ToKey() were called", x.d, y.d, e, eb), x.d, y.d)
			}
			if eb := ck.equals(x.b, y.b, x.d, y.d, "caches of both operands forced"); eb != e {
				ck.violate("hidden-state", fmt.Sprintf("%s.Equals(%s) = %v, but %v when both operands are second, separately built copies on which PType(), DetailedValueType, String(), ToKey() were called", x.d, y.d, e, eb), x.d, y.d)
			}
			if i != j && (e || x.d.K == y.d.K) {
				ck.res.Nontrivial(x.text + " ~ " + y.text)
			}
		}
	}
	for i, x := range items {
		// reflexive (NaN and Sensitive excepted), also between two separately built copies
		if x.d.clean() {
			if !ck.eq[i].get(i) {
				ck.violate("refl", fmt.Sprintf("%s is not equal to itself", x.d), x.d)
			} else if !ck.equals(x.a, x.b, x.d, x.d, "two copies") || !ck.equals(x.b, x.a, x.d, x.d, "two copies") {
				ck.violate("refl", fmt.Sprintf("two separately built copies of %s are not equal", x.d), x.d)
			}
		}
		for j, y := range items {
			e := ck.eq[i].get(j)
			if j > i && e != ck.eq[j].get(i) {
				ck.violate("sym", fmt.Sprintf("%s.Equals(%s) = %v but %s.Equals(%s) = %v", x.d, y.d, e, y.d, x.d, !e), x.d, y.d)
			}
			if x.keyOK && y.keyOK {
				ke := x.key == y.key
				ck.res.Evaluations++
				if e && !ke {
					ck.violateT("key-iff-eq", fmt.Sprintf("%s equals %s but their hash keys differ: %q, %q", x.d, y.d, x.key, y.key), append(kfIdentityKey(x.key, y.key), kfTypeSetKey(x.d, y.d, x.key, y.key)...), x.d, y.d)
				}
				if ke && !e && x.d.clean() && y.d.clean() {
					ck.violate("key-iff-eq", fmt.Sprintf("%s and %s are not equal but have the same hash key %q", x.d, y.d, x.key), x.d, y.d)
				}
			}
		}
	}
	// transitive: eq[i][j] and eq[j][k] imply eq[i][k]
	for i, x := range items {
		for j, y := range items {
			if !ck.eq[i].get(j) {
				continue
			}
			ri, rj := ck.eq[i], ck.eq[j]
			for w := range rj {
				if miss := rj[w] &^ ri[w]; miss != 0 {
					for b := 0; b < 64; b++ {
						if miss&(1<<uint(b)) != 0 {
							z := items[w*64+b]
							ck.violate("trans", fmt.Sprintf("%s equals %s, which equals %s, but the first is not equal to the last", x.d, y.d, z.d), x.d, y.d, z.d)
							break
						}
					}
					break
				}
			}
			ck.res.Evaluations++
		}
	}
}

// hash lookup against the equality-based reference
type getCase struct {
	h     *V
	probe *V
	found bool
	val   int64
}

func (ck *checker) lookups(rng *lib.Rng, nHashes int) []getCase {
	items := ck.p.items
	var cands []int
	for i, it := range items {
		// TypeSets are left out: equal ones with different keys are the open finding typeset-key-by-content, reported by key-iff-eq
		if it.keyOK && it.d.clean() && ck.eq[i].get(i) && !isTypeSetText(it.d) {
			cands = append(cands, i)
		}
	}
	var cases []getCase
	if len(cands) == 0 {
		return cases
	}
	for hN := 0; hN < nHashes; hN++ {
		r := rng.Fork()
		want := 1 + r.Intn(6)
		var ks []int
		for tries := 0; len(ks) < want && tries < 40; tries++ {
			c := cands[r.Intn(len(cands))]
			if hN < len(cands) && len(ks) == 0 {
				c = cands[hN] // every candidate is the first key of some hash
			}
			dup := false
			for _, k := range ks {
				if ck.eq[k].get(c) || ck.eq[c].get(k) || items[k].key == items[c].key {
					dup = true
				}
			}
			if !dup {
				ks = append(ks, c)
			}
		}
		hd := &V{K: "Hash"}
		for p, k := range ks {
			hd.Vs = append(hd.Vs, items[k].d, vInt(int64(p)))
		}
		// two hashes in three are made by a construction route other than WrapHash
		if r.Chance(2, 3) {
			hd.R = hashRoutes[r.Intn(len(hashRoutes))]
			if !hd.routeApplicable() {
				hd.R = ""
			}
		}
		var h *types.Hash
		if fault, err := guarded(func() { h = hd.build(ck.p.c).(*types.Hash) }); fault != "" || err != "" {
			ck.res.Count("skipped.route-rejected.lookup@" + hd.R)
			hd.R = ""
			h = hd.build(ck.p.c).(*types.Hash)
		}
		ck.res.Count("lookup.hash-route." + hd.R)
		for qi, q := range items {
			if !q.keyOK || !q.d.clean() {
				continue
			}
			// reference: the first entry whose key equals the probe
			ref := -1
			for p, k := range ks {
				if ck.eq[k].get(qi) && ck.eq[qi].get(k) {
					ref = p
					break
				}
			}
			var v px.Value
			var ok, inc bool
			fault, err := guarded(func() {
				v, ok = h.Get(q.a)
				inc = h.IncludesKey(q.b)
			})
			ck.res.Evaluations++
			if fault != "" || err != "" {
				ck.violate("fault", fmt.Sprintf("%s.Get(%s) panics: %s%s", hd, q.d, fault, err), hd, q.d)
				continue
			}
			got := -1
			if ok {
				if iv, isInt := v.(px.Integer); isInt {
					got = int(iv.Int())
				} else {
					got = -2
				}
			}
			if got != ref || inc != (ref >= 0) {
				// known finding: the probe is an Object type / TypeSet (identity key) equal to a key of the hash that is not found
				var kf []string
				if ref >= 0 && identityKey(q.key) && identityKey(items[ks[ref]].key) {
					kf = []string{"kf:object-type-key-by-identity"}
				}
				ck.violateT("hash-get", fmt.Sprintf("%s: Get(%s) finds entry %d, IncludesKey = %v, but the entry with an equal key is %d (-1: none)", hd, q.d, got, inc, ref), kf, hd, q.d)
			}
			if ref >= 0 {
				ck.res.Nontrivial("get " + hd.String() + " " + q.text)
			}
			// sample the model cases: every hit and one miss in 16
			if hd.inModel() && q.d.inModel() && (ref >= 0 || got >= 0 || (qi+hN)%16 == 0) {
				cases = append(cases, getCase{hd, q.d, got >= 0, int64(got)})
			}
		}
	}
	return cases
}

type uniqueCase struct {
	list []*V
	keys []string // the hash keys of the elements kept by Unique, in order
}

func sameValue(a, b px.Value) bool {
	same := false
	guarded(func() { same = a == b })
	return same
}

func (ck *checker) uniques(rng *lib.Rng, n int) []uniqueCase {
	items := ck.p.items
	var cands []int
	for i, it := range items {
		// TypeSets are left out: equal ones with different keys are the open finding typeset-key-by-content, reported by key-iff-eq
		if it.keyOK && it.d.clean() && ck.eq[i].get(i) && !isTypeSetText(it.d) {
			cands = append(cands, i)
		}
	}
	var cases []uniqueCase
	if len(cands) == 0 {
		return cases
	}
	for t := 0; t < n; t++ {
		r := rng.Fork()
		ln := 2 + r.Intn(7)
		var idx []int
		for len(idx) < ln {
			c := cands[r.Intn(len(cands))]
			idx = append(idx, c)
			// bias: also an equal value built from a different description, and the value again
			if r.Chance(1, 2) {
				var eqs []int
				for _, o := range cands {
					if o != c && ck.eq[c].get(o) {
						eqs = append(eqs, o)
					}
				}
				if len(eqs) > 0 {
					idx = append(idx, eqs[r.Intn(len(eqs))])
				} else if r.Bool() {
					idx = append(idx, c)
				}
			}
		}
		ds := make([]*V, len(idx))
		vs := make([]px.Value, len(idx))
		allTypes := true
		for i, c := range idx {
			ds[i] = items[c].d
			if r.Bool() {
				vs[i] = items[c].a
			} else {
				vs[i] = items[c].b
			}
			if _, ok := vs[i].(px.Type); !ok {
				allTypes = false
			}
		}
		// reference: the first value of every equality class
		var ref []int
		for i, c := range idx {
			first := true
			for _, p := range ref {
				if ck.eq[idx[p]].get(c) {
					first = false
					break
				}
			}
			if first {
				ref = append(ref, i)
			}
		}
		check := func(name string, got []px.Value) {
			ck.res.Evaluations++
			ok := len(got) == len(ref)
			for i := 0; ok && i < len(ref); i++ {
				ok = sameValue(got[i], vs[ref[i]])
			}
			if !ok {
				gs := make([]string, len(got))
				for i, g := range got {
					gs[i] = g.String()
				}
				// known finding: the only difference is that equal Object types / TypeSets (identity keys) are all kept
				var kf []string
				var gotRest, refRest []px.Value
				for _, g := range got {
					if !identityKey(string(px.ToKey(g))) {
						gotRest = append(gotRest, g)
					}
				}
				for _, i := range ref {
					if !identityKey(string(px.ToKey(vs[i]))) {
						refRest = append(refRest, vs[i])
					}
				}
				same := len(gotRest) == len(refRest) && len(gotRest) < len(got)
				for i := 0; same && i < len(refRest); i++ {
					same = sameValue(gotRest[i], refRest[i])
				}
				if same {
					kf = []string{"kf:object-type-key-by-identity"}
				}
				ck.violateT("unique", fmt.Sprintf("%s of %v keeps %v; the first of every equality class is at positions %v", name, ds, gs, ref), kf, ds...)
			}
		}
		var u []px.Value
		fault, err := guarded(func() {
			ul := types.WrapValues(append([]px.Value{}, vs...)).Unique()
			u = make([]px.Value, ul.Len())
			for i := range u {
				u[i] = ul.At(i)
			}
		})
		if fault != "" || err != "" {
			ck.violate("fault", fmt.Sprintf("Unique of %v panics: %s%s", ds, fault, err), ds...)
			continue
		}
		check("Array.Unique", u)
		guarded(func() { check("UniqueValues", types.UniqueValues(append([]px.Value{}, vs...))) })
		if allTypes {
			guarded(func() {
				ts := make([]px.Type, len(vs))
				for i, v := range vs {
					ts[i] = v.(px.Type)
				}
				ut := types.UniqueTypes(ts)
				got := make([]px.Value, len(ut))
				for i, x := range ut {
					got[i] = x
				}
				check("UniqueTypes", got)
			})
		}
		if len(ref) < len(idx) {
			ck.res.Nontrivial(fmt.Sprintf("unique %v", ds))
		}
		inModel := true
		for _, d := range ds {
			inModel = inModel && d.inModel()
		}
		if inModel {
			uc := uniqueCase{list: ds}
			for _, x := range u {
				uc.keys = append(uc.keys, string(px.ToKey(x)))
			}
			cases = append(cases, uc)
		}
	}
	return cases
}

// ---------------------------------------------------------------- a Hash and its own entries

// hashesIn collects the Hash values inside a value (the value itself, elements, keys, values)
func hashesIn(v px.Value, into []*types.Hash) []*types.Hash {
	switch v := v.(type) {
	case *types.Hash:
		into = append(into, v)
		v.EachPair(func(k, e px.Value) { into = hashesIn(k, into); into = hashesIn(e, into) })
	case *types.Array:
		v.Each(func(e px.Value) { into = hashesIn(e, into) })
	case *types.HashEntry:
		into = hashesIn(v.Key(), into)
		into = hashesIn(v.Value(), into)
	case *types.Sensitive:
		into = hashesIn(v.Unwrap(), into)
	}
	return into
}

func keyOf(v px.Value) (k string, ok bool) {
	fault, err := guarded(func() { k = string(px.ToKey(v)) })
	return k, fault == "" && err == ""
}

// ownEntries: "a Hash finds a key if and only if it contains an equal key", stated on the hash itself, however
// it was made: every key that the hash lists (EachPair) is found, with the value of its own entry (the keys of
// a pool hash are pairwise unequal); a probe that is equal to no listed key is not found; the hash is equal,
// whichever operand receives the call, to itself and to the hash wrapped around the entries it lists, and has
// the same hash key.  what says which hash of the description it is.
func (ck *checker) ownEntries(h *types.Hash, d *V, what string) {
	type kv struct{ k, v px.Value }
	var es []kv
	if fault, err := guarded(func() { h.EachPair(func(k, v px.Value) { es = append(es, kv{k, v}) }) }); fault != "" || err != "" {
		ck.violate("fault", fmt.Sprintf("%s of %s: EachPair panics: %s%s", what, d, fault, err), d)
		return
	}
	for i, e := range es {
		var got px.Value
		var ok, inc bool
		fault, err := guarded(func() {
			got, ok = h.Get(e.k)
			inc = h.IncludesKey(e.k)
		})
		ck.res.Evaluations++
		switch {
		case fault != "" || err != "":
			ck.violate("own-entries", fmt.Sprintf("%s of %s lists the key %s (entry %d) but Get of that key panics: %s%s", what, d, e.k, i, fault, err), d)
		case !ok || !inc:
			ck.violate("own-entries", fmt.Sprintf("%s of %s lists the key %s (entry %d) but does not find it: Get found=%v, IncludesKey=%v", what, d, e.k, i, ok, inc), d)
		default:
			kg, okg := keyOf(got)
			kw, okw := keyOf(e.v)
			if !sameValue(got, e.v) && !(okg && okw && kg == kw) {
				ck.violate("own-entries", fmt.Sprintf("%s of %s: Get(%s) returns %s, the entry with that key (entry %d) holds %s", what, d, e.k, got, i, e.v), d)
			}
		}
	}
	// probes that may or may not be keys of the hash: found iff a listed key equals the probe
	for _, q := range []px.Value{types.WrapString(junkText), types.WrapInteger(987654321), types.WrapString("a"), types.WrapInteger(1), types.WrapUndef()} {
		ref := false
		for _, e := range es {
			guarded(func() { ref = ref || (e.k.Equals(q, nil) && q.Equals(e.k, nil)) })
		}
		var ok, inc bool
		fault, err := guarded(func() {
			_, ok = h.Get(q)
			inc = h.IncludesKey(q)
		})
		ck.res.Evaluations++
		if fault != "" || err != "" {
			ck.violate("own-entries", fmt.Sprintf("%s of %s: Get(%s) panics: %s%s", what, d, q, fault, err), d)
		} else if ok != ref || inc != ref {
			ck.violate("own-entries", fmt.Sprintf("%s of %s: Get(%s) found=%v, IncludesKey=%v, but a listed key equal to it exists: %v", what, d, q, ok, inc, ref), d)
		}
	}
	// the hash wrapped around the listed entries
	cp := make([]*types.HashEntry, len(es))
	for i, e := range es {
		cp[i] = types.WrapHashEntry(e.k, e.v)
	}
	direct := types.WrapHash(cp)
	clean := d.clean()
	for _, t := range []struct {
		name string
		x, y px.Value
	}{{"h.Equals(h)", h, h}, {"h.Equals(WrapHash(entries of h))", h, direct}, {"WrapHash(entries of h).Equals(h)", direct, h}} {
		var e bool
		fault, err := guarded(func() { e = t.x.Equals(t.y, nil) })
		ck.res.Evaluations++
		if fault != "" || err != "" {
			ck.violate("own-entries", fmt.Sprintf("%s of %s: %s panics: %s%s", what, d, t.name, fault, err), d)
		} else if clean && !e {
			ck.violate("own-entries", fmt.Sprintf("%s of %s: %s = false", what, d, t.name), d)
		}
	}
	if kh, ok := keyOf(h); ok {
		if kd, okd := keyOf(direct); !okd || kd != kh {
			ck.violate("own-entries", fmt.Sprintf("%s of %s: the hash key %q differs from the key %q of the hash wrapped around its entries", what, d, kh, kd), d)
		}
	}
}

// ownEntriesOfPool applies ownEntries to every Hash inside every pool value, on the fresh copy and on the
// copy whose caches have been forced
func (ck *checker) ownEntriesOfPool() {
	n := 0
	for _, it := range ck.p.items {
		if !it.d.any(func(x *V) bool { return x.K == "Hash" }, func(*T) bool { return false }) {
			continue
		}
		for ci, v := range []px.Value{it.a, it.b} {
			for hi, h := range hashesIn(v, nil) {
				ck.ownEntries(h, it.d, fmt.Sprintf("hash %d (copy %d)", hi, ci))
				n++
			}
		}
		if it.d.hasRoute() {
			ck.res.Nontrivial("own-entries " + it.text)
		}
	}
	ck.res.Extra["own_entries_hashes"] = n
}

// ---------------------------------------------------------------- values derived from a pool value

// derivedOfPool: the values that the operations of a container derive from it share its storage (the backing
// slice of the elements or entries, the receiver's index).  For x and every derived value d: Equals gives the same
// answer in both directions and - NaN and Sensitive excepted - x equals d exactly when they have the same hash key.
func (ck *checker) derivedOfPool() {
	junk := px.Value(types.WrapString(junkText))
	stale := px.Value(types.WrapString("stale"))
	n := 0
	for _, it := range ck.p.items {
		type der struct {
			name string
			f    func() px.Value
		}
		var ds []der
		switch x := it.a.(type) {
		case *types.Array:
			ln := x.Len()
			ds = []der{{"x.Slice(0,len)", func() px.Value { return x.Slice(0, ln) }},
				{"x.Add(junk)", func() px.Value { return x.Add(junk) }},
				{"x.Add(junk).Slice(0,len)", func() px.Value { return x.Add(junk).Slice(0, ln) }},
				{"x.Unique()", func() px.Value { return x.Unique() }},
				{"x.AddAll([])", func() px.Value { return x.AddAll(types.WrapValues([]px.Value{})) }}}
			if ln > 0 {
				ds = append(ds, der{"x.Slice(0,len-1)", func() px.Value { return x.Slice(0, ln-1) }},
					der{"x.Slice(1,len)", func() px.Value { return x.Slice(1, ln) }},
					der{"x.Slice(0,len-1).Add(junk)", func() px.Value { return x.Slice(0, ln-1).Add(junk) }})
			}
		case *types.Hash:
			ln := x.Len()
			ds = []der{{"x.Slice(0,len)", func() px.Value { return x.Slice(0, ln) }},
				{"x.Merge({})", func() px.Value { return x.Merge(types.WrapHash([]*types.HashEntry{})) }},
				{"x.Merge({junk=>stale})", func() px.Value { return x.Merge(types.WrapHash([]*types.HashEntry{types.WrapHashEntry(junk, stale)})) }},
				{"x.Merge({junk=>stale}).Delete(junk)", func() px.Value {
					return x.Merge(types.WrapHash([]*types.HashEntry{types.WrapHashEntry(junk, stale)})).(*types.Hash).Delete(junk)
				}},
				{"x.Delete(junk)", func() px.Value { return x.Delete(junk) }}}
			if ln > 0 {
				ds = append(ds, der{"x.Slice(0,len-1)", func() px.Value { return x.Slice(0, ln-1) }},
					der{"x.Delete(first key)", func() px.Value { return x.Delete(x.At(0).(*types.HashEntry).Key()) }},
					der{"x.Merge({first key=>stale})", func() px.Value {
						return x.Merge(types.WrapHash([]*types.HashEntry{types.WrapHashEntry(x.At(0).(*types.HashEntry).Key(), stale)}))
					}},
					der{"x.Merge({last key=>its value})", func() px.Value {
						e := x.At(ln - 1).(*types.HashEntry)
						return x.Merge(types.WrapHash([]*types.HashEntry{types.WrapHashEntry(e.Key(), e.Value())}))
					}})
			}
		default:
			continue
		}
		kx, okx := keyOf(it.a)
		clean := it.d.clean()
		for _, d := range ds {
			var dv px.Value
			if fault, err := guarded(func() { dv = d.f() }); fault != "" || err != "" {
				// the operations themselves are the subject of C09
				ck.res.Count("skipped.derive-rejected")
				continue
			}
			var e1, e2 bool
			f1, r1 := guarded(func() { e1 = it.a.Equals(dv, nil) })
			f2, r2 := guarded(func() { e2 = dv.Equals(it.a, nil) })
			ck.res.Evaluations += 2
			n++
			if f1 != "" || r1 != "" || f2 != "" || r2 != "" {
				ck.violate("fault", fmt.Sprintf("x = %s, d = %s: x.Equals(d) or d.Equals(x) panics: %s%s%s%s", it.d, d.name, f1, r1, f2, r2), it.d)
				continue
			}
			if e1 != e2 {
				ck.violate("sym", fmt.Sprintf("x = %s, d = %s: x.Equals(d) = %v but d.Equals(x) = %v", it.d, d.name, e1, e2), it.d)
			}
			if kd, okd := keyOf(dv); okx && okd && clean && (kd == kx) != e1 {
				ck.violate("key-iff-eq", fmt.Sprintf("x = %s, d = %s = %s: x.Equals(d) = %v but the hash keys are %q and %q", it.d, d.name, dv, e1, kx, kd), it.d)
			}
		}
	}
	ck.res.Extra["derived_values"] = n
}
