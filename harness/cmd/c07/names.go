package main

// Value kinds that carry a derived, cached form next to their visible parts, and their second construction
// routes.
//
// TypedName (types/typedname.go): the visible parts are namespace, authority and name; Equals compares the
// cached canonical form (MapKey: lower case authority/namespace/name), which newTypedName2 computes and which
// Child(), Parent() and RelativeTo(parent) - child(stripCount) - cut out of the canonical form of the name
// they start from, by offsets taken from the name.  A description TName(namespace, authority, name) denotes one
// value whatever the route; the route is a construction expression (NX), which is also what the Rocq model
// (coq/Model/KeysNames.v) evaluates.
//
// Deferred (types/deferred.go), Object instances of reflected Go structs (types/objectvalue.go reflectedObject)
// and TypeSets (text types, pool.go): outside the Rocq model, D only.

import (
	"fmt"
	"reflect"
	"regexp"
	"strings"

	"github.com/lyraproj/pcore/px"
	"github.com/lyraproj/pcore/types"
	"verifharness/lib"
)

// NX is a construction expression of a TypedName.
//
//	new(N, A, S): newTypedName2(namespace N, name S, authority A)   key(S): typedNameFromMapKey(S)
//	child(X): X.Child()   parent(X): X.Parent()   rel(X, P): X.RelativeTo(P)
//
// Via: how the operation is reached - "" the Go method, "pnew" / "hnew" px.New with positional arguments / an
// init hash (op new), "attr" the attribute of the Pcore object (child, parent); the model does not see it.
type NX struct {
	Op  string `json:"op"`
	Via string `json:"via,omitempty"`
	N   Str    `json:"n,omitempty"`
	A   Str    `json:"a,omitempty"`
	S   Str    `json:"s,omitempty"`
	X   *NX    `json:"x,omitempty"`
	P   *NX    `json:"p,omitempty"`
}

func nxNew(ns, auth, name string) *NX { return &NX{Op: "new", N: Str(ns), A: Str(auth), S: Str(name)} }
func nxKey(k string) *NX              { return &NX{Op: "key", S: Str(k)} }
func nxChild(x *NX) *NX               { return &NX{Op: "child", X: x} }
func nxParent(x *NX) *NX              { return &NX{Op: "parent", X: x} }
func nxRel(x, p *NX) *NX              { return &NX{Op: "rel", X: x, P: p} }

func (e *NX) String() string {
	v := ""
	if e.Via != "" {
		v = "@" + e.Via
	}
	switch e.Op {
	case "new":
		return fmt.Sprintf("new%s(%q,%q,%q)", v, string(e.N), string(e.A), string(e.S))
	case "key":
		return fmt.Sprintf("fromMapKey(%q)", string(e.S))
	case "rel":
		return fmt.Sprintf("%s.RelativeTo(%s)", e.X, e.P)
	}
	return fmt.Sprintf("%s.%s%s()", e.X, e.Op, v)
}

// gS: a byte string as a Gallina term; the runtime authority, which most names start with, is the constant rt_auth of
// the prelude of the cases file
func gS(s string) string {
	if strings.HasPrefix(s, runtimeAuthority) {
		if len(s) == len(runtimeAuthority) {
			return "rt_auth"
		}
		return "(rt_auth ++ " + lib.GStr(s[len(runtimeAuthority):]) + ")"
	}
	return lib.GStr(s)
}

func (e *NX) gallina() string {
	switch e.Op {
	case "new":
		return fmt.Sprintf("(NNew %s %s %s)", lib.GStr(string(e.N)), gS(string(e.A)), lib.GStr(string(e.S)))
	case "key":
		return fmt.Sprintf("(NFromKey %s)", gS(string(e.S)))
	case "child":
		return "(NChild " + e.X.gallina() + ")"
	case "parent":
		return "(NParent " + e.X.gallina() + ")"
	case "rel":
		return "(NRel " + e.X.gallina() + " " + e.P.gallina() + ")"
	}
	panic("bad name expression " + e.Op)
}

// nres: what evaluating an expression on the implementation gave
type nres struct {
	kind string // name | nil (a nil TypedName: Child of an unqualified name, Parent of a simple name) | notrel | err (reported error) | fault
	tn   px.TypedName
	msg  string
}

const runtimeAuthority = string(px.RuntimeNameAuthority)

func isNilName(t px.TypedName) bool {
	return t == nil || (reflect.ValueOf(t).Kind() == reflect.Ptr && reflect.ValueOf(t).IsNil())
}

// eval runs the expression on the implementation.  A nil, an error or a fault of an operand is the result.
func (e *NX) eval(c px.Context) (r nres) {
	sub := func(x *NX) (px.TypedName, *nres) {
		s := x.eval(c)
		if s.kind != "name" {
			return nil, &s
		}
		return s.tn, nil
	}
	var out px.TypedName
	notRel := false
	var bad *nres
	fault, err := guarded(func() {
		switch e.Op {
		case "new":
			switch e.Via {
			case "pnew":
				args := []px.Value{types.WrapString(string(e.N)), types.WrapString(string(e.S))}
				if string(e.A) != runtimeAuthority {
					args = append(args, types.WrapURI2(string(e.A)))
				}
				out = px.New(c, types.TypedNameMetaType, args...).(px.TypedName)
			case "hnew":
				es := []*types.HashEntry{types.WrapHashEntry2("namespace", types.WrapString(string(e.N))), types.WrapHashEntry2("name", types.WrapString(string(e.S)))}
				if string(e.A) != runtimeAuthority {
					es = append(es, types.WrapHashEntry2("authority", types.WrapURI2(string(e.A))))
				}
				out = px.New(c, types.TypedNameMetaType, types.WrapHash(es)).(px.TypedName)
			default:
				if string(e.A) == runtimeAuthority {
					out = px.NewTypedName(px.Namespace(e.N), string(e.S))
				} else {
					out = px.NewTypedName2(px.Namespace(e.N), string(e.S), px.URI(e.A))
				}
			}
		case "key":
			out = px.TypedNameFromMapKey(string(e.S))
		case "child", "parent":
			var x px.TypedName
			if x, bad = sub(e.X); bad != nil {
				return
			}
			if e.Via == "attr" {
				v, _ := x.Get(e.Op)
				if tn, ok := v.(px.TypedName); ok {
					out = tn
				}
			} else if e.Op == "child" {
				out = x.Child()
			} else {
				out = x.Parent()
			}
		case "rel":
			var x, p px.TypedName
			if x, bad = sub(e.X); bad != nil {
				return
			}
			if p, bad = sub(e.P); bad != nil {
				return
			}
			var ok bool
			out, ok = x.RelativeTo(p)
			notRel = !ok
		default:
			panic("bad name expression " + e.Op)
		}
	})
	switch {
	case fault != "":
		return nres{kind: "fault", msg: fault}
	case err != "":
		return nres{kind: "err", msg: err}
	case bad != nil:
		return *bad
	case notRel:
		return nres{kind: "notrel"}
	case isNilName(out):
		return nres{kind: "nil"}
	}
	return nres{kind: "name", tn: out}
}

// gallina term of an observation: nobs of coq/Corr/CorrC07.v
func (r nres) gallina() string {
	switch r.kind {
	case "name":
		return fmt.Sprintf("(OName %s %s %s %s)", lib.GStr(string(r.tn.Namespace())), gS(string(r.tn.Authority())), lib.GStr(r.tn.Name()), gS(r.tn.MapKey()))
	case "nil":
		return "ONil"
	case "notrel":
		return "ONotRel"
	case "err":
		return "OErr"
	}
	return "OFault"
}

func (r nres) String() string {
	if r.kind == "name" {
		return fmt.Sprintf("TypedName(namespace %q, authority %q, name %q; MapKey %q)", string(r.tn.Namespace()), string(r.tn.Authority()), r.tn.Name(), r.tn.MapKey())
	}
	return r.kind + " " + r.msg
}

// ---------------------------------------------------------------- descriptions

func vTName(ns, auth, name string) *V { return &V{K: "TName", N: Str(ns), A: Str(auth), S: Str(name)} }
func vDeferred(name string, args ...*V) *V {
	return &V{K: "Deferred", S: Str(name), Vs: args}
}

// vRObj: an instance of the reflected Go struct c07R (second = false) or c07S (a second struct type with the same
// fields); fields A int64, B string, C []string
func vRObj(second bool, a int64, b string, cs ...string) *V {
	r := &V{K: "RObj", B: second, I: a, S: Str(b)}
	for _, s := range cs {
		r.Vs = append(r.Vs, vStr(s))
	}
	return r
}

// the leading and trailing segments that the routes add and strip: of different lengths, so that an offset
// taken from the wrong segment is a different number
const pad1, pad2, pad3, tail1, tail2 = "Aa", "Bbbb", "C", "Zz", "Yyy"

var nameRoutes = []string{"pnew", "hnew", "lead-sep", "mapkey", "child", "child2", "parent", "parent2", "rel1", "rel2", "rel3", "rel2-case", "rel2-long",
	"child-parent", "parent-child", "rel2-parent", "parent-rel2", "key-child", "rel-key-parent", "attr-child", "attr-parent"}
var deferredRoutes = []string{"pnew", "hnew"}
var robjRoutes = []string{"pnew"}

var allowedSegment = regexp.MustCompile(`\A[A-Za-z][0-9A-Z_a-z]*\z`)

// validName: Parts() accepts the name (RelativeTo asks for the parts of both names)
func validName(name string) bool {
	for _, p := range strings.Split(strings.ToLower(name), "::") {
		if !allowedSegment.MatchString(p) {
			return false
		}
	}
	return true
}

// nameExpr: the construction expression of the route; nil when the route cannot make exactly this name
func (v *V) nameExpr() *NX {
	ns, auth, name := string(v.N), string(v.A), string(v.S)
	if strings.HasPrefix(name, "::") {
		return nil // newTypedName2 trims a leading ::
	}
	mk := func(n string) *NX { return nxNew(ns, auth, n) }
	keyOK := !strings.Contains(name, "/") && !strings.Contains(ns, "/") && auth != "" && ns != ""
	key := func(n string) *NX { return nxKey(auth + "/" + ns + "/" + n) }
	tailOK := !strings.HasSuffix(name, ":")
	rel := validName(name)
	p2 := pad1 + "::" + pad2
	switch v.R {
	case "":
		return mk(name)
	case "pnew", "hnew":
		e := mk(name)
		e.Via = v.R
		return e
	case "lead-sep":
		// the constructor trims one leading separator
		return mk("::" + name)
	case "mapkey":
		if keyOK {
			return key(name)
		}
	case "child":
		return nxChild(mk(pad1 + "::" + name))
	case "attr-child":
		e := nxChild(mk(pad2 + "::" + name))
		e.Via = "attr"
		return e
	case "child2":
		return nxChild(nxChild(mk(p2 + "::" + name)))
	case "parent":
		if tailOK {
			return nxParent(mk(name + "::" + tail1))
		}
	case "attr-parent":
		if tailOK {
			e := nxParent(mk(name + "::" + tail2))
			e.Via = "attr"
			return e
		}
	case "parent2":
		if tailOK {
			return nxParent(nxParent(mk(name + "::" + tail1 + "::" + tail2)))
		}
	case "rel1":
		if rel {
			return nxRel(mk(pad1+"::"+name), mk(pad1))
		}
	case "rel2":
		if rel {
			return nxRel(mk(p2+"::"+name), mk(p2))
		}
	case "rel3":
		if rel {
			return nxRel(mk(p2+"::"+pad3+"::"+name), mk(p2+"::"+pad3))
		}
	case "rel2-case":
		// the parts are compared in lower case
		if rel {
			return nxRel(mk("aA::BBbb::"+name), mk("Aa::bbbb"))
		}
	case "rel2-long":
		if rel {
			return nxRel(mk("Alpha::B::"+name), mk("Alpha::B"))
		}
	case "child-parent":
		if tailOK {
			return nxParent(nxChild(mk(pad1 + "::" + name + "::" + tail1)))
		}
	case "parent-child":
		if tailOK {
			return nxChild(nxParent(mk(pad1 + "::" + name + "::" + tail1)))
		}
	case "rel2-parent":
		if rel && tailOK {
			return nxParent(nxRel(mk(p2+"::"+name+"::"+tail1), mk(p2)))
		}
	case "parent-rel2":
		if rel && tailOK {
			return nxRel(nxParent(mk(p2+"::"+name+"::"+tail1)), mk(p2))
		}
	case "key-child":
		if keyOK {
			return nxChild(key(pad1 + "::" + name))
		}
	case "rel-key-parent":
		if rel && keyOK {
			return nxRel(mk(p2+"::"+name), nxParent(key(p2+"::"+tail1)))
		}
	}
	return nil
}

type c07R struct {
	A int64
	B string
	C []string
}

type c07S struct {
	A int64
	B string
	C []string
}

var reflectedTypes = map[bool]px.ObjectType{}

// reflectedType derives and registers the Object type of the Go struct once per run
func reflectedType(c px.Context, second bool) px.ObjectType {
	if t, ok := reflectedTypes[second]; ok {
		return t
	}
	var t px.ObjectType
	if second {
		t = c.Reflector().TypeFromReflect("C07::S", nil, reflect.TypeOf(&c07S{}))
	} else {
		t = c.Reflector().TypeFromReflect("C07::R", nil, reflect.TypeOf(&c07R{}))
	}
	px.AddTypes(c, t)
	reflectedTypes[second] = t
	return t
}

// buildNamed builds the kinds of this file
func (v *V) buildNamed(c px.Context) px.Value {
	switch v.K {
	case "TName":
		e := v.nameExpr()
		if e == nil {
			panic("route " + v.R + " cannot make " + v.String())
		}
		r := e.eval(c)
		switch r.kind {
		case "name":
			if r.tn.Name() != string(v.S) || string(r.tn.Namespace()) != string(v.N) || string(r.tn.Authority()) != string(v.A) {
				// the harness' own mistake: the route does not lead to the described visible parts
				panic(px.Error(px.Failure, nil))
			}
			return r.tn
		case "fault":
			var m map[string]int
			m[r.msg] = 1 // re-raise as a runtime fault: the constructor escapes with a fault
		}
		panic("route " + v.R + " of " + v.String() + ": " + r.kind + " " + r.msg)
	case "Deferred":
		args := make([]px.Value, len(v.Vs))
		for i, a := range v.Vs {
			args[i] = a.build(c)
		}
		switch v.R {
		case "pnew":
			return px.New(c, types.DeferredMetaType, types.WrapString(string(v.S)), types.WrapValues(args))
		case "hnew":
			return px.New(c, types.DeferredMetaType, types.WrapHash([]*types.HashEntry{
				types.WrapHashEntry2("name", types.WrapString(string(v.S))), types.WrapHashEntry2("arguments", types.WrapValues(args))}))
		}
		return types.NewDeferred(string(v.S), args...)
	case "RObj":
		cs := make([]string, len(v.Vs))
		es := make([]px.Value, len(v.Vs))
		for i, s := range v.Vs {
			cs[i] = string(s.S)
			es[i] = types.WrapString(cs[i])
		}
		t := reflectedType(c, v.B)
		if v.R == "pnew" {
			return px.New(c, t, types.WrapInteger(v.I), types.WrapString(string(v.S)), types.WrapValues(es))
		}
		if v.B {
			return px.Wrap(c, &c07S{v.I, string(v.S), cs})
		}
		return px.Wrap(c, &c07R{v.I, string(v.S), cs})
	}
	panic("bad value description " + v.K)
}

// ---------------------------------------------------------------- G

const otherAuthority = "http://example.com/Auth"

// namedFamily: typed names whose lower case forms are suffixes / prefixes of one another (so that a canonical
// form cut at a wrong offset is the canonical form of another name of the pool), in two namespaces and under two
// authorities, names with letters whose lower case form has another length, each by every route; the same
// inside arrays, entries and as hash values; Deferred values and reflected objects.
func namedFamily(thorough bool) []*V {
	var r []*V
	full := []string{"C::D", "B::C::D", "D", "A::B::C", "a::b"}
	some := []string{"A", "a", "B::C", "A::B", "Bbbb::C::D", "Aa::C::D", "C::D::Zz", "c::d", "A::B::C::D", "Ab", "x_1::Y2", "", "C", "Zz", "bbbb::D",
		// outside ASCII: the Kelvin sign and the dotted capital I are shorter in lower case, U+023A is longer
		"K::B", "B::K", "İ::B", "Ⱥ::B", "k::B", "É::B", "é::b", "a/b", "A::::B", "A:", "A::B:"}
	add := func(ns, auth, name string, routes []string) {
		d := vTName(ns, auth, name)
		r = append(r, d)
		for _, rt := range routes {
			r = append(r, d.withRoute(rt))
		}
	}
	for _, n := range full {
		add("type", runtimeAuthority, n, nameRoutes)
	}
	for i, n := range some {
		rs := nameRoutes
		if !thorough {
			rs = []string{nameRoutes[i%len(nameRoutes)], nameRoutes[(i+3)%len(nameRoutes)], nameRoutes[(i+9)%len(nameRoutes)], "child", "parent", "rel2", "mapkey"}
		}
		add("type", runtimeAuthority, n, rs)
	}
	few := []string{"mapkey", "child2", "parent", "rel2", "rel3", "hnew", "pnew"}
	for _, n := range []string{"C::D", "D", "B::C::D"} {
		add("function", runtimeAuthority, n, few)
		add("type", otherAuthority, n, few)
		add("Type", "http://K.example.com/a", n, few)
	}
	// inside containers
	for _, rt := range []string{"", "rel2", "rel3", "child2", "parent", "mapkey"} {
		for _, n := range []string{"C::D", "B::C::D"} {
			d := vTName("type", runtimeAuthority, n).withRoute(rt)
			r = append(r, vArr(d), vHash(vStr("a"), d), vEntry(vInt(1), d), vArr(vInt(1), vArr(d)), vDeferred("f", d))
		}
	}
	// Deferred
	one, a := vInt(1), vStr("a")
	for _, d := range []*V{vDeferred("f"), vDeferred("g"), vDeferred("f", one), vDeferred("f", one, a), vDeferred("f", a, one), vDeferred("$x"), vDeferred("f", vArr(one)),
		vDeferred("f", vHash(a, one, vStr("b"), vInt(2))), vDeferred("f", vHash(vStr("b"), vInt(2), a, one)), vDeferred("f", vDeferred("g", one)), vDeferred("f", vDeferred("g", vInt(2))), vDeferred("F")} {
		r = append(r, d)
		for _, rt := range deferredRoutes {
			r = append(r, d.withRoute(rt))
		}
	}
	r = append(r, vArr(vDeferred("f", one)), vArr(vDeferred("f", one).withRoute("hnew")), vHash(a, vDeferred("f")), vHash(a, vDeferred("f").withRoute("pnew")))
	// reflected Go structs
	for _, second := range []bool{false, true} {
		for _, d := range []*V{vRObj(second, 1, "a"), vRObj(second, 1, "a", "x"), vRObj(second, 2, "a"), vRObj(second, 1, "b"), vRObj(second, 1, "a", "x", "y"), vRObj(second, 1, "a", "y", "x"), vRObj(second, 0, "")} {
			r = append(r, d, d.withRoute("pnew"))
		}
	}
	r = append(r, vArr(vRObj(false, 1, "a")), vArr(vRObj(false, 1, "a").withRoute("pnew")), vHash(a, vRObj(false, 1, "a", "x")), vHash(a, vRObj(false, 1, "a", "x").withRoute("pnew")))
	return r
}

// typeSetTexts: TypeSets as type values, declared twice / with the entries in another order
func typeSetTexts() []string {
	return []string{
		"TypeSet[{pcore_version => '1.0.0', version => '1.0.0', name => 'C07::Ts1', types => {A => Integer, B => String}}]",
		"TypeSet[{pcore_version => '1.0.0', version => '1.0.0', name => 'C07::Ts1', types => {A => Integer, B => String}}]",
		"TypeSet[{version => '1.0.0', pcore_version => '1.0.0', name => 'C07::Ts1', types => {B => String, A => Integer}}]",
		"TypeSet[{pcore_version => '1.0.0', version => '1.0.1', name => 'C07::Ts1', types => {A => Integer, B => String}}]",
		"TypeSet[{pcore_version => '1.0.0', version => '1.0.0', name => 'C07::Ts2', types => {A => Integer, B => String}}]",
		"TypeSet[{pcore_version => '1.0.0', version => '1.0.0', name => 'C07::Ts1', types => {A => Integer}}]",
	}
}

// ---------------------------------------------------------------- D: the answer does not depend on the route

// routeIndependence: a description denotes one value; two pool values built from the same description by
// different construction routes differ in hidden state only (cached canonical forms, indexes, locations, ...), so
// every Equals question must get the same answer for both, whichever operand they are.
func (ck *checker) routeIndependence() {
	items := ck.p.items
	groups := map[string][]int{}
	var order []string
	for i, it := range items {
		if !it.d.hasRoute() || it.d.any(func(x *V) bool { return x.isRawFromArray() }, func(*T) bool { return false }) {
			continue
		}
		k := unrouted(it.d).String()
		if _, ok := groups[k]; !ok {
			order = append(order, k)
		}
		groups[k] = append(groups[k], i)
	}
	for i, it := range items {
		if it.d.hasRoute() {
			continue
		}
		if _, ok := groups[it.text]; ok {
			groups[it.text] = append([]int{i}, groups[it.text]...)
		}
	}
	n := 0
	for _, k := range order {
		g := groups[k]
		if len(g) < 2 {
			continue
		}
		i := g[0]
		for _, j := range g[1:] {
			n++
			ck.res.Evaluations++
			reported := false
			for z := range items {
				if reported {
					break
				}
				if ck.eq[i].get(z) != ck.eq[j].get(z) {
					ck.violate("hidden-state", fmt.Sprintf("%s and %s have the same visible parts (one description, two construction routes) but x.Equals(%s) is %v for the first and %v for the second",
						items[i].d, items[j].d, items[z].d, ck.eq[i].get(z), ck.eq[j].get(z)), items[i].d, items[j].d, items[z].d)
					reported = true
				} else if ck.eq[z].get(i) != ck.eq[z].get(j) {
					ck.violate("hidden-state", fmt.Sprintf("%s and %s have the same visible parts (one description, two construction routes) but %s.Equals(x) is %v for the first and %v for the second",
						items[i].d, items[j].d, items[z].d, ck.eq[z].get(i), ck.eq[z].get(j)), items[i].d, items[j].d, items[z].d)
					reported = true
				}
			}
			if items[i].keyOK != items[j].keyOK || items[i].key != items[j].key {
				ck.violateT("hidden-state", fmt.Sprintf("%s and %s have the same visible parts (one description, two construction routes) but their hash keys differ: %q (%v), %q (%v)",
					items[i].d, items[j].d, items[i].key, items[i].keyOK, items[j].key, items[j].keyOK), kfIdentityKey(items[i].key, items[j].key), items[i].d, items[j].d)
			}
			ck.res.Nontrivial("routes " + items[i].text + " ~ " + items[j].text)
		}
	}
	ck.res.Extra["route_pairs"] = n
}

// ---------------------------------------------------------------- M: cases_names

// nameCases emits, for the typed names of the pool and for a family of expressions that end in nil / not relative /
// a reported error, the construction expressions with the observed results (visible parts and MapKey) and the
// observed Equals answers in both directions: (e1, e2, obs1, obs2, e1.Equals(e2), e2.Equals(e1)).
func (ck *checker) nameCases(cfg *lib.Config, only []*V) lib.CorrFile {
	cf := &lib.CasesFile{Imports: []string{"Model.Base", "Model.KeysNames", "Corr.CorrC07"}, Typ: "name_case",
		Obligations: map[string]string{"names_model": "c07_name_mismatches cases"},
		Prelude:     "Definition rt_auth : list N := " + lib.GStr(runtimeAuthority) + ".\n"}
	c := ck.p.c
	type ent struct {
		e *NX
		d *V
	}
	var es []ent
	seen := map[string]bool{}
	addE := func(e *NX, d *V) {
		if e != nil && !seen[e.String()] {
			seen[e.String()] = true
			es = append(es, ent{e, d})
		}
	}
	for _, e := range nameExprs {
		addE(e, nil)
	}
	if nameExprs == nil {
		for _, it := range ck.p.items {
			if it.d.K == "TName" {
				addE(it.d.nameExpr(), it.d)
			}
		}
		t := func(n string) *NX { return nxNew("type", runtimeAuthority, n) }
		for _, e := range []*NX{
			nxChild(t("A")), nxParent(t("A")), nxChild(nxChild(t("A::B"))), nxParent(nxParent(t("A::B"))), nxChild(nxParent(t("A::B"))),
			nxRel(t("A::B"), t("B")), nxRel(t("A::B"), t("A::B")), nxRel(t("A"), t("A::B")), nxRel(t("A::B::C"), t("a::B")), nxRel(t("A::B"), nxNew("function", runtimeAuthority, "A")),
			nxRel(t("A::b c"), t("A")), nxRel(t("A::B"), t("1")), nxRel(t("K::B"), t("K")), nxRel(t("A::B"), nxChild(t("A"))),
			nxKey("no slash"), nxKey("a/b"), nxKey("/type/x"), nxKey("http://x/y/type/A::B"), nxKey("http://x/y/Type/A::B/C"), nxKey("/"), nxKey(""),
			nxChild(t("A:::B")), nxParent(t("A:::B")), nxChild(t("::A::B")), nxParent(t("A::")), nxChild(t("A::")), nxParent(nxChild(t("K::B::C"))), nxChild(nxChild(t("İ::Ⱥ::C"))),
			nxParent(t("İ::Ⱥ::C")), nxParent(nxNew("Type", "HTTP://K/x", "A::B")), nxChild(nxNew("Tİpe", runtimeAuthority, "A::B")),
		} {
			addE(e, nil)
		}
	}
	rs := make([]nres, len(es))
	for i, e := range es {
		rs[i] = e.e.eval(c)
		ck.res.Count("names.result." + rs[i].kind)
	}
	canon := func(r nres) string {
		if r.kind != "name" {
			return ""
		}
		return strings.ToLower(string(r.tn.Authority()) + "/" + string(r.tn.Namespace()) + "/" + r.tn.Name())
	}
	max := 900
	if cfg.Thorough() {
		max = 5000
	}
	for i := range es {
		for j := range es {
			ci, cj := canon(rs[i]), canon(rs[j])
			near := ci != "" && cj != "" && (ci == cj || strings.HasSuffix(ci, cj[strings.LastIndexByte(cj, '/')+1:]) && len(es) < 400)
			if !(j == i || j == (i+1)%len(es) || j == (i*7+3)%len(es) || near && (i+j)%3 == 0 || nameExprs != nil) {
				continue
			}
			if len(cf.Cases) >= max {
				break
			}
			e1, e2 := "(@None bool)", "(@None bool)"
			if rs[i].kind == "name" && rs[j].kind == "name" {
				var b1, b2 bool
				if f, e := guarded(func() { b1 = rs[i].tn.Equals(rs[j].tn, nil) }); f == "" && e == "" {
					e1 = "(Some " + lib.GBool(b1) + ")"
				}
				if f, e := guarded(func() { b2 = rs[j].tn.Equals(rs[i].tn, nil) }); f == "" && e == "" {
					e2 = "(Some " + lib.GBool(b2) + ")"
				}
				ck.res.Evaluations += 2
			}
			var vs []*V
			for _, d := range []*V{es[i].d, es[j].d} {
				if d != nil {
					vs = append(vs, d)
				}
			}
			cf.Add(fmt.Sprintf("(%s, %s, %s, %s, %s, %s)", es[i].e.gallina(), es[j].e.gallina(), rs[i].gallina(), rs[j].gallina(), e1, e2),
				map[string]interface{}{"kind": "names", "vs": vs, "exprs": []*NX{es[i].e, es[j].e}})
			if len(cf.Cases)%200 == 1 {
				ck.res.Sample(map[string]interface{}{"name_expr": es[i].e.String(), "result": rs[i].String(), "other": es[j].e.String(), "equals": e1})
			}
		}
	}
	return cf.WriteTo(cfg.Out, "cases_names")
}
