// c07: equality is an equivalence relation and hash keys respect it.
//
// G: a pool of values built for collisions, every container/Timestamp/Binary/Regexp also made by other
// construction routes (pool.go, routes.go), and hashes made from arrays that repeat keys (fromarray.go).
// D: the laws checked directly on the implementation on all pairs and triples of the pool, hash lookup and
// Unique against the equality-based reference, every Hash against its own entries, every container against
// the values derived from it (direct.go), Equals and ToKey of pairs in every state of the lazily cached inferred
// types (caches.go).  M: the observed answers in those cache states with the observed content of the caches, the observed hash keys, the observed Equals answers of all
// ordered pairs, lookups and Unique results, and the entries / lookups / Equals answers of the hashes made
// from arrays (pre-built key index) as Gallina terms for coq/Corr/CorrC07.v.
package main

import (
	"encoding/json"
	"fmt"
	"os"

	"github.com/lyraproj/pcore/pcore"
	"github.com/lyraproj/pcore/px"
	"verifharness/lib"
)

func main() {
	cfg := lib.ParseFlags()
	res := lib.NewResult("C07")
	res.Rule = "a pair of pool values is non-trivial when the two values are built from different descriptions and are equal or of the same " +
		"top-level kind (so that the comparison goes into the structure); a lookup is non-trivial when the hash holds a key equal to the probe; " +
		"a Unique input is non-trivial when it holds two equal values; a pool hash made by a construction route other than WrapHash is a non-trivial own-entries case; " +
		"a cache-state pair is non-trivial when the two values are equal and built from different descriptions (the same entries in another insertion order); " +
		"a from-array case is non-trivial when the array repeats a key, each of its probes that is found is a non-trivial lookup; " +
		"a URI-model pair is non-trivial when the two URI types are equal and built from different descriptions or routes; distinct = distinct description texts"
	pcore.Do(func(c px.Context) {
		if cfg.Replay != "" {
			replay(c, cfg, res)
		} else {
			p := buildPool(c, cfg, res, lib.NewRng(cfg.Seed))
			run(p, cfg, res, lib.NewRng(cfg.Seed+7919), nil, fromArrayFamily(lib.NewRng(cfg.Seed+104729), cfg.Thorough()))
		}
	})
	res.Write(cfg)
}

// nameOnly / nameExprs: set by the replay of a names correspondence case
var nameOnly []*V
var nameExprs []*NX

var imports = []string{"Model.Base", "Model.Keys", "Corr.CorrC07"}

func gKey(k string, ok bool) string { return lib.GOpt(ok, lib.GStr(k), "list N") }

// run performs D on the pool and emits the cases for M. only != nil restricts the emitted value
// rows to the descriptions with these texts (replay of a correspondence case).
// fa are the from-array descriptions (fromarray.go).
func run(p *pool, cfg *lib.Config, res *lib.Result, rng *lib.Rng, only map[string]bool, fa []*V) {
	ck := &checker{p: p, res: res, viol: map[string]int{}}
	ck.keys()
	ck.pairs()
	ck.routeIndependence()
	ck.ownEntriesOfPool()
	ck.derivedOfPool()
	caches := ck.cacheMatrix(cfg)
	cfa := &lib.CasesFile{Imports: imports, Typ: "from_array_case",
		Obligations: map[string]string{"from_array_model": "c07_from_array_mismatches cases"}}
	ck.fromArrays(fa, cfa)
	nHashes, nUnique := 120, 400
	if cfg.Thorough() {
		nHashes, nUnique = 600, 4000
	}
	if len(p.items) < 50 {
		nHashes, nUnique = 20, 40
	}
	gets := ck.lookups(rng, nHashes)
	uniqs := ck.uniques(rng, nUnique)
	res.Extra["pool_size"] = len(p.items)
	res.Extra["violations_per_clause"] = ck.viol
	eqPairs := 0
	for i := range ck.eq {
		for j := range p.items {
			if i != j && ck.eq[i].get(j) {
				eqPairs++
			}
		}
	}
	res.Extra["equal_pairs_of_distinct_pool_entries"] = eqPairs

	// ---- M: the model fragment of the pool; rows = Equals answers against that fragment
	var mi []int
	for i, it := range p.items {
		if it.d.inModel() {
			mi = append(mi, i)
		}
	}
	res.Extra["pool_in_model"] = len(mi)
	terms := make([]string, len(mi))
	for k, i := range mi {
		terms[k] = p.items[i].d.gallina()
	}
	prelude := "Definition pool : list value :=\n " + lib.GList(terms, "value") + ".\n"
	shards := 6
	if len(mi) < 200 {
		shards = 1
	}
	// the cases on which D failed are always part of the Coq files: all rows are (the pool is complete)
	for s := 0; s < shards; s++ {
		cf := &lib.CasesFile{Imports: imports, Typ: "nat * option (list N) * list N", Prelude: prelude,
			Obligations: map[string]string{"values_model": "c07_value_mismatches pool cases"}}
		for k, i := range mi {
			it := p.items[i]
			if k%shards != s || (only != nil && !only[it.text]) {
				continue
			}
			var row []string
			for k2, j := range mi {
				if ck.eq[i].get(j) {
					row = append(row, lib.GN(uint64(k2)))
				}
			}
			cf.Add(fmt.Sprintf("(%s, %s, %s)", lib.GNat(k), gKey(it.key, it.keyOK), lib.GList(row, "N")),
				map[string]interface{}{"kind": "row", "vs": []*V{it.d}})
			if k%97 == 3 {
				res.Sample(map[string]interface{}{"value": it.text, "key": fmt.Sprintf("%q", it.key), "equal_to": equalTexts(p, ck, i)})
			}
		}
		res.CorrFiles = append(res.CorrFiles, cf.WriteTo(cfg.Out, fmt.Sprintf("cases_values_%d", s)))
	}
	cg := &lib.CasesFile{Imports: imports, Typ: "value * value * option Z",
		Obligations: map[string]string{"get_model": "c07_get_mismatches cases"}}
	step := len(gets)/1500 + 1
	for i, g := range gets {
		if i%step != 0 && !(g.found && i%2 == 0) {
			continue
		}
		if len(cg.Cases) >= 2500 {
			break
		}
		cg.Add(fmt.Sprintf("(%s, %s, %s)", g.h.gallina(), g.probe.gallina(), lib.GOpt(g.found, lib.GZ(g.val), "Z")),
			map[string]interface{}{"kind": "values", "clause": "hash-get", "vs": []*V{g.h, g.probe}})
	}
	res.CorrFiles = append(res.CorrFiles, cg.WriteTo(cfg.Out, "cases_get"))
	cu := &lib.CasesFile{Imports: imports, Typ: "list value * list (list N)",
		Obligations: map[string]string{"unique_model": "c07_unique_mismatches cases"}}
	for i, u := range uniqs {
		if i >= 600 && !cfg.Thorough() || i >= 3000 {
			break
		}
		vs := make([]string, len(u.list))
		for j, d := range u.list {
			vs[j] = d.gallina()
		}
		ks := make([]string, len(u.keys))
		for j, k := range u.keys {
			ks[j] = lib.GStr(k)
		}
		cu.Add(fmt.Sprintf("(%s, %s)", lib.GList(vs, "value"), lib.GList(ks, "list N")),
			map[string]interface{}{"kind": "values", "clause": "unique", "vs": u.list})
	}
	res.CorrFiles = append(res.CorrFiles, cu.WriteTo(cfg.Out, "cases_unique"))
	res.CorrFiles = append(res.CorrFiles, cfa.WriteTo(cfg.Out, "cases_from_array"))
	res.CorrFiles = append(res.CorrFiles, caches)
	res.CorrFiles = append(res.CorrFiles, ck.nameCases(cfg, nameOnly))
	res.CorrFiles = append(res.CorrFiles, ck.uriCases(cfg))
	res.CorrFiles = append(res.CorrFiles, ck.richCases(cfg))
}

func equalTexts(p *pool, ck *checker, i int) []string {
	r := []string{}
	for j, y := range p.items {
		if j != i && ck.eq[i].get(j) && len(r) < 4 {
			r = append(r, y.text)
		}
	}
	return r
}

// replay re-runs the recorded values: a failing-input replay holds the values of the counter-example,
// which become the whole pool (all clauses are evaluated on it, a hash is built from them, Unique is
// applied to them); a correspondence replay (kind "row") names one value, whose row is recomputed
// against the regenerated pool of the recorded seed and tier.
func replay(c px.Context, cfg *lib.Config, res *lib.Result) {
	var body struct {
		Seed uint64 `json:"seed"`
		Tier string `json:"tier"`
	}
	if b, err := os.ReadFile(cfg.Replay); err == nil {
		_ = json.Unmarshal(b, &body)
	}
	rc := *cfg
	if body.Tier != "" {
		rc.Tier = body.Tier
	}
	seed := cfg.Seed
	if body.Seed != 0 {
		seed = body.Seed
	}
	var rows, vals, fa []*V
	for _, in := range lib.ReplayInputs(cfg.Replay) {
		var x struct {
			Kind  string `json:"kind"`
			Vs    []*V   `json:"vs"`
			Exprs []*NX  `json:"exprs"`
		}
		lib.Remarshal(in, &x)
		switch x.Kind {
		case "names":
			// a names correspondence case: the two construction expressions
			nameExprs = append(nameExprs, x.Exprs...)
			nameOnly = append(nameOnly, x.Vs...)
			vals = append(vals, x.Vs...)
			for _, e := range x.Exprs {
				fmt.Printf("names case: %s evaluates to %s\n", e, e.eval(c))
			}
		case "row":
			rows = append(rows, x.Vs...)
		case "fromarray":
			// a from-array correspondence case: the description of the hash by the array it is made from
			fa = append(fa, x.Vs...)
			for _, d := range x.Vs {
				fmt.Printf("from-array case: %s: its entries, Get/IncludesKey of the keys of the array, Equals against directly wrapped hashes\n", d)
			}
		default:
			vals = append(vals, x.Vs...)
			// a failing input that is a hash described by its array is also run as a from-array case
			for _, d := range x.Vs {
				if d.isRawFromArray() {
					fa = append(fa, d)
				}
			}
		}
	}
	p := &pool{seen: map[string]bool{}, c: c, res: res}
	var only map[string]bool
	if len(rows) > 0 {
		p = buildPool(c, &rc, res, lib.NewRng(seed))
		only = map[string]bool{}
		for _, d := range rows {
			only[d.String()] = true
			fmt.Printf("correspondence case: the hash key of %s and its Equals answers against the pool of seed %d (%d values)\n", d, seed, len(p.items))
		}
	}
	first := len(p.items)
	for _, d := range vals {
		if p.add(d, "twice") == nil {
			fmt.Printf("cannot build %s\n", d)
		}
	}
	run(p, &rc, res, lib.NewRng(seed+7919), only, fa)
	quiet := &checker{p: p, res: lib.NewResult("C07"), viol: map[string]int{}}
	for i, it := range p.items {
		if i >= first || only[it.text] {
			fmt.Printf("  v%d = %s\n       ToKey = %q (has a key: %v)\n", i, it.d, it.key, it.keyOK)
		}
	}
	for i := first; i < len(p.items); i++ {
		for j := first; j < len(p.items); j++ {
			xi, yj := p.items[i], p.items[j]
			fmt.Printf("  v%d.Equals(v%d) = %v\n", i, j, quiet.equals(xi.a, yj.a, xi.d, yj.d, "replay"))
		}
	}
	if len(res.Violations) == 0 {
		fmt.Println("the implementation satisfies every clause on these values")
	}
	for _, v := range res.Violations {
		fmt.Printf("FAILS [%s]: %s\n", v.Clause, v.What)
	}
}
