package main

// Hidden state "lazily cached inferred types".  An Array and a Hash keep two caches next to their elements:
// reducedType (filled by PType) and detailedType (filled by px.DetailedValueType), types/arraytype.go:23,
// types/hashtype.go:32.  The caches are filled as a side effect of read-only questions - about the value itself
// or about something that holds it (the type of an enclosing array or hash, a reported mismatch) - and the
// inferred type of a Hash depends on the insertion order of its entries (commonType is folded over the entries:
// Integer, Float, String gives Scalar; Integer, String, Float gives ScalarData) while its equality and its hash
// key do not.  So the input class is: pairs of values (equal ones above all: the same entries inserted in a
// different order, at the top and nested) x the way the caches are filled x which operand has them filled
// (neither / receiver / argument / both).
//
// G: permFamily (bounded exhaustive: every insertion order of hashes whose keys / values are of kinds whose
// common type depends on the order, nested in arrays, entries, hash keys and hash values) and permuted copies
// of the random values (pool.go).
// D (clause hidden-state): Equals and ToKey in every cache state give the answer of the fresh copies.
// M: the observed answers together with the observed content of the caches of every node (read from the
// unexported fields) as terms of coq/Model/KeysCache.v (`cval`), compared with `cveq` / `ckey`.

import (
	"fmt"
	"reflect"
	"unsafe"

	"github.com/lyraproj/pcore/px"
	"github.com/lyraproj/pcore/types"
	"verifharness/lib"
)

// ---------------------------------------------------------------- G

func permutations(n int) [][]int {
	if n == 0 {
		return [][]int{{}}
	}
	var r [][]int
	for _, p := range permutations(n - 1) {
		for pos := 0; pos <= len(p); pos++ {
			q := make([]int, 0, n)
			q = append(q, p[:pos]...)
			q = append(q, n-1)
			q = append(q, p[pos:]...)
			r = append(r, q)
		}
	}
	return r
}

func hashOfPerm(ks, vs []*V, perm []int) *V {
	h := &V{K: "Hash"}
	for _, i := range perm {
		h.Vs = append(h.Vs, ks[i], vs[i])
	}
	return h
}

// permFamily: hashes with the same entries in every insertion order (2 and 3 entries: all orders, 4 entries:
// eight orders); the keys or the values or both are of several kinds, so that the type inferred for the hash
// depends on the order; each also nested: in an array, as the value / the key of a hash entry, in a hash entry
// value, two levels deep, and as the values of an outer hash whose own order is permuted too.
func permFamily() []*V {
	a, b, c, d4 := vStr("a"), vStr("b"), vStr("c"), vStr("d")
	names := []*V{a, b, c, d4}
	mixed := [][]*V{
		{vInt(1), vFloat(2.5), vStr("x")},
		{vInt(1), vStr("x"), vBool(true)},
		{vInt(1), vUndef(), vStr("x")},
		{vArr(vInt(1)), vStr("x"), vFloat(2.5)},
		{vRegexp("a"), vInt(1), vStr("x")},
		{vType(tInt(1, 5)), vInt(1), vStr("x")},
		{vTimestamp(0, 0), vInt(1), vFloat(0.5)},
		{vBinary("a"), vStr("x"), vInt(1)},
		{vHash(a, vInt(1)), vInt(1), vStr("x")},
		{vInt(1), vInt(2), vInt(3)}, // one kind: the control
	}
	var r []*V
	p3 := permutations(3)
	wrap := func(h *V) []*V {
		k := vStr("k")
		return []*V{vArr(h), vArr(vInt(0), h), vHash(k, h), vHash(h, vInt(1)), vEntry(k, h), vEntry(h, k), vHash(vStr("o"), vHash(vStr("i"), h)), vArr(vArr(h))}
	}
	for si, vs := range mixed {
		for _, perm := range p3 {
			h := hashOfPerm(names, vs, perm)
			r = append(r, h)
			if si < 2 {
				r = append(r, wrap(h)...)
			}
			// keys of several kinds
			if si < 5 {
				r = append(r, hashOfPerm(vs, []*V{a, a, a}, perm))
				if si < 2 {
					r = append(r, hashOfPerm(vs, []*V{vs[1], vs[2], vs[0]}, perm))
				}
			}
		}
	}
	// different values whose inferred types coincide (the type of a Binary and of an Object does not hold the value):
	// a comparison that trusted equal cached types would call them equal
	one := vInt(1)
	r = append(r, vHash(a, vBinary("a")), vHash(a, vBinary("b")), vArr(vBinary("a"), one), vArr(vBinary("b"), one), vHash(vBinary("a"), one, b, one), vHash(vBinary("b"), one, b, one),
		vHash(a, vBinary("a"), b, one), vHash(b, one, a, vBinary("b")), vArr(vHash(a, vBinary("a"))), vArr(vHash(a, vBinary("b"))),
		vHash(a, vObject("P", one, vInt(3))), vHash(a, vObject("P", one, vInt(4))), vArr(vObject("P", one, vInt(3)), one), vArr(vObject("P", one, vInt(4)), one),
		vHash(a, vSensitive(one)), vHash(a, vSensitive(vInt(2))))
	// two entries, both orders
	for _, vs := range [][]*V{{vInt(1), vStr("x")}, {vInt(1), vFloat(2.5)}, {vUndef(), vStr("x")}, {vArr(), vArr(vInt(1))}} {
		r = append(r, vHash(a, vs[0], b, vs[1]), vHash(b, vs[1], a, vs[0]), vHash(vs[0], a, vs[1], b), vHash(vs[1], b, vs[0], a))
	}
	// four entries
	v4 := []*V{vInt(1), vFloat(2.5), vStr("x"), vBool(true)}
	for i, perm := range permutations(4) {
		if i%3 == 0 {
			r = append(r, hashOfPerm(names, v4, perm))
		}
	}
	// an outer hash of two inner hashes: every combination of inner orders and both outer orders
	in1 := []*V{hashOfPerm(names, mixed[0], p3[0]), hashOfPerm(names, mixed[0], p3[1]), hashOfPerm(names, mixed[0], p3[3])}
	in2 := []*V{hashOfPerm(names, mixed[1], p3[0]), hashOfPerm(names, mixed[1], p3[2])}
	for _, x := range in1 {
		for _, y := range in2 {
			r = append(r, vHash(vStr("p"), x, vStr("q"), y), vHash(vStr("q"), y, vStr("p"), x))
		}
	}
	return r
}

// permutedDesc returns the description with the entries of every Hash inside it in another (random) order;
// nil when nothing changes.  The description denotes an equal value.
func permutedDesc(r *lib.Rng, d *V) *V {
	changed := false
	var walk func(d *V) *V
	walk = func(d *V) *V {
		c := *d
		if len(d.Vs) > 0 {
			c.Vs = make([]*V, len(d.Vs))
			for i, e := range d.Vs {
				c.Vs[i] = walk(e)
			}
		}
		if d.K == "Hash" && d.R == "" && len(d.Vs) >= 4 {
			n := len(d.Vs) / 2
			perm := make([]int, n)
			for i := range perm {
				perm[i] = i
			}
			for i := n - 1; i > 0; i-- {
				j := r.Intn(i + 1)
				perm[i], perm[j] = perm[j], perm[i]
			}
			ident := true
			for i, p := range perm {
				ident = ident && i == p
			}
			if ident {
				perm[0], perm[n-1] = perm[n-1], perm[0]
			}
			vs := make([]*V, 0, len(c.Vs))
			for _, p := range perm {
				vs = append(vs, c.Vs[2*p], c.Vs[2*p+1])
			}
			c.Vs = vs
			changed = true
		}
		return &c
	}
	res := walk(d)
	if !changed {
		return nil
	}
	return res
}

// randomMixedHash: 2..5 entries, keys and values drawn from leaves of many kinds
func randomMixedHash(r *lib.Rng, depth int) *V {
	leaves := []*V{vInt(1), vInt(5), vFloat(2.5), vFloat(0), vStr("x"), vStr(""), vBool(true), vUndef(), vDefault(), vRegexp("a"), vBinary("a"),
		vTimespan(1000000000), vTimestamp(1, 0), vArr(), vArr(vInt(1)), vArr(vStr("x"), vInt(1)), vHash(), vType(tN("String")), vType(tInt(1, 5)), vEntry(vStr("a"), vInt(1))}
	n := 2 + r.Intn(4)
	h := &V{K: "Hash"}
	seen := map[string]bool{}
	for len(h.Vs) < 2*n {
		var k *V
		if r.Chance(2, 3) {
			k = vStr([]string{"a", "b", "c", "d", "e", "f"}[r.Intn(6)])
		} else {
			k = leaves[r.Intn(len(leaves))]
		}
		if t := canonText(k); seen[t] {
			continue
		} else {
			seen[t] = true
		}
		v := leaves[r.Intn(len(leaves))]
		if depth > 0 && r.Chance(1, 4) {
			v = randomMixedHash(r, depth-1)
		}
		h.Vs = append(h.Vs, k, v)
	}
	return h
}

// ---------------------------------------------------------------- the ways a cache gets filled

type cacheMode struct {
	name string
	f    func(v px.Value)
}

func partsOf(v px.Value, top bool, f func(px.Value)) {
	switch x := v.(type) {
	case *types.Hash:
		x.EachPair(func(k, e px.Value) { partsOf(k, false, f); partsOf(e, false, f) })
	case *types.Array:
		x.Each(func(e px.Value) { partsOf(e, false, f) })
	case *types.HashEntry:
		partsOf(x.Key(), false, f)
		partsOf(x.Value(), false, f)
	case *types.Sensitive:
		partsOf(x.Unwrap(), false, f)
	}
	if !top {
		f(v)
	}
}

var cacheModes = []cacheMode{
	{"x.PType()", func(v px.Value) { guarded(func() { _ = v.PType() }) }},
	{"px.DetailedValueType(x)", func(v px.Value) { guarded(func() { _ = px.DetailedValueType(v) }) }},
	{"PType(), DetailedValueType, String(), ToKey() of x and of every part of x", force},
	{"the type of an array that holds x: WrapValues([x, x]).PType()", func(v px.Value) {
		guarded(func() { _ = types.WrapValues([]px.Value{v, v}).PType() })
	}},
	{"the types of a hash that has x as key and as value: {x => x}.PType(), DetailedValueType", func(v px.Value) {
		guarded(func() {
			h := types.WrapHash([]*types.HashEntry{types.WrapHashEntry(v, v)})
			_ = h.PType()
			_ = px.DetailedValueType(h)
		})
	}},
	{"a reported mismatch: px.AssertInstance('x', Integer, x)", func(v px.Value) {
		guarded(func() { px.AssertInstance("x", types.DefaultIntegerType(), v) })
	}},
	{"PType() of the parts of x only (not of x)", func(v px.Value) {
		partsOf(v, true, func(p px.Value) { guarded(func() { _ = p.PType() }) })
	}},
}

// ---------------------------------------------------------------- reading the caches (for M)

// cacheOf reads the unexported fields reducedType and detailedType of an *Array / *Hash.  known = false when
// the struct has no such fields (the code was restructured): then no model case is emitted.
func cacheOf(v px.Value) (red, det px.Type, known bool) {
	rv := reflect.ValueOf(v)
	if rv.Kind() != reflect.Ptr || rv.IsNil() || rv.Elem().Kind() != reflect.Struct {
		return nil, nil, false
	}
	e := rv.Elem()
	get := func(name string) (px.Type, bool) {
		f := e.FieldByName(name)
		if !f.IsValid() || !f.CanAddr() {
			return nil, false
		}
		switch f.Kind() {
		case reflect.Ptr, reflect.Interface:
		default:
			return nil, false
		}
		if f.IsNil() {
			return nil, true
		}
		x := reflect.NewAt(f.Type(), unsafe.Pointer(f.UnsafeAddr())).Elem().Interface()
		t, ok := x.(px.Type)
		return t, ok
	}
	var ok1, ok2 bool
	red, ok1 = get("reducedType")
	det, ok2 = get("detailedType")
	return red, det, ok1 && ok2
}

// descOfType translates a pcore type into a description of the model's universe; ok = false: outside it.
// The translation is verified by the caller (the type built from the description must be equal to the original
// and have its hash key), so a wrong reading of an accessor cannot produce a wrong term.
func descOfType(t px.Type) (d *T, ok bool) {
	defer func() {
		if recover() != nil {
			d, ok = nil, false
		}
	}()
	sub := func(x px.Type) *T {
		s, ok := descOfType(x)
		if !ok {
			panic("outside")
		}
		return s
	}
	size := func(s *types.IntegerType) (int64, int64) { return s.Min(), s.Max() }
	switch x := t.(type) {
	case *types.IntegerType:
		return tInt(x.Min(), x.Max()), true
	case *types.FloatType:
		return tFloat(x.Min(), x.Max()), true
	case *types.BooleanType:
		switch x.String() {
		case "Boolean":
			return tBool(-1), true
		case "Boolean[true]":
			return tBool(1), true
		case "Boolean[false]":
			return tBool(0), true
		}
		return nil, false
	case *types.EnumType:
		var ss []string
		for _, p := range x.Parameters() {
			if s, isStr := p.(px.StringValue); isStr {
				ss = append(ss, s.String())
			}
		}
		return tEnum(x.IsCaseInsensitive(), ss...), true
	case *types.RegexpType:
		return tRegexp(x.PatternString()), true
	case *types.ArrayType:
		lo, hi := size(x.Size())
		return tArr(sub(x.ElementType()), lo, hi), true
	case *types.HashType:
		lo, hi := size(x.Size())
		return tHash(sub(x.KeyType()), sub(x.ValueType()), lo, hi), true
	case *types.TupleType:
		ts := make([]*T, len(x.Types()))
		for i, e := range x.Types() {
			ts[i] = sub(e)
		}
		lo, hi := size(x.Size())
		return tTupleSz(lo, hi, ts...), true
	case *types.VariantType:
		ts := make([]*T, len(x.Types()))
		for i, e := range x.Types() {
			ts[i] = sub(e)
		}
		return tVariant(ts...), true
	case *types.OptionalType:
		return tUn("Optional", sub(x.ContainedType())), true
	case *types.NotUndefType:
		return tUn("NotUndef", sub(x.ContainedType())), true
	case *types.TypeType:
		return tUn("Type", sub(x.ContainedType())), true
	case *types.SensitiveType:
		return tUn("Sensitive", sub(x.ContainedType())), true
	case *types.CollectionType:
		lo, hi := size(x.Size())
		return tColl(lo, hi), true
	}
	if t.Name() == "String" {
		if vc, isVc := t.(interface{ Value() *string }); isVc {
			if p := vc.Value(); p != nil {
				return tStrVal(*p), true
			}
		}
		if sc, isSc := t.(interface{ Size() px.Type }); isSc {
			if it, isInt := sc.Size().(*types.IntegerType); isInt {
				if (it.Min() == 0 || it.Min() == minI) && it.Max() == maxI {
					return tN("String"), true
				}
				return tStrSz(it.Min(), it.Max()), true
			}
		}
		return nil, false
	}
	switch n := t.Name(); n {
	case "Any", "Unit", "Undef", "Default", "Numeric", "Scalar", "ScalarData", "Binary":
		if t.String() == n {
			return tN(n), true
		}
	}
	return nil, false
}

type cacheStats struct{ nodes, filled, typed, opaque int }

// cacheTerm: the Gallina term of a cache field: CNil, (CType t), COpaque (a type outside the model's types)
func (ck *checker) cacheTerm(t px.Type, st *cacheStats) string {
	st.nodes++
	if t == nil {
		return "CNil"
	}
	st.filled++
	if d, ok := descOfType(t); ok && d.wellFormed() {
		var back px.Type
		if fault, err := guarded(func() { back = d.build(ck.p.c) }); fault == "" && err == "" && back != nil {
			same := false
			guarded(func() { same = back.Equals(t, nil) && t.Equals(back, nil) && px.ToKey(back) == px.ToKey(t) })
			if same {
				st.typed++
				return "(CType " + d.gallina() + ")"
			}
		}
	}
	st.opaque++
	return "COpaque"
}

// cterm: the value as the object graph has it, every Array and Hash node with the content of its two caches.
// d has no routes (the entries of v are in the order of d).  ok = false: the caches cannot be read.
func (ck *checker) cterm(d *V, v px.Value, st *cacheStats) (s string, ok bool) {
	switch d.K {
	case "Arr":
		a, isA := v.(*types.Array)
		if !isA || a.Len() != len(d.Vs) {
			return "", false
		}
		red, det, known := cacheOf(a)
		if !known {
			return "", false
		}
		es := make([]string, len(d.Vs))
		for i, e := range d.Vs {
			if es[i], ok = ck.cterm(e, a.At(i), st); !ok {
				return "", false
			}
		}
		return fmt.Sprintf("(CArr %s %s %s)", ck.cacheTerm(red, st), ck.cacheTerm(det, st), lib.GList(es, "cval")), true
	case "Hash":
		h, isH := v.(*types.Hash)
		if !isH || h.Len() != len(d.Vs)/2 {
			return "", false
		}
		red, det, known := cacheOf(h)
		if !known {
			return "", false
		}
		es := make([]string, 0, len(d.Vs)/2)
		good := true
		i := 0
		h.EachPair(func(k, e px.Value) {
			ks, ok1 := ck.cterm(d.Vs[2*i], k, st)
			vs, ok2 := ck.cterm(d.Vs[2*i+1], e, st)
			good = good && ok1 && ok2
			es = append(es, lib.GPair(ks, vs))
			i++
		})
		if !good {
			return "", false
		}
		return fmt.Sprintf("(CHash %s %s %s)", ck.cacheTerm(red, st), ck.cacheTerm(det, st), lib.GList(es, "cval * cval")), true
	case "Entry":
		he, isE := v.(*types.HashEntry)
		if !isE {
			return "", false
		}
		ks, ok1 := ck.cterm(d.Vs[0], he.Key(), st)
		vs, ok2 := ck.cterm(d.Vs[1], he.Value(), st)
		return "(CEntry " + ks + " " + vs + ")", ok1 && ok2
	case "Sensitive":
		sv, isS := v.(*types.Sensitive)
		if !isS {
			return "", false
		}
		in, ok1 := ck.cterm(d.Vs[0], sv.Unwrap(), st)
		return "(CSensitive " + in + ")", ok1
	}
	return "(CScalar " + d.gallina() + ")", true
}

// ---------------------------------------------------------------- D and M

func hasCaches(d *V) bool {
	return d.any(func(x *V) bool { return (x.K == "Hash" || x.K == "MutHash" || x.K == "Arr") && len(x.Vs) >= 2 }, func(*T) bool { return false })
}

func hasBigHash(d *V) bool {
	return d.any(func(x *V) bool { return x.K == "Hash" && len(x.Vs) >= 4 }, func(*T) bool { return false })
}

var cacheStateNames = []string{"of the receiver", "of the argument", "of both operands"}

// cacheMatrix: for pairs of pool values that hold arrays / hashes, every way of filling the caches x the
// three states (receiver, argument, both) on two freshly built copies: Equals and ToKey answer what they
// answer on copies whose caches are empty.  Equal pairs first (the families built for it, then the rest),
// then unequal pairs of the same kind, until the budget is used.
func (ck *checker) cacheMatrix(cfg *lib.Config) lib.CorrFile {
	items := ck.p.items
	cf := &lib.CasesFile{Imports: []string{"Model.Base", "Model.Keys", "Model.KeysCache", "Corr.CorrC07"}, Typ: "cache_case",
		Obligations: map[string]string{"caches_model": "c07_cache_mismatches cases"}}
	budget, maxCases := 4500, 500
	if cfg.Thorough() {
		budget, maxCases = 60000, 4000
	}
	var first, rest []int
	for i, it := range items {
		if !hasCaches(it.d) {
			continue
		}
		if hasBigHash(it.d) && !it.d.hasRoute() {
			first = append(first, i)
		} else {
			rest = append(rest, i)
		}
	}
	type pr struct{ i, j int }
	var prs []pr
	seenPair := map[pr]bool{}
	addPairs := func(xs, ys []int, equal bool, limit int) {
		n := 0
		for _, i := range xs {
			for _, j := range ys {
				if n >= limit {
					return
				}
				if ck.eq[i].get(j) != equal || seenPair[pr{i, j}] {
					continue
				}
				if !equal && (items[i].d.K != items[j].d.K || len(items[i].d.Vs) != len(items[j].d.Vs)) {
					continue
				}
				seenPair[pr{i, j}] = true
				prs = append(prs, pr{i, j})
				n++
			}
		}
	}
	addPairs(first, first, true, budget/2)
	addPairs(first, rest, true, budget/8)
	addPairs(rest, first, true, budget/8)
	addPairs(rest, rest, true, budget/8)
	all := append(append([]int{}, first...), rest...)
	// different values whose inferred types (reduced and detailed) coincide: a comparison that trusted the
	// cached types would call them equal
	bySig := map[string][]int{}
	var sigs []string
	for _, i := range all {
		var sig string
		guarded(func() { sig = items[i].b.PType().String() + " | " + px.DetailedValueType(items[i].b).String() })
		if sig == "" {
			continue
		}
		if _, seen := bySig[sig]; !seen {
			sigs = append(sigs, sig)
		}
		bySig[sig] = append(bySig[sig], i)
	}
	nSame := len(prs)
	for _, sig := range sigs {
		if g := bySig[sig]; len(g) > 1 && len(prs)-nSame < budget/6 {
			addPairs(g, g, false, 40)
		}
	}
	ck.res.Extra["cache_matrix_unequal_pairs_with_the_same_inferred_types"] = len(prs) - nSame
	addPairs(first, first, false, budget/8)
	if len(prs) < budget {
		addPairs(all, all, false, budget-len(prs))
	}
	st := &cacheStats{}
	nEval, nPairsEq, nFailed := 0, 0, 0
	stride := len(prs)*len(cacheModes)/maxCases + 1
	for pi, q := range prs {
		x, y := items[q.i], items[q.j]
		e0 := ck.eq[q.i].get(q.j)
		if e0 {
			nPairsEq++
		}
		for mi, m := range cacheModes {
			for state := 0; state < 3; state++ {
				var vx, vy px.Value
				if fault, err := guarded(func() { vx = x.d.build(ck.p.c); vy = y.d.build(ck.p.c) }); fault != "" || err != "" {
					continue
				}
				if state == 0 || state == 2 {
					m.f(vx)
				}
				if state == 1 || state == 2 {
					m.f(vy)
				}
				e := ck.equals(vx, vy, x.d, y.d, "caches filled")
				nEval++
				if e != e0 {
					ck.violate("hidden-state", fmt.Sprintf("%s.Equals(%s) = %v on fresh copies, but %v after the type caches %s were filled by %s",
						x.d, y.d, e0, e, cacheStateNames[state], m.name), x.d, y.d)
				}
				kx, okx := keyOf(vx)
				ky, oky := keyOf(vy)
				if okx != x.keyOK || oky != y.keyOK || (okx && kx != x.key) || (oky && ky != y.key) {
					ck.violate("hidden-state", fmt.Sprintf("ToKey(%s) = %q / ToKey(%s) = %q on fresh copies, but %q / %q after the type caches %s were filled by %s",
						x.d, x.key, y.d, y.key, kx, ky, cacheStateNames[state], m.name), x.d, y.d)
				}
				if e0 && q.i != q.j {
					ck.res.Nontrivial("caches " + x.text + " ~ " + y.text)
				}
				// M: a sample of the states, and every state on which D failed
				failed := e != e0
				if failed {
					nFailed++
				}
				if ((failed && nFailed <= 20) || (nEval%stride == (pi+mi)%stride && len(cf.Cases) < maxCases)) &&
					x.d.inModel() && y.d.inModel() && !x.d.hasRoute() && !y.d.hasRoute() {
					tx, ok1 := ck.cterm(x.d, vx, st)
					ty, ok2 := ck.cterm(y.d, vy, st)
					if ok1 && ok2 {
						cf.Add(fmt.Sprintf("(%s, %s, %s, %s, %s)", tx, ty, lib.GBool(e), gKey(kx, okx), gKey(ky, oky)),
							map[string]interface{}{"kind": "values", "clause": "hidden-state", "vs": []*V{x.d, y.d}})
					} else {
						ck.res.Count("skipped.caches-unreadable")
					}
				}
			}
		}
	}
	ck.res.Count("caches.pairs")
	ck.res.Extra["cache_matrix"] = map[string]int{"pairs": len(prs), "equal_pairs": nPairsEq, "evaluations": nEval,
		"model_cases": len(cf.Cases), "cache_fields_in_model_cases": st.nodes, "filled": st.filled, "filled_with_a_modelled_type": st.typed, "filled_opaque": st.opaque}
	return cf.WriteTo(cfg.Out, "cases_caches")
}
