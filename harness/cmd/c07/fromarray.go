package main

// The Hash made from an array (WrapHashFromArray, Hash.new): its key index is built by uniqueEntries while
// the entries are compacted, not by valueIndex.  G: arrays of pairs / flat arrays in which keys repeat, in
// every order.  D: ownEntries on the new Hash.  M: the entries, Get/IncludesKey through the pre-built
// index and Equals in both directions against directly wrapped hashes, for Model/KeysIndex.v.

import (
	"fmt"

	"github.com/lyraproj/pcore/px"
	"github.com/lyraproj/pcore/types"
	"verifharness/lib"
)

// fromArrayFamily: descriptions with the route from-array / new-from-array
func fromArrayFamily(rng *lib.Rng, thorough bool) []*V {
	var r []*V
	mk := func(form int, ks []*V, vals func(i int) *V) *V {
		var elems []*V
		for i, k := range ks {
			switch form {
			case 0: // pairs
				elems = append(elems, vArr(k, vals(i)))
			case 1: // pairs, every second one a HashEntry
				if i%2 == 1 {
					elems = append(elems, vEntry(k, vals(i)))
				} else {
					elems = append(elems, vArr(k, vals(i)))
				}
			default: // flat
				elems = append(elems, k, vals(i))
			}
		}
		route := routeFromArray
		if form == 3 {
			route = routeNewFromArray
		}
		return &V{K: "Hash", R: route, Vs: elems}
	}
	pos := func(i int) *V { return vInt(int64(i)) }
	// bounded exhaustive: every sequence of at most maxLen keys over a three letter alphabet, as pairs and flat;
	// the value of a pair is its position in the array
	al := []*V{vStr("a"), vStr("b"), vStr("c")}
	maxLen := 4
	if thorough {
		maxLen = 6
	}
	var seqs [][]*V
	var gen func(prefix []*V)
	gen = func(prefix []*V) {
		seqs = append(seqs, append([]*V{}, prefix...))
		if len(prefix) < maxLen {
			for _, k := range al {
				gen(append(prefix, k))
			}
		}
	}
	gen(nil)
	for i, ks := range seqs {
		r = append(r, mk(0, ks, pos), mk(2, ks, pos))
		if i%5 == 0 {
			r = append(r, mk(1, ks, pos))
		}
		if i%7 == 0 && len(ks) > 0 {
			r = append(r, mk(3, ks, pos))
		}
	}
	// random: keys that are equal although written differently (0.0 and -0.0, an array and an entry), keys of
	// different kinds with similar texts, nested containers as keys and as values
	keys := []*V{vStr("a"), vStr("b"), vInt(1), vStr("1"), vFloat(1), vFloat(0), vFloatBits(0x8000000000000000), vArr(vStr("a"), vInt(1)), vEntry(vStr("a"), vInt(1)),
		vArr(), vHash(), vHash(vStr("a"), vInt(1)), vUndef(), vBool(true), vTimestamp(5, 0), vTimestamp(5, 0).withRoute("zone+1"), vBinary("a"), vRegexp("a"), vType(tInt(1, 5)), vDefault()}
	vals := []*V{vInt(0), vStr("x"), vArr(vInt(1)), vUndef(), vHash(vStr("a"), vInt(1)), vFloat(0)}
	n := 140
	if thorough {
		n = 1500
	}
	for i := 0; i < n; i++ {
		g := rng.Fork()
		ln := g.Intn(8)
		nk := 1 + g.Intn(len(keys))
		ks := make([]*V, ln)
		vs := make([]*V, ln)
		for j := range ks {
			ks[j] = keys[g.Intn(nk)]
			if g.Chance(1, 3) {
				vs[j] = vals[g.Intn(len(vals))]
			} else {
				vs[j] = vInt(int64(j))
			}
		}
		r = append(r, mk(g.Intn(4), ks, func(j int) *V { return vs[j] }))
	}
	// arrays that the constructor rejects or reads in the other way
	a, one := vStr("a"), vInt(1)
	for _, elems := range [][]*V{{a}, {a, one, a}, {vArr(a, one, one)}, {vArr(a, one), vArr(a)}, {vArr()}, {vArr(a, one), vInt(5)}, {vArr(a, one), vArr(a, one)},
		{vEntry(a, one)}, {vEntry(a, one), vEntry(a, vInt(2)), vArr(vStr("b"), one)}, {vArr(a, one), a}, {vArr(a, one), vArr(a, one), vArr(a, one), vInt(7)}} {
		r = append(r, &V{K: "Hash", R: routeFromArray, Vs: elems})
	}
	return r
}

// pairsOfRaw: the (key, value) descriptions that the array of a from-array description is read as, in the
// harness' reading of WrapHashFromArray (used to choose probes and comparison partners only)
func pairsOfRaw(d *V) (ks, vs []*V, ok bool) {
	allPairs := len(d.Vs) > 0
	for _, e := range d.Vs {
		allPairs = allPairs && (e.K == "Arr" || e.K == "Entry")
	}
	if allPairs {
		for _, e := range d.Vs {
			if len(e.Vs) != 2 {
				return nil, nil, false
			}
			ks, vs = append(ks, e.Vs[0]), append(vs, e.Vs[1])
		}
		return ks, vs, true
	}
	if len(d.Vs)%2 != 0 {
		return nil, nil, false
	}
	for i := 0; i+1 < len(d.Vs); i += 2 {
		ks, vs = append(ks, d.Vs[i]), append(vs, d.Vs[i+1])
	}
	return ks, vs, true
}

func gLook(fault, found bool, key string) string {
	if fault {
		return "(@None (option (list N)))"
	}
	return "(Some " + lib.GOpt(found, lib.GStr(key), "list N") + ")"
}

func gOptBool(fault bool, b bool) string { return lib.GOpt(!fault, lib.GBool(b), "bool") }

// fromArrays runs the family; every case becomes a term of type CorrC07.from_array_case
func (ck *checker) fromArrays(ds []*V, cf *lib.CasesFile) {
	c := ck.p.c
	for _, d := range ds {
		if !d.wellFormed() {
			ck.res.Count("skipped.ill-formed")
			continue
		}
		var h *types.Hash
		fault, err := guarded(func() { h = d.build(c).(*types.Hash) })
		ck.res.Evaluations++
		ck.res.Count("from-array." + d.R)
		if fault != "" {
			ck.violate("fault", fmt.Sprintf("%s escapes with a runtime fault: %s", d, fault), d)
			continue
		}
		inModel := true
		elems := make([]string, len(d.Vs))
		for i, e := range d.Vs {
			if inModel = inModel && e.inModel(); inModel {
				elems[i] = e.gallina()
			}
		}
		input := map[string]interface{}{"kind": "fromarray", "clause": "from-array", "vs": []*V{d}}
		if err != "" {
			// a reported error (a pair without two elements, an odd number of elements)
			if inModel {
				cf.Add(fmt.Sprintf("(%s, (@None (list (list N * list N))), (@nil (value * option (option (list N)) * bool)), (@nil (value * option bool * option bool)))",
					lib.GList(elems, "value")), input)
			}
			continue
		}
		if !hashKeysDistinct(h) {
			// two listed keys are equal: the hash made from an array must hold one entry per key
			ck.violate("own-entries", fmt.Sprintf("%s lists two equal keys: %s", d, h), d)
		}
		// D on the hash itself, before and after its caches are forced
		ck.ownEntries(h, d, "the hash")
		h2 := d.build(c).(*types.Hash)
		force(h2)
		ck.ownEntries(h2, d, "the hash (caches forced)")

		ks, vs, ok := pairsOfRaw(d)
		if !ok || !inModel {
			continue
		}
		// observed entries
		var oes []string
		h.EachPair(func(k, v px.Value) {
			kk, _ := keyOf(k)
			kv, _ := keyOf(v)
			oes = append(oes, lib.GPair(lib.GStr(kk), lib.GStr(kv)))
		})
		// probes: every key of the array, and keys that are not in it
		var probes []string
		seen := map[string]bool{}
		for _, q := range append(append([]*V{}, ks...), vStr("a"), vStr("zz"), vInt(1), vFloat(0), vEntry(vStr("a"), vInt(1))) {
			t := q.String()
			if seen[t] {
				continue
			}
			seen[t] = true
			qv := q.build(c)
			var got px.Value
			var found, inc bool
			f1, e1 := guarded(func() { got, found = h.Get(qv) })
			f2, e2 := guarded(func() { inc = h.IncludesKey(qv) })
			ck.res.Evaluations++
			gk := ""
			if f1 == "" && e1 == "" && found {
				gk, _ = keyOf(got)
			}
			if f2 != "" || e2 != "" {
				inc = false
			}
			probes = append(probes, fmt.Sprintf("(%s, %s, %s)", q.gallina(), gLook(f1 != "" || e1 != "", found, gk), lib.GBool(inc)))
			if found {
				ck.res.Nontrivial("from-array get " + d.String() + " " + t)
			}
		}
		// comparison partners, wrapped directly: the harness' reading of the result (the first position of a key,
		// its last value), the same in reverse order, with one value changed, with one entry less
		var fk, fv []*V
		at := map[string]int{}
		for i, k := range ks {
			t := canonText(k)
			if p, dup := at[t]; dup {
				fk[p], fv[p] = k, vs[i]
			} else {
				at[t] = len(fk)
				fk, fv = append(fk, k), append(fv, vs[i])
			}
		}
		mkHash := func(order func(i int) int, n int, change int) *V {
			o := &V{K: "Hash"}
			for i := 0; i < n; i++ {
				j := order(i)
				v := fv[j]
				if j == change {
					v = vStr("changed")
				}
				o.Vs = append(o.Vs, fk[j], v)
			}
			return o
		}
		id := func(i int) int { return i }
		partners := []*V{mkHash(id, len(fk), -1), mkHash(func(i int) int { return len(fk) - 1 - i }, len(fk), -1)}
		if len(fk) > 0 {
			partners = append(partners, mkHash(id, len(fk), len(fk)/2), mkHash(id, len(fk)-1, -1))
		}
		var eqs []string
		for _, o := range partners {
			if !o.wellFormed() || !o.inModel() {
				continue
			}
			ov := o.build(c)
			if !hashKeysDistinct(ov) {
				continue
			}
			var e1, e2 bool
			fa, ea := guarded(func() { e1 = h.Equals(ov, nil) })
			fb, eb := guarded(func() { e2 = ov.Equals(h, nil) })
			ck.res.Evaluations += 2
			eqs = append(eqs, fmt.Sprintf("(%s, %s, %s)", o.gallina(), gOptBool(fa != "" || ea != "", e1), gOptBool(fb != "" || eb != "", e2)))
		}
		cf.Add(fmt.Sprintf("(%s, (Some %s), %s, %s)", lib.GList(elems, "value"), lib.GList(oes, "list N * list N"),
			lib.GList(probes, "value * option (option (list N)) * bool"), lib.GList(eqs, "value * option bool * option bool")), input)
		if len(fk) < len(ks) {
			ck.res.Nontrivial("from-array " + d.String())
		}
	}
}
