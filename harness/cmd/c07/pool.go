package main

// The pool of values on which the laws are checked: built for collisions.

import (
	"fmt"
	"math"
	"runtime"
	"strings"

	"github.com/lyraproj/pcore/px"
	"github.com/lyraproj/pcore/types"
	"verifharness/lib"
)

type item struct {
	d       *V
	a       px.Value // a fresh copy
	b       px.Value // a second copy whose lazy caches have been forced
	key     string   // px.ToKey(a)
	keyOK   bool     // false: ToKey reported that the value cannot be a hash key
	keyB0   string   // px.ToKey(b) before the caches of b were forced
	keyB0OK bool
	family  string
	text    string
}

// guarded runs f; a Go runtime fault (nil dereference, index out of range, failed type assertion)
// is returned as fault, any other panic (a reported pcore error) as err.
func guarded(f func()) (fault string, err string) {
	defer func() {
		if r := recover(); r != nil {
			if re, ok := r.(runtime.Error); ok {
				fault = re.Error()
			} else {
				err = fmt.Sprintf("%v", r)
			}
		}
	}()
	f()
	return
}

// force calls everything that fills a lazy cache of a value: the inferred types, the hash index,
// the text, the key.
func force(v px.Value) {
	guarded(func() { _ = v.PType().String() })
	guarded(func() { _ = px.DetailedValueType(v).String() })
	guarded(func() { _ = v.String() })
	guarded(func() { _ = px.ToKey(v) })
	switch v := v.(type) {
	case *types.Hash:
		guarded(func() { v.IncludesKey(types.WrapInteger(0)) })
		v.EachPair(func(k, e px.Value) { force(k); force(e) })
	case *types.Array:
		v.Each(force)
	case *types.HashEntry:
		force(v.Key())
		force(v.Value())
	case *types.StructType:
		guarded(func() { v.HashedMembers() })
	}
}

func scalarFamily() []*V {
	nan1 := uint64(0x7ff8000000000001)
	nan2 := uint64(0x7ff8000000000002)
	return []*V{
		vUndef(), vDefault(), vBool(true), vBool(false),
		vInt(0), vInt(1), vInt(-1), vInt(2), vInt(5), vInt(255), vInt(256), vInt(65536), vInt(maxI), vInt(minI), vInt(0x0101010101010101),
		vInt(0x3ff0000000000000), // the bits of 1.0
		vFloat(0), vFloat(math.Copysign(0, -1)), vFloat(1), vFloat(-1), vFloat(5), vFloat(0.5), vFloatBits(nan1), vFloatBits(nan2),
		vFloat(math.Inf(1)), vFloat(math.Inf(-1)), vFloat(math.MaxFloat64), vFloat(math.SmallestNonzeroFloat64),
		vStr(""), vStr("a"), vStr("b"), vStr("ab"), vStr("A"), vStr("abc"), vStr("\x00"), vStr("\x01"), vStr("\x02"), vStr("\x03"), vStr("\x04"),
		vStr("s"), vStr("i"), vStr("u"), vStr("1"), vStr("5"), vStr("true"), vStr("undef"), vStr("Integer"), vStr("a\x04"), vStr("\xff\xfe"),
		// the hash keys of other values before the String key was tagged (the pinned tree)
		vStr("\x01i\x00\x00\x00\x00\x00\x00\x00\x05"), vStr("\x01u"), vStr("\x01d"), vStr("\x01b\x01"), vStr("\x00A"), vStr("\x00Aab"), vStr("\x01tString"),
		vRegexp("a"), vRegexp("b"), vRegexp("ab"), vRegexp("a|b"), vRegexp(".*"), vRegexp(""),
		vBinary(""), vBinary("a"), vBinary("ab"), vBinary("\x01u"), vBinary("\x00"),
		vTimespan(0), vTimespan(1), vTimespan(5), vTimespan(1000000000), vTimespan(1500000000), vTimespan(999999999), vTimespan(-1), vTimespan(-999999999), vTimespan(-1000000000),
		vTimestamp(0, 0), vTimestamp(0, 1), vTimestamp(1, 0), vTimestamp(5, 0), vTimestamp(5, 999999999), vTimestamp(-1, 5),
	}
}

func containerFamily() []*V {
	one, two := vInt(1), vInt(2)
	a, b, ab := vStr("a"), vStr("b"), vStr("ab")
	r := []*V{
		vArr(), vArr(vArr()), vArr(vArr(), vArr()), vArr(vArr(vArr())),
		vArr(a, b), vArr(ab), vArr(a), vArr(b, a), vArr(a, b, vStr("")), vArr(vStr(""), a, b), vArr(vStr("")), vArr(vStr(""), vStr("")),
		vArr(vArr(one), two), vArr(vArr(one, two)), vArr(one, vArr(two)), vArr(one, two), vArr(vArr(one), vArr(two)), vArr(vArr(vArr(one), two)),
		vArr(vType(tInt(minI, maxI)), one, vInt(5)), vArr(vType(tInt(1, 5))), vArr(vType(tInt(1, maxI)), vInt(5)),
		vArr(vType(tN("String")), a), vArr(vType(tStrVal("a"))),
		vArr(vRegexp("a"), b), vArr(vRegexp("ab")), vArr(vBinary("a"), b), vArr(vBinary("ab")),
		vArr(vFloat(0)), vArr(vFloat(math.Copysign(0, -1))), vArr(vFloatBits(0x7ff8000000000001)),
		vArr(vUndef()), vArr(vUndef(), vUndef()), vArr(vBool(true), one),
		// arrays versus entries
		vArr(a, one), vEntry(a, one), vEntry(a, two), vEntry(b, one), vEntry(one, a), vArr(one, a), vEntry(a, vArr(one)), vArr(a, vArr(one)),
		vEntry(vArr(a, one), two), vEntry(vEntry(a, one), two), vArr(vEntry(a, one), two), vArr(vArr(a, one), two), vArr(vEntry(a, one)), vArr(vArr(a, one)),
		vArr(a, one, two), vEntry(a, a), vArr(a, a),
		// hashes: insertion order, nesting, key collisions of the pinned tree
		vHash(), vHash(a, one), vHash(a, two), vHash(b, one), vHash(a, one, b, two), vHash(b, two, a, one), vHash(a, two, b, one),
		vHash(one, a), vHash(one, a, two, b), vHash(two, b, one, a), vHash(vInt(5), one), vHash(vStr("\x01i\x00\x00\x00\x00\x00\x00\x00\x05"), one),
		vHash(vArr(a, b), one), vHash(vArr(ab), one), vHash(a, vHash(a, one, b, two)), vHash(a, vHash(b, two, a, one)),
		vHash(vHash(a, one, b, two), one), vHash(vHash(b, two, a, one), one), vHash(a, one, b, two, ab, one), vHash(ab, one, b, two, a, one),
		vHash(vFloat(0), one), vHash(vFloat(math.Copysign(0, -1)), one), vHash(a, vFloat(0)), vHash(a, vFloat(math.Copysign(0, -1))),
		vHash(vEntry(a, one), two), vHash(vArr(a, one), two), vHash(a, vUndef()), vHash(vUndef(), a),
		vArr(vHash(a, one)), vArr(vArr(vArr(a, one))), vArr(vHash(a, one, b, two)), vArr(vHash(b, two, a, one)),
		// Sensitive is never equal to anything and has no hash key
		vSensitive(one), vSensitive(a), vArr(vSensitive(one)), vHash(a, vSensitive(one)), vEntry(a, vSensitive(one)), vSensitive(vSensitive(one)),
	}
	// bounded exhaustive: every array of length <= 2 and every one-entry hash over a small alphabet
	al := []*V{one, a, b, ab, vArr(), vArr(one), vBool(true), vUndef(), vFloat(1), vHash(), vHash(a, one)}
	for _, x := range al {
		r = append(r, vArr(x))
		for _, y := range al {
			r = append(r, vArr(x, y))
		}
	}
	for _, k := range al[:6] {
		for _, v := range al[:4] {
			r = append(r, vHash(k, v), vEntry(k, v))
		}
	}
	return r
}

func typeFamily() []*T {
	any, unit, str, integer := tN("Any"), tN("Unit"), tN("String"), tInt(minI, maxI)
	mf := math.MaxFloat64
	nan := math.NaN()
	ts := []*T{any, unit, tN("Undef"), tN("Default"), tN("Numeric"), tN("Scalar"), tN("ScalarData"), tN("Binary"),
		tBool(-1), tBool(0), tBool(1),
		integer, tInt(0, maxI), tInt(1, 5), tInt(1, maxI), tInt(minI, 5), tInt(5, 5), tInt(0, 0), tInt(1, 1), tInt(3, 4), tInt(5, maxI), tInt(1, 6),
		tFloat(math.Inf(-1), math.Inf(1)), tFloat(math.Inf(-1), 1), tFloat(1, math.Inf(1)), tFloat(math.Inf(1), math.Inf(1)), // Float[-Inf, +Inf] is the unbounded (default) Float type
		tFloat(-mf, mf), tFloat(0, 1), tFloat(math.Copysign(0, -1), 1), tFloat(-mf, 1), tFloat(1, mf), tFloat(1, 5), tFloat(1, 1), tFloat(nan, 1), tFloat(1, nan), tFloat(-1, 0), tFloat(-1, math.Copysign(0, -1)),
		str, tStrSz(1, maxI), tStrSz(1, 5), tStrSz(0, 5), tStrSz(5, 5), tStrSz(minI, 5), tStrVal("a"), tStrVal("abc"), tStrVal(""), tStrVal("\x01i\x00\x00\x00\x00\x00\x00\x00\x05"),
		tEnum(false), tEnum(false, "a"), tEnum(false, "a", "b"), tEnum(false, "b", "a"), tEnum(false, "a", "a"), tEnum(false, "a", "a", "b"),
		tEnum(false, "a", "b", "b"), tEnum(false, "ab"), tEnum(true, "a", "b"), tEnum(true, "a"), tEnum(true), tEnum(false, "a", "b", ""), tEnum(false, "a", "b", "c"),
		tPattern(), tPattern("a"), tPattern("a", "b"), tPattern("b", "a"), tPattern("a", "a"), tPattern("ab"), tPattern("a", "a", "b"), tPattern("a", "b", "b"),
		tRegexp(""), tRegexp("a"), tRegexp("ab"), tRegexp("b"),
		tColl(0, maxI), tColl(1, 5), tColl(0, 0), tColl(1, maxI), tColl(0, 5),
		tArr(any, 0, maxI), tArr(str, 0, maxI), tArr(str, 1, 2), tArr(str, 3, 4), tArr(any, 0, 0), tArr(unit, 0, 0), tArr(any, 1, maxI), tArr(tInt(1, 5), 0, maxI),
		tArr(unit, 0, maxI), tArr(any, 0, 5), tArr(integer, 0, 0), tArr(tArr(str, 1, 2), 0, maxI), tArr(tArr(str, 3, 4), 0, maxI), tArr(str, 1, maxI),
		tHash(any, any, 0, maxI), tHash(str, integer, 0, maxI), tHash(str, integer, 1, 2), tHash(str, integer, 0, 0), tHash(unit, unit, 0, 0), tHash(any, any, 0, 0),
		tHash(integer, str, 0, maxI), tHash(any, any, 1, maxI), tHash(str, any, 0, maxI), tHash(any, str, 0, maxI), tHash(unit, unit, 0, maxI), tHash(str, integer, 1, maxI),
		tTuple(), tTupleSz(0, maxI), tTupleSz(0, 0), tTupleSz(1, 5), tTuple(integer), tTupleSz(1, 1, integer), tTupleSz(1, 5, integer), tTupleSz(1, maxI, integer), tTupleSz(0, maxI, integer),
		tTuple(integer, str), tTupleSz(2, 2, integer, str), tTupleSz(2, 3, integer, str), tTupleSz(1, 2, integer, str), tTuple(str, integer), tTuple(str, str), tTuple(integer, integer),
		tTuple(integer, tInt(1, 5)), tTupleSz(2, 2, integer, integer), tTuple(tTuple(integer)), tTuple(tTupleSz(1, 1, integer)),
		tStruct(), tStruct(member{"a", false, integer}), tStruct(member{"a", true, integer}), tStruct(member{"a", false, tUn("Optional", integer)}),
		tStruct(member{"a", true, tUn("Optional", integer)}), tStruct(member{"a", false, integer}, member{"b", false, str}), tStruct(member{"b", false, str}, member{"a", false, integer}),
		tStruct(member{"ab", false, integer}), tStruct(member{"a", false, any}), tStruct(member{"a", true, any}), tStruct(member{"Optional['a']", false, integer}),
		tStruct(member{"a", false, tVariant(integer, tN("Undef"))}), tStruct(member{"a", false, tVariant(integer, str)}), tStruct(member{"a", false, str}),
		tStruct(member{"a", false, integer}, member{"a", false, integer}), tStruct(member{"a", false, tUn("NotUndef", integer)}), tStruct(member{"a", false, unit}),
		tVariant(), tVariant(integer, str), tVariant(str, integer), tVariant(integer, integer), tVariant(integer, integer, str), tVariant(integer, str, str),
		tVariant(tInt(1, 5), integer), tVariant(tVariant(integer, str), tN("Undef")), tVariant(tN("Undef"), integer), tVariant(tN("Undef"), tVariant(str, integer)),
		tVariant(tVariant(integer, integer), tVariant(integer, str)), tVariant(tVariant(integer, str), tVariant(integer, integer)), tVariant(integer, str, tN("Undef")),
		tVariant(tEnum(false, "a", "b"), tEnum(false, "b", "a")), tVariant(tEnum(false, "a", "b"), tEnum(false, "a", "b")), tVariant(tEnum(false, "b", "a"), integer), tVariant(integer, tEnum(false, "a", "b")),
	}
	for _, k := range []string{"Optional", "NotUndef", "Type", "Sensitive", "Iterable"} {
		ts = append(ts, tUn(k, any), tUn(k, integer), tUn(k, str), tUn(k, tStrVal("a")), tUn(k, tStrVal("")), tUn(k, tUn("Optional", integer)), tUn(k, tUn(k, integer)), tUn(k, unit))
	}
	return ts
}

// types of the Rocq-model fragment written as text and parsed (a second construction path), and
// types outside the fragment
func textTypeFamily() []*T {
	texts := []string{
		"Any", "Integer", "Integer[1,5]", "Integer[1]", "Integer[default,5]", "Float", "Float[0.0,1.0]", "Float[-0.0,1.0]", "String", "String[1]", "String[1,5]", "String['a']",
		"Boolean", "Boolean[true]", "Enum['a','b']", "Enum['b','a']", "Enum['a','a']", "Enum[]", "Enum", "Pattern[/a/,/b/]", "Pattern[/b/,/a/]", "Regexp[/a/]", "Regexp",
		"Collection", "Collection[1,5]", "Array", "Array[String]", "Array[String,1,2]", "Array[String,3,4]", "Array[0,0]", "Array[Any,0,0]", "Array[Unit,0,0]", "Array[Any]", "Array[1]",
		"Hash", "Hash[String,Integer]", "Hash[String,Integer,1,2]", "Hash[Any,Any]", "Hash[0,0]", "Hash[Any,Any,0,0]",
		"Tuple", "Tuple[Integer]", "Tuple[Integer,1,1]", "Tuple[Integer,String]", "Tuple[Integer,String,2,2]", "Tuple[Integer,String,2,3]", "Tuple[0,0]", "Tuple[Integer,1,5]",
		"Struct", "Struct[{a=>Integer}]", "Struct[{Optional[a]=>Integer}]", "Struct[{a=>Optional[Integer]}]", "Struct[{a=>Integer,b=>String}]", "Struct[{b=>String,a=>Integer}]",
		"Struct[{NotUndef[a]=>Optional[Integer]}]", "Struct[{'a'=>Optional[Integer]}]",
		"Variant", "Variant[Integer,String]", "Variant[String,Integer]", "Variant[Integer,Integer]", "Variant[Integer]", "Optional", "Optional[Integer]", "Optional['a']", "Optional[String['a']]",
		"NotUndef", "NotUndef[Integer]", "NotUndef['a']", "Type", "Type[Integer]", "Type[Type[Integer]]", "Sensitive", "Sensitive[Integer]", "Iterable", "Iterable[Integer]",
		// outside the model
		"Iterator", "Iterator[Integer]", "Callable", "Callable[String]", "Callable[String,Integer]", "Callable[[String],Integer]", "Callable[0,0]", "Timespan", "Timestamp", "SemVer", "SemVer['1.x']", "SemVerRange", "URI",
		"Runtime", "Runtime['go','x']", "Init", "Init[Integer]", "Data", "RichData", "TypeReference['Foo']", "TypeReference['Bar']", "Object", "Like[Integer,'x']",
		"Timespan['0-00:00:01', '0-00:00:05']", "Timestamp['2000-01-01', '2001-01-01']", "Binary", "Default", "Undef", "Unit", "Scalar", "ScalarData", "Numeric", "CatalogEntry", "RichDataKey",
		"Object[{name => 'C07::T1', attributes => {a => Integer}}]", "Object[{name => 'C07::T1', attributes => {a => Integer}}]", "Object[{name => 'C07::T2', attributes => {a => Integer}}]",
		"Object[{name => 'C07::T1', attributes => {a => String}}]",
		"Callable[String, Callable[Integer]]", "Callable[Callable[Integer]]", "Callable[Callable]", "Callable[[0,0],Integer]", "Callable[String,1,2]", "Callable[String,1,default]",
		"Callable[[String, Callable], Integer]", "Callable[String, Optional[Callable]]", "Callable[[String], String]", "Callable[Integer]", "Callable[1,1]", "Callable[[], Integer]", "Callable[Unit]", "Callable[Unit,Unit]", "Callable[2,2]", "Callable[Unit,1,1]", "Callable[Unit,2,2]",
		"String[Integer]", "String[Integer[1,5]]", "String[Integer[0]]", "String[Integer[default,5]]", "String[0]", "String[0, 5]",
		"Iterator[String]", "Runtime['go','y']", "Runtime['go']", "Like[String,'x']", "Like[Integer,'y']", "Init[String]", "Init[Integer,1]", "Init[Integer,2]",
		"Timespan['0-00:00:01']", "Timespan[default, '0-00:00:05']", "Timestamp['2000-01-01']", "Timestamp[default, '2001-01-01']", "SemVer['1.x', '2.x']", "SemVer['>=1.0.0 <2.0.0']",
		"URI['http://example.com']", "URI[{scheme => 'http'}]", "URI[{scheme => 'https'}]", "Collection[0]", "Collection[default, 5]", "Array[String, default, 5]", "Array[default, 5]",
		"Hash[1]", "Hash[1, 5]", "Hash[String, Integer, 1]", "Integer[default, default]", "Float[default, 1.0]", "Float[1.0]", "Float[default, default]",
		"Type[String['a']]", "Optional['']", "NotUndef[String['a']]", "Enum['a', 'B', true]", "Enum['a', 'b', true]", "Enum[['a','b']]", "Pattern['a']", "Pattern[Regexp[/a/]]", "Regexp['a']",
		"Variant[[Integer,String]]", "Tuple[[Integer,String]]", "Tuple[[Integer,String], Integer[2,3]]", "Tuple[Integer, 1]", "Tuple[Integer, String, 1, default]", "Tuple[1, 5]", "Tuple[5]",
		// parameters given as a hash, the entries in different orders; the same URI given as text
		"URI[{scheme => 'http', host => 'example.com'}]", "URI[{host => 'example.com', scheme => 'http'}]", "URI['http://example.com/a?q#f']",
		"URI[{scheme => 'http', host => 'example.com', path => '/a', query => 'q', fragment => 'f'}]", "URI[{fragment => 'f', query => 'q', path => '/a', host => 'example.com', scheme => 'http'}]",
		"URI[{scheme => Enum['http', 'https'], host => 'example.com'}]", "URI[{host => 'example.com', scheme => Enum['https', 'http']}]",
		// bounds that differ by less than a second
		"Timespan['0-00:00:01.5', '0-00:00:05']", "Timespan['0-00:00:01.0', '0-00:00:05']", "Timespan['0-00:00:01', '0-00:00:05.000000001']", "Timespan['0-00:00:01.5']",
		"Timestamp['2000-01-01T00:00:00.5', '2001-01-01']", "Timestamp['2000-01-01T00:00:00.000', '2001-01-01']",
		"Struct[{a=>Undef}]", "Struct[{a=>Any}]", "Struct[{Optional[a]=>Any}]", "Struct[{NotUndef[a]=>Any}]", "Struct[{a=>NotUndef}]", "Struct[{Optional[a]=>NotUndef}]",
	}
	r := make([]*T, len(texts))
	for i, s := range texts {
		r[i] = tText(s)
	}
	return r
}

func outsideFamily() []*V {
	one, a := vInt(1), vStr("a")
	return []*V{
		vUri("http://example.com/a"), vUri("http://example.com/b"), vUri("http://user@example.com/a"), vUri("http://user:pw@example.com/a"), vUri("file:///a"), vUri("a"),
		vSemVer("1.0.0"), vSemVer("1.0.1"), vSemVer("1.0.0-rc1"), vSemVer("1.0.0+b1"), vSemVer("1.0.0+b2"),
		vSemVerRange("1.x"), vSemVerRange(">=1.0.0"), vSemVerRange(">=1.0.0 <2.0.0"), vSemVerRange("1.0.0"),
		vArr(vUri("http://example.com/a"), vStr("b")), vArr(vSemVer("1.0.0")), vHash(vSemVer("1.0.0"), one), vHash(vUri("a"), one),
		vObject("P", one, vInt(3)), vObject("P", one), vObject("P", one, vInt(4)), vObject("P", vInt(2)), vObject("P", one, vArr(one)), vObject("P", one, vArr(vInt(2))),
		vObject("P", one, vHash(a, one)), vObject("P", one, vArr(vArr(one), a)), vObject("Q", one), vObject("Q", vArr(one)), vObject("Q", vArr(one, a)), vObject("Q", vHash(a, one, vStr("b"), vInt(2))),
		vObject("Q", vHash(vStr("b"), vInt(2), a, one)), vArr(vObject("Q", one)), vHash(a, vObject("Q", one)),
		vMutHash(), vMutHash(a, one), vMutHash(a, one, vStr("b"), vInt(2)), vMutHash(vStr("b"), vInt(2), a, one),
	}
}

// random values of the model fragment over small alphabets, so that equal values and near collisions occur
func randomType(r *lib.Rng, depth int) *T {
	sz := func() (int64, int64) {
		los := []int64{0, 0, 0, 1, 2, minI}
		his := []int64{maxI, maxI, 0, 1, 2, 5}
		lo, hi := los[r.Intn(5)], his[r.Intn(6)]
		if lo > hi {
			lo, hi = 0, maxI
		}
		return lo, hi
	}
	leaf := func() *T {
		switch r.Intn(14) {
		case 0:
			return tN("Any")
		case 1:
			return tN("Unit")
		case 2:
			return tN([]string{"Undef", "Default", "Numeric", "Scalar", "ScalarData", "Binary"}[r.Intn(6)])
		case 3:
			return tBool(r.Intn(3) - 1)
		case 4, 5:
			lo, hi := sz()
			if r.Bool() {
				lo = minI
			}
			return tInt(lo, hi)
		case 6:
			fs := []float64{-math.MaxFloat64, -1, math.Copysign(0, -1), 0, 1, math.MaxFloat64}
			i, j := r.Intn(6), r.Intn(6)
			if i > j {
				i, j = j, i
			}
			return tFloat(fs[i], fs[j])
		case 7:
			return tN("String")
		case 8:
			lo, hi := sz()
			if lo == 0 && hi == maxI {
				hi = 7
			}
			return tStrSz(lo, hi)
		case 9:
			return tStrVal([]string{"a", "b", "ab", ""}[r.Intn(4)])
		case 10:
			n := r.Intn(4)
			vs := make([]string, n)
			for i := range vs {
				vs[i] = []string{"a", "b", "ab"}[r.Intn(3)]
			}
			return tEnum(r.Chance(1, 4), vs...)
		case 11:
			n := r.Intn(3)
			vs := make([]string, n)
			for i := range vs {
				vs[i] = []string{"a", "b", "ab"}[r.Intn(3)]
			}
			return tPattern(vs...)
		case 12:
			return tRegexp([]string{"", "a", "b"}[r.Intn(3)])
		}
		lo, hi := sz()
		return tColl(lo, hi)
	}
	if depth <= 0 {
		return leaf()
	}
	sub := func() *T { return randomType(r, depth-1) }
	subs := func(max int) []*T {
		n := r.Intn(max + 1)
		ts := make([]*T, n)
		for i := range ts {
			ts[i] = sub()
		}
		return ts
	}
	switch r.Intn(12) {
	case 0, 1:
		return leaf()
	case 2:
		lo, hi := sz()
		return tArr(sub(), lo, hi)
	case 3:
		lo, hi := sz()
		return tHash(sub(), sub(), lo, hi)
	case 4:
		ts := subs(3)
		if r.Bool() {
			return tTuple(ts...)
		}
		lo, hi := sz()
		if r.Bool() {
			lo, hi = int64(len(ts)), int64(len(ts))
		}
		return tTupleSz(lo, hi, ts...)
	case 5:
		n := r.Intn(3)
		ms := make([]member, n)
		for i := range ms {
			ms[i] = member{[]string{"a", "b", "ab"}[r.Intn(3)], r.Bool(), sub()}
		}
		return tStruct(ms...)
	case 6, 7:
		ts := subs(3)
		if len(ts) == 1 {
			ts = append(ts, ts[0])
		}
		return tVariant(ts...)
	}
	return tUn([]string{"Optional", "NotUndef", "Type", "Sensitive", "Iterable"}[r.Intn(5)], sub())
}

func randomValue(r *lib.Rng, depth int) *V {
	leaf := func() *V {
		switch r.Intn(12) {
		case 0:
			return vUndef()
		case 1:
			return vBool(r.Bool())
		case 2, 3:
			return vInt([]int64{0, 1, 2, 5}[r.Intn(4)])
		case 4:
			return vFloat([]float64{0, math.Copysign(0, -1), 1, 5}[r.Intn(4)])
		case 5, 6, 7:
			return vStr([]string{"", "a", "b", "ab", "\x04", "\x01u"}[r.Intn(6)])
		case 8:
			return vRegexp([]string{"a", "b", "ab"}[r.Intn(3)])
		case 9:
			return vBinary([]string{"", "a", "ab"}[r.Intn(3)])
		case 10:
			if r.Bool() {
				return vTimespan(int64(r.Intn(3)))
			}
			return vTimestamp(int64(r.Intn(2)), int64(r.Intn(2)))
		}
		return vDefault()
	}
	if depth <= 0 {
		return leaf()
	}
	sub := func() *V { return randomValue(r, depth-1) }
	switch r.Intn(10) {
	case 0, 1, 2:
		n := r.Intn(4)
		vs := make([]*V, n)
		for i := range vs {
			vs[i] = sub()
		}
		return vArr(vs...)
	case 3, 4:
		// a hash with distinct keys (distinct by description text and by the shape that the pinned tree confused)
		n := r.Intn(4)
		var kvs []*V
		seen := map[string]bool{}
		for i := 0; i < n; i++ {
			k := randomValue(r, depth-1)
			for !k.keyable() {
				k = randomValue(r, 0)
			}
			t := canonText(k)
			if seen[t] {
				continue
			}
			seen[t] = true
			kvs = append(kvs, k, sub())
		}
		return vHash(kvs...)
	case 5:
		return vEntry(sub(), sub())
	case 6:
		return vType(randomType(r, depth-1))
	case 7:
		if r.Chance(1, 3) {
			return vSensitive(sub())
		}
		return leaf()
	}
	return leaf()
}

// canonText is a text that is the same for two descriptions which denote equal values in the
// harness' own (independent) understanding: used only to keep generated hash keys distinct.
func canonText(v *V) string {
	if v.R != "" && !v.isRawFromArray() {
		// the route does not change the value
		v = v.withRoute("")
	}
	switch v.K {
	case "Float":
		f := math.Float64frombits(v.F)
		if f == 0 {
			return "0.0f"
		}
	case "Entry":
		return canonText(vArr(v.Vs...))
	case "Arr":
		s := "["
		for _, e := range v.Vs {
			s += canonText(e) + ","
		}
		return s + "]"
	case "Hash":
		// order independent
		ps := []string{}
		for i := 0; i+1 < len(v.Vs); i += 2 {
			ps = append(ps, canonText(v.Vs[i])+"=>"+canonText(v.Vs[i+1]))
		}
		sortStrings(ps)
		s := "{"
		for _, p := range ps {
			s += p + ","
		}
		return s + "}"
	case "Type":
		// types: equal descriptions only (a coarser partition than equality: may reject more keys than needed, never accepts equal ones...
		// except set-like types in different order, which a hash key position tolerates: handled by the caller's ToKey check)
		return "T:" + v.T.String()
	}
	return v.String()
}

func sortStrings(a []string) {
	for i := 1; i < len(a); i++ {
		for j := i; j > 0 && a[j] < a[j-1]; j-- {
			a[j], a[j-1] = a[j-1], a[j]
		}
	}
}

// hashKeysDistinct checks, on the implementation, that no two keys of any hash inside the value
// are equal (the representation invariant of Hash, which WrapHash does not enforce)
func hashKeysDistinct(v px.Value) bool {
	ok := true
	var walk func(v px.Value)
	walk = func(v px.Value) {
		switch v := v.(type) {
		case *types.Hash:
			ks := v.Keys()
			n := ks.Len()
			for i := 0; i < n; i++ {
				for j := i + 1; j < n; j++ {
					if ks.At(i).Equals(ks.At(j), nil) || ks.At(j).Equals(ks.At(i), nil) {
						ok = false
					}
				}
			}
			v.EachPair(func(k, e px.Value) { walk(k); walk(e) })
		case *types.Array:
			v.Each(walk)
		case *types.HashEntry:
			walk(v.Key())
			walk(v.Value())
		case *types.Sensitive:
			walk(v.Unwrap())
		}
	}
	guarded(func() { walk(v) })
	return ok
}

type pool struct {
	items []*item
	seen  map[string]bool
	c     px.Context
	res   *lib.Result
}

// add builds the value twice; a description the constructors reject is skipped.
func (p *pool) add(d *V, family string) *item {
	if !d.wellFormed() {
		p.res.Count("skipped.ill-formed")
		return nil
	}
	id := d.String()
	if p.seen[id] && family != "twice" {
		return nil
	}
	it := &item{d: d, family: family, text: id}
	fault, err := guarded(func() {
		it.a = d.build(p.c)
		it.b = d.build(p.c)
	})
	if fault != "" && d.any(func(x *V) bool { return x.K == "TName" }, func(*T) bool { return false }) {
		// deriving a typed name from another one (Child, Parent, RelativeTo) is the second construction route of an
		// equal value: the derived cached form is the subject
		p.res.Violate(lib.Violation{Clause: "fault", What: fmt.Sprintf("making %s by its construction route escapes with a runtime fault: %s", d, fault),
			Input: map[string]interface{}{"kind": "values", "clause": "fault", "vs": []*V{d}}, Tags: tagsOf(d)})
		return nil
	}
	if fault != "" || err != "" {
		// constructing is not the subject of C07 (C05/C06/C16 are)
		p.res.Count("skipped.constructor-rejects")
		return nil
	}
	if !hashKeysDistinct(it.a) {
		p.res.Count("skipped.hash-with-equal-keys")
		return nil
	}
	p.seen[id] = true
	f0, e0 := guarded(func() { it.keyB0 = string(px.ToKey(it.b)) })
	it.keyB0OK = f0 == "" && e0 == ""
	force(it.b)
	p.items = append(p.items, it)
	p.res.Count("pool." + family)
	return it
}

// routeFamily: the values of the corpus made by other routes.  Timestamp, Binary, Regexp, HashEntry: every
// route; the first arrays and the first hashes with two or more entries: every route; the other containers:
// one or a few routes in rotation.
func routeFamily(base []*V, thorough bool) []*V {
	var r []*V
	nArr, nHash2, nHash1 := 0, 0, 0
	for _, d := range base {
		rs := routesOf(d.K)
		if len(rs) == 0 {
			continue
		}
		var pick []string
		switch d.K {
		case "Arr":
			switch {
			case nArr < 6 || (thorough && nArr < 24):
				pick = rs
			case thorough:
				pick = []string{rs[nArr%len(rs)], rs[(nArr+3)%len(rs)]}
			case nArr%3 == 0:
				pick = []string{rs[(nArr/3)%len(rs)]}
			}
			nArr++
		case "Hash":
			if len(d.Vs) >= 4 {
				switch {
				case nHash2 < 5 || thorough:
					pick = rs
				default:
					for j := 0; j < 4; j++ {
						pick = append(pick, rs[(nHash2*4+j)%len(rs)])
					}
				}
				nHash2++
			} else {
				pick = []string{rs[nHash1%len(rs)]}
				if thorough {
					pick = append(pick, rs[(nHash1+7)%len(rs)], rs[(nHash1+13)%len(rs)], rs[(nHash1+19)%len(rs)])
				}
				nHash1++
			}
		default:
			pick = rs
		}
		for _, route := range pick {
			r = append(r, d.withRoute(route))
		}
	}
	return r
}

// addRouted adds a description with routes; a route that cannot make the value is counted, not reported
// (constructing is the subject of other properties)
func (p *pool) addRouted(d *V, family string) *item {
	if !d.wellFormed() {
		p.res.Count("skipped.route-not-applicable")
		return nil
	}
	it := p.add(d, family)
	if it == nil && !p.seen[d.String()] {
		p.res.Count("skipped.route-rejected." + d.K + "@" + d.R)
	}
	return it
}

func buildPool(c px.Context, cfg *lib.Config, res *lib.Result, rng *lib.Rng) *pool {
	p := &pool{seen: map[string]bool{}, c: c, res: res}
	for _, d := range scalarFamily() {
		p.add(d, "scalar")
	}
	for _, d := range containerFamily() {
		p.add(d, "container")
	}
	for _, t := range typeFamily() {
		p.add(vType(t), "type")
	}
	for _, t := range textTypeFamily() {
		p.add(vType(t), "type-parsed")
	}
	for _, d := range outsideFamily() {
		p.add(d, "outside-model")
	}
	for _, s := range typeSetTexts() {
		p.add(vType(tText(s)), "type-parsed")
	}
	// kinds with a derived cached form by their construction routes (names.go)
	for _, d := range namedFamily(cfg.Thorough()) {
		if d.hasRoute() {
			p.addRouted(d, "named-route")
		} else {
			p.add(d, "named")
		}
	}
	// types with several internal representations of one parameter, by their construction routes (multirep.go)
	for _, d := range repFamily(cfg.Thorough()) {
		if d.hasRoute() {
			if p.addRouted(d, "multirep-route") == nil && d.K == "Type" && !p.seen[d.String()] {
				p.res.Count("skipped.route-rejected." + string(d.T.S) + "@" + d.T.R)
			}
		} else {
			p.add(d, "multirep")
		}
	}
	// the same values made by other construction routes (routes.go)
	for _, d := range routeFamily(append(scalarFamily(), containerFamily()...), cfg.Thorough()) {
		p.addRouted(d, "route")
	}
	nRandom, nRandomT := 250, 150
	if cfg.Thorough() {
		nRandom, nRandomT = 1200, 600
	}
	for i := 0; i < nRandom; i++ {
		r := rng.Fork()
		d := randomValue(r, 1+r.Intn(3))
		p.add(d, "random")
		if i%2 == 1 {
			if pd := permutedDesc(r, d); pd != nil {
				p.add(pd, "random-perm")
			}
		}
		// every second container also with random routes at its nodes
		if len(d.Vs) > 0 && i%2 == 0 {
			if rd := routed(r, d); rd.hasRoute() {
				p.addRouted(rd, "random-route")
			}
		}
	}
	for i := 0; i < nRandomT; i++ {
		r := rng.Fork()
		p.add(vType(randomType(r, 1+r.Intn(2))), "random-type")
	}
	// types inside containers and as hash keys
	n := len(p.items)
	for i := 0; i < n; i++ {
		it := p.items[i]
		if it.d.K == "Type" && it.family == "type" && i%3 == 0 {
			p.add(vArr(it.d), "type-in-array")
			p.add(vHash(it.d, vInt(1)), "type-as-key")
		}
	}
	// for every value x the String and the Binary whose bytes are the hash key of x, and the
	// array holding that String: a value whose encoding imitates another value's
	n = len(p.items)
	for i := 0; i < n; i++ {
		it := p.items[i]
		var k px.HashKey
		fault, err := guarded(func() { k = px.ToKey(it.a) })
		if fault != "" || err != "" {
			continue
		}
		ks := string(k)
		if strings.HasPrefix(it.family, "multirep") {
			// the routes of one description have one key: the String with the bytes of the key of one in four is enough
			if i%4 == 0 {
				p.add(vStr(ks), "key-as-string")
			}
			continue
		}
		p.add(vStr(ks), "key-as-string")
		if i%4 == 0 {
			p.add(vBinary(ks), "key-as-binary")
			p.add(vArr(vStr(ks)), "key-as-string-in-array")
			if len(ks) > 2 {
				// the payload of a container key, split at every position into two strings
				p.add(vArr(vStr(ks[:len(ks)/2]), vStr(ks[len(ks)/2:])), "key-split")
				p.add(vStr(ks[2:]), "key-payload")
			}
		}
	}
	// equal values whose hashes were filled in a different order (caches.go): the inferred, lazily cached
	// types differ while the values are equal
	for _, d := range permFamily() {
		p.add(d, "perm")
	}
	nMixed := 40
	if cfg.Thorough() {
		nMixed = 300
	}
	permRng := lib.NewRng(cfg.Seed + 15485863)
	for i := 0; i < nMixed; i++ {
		r := permRng.Fork()
		d := randomMixedHash(r, 1)
		switch i % 4 {
		case 1:
			d = vArr(d)
		case 2:
			d = vHash(vStr("k"), d)
		case 3:
			d = vHash(d, vInt(1))
		}
		if p.add(d, "random-mixed") != nil {
			for j := 0; j < 2; j++ {
				if pd := permutedDesc(r, d); pd != nil {
					p.add(pd, "random-perm")
				}
			}
		}
	}
	return p
}
