package main

// Descriptions of values and types: plain data from which the pcore value is built (any number of
// times: "built twice"), from which the Gallina term of coq/Model/Keys.v is printed, and which is
// written to replay files.

import (
	"encoding/json"
	"fmt"
	"math"
	"net/url"
	"regexp"
	"strconv"
	"strings"
	"time"

	"github.com/lyraproj/pcore/px"
	"github.com/lyraproj/pcore/types"
	"github.com/lyraproj/semver/semver"
	"verifharness/lib"
)

// Str is a Go string (arbitrary bytes) that survives JSON: it is written in Go quoted form.
type Str string

func (s Str) MarshalJSON() ([]byte, error) {
	return json.Marshal(strconv.QuoteToASCII(string(s)))
}

func (s *Str) UnmarshalJSON(b []byte) error {
	var q string
	if err := json.Unmarshal(b, &q); err != nil {
		return err
	}
	u, err := strconv.Unquote(q)
	if err != nil {
		return err
	}
	*s = Str(u)
	return nil
}

// T describes a type.
//
//	nullary:  Any Unit Undef Default Numeric Scalar ScalarData Binary
//	Boolean (B: -1 unset, 0 false, 1 true), Integer (Lo,Hi), Float (FLo,FHi float64 bits),
//	String, StringSz (Lo,Hi), StringVal (S), Enum (Strs, CI), Pattern (Strs), Regexp (S),
//	Collection (Lo,Hi), Array (Ts[0], Lo,Hi), Hash (Ts[0],Ts[1], Lo,Hi),
//	Tuple (Ts, HasSize, Lo,Hi = the given size when HasSize), Struct (Strs names, Opt, Ts),
//	Variant (Ts), Optional NotUndef Type Sensitive Iterable (Ts[0]),
//	Text (S: a type expression that is parsed; not in the Rocq model)
//	Rep (S family, Strs parameter, R route: a type with several internal representations of one parameter, multirep.go)
type T struct {
	K       string `json:"k"`
	Lo      int64  `json:"lo,omitempty"`
	Hi      int64  `json:"hi,omitempty"`
	FLo     uint64 `json:"flo,omitempty"`
	FHi     uint64 `json:"fhi,omitempty"`
	B       int    `json:"b,omitempty"`
	S       Str    `json:"s,omitempty"`
	Strs    []Str  `json:"strs,omitempty"`
	CI      bool   `json:"ci,omitempty"`
	Opt     []bool `json:"opt,omitempty"`
	Ts      []*T   `json:"ts,omitempty"`
	HasSize bool   `json:"has_size,omitempty"`
	// Rep (multirep.go): S family, Strs the abstract parameter, R the construction route ("" = the base route)
	R string `json:"r,omitempty"`
}

// V describes a value.
//
//	Undef Default Bool(B) Int(I) Float(F bits) Str(S) Regexp(S) Binary(S) Timespan(I ns)
//	Timestamp(I sec, Ns) Arr(Vs) Hash(Vs = k0,v0,k1,v1,...) Entry(Vs = k,v) Sensitive(Vs[0]) Type(T)
//	outside the Rocq model: Uri(S) SemVer(S) SemVerRange(S) Object(S = name of a harness object type, Vs = arguments)
//	MutHash(Vs) (a *MutableHashValue)
//	TName(N namespace, A authority, S name) Deferred(S name, Vs arguments) RObj(B second struct type, I, S, Vs) (names.go)
//
// R is the construction route (routes.go): "" = the plain constructor.  For the routes "from-array" and
// "new-from-array" of a Hash, Vs holds the elements of the array that the Hash is made from.
type V struct {
	K  string `json:"k"`
	R  string `json:"r,omitempty"`
	B  bool   `json:"b,omitempty"`
	I  int64  `json:"i,omitempty"`
	Ns int64  `json:"ns,omitempty"`
	F  uint64 `json:"f,omitempty"`
	S  Str    `json:"s,omitempty"`
	Vs []*V   `json:"vs,omitempty"`
	T  *T     `json:"t,omitempty"`
	// TName (names.go): namespace N, authority A, name S
	N Str `json:"n,omitempty"`
	A Str `json:"a,omitempty"`
}

const maxI = math.MaxInt64
const minI = math.MinInt64

var negMaxFloatBits = math.Float64bits(-math.MaxFloat64)
var maxFloatBits = math.Float64bits(math.MaxFloat64)

// ---------------------------------------------------------------- constructors of descriptions

func tN(k string) *T       { return &T{K: k} }
func tBool(b int) *T       { return &T{K: "Boolean", B: b} }
func tInt(lo, hi int64) *T { return &T{K: "Integer", Lo: lo, Hi: hi} }
func tFloat(lo, hi float64) *T {
	return &T{K: "Float", FLo: math.Float64bits(lo), FHi: math.Float64bits(hi)}
}
func tStrSz(lo, hi int64) *T         { return &T{K: "StringSz", Lo: lo, Hi: hi} }
func tStrVal(s string) *T            { return &T{K: "StringVal", S: Str(s)} }
func tEnum(ci bool, vs ...string) *T { return &T{K: "Enum", CI: ci, Strs: strs(vs)} }
func tPattern(vs ...string) *T       { return &T{K: "Pattern", Strs: strs(vs)} }
func tRegexp(p string) *T            { return &T{K: "Regexp", S: Str(p)} }
func tColl(lo, hi int64) *T          { return &T{K: "Collection", Lo: lo, Hi: hi} }
func tArr(e *T, lo, hi int64) *T     { return &T{K: "Array", Ts: []*T{e}, Lo: lo, Hi: hi} }
func tHash(k, v *T, lo, hi int64) *T { return &T{K: "Hash", Ts: []*T{k, v}, Lo: lo, Hi: hi} }
func tTuple(ts ...*T) *T             { return &T{K: "Tuple", Ts: ts} }
func tTupleSz(lo, hi int64, ts ...*T) *T {
	return &T{K: "Tuple", Ts: ts, HasSize: true, Lo: lo, Hi: hi}
}
func tVariant(ts ...*T) *T  { return &T{K: "Variant", Ts: ts} }
func tUn(k string, t *T) *T { return &T{K: k, Ts: []*T{t}} }
func tText(s string) *T     { return &T{K: "Text", S: Str(s)} }

type member struct {
	name string
	opt  bool
	t    *T
}

func tStruct(ms ...member) *T {
	r := &T{K: "Struct"}
	for _, m := range ms {
		r.Strs = append(r.Strs, Str(m.name))
		r.Opt = append(r.Opt, m.opt)
		r.Ts = append(r.Ts, m.t)
	}
	return r
}

func strs(vs []string) []Str {
	r := make([]Str, len(vs))
	for i, v := range vs {
		r[i] = Str(v)
	}
	return r
}

func vUndef() *V                       { return &V{K: "Undef"} }
func vDefault() *V                     { return &V{K: "Default"} }
func vBool(b bool) *V                  { return &V{K: "Bool", B: b} }
func vInt(i int64) *V                  { return &V{K: "Int", I: i} }
func vFloat(f float64) *V              { return &V{K: "Float", F: math.Float64bits(f)} }
func vFloatBits(b uint64) *V           { return &V{K: "Float", F: b} }
func vStr(s string) *V                 { return &V{K: "Str", S: Str(s)} }
func vRegexp(s string) *V              { return &V{K: "Regexp", S: Str(s)} }
func vBinary(s string) *V              { return &V{K: "Binary", S: Str(s)} }
func vTimespan(ns int64) *V            { return &V{K: "Timespan", I: ns} }
func vTimestamp(s, ns int64) *V        { return &V{K: "Timestamp", I: s, Ns: ns} }
func vArr(vs ...*V) *V                 { return &V{K: "Arr", Vs: vs} }
func vHash(kvs ...*V) *V               { return &V{K: "Hash", Vs: kvs} }
func vEntry(k, v *V) *V                { return &V{K: "Entry", Vs: []*V{k, v}} }
func vSensitive(v *V) *V               { return &V{K: "Sensitive", Vs: []*V{v}} }
func vType(t *T) *V                    { return &V{K: "Type", T: t} }
func vUri(s string) *V                 { return &V{K: "Uri", S: Str(s)} }
func vSemVer(s string) *V              { return &V{K: "SemVer", S: Str(s)} }
func vSemVerRange(s string) *V         { return &V{K: "SemVerRange", S: Str(s)} }
func vObject(tn string, args ...*V) *V { return &V{K: "Object", S: Str(tn), Vs: args} }
func vMutHash(kvs ...*V) *V            { return &V{K: "MutHash", Vs: kvs} }

// ---------------------------------------------------------------- predicates on descriptions

func isNaNBits(b uint64) bool { f := math.Float64frombits(b); return f != f }

func (t *T) any(p func(*T) bool) bool {
	if p(t) {
		return true
	}
	for _, c := range t.Ts {
		if c.any(p) {
			return true
		}
	}
	return false
}

func (v *V) any(pv func(*V) bool, pt func(*T) bool) bool {
	if pv(v) {
		return true
	}
	if v.T != nil && v.T.any(pt) {
		return true
	}
	for _, c := range v.Vs {
		if c.any(pv, pt) {
			return true
		}
	}
	return false
}

// hasNaN: a NaN float value, or a Float type with a NaN bound, anywhere inside
func (v *V) hasNaN() bool {
	return v.any(func(x *V) bool { return x.K == "Float" && isNaNBits(x.F) },
		func(t *T) bool { return t.K == "Float" && (isNaNBits(t.FLo) || isNaNBits(t.FHi)) })
}

// hasSensitive: a Sensitive value anywhere inside
func (v *V) hasSensitive() bool {
	return v.any(func(x *V) bool { return x.K == "Sensitive" }, func(*T) bool { return false })
}

// clean: neither NaN nor Sensitive inside (the property's exception) and no value of a kind that has no hash key
func (v *V) clean() bool { return !v.hasNaN() && !v.hasSensitive() }

// inModel: every part is in the universe of coq/Model/Keys.v
func (v *V) inModel() bool {
	return !v.any(func(x *V) bool {
		switch x.K {
		case "Uri", "SemVer", "SemVerRange", "Object", "MutHash", "TName", "Deferred", "RObj":
			return true
		}
		return x.isRawFromArray()
	}, func(t *T) bool { return t.K == "Text" || t.K == "Struct" || (t.K == "Rep" && !t.repInModel()) })
}

// expected to have a hash key: everything but Sensitive and Object values (inside or at the top)
func (v *V) keyable() bool {
	return !v.any(func(x *V) bool {
		return x.K == "Sensitive" || x.K == "Object" || x.K == "TName" || x.K == "Deferred" || x.K == "RObj"
	}, func(*T) bool { return false })
}

func (v *V) kinds(into map[string]bool) {
	into[v.K] = true
	if v.T != nil {
		v.T.kinds(into)
	}
	for _, c := range v.Vs {
		c.kinds(into)
	}
}

func (t *T) kinds(into map[string]bool) {
	into["T"+t.K] = true
	for _, c := range t.Ts {
		c.kinds(into)
	}
}

func (v *V) depth() int {
	d := 0
	for _, c := range v.Vs {
		if cd := c.depth(); cd > d {
			d = cd
		}
	}
	return d + 1
}

// ---------------------------------------------------------------- building pcore values

func intRange(lo, hi int64) *types.IntegerType { return types.NewIntegerType(lo, hi) }

func (t *T) build(c px.Context) px.Type {
	switch t.K {
	case "Any":
		return types.DefaultAnyType()
	case "Unit":
		return types.DefaultUnitType()
	case "Undef":
		return types.DefaultUndefType()
	case "Default":
		return types.DefaultDefaultType()
	case "Numeric":
		return types.DefaultNumericType()
	case "Scalar":
		return types.DefaultScalarType()
	case "ScalarData":
		return types.DefaultScalarDataType()
	case "Binary":
		return types.DefaultBinaryType()
	case "Boolean":
		if t.B < 0 {
			return types.DefaultBooleanType()
		}
		return types.NewBooleanType(t.B == 1)
	case "Integer":
		return intRange(t.Lo, t.Hi)
	case "Float":
		return types.NewFloatType(math.Float64frombits(t.FLo), math.Float64frombits(t.FHi))
	case "String":
		return types.DefaultStringType()
	case "StringSz":
		return types.NewStringType(intRange(t.Lo, t.Hi), ``)
	case "StringVal":
		if t.S == "" {
			// the only way to a value-constrained String type with the empty value
			return types.WrapString(``).PType()
		}
		return types.NewStringType(nil, string(t.S))
	case "Enum":
		ss := make([]string, len(t.Strs))
		for i, s := range t.Strs {
			ss[i] = string(s)
		}
		return types.NewEnumType(ss, t.CI)
	case "Pattern":
		rs := make([]*types.RegexpType, len(t.Strs))
		for i, s := range t.Strs {
			rs[i] = types.NewRegexpType(string(s))
		}
		return types.NewPatternType(rs)
	case "Regexp":
		return types.NewRegexpType(string(t.S))
	case "Collection":
		return types.NewCollectionType(intRange(t.Lo, t.Hi))
	case "Array":
		return types.NewArrayType(t.Ts[0].build(c), intRange(t.Lo, t.Hi))
	case "Hash":
		return types.NewHashType(t.Ts[0].build(c), t.Ts[1].build(c), intRange(t.Lo, t.Hi))
	case "Tuple":
		ts := make([]px.Type, len(t.Ts))
		for i, e := range t.Ts {
			ts[i] = e.build(c)
		}
		if t.HasSize {
			return types.NewTupleType(ts, intRange(t.Lo, t.Hi))
		}
		return types.NewTupleType(ts, nil)
	case "Struct":
		es := make([]*types.StructElement, len(t.Ts))
		for i, e := range t.Ts {
			var key px.Value = types.NewStringType(nil, string(t.Strs[i]))
			if t.Opt[i] {
				key = types.NewOptionalType(key.(px.Type))
			}
			es[i] = types.NewStructElement(key, e.build(c))
		}
		return types.NewStructType(es)
	case "Variant":
		ts := make([]px.Type, len(t.Ts))
		for i, e := range t.Ts {
			ts[i] = e.build(c)
		}
		return types.NewVariantType(ts...)
	case "Optional":
		return types.NewOptionalType(t.Ts[0].build(c))
	case "NotUndef":
		return types.NewNotUndefType(t.Ts[0].build(c))
	case "Type":
		return types.NewTypeType(t.Ts[0].build(c))
	case "Sensitive":
		return types.NewSensitiveType(t.Ts[0].build(c))
	case "Iterable":
		return types.NewIterableType(t.Ts[0].build(c))
	case "Rep":
		return t.buildRep(c)
	case "Text":
		pt := c.ParseType(string(t.S))
		if rt, ok := pt.(px.ResolvableType); ok && strings.HasPrefix(string(t.S), "TypeSet[") {
			// a parsed TypeSet is a declaration that nothing has resolved yet (its versions are nil): resolve it, unregistered
			pt = rt.Resolve(c)
		}
		return pt
	}
	panic("bad type description " + t.K)
}

// wellFormed: the description denotes exactly the structure that the constructors build (they
// normalise some arguments: see the comments) and the constructors accept it.
func (t *T) wellFormed() bool {
	for _, c := range t.Ts {
		if !c.wellFormed() {
			return false
		}
	}
	switch t.K {
	case "Integer", "StringSz", "Collection", "Array", "Hash":
		if t.Lo > t.Hi {
			return false
		}
		if t.K == "StringSz" && t.Lo <= 0 && t.Hi == maxI {
			return false // NewStringType returns String (every min <= 0 without a maximum, fix b11538b)
		}
	case "Float":
		lo, hi := math.Float64frombits(t.FLo), math.Float64frombits(t.FHi)
		if lo > hi || lo != lo || hi != hi {
			return false // NewFloatType rejects min > max and a NaN bound
		}
	case "Tuple":
		if t.HasSize && t.Lo > t.Hi {
			return false
		}
	case "Variant":
		if len(t.Ts) == 1 {
			return false // NewVariantType returns the member
		}
	case "Enum":
		if t.CI {
			for _, s := range t.Strs {
				if strings.ToLower(string(s)) != string(s) {
					return false // NewEnumType lower-cases
				}
			}
		}
	case "Regexp":
		if _, err := regexpCompile(string(t.S)); err != nil {
			return false
		}
	case "Pattern":
		for _, s := range t.Strs {
			if _, err := regexpCompile(string(s)); err != nil {
				return false
			}
		}
	case "Struct":
		for _, s := range t.Strs {
			if s == "" {
				return false
			}
		}
	case "Rep":
		if t.S == "Pattern" || t.S == "Regexp" {
			for _, s := range t.Strs {
				if _, err := regexpCompile(string(s)); err != nil {
					return false
				}
			}
		}
	}
	return true
}

func (v *V) wellFormed() bool {
	for _, c := range v.Vs {
		if !c.wellFormed() {
			return false
		}
	}
	if v.R != "" && !v.routeApplicable() {
		return false
	}
	if v.isRawFromArray() {
		// the elements of the array: values with hash keys, NaN free (a NaN key is equal to nothing)
		for _, e := range v.Vs {
			if !e.keyable() || !e.clean() {
				return false
			}
		}
		return true
	}
	switch v.K {
	case "Regexp":
		if _, err := regexpCompile(string(v.S)); err != nil {
			return false
		}
	case "Type":
		return v.T.wellFormed()
	case "TName":
		return v.nameExpr() != nil
	case "Hash", "MutHash":
		// the keys of a hash have hash keys (Hash.Equals builds the index)
		for i := 0; i+1 < len(v.Vs); i += 2 {
			if !v.Vs[i].keyable() {
				return false
			}
		}
	}
	return true
}

var harnessObjectTypes = map[string]string{
	"P": `Object[{name => 'C07::P', attributes => {a => Integer, b => {type => Any, value => 3}}}]`,
	"Q": `Object[{name => 'C07::Q', attributes => {a => Any}}]`,
}

var objectTypes = map[string]px.Type{}

// objectType defines the harness object type once per run
func objectType(c px.Context, name string) px.Type {
	if t, ok := objectTypes[name]; ok {
		return t
	}
	nt := c.ParseType(harnessObjectTypes[name])
	px.AddTypes(c, nt)
	objectTypes[name] = nt
	return nt
}

func (v *V) build(c px.Context) px.Value {
	switch v.K {
	case "TName", "Deferred", "RObj":
		return v.buildNamed(c)
	}
	if v.R != "" {
		return v.buildRoute(c)
	}
	switch v.K {
	case "Undef":
		return types.WrapUndef()
	case "Default":
		return types.WrapDefault()
	case "Bool":
		return types.WrapBoolean(v.B)
	case "Int":
		return types.WrapInteger(v.I)
	case "Float":
		return types.WrapFloat(math.Float64frombits(v.F))
	case "Str":
		return types.WrapString(string(v.S))
	case "Regexp":
		return types.WrapRegexp(string(v.S))
	case "Binary":
		return types.WrapBinary([]byte(v.S))
	case "Timespan":
		return types.WrapTimespan(time.Duration(v.I))
	case "Timestamp":
		return types.WrapTimestamp(time.Unix(v.I, v.Ns).UTC())
	case "Arr":
		es := make([]px.Value, len(v.Vs))
		for i, e := range v.Vs {
			es[i] = e.build(c)
		}
		return types.WrapValues(es)
	case "Hash":
		es := make([]*types.HashEntry, 0, len(v.Vs)/2)
		for i := 0; i+1 < len(v.Vs); i += 2 {
			es = append(es, types.WrapHashEntry(v.Vs[i].build(c), v.Vs[i+1].build(c)))
		}
		return types.WrapHash(es)
	case "MutHash":
		h := types.NewMutableHash()
		for i := 0; i+1 < len(v.Vs); i += 2 {
			h.Put(v.Vs[i].build(c), v.Vs[i+1].build(c))
		}
		return h
	case "Entry":
		return types.WrapHashEntry(v.Vs[0].build(c), v.Vs[1].build(c))
	case "Sensitive":
		return types.WrapSensitive(v.Vs[0].build(c))
	case "Type":
		return v.T.build(c)
	case "Uri":
		u, err := url.Parse(string(v.S))
		if err != nil {
			panic(err)
		}
		return types.WrapURI(u)
	case "SemVer":
		if v.S == "" {
			// the absent version (of a TypeSet that is not yet initialized)
			return types.WrapSemVer(nil)
		}
		return types.WrapSemVer(semver.MustParseVersion(string(v.S)))
	case "SemVerRange":
		return types.WrapSemVerRange(semver.MustParseVersionRange(string(v.S)))
	case "Object":
		args := make([]px.Value, len(v.Vs))
		for i, e := range v.Vs {
			args[i] = e.build(c)
		}
		return px.New(c, objectType(c, string(v.S)), args...)
	case "TName", "Deferred", "RObj":
		return v.buildNamed(c)
	}
	panic("bad value description " + v.K)
}

func regexpCompile(p string) (*regexp.Regexp, error) { return regexp.Compile(p) }

// ---------------------------------------------------------------- text (for logs and samples)

func (t *T) String() string {
	sz := func() string {
		return fmt.Sprintf("%s,%s", bound(t.Lo), bound(t.Hi))
	}
	subs := func() string {
		ss := make([]string, len(t.Ts))
		for i, e := range t.Ts {
			ss[i] = e.String()
		}
		return strings.Join(ss, ",")
	}
	switch t.K {
	case "Boolean":
		return fmt.Sprintf("Boolean(%d)", t.B)
	case "Integer", "StringSz", "Collection":
		return fmt.Sprintf("%s[%s]", t.K, sz())
	case "Float":
		return fmt.Sprintf("Float[%v,%v]", math.Float64frombits(t.FLo), math.Float64frombits(t.FHi))
	case "Rep":
		return t.repString()
	case "StringVal", "Regexp", "Text":
		return fmt.Sprintf("%s(%q)", t.K, string(t.S))
	case "Enum":
		return fmt.Sprintf("Enum(%q,ci=%v)", t.Strs, t.CI)
	case "Pattern":
		return fmt.Sprintf("Pattern(%q)", t.Strs)
	case "Array", "Hash":
		return fmt.Sprintf("%s[%s,%s]", t.K, subs(), sz())
	case "Tuple":
		if t.HasSize {
			return fmt.Sprintf("Tuple[%s;%s]", subs(), sz())
		}
		return fmt.Sprintf("Tuple[%s]", subs())
	case "Struct":
		ss := make([]string, len(t.Ts))
		for i, e := range t.Ts {
			o := ""
			if t.Opt[i] {
				o = "?"
			}
			ss[i] = fmt.Sprintf("%q%s=>%s", string(t.Strs[i]), o, e)
		}
		return "Struct{" + strings.Join(ss, ",") + "}"
	case "Variant", "Optional", "NotUndef", "Type", "Sensitive", "Iterable":
		return fmt.Sprintf("%s[%s]", t.K, subs())
	}
	return t.K
}

func bound(i int64) string {
	switch i {
	case maxI:
		return "max"
	case minI:
		return "min"
	}
	return strconv.FormatInt(i, 10)
}

func (v *V) String() string {
	if v.R != "" {
		u := *v
		u.R = ""
		if v.isRawFromArray() {
			u.K = "Arr"
			return "Hash(" + v.R + " " + u.String() + ")"
		}
		return u.String() + "@" + v.R
	}
	subs := func() string {
		ss := make([]string, len(v.Vs))
		for i, e := range v.Vs {
			ss[i] = e.String()
		}
		return strings.Join(ss, ",")
	}
	switch v.K {
	case "Undef":
		return "undef"
	case "Default":
		return "default"
	case "Bool":
		return strconv.FormatBool(v.B)
	case "Int":
		return strconv.FormatInt(v.I, 10)
	case "Float":
		f := math.Float64frombits(v.F)
		if f != f {
			return fmt.Sprintf("NaN(%#x)", v.F)
		}
		if f == 0 && math.Signbit(f) {
			return "-0.0"
		}
		return strconv.FormatFloat(f, 'g', -1, 64) + "f"
	case "Str":
		return strconv.QuoteToASCII(string(v.S))
	case "Regexp":
		return "/" + string(v.S) + "/"
	case "Binary":
		return "Binary(" + strconv.QuoteToASCII(string(v.S)) + ")"
	case "Timespan":
		return fmt.Sprintf("Timespan(%d)", v.I)
	case "Timestamp":
		return fmt.Sprintf("Timestamp(%d,%d)", v.I, v.Ns)
	case "Arr":
		return "[" + subs() + "]"
	case "Hash", "MutHash":
		ss := make([]string, 0, len(v.Vs)/2)
		for i := 0; i+1 < len(v.Vs); i += 2 {
			ss = append(ss, v.Vs[i].String()+"=>"+v.Vs[i+1].String())
		}
		p := ""
		if v.K == "MutHash" {
			p = "mutable"
		}
		return p + "{" + strings.Join(ss, ",") + "}"
	case "Entry":
		return "Entry(" + subs() + ")"
	case "Sensitive":
		return "Sensitive(" + subs() + ")"
	case "Type":
		return v.T.String()
	case "Object":
		return string(v.S) + "(" + subs() + ")"
	case "TName":
		a := ""
		if string(v.A) != runtimeAuthority {
			a = fmt.Sprintf(",authority=%q", string(v.A))
		}
		return fmt.Sprintf("TypedName(%s,%q%s)", string(v.N), string(v.S), a)
	case "Deferred":
		return fmt.Sprintf("Deferred(%q;%s)", string(v.S), subs())
	case "RObj":
		n := "R"
		if v.B {
			n = "S"
		}
		return fmt.Sprintf("%s{%d,%q,[%s]}", n, v.I, string(v.S), subs())
	}
	return fmt.Sprintf("%s(%q)", v.K, string(v.S))
}

// ---------------------------------------------------------------- Gallina terms (coq/Model/Keys.v)

func gN64(b uint64) string { return fmt.Sprintf("%d%%N", b) }

func (t *T) gallina() string {
	sub := func(i int) string { return t.Ts[i].gallina() }
	subs := func() string {
		ss := make([]string, len(t.Ts))
		for i := range t.Ts {
			ss[i] = sub(i)
		}
		return lib.GList(ss, "ty")
	}
	strl := func() string {
		ss := make([]string, len(t.Strs))
		for i, s := range t.Strs {
			ss[i] = lib.GStr(string(s))
		}
		return lib.GList(ss, "str")
	}
	switch t.K {
	case "Any":
		return "TAny"
	case "Unit":
		return "TUnit"
	case "Undef", "Default", "Numeric", "Scalar", "ScalarData", "Binary":
		return "(TNullary N" + t.K + ")"
	case "Boolean":
		switch t.B {
		case 0:
			return "(TBoolean (Some false))"
		case 1:
			return "(TBoolean (Some true))"
		}
		return "(TBoolean None)"
	case "Integer":
		return fmt.Sprintf("(TInteger %s %s)", lib.GZ(t.Lo), lib.GZ(t.Hi))
	case "Float":
		return fmt.Sprintf("(TFloat %s %s)", gN64(t.FLo), gN64(t.FHi))
	case "String":
		return "TString"
	case "StringSz":
		return fmt.Sprintf("(TStringSz %s %s)", lib.GZ(t.Lo), lib.GZ(t.Hi))
	case "StringVal":
		return fmt.Sprintf("(TStringVal %s)", lib.GStr(string(t.S)))
	case "Enum":
		return fmt.Sprintf("(TEnum %s %s)", lib.GBool(t.CI), strl())
	case "Pattern":
		return fmt.Sprintf("(TPattern %s)", strl())
	case "Regexp":
		return fmt.Sprintf("(TRegexp %s)", lib.GStr(string(t.S)))
	case "Collection":
		return fmt.Sprintf("(TCollection %s %s)", lib.GZ(t.Lo), lib.GZ(t.Hi))
	case "Array":
		return fmt.Sprintf("(TArray %s %s %s)", sub(0), lib.GZ(t.Lo), lib.GZ(t.Hi))
	case "Hash":
		return fmt.Sprintf("(THash %s %s %s %s)", sub(0), sub(1), lib.GZ(t.Lo), lib.GZ(t.Hi))
	case "Tuple":
		lo, hi := t.Lo, t.Hi
		if !t.HasSize {
			// the given-or-actual size
			lo, hi = int64(len(t.Ts)), int64(len(t.Ts))
		}
		return fmt.Sprintf("(TTuple %s %s %s)", subs(), lib.GZ(lo), lib.GZ(hi))
	case "Struct":
		ms := make([]string, len(t.Ts))
		for i := range t.Ts {
			ms[i] = fmt.Sprintf("(%s, %s, %s)", lib.GStr(string(t.Strs[i])), lib.GBool(t.Opt[i]), sub(i))
		}
		return fmt.Sprintf("(TStruct %s)", lib.GList(ms, "str * bool * ty"))
	case "Variant":
		return fmt.Sprintf("(TVariant %s)", subs())
	case "Optional", "NotUndef", "Type", "Sensitive", "Iterable":
		return fmt.Sprintf("(T%s %s)", t.K, sub(0))
	case "Rep":
		return t.repGallina()
	}
	panic("no Gallina term for type " + t.K)
}

func (v *V) gallina() string {
	switch v.K {
	case "Undef":
		return "VUndef"
	case "Default":
		return "VDefault"
	case "Bool":
		return "(VBool " + lib.GBool(v.B) + ")"
	case "Int":
		return "(VInt " + lib.GZ(v.I) + ")"
	case "Float":
		return "(VFloat " + gN64(v.F) + ")"
	case "Str":
		return "(VStr " + lib.GStr(string(v.S)) + ")"
	case "Regexp":
		return "(VRegexp " + lib.GStr(string(v.S)) + ")"
	case "Binary":
		return "(VBinary " + lib.GStr(string(v.S)) + ")"
	case "Timespan":
		return "(VTimespan " + lib.GZ(v.I) + ")"
	case "Timestamp":
		return "(VTimestamp " + lib.GZ(v.I) + " " + lib.GZ(v.Ns) + ")"
	case "Arr":
		es := make([]string, len(v.Vs))
		for i, e := range v.Vs {
			es[i] = e.gallina()
		}
		return "(VArr " + lib.GList(es, "value") + ")"
	case "Hash":
		if v.isRawFromArray() {
			panic("no VHash term for a hash described by the array it is made from")
		}
		es := make([]string, 0, len(v.Vs)/2)
		for i := 0; i+1 < len(v.Vs); i += 2 {
			es = append(es, lib.GPair(v.Vs[i].gallina(), v.Vs[i+1].gallina()))
		}
		return "(VHash " + lib.GList(es, "value * value") + ")"
	case "Entry":
		return "(VEntry " + v.Vs[0].gallina() + " " + v.Vs[1].gallina() + ")"
	case "Sensitive":
		return "(VSensitive " + v.Vs[0].gallina() + ")"
	case "Type":
		return "(VType " + v.T.gallina() + ")"
	}
	panic("no Gallina term for value " + v.K)
}
