package main

import (
	"fmt"
	"strings"

	"verifharness/lib"
)

// ------------------------------------------------------------------------------------------------
// names

var segPool = []string{"a", "b", "c", "foo", "bar", "ns", "sub", "deep", "my_type", "x1"}
var modPool = []string{"mymod", "other", "tsmod", "m", "a", "environment", "init_typeset", "x9_y"}

func capSeg(s string) string {
	if s == "" {
		return s
	}
	return strings.ToUpper(s[:1]) + s[1:]
}

func canon(segs []string) string {
	out := make([]string, len(segs))
	for i, s := range segs {
		out[i] = capSeg(s)
	}
	return strings.Join(out, "::")
}

// caseVariant: the same name in another letter case
func caseVariant(r *lib.Rng, name string) string {
	switch r.Intn(4) {
	case 0:
		return strings.ToLower(name)
	case 1:
		return strings.ToUpper(name)
	case 2:
		b := []byte(name)
		for i := range b {
			if r.Bool() {
				if b[i] >= 'a' && b[i] <= 'z' {
					b[i] -= 32
				} else if b[i] >= 'A' && b[i] <= 'Z' {
					b[i] += 32
				}
			}
		}
		return string(b)
	}
	return canon(strings.Split(strings.ToLower(name), "::"))
}

// ------------------------------------------------------------------------------------------------
// trees

type treeGen struct {
	r      *lib.Rng
	marker int
	// names implied by the files generated so far (canonical spelling)
	names []string
}

func (g *treeGen) nextMarker() int {
	g.marker += 10
	return g.marker
}

func (g *treeGen) pick(pool []string) string { return pool[g.r.Intn(len(pool))] }

func mixCase(r *lib.Rng, s string) string {
	switch r.Intn(3) {
	case 0:
		return capSeg(s)
	case 1:
		return strings.ToUpper(s)
	}
	b := []byte(s)
	i := r.Intn(len(b))
	if b[i] >= 'a' && b[i] <= 'z' {
		b[i] -= 32
	}
	return string(b)
}

// genModule: a loader root for module `mod` ("" = global).  unreadableKinds: the kinds usable for
// unreadable files (mode000 only when that works for this user).
func (g *treeGen) genModule(dir, mod string, unreadableKinds []string) ModSpec {
	r := g.r
	m := ModSpec{Dir: dir, Name: mod}
	global := mod == "" || mod == "environment"
	used := map[string]bool{}
	addFile := func(f FileSpec) {
		if used[f.Rel] {
			return
		}
		// no file below a path that is a file, no file at a path that is a directory
		for p := range used {
			if strings.HasPrefix(f.Rel, p+"/") || strings.HasPrefix(p, f.Rel+"/") {
				return
			}
		}
		used[f.Rel] = true
		m.Files = append(m.Files, f)
	}
	implied := func(relSegs []string) []string {
		if global {
			return relSegs
		}
		return append([]string{mod}, relSegs...)
	}
	n := 1 + r.Intn(8)
	for i := 0; i < n; i++ {
		depth := 0
		switch x := r.Intn(10); {
		case x < 5:
			depth = 0
		case x < 8:
			depth = 1
		default:
			depth = 2
		}
		var segs []string
		for d := 0; d <= depth; d++ {
			segs = append(segs, g.pick(segPool))
		}
		fileSegs := append([]string{}, segs...)
		if r.Chance(1, 6) {
			k := r.Intn(len(fileSegs))
			fileSegs[k] = mixCase(r, fileSegs[k])
		}
		rel := "types/" + strings.Join(fileSegs, "/") + ".pp"
		full := implied(segs)
		name := canon(full)
		c := &Content{Marker: g.nextMarker(), Pad: r.Intn(4), Pre: r.Intn(nPre)}
		f := FileSpec{Rel: rel, Kind: "file", Content: c}
		switch x := r.Intn(100); {
		case x < 46:
			c.Class, c.Declared = "good", name
			if r.Chance(1, 5) {
				c.Declared = mixDeclared(r, name)
			}
			if r.Chance(1, 16) {
				c.Enc = []string{"bom", "crlf"}[r.Intn(2)]
			}
		case x < 54: // a good file that refers to other names (possibly cyclic, absent or bad)
			c.Class, c.Declared = "good", name
			for k := 0; k < 1+r.Intn(2); k++ {
				if len(g.names) > 0 && r.Chance(2, 3) {
					// a reference is rendered into the text of the alias: only a name that IS a type name may be used
					// (the names of a module-path entry such as "9lives" / "Invalid-mod" would make the file malformed)
					if n := g.names[r.Intn(len(g.names))]; validTypeRef(n) {
						c.Refs = append(c.Refs, n)
					} else {
						c.Refs = append(c.Refs, canon(implied([]string{g.pick(segPool)})))
					}
				} else {
					var rs []string
					for d := 0; d <= r.Intn(2); d++ {
						rs = append(rs, g.pick(segPool))
					}
					c.Refs = append(c.Refs, canon(implied(rs)))
				}
			}
		case x < 64: // misnamed
			c.Class = "good"
			switch r.Intn(4) {
			case 0:
				c.Declared = canon(segs) // module prefix missing (same as name for a global loader: then a sibling)
				if global {
					c.Declared = canon(append(append([]string{}, full[:len(full)-1]...), g.pick(segPool)+"z"))
				}
			case 1:
				c.Declared = name + "::" + capSeg(g.pick(segPool))
			case 2:
				c.Declared = canon(append([]string{"other"}, segs...))
			default:
				c.Declared = name + "x"
			}
		case x < 72:
			c.Class, c.Declared, c.Tmpl = "malformed", name, r.Intn(nMalformed)
		case x < 77:
			c.Class, c.Tmpl = "nodef", r.Intn(nNoDef)
		case x < 82:
			c.Class, c.Declared = "good", name
			f.Kind = unreadableKinds[r.Intn(len(unreadableKinds))]
		case x < 87:
			c.Class = "anon"
		default:
			c.Class, c.Declared = "typeset", name
			for k := r.Intn(4); k > 0; k-- {
				mname := capSeg(g.pick(segPool))
				dup := false
				for _, e := range c.Members {
					if e == mname {
						dup = true
					}
				}
				if !dup {
					c.Members = append(c.Members, mname)
					g.names = append(g.names, name+"::"+mname)
				}
			}
		}
		g.names = append(g.names, name)
		addFile(f)
	}
	// a module's type set
	if !global && r.Chance(1, 2) {
		c := &Content{Marker: g.nextMarker(), Pad: r.Intn(3), Pre: r.Intn(nPre)}
		f := FileSpec{Rel: "types/init_typeset.pp", Kind: "file", Content: c}
		switch x := r.Intn(10); {
		case x < 6:
			c.Class, c.Declared = "typeset", capSeg(mod)
			for k := 1 + r.Intn(3); k > 0; k-- {
				mname := capSeg(g.pick(segPool))
				dup := false
				for _, e := range c.Members {
					if e == mname {
						dup = true
					}
				}
				if !dup {
					c.Members = append(c.Members, mname)
					g.names = append(g.names, capSeg(mod)+"::"+mname)
				}
			}
		case x < 7:
			c.Class, c.Declared = "good", capSeg(mod) // not a type set
		case x < 8:
			c.Class, c.Declared, c.Tmpl = "malformed", capSeg(mod), r.Intn(nMalformed)
		case x < 9:
			c.Class, c.Declared = "typeset", "Other" // misnamed
			c.Members = []string{"A"}
		default:
			c.Class, c.Tmpl = "nodef", r.Intn(nNoDef)
		}
		g.names = append(g.names, capSeg(mod))
		addFile(f)
	}
	// stray files: never definitions
	for k := r.Intn(4); k > 0; k-- {
		s := g.pick(segPool)
		c := &Content{Class: "good", Declared: canon(implied([]string{s})), Marker: g.nextMarker()}
		var rel string
		switch r.Intn(12) {
		case 0:
			rel = "types/" + s + ".txt"
		case 1:
			rel = "types/" + s + ".PP"
		case 2:
			rel = "types/" + s + ".pp.bak"
		case 3:
			rel = "types/" + s
		case 4:
			rel = s + ".pp" // outside the types directory
		case 5:
			rel = "type/" + s + ".pp"
		case 6:
			rel = "Types/" + s + ".pp"
		case 7:
			rel = "types/" + s + "-x.pp"
		case 8:
			rel = "types/." + s + ".pp"
		case 9:
			rel = "functions/" + s + ".pp"
		case 10:
			rel = "types/init.pp"
		default:
			// a directory that looks like a definition file
			addFile(FileSpec{Rel: "types/" + s + "dir.pp", Kind: "dir"})
			continue
		}
		addFile(FileSpec{Rel: rel, Kind: "file", Content: c})
	}
	return m
}

func mixDeclared(r *lib.Rng, name string) string {
	// another spelling that the parser still takes as a type name (every segment starts upper case)
	segs := strings.Split(name, "::")
	for i, s := range segs {
		b := []byte(s)
		for j := 1; j < len(b); j++ {
			if r.Chance(1, 3) && b[j] >= 'a' && b[j] <= 'z' {
				b[j] -= 32
			}
		}
		segs[i] = string(b)
	}
	return strings.Join(segs, "::")
}

// ------------------------------------------------------------------------------------------------
// lookups

func nearMisses(r *lib.Rng, name string, mods []ModSpec) []string {
	segs := strings.Split(name, "::")
	out := []string{caseVariant(r, name), strings.ToLower(name), strings.ToUpper(name)}
	out = append(out, name+"::"+capSeg(segPool[r.Intn(len(segPool))])) // extra segment
	if len(segs) > 1 {
		out = append(out, strings.Join(segs[1:], "::"))           // module prefix missing
		out = append(out, strings.Join(segs[:len(segs)-1], "::")) // parent
		out = append(out, "Other::"+strings.Join(segs[1:], "::")) // wrong prefix
	} else {
		out = append(out, "Mymod::"+name)
	}
	sib := append(append([]string{}, segs[:len(segs)-1]...), capSeg(segPool[r.Intn(len(segPool))]))
	out = append(out, strings.Join(sib, "::"))
	for _, m := range mods {
		if m.Name != "" && r.Chance(1, 3) {
			out = append(out, capSeg(m.Name), capSeg(m.Name)+"::"+segs[len(segs)-1])
		}
	}
	return out
}

var invalidNames = []string{"Foo-bar", "A::1b", "A::::B", "A::", "Mymod::a-b", "A b"}

func genOps(r *lib.Rng, cs *Case, implied []string, n int) {
	var pool []string
	for _, nm := range implied {
		pool = append(pool, nm, nm)
		pool = append(pool, nearMisses(r, nm, cs.Mods)...)
	}
	if len(pool) == 0 {
		pool = []string{"A", "Mymod::A"}
	}
	nctx := 3
	for i := 0; i < n; i++ {
		x := r.Intn(100)
		name := pool[r.Intn(len(pool))]
		if r.Chance(1, 60) {
			name = invalidNames[r.Intn(len(invalidNames))]
		}
		if r.Chance(1, 40) {
			name = "::" + name
		}
		if r.Chance(1, 50) {
			name = []string{"Integer", "String", "integer"}[r.Intn(3)]
		}
		mod := r.Intn(len(cs.Mods))
		switch {
		case x < 78:
			ctx := r.Intn(nctx) - 1
			if cs.Top == "runtime" && ctx < 0 {
				ctx = 0
			}
			cs.Ops = append(cs.Ops, Op{Op: "load", Ctx: ctx, Name: name})
		case x < 88:
			cs.Ops = append(cs.Ops, Op{Op: "has", Mod: mod, Name: name})
		case x < 92:
			cs.Ops = append(cs.Ops, Op{Op: "discover", Mod: mod})
		case x < 96:
			cs.Ops = append(cs.Ops, Op{Op: "effpath", Mod: mod, Name: name})
		default:
			// the relative path of a file of that module (below types/), or a path made from a name
			rel := strings.ToLower(strings.ReplaceAll(name, "::", "/")) + ".pp"
			var cands []string
			for _, f := range cs.Mods[mod].Files {
				if strings.HasPrefix(f.Rel, "types/") && f.Kind != "dir" {
					cands = append(cands, f.Rel[len("types/"):])
				}
			}
			if len(cands) > 0 && r.Bool() {
				rel = cands[r.Intn(len(cands))]
			}
			if r.Chance(1, 12) {
				rel = []string{"ab", "", "x", ".pp", "a/.pp", "pp", "abc", "init.pp", "init_typeset.pp", "a/init.pp"}[r.Intn(10)]
			}
			cs.Ops = append(cs.Ops, Op{Op: "typednames", Mod: mod, Name: rel})
		}
	}
}

func unreadableKinds(mode000 bool) []string {
	ks := []string{"dangling", "linkdir"}
	if mode000 {
		ks = append(ks, "mode000", "mode000")
	}
	return ks
}

func genRandomCase(r *lib.Rng, mode000 bool) Case {
	g := &treeGen{r: r}
	cs := Case{Family: "random"}
	uk := unreadableKinds(mode000)
	switch x := r.Intn(100); {
	case x < 25:
		cs.Top = "single"
		cs.Family = "random.global"
		mod := ""
		if r.Chance(1, 8) {
			mod = "environment"
		}
		cs.Mods = []ModSpec{g.genModule("root", mod, uk)}
	case x < 55:
		cs.Top = "single"
		cs.Family = "random.module"
		mod := modPool[r.Intn(len(modPool))]
		if mod == "environment" {
			mod = "mymod"
		}
		cs.Mods = []ModSpec{g.genModule(mod, mod, uk)}
	case x < 80:
		cs.Top = "dep"
		cs.Family = "random.dep"
		seen := map[string]bool{}
		for k := 1 + r.Intn(3); k > 0; k-- {
			mod := modPool[r.Intn(len(modPool))]
			if seen[mod] {
				continue
			}
			seen[mod] = true
			cs.Mods = append(cs.Mods, g.genModule(mod, mod, uk))
		}
		if r.Chance(1, 6) {
			cs.Mods = append(cs.Mods, g.genModule("globalroot", "", uk))
		}
	case x < 88:
		// file-based loaders parented by file-based loaders: the top loader (Mods[0]) is a module's, the last one
		// (whose parent is the system loader) mostly the environment's.  Generated from the far end so that the
		// files of a loader can refer to what the loaders above it define (TypeSet members in particular).
		cs.Top = "chain"
		cs.Family = "random.chain"
		var rev []ModSpec
		switch y := r.Intn(10); {
		case y < 7:
			env := []string{"environment", "environment", ""}[r.Intn(3)]
			rev = append(rev, g.genModule("env", env, uk))
		case y < 9:
			mod := []string{"other", "tsmod"}[r.Intn(2)]
			rev = append(rev, g.genModule(mod, mod, uk))
		default:
			rev = append(rev, g.genModule("env", "", uk))
			rev = append(rev, g.genModule("env2", "environment", uk))
		}
		seen := map[string]bool{"other": true, "tsmod": true, "environment": true, "init_typeset": true}
		for k := 1 + r.Intn(2); k > 0; k-- {
			mod := modPool[r.Intn(len(modPool))]
			if seen[mod] {
				continue
			}
			seen[mod] = true
			rev = append(rev, g.genModule(mod, mod, uk))
		}
		for i := len(rev) - 1; i >= 0; i-- {
			cs.Mods = append(cs.Mods, rev[i])
		}
	default:
		cs.Top = "runtime"
		cs.Family = "random.runtime"
		seen := map[string]bool{}
		for k := 1 + r.Intn(3); k > 0; k-- {
			mod := modPool[r.Intn(len(modPool))]
			if seen[mod] {
				continue
			}
			seen[mod] = true
			cs.Mods = append(cs.Mods, g.genModule(mod, mod, uk))
		}
		// entries of the module path that are not modules
		if r.Chance(1, 3) {
			bad := []string{"Invalid-mod", "9lives", "UPPER", "has space", ".hidden"}[r.Intn(5)]
			mm := g.genModule(bad, bad, uk)
			cs.Mods = append(cs.Mods, mm)
		}
		if r.Chance(1, 4) {
			cs.Mods = append(cs.Mods, ModSpec{Dir: "plainfile", Name: "plainfile", IsFile: true})
		}
	}
	nops := 6 + r.Intn(20)
	if cs.Top == "chain" {
		nops += 8 // what a loader answers the second and third time matters here
	}
	genOps(r, &cs, g.names, nops)
	// further generations at the same path (one case in seven): the directory is written again with a changed
	// layout, new loaders; the names of all generations are looked up in each
	if r.Chance(1, 7) {
		prev := &cs
		for k := 1 + r.Intn(2); k > 0; k-- {
			nx := g.nextGeneration(prev, uk)
			genOps(r, &nx, g.names, 6+r.Intn(14))
			cs.Then = append(cs.Then, nx)
			prev = &cs.Then[len(cs.Then)-1]
		}
		cs.Family += ".regen"
	}
	return cs
}

// nextGeneration: the same loader roots (directories, module names, topology) with a changed content: of the files
// of the generation before some stay as they are, some get another content at the same path (a repaired file, a
// file that became misnamed or malformed, another definition, a TypeSet with other members), some are gone; new
// files appear.
func (g *treeGen) nextGeneration(prev *Case, uk []string) Case {
	r := g.r
	nx := Case{Family: prev.Family, Top: prev.Top}
	for mi := range prev.Mods {
		pm := &prev.Mods[mi]
		if pm.IsFile {
			nx.Mods = append(nx.Mods, *pm)
			continue
		}
		var m ModSpec
		if r.Chance(1, 3) {
			m = g.genModule(pm.Dir, pm.Name, uk) // new files (the pools are small: many land on a path used before)
		} else {
			m = ModSpec{Dir: pm.Dir, Name: pm.Name}
		}
		v := &modView{m: pm}
		for fi := range pm.Files {
			f := pm.Files[fi]
			if r.Chance(1, 6) {
				continue // gone
			}
			if f.Content != nil && f.Kind == "file" && r.Chance(2, 3) {
				f.Content = g.alter(f.Content, v.nameOfFile(&f), !isGlobalMod(pm) && f.Rel == "types/init_typeset.pp")
			}
			mergeFile(&m, f)
		}
		nx.Mods = append(nx.Mods, m)
	}
	return nx
}

func mergeFile(m *ModSpec, f FileSpec) {
	for _, e := range m.Files {
		if e.Rel == f.Rel || strings.HasPrefix(f.Rel, e.Rel+"/") || strings.HasPrefix(e.Rel, f.Rel+"/") {
			return
		}
	}
	m.Files = append(m.Files, f)
}

// alter: another content for the same path (implied: the lower-case name the path stands for, "" for a stray file)
func (g *treeGen) alter(c *Content, implied string, initTS bool) *Content {
	r := g.r
	n := *c
	n.Refs = append([]string{}, c.Refs...)
	n.Members = append([]string{}, c.Members...)
	n.Enc = ""
	name := "Stray"
	if implied != "" && validName(implied) {
		name = canon(strings.Split(implied, "::"))
	}
	switch x := r.Intn(12); {
	case x < 3: // the same kind of file with another definition
		n.Marker = g.nextMarker()
		if n.Class == "malformed" {
			n.Tmpl, n.Pad, n.Pre = r.Intn(nMalformed), r.Intn(4), r.Intn(nPre)
		}
	case x < 6: // repaired / correctly named now
		n.Marker = g.nextMarker()
		n.Class, n.Declared = "good", name
		if initTS {
			n.Class, n.Members = "typeset", []string{capSeg(g.pick(segPool))}
		} else if c.Class == "typeset" && r.Bool() {
			n.Class = "typeset"
		}
		n.Pad = r.Intn(3)
	case x < 8: // misnamed now
		n.Marker = g.nextMarker()
		if n.Class != "typeset" {
			n.Class = "good"
		}
		n.Declared = name + "x"
		n.Pad, n.Pre = r.Intn(4), r.Intn(nPre)
	case x < 10: // malformed now
		n.Marker = g.nextMarker()
		n.Class, n.Declared, n.Tmpl, n.Pad, n.Pre = "malformed", name, r.Intn(nMalformed), r.Intn(4), r.Intn(nPre)
	case x < 11: // a TypeSet with other members
		n.Marker = g.nextMarker()
		n.Class, n.Declared = "typeset", name
		if len(n.Members) > 0 && r.Bool() {
			n.Members = n.Members[1:]
		}
		mn := capSeg(g.pick(segPool))
		dup := false
		for _, e := range n.Members {
			dup = dup || e == mn
		}
		if !dup {
			n.Members = append(n.Members, mn)
			g.names = append(g.names, name+"::"+mn)
		}
	default:
		n.Class, n.Tmpl = "nodef", r.Intn(nNoDef)
	}
	if n.Class != "good" && n.Class != "anon" {
		n.Refs = nil
	}
	if n.Class != "typeset" {
		n.Members = nil
	}
	return &n
}

// ------------------------------------------------------------------------------------------------
// bounded-exhaustive family for a chain of two file-based loaders: the environment's loader (global) with no
// or one file, under it the loader of module m with no or one file; every name of a fixed set is looked up
// through the module loader three times (directly, through a child context, directly in reverse order), then
// HasEntry for every name and Discover on both loaders.

var chParentPaths = []string{"types/a.pp", "types/m.pp", "types/m/b.pp", "types/a/b.pp"}
var chParentKinds = []string{"good", "ts1", "anon", "malformed", "wrong"}
var chChildPaths = []string{"types/b.pp", "types/init_typeset.pp", "types/a.pp"}
var chChildKinds = []string{"good", "ts1", "wrong", "goodref"}
var chNames = []string{"A", "A::B", "M", "M::B", "M::A", "M::B::B", "A::B::B"}

func chOps(rot int) []Op {
	var ops []Op
	n := len(chNames)
	for i := 0; i < n; i++ {
		ops = append(ops, Op{Op: "load", Ctx: -1, Name: chNames[(i+rot)%n]})
	}
	for i := 0; i < n; i++ {
		ops = append(ops, Op{Op: "load", Ctx: 0, Name: chNames[(i+rot)%n]})
	}
	for i := n - 1; i >= 0; i-- {
		nm := chNames[(i+rot)%n]
		if i%2 == 1 {
			nm = strings.ToLower(nm)
		}
		ops = append(ops, Op{Op: "load", Ctx: -1, Name: nm})
	}
	for _, nm := range chNames {
		ops = append(ops, Op{Op: "has", Mod: 0, Name: nm}, Op{Op: "has", Mod: 1, Name: nm})
	}
	ops = append(ops, Op{Op: "discover", Mod: 0}, Op{Op: "discover", Mod: 1})
	return ops
}

func genExhaustiveChain(each func(Case)) {
	idx := 0
	for _, env := range []string{"environment", ""} {
		var parents [][]FileSpec
		parents = append(parents, nil)
		for _, p := range chParentPaths {
			for _, k := range chParentKinds {
				parents = append(parents, []FileSpec{exFile(env, p, k, 30)})
			}
		}
		var children [][]FileSpec
		children = append(children, nil)
		for _, p := range chChildPaths {
			for _, k := range chChildKinds {
				children = append(children, []FileSpec{exFile("m", p, k, 10)})
			}
		}
		for pi, pf := range parents {
			for ci, cf := range children {
				if env == "" && (pi+ci)%3 != 0 {
					continue // the unnamed global loader behaves as the environment's: a third of the combinations
				}
				idx++
				each(Case{Family: "exhaustive.chain", Top: "chain",
					Mods: []ModSpec{{Dir: "m", Name: "m", Files: cf}, {Dir: "env", Name: env, Files: pf}}, Ops: chOps(idx)})
			}
		}
	}
}

// ------------------------------------------------------------------------------------------------
// bounded-exhaustive family: every tree of one or two files over a small universe of paths and
// contents, for a global loader and two module loaders, with every name of a fixed name set looked up
// through two contexts.

type exOpt struct {
	rel  string
	kind string // content kind
}

var exPaths = []string{"types/a.pp", "types/b.pp", "types/a/b.pp", "types/A.pp", "types/init_typeset.pp", "types/b.txt", "a.pp", "types/a/init_typeset.pp"}
var exKinds1 = []string{"good", "wrong", "anon", "ts1", "ts0", "malformed", "nodef", "dangling"}
var exKinds2 = []string{"good", "ts1", "malformed", "wrong"}
var exNames = []string{"A", "a", "B", "A::B", "a::b", "A::A", "M", "M::A", "M::A::B", "M::B", "A::B::C", "A::Init_typeset"}

func exFile(mod string, rel, kind string, marker int) FileSpec {
	v := &modView{m: &ModSpec{Name: mod}}
	f := FileSpec{Rel: rel, Kind: "file"}
	implied := v.nameOfFile(&f)
	name := "Zz"
	if implied != "" {
		name = canon(strings.Split(implied, "::"))
	} else if strings.HasSuffix(rel, "a.pp") || strings.HasSuffix(rel, "b.txt") {
		name = canon(strings.Split(strings.TrimPrefix(mod+"::", "::")+"a", "::"))
	}
	c := &Content{Marker: marker}
	f.Content = c
	switch kind {
	case "good":
		c.Class, c.Declared = "good", name
	case "wrong":
		c.Class, c.Declared = "good", name+"x"
	case "goodref":
		c.Class, c.Declared, c.Refs = "good", name, []string{"A::B"}
	case "anon":
		c.Class = "anon"
	case "ts1":
		c.Class, c.Declared, c.Members = "typeset", name, []string{"B"}
	case "tsa":
		c.Class, c.Declared, c.Members = "typeset", name, []string{"A"}
	case "ts0":
		c.Class, c.Declared = "typeset", name
	case "malformed":
		c.Class, c.Declared, c.Tmpl, c.Pad = "malformed", name, marker%nMalformed, marker%3
	case "nodef":
		c.Class, c.Tmpl = "nodef", marker%nNoDef
	case "dangling":
		c.Class, c.Declared = "good", name
		f.Kind = "dangling"
	}
	return f
}

func exOps(rot int) []Op {
	var ops []Op
	n := len(exNames)
	for ctx := 0; ctx < 2; ctx++ {
		for i := 0; i < n; i++ {
			ops = append(ops, Op{Op: "load", Ctx: ctx, Name: exNames[(i+rot)%n]})
		}
	}
	for _, nm := range exNames {
		ops = append(ops, Op{Op: "has", Mod: 0, Name: nm})
	}
	ops = append(ops, Op{Op: "discover", Mod: 0})
	return ops
}

func genExhaustive(each func(Case)) {
	idx := 0
	for _, mod := range []string{"", "a", "m"} {
		dir := "root"
		if mod != "" {
			dir = mod
		}
		for _, p := range exPaths {
			for _, k := range exKinds1 {
				idx++
				each(Case{Family: "exhaustive.1file", Top: "single",
					Mods: []ModSpec{{Dir: dir, Name: mod, Files: []FileSpec{exFile(mod, p, k, 10)}}}, Ops: exOps(idx)})
			}
		}
		for i, p := range exPaths {
			for _, q := range exPaths[i+1:] {
				if strings.HasPrefix(q, strings.TrimSuffix(p, ".pp")+".pp/") {
					continue
				}
				for _, k1 := range exKinds2 {
					for _, k2 := range exKinds2 {
						idx++
						each(Case{Family: "exhaustive.2files", Top: "single",
							Mods: []ModSpec{{Dir: dir, Name: mod, Files: []FileSpec{exFile(mod, p, k1, 10), exFile(mod, q, k2, 20)}}}, Ops: exOps(idx)})
					}
				}
			}
		}
	}
}

// ------------------------------------------------------------------------------------------------
// bounded-exhaustive family for generations: one loader root with one definition path; every ordered pair of
// contents (absent included) for that path in two generations at the same directory path, in one process; every
// third pair has a third generation that returns to the first content (as another definition).

var rgKinds = []string{"absent", "good", "wrong", "anon", "ts1", "tsa", "malformed", "nodef", "dangling"}
var rgNames = []string{"A", "a", "A::B", "A::A", "M::A", "M::A::B", "M::A::A", "M", "M::B"}

func rgOps(rot int) []Op {
	var ops []Op
	n := len(rgNames)
	for ctx := -1; ctx < 1; ctx++ {
		for i := 0; i < n; i++ {
			ops = append(ops, Op{Op: "load", Ctx: ctx, Name: rgNames[(i+rot)%n]})
		}
	}
	for _, nm := range rgNames {
		ops = append(ops, Op{Op: "has", Mod: 0, Name: nm})
	}
	return append(ops, Op{Op: "discover", Mod: 0})
}

func genExhaustiveRegen(each func(Case)) {
	idx := 0
	for _, mod := range []string{"", "m"} {
		dir := "root"
		paths := []string{"types/a.pp"}
		if mod != "" {
			dir = mod
			paths = append(paths, "types/init_typeset.pp")
		}
		mk := func(p, kind string, marker int) Case {
			c := Case{Family: "exhaustive.regen", Top: "single", Mods: []ModSpec{{Dir: dir, Name: mod}}, Ops: rgOps(marker + idx)}
			if kind != "absent" {
				c.Mods[0].Files = []FileSpec{exFile(mod, p, kind, marker)}
			}
			return c
		}
		for _, p := range paths {
			for _, k1 := range rgKinds {
				for _, k2 := range rgKinds {
					if k1 == "absent" && k2 == "absent" {
						continue
					}
					idx++
					c := mk(p, k1, 10)
					c.Then = []Case{mk(p, k2, 40)}
					if idx%3 == 0 {
						c.Then = append(c.Then, mk(p, k1, 70))
					}
					each(c)
				}
			}
		}
	}
}

// ------------------------------------------------------------------------------------------------
// corpus: hand-written cases, always run first (the layouts on which the pinned tree failed, the
// repository's own test data, and the corner cases of the derivation)

func good(rel, declared string, marker int, refs ...string) FileSpec {
	return FileSpec{Rel: rel, Kind: "file", Content: &Content{Class: "good", Declared: declared, Marker: marker, Refs: refs}}
}

func tsFile(rel, declared string, marker int, members ...string) FileSpec {
	return FileSpec{Rel: rel, Kind: "file", Content: &Content{Class: "typeset", Declared: declared, Marker: marker, Members: members}}
}

// validTypeRef: every "::"-separated segment matches [A-Za-z][A-Za-z0-9_]* (what the type parser accepts as a type name)
func validTypeRef(n string) bool {
	for _, seg := range strings.Split(strings.TrimPrefix(n, "::"), "::") {
		if seg == "" {
			return false
		}
		for i, ch := range seg {
			letter := (ch >= 'A' && ch <= 'Z') || (ch >= 'a' && ch <= 'z')
			if !(letter || (i > 0 && (ch == '_' || (ch >= '0' && ch <= '9')))) {
				return false
			}
		}
	}
	return true
}

func loads(ctx int, names ...string) []Op {
	var ops []Op
	for _, n := range names {
		ops = append(ops, Op{Op: "load", Ctx: ctx, Name: n})
	}
	return ops
}

func corpus() []Case {
	var cs []Case
	add := func(c Case) {
		c.Family = "corpus." + c.Family
		cs = append(cs, c)
	}
	// the repository's test data: one good alias, one deliberately bad file, a global loader
	add(Case{Family: "testdata", Top: "single", Mods: []ModSpec{{Dir: "testdata", Name: "", Files: []FileSpec{
		{Rel: "types/mytype.pp", Kind: "file", Content: &Content{Class: "good", Declared: "MyType", Marker: 10, Pad: 3}},
		{Rel: "types/badtype.pp", Kind: "file", Content: &Content{Class: "malformed", Declared: "BadType", Tmpl: 0, Marker: 20}}}}},
		Ops: append(loads(-1, "MyType", "BadType", "BadType", "mytype", "MYTYPE", "Absent"), Op{Op: "discover", Mod: 0})})
	// two contexts sharing a module loader (the second one found nothing)
	add(Case{Family: "second-context", Top: "single", Mods: []ModSpec{{Dir: "mymod", Name: "mymod", Files: []FileSpec{
		good("types/foo.pp", "Mymod::Foo", 10), good("types/sub/bar.pp", "Mymod::Sub::Bar", 20)}}},
		Ops: append(loads(0, "Mymod::Foo", "Mymod::Sub::Bar", "Foo"), loads(1, "Mymod::Foo", "mymod::sub::bar", "Mymod::Foo")...)})
	// a dependency loader as the context loader (first load of every type faulted)
	add(Case{Family: "dep-direct", Top: "dep", Mods: []ModSpec{
		{Dir: "mymod", Name: "mymod", Files: []FileSpec{good("types/foo.pp", "Mymod::Foo", 10), good("types/uses.pp", "Mymod::Uses", 20, "Other::Thing")}},
		{Dir: "other", Name: "other", Files: []FileSpec{good("types/thing.pp", "Other::Thing", 30)}}},
		Ops: append(loads(-1, "Mymod::Foo", "Mymod::Foo", "Mymod::Uses", "Other::Thing", "Thing", "Nomod::X"), loads(0, "Mymod::Foo", "Other::Thing")...)})
	// a module type set (unbounded recursion), members first / type set first
	for rot, names := range [][]string{{"Tsmod::Car", "Tsmod", "Tsmod::Num", "Tsmod::Extra", "Tsmod::Absent", "tsmod::car"}, {"Tsmod", "Tsmod::Car", "Tsmod::Extra"}} {
		add(Case{Family: fmt.Sprintf("init-typeset-%d", rot), Top: "single", Mods: []ModSpec{{Dir: "tsmod", Name: "tsmod", Files: []FileSpec{
			tsFile("types/init_typeset.pp", "Tsmod", 10, "Car", "Num"), good("types/extra.pp", "Tsmod::Extra", 20)}}},
			Ops: append(append(loads(-1, names...), loads(0, names...)...), Op{Op: "has", Mod: 0, Name: "Tsmod"}, Op{Op: "has", Mod: 0, Name: "Init_typeset"}, Op{Op: "discover", Mod: 0})})
	}
	// the same through the loaders that internal/runtime.go builds from module_path
	add(Case{Family: "runtime-typeset", Top: "runtime", Mods: []ModSpec{
		{Dir: "tsmod", Name: "tsmod", Files: []FileSpec{tsFile("types/init_typeset.pp", "Tsmod", 10, "Car"), good("types/extra.pp", "Tsmod::Extra", 20)}},
		{Dir: "mymod", Name: "mymod", Files: []FileSpec{good("types/foo.pp", "Mymod::Foo", 30)}},
		{Dir: "Not-a-module", Name: "Not-a-module", Files: []FileSpec{good("types/foo.pp", "Not::Foo", 40)}},
		{Dir: "afile", Name: "afile", IsFile: true}},
		Ops: append(loads(0, "Tsmod::Car", "Mymod::Foo", "Tsmod", "Tsmod::Extra", "Foo"), loads(1, "Tsmod::Car", "Mymod::Foo", "Tsmod")...)})
	// files that are not definitions
	var nd []FileSpec
	var ndl []string
	for t := 0; t < nNoDef; t++ {
		nd = append(nd, FileSpec{Rel: fmt.Sprintf("types/n%d.pp", t), Kind: "file", Content: &Content{Class: "nodef", Tmpl: t, Pad: 2, Marker: 10 * (t + 1)}})
		ndl = append(ndl, fmt.Sprintf("N%d", t), fmt.Sprintf("N%d", t))
	}
	add(Case{Family: "nodef", Top: "single", Mods: []ModSpec{{Dir: "root", Name: "", Files: nd}}, Ops: loads(-1, ndl...)})
	var mf []FileSpec
	var mfl []string
	for t := 0; t < nMalformed; t++ {
		mf = append(mf, FileSpec{Rel: fmt.Sprintf("types/m%d.pp", t), Kind: "file", Content: &Content{Class: "malformed", Declared: fmt.Sprintf("M%d", t), Tmpl: t, Pad: t % 3, Marker: 10 * (t + 1)}})
		mfl = append(mfl, fmt.Sprintf("M%d", t), fmt.Sprintf("m%d", t))
	}
	add(Case{Family: "malformed", Top: "single", Mods: []ModSpec{{Dir: "root", Name: "", Files: mf}}, Ops: loads(-1, mfl...)})
	// misnamed / unreadable / init_typeset that is not a type set
	add(Case{Family: "misnamed", Top: "single", Mods: []ModSpec{{Dir: "mymod", Name: "mymod", Files: []FileSpec{
		good("types/noprefix.pp", "Noprefix", 10), good("types/other.pp", "Mymod::Another", 20),
		{Rel: "types/gone.pp", Kind: "dangling", Content: &Content{Class: "good", Declared: "Mymod::Gone", Marker: 30}},
		{Rel: "types/adir.pp", Kind: "linkdir", Content: &Content{Class: "good", Declared: "Mymod::Adir", Marker: 40}},
		good("types/init_typeset.pp", "Mymod", 50)}}},
		Ops: loads(0, "Mymod::Noprefix", "Mymod::Noprefix", "Noprefix", "Mymod::Other", "Mymod::Gone", "Mymod::Gone", "Mymod::Adir", "Mymod", "Mymod", "Mymod::X")})
	// cyclic references: the placeholder keeps instantiate from recursing
	add(Case{Family: "cycle", Top: "single", Mods: []ModSpec{{Dir: "root", Name: "", Files: []FileSpec{
		good("types/a.pp", "A", 10, "B"), good("types/b.pp", "B", 20, "C", "A"), good("types/c.pp", "C", 30, "A", "Nope"), good("types/self.pp", "Self", 40, "Self")}}},
		Ops: append(loads(0, "A", "B", "C", "Self", "Nope"), loads(1, "C", "A", "Self")...)})
	// a reference to a bad file: the error of the referenced file comes out of the referring lookup
	add(Case{Family: "ref-to-bad", Top: "single", Mods: []ModSpec{{Dir: "root", Name: "", Files: []FileSpec{
		good("types/a.pp", "A", 10, "Bad"), {Rel: "types/bad.pp", Kind: "file", Content: &Content{Class: "malformed", Declared: "Bad", Tmpl: 2, Marker: 20}}}}},
		Ops: loads(0, "A", "A", "Bad", "Bad")})
	// type set in a global loader, nested namespaces, a member that also has a file
	add(Case{Family: "global-typeset", Top: "single", Mods: []ModSpec{{Dir: "root", Name: "", Files: []FileSpec{
		tsFile("types/ts.pp", "Ts", 10, "One", "Two"), good("types/ts/two.pp", "Ts::Two", 20), good("types/ns/deep/x.pp", "Ns::Deep::X", 30),
		tsFile("types/ns/inner.pp", "Ns::Inner", 40, "M")}}},
		Ops: loads(0, "Ts::One", "Ts::Two", "Ts", "Ts::Three", "Ns::Deep::X", "Ns::Deep::Y", "Ns", "Ns::Inner::M", "Ns::Inner", "Ts::One::Deeper", "ts::one")})
	// upper-case file and directory names, two files for one name
	add(Case{Family: "case", Top: "single", Mods: []ModSpec{{Dir: "root", Name: "", Files: []FileSpec{
		good("types/UpperFile.pp", "UpperFile", 10), good("types/NS/Inner.pp", "Ns::Inner", 20), good("types/dup.pp", "Dup", 30), good("types/DUP.pp", "Dup", 40),
		good("types/integer.pp", "Integer", 50)}}},
		Ops: append(loads(-1, "upperfile", "UPPERFILE", "Ns::Inner", "ns::inner", "Dup", "DUP", "Integer"), Op{Op: "has", Mod: 0, Name: "Dup"}, Op{Op: "discover", Mod: 0})})
	// the derivation and its inverse, directly
	var dops []Op
	for _, n := range []string{"A", "Mymod::A", "Mymod::Ns::B", "mymod::ns::b", "Other::A", "Mymod", "MYMOD::X1::My_type", "Mymod::Init", "Mymod::a-b"} {
		dops = append(dops, Op{Op: "effpath", Mod: 0, Name: n}, Op{Op: "effpath", Mod: 1, Name: n})
	}
	for _, p := range []string{"a.pp", "ns/b.pp", "init.pp", "init_typeset.pp", "ns/init.pp", "Upper/File.pp", "ab", "", "x.txt", ".pp", "a/b/c/d.pp"} {
		dops = append(dops, Op{Op: "typednames", Mod: 0, Name: p}, Op{Op: "typednames", Mod: 1, Name: p})
	}
	// a module loader whose parent is the environment's loader: the environment defines a TypeSet, a file of the
	// module refers to a member of it; every name is looked up several times, in several orders, through the
	// module loader and through children of it (what was asked for before must not change an answer)
	chainMods := func() []ModSpec {
		return []ModSpec{
			{Dir: "moda", Name: "moda", Files: []FileSpec{good("types/thing.pp", "Moda::Thing", 10, "Shapes::Circle"),
				tsFile("types/init_typeset.pp", "Moda", 20, "Car")}},
			{Dir: "env", Name: "environment", Files: []FileSpec{tsFile("types/shapes.pp", "Shapes", 30, "Circle", "Square"),
				good("types/plain.pp", "Plain", 40), good("types/uses.pp", "Uses", 50, "Moda::Thing", "Moda::Car")}}}
	}
	for k, names := range [][]string{
		{"Shapes::Circle", "Shapes::Circle", "Shapes::Square", "Shapes", "Plain"},
		{"Shapes", "Shapes::Circle", "Shapes::Square", "shapes::circle"},
		{"Moda::Thing", "Shapes::Circle", "Shapes::Square", "Moda::Thing"},
		{"Plain", "Plain", "Moda::Car", "Moda::Car", "Moda", "Moda::Thing", "Uses", "Uses"},
		{"Uses", "Moda::Car", "Shapes::Square", "SHAPES::SQUARE", "Shapes::Oval", "Moda::Nope", "Moda::Nope"}} {
		ops := append(loads(-1, names...), loads(0, names...)...)
		ops = append(ops, loads(1, names...)...)
		ops = append(ops, Op{Op: "has", Mod: 0, Name: "Shapes"}, Op{Op: "has", Mod: 0, Name: "Moda::Thing"}, Op{Op: "has", Mod: 1, Name: "Moda::Thing"},
			Op{Op: "discover", Mod: 0}, Op{Op: "discover", Mod: 1})
		add(Case{Family: fmt.Sprintf("chain-%d", k), Top: "chain", Mods: chainMods(), Ops: ops})
	}
	// TypeSet members under a dependency loader and a single module loader: the TypeSet is resolved WHILE one of its
	// members is being looked up (member first), before (type set first), or through aliases that refer to members
	// from the TypeSet's own module and from another module - with a reference cycle between the two modules
	// (Shp::Uses -> Other::Thing -> Shp::Square / Shp::Uses); every order through the loader and two child contexts
	memberMods := func() []ModSpec {
		return []ModSpec{
			{Dir: "shp", Name: "shp", Files: []FileSpec{tsFile("types/init_typeset.pp", "Shp", 10, "Circle", "Square", "Tri"),
				good("types/uses.pp", "Shp::Uses", 20, "Shp::Circle", "Other::Thing")}},
			{Dir: "other", Name: "other", Files: []FileSpec{good("types/thing.pp", "Other::Thing", 30, "Shp::Square", "Shp::Uses"),
				tsFile("types/set.pp", "Other::Set", 40, "One"), good("types/viaset.pp", "Other::Viaset", 50, "Other::Set::One", "Shp::Tri")}}}
	}
	for k, names := range [][]string{
		{"Shp::Circle", "Shp::Square", "Shp", "Shp::Tri", "shp::circle"},
		{"Shp", "Shp::Circle", "Shp::Square", "Shp::Nope"},
		{"Shp::Uses", "Shp::Circle", "Shp::Square", "Other::Thing", "Shp::Tri"},
		{"Other::Thing", "Shp::Square", "Shp::Uses", "Shp::Circle", "Shp"},
		{"Other::Viaset", "Other::Set::One", "Shp::Tri", "Other::Set", "Shp::Circle", "OTHER::SET::ONE"},
		{"Other::Set::One", "Other::Set", "Other::Viaset", "Other::Set::Two"}} {
		ops := append(loads(-1, names...), loads(0, names...)...)
		ops = append(ops, loads(1, names...)...)
		add(Case{Family: fmt.Sprintf("member-dep-%d", k), Top: "dep", Mods: memberMods(), Ops: ops})
		if k < 3 {
			add(Case{Family: fmt.Sprintf("member-single-%d", k), Top: "single", Mods: memberMods()[:1], Ops: ops})
		}
	}
	// a name that is BOTH a member of a TypeSet (types/a.pp: TypeSet A {B, D}) and the name of a definition file of its own
	// (types/a/b.pp): as an alias A::B, and as a TypeSet A::B {C} whose member A::B::C exists only through that file.
	// Orders: member first through A / the file's name first / a member of the nested TypeSet first; through the loader
	// and two child contexts
	for v, nested := range []FileSpec{good("types/a/b.pp", "A::B", 20), tsFile("types/a/b.pp", "A::B", 20, "C")} {
		for k, names := range [][]string{
			{"A", "A::B", "A::B::C", "A::D", "a::b"},
			{"A::B", "A", "A::B::C", "A::D", "A::B"},
			{"A::B::C", "A::B", "A", "A::B::C"},
			{"A::D", "A::B::C", "A::B", "A::B::C"}} {
			ops := append(loads(-1, names...), loads(0, names...)...)
			ops = append(ops, loads(1, names...)...)
			add(Case{Family: fmt.Sprintf("member-and-file-%d-%d", v, k), Top: "single", Mods: []ModSpec{{Dir: "root", Name: "", Files: []FileSpec{
				tsFile("types/a.pp", "A", 10, "B", "D"), nested}}}, Ops: ops})
		}
	}
	// three loaders in a chain, the TypeSet in the middle one, bad files above and below
	add(Case{Family: "chain-3", Top: "chain", Mods: []ModSpec{
		{Dir: "mymod", Name: "mymod", Files: []FileSpec{good("types/foo.pp", "Mymod::Foo", 10, "Other::Set::One", "Top"), good("types/wrong.pp", "Mymod::Other", 20)}},
		{Dir: "other", Name: "other", Files: []FileSpec{tsFile("types/set.pp", "Other::Set", 30, "One", "Two"), good("types/x.pp", "Other::X", 40, "Mymod::Foo")}},
		{Dir: "env", Name: "", Files: []FileSpec{good("types/top.pp", "Top", 50), {Rel: "types/bad.pp", Kind: "file", Content: &Content{Class: "malformed", Declared: "Bad", Tmpl: 1, Marker: 60}}}}},
		Ops: append(append(loads(-1, "Other::Set::One", "Other::Set::One", "Mymod::Foo", "Other::Set::Two", "Top", "Bad", "Bad", "Mymod::Wrong", "Mymod::Wrong"),
			loads(0, "Other::Set::Two", "Other::X", "Other::Set", "other::set::one", "Top", "Nope")...), Op{Op: "discover", Mod: 0}, Op{Op: "has", Mod: 1, Name: "Top"})})
	// what stands in front of the first token of a file (comments, blank lines, white-space-only lines, in every
	// order), and encoding artefacts (byte order mark, CR LF): the reported line is the line in the file
	for _, mod := range []string{"", "pm"} {
		for style := 0; style < nPre; style++ {
			for padn := 0; padn <= 3; padn++ {
				if padn == 0 && style > 0 {
					continue
				}
				q := func(n string) string {
					if mod == "" {
						return n
					}
					return capSeg(mod) + "::" + n
				}
				ct := func(c Content) *Content {
					c.Pad, c.Pre = padn, style
					return &c
				}
				var fs []FileSpec
				var names []string
				for t := 0; t < nMalformed; t++ {
					fs = append(fs, FileSpec{Rel: fmt.Sprintf("types/m%d.pp", t), Kind: "file", Content: ct(Content{Class: "malformed", Declared: q(fmt.Sprintf("M%d", t)), Tmpl: t, Marker: 10 * (t + 1)})})
					names = append(names, q(fmt.Sprintf("M%d", t)))
				}
				for t := 1; t < nNoDef; t++ {
					fs = append(fs, FileSpec{Rel: fmt.Sprintf("types/n%d.pp", t), Kind: "file", Content: ct(Content{Class: "nodef", Tmpl: t, Marker: 100 + 10*t})})
					names = append(names, q(fmt.Sprintf("N%d", t)))
				}
				fs = append(fs,
					FileSpec{Rel: "types/ns/w.pp", Kind: "file", Content: ct(Content{Class: "good", Declared: q("Ns::Wx"), Marker: 200})},
					FileSpec{Rel: "types/ns/wts.pp", Kind: "file", Content: ct(Content{Class: "typeset", Declared: q("Ns::Other"), Members: []string{"One"}, Marker: 210})},
					FileSpec{Rel: "types/g.pp", Kind: "file", Content: ct(Content{Class: "good", Declared: q("G"), Marker: 220})},
					FileSpec{Rel: "types/ts.pp", Kind: "file", Content: ct(Content{Class: "malformed", Declared: q("Ts"), Tmpl: style, Marker: 230})},
					FileSpec{Rel: "types/sub/ts2.pp", Kind: "file", Content: ct(Content{Class: "typeset", Declared: q("Sub::Ts2"), Members: []string{"One", "Two"}, Marker: 240})},
					FileSpec{Rel: "types/bom.pp", Kind: "file", Content: ct(Content{Class: "good", Declared: q("Bom"), Marker: 250, Enc: "bom"})},
					FileSpec{Rel: "types/crlf.pp", Kind: "file", Content: ct(Content{Class: "good", Declared: q("Crlf"), Marker: 260, Enc: "crlf"})},
					FileSpec{Rel: "types/crlfts.pp", Kind: "file", Content: ct(Content{Class: "typeset", Declared: q("Crlfts"), Members: []string{"One"}, Marker: 270, Enc: "crlf"})},
					FileSpec{Rel: "types/bomw.pp", Kind: "file", Content: ct(Content{Class: "good", Declared: q("Bomwx"), Marker: 280, Enc: "bom"})})
				names = append(names, q("Ns::W"), q("Ns::Wts"), q("G"), q("Ts::One"), q("Ts"), q("Sub::Ts2::Two"), q("Bom"), q("Crlf"), q("Crlfts::One"), q("Bomw"))
				dir := "root"
				if mod != "" {
					dir = mod
				}
				add(Case{Family: fmt.Sprintf("preamble-%d-%d", style, padn), Top: "single", Mods: []ModSpec{{Dir: dir, Name: mod, Files: fs}},
					Ops: append(loads(-1, names...), loads(0, names[0], names[3], strings.ToLower(names[len(names)-7]))...)})
			}
		}
	}
	// generations: the directory of the case is written again at the same path with another content and new loaders
	// are created over it in the same process (a repaired file, a file that became misnamed, a file that is gone, a
	// new file, other definitions at the same paths, a TypeSet with other members); then back again
	for _, top := range []string{"dep", "chain", "single"} {
		layout := func(gen int) Case {
			mk := 100 * gen
			env := ModSpec{Dir: "env", Name: ""}
			moda := ModSpec{Dir: "moda", Name: "moda"}
			if gen%2 == 1 {
				env.Files = []FileSpec{good("types/top.pp", "Top", mk+10),
					{Rel: "types/fixed.pp", Kind: "file", Content: &Content{Class: "malformed", Declared: "Fixed", Tmpl: 0, Pad: 2, Pre: 2, Marker: mk + 20}},
					good("types/renamed.pp", "Renamed", mk+30), good("types/gone.pp", "Gone", mk+40),
					tsFile("types/shapes.pp", "Shapes", mk+50, "Circle", "Square")}
				moda.Files = []FileSpec{good("types/thing.pp", "Moda::Thing", mk+60), tsFile("types/init_typeset.pp", "Moda", mk+70, "Mem")}
			} else {
				env.Files = []FileSpec{good("types/top.pp", "Top", mk+10), good("types/fixed.pp", "Fixed", mk+20),
					{Rel: "types/renamed.pp", Kind: "file", Content: &Content{Class: "good", Declared: "Other", Pad: 2, Pre: 1, Marker: mk + 30}},
					good("types/fresh.pp", "Fresh", mk+40),
					tsFile("types/shapes.pp", "Shapes", mk+50, "Square", "Oval")}
				moda.Files = []FileSpec{{Rel: "types/thing.pp", Kind: "file", Content: &Content{Class: "malformed", Declared: "Moda::Thing", Tmpl: 4, Pad: 1, Pre: 1, Marker: mk + 60}},
					tsFile("types/init_typeset.pp", "Moda", mk+70, "Extra")}
			}
			names := []string{"Top", "Fixed", "Renamed", "Gone", "Fresh", "Shapes::Circle", "Shapes::Oval", "Shapes::Square", "Shapes", "Moda::Thing", "Moda::Mem", "Moda::Extra", "Moda", "top"}
			c := Case{Family: "regen-" + top, Top: top, Mods: []ModSpec{moda, env}}
			if top == "single" {
				c.Mods = []ModSpec{env}
				names = names[:9]
			}
			c.Ops = append(loads(-1, names...), loads(0, names...)...)
			c.Ops = append(c.Ops, Op{Op: "has", Mod: 0, Name: "Moda::Thing"}, Op{Op: "has", Mod: len(c.Mods) - 1, Name: "Gone"}, Op{Op: "discover", Mod: len(c.Mods) - 1})
			return c
		}
		c := layout(1)
		c.Then = []Case{layout(2), layout(3)}
		add(c)
	}
	add(Case{Family: "derivation", Top: "dep", Mods: []ModSpec{{Dir: "mymod", Name: "mymod"}, {Dir: "globalroot", Name: ""}}, Ops: dops})
	return cs
}
