package main

import (
	"bufio"
	"encoding/json"
	"fmt"
	"io/ioutil"
	"os"
	"path/filepath"
	"runtime/debug"
	"sort"
	"strings"

	"github.com/lyraproj/issue/issue"
	"github.com/lyraproj/pcore/loader"
	"github.com/lyraproj/pcore/pcore"
	"github.com/lyraproj/pcore/px"
	"github.com/lyraproj/pcore/types"
)

// The implementation runs in a child process: the pinned tree had an unbounded recursion on this
// path (fatal stack overflow, not recoverable), so a crash must not take the harness down.

// ---- read counter: no source hook; the exported factory is replaced by one whose instantiator hands
// the original a ContentProvidingLoader that records every GetContent.

type countingLoader struct {
	loader.ContentProvidingLoader
}

var readLog []string

func (c *countingLoader) GetContent(ctx px.Context, path string) []byte {
	readLog = append(readLog, path)
	return c.ContentProvidingLoader.GetContent(ctx, path)
}

var origTypeFactory loader.SmartPathFactory

func installFactories() {
	origTypeFactory = loader.SmartPathFactories[px.PuppetDataTypePath]
	loader.SmartPathFactories[px.PuppetDataTypePath] = func(l px.ModuleLoader, rel bool) loader.SmartPath {
		sp := origTypeFactory(l, rel)
		inst := sp.Instantiator()
		return loader.NewSmartPath(sp.RelativePath(), sp.Extension(), l, sp.Namespaces(), rel, sp.IsMatchMany(),
			func(ctx px.Context, cl loader.ContentProvidingLoader, tn px.TypedName, sources []string) {
				inst(ctx, &countingLoader{cl}, tn, sources)
			})
	}
	// internal/runtime.go asks for these path types too; pcore itself registers no factory for them
	// (the evaluator does).  Stubs that never match a file.
	for _, pt := range []px.PathType{px.PuppetFunctionPath, px.PlanPath, px.TaskPath} {
		pt := pt
		if _, ok := loader.SmartPathFactories[pt]; ok {
			continue
		}
		loader.SmartPathFactories[pt] = func(l px.ModuleLoader, rel bool) loader.SmartPath {
			return loader.NewSmartPath(`verif_no_such_dir_`+string(pt), `.verifnone`, l, []px.Namespace{px.Namespace(`verif_` + string(pt))}, rel, false,
				func(ctx px.Context, cl loader.ContentProvidingLoader, tn px.TypedName, sources []string) {})
		}
	}
}

// ---- building the tree

// mode000Works: a mode-000 file is unreadable for this process (false when running as root)
func mode000Works(dir string) bool {
	p := filepath.Join(dir, "probe000")
	if err := ioutil.WriteFile(p, []byte("x"), 0o644); err != nil {
		return false
	}
	defer os.Remove(p)
	if err := os.Chmod(p, 0); err != nil {
		return false
	}
	_, err := ioutil.ReadFile(p)
	return err != nil
}

func materialize(root string, cs *Case) {
	for _, m := range cs.Mods {
		base := filepath.Join(root, m.Dir)
		if m.IsFile {
			must(os.MkdirAll(root, 0o755))
			must(ioutil.WriteFile(base, []byte("not a module\n"), 0o644))
			continue
		}
		must(os.MkdirAll(base, 0o755))
		for _, f := range m.Files {
			p := filepath.Join(base, filepath.FromSlash(f.Rel))
			must(os.MkdirAll(filepath.Dir(p), 0o755))
			switch f.Kind {
			case "dir":
				must(os.MkdirAll(p, 0o755))
			case "dangling":
				must(os.Symlink(filepath.Join(base, "verif-no-such-target"), p))
			case "linkdir":
				must(os.Symlink(base, p))
			case "mode000":
				must(ioutil.WriteFile(p, []byte(render(f.Content)), 0o644))
				must(os.Chmod(p, 0))
			default:
				must(ioutil.WriteFile(p, []byte(render(f.Content)), 0o644))
			}
		}
	}
}

func must(err error) {
	if err != nil {
		panic(err)
	}
}

func walkOf(base string) []WalkEntry {
	es := []WalkEntry{}
	_ = filepath.Walk(base, func(path string, info os.FileInfo, err error) error {
		if err != nil {
			return nil
		}
		rel, _ := filepath.Rel(base, path)
		if rel == "." {
			return nil
		}
		es = append(es, WalkEntry{Rel: filepath.ToSlash(rel), IsDir: info.IsDir()})
		return nil
	})
	return es
}

// ---- running


func relTo(root, p string) (string, bool) {
	if strings.HasPrefix(p, root+string(filepath.Separator)) {
		return filepath.ToSlash(p[len(root)+1:]), true
	}
	return p, false
}

func describeValue(v interface{}) Outcome {
	o := Outcome{Kind: "found"}
	t, ok := v.(px.Type)
	if !ok {
		o.Kind = "panic"
		o.Panic = fmt.Sprintf("loaded value is a %T, not a type", v)
		return o
	}
	o.Name = t.Name()
	if _, ok := t.(px.TypeSet); ok {
		o.IsTS = true
		return o
	}
	if at, ok := t.(*types.TypeAliasType); ok {
		// the marker is the bound of the Integer the alias stands for (alone, or first in a Tuple); an alias
		// that was bound but never resolved has none (ResolvedType panics)
		func() {
			defer func() { _ = recover() }()
			rt := at.ResolvedType()
			if tt, ok := rt.(*types.TupleType); ok && len(tt.Types()) > 0 {
				rt = tt.Types()[0]
			}
			if it, ok := rt.(*types.IntegerType); ok {
				o.Marker = int(it.Min())
			}
		}()
	}
	return o
}

func describePanic(root string, r interface{}) Outcome {
	if rp, ok := r.(issue.Reported); ok {
		o := Outcome{Kind: "reported", Code: string(rp.Code())}
		if loc := rp.Location(); loc != nil {
			if rel, ok := relTo(root, loc.File()); ok {
				o.LocFile = rel
			} else if loc.File() != "" {
				o.LocFile = "<go>"
			}
			o.LocLine = loc.Line()
		}
		for _, k := range rp.Keys() {
			if s, ok := rp.Argument(k).(string); ok {
				if rel, ok := relTo(root, s); ok {
					o.ArgFiles = append(o.ArgFiles, rel)
				}
			}
		}
		return o
	}
	return Outcome{Kind: "panic", Panic: fmt.Sprintf("%T: %v", r, r)}
}

func runCase(cs *Case, root string) (res CaseResult) {
	materialize(root, cs)
	for _, m := range cs.Mods {
		if m.IsFile {
			res.Walks = append(res.Walks, []WalkEntry{})
		} else {
			res.Walks = append(res.Walks, walkOf(filepath.Join(root, m.Dir)))
		}
	}
	if fis, err := ioutil.ReadDir(root); err == nil {
		for _, fi := range fis {
			res.ModOrder = append(res.ModOrder, fi.Name())
		}
	}
	pcore.Reset()
	if cs.Top == "runtime" {
		pcore.Set(`module_path`, types.WrapString(root))
	}
	pcore.Do(func(c px.Context) {
		parent := c.Loader()
		mls := make([]px.ModuleLoader, len(cs.Mods)) // nil where no loader exists
		var top px.Loader
		switch cs.Top {
		case "single":
			mls[0] = px.NewFileBasedLoader(parent, filepath.Join(root, cs.Mods[0].Dir), cs.Mods[0].Name, px.PuppetDataTypePath)
			top = mls[0]
		case "dep":
			var all []px.ModuleLoader
			for i, m := range cs.Mods {
				mls[i] = px.NewFileBasedLoader(parent, filepath.Join(root, m.Dir), m.Name, px.PuppetDataTypePath)
				all = append(all, mls[i])
			}
			top = px.NewDependencyLoader(all)
		case "chain":
			var p px.Loader = parent
			for i := len(cs.Mods) - 1; i >= 0; i-- {
				mls[i] = px.NewFileBasedLoader(p, filepath.Join(root, cs.Mods[i].Dir), cs.Mods[i].Name, px.PuppetDataTypePath)
				p = mls[i]
			}
			top = mls[0]
		case "runtime":
			// the loaders are built by (*rt).EnvironmentLoader from the module_path setting
			top = pcore.EnvironmentLoader()
			for i, m := range cs.Mods {
				if ml, ok := pcore.Loader(m.Dir).(px.ModuleLoader); ok && ml != nil {
					mls[i] = ml
				}
			}
		default:
			panic("unknown top " + cs.Top)
		}
		for _, ml := range mls {
			res.Loaders = append(res.Loaders, ml != nil)
		}
		// the parent of the file-based loaders
		var fbParent px.Loader = parent
		if cs.Top == "runtime" {
			fbParent = pcore.SystemLoader()
		}
		res.Shadow = shadowOf(c, fbParent, cs)
		children := map[int]px.Loader{}
		sps := map[int]loader.SmartPath{}
		for _, op := range cs.Ops {
			r0 := len(readLog)
			var o Outcome
			func() {
				defer func() {
					if r := recover(); r != nil {
						o = describePanic(root, r)
					}
				}()
				switch op.Op {
				case "load":
					var cl px.Loader = top
					if op.Ctx >= 0 {
						cl = children[op.Ctx]
						if cl == nil {
							cl = px.NewParentedLoader(top)
							children[op.Ctx] = cl
						}
					}
					c.DoWithLoader(cl, func() {
						v, ok := px.Load(c, px.NewTypedName(px.NsType, op.Name))
						if ok {
							o = describeValue(v)
						} else {
							o = Outcome{Kind: "notfound"}
						}
					})
				case "has":
					if mls[op.Mod] == nil {
						o = Outcome{Kind: "str", Str: "noloader"}
						return
					}
					o = Outcome{Kind: "bool", Bool: mls[op.Mod].HasEntry(px.NewTypedName(px.NsType, op.Name))}
				case "discover":
					if mls[op.Mod] == nil {
						o = Outcome{Kind: "str", Str: "noloader"}
						return
					}
					pred := func(tn px.TypedName) bool { return tn.Namespace() == px.NsType }
					inParent := map[string]bool{}
					for _, tn := range fbParent.Discover(c, pred) {
						inParent[tn.MapKey()] = true
					}
					names := []string{}
					for _, tn := range mls[op.Mod].Discover(c, pred) {
						if !inParent[tn.MapKey()] {
							names = append(names, tn.Name())
						}
					}
					sort.Strings(names)
					o = Outcome{Kind: "list", List: names}
				case "effpath", "typednames":
					if mls[op.Mod] == nil {
						o = Outcome{Kind: "str", Str: "noloader"}
						return
					}
					sp := sps[op.Mod]
					if sp == nil {
						n := mls[op.Mod].ModuleName()
						sp = origTypeFactory(mls[op.Mod], !(n == `` || n == `environment`))
						sps[op.Mod] = sp
					}
					if op.Op == "effpath" {
						p := sp.EffectivePath(px.NewTypedName(px.NsType, op.Name))
						if rel, ok := relTo(filepath.Join(root, cs.Mods[op.Mod].Dir), p); ok {
							p = rel
						}
						o = Outcome{Kind: "str", Str: p}
					} else {
						names := []string{}
						for _, tn := range sp.TypedNames(mls[op.Mod].NameAuthority(), op.Name) {
							names = append(names, tn.Name())
						}
						o = Outcome{Kind: "list", List: names}
					}
				default:
					panic("unknown op " + op.Op)
				}
			}()
			for _, p := range readLog[r0:] {
				rel, _ := relTo(root, p)
				o.Reads = append(o.Reads, rel)
			}
			res.Outcomes = append(res.Outcomes, o)
		}
	})
	return res
}

// shadowOf: which of the names that occur in the case (requested, referred to, declared, members, implied by
// file paths) the given loader binds, and under which name
func shadowOf(c px.Context, l px.Loader, cs *Case) map[string]string {
	cands := map[string]bool{}
	add := func(n string) {
		n = strings.TrimPrefix(n, "::")
		if n != "" {
			cands[n] = true
		}
	}
	for _, op := range cs.Ops {
		add(op.Name)
	}
	for _, m := range cs.Mods {
		add(m.Name)
		for _, f := range m.Files {
			if strings.HasPrefix(f.Rel, "types/") && strings.HasSuffix(f.Rel, ".pp") {
				n := strings.ReplaceAll(f.Rel[len("types/"):len(f.Rel)-3], "/", "::")
				add(n)
				add(m.Name + "::" + n)
			}
			if f.Content != nil {
				add(f.Content.Declared)
				for _, r := range f.Content.Refs {
					add(r)
				}
				for _, mn := range f.Content.Members {
					add(f.Content.Declared + "::" + mn)
				}
			}
		}
	}
	out := map[string]string{}
	for n := range cands {
		func() {
			defer func() { _ = recover() }()
			tn := px.NewTypedName(px.NsType, n)
			if !l.HasEntry(tn) {
				return
			}
			if e := l.LoadEntry(c, tn); e != nil {
				if t, ok := e.Value().(px.Type); ok {
					out[lowerASCII(n)] = lowerASCII(t.Name())
				}
			}
		}()
	}
	return out
}

// childMain runs the cases of a batch file from index `from` on and appends one JSON line per case.
func childMain(batchFile, outFile, treeDir string, from int) {
	debug.SetMaxStack(48 << 20) // an unbounded recursion ends in seconds, not after 1 GB
	var cases []Case
	b, err := ioutil.ReadFile(batchFile)
	must(err)
	must(json.Unmarshal(b, &cases))
	f, err := os.OpenFile(outFile, os.O_APPEND|os.O_CREATE|os.O_WRONLY, 0o644)
	must(err)
	defer f.Close()
	w := bufio.NewWriter(f)
	installFactories()
	must(os.MkdirAll(treeDir, 0o755))
	for i := from; i < len(cases); i++ {
		root := filepath.Join(treeDir, fmt.Sprintf("c%d", i))
		_ = os.RemoveAll(root)
		must(os.MkdirAll(root, 0o755))
		// mark the case as started so that a crash is attributed to it
		fmt.Fprintf(w, "{\"started\":%d}\n", i)
		must(w.Flush())
		readLog = readLog[:0]
		res := runCase(&cases[i], root)
		// the further generations: the same path, written again, new loaders, the same process
		for k := range cases[i].Then {
			rmTree(root)
			must(os.MkdirAll(root, 0o755))
			readLog = readLog[:0]
			res.Then = append(res.Then, runCase(&cases[i].Then[k], root))
		}
		res.Idx = i
		rmTree(root)
		line, err := json.Marshal(res)
		must(err)
		w.Write(line)
		w.WriteString("\n")
		must(w.Flush())
	}
}

func rmTree(root string) {
	// mode-000 files are removable (the directory is ours)
	_ = os.RemoveAll(root)
}
