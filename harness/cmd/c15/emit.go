package main

import (
	"fmt"
	"sort"
	"strings"

	"verifharness/lib"
)

// M: a case as a Gallina term of type CorrC15.ccase — the world (what filepath.Walk listed per loader root,
// content classes, loader configuration, what the parent loader binds), the operations, and the observed
// outcome + read list per operation.

// gs: a Go string by reference to the string table of the cases file (reading a string literal or a long
// numeral costs Coq about a millisecond; a case mentions the same few paths and names over and over)
var strTab = map[string]int{}
var strList []string

func gs(s string) string {
	id, ok := strTab[s]
	if !ok {
		id = len(strList)
		strTab[s] = id
		strList = append(strList, s)
	}
	return fmt.Sprintf("s%d", id)
}

// strPrelude: the definitions of the string table
func strPrelude() string {
	var b strings.Builder
	for i, s := range strList {
		fmt.Fprintf(&b, "Definition s%d : str := %s.\n", i, lib.GStr(s))
	}
	return b.String()
}

func newCasesFile() *lib.CasesFile {
	strTab, strList = map[string]int{}, nil // one string table per cases file
	return &lib.CasesFile{Imports: []string{"Model.Base", "Model.FileLoader", "Corr.CorrC15"}, Typ: "ccase",
		Obligations: map[string]string{"fileloader": "c15_mismatches cases"}}
}

// modelMods: the modules that have a file-based loader, in the order in which the top loader holds them;
// returns the indices into cs.Mods.
func modelMods(cs *Case, cr *CaseResult) []int {
	var idx []int
	has := func(i int) bool { return i < len(cr.Loaders) && cr.Loaders[i] }
	switch cs.Top {
	case "single":
		if has(0) {
			idx = append(idx, 0)
		}
	case "dep", "chain":
		for i := range cs.Mods {
			if has(i) {
				idx = append(idx, i)
			}
		}
	case "runtime":
		// ioutil.ReadDir order of the module path
		for _, name := range cr.ModOrder {
			for i := range cs.Mods {
				if cs.Mods[i].Dir == name && has(i) {
					idx = append(idx, i)
				}
			}
		}
	}
	return idx
}

func gContent(f *FileSpec, unreadable bool) (content string, marker int, defline int) {
	c := f.Content
	if c == nil {
		return "CNoDef", 0, 1
	}
	marker = c.Marker
	defline = defLine(c)
	if unreadable {
		return "CUnreadable", marker, defline
	}
	strs := func(l []string) string {
		var es []string
		for _, s := range l {
			es = append(es, gs(s))
		}
		return lib.GList(es, "str")
	}
	switch effClass(c) {
	case "good":
		return fmt.Sprintf("(CGood %s %s)", gs(c.Declared), strs(c.Refs)), marker, defline
	case "anon":
		return fmt.Sprintf("(CAnon %s)", strs(c.Refs)), marker, defline
	case "typeset":
		return fmt.Sprintf("(CTypeSet %s %s)", gs(c.Declared), strs(c.Members)), marker, defline
	case "malformed":
		return fmt.Sprintf("(CMalformed %s)", lib.GN(uint64(malformedLine(c)))), marker, defline
	case "nodef":
		return "CNoDef", marker, defline // (line 1 when the file holds no token at all)
	}
	panic("unknown content class " + c.Class)
}

func isUnreadable(f *FileSpec, mode000 bool) bool {
	switch f.Kind {
	case "dangling", "linkdir":
		return true
	case "mode000":
		return mode000
	}
	return false
}

func gFile(rel string, isDir bool, f *FileSpec, mode000 bool) string {
	content, marker, defline := "CNoDef", 0, 1
	if f != nil && !isDir {
		content, marker, defline = gContent(f, isUnreadable(f, mode000))
	}
	return fmt.Sprintf("{| f_rel := %s; f_dir := %s; f_content := %s; f_marker := %s; f_defline := %s |}",
		gs(rel), lib.GBool(isDir), content, lib.GN(uint64(marker)), lib.GN(uint64(defline)))
}

func gMod(m *ModSpec, walk []WalkEntry, mode000 bool) string {
	by := map[string]*FileSpec{}
	for i := range m.Files {
		by[m.Files[i].Rel] = &m.Files[i]
	}
	var fs []string
	for _, w := range walk {
		fs = append(fs, gFile(w.Rel, w.IsDir, by[w.Rel], mode000))
	}
	return fmt.Sprintf("{| m_name := %s; m_walk := %s |}", gs(m.Name), lib.GList(fs, "file"))
}

// fileRef: a path relative to the case root ("<dir>/<rel>") as (index of the model module, rel)
func fileRef(cs *Case, mm []int, p string) (int, string, bool) {
	i := strings.Index(p, "/")
	if i < 0 {
		return 0, "", false
	}
	dir, rel := p[:i], p[i+1:]
	for k, mi := range mm {
		if cs.Mods[mi].Dir == dir {
			return k, rel, true
		}
	}
	return 0, "", false
}

func gOut(cs *Case, mm []int, o *Outcome) string {
	switch o.Kind {
	case "found":
		return fmt.Sprintf("(OFound {| tv_name := %s; tv_marker := %s; tv_ts := %s |})", gs(lowerASCII(o.Name)), lib.GN(uint64(o.Marker)), lib.GBool(o.IsTS))
	case "notfound":
		return "ONotFound"
	case "bool":
		return "(OBool " + lib.GBool(o.Bool) + ")"
	case "list":
		var es []string
		for _, s := range o.List {
			es = append(es, gs(s))
		}
		return "(OList " + lib.GList(es, "str") + ")"
	case "str":
		return "(OStr " + gs(o.Str) + ")"
	case "panic":
		return "OFault"
	case "reported":
		loc := func() (string, bool) {
			if k, rel, ok := fileRef(cs, mm, o.LocFile); ok {
				return fmt.Sprintf("%s %s", lib.GNat(k), gs(rel)), true
			}
			return "", false
		}
		arg := func() (string, bool) {
			for _, a := range o.ArgFiles {
				if k, rel, ok := fileRef(cs, mm, a); ok {
					return fmt.Sprintf("%s %s", lib.GNat(k), gs(rel)), true
				}
			}
			return "", false
		}
		line := lib.GN(uint64(o.LocLine))
		switch o.Code {
		case "PCORE_INVALID_CHARACTERS_IN_NAME":
			return "(OErr EInvalidName)"
		case "PARSE_ERROR":
			if l, ok := loc(); ok {
				return fmt.Sprintf("(OErr (EParse %s %s))", l, line)
			}
		case "PCORE_UNABLE_TO_READ_FILE":
			if a, ok := arg(); ok {
				return fmt.Sprintf("(OErr (EUnreadable %s))", a)
			}
		case "PCORE_WRONG_DEFINITION":
			if l, ok := loc(); ok {
				return fmt.Sprintf("(OErr (EWrongDef %s %s))", l, line)
			}
		case "PCORE_NO_DEFINITION":
			if l, ok := loc(); ok {
				return fmt.Sprintf("(OErr (ENoDef %s %s))", l, line)
			}
		case "PCORE_NOT_EXPECTED_TYPESET":
			if a, ok := arg(); ok {
				return fmt.Sprintf("(OErr (ENotTypeset %s))", a)
			}
		case "PCORE_ATTEMPT_TO_REDEFINE":
			return "(OErr ERedefine)"
		case "PCORE_ATTEMPT_TO_REDEFINE_TYPE":
			return "(OErr ERedefineType)"
		}
		// an error class the model does not have: never equal to a model outcome
		return "OFuel"
	}
	return "OFuel"
}

// gallinaCase: generation gen of a case (0 = the case itself) as a ccase; the generations before it (world and
// operations) go into cc_prev: the model runs the whole session and its answers for this generation are compared
func gallinaCase(top *Case, topr *CaseResult, gen int, mode000 bool) string {
	var prev []string
	for j := 0; j < gen; j++ {
		pc, pr := top, topr
		if j > 0 {
			pc, pr = &top.Then[j-1], &topr.Then[j-1]
		}
		w, ops, _, _ := gallinaParts(pc, pr, mode000)
		prev = append(prev, lib.GPair(w, ops))
	}
	cs, cr := top, topr
	if gen > 0 {
		cs, cr = &top.Then[gen-1], &topr.Then[gen-1]
	}
	w, ops, outs, texts := gallinaParts(cs, cr, mode000)
	return fmt.Sprintf("{| cc_prev := %s;\n     cc_world := %s;\n     cc_ops := %s;\n     cc_outs := %s;\n     cc_texts := %s |}",
		lib.GList(prev, "world * list op"), w, ops, outs, texts)
}

// textsOf: the text of the files that a reported error of this generation is located in (at most 3), with the
// position of the parser's reader when it gave up (malformed files): the model of the line count
// (Model/FileLoaderText.v) is evaluated on them and must give the line numbers the world states for the file
func textsOf(cs *Case, cr *CaseResult, mm []int) string {
	var ts []string
	seen := map[string]bool{}
	for i := range cr.Outcomes {
		o := &cr.Outcomes[i]
		if o.Kind != "reported" || o.LocFile == "" || seen[o.LocFile] || len(ts) >= 3 {
			continue
		}
		seen[o.LocFile] = true
		k, rel, ok := fileRef(cs, mm, o.LocFile)
		if !ok {
			continue
		}
		for fi := range cs.Mods[mm[k]].Files {
			f := &cs.Mods[mm[k]].Files[fi]
			if f.Rel != rel || f.Content == nil || f.Kind != "file" {
				continue
			}
			pos := 0
			if effClass(f.Content) == "malformed" {
				pos = errPos(f.Content)
			}
			ts = append(ts, fmt.Sprintf("(%s, %s, %s, %s)", lib.GNat(k), gs(rel), gs(render(f.Content)), lib.GNat(pos)))
		}
	}
	return lib.GList(ts, "nat * str * str * nat")
}

func gallinaParts(cs *Case, cr *CaseResult, mode000 bool) (gworld, gops, gouts, gtexts string) {
	mm := modelMods(cs, cr)
	pos := map[int]int{} // cs.Mods index -> model index
	var mods []string
	for k, mi := range mm {
		pos[mi] = k
		mods = append(mods, gMod(&cs.Mods[mi], cr.Walks[mi], mode000))
	}
	top := "TopDep"
	if cs.Top == "single" {
		top = "TopSingle"
	} else if cs.Top == "chain" {
		top = "TopChain"
	}
	var sh []string
	keys := make([]string, 0, len(cr.Shadow))
	for k := range cr.Shadow {
		keys = append(keys, k)
	}
	sort.Strings(keys)
	for _, k := range keys {
		sh = append(sh, lib.GPair(gs(k), gs(cr.Shadow[k])))
	}
	var ops, outs []string
	for i, op := range cs.Ops {
		o := &cr.Outcomes[i]
		var g string
		switch op.Op {
		case "load":
			g = fmt.Sprintf("OpLoad %s %s", lib.GZ(int64(op.Ctx)), gs(op.Name))
		default:
			k, ok := pos[op.Mod]
			if !ok {
				continue // no loader for that module: nothing to model (the operation has no effect)
			}
			switch op.Op {
			case "has":
				g = fmt.Sprintf("OpHas %s %s", lib.GNat(k), gs(op.Name))
			case "discover":
				g = fmt.Sprintf("OpDiscover %s", lib.GNat(k))
			case "effpath":
				g = fmt.Sprintf("OpEffPath %s %s", lib.GNat(k), gs(op.Name))
			case "typednames":
				g = fmt.Sprintf("OpTypedNames %s %s", lib.GNat(k), gs(op.Name))
			}
		}
		var reads []string
		for _, p := range o.Reads {
			if k, rel, ok := fileRef(cs, mm, p); ok {
				reads = append(reads, lib.GPair(lib.GNat(k), gs(rel)))
			} else {
				reads = append(reads, lib.GPair(lib.GNat(999), gs(p)))
			}
		}
		ops = append(ops, g)
		outs = append(outs, lib.GPair(gOut(cs, mm, o), lib.GList(reads, "nat * str")))
	}
	return fmt.Sprintf("{| w_top := %s; w_mods := %s; w_shadow := %s |}", top, lib.GList(mods, "modl"), lib.GList(sh, "str * str")),
		lib.GList(ops, "op"), lib.GList(outs, "out * list (nat * str)"), textsOf(cs, cr, mm)
}
