package main

import "verifharness/lib"

func newCasesFile() *lib.CasesFile {
	return &lib.CasesFile{Imports: []string{"Model.Base"}, Typ: "nat", Obligations: map[string]string{}}
}

func gallinaCase(cs *Case, cr *CaseResult) string { return "0%nat" }
