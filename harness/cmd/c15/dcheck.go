package main

import (
	"fmt"
	"regexp"
	"sort"
	"strings"

	"verifharness/lib"
)

// D: the property evaluated directly on what the implementation did, against a small reference
// written from the property text:
//
//   derived path of a name = <loader root>/types/<lower-cased segments, without the module name for
//   a module loader>.pp ; a module's own name maps to types/init_typeset.pp (a TypeSet); file names
//   are matched without regard to letter case.
//
// Clauses (Violation.Clause):
//   no-runtime-fault       an operation ended in a Go runtime fault / non-reported panic / crash
//   found-iff-file         Load(n) found  <=>  a good definition for n exists at the derived path
//                          (directly, or as a member of the TypeSet at the parent's derived path)
//   carries-name           the loaded definition has the requested name (letter case aside)
//   case-insensitive       two lookups whose names differ in case only give the same answer
//   parsed-at-most-once    no file's content is requested twice in a case
//   absent-no-side-effect  a name with no file on its chain: not found, nothing read, no error
//   bad-file-reported      the first lookup that hits a malformed / misnamed / unreadable file ends
//                          in a reported error; the error names that file
//   bad-file-line          ... and the line: the offending line for a malformed file, a line of
//                          the file for a definition-level error
//   derived-path           EffectivePath / TypedNames are the stated derivation and its inverse

// names the parent (static) loader defines: a file for them is never consulted
var coreShadow = map[string]bool{"integer": true, "string": true, "init": true}

var validSeg = regexp.MustCompile(`\A[a-z][0-9a-z_]*\z`)

func lowerASCII(s string) string {
	b := []byte(s)
	for i, c := range b {
		if c >= 'A' && c <= 'Z' {
			b[i] = c + 32
		}
	}
	return string(b)
}

func isGlobalMod(m *ModSpec) bool { return m.Name == "" || m.Name == "environment" }

func segsOf(name string) []string { return strings.Split(lowerASCII(strings.TrimPrefix(name, "::")), "::") }

func validName(name string) bool {
	for _, s := range segsOf(name) {
		if !validSeg.MatchString(s) {
			return false
		}
	}
	return true
}

// derivedRel is the path (relative to the loader root, lower case) derived from a name.
func derivedRel(m *ModSpec, name string) (string, bool) {
	segs := segsOf(name)
	if isGlobalMod(m) {
		return "types/" + strings.Join(segs, "/") + ".pp", true
	}
	if segs[0] != m.Name {
		return "", false
	}
	if len(segs) == 1 {
		return "types/init_typeset.pp", true
	}
	if len(segs) == 2 && (segs[1] == "init" || segs[1] == "init_typeset") {
		// reserved file names of a module: not addressable as <module>::init
		return "", false
	}
	return "types/" + strings.Join(segs[1:], "/") + ".pp", true
}

// view of one module of a case for the reference
type modView struct {
	m     *ModSpec
	files []*FileSpec // non-directory entries in walk order
}

func newModView(m *ModSpec, walk []WalkEntry) *modView {
	v := &modView{m: m}
	by := map[string]*FileSpec{}
	for i := range m.Files {
		by[m.Files[i].Rel] = &m.Files[i]
	}
	for _, w := range walk {
		if w.IsDir {
			continue
		}
		if f := by[w.Rel]; f != nil && f.Kind != "dir" {
			v.files = append(v.files, f)
		}
	}
	return v
}

// fileAt: the first file (walk order) whose path equals rel without regard to case (init_typeset.pp
// of a module must be spelled exactly).
func (v *modView) fileAt(rel string) *FileSpec {
	for _, f := range v.files {
		if f.Rel == rel {
			return f
		}
		// only the name segments are compared without regard to case: the types directory and the extension are fixed
		if strings.HasPrefix(f.Rel, "types/") && strings.HasSuffix(f.Rel, ".pp") && lowerASCII(f.Rel) == rel {
			if !isGlobalMod(v.m) && (rel == "types/init_typeset.pp" || rel == "types/init.pp") {
				continue
			}
			return f
		}
	}
	return nil
}

// nameOfFile: the name a file stands for by its path (the inverse derivation), lower case; "" when the
// path is not a definition path.
func (v *modView) nameOfFile(f *FileSpec) string {
	rel := f.Rel
	if !strings.HasPrefix(rel, "types/") || !strings.HasSuffix(rel, ".pp") {
		return ""
	}
	segs := strings.Split(lowerASCII(rel[len("types/"):len(rel)-3]), "/")
	if isGlobalMod(v.m) {
		return strings.Join(segs, "::")
	}
	if len(segs) == 1 && f.Rel == "types/init_typeset.pp" {
		return v.m.Name
	}
	if len(segs) == 1 && f.Rel == "types/init.pp" {
		return ""
	}
	return v.m.Name + "::" + strings.Join(segs, "::")
}

// badness of a file as a definition file for the name its path stands for:
// "" good, else malformed | nodef | unreadable | misnamed | notypeset
func (v *modView) badness(f *FileSpec, rootUser bool) string {
	switch f.Kind {
	case "dangling", "linkdir":
		return "unreadable"
	case "mode000":
		if !rootUser {
			return "unreadable"
		}
	}
	c := f.Content
	switch effClass(c) {
	case "malformed", "nodef":
		return effClass(c)
	}
	isInitTS := !isGlobalMod(v.m) && f.Rel == "types/init_typeset.pp"
	if c.Class == "anon" {
		if isInitTS {
			return "notypeset"
		}
		return ""
	}
	if lowerASCII(c.Declared) != v.nameOfFile(f) {
		return "misnamed"
	}
	if isInitTS && c.Class != "typeset" {
		return "notypeset"
	}
	return ""
}

type reference struct {
	cs       *Case
	views    []*modView
	rootUser bool
}

// candidates: the modules a name is routed to (dependency.go: an explicit loader for the first segment
// takes precedence, otherwise all in order; a chain of file-based loaders: every loader of the chain is asked,
// the parents first)
func (r *reference) candidates(name string) []*modView {
	if r.cs.Top == "single" {
		return []*modView{r.views[0]}
	}
	if r.cs.Top == "chain" {
		return r.views
	}
	segs := segsOf(name)
	var live []*modView
	for _, v := range r.views {
		if v != nil {
			live = append(live, v)
		}
	}
	if len(segs) > 1 {
		// the last loader registered under a module name wins the index
		var hit *modView
		for _, v := range live {
			if v.m.Name != "" && v.m.Name == segs[0] {
				hit = v
			}
		}
		if hit != nil {
			return []*modView{hit}
		}
	}
	return live
}

// loopRouted: the dependency loader has no explicit loader for the name's first segment (or the name is
// unqualified) and asks every loader in turn
func (r *reference) loopRouted(name string) bool {
	segs := segsOf(name)
	if len(segs) < 2 {
		return true
	}
	for _, v := range r.views {
		if v != nil && v.m.Name != "" && v.m.Name == segs[0] {
			return false
		}
	}
	return true
}

func parentName(name string) string {
	i := strings.LastIndex(name, "::")
	if i < 0 {
		return ""
	}
	return name[:i]
}

// chainFiles: the files at the derived paths of the name and of all its ancestors, in one module
func (v *modView) chainFiles(name string) []*FileSpec {
	var fs []*FileSpec
	for n := name; n != ""; n = parentName(n) {
		if rel, ok := derivedRel(v.m, n); ok {
			if f := v.fileAt(rel); f != nil {
				fs = append(fs, f)
			}
		}
	}
	return fs
}

// closure: every file whose loading the lookup of `name` can involve (chain, references of good files,
// direct files of type set members), bounded
func (r *reference) closure(name string, seen map[*FileSpec]bool, depth int) {
	if depth > 6 {
		return
	}
	for _, v := range r.candidates(name) {
		for _, f := range v.chainFiles(name) {
			if seen[f] {
				continue
			}
			seen[f] = true
			if f.Content == nil {
				continue
			}
			for _, ref := range f.Content.Refs {
				r.closure(ref, seen, depth+1)
			}
			if f.Content.Class == "typeset" {
				for _, m := range f.Content.Members {
					r.closure(f.Content.Declared+"::"+m, seen, depth+1)
				}
			}
		}
	}
}

func (r *reference) viewOf(f *FileSpec) *modView {
	for _, v := range r.views {
		if v == nil {
			continue
		}
		for _, g := range v.files {
			if g == f {
				return v
			}
		}
	}
	return nil
}

func (r *reference) closureClean(name string) bool {
	seen := map[*FileSpec]bool{}
	r.closure(name, seen, 0)
	for f := range seen {
		if r.viewOf(f).badness(f, r.rootUser) != "" {
			return false
		}
	}
	return !r.ambiguous(name)
}

// ambiguous: the layout gives two competing definitions for one name on the way of this lookup (a file
// holding a TypeSet whose own name is also a member of the TypeSet of its parent): which one wins, or
// that the conflict is reported as a redefinition, is not decided by the property text.
func (r *reference) ambiguous(name string) bool {
	seen := map[*FileSpec]bool{}
	r.closure(name, seen, 0)
	for f := range seen {
		if f.Content == nil || f.Content.Class != "typeset" {
			continue
		}
		v := r.viewOf(f)
		own := v.nameOfFile(f)
		p := parentName(own)
		if p == "" {
			continue
		}
		if rel, ok := derivedRel(v.m, p); ok {
			if pf := v.fileAt(rel); pf != nil && pf.Content != nil && pf.Content.Class == "typeset" {
				for _, m := range pf.Content.Members {
					if lowerASCII(m) == own[len(p)+2:] {
						return true
					}
				}
			}
		}
	}
	return false
}

// expectFound: does a good definition for the name exist (in module v)?  direct file, or member of the
// TypeSet at the parent's derived path.
func (v *modView) expectFound(name string, rootUser bool) bool {
	if rel, ok := derivedRel(v.m, name); ok {
		if f := v.fileAt(rel); f != nil {
			return v.badness(f, rootUser) == ""
		}
	}
	p := parentName(name)
	if p == "" {
		return false
	}
	if rel, ok := derivedRel(v.m, p); ok {
		if f := v.fileAt(rel); f != nil && v.badness(f, rootUser) == "" && f.Content.Class == "typeset" {
			last := lowerASCII(name[len(p)+2:])
			for _, m := range f.Content.Members {
				if lowerASCII(m) == last {
					return true
				}
			}
		}
	}
	return false
}

func fileKey(v *modView, f *FileSpec) string { return v.m.Dir + "/" + f.Rel }

// expectMarker: the marker of the definition that expectFound stands for (0: a TypeSet, or not decided - the name
// has a file of its own and is a member of its parent's TypeSet as well)
func (v *modView) expectMarker(name string, rootUser bool) int {
	member := 0
	if p := parentName(name); p != "" {
		if rel, ok := derivedRel(v.m, p); ok {
			if f := v.fileAt(rel); f != nil && v.badness(f, rootUser) == "" && f.Content.Class == "typeset" {
				last := lowerASCII(name[len(p)+2:])
				for j, m := range f.Content.Members {
					if lowerASCII(m) == last && member == 0 {
						member = f.Content.Marker + 1 + j
					}
				}
			}
		}
	}
	if rel, ok := derivedRel(v.m, name); ok {
		if f := v.fileAt(rel); f != nil {
			if member != 0 || v.badness(f, rootUser) != "" || f.Content.Class == "typeset" {
				return 0
			}
			return f.Content.Marker
		}
	}
	return member
}

// dcheck evaluates all clauses on one case, generation by generation: every generation is judged against the
// layout its loaders were created on (what an earlier generation held at the same path is of no concern to it);
// returns the violations (with the whole case as replay input)
func dcheck(cs *Case, cr *CaseResult, rootUser bool, res *lib.Result) []lib.Violation {
	vs := dcheckGen(cs, cs, cr, 0, rootUser, res)
	if cr.Crash == "" {
		for k := range cs.Then {
			if k < len(cr.Then) {
				vs = append(vs, dcheckGen(cs, &cs.Then[k], &cr.Then[k], k+1, rootUser, res)...)
			}
		}
	}
	return vs
}

func dcheckGen(top, cs *Case, cr *CaseResult, gen int, rootUser bool, res *lib.Result) []lib.Violation {
	var vs []lib.Violation
	pfx := ""
	if gen > 0 {
		pfx = fmt.Sprintf("generation %d (the directory was written again at the same path, new loaders): ", gen)
	}
	add := func(clause, what string, tags ...string) {
		vs = append(vs, lib.Violation{Clause: clause, What: pfx + what, Input: top, Tags: tags})
	}
	if cr.Crash != "" {
		add("no-runtime-fault", "the implementation crashed / hung while running this case: "+cr.Crash)
		return vs
	}
	r := &reference{cs: cs, rootUser: rootUser}
	for i := range cs.Mods {
		m := &cs.Mods[i]
		if m.IsFile || (cs.Top == "runtime" && !validSeg.MatchString(m.Dir)) {
			r.views = append(r.views, nil)
			continue
		}
		r.views = append(r.views, newModView(m, cr.Walks[i]))
	}
	readCount := map[string]int{}
	type ans struct {
		o    Outcome
		name string
	}
	byKey := map[string][]ans{}
	lookedUp := map[string]bool{}
	for i, op := range cs.Ops {
		o := cr.Outcomes[i]
		for _, p := range o.Reads {
			readCount[p]++
		}
		if o.Kind == "panic" && (op.Op == "effpath" || op.Op == "typednames") {
			continue // direct calls of the path functions outside their domain: modelled (Fault), compared by M only
		}
		if o.Kind == "panic" {
			add("no-runtime-fault", fmt.Sprintf("op %d %s %q ended in %s", i, op.Op, op.Name, o.Panic))
			continue
		}
		switch op.Op {
		case "effpath":
			m := &cs.Mods[op.Mod]
			if o.Kind == "str" && o.Str != "noloader" && validName(op.Name) {
				// module prefix, types directory, lower-cased name segments, .pp extension
				segs := segsOf(op.Name)
				want := ""
				if isGlobalMod(m) {
					want = "types/" + strings.Join(segs, "/") + ".pp"
				} else if len(segs) >= 2 && segs[0] == m.Name {
					want = "types/" + strings.Join(segs[1:], "/") + ".pp"
				}
				if o.Str != want {
					add("derived-path", fmt.Sprintf("EffectivePath(%q) of loader %q = %q, the stated derivation gives %q", op.Name, m.Name, o.Str, want))
				}
			}
		case "typednames":
			// inverse: for a path that is the derived path of a valid name, TypedNames gives back that name
			m := &cs.Mods[op.Mod]
			if o.Kind == "list" {
				rel := op.Name
				if strings.HasSuffix(rel, ".pp") {
					segs := strings.Split(rel[:len(rel)-3], "/")
					okSegs := true
					for _, s := range segs {
						if !validSeg.MatchString(s) {
							okSegs = false
						}
					}
					if okSegs {
						want := strings.Join(segs, "::")
						if !isGlobalMod(m) && !(len(segs) == 1 && (segs[0] == "init" || segs[0] == "init_typeset")) {
							want = m.Name + "::" + want
						}
						if len(o.List) != 1 || o.List[0] != want {
							add("derived-path", fmt.Sprintf("TypedNames(%q) of loader %q = %v, the inverse derivation gives [%s]", rel, m.Name, o.List, want))
						}
					}
				}
			}
		case "load":
			name := strings.TrimPrefix(op.Name, "::")
			key := lowerASCII(name)
			first := !lookedUp[key]
			lookedUp[key] = true
			cands := r.candidates(name)
			shadow := coreShadow[key]
			valid := validName(name)
			// the direct file, when the name is routed to exactly one place
			var direct *FileSpec
			var dview *modView
			nDirect := 0
			anyChain := false
			for _, v := range cands {
				if rel, ok := derivedRel(v.m, name); ok {
					if f := v.fileAt(rel); f != nil {
						nDirect++
						if direct == nil {
							direct, dview = f, v
						}
					}
				}
				if len(v.chainFiles(name)) > 0 {
					anyChain = true
				}
			}
			switch o.Kind {
			case "reported":
				if o.Code == "PCORE_INVALID_CHARACTERS_IN_NAME" && !valid {
					break // the name itself is rejected: no file involved
				}
				if strings.HasPrefix(o.Code, "PCORE_ATTEMPT_TO_REDEFINE") && r.ambiguous(name) {
					break
				}
				named := o.LocFile
				if named == "" || named == "<go>" {
					named = ""
					if len(o.ArgFiles) > 0 {
						named = o.ArgFiles[0]
					}
				}
				var bf *FileSpec
				var bv *modView
				for _, v := range r.views {
					if v == nil {
						continue
					}
					for _, f := range v.files {
						if fileKey(v, f) == named {
							bf, bv = f, v
						}
					}
				}
				if bf == nil {
					add("bad-file-reported", fmt.Sprintf("op %d load %q: reported error %s names no file of the tree (location %q, file arguments %v)", i, name, o.Code, o.LocFile, o.ArgFiles))
					break
				}
				bad := bv.badness(bf, rootUser)
				if bad == "" {
					add("bad-file-reported", fmt.Sprintf("op %d load %q: reported error %s about %s, which is a well-formed, correctly named definition file", i, name, o.Code, named))
					break
				}
				switch bad {
				case "malformed":
					if o.LocFile != named || o.LocLine != malformedLine(bf.Content) {
						add("bad-file-line", fmt.Sprintf("op %d load %q: malformed %s is reported at %s line %d, the offending line is %d", i, name, named, o.LocFile, o.LocLine, malformedLine(bf.Content)))
					}
				case "unreadable":
					// no content, no line
				case "notypeset":
					// a well-formed, correctly named definition that is not the TypeSet a module's init_typeset.pp must
					// hold: neither malformed nor misnamed; the property text asks for no line here (the file is named)
				case "misnamed":
					// the line of the declaration `type <Name> = ...`
					if o.LocFile != named || o.LocLine != bf.Content.Pad+1 {
						add("bad-file-line", fmt.Sprintf("op %d load %q: misnamed file %s is reported (%s) with location %s line %d, the declaration is on line %d of that file", i, name, named, o.Code, o.LocFile, o.LocLine, bf.Content.Pad+1))
					}
				default:
					if o.LocFile != named || o.LocLine < 1 || o.LocLine > lineCount(render(bf.Content)) {
						add("bad-file-line", fmt.Sprintf("op %d load %q: %s file %s is reported (%s) with location %s line %d, which is not a line of that file", i, name, bad, named, o.Code, o.LocFile, o.LocLine))
					}
				}
			case "found", "notfound":
				if r.closureClean(name) {
					oc := o
					if cs.Top == "chain" {
						// two loaders of the chain with a definition for the same name: which of the two definitions
						// a lookup answers with is not decided by the property text (that it is found is)
						nd := 0
						for _, v := range cands {
							if v.expectFound(name, rootUser) {
								nd++
							}
						}
						if nd > 1 {
							oc.Marker, oc.IsTS = 0, false
						}
					}
					byKey[key] = append(byKey[key], ans{oc, name})
				}
				if o.Kind == "found" && lowerASCII(o.Name) != key {
					add("carries-name", fmt.Sprintf("op %d load %q found a definition named %q", i, name, o.Name))
				}
				if shadow || !valid {
					break
				}
				// a bad file must not be passed over silently by the first lookup that reaches it
				if first && nDirect == 1 && len(cands) == 1 && dview.badness(direct, rootUser) != "" && readCount[fileKey(dview, direct)] == 0 {
					add("bad-file-reported", fmt.Sprintf("op %d load %q: the file at the derived path (%s, %s) was passed over without a reported error (answer: %s)", i, name, fileKey(dview, direct), dview.badness(direct, rootUser), o.Kind))
				}
				if !anyChain {
					if o.Kind != "notfound" || len(o.Reads) > 0 {
						add("absent-no-side-effect", fmt.Sprintf("op %d load %q: no file on the chain of that name, answer %s, files read %v", i, name, o.Kind, o.Reads))
					}
					break
				}
				if !r.closureClean(name) {
					break
				}
				nExp := 0
				for _, v := range cands {
					if v.expectFound(name, rootUser) {
						nExp++
					}
				}
				if cs.Top != "chain" && len(cands) > 1 && nExp > 0 && nDirect != nExp {
					break // several loaders could answer: not decided by the property text
				}
				// (a chain of file-based loaders: the name is found iff some loader of the chain has a good definition
				// for it at the derived path - every loader of the chain is asked)
				if (nExp > 0) != (o.Kind == "found") {
					var tags []string
					if (cs.Top == "dep" || cs.Top == "runtime") && nDirect == 0 && nExp > 0 && o.Kind == "notfound" && r.loopRouted(name) {
						// known finding: a dependency loader that has no explicit loader for the first segment asks every
						// loader in turn and caches its own "absent" while the member's TypeSet is still being resolved
						tags = []string{"dep-loop-routed-typeset-member"}
					}
					vs = append(vs, lib.Violation{Clause: "found-iff-file", Input: top, Tags: tags,
						What: pfx + fmt.Sprintf("op %d load %q (context %d): answer %s, but a good definition at the derived path %s", i, name, op.Ctx, o.Kind,
							map[bool]string{true: "exists", false: "does not exist"}[nExp > 0])})
				}
			}
			if !anyChain && !shadow && valid && o.Kind == "reported" && o.Code != "PCORE_INVALID_CHARACTERS_IN_NAME" {
				add("absent-no-side-effect", fmt.Sprintf("op %d load %q: no file on the chain of that name, but the lookup reported %s", i, name, o.Code))
			}
		}
	}
	keys := make([]string, 0, len(byKey))
	for k := range byKey {
		keys = append(keys, k)
	}
	sort.Strings(keys)
	for _, k := range keys {
		as := byKey[k]
		for _, a := range as[1:] {
			if a.o.Kind != as[0].o.Kind || a.o.Marker != as[0].o.Marker || a.o.Name != as[0].o.Name || a.o.IsTS != as[0].o.IsTS {
				add("case-insensitive", fmt.Sprintf("lookups of %q and %q (same name up to letter case / repeated) answer differently: %s %q marker %d vs %s %q marker %d",
					as[0].name, a.name, as[0].o.Kind, as[0].o.Name, as[0].o.Marker, a.o.Kind, a.o.Name, a.o.Marker))
				break
			}
		}
	}
	paths := make([]string, 0, len(readCount))
	for p := range readCount {
		paths = append(paths, p)
	}
	sort.Strings(paths)
	for _, p := range paths {
		if readCount[p] > 1 {
			add("parsed-at-most-once", fmt.Sprintf("%s was read %d times", p, readCount[p]))
		}
	}
	_ = res
	return vs
}
