package main

import (
	"fmt"
	"strings"
)

// A case = a directory layout (one loader root per module), a loader configuration on top of it and a
// sequence of operations.  Everything the child process needs to rebuild and run it, and everything
// the model needs, is in this structure (the replay file holds exactly one of these).

// Content describes what a file holds, by class; render() turns it into the actual text.
type Content struct {
	// good      `type <Declared> = <alias of a marker type, optionally referring to Refs>`
	// anon      a bare type expression (the loader names it after the request)
	// typeset   `type <Declared> = TypeSet[{... types => {<Members>}}]`
	// malformed rejected by the parser at a known line (template Tmpl)
	// nodef     parses, but is not a type definition (template Tmpl: empty, literal, only comments)
	Class    string   `json:"class"`
	Declared string   `json:"declared,omitempty"`
	Refs     []string `json:"refs,omitempty"`
	Members  []string `json:"members,omitempty"`
	Tmpl     int      `json:"tmpl,omitempty"`
	Pad      int      `json:"pad,omitempty"` // number of lines in front of the first token (comment / blank / white space)
	// style of those lines: 0 comment first, alternating with blank lines | 1 blank line first, alternating with
	// comments | 2 blank lines only | 3 white-space-only lines and blank lines | 4 indented comments and blank lines
	Pre int `json:"pre,omitempty"`
	// encoding artefact of a file of class good / anon / typeset: "bom" (the text starts with a byte order mark),
	// "crlf" (every line ends in CR LF).  The lexer takes neither as white space: such a file is malformed at the
	// line of the mark resp. of the first CR outside a comment (effClass).
	Enc string `json:"enc,omitempty"`
	Marker   int      `json:"marker"`        // unique per file; member j of a type set has Marker+1+j
}

type FileSpec struct {
	Rel string `json:"rel"` // relative to the loader root, '/' separated
	// file | dir | dangling (symlink to nothing) | linkdir (symlink to a directory) | mode000
	Kind    string   `json:"kind"`
	Content *Content `json:"content,omitempty"`
}

type ModSpec struct {
	Dir    string     `json:"dir"`              // directory (or file) name below the case root
	Name   string     `json:"name"`             // module name given to NewFileBasedLoader ("" = global)
	IsFile bool       `json:"is_file,omitempty"` // runtime configuration only: a plain file in the module path
	Files  []FileSpec `json:"files"`
}

type Op struct {
	// load        px.Load of type Name with context loader Ctx (-1: the top loader itself, k>=0: k-th child)
	// has         HasEntry(Name) on module loader Mod
	// discover    Discover on module loader Mod (type namespace, minus what the parent discovers)
	// effpath     SmartPath.EffectivePath(Name) of module loader Mod
	// typednames  SmartPath.TypedNames(authority, Name) of module loader Mod (Name = a relative path)
	Op   string `json:"op"`
	Ctx  int    `json:"ctx"`
	Mod  int    `json:"mod"`
	Name string `json:"name"`
}

type Case struct {
	Family string `json:"family"`
	// single (Mods[0] alone) | dep (px.NewDependencyLoader over all) | runtime (internal/runtime.go builds the
	// loaders from the module_path setting) | chain (file-based loaders parented by file-based loaders: Mods[0] is
	// the top loader, the parent of the loader of Mods[i] is the loader of Mods[i+1], the last one's parent is the
	// system loader - the environment <- module arrangement)
	Top  string    `json:"top"`
	Mods []ModSpec `json:"mods"`
	Ops  []Op      `json:"ops"`
	// further generations: after the operations above, the directory of the case is removed and written again
	// with the layout of Then[0] AT THE SAME PATH, new loaders are created over it IN THE SAME PROCESS and its
	// operations run; then Then[1] ... (Then of a generation is unused).  A loader answers from the layout it stands on.
	Then []Case `json:"then,omitempty"`
}

// Outcome of one operation as observed on the implementation.
type Outcome struct {
	// found | notfound | reported | panic | bool | list | str
	Kind   string `json:"kind"`
	Name   string `json:"name,omitempty"`   // found: Name() of the loaded type
	Marker int    `json:"marker,omitempty"` // found: marker of the alias (0 = none)
	IsTS   bool   `json:"is_ts,omitempty"`  // found: the value is a TypeSet
	// reported: issue code, location (file relative to the case root, or "<go>" for a Go source file), the
	// arguments of the issue that are files of the case (relative)
	Code     string   `json:"code,omitempty"`
	LocFile  string   `json:"loc_file,omitempty"`
	LocLine  int      `json:"loc_line,omitempty"`
	ArgFiles []string `json:"arg_files,omitempty"`
	Panic    string   `json:"panic,omitempty"`
	Bool     bool     `json:"bool,omitempty"`
	List     []string `json:"list,omitempty"`
	Str      string   `json:"str,omitempty"`
	// files whose content was requested (GetContent) during the operation, relative to the case root
	Reads []string `json:"reads,omitempty"`
}

// WalkEntry is one entry of filepath.Walk over a loader root (the OS is the oracle for the path set
// and its order), relative to that root.
type WalkEntry struct {
	Rel   string `json:"rel"`
	IsDir bool   `json:"is_dir"`
}

type CaseResult struct {
	Idx      int           `json:"idx"`
	Outcomes []Outcome     `json:"outcomes"`
	Walks    [][]WalkEntry `json:"walks"`    // per module
	ModOrder []string      `json:"modorder"` // runtime: ioutil.ReadDir order of the module path
	// per module: a file-based loader exists for it (single: module 0 only; runtime: valid module directories)
	Loaders []bool `json:"loaders"`
	// oracle for the model: what the parent of the file-based loaders binds among the names of the case:
	// lower-cased name -> lower-cased Name() of the bound type
	Shadow map[string]string `json:"shadow,omitempty"`
	Crash    string        `json:"crash,omitempty"`
	Then     []CaseResult  `json:"then,omitempty"` // the further generations
}

// ------------------------------------------------------------------------------------------------
// content rendering

const nMalformed = 7
const nNoDef = 6

const nPre = 5

// preamble: n lines (each ends in exactly one line feed) without a token, in one of nPre styles
func preamble(style, n int) string {
	var b strings.Builder
	for i := 0; i < n; i++ {
		odd := i%2 == 1
		switch style % nPre {
		case 0:
			if odd {
				b.WriteString("\n")
			} else {
				fmt.Fprintf(&b, "# comment %d\n", i)
			}
		case 1:
			if odd {
				fmt.Fprintf(&b, "# comment %d\n", i)
			} else {
				b.WriteString("\n")
			}
		case 2:
			b.WriteString("\n")
		case 3:
			if odd {
				b.WriteString("\n")
			} else {
				b.WriteString("  \t \n")
			}
		default:
			if odd {
				fmt.Fprintf(&b, "\t # indented comment %d # twice\n", i)
			} else {
				b.WriteString(" \n")
			}
		}
	}
	return b.String()
}

// effClass: the content class as the parser sees it (an encoding artefact makes a well-formed text malformed)
func effClass(c *Content) string {
	if c.Enc != "" {
		switch c.Class {
		case "good", "anon", "typeset":
			return "malformed"
		}
	}
	return c.Class
}

// render returns the text of the file.
func render(c *Content) string {
	t := renderPlain(c)
	if effClass(c) == c.Class {
		return t
	}
	switch c.Enc {
	case "bom":
		return "\ufeff" + t
	case "crlf":
		return strings.ReplaceAll(t, "\n", "\r\n")
	}
	panic("unknown encoding artefact " + c.Enc)
}

func markerType(m int) string { return fmt.Sprintf("Integer[%d,%d]", m, m) }

func body(c *Content) string {
	if len(c.Refs) == 0 {
		return markerType(c.Marker)
	}
	return "Tuple[" + markerType(c.Marker) + ", " + strings.Join(c.Refs, ", ") + "]"
}

func renderPlain(c *Content) string {
	p := preamble(c.Pre, c.Pad)
	switch c.Class {
	case "good":
		return p + "type " + c.Declared + " = " + body(c) + "\n"
	case "anon":
		return p + body(c) + "\n"
	case "typeset":
		var b strings.Builder
		b.WriteString(p + "type " + c.Declared + " = TypeSet[{\n  pcore_version => '1.0.0',\n  version => '1.0.0'")
		if len(c.Members) > 0 {
			b.WriteString(",\n  types => {\n")
			for j, m := range c.Members {
				if j > 0 {
					b.WriteString(",\n")
				}
				b.WriteString("    " + m + " => " + markerType(c.Marker+1+j))
			}
			b.WriteString("\n  }")
		}
		b.WriteString("\n}]\n")
		return b.String()
	case "malformed":
		d := c.Declared
		switch c.Tmpl % nMalformed {
		case 0:
			return p + "type " + d + " = Struct[{\n a => Integer,\n b => String\n c => Float\n}]\n"
		case 1:
			return p + "type " + d + " = [\n"
		case 2:
			return p + "type " + d + " " + markerType(c.Marker) + "\n"
		case 3:
			return p + "type " + d + " = " + markerType(c.Marker) + "]\n"
		case 4:
			return p + "type " + d + " = " + markerType(c.Marker) + "\n\nextra\n"
		case 5:
			return p + "type\n" + d + "\n=\nInteger[\n1,\n,\n]\n"
		default:
			return p + "type " + d + " = {\n a => 1,\n b\n}\n"
		}
	case "nodef":
		switch c.Tmpl % nNoDef {
		case 0:
			return ""
		case 1:
			return p + "42\n"
		case 2:
			return p + "'text'\n"
		case 3:
			return p + "undef\n"
		case 4:
			return p + "[1, 2]\n"
		default:
			return preamble(c.Pre, c.Pad+1)
		}
	}
	panic("unknown content class " + c.Class)
}

// errPos is the position of the parser's reader in the rendered text when it gives up on a malformed file, by
// construction of the templates: right after the first token (or character) that cannot continue a type
// definition.  The reported line is the line of that position in the file.
func errPos(c *Content) int {
	text := render(c)
	if c.Class != "malformed" {
		switch c.Enc {
		case "bom":
			return len("\ufeff")
		case "crlf":
			// the first CR that is not part of a comment (no text of these classes holds a '#' or a CR inside a token)
			i := 0
			for i < len(text) {
				switch text[i] {
				case ' ', '\t', '\n':
					i++
					continue
				case '#':
					for i < len(text) && text[i] != '\n' {
						i++
					}
					continue
				}
				break
			}
			return i + strings.Index(text[i:], "\r") + 1
		}
		panic("errPos of a well-formed file")
	}
	pre := len(preamble(c.Pre, c.Pad))
	body := text[pre:]
	at := func(sub string, n int) int {
		k := strings.Index(body, sub)
		if k < 0 {
			panic("template changed: " + sub)
		}
		return pre + k + n
	}
	switch c.Tmpl % nMalformed {
	case 0:
		return at("\n c", 3) // `c` where ',' or '}' is required
	case 1:
		return len(text) // end of input after the line break
	case 2:
		return at(" Integer[", 8) // `Integer` where '=' is required
	case 3:
		return at("]]", 2) // the surplus `]`
	case 4:
		return at("extra", 5) // `extra` after the complete expression
	case 5:
		return at(",\n,", 3) // the second `,`
	default:
		return at("\n}", 2) // `}` where '=>' is required
	}
}

// malformedLine is the line the parser must report for a malformed file: the line of the file on which the
// offending token stands = 1 + the number of line feeds in front of errPos.
func malformedLine(c *Content) int {
	return 1 + strings.Count(render(c)[:errPos(c)], "\n")
}

// defLine: the line on which the first token of the file stands (1 when there is none)
func defLine(c *Content) int {
	if c.Class == "nodef" {
		switch c.Tmpl % nNoDef {
		case 0, 5:
			return 1
		}
	}
	return c.Pad + 1
}

func lineCount(text string) int {
	n := strings.Count(text, "\n")
	if !strings.HasSuffix(text, "\n") {
		n++
	}
	if n == 0 {
		n = 1
	}
	return n
}
