// c15: file-based loading maps names to definition files faithfully.
package main

import (
	"bufio"
	"encoding/json"
	"flag"
	"fmt"
	"io/ioutil"
	"os"
	"os/exec"
	"path/filepath"
	"strings"
	"sync"
	"time"

	"verifharness/lib"
)

var (
	childBatch = flag.String("child", "", "(internal) run the cases of this batch file against the implementation")
	childOut   = flag.String("childout", "", "(internal) result lines are appended here")
	childTrees = flag.String("childtrees", "", "(internal) directory for the generated trees")
	childFrom  = flag.Int("childfrom", 0, "(internal) first case to run")
)

func main() {
	// the child mode has its own flags; lib.ParseFlags parses them all
	for _, a := range os.Args[1:] {
		if a == "-child" || strings.HasPrefix(a, "-child=") {
			flag.String("tier", "", "")
			flag.Uint64("seed", 0, "")
			flag.String("out", "", "")
			flag.String("replay", "", "")
			flag.Parse()
			childMain(*childBatch, *childOut, *childTrees, *childFrom)
			return
		}
	}
	cfg := lib.ParseFlags()
	res := lib.NewResult("C15")
	res.Rule = "a case = a generated directory layout (global loader, module loader, dependency loader over several modules, the " +
		"loaders internal/runtime.go builds from module_path, or a chain of file-based loaders each parented by the next: environment <- module) " +
		"+ a sequence of lookups through several contexts; families: corpus, " +
		"bounded-exhaustive (every tree of 1-2 files over 8 paths x 8 contents x 3 loader kinds, 12 names x 2 contexts; every chain of an " +
		"environment with 0-1 file over 4 paths x 5 contents under a module with 0-1 file over 3 paths x 4 contents, 7 names looked up three times; " +
		"every ordered pair of 9 contents (absent included) for one definition path in two generations of the same directory path in one process), seeded random " +
		"(nested namespaces, stray / upper-case / malformed / misnamed / unreadable files, type sets, cyclic references, near-miss names; comment / blank / white-space-only lines in front of the first token in 5 styles, " +
		"byte order marks and CR LF line ends; one case in seven has 1-2 further generations: the directory written again at the same path " +
		"with changed contents, new loaders in the same process). " +
		"Non-trivial = at least one lookup reads a file (a definition is instantiated or a bad file is reported); distinct = distinct " +
		"(layout, operation sequence)"
	rng := lib.NewRng(cfg.Seed)
	abs, _ := filepath.Abs(cfg.Out)
	cfg.Out = abs
	_ = os.MkdirAll(filepath.Join(cfg.Out, "trees"), 0o755)
	mode000 := mode000Works(filepath.Join(cfg.Out, "trees"))
	res.Extra["mode000_family"] = map[bool]string{true: "exercised", false: "skipped: mode-000 files are readable for this user (root); unreadable files are dangling symlinks and symlinks to directories"}[mode000]

	var cases []Case
	var toCoq []bool
	if cfg.Replay != "" {
		for _, in := range lib.ReplayInputs(cfg.Replay) {
			var c Case
			lib.Remarshal(in, &c)
			if c.Top == "" {
				continue
			}
			cases = append(cases, c)
			toCoq = append(toCoq, true)
		}
	} else {
		cases, toCoq = generate(cfg, rng, mode000)
	}
	results := runAll(cfg, cases)

	// cases files of at most 450 cases each (the driver evaluates them in parallel)
	var cfs []*lib.CasesFile
	cf := newCasesFile()
	nViol := 0
	for i := range cases {
		cs, cr := &cases[i], results[i]
		if cr == nil {
			res.Count("skipped")
			continue
		}
		res.Evaluations++
		res.Count("family." + cs.Family)
		res.Count("top." + cs.Top)
		vs := dcheck(cs, cr, !mode000, res)
		tally(res, cs, cr)
		for _, v := range vs {
			res.Violate(v)
		}
		if len(vs) > 0 {
			nViol++
		}
		if cfg.Replay != "" {
			printReplay(cs, cr, vs)
		}
		if cr.Crash == "" && (toCoq[i] || (len(vs) > 0 && nViol <= 20)) {
			if len(cf.Cases) >= 450 {
				cf.Prelude = strPrelude()
				cfs = append(cfs, cf)
				cf = newCasesFile()
			}
			cf.Add(gallinaCase(cs, cr, 0, mode000), cs)
			for g := 1; g <= len(cs.Then) && g <= len(cr.Then); g++ {
				cf.Add(gallinaCase(cs, cr, g, mode000), cs)
			}
		}
		if i%397 == 3 {
			res.Sample(map[string]interface{}{"family": cs.Family, "top": cs.Top, "mods": cs.Mods, "ops": cs.Ops[:min(4, len(cs.Ops))], "outcomes": cr.Outcomes[:min(4, len(cr.Outcomes))]})
		}
	}
	cf.Prelude = strPrelude()
	cfs = append(cfs, cf)
	for k, f := range cfs {
		res.CorrFiles = append(res.CorrFiles, f.WriteTo(cfg.Out, fmt.Sprintf("cases_fileloader_%d", k)))
	}
	_ = os.RemoveAll(filepath.Join(cfg.Out, "trees"))
	res.Write(cfg)
}

func min(a, b int) int {
	if a < b {
		return a
	}
	return b
}

func tally(res *lib.Result, cs *Case, cr *CaseResult) {
	for k := range cs.Then {
		if k < len(cr.Then) {
			res.Count("generation.further")
			tally(res, &cs.Then[k], &cr.Then[k])
		}
	}
	nontrivial := false
	for i, o := range cr.Outcomes {
		res.Count("op." + cs.Ops[i].Op)
		if cs.Ops[i].Op == "load" {
			res.Count("load." + o.Kind)
			if o.Kind == "reported" {
				res.Count("error." + o.Code)
			}
		}
		if len(o.Reads) > 0 {
			nontrivial = true
		}
	}
	for _, m := range cs.Mods {
		for _, f := range m.Files {
			if f.Content != nil {
				if f.Content.Pad > 0 {
					res.Count(fmt.Sprintf("preamble.style%d", f.Content.Pre%nPre))
				}
				if f.Content.Enc != "" {
					res.Count("file.enc." + f.Content.Enc)
				}
				res.Count("file." + f.Kind + "." + f.Content.Class)
			} else {
				res.Count("file." + f.Kind)
			}
		}
	}
	if nontrivial {
		b, _ := json.Marshal(struct {
			M []ModSpec
			O []Op
			T string
			N []Case
		}{cs.Mods, cs.Ops, cs.Top, cs.Then})
		res.Nontrivial(string(b))
	}
}

func generate(cfg *lib.Config, rng *lib.Rng, mode000 bool) ([]Case, []bool) {
	var cases []Case
	var toCoq []bool
	for _, c := range corpus() {
		cases = append(cases, c)
		toCoq = append(toCoq, true)
	}
	exStride, nRandom, randomCoq := 4, 1800, 1000
	if cfg.Thorough() {
		exStride, nRandom, randomCoq = 1, 30000, 9000
	}
	n := 0
	genExhaustive(func(c Case) {
		n++
		cases = append(cases, c)
		toCoq = append(toCoq, n%exStride == 0)
	})
	chStride := 2
	if cfg.Thorough() {
		chStride = 1
	}
	n = 0
	genExhaustiveChain(func(c Case) {
		n++
		cases = append(cases, c)
		toCoq = append(toCoq, n%chStride == 0)
	})
	n = 0
	genExhaustiveRegen(func(c Case) {
		n++
		cases = append(cases, c)
		toCoq = append(toCoq, n%chStride == 0)
	})
	for i := 0; i < nRandom; i++ {
		cases = append(cases, genRandomCase(rng.Fork(), mode000))
		toCoq = append(toCoq, i < randomCoq)
	}
	return cases, toCoq
}

// ------------------------------------------------------------------------------------------------
// running the implementation: batches of cases in child processes

const batchSize = 300

func runAll(cfg *lib.Config, cases []Case) []*CaseResult {
	results := make([]*CaseResult, len(cases))
	type batch struct{ lo, hi int }
	var bs []batch
	for lo := 0; lo < len(cases); lo += batchSize {
		bs = append(bs, batch{lo, min(lo+batchSize, len(cases))})
	}
	sem := make(chan struct{}, 6)
	var wg sync.WaitGroup
	for bi, b := range bs {
		wg.Add(1)
		go func(bi int, b batch) {
			defer wg.Done()
			sem <- struct{}{}
			defer func() { <-sem }()
			for _, r := range runBatch(cfg, bi, cases[b.lo:b.hi]) {
				r := r
				idx := r.Idx + b.lo
				r.Idx = idx
				results[idx] = &r
			}
		}(bi, b)
	}
	wg.Wait()
	return results
}

func runBatch(cfg *lib.Config, bi int, cases []Case) []CaseResult {
	self, err := os.Executable()
	must(err)
	bf := filepath.Join(cfg.Out, fmt.Sprintf("batch_%d.json", bi))
	of := filepath.Join(cfg.Out, fmt.Sprintf("batch_%d.out", bi))
	td := filepath.Join(cfg.Out, "trees", fmt.Sprintf("b%d", bi))
	b, err := json.Marshal(cases)
	must(err)
	must(ioutil.WriteFile(bf, b, 0o644))
	_ = os.Remove(of)
	defer os.Remove(bf)
	defer os.Remove(of)
	var out []CaseResult
	from, crashes := 0, 0
	for from < len(cases) && crashes < 6 {
		cmd := exec.Command(self, "-child", bf, "-childout", of, "-childtrees", td, "-childfrom", fmt.Sprint(from))
		var stderr strings.Builder
		cmd.Stderr = &limitedWriter{w: &stderr, max: 1 << 16}
		cmd.Stdout = nil
		done := make(chan error, 1)
		must(cmd.Start())
		go func() { done <- cmd.Wait() }()
		var werr error
		timedOut := false
		select {
		case werr = <-done:
		case <-time.After(time.Duration(60+len(cases)/4) * time.Second):
			_ = cmd.Process.Kill()
			werr = <-done
			timedOut = true
		}
		// collect what the child wrote
		started := -1
		got := map[int]bool{}
		if f, err := os.Open(of); err == nil {
			sc := bufio.NewScanner(f)
			sc.Buffer(make([]byte, 1<<20), 1<<26)
			for sc.Scan() {
				line := sc.Bytes()
				var st struct {
					Started *int `json:"started"`
				}
				if json.Unmarshal(line, &st) == nil && st.Started != nil {
					started = *st.Started
					continue
				}
				var r CaseResult
				if json.Unmarshal(line, &r) == nil && r.Idx >= from && !got[r.Idx] {
					got[r.Idx] = true
					out = append(out, r)
				}
			}
			f.Close()
		}
		_ = os.Remove(of)
		if werr == nil && !timedOut {
			break
		}
		// the child died in case `started`
		crashes++
		why := "exit: " + fmt.Sprint(werr)
		if timedOut {
			why = "deadline exceeded (hang)"
		}
		if started < 0 || got[started] {
			started = from
			for got[started] {
				started++
			}
		}
		if started < len(cases) {
			out = append(out, CaseResult{Idx: started, Crash: why + "; " + firstFatal(stderr.String())})
		}
		from = started + 1
	}
	_ = os.RemoveAll(td)
	return out
}

func firstFatal(s string) string {
	for _, l := range strings.Split(s, "\n") {
		if strings.HasPrefix(l, "fatal error:") || strings.HasPrefix(l, "panic:") || strings.HasPrefix(l, "runtime:") {
			return l
		}
	}
	if len(s) > 300 {
		s = s[:300]
	}
	return s
}

type limitedWriter struct {
	w   *strings.Builder
	max int
}

func (l *limitedWriter) Write(p []byte) (int, error) {
	if l.w.Len() < l.max {
		l.w.Write(p)
	}
	return len(p), nil
}

func printReplay(cs *Case, cr *CaseResult, vs []lib.Violation) {
	printGen(cs, cr)
	for k := range cs.Then {
		if k < len(cr.Then) {
			fmt.Printf("-- generation %d: the directory is removed and written again at the same path, new loaders, same process\n", k+1)
			printGen(&cs.Then[k], &cr.Then[k])
		}
	}
	if len(vs) == 0 {
		fmt.Println("the implementation satisfies every clause of the property on this case")
	}
	for _, v := range vs {
		fmt.Printf("FAILS %s: %s\n", v.Clause, v.What)
	}
}

func printGen(cs *Case, cr *CaseResult) {
	fmt.Printf("case %s (%s), modules:\n", cs.Family, cs.Top)
	for _, m := range cs.Mods {
		fmt.Printf("  %s (module name %q)\n", m.Dir, m.Name)
		for _, f := range m.Files {
			if f.Content != nil {
				fmt.Printf("    %-34s %-8s %-9s declared=%q members=%v refs=%v\n", f.Rel, f.Kind, f.Content.Class, f.Content.Declared, f.Content.Members, f.Content.Refs)
			} else {
				fmt.Printf("    %-34s %s\n", f.Rel, f.Kind)
			}
		}
	}
	if cr.Crash != "" {
		fmt.Println("CRASH:", cr.Crash)
	}
	for i, o := range cr.Outcomes {
		op := cs.Ops[i]
		b, _ := json.Marshal(o)
		fmt.Printf("  %2d %-10s ctx=%d mod=%d %-28q => %s\n", i, op.Op, op.Ctx, op.Mod, op.Name, b)
	}
}
