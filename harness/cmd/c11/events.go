package main

import (
	"encoding/hex"
	"fmt"
	"math"
	"strconv"
	"strings"
	"unicode/utf8"

	"github.com/lyraproj/pcore/px"
	"github.com/lyraproj/pcore/types"
	"verifharness/lib"
)

// Ev is one call on a px.ValueConsumer, as a tree (the Go API nests the children of AddArray/AddHash
// inside a doer closure, so a call sequence IS a forest).  Mirrors `ev` of coq/Model/Json.v.
// It doubles as the representation of a Data value (no "ref" nodes; a hash lists key, value, key, ...).
// Integers and float bits are carried as text so that a replay file (JSON) loses no precision; strings
// and binaries as hex because they may be invalid UTF-8.
type Ev struct {
	T string `json:"t"`           // undef bool int float str bin other ref arr hash
	B bool   `json:"b,omitempty"` // bool
	I string `json:"i,omitempty"` // int value / ref index (decimal)
	F string `json:"f,omitempty"` // float64 bits (hex)
	S string `json:"s,omitempty"` // str / bin bytes (hex)
	L []*Ev  `json:"l,omitempty"` // children of arr / hash
}

func evUndef() *Ev          { return &Ev{T: "undef"} }
func evOther() *Ev          { return &Ev{T: "other"} }
func evBool(b bool) *Ev     { return &Ev{T: "bool", B: b} }
func evInt(i int64) *Ev     { return &Ev{T: "int", I: strconv.FormatInt(i, 10)} }
func evRef(i int64) *Ev     { return &Ev{T: "ref", I: strconv.FormatInt(i, 10)} }
func evBits(b uint64) *Ev   { return &Ev{T: "float", F: strconv.FormatUint(b, 16)} }
func evFloat(f float64) *Ev { return evBits(math.Float64bits(f)) }
func evStr(s string) *Ev    { return &Ev{T: "str", S: hex.EncodeToString([]byte(s))} }
func evBin(b []byte) *Ev    { return &Ev{T: "bin", S: hex.EncodeToString(b)} }
func evArr(l ...*Ev) *Ev    { return &Ev{T: "arr", L: l} }
func evHash(l ...*Ev) *Ev   { return &Ev{T: "hash", L: l} }

func (e *Ev) Int() int64 {
	i, err := strconv.ParseInt(e.I, 10, 64)
	if err != nil {
		panic("bad int in event: " + e.I)
	}
	return i
}

func (e *Ev) Bits() uint64 {
	b, err := strconv.ParseUint(e.F, 16, 64)
	if err != nil {
		panic("bad float bits in event: " + e.F)
	}
	return b
}

func (e *Ev) Float() float64 { return math.Float64frombits(e.Bits()) }

func (e *Ev) Bytes() string {
	b, err := hex.DecodeString(e.S)
	if err != nil {
		panic("bad hex in event: " + e.S)
	}
	return string(b)
}

func (e *Ev) isContainer() bool { return e.T == "arr" || e.T == "hash" }

// scalar value handed to Add
func (e *Ev) scalarValue() px.Value {
	switch e.T {
	case "undef":
		return px.Undef
	case "bool":
		return types.WrapBoolean(e.B)
	case "int":
		return types.WrapInteger(e.Int())
	case "float":
		return types.WrapFloat(e.Float())
	case "str":
		return types.WrapString(e.Bytes())
	case "bin":
		return types.WrapBinary([]byte(e.Bytes()))
	case "other":
		return types.WrapDefault()
	}
	panic("not a scalar: " + e.T)
}

// The `len` argument of AddArray/AddHash is a capacity hint, not a contract: JsonToData always passes 8
// (jsontodata.go:75-85), the type parser 0 (types/parser.go:211), the Serializer and ConsumePBData the exact
// count.  A consumer must deliver the same result under every hint; the harness plays each stream under one
// of these policies (recorded in the replay input as "hint").
const nHintModes = 5

var hintNames = [nHintModes]string{"exact", "zero", "eight", "one-short", "five-over"}

func hintFor(mode, n int) int {
	switch mode {
	case 1:
		return 0
	case 2:
		return 8
	case 3:
		if n > 0 {
			return n - 1
		}
		return 0
	case 4:
		return n + 5
	}
	return n
}

// play performs the calls on the consumer (exact length hints)
func play(e *Ev, c px.ValueConsumer) { playH(e, c, 0) }

// playH performs the calls on the consumer under the given hint policy
func playH(e *Ev, c px.ValueConsumer, mode int) {
	switch e.T {
	case "ref":
		c.AddRef(int(e.Int()))
	case "arr":
		c.AddArray(hintFor(mode, len(e.L)), func() {
			for _, x := range e.L {
				playH(x, c, mode)
			}
		})
	case "hash":
		c.AddHash(hintFor(mode, len(e.L)/2), func() {
			for _, x := range e.L {
				playH(x, c, mode)
			}
		})
	default:
		c.Add(e.scalarValue())
	}
}

// scalarOf classifies a value received by Add
func scalarOf(v px.Value) *Ev {
	switch v := v.(type) {
	case px.StringValue:
		return evStr(v.String())
	case px.Float:
		return evFloat(v.Float())
	case px.Integer:
		return evInt(v.Int())
	case px.Boolean:
		return evBool(v.Bool())
	case *types.UndefValue:
		return evUndef()
	case *types.Binary:
		return evBin(v.Bytes())
	}
	return evOther()
}

// recorder is a px.ValueConsumer that records the calls it receives
type recorder struct {
	stack       [][]*Ev
	binary      bool
	complexKeys bool
	threshold   int
}

func newRecorder() *recorder {
	return &recorder{stack: make([][]*Ev, 1), binary: true, complexKeys: true}
}

func (r *recorder) CanDoBinary() bool         { return r.binary }
func (r *recorder) CanDoComplexKeys() bool    { return r.complexKeys }
func (r *recorder) StringDedupThreshold() int { return r.threshold }
func (r *recorder) push(e *Ev) {
	top := len(r.stack) - 1
	r.stack[top] = append(r.stack[top], e)
}
func (r *recorder) Add(v px.Value) { r.push(scalarOf(v)) }
func (r *recorder) AddRef(n int)   { r.push(evRef(int64(n))) }
func (r *recorder) nested(t string, doer px.Doer) {
	r.stack = append(r.stack, nil)
	doer()
	top := len(r.stack) - 1
	l := r.stack[top]
	r.stack = r.stack[:top]
	r.push(&Ev{T: t, L: l})
}
func (r *recorder) AddArray(n int, doer px.Doer) { r.nested("arr", doer) }
func (r *recorder) AddHash(n int, doer px.Doer)  { r.nested("hash", doer) }
func (r *recorder) events() []*Ev                { return r.stack[0] }

// tee records the calls and forwards them to the next consumer (capabilities are the next one's)
type tee struct {
	rec  *recorder
	next px.ValueConsumer
}

func (t *tee) CanDoBinary() bool         { return t.next.CanDoBinary() }
func (t *tee) CanDoComplexKeys() bool    { return t.next.CanDoComplexKeys() }
func (t *tee) StringDedupThreshold() int { return t.next.StringDedupThreshold() }
func (t *tee) Add(v px.Value)            { t.rec.Add(v); t.next.Add(v) }
func (t *tee) AddRef(n int)              { t.rec.AddRef(n); t.next.AddRef(n) }
func (t *tee) AddArray(n int, doer px.Doer) {
	t.rec.AddArray(n, func() { t.next.AddArray(n, doer) })
}
func (t *tee) AddHash(n int, doer px.Doer) {
	t.rec.AddHash(n, func() { t.next.AddHash(n, doer) })
}

// ---- comparison, text, Gallina ----

func evEq(a, b *Ev) bool {
	if a.T != b.T || a.B != b.B || a.I != b.I || a.F != b.F || a.S != b.S || len(a.L) != len(b.L) {
		return false
	}
	for i := range a.L {
		if !evEq(a.L[i], b.L[i]) {
			return false
		}
	}
	return true
}

func evsEq(a, b []*Ev) bool {
	if len(a) != len(b) {
		return false
	}
	for i := range a {
		if !evEq(a[i], b[i]) {
			return false
		}
	}
	return true
}

func (e *Ev) String() string {
	switch e.T {
	case "undef":
		return "undef"
	case "other":
		return "<default>"
	case "bool":
		return strconv.FormatBool(e.B)
	case "int":
		return e.I
	case "ref":
		return "@" + e.I
	case "float":
		return fmt.Sprintf("float(%v|%s)", e.Float(), e.F)
	case "str":
		return strconv.Quote(e.Bytes())
	case "bin":
		return "bin(" + e.S + ")"
	case "nil":
		return "<nil>"
	case "toodeep":
		return "<cyclic or too deep>"
	}
	ss := make([]string, len(e.L))
	for i, x := range e.L {
		ss[i] = x.String()
	}
	if e.T == "arr" {
		return "[" + strings.Join(ss, ",") + "]"
	}
	return "{" + strings.Join(ss, ",") + "}"
}

func evsText(l []*Ev) string {
	ss := make([]string, len(l))
	for i, x := range l {
		ss[i] = x.String()
	}
	return strings.Join(ss, " ")
}

func gBits(b uint64) string { return fmt.Sprintf("(%d)%%Z", b) }

func (e *Ev) gScalar() string {
	switch e.T {
	case "undef":
		return "SUndef"
	case "other":
		return "SOther"
	case "bool":
		return "(SBool " + lib.GBool(e.B) + ")"
	case "int":
		return "(SInt " + lib.GZ(e.Int()) + ")"
	case "float":
		return "(SFloat " + gBits(e.Bits()) + ")"
	case "str":
		return "(SStr " + lib.GStr(e.Bytes()) + ")"
	case "bin":
		return "(SBin " + lib.GStr(e.Bytes()) + ")"
	}
	panic("not a scalar: " + e.T)
}

// Gallina term of type `ev`
func (e *Ev) gallina() string {
	switch e.T {
	case "ref":
		return "(ERef " + lib.GZ(e.Int()) + ")"
	case "arr":
		return "(EArr " + gEvs(e.L) + ")"
	case "hash":
		return "(EHash " + gEvs(e.L) + ")"
	}
	return "(EAdd " + e.gScalar() + ")"
}

func gEvs(l []*Ev) string {
	ss := make([]string, len(l))
	for i, x := range l {
		ss[i] = x.gallina()
	}
	return lib.GList(ss, "ev")
}

// Gallina term of type `value` (Model/Pb.v) for a ref-free tree with even hashes
func (e *Ev) gValue() string {
	switch e.T {
	case "undef":
		return "VUndef"
	case "other":
		return "VOther"
	case "bool":
		return "(VBool " + lib.GBool(e.B) + ")"
	case "int":
		return "(VInt " + lib.GZ(e.Int()) + ")"
	case "float":
		return "(VFloat " + gBits(e.Bits()) + ")"
	case "str":
		return "(VStr " + lib.GStr(e.Bytes()) + ")"
	case "bin":
		return "(VBin " + lib.GStr(e.Bytes()) + ")"
	case "arr":
		ss := make([]string, len(e.L))
		for i, x := range e.L {
			ss[i] = x.gValue()
		}
		return "(VArr " + lib.GList(ss, "value") + ")"
	case "hash":
		ss := make([]string, 0, len(e.L)/2)
		for i := 0; i+1 < len(e.L); i += 2 {
			ss = append(ss, lib.GPair(e.L[i].gValue(), e.L[i+1].gValue()))
		}
		return "(VHash " + lib.GList(ss, "value * value") + ")"
	}
	panic("not a value: " + e.T)
}

// ---- predicates and images ----

func walk(e *Ev, f func(*Ev)) {
	f(e)
	for _, x := range e.L {
		walk(x, f)
	}
}

func (e *Ev) size() int {
	n := 0
	walk(e, func(*Ev) { n++ })
	return n
}

// depth: the number of containers open at the deepest call (a scalar: 0)
func (e *Ev) depth() int {
	if !e.isContainer() {
		return 0
	}
	m := 0
	for _, x := range e.L {
		if d := x.depth(); d > m {
			m = d
		}
	}
	return m + 1
}

// width: the largest number of children of one container
func (e *Ev) width() int {
	m := 0
	walk(e, func(x *Ev) {
		if len(x.L) > m {
			m = len(x.L)
		}
	})
	return m
}

func (e *Ev) has(p func(*Ev) bool) bool {
	r := false
	walk(e, func(x *Ev) {
		if p(x) {
			r = true
		}
	})
	return r
}

func isNonFinite(x *Ev) bool {
	return x.T == "float" && (math.IsNaN(x.Float()) || math.IsInf(x.Float(), 0))
}

// evenHashes: every hash has an even number of children (what every px.ValueConsumer is entitled to)
func evenHashes(e *Ev) bool {
	return !e.has(func(x *Ev) bool { return x.T == "hash" && len(x.L)%2 != 0 })
}

// jsonWf: what a consumer with CanDoComplexKeys()=false is entitled to: even hashes with string keys
func jsonWf(e *Ev) bool {
	return evenHashes(e) && !e.has(func(x *Ev) bool {
		if x.T != "hash" {
			return false
		}
		for i := 0; i < len(x.L); i += 2 {
			if x.L[i].T != "str" {
				return true
			}
		}
		return false
	})
}

const prefKey = "__pref"

func prefFirstKey(x *Ev) bool {
	return x.T == "hash" && len(x.L) > 0 && x.L[0].T == "str" && x.L[0].Bytes() == prefKey
}

// coerceUTF8 is the image of a Go string under JSON text (RFC 8259 requires UTF-8): every byte that is
// not part of a valid UTF-8 sequence becomes U+FFFD; every Unicode character is kept.
func coerceUTF8(s string) string {
	if utf8.ValidString(s) {
		return s
	}
	var b strings.Builder
	for i := 0; i < len(s); {
		r, w := utf8.DecodeRuneInString(s[i:])
		if r == utf8.RuneError && w == 1 {
			b.WriteString("\uFFFD")
		} else {
			b.WriteString(s[i : i+w])
		}
		i += w
	}
	return b.String()
}

// jsonImage is what a JSON text can carry of an event: strings as valid UTF-8, a value that is not a
// Data scalar (Binary is not offered to a consumer with CanDoBinary()=false) as null.
func jsonImage(e *Ev) *Ev {
	switch e.T {
	case "str":
		return evStr(coerceUTF8(e.Bytes()))
	case "bin", "other":
		return evUndef()
	case "arr", "hash":
		l := make([]*Ev, len(e.L))
		for i, x := range e.L {
			l[i] = jsonImage(x)
		}
		return &Ev{T: e.T, L: l}
	}
	return e
}

// pbImage: the protobuf message has no slot for values other than Data scalars and Binary
func pbImage(e *Ev) *Ev {
	switch e.T {
	case "other":
		return evUndef()
	case "arr", "hash":
		l := make([]*Ev, len(e.L))
		for i, x := range e.L {
			l[i] = pbImage(x)
		}
		return &Ev{T: e.T, L: l}
	}
	return e
}

// mapStr returns a copy with f applied to every node
func mapEv(e *Ev, f func(*Ev) *Ev) *Ev {
	c := *e
	if len(e.L) > 0 {
		c.L = make([]*Ev, len(e.L))
		for i, x := range e.L {
			c.L[i] = mapEv(x, f)
		}
	}
	return f(&c)
}

// ---- Data values ----

// isDataTree: no refs, no bin/other, even hashes
func isValueTree(e *Ev) bool {
	return evenHashes(e) && !e.has(func(x *Ev) bool { return x.T == "ref" })
}

func isDataTree(e *Ev) bool {
	return isValueTree(e) && !e.has(func(x *Ev) bool { return x.T == "bin" || x.T == "other" })
}

// toPx builds the pcore value; with a non-nil memo, structurally equal containers share one pointer
// (so that the serializer emits back-references)
func toPx(e *Ev, memo map[string]px.Value) px.Value {
	if !e.isContainer() {
		return e.scalarValue()
	}
	var key string
	if memo != nil {
		key = e.String()
		if v, ok := memo[key]; ok {
			return v
		}
	}
	var v px.Value
	if e.T == "arr" {
		l := make([]px.Value, len(e.L))
		for i, x := range e.L {
			l[i] = toPx(x, memo)
		}
		v = types.WrapValues(l)
	} else {
		l := make([]*types.HashEntry, 0, len(e.L)/2)
		for i := 0; i+1 < len(e.L); i += 2 {
			l = append(l, types.WrapHashEntry(toPx(e.L[i], memo), toPx(e.L[i+1], memo)))
		}
		v = types.WrapHash(l)
	}
	if memo != nil {
		memo[key] = v
	}
	return v
}

// fromPx is the exact structural image of a pcore value (kinds, float bits, string bytes, entry order).
// A collector that is handed a reference to a container still under construction builds a cyclic Go value
// (reachable through the open finding: a user hash {"__pref": n} is read back as AddRef(n)); the walk is
// therefore bounded in depth and in nodes and cut off with a "toodeep" node, which equals no event.
const maxDepth, maxNodes = 500, 200000

func fromPx(v px.Value) *Ev {
	budget := maxNodes
	return fromPxD(v, 0, &budget)
}

func fromPxD(v px.Value, depth int, budget *int) *Ev {
	*budget--
	if depth > maxDepth || *budget < 0 {
		return &Ev{T: "toodeep"}
	}
	switch v := v.(type) {
	case *types.Array:
		l := make([]*Ev, 0, v.Len())
		v.Each(func(x px.Value) { l = append(l, fromPxD(x, depth+1, budget)) })
		return &Ev{T: "arr", L: l}
	case *types.Hash:
		l := make([]*Ev, 0, 2*v.Len())
		v.EachPair(func(k, x px.Value) { l = append(l, fromPxD(k, depth+1, budget), fromPxD(x, depth+1, budget)) })
		return &Ev{T: "hash", L: l}
	}
	if v == nil {
		return &Ev{T: "nil"}
	}
	return scalarOf(v)
}
