package main

import (
	"bytes"
	"encoding/hex"
	"encoding/json"
	"fmt"
	"math"
	"unicode/utf8"

	"github.com/lyraproj/data-protobuf/datapb"
	"github.com/lyraproj/pcore/pcore"
	pcproto "github.com/lyraproj/pcore/proto"
	"github.com/lyraproj/pcore/px"
	"github.com/lyraproj/pcore/serialization"
	"github.com/lyraproj/pcore/types"
	"verifharness/lib"
)

// checker carries the result and the four Coq case files
type checker struct {
	cfg     *lib.Config
	res     *lib.Result
	verbose bool
	jf      *shards // event tree -> writer tokens, validity, reader events
	rf      *shards // JSON text (tokens) -> validity, reader events
	sf      *shards // scalar oracles: float class, integer text -> float, UTF-8 coercion
	pf      *shards // protobuf: values, event trees, collector
	vf      *shards // Serializer: options + value -> the calls the consumer received
	lf      *shards // string lexemes: string -> json.Marshal, the bytes the streamer wrote, their decoding
	tf      *shards // whole texts as bytes: the byte-level writer and the tokenizer of Model/JsonText.v
	nText   int
	nViolL  int
	nViolJ  int
	nViolP  int
	nKnown  int
	nSer    int
	seen    int
	hint    int // the length-hint policy the next event stream is played under (events.go hintFor)
}

// shards: a Coq cases file that rolls over into cases_x_2.v, cases_x_3.v, ... (one coqc each, run in
// parallel by the driver) so that no single file holds more than maxCasesPerFile cases
// nor more than maxBytesPerFile of terms (coqc reads about 30 kB of literal terms per second)
const maxCasesPerFile = 1500
const maxBytesPerFile = 600000
const textStride = 3 // one in three Coq cases of the JSON families also goes to cases_text as bytes

type shards struct {
	name  string
	typ   string
	obl   map[string]string
	files []*lib.CasesFile
	bytes int // of the last file
}

var caseImports = []string{"Model.Base", "Model.Json", "Model.Pb", "Model.PbMem", "Model.JsonSer", "Model.JsonStr", "Model.JsonText", "Corr.CorrC11"}

func (s *shards) Add(term string, input interface{}) {
	if len(s.files) == 0 || len(s.files[len(s.files)-1].Cases) >= maxCasesPerFile || s.bytes+len(term) > maxBytesPerFile {
		s.files = append(s.files, &lib.CasesFile{Imports: caseImports, Typ: s.typ, Obligations: s.obl})
		s.bytes = 0
	}
	s.bytes += len(term)
	s.files[len(s.files)-1].Add(term, input)
}

func (s *shards) WriteAll(dir string) (out []lib.CorrFile) {
	if len(s.files) == 0 {
		s.files = append(s.files, &lib.CasesFile{Imports: caseImports, Typ: s.typ, Obligations: s.obl})
	}
	for i, f := range s.files {
		n := s.name
		if i > 0 {
			n = fmt.Sprintf("%s_%d", s.name, i+1)
		}
		out = append(out, f.WriteTo(dir, n))
	}
	return out
}

func newChecker(cfg *lib.Config, res *lib.Result) *checker {
	return &checker{cfg: cfg, res: res,
		jf: &shards{name: "cases_json", typ: "jcase", obl: map[string]string{
			"json_stream":    "json_stream_mismatches cases",
			"json_valid_rfc": "json_valid_mismatches cases",
			"json_read":      "json_read_mismatches cases"}},
		rf: &shards{name: "cases_reader", typ: "rcase", obl: map[string]string{
			"reader_valid_rfc": "reader_valid_mismatches cases",
			"reader_read":      "reader_read_mismatches cases"}},
		sf: &shards{name: "cases_scalar", typ: "scase", obl: map[string]string{
			"scalar_oracles": "scalar_mismatches cases"}},
		pf: &shards{name: "cases_pb", typ: "pcase", obl: map[string]string{
			"pb_model": "pb_mismatches cases"}},
		vf: &shards{name: "cases_ser", typ: "sercase", obl: map[string]string{
			"ser_model": "ser_mismatches cases"}},
		lf: &shards{name: "cases_str", typ: "lcase", obl: map[string]string{
			"str_lexemes": "str_lexeme_mismatches cases"}},
		tf: &shards{name: "cases_text", typ: "tcase", obl: map[string]string{
			"text_model": "text_mismatches cases"}},
	}
}

func (c *checker) finish() {
	for _, s := range []*shards{c.jf, c.rf, c.sf, c.pf, c.vf, c.lf, c.tf} {
		c.res.CorrFiles = append(c.res.CorrFiles, s.WriteAll(c.cfg.Out)...)
	}
}

func (c *checker) say(format string, a ...interface{}) {
	if c.verbose {
		fmt.Printf(format+"\n", a...)
	}
}

func short(s string) string {
	if len(s) > 400 {
		return s[:400] + "..."
	}
	return s
}

// ------------------------------------------------------------------------------------------------
// JSON: one top-level event tree through NewJsonStreamer, encoding/json's validator, JsonToData

type jsonRun struct {
	out            []byte
	wOutcome       string
	valid          bool
	readRun        bool
	evs            []*Ev
	rOutcome       string
	clause, what   string // the first clause of the property that fails ("" = none)
	wDetail, rDetl string
}

// jsonProperty evaluates the property as stated on one event tree
func jsonProperty(e *Ev, hint int) *jsonRun {
	r := &jsonRun{}
	r.out, r.wOutcome, r.wDetail = runWriter(e, hint)
	wf := jsonWf(e)
	if r.wOutcome != "" {
		// a JSON text cannot carry NaN/Inf: reporting an error is the only correct answer there
		if r.wOutcome == "fault" || (wf && !e.has(isNonFinite)) {
			r.clause, r.what = "json-writer-total", fmt.Sprintf("the JSON streamer fails (%s: %s) on the well-formed event stream %s",
				r.wOutcome, r.wDetail, short(e.String()))
		}
		return r
	}
	r.valid = json.Valid(r.out)
	if wf && !r.valid {
		r.clause, r.what = "json-valid", fmt.Sprintf("events %s are written as %s, which is not valid JSON", short(e.String()), short(string(r.out)))
	}
	if !r.valid {
		return r
	}
	r.readRun = true
	r.evs, r.rOutcome, r.rDetl = runReader(r.out)
	if wf {
		want := []*Ev{jsonImage(e)}
		if r.rOutcome != "" {
			r.clause, r.what = "json-events-roundtrip", fmt.Sprintf("events %s are written as %s, reading that back fails: %s",
				short(e.String()), short(string(r.out)), r.rDetl)
		} else if !evsEq(r.evs, want) {
			r.clause, r.what = "json-events-roundtrip", fmt.Sprintf("events %s are written as %s and read back as %s",
				short(e.String()), short(string(r.out)), short(evsText(r.evs)))
		}
	}
	return r
}

func neutralisePref(e *Ev) *Ev {
	return mapEv(e, func(x *Ev) *Ev {
		if prefFirstKey(x) {
			x.L[0] = evStr("__qref")
		}
		return x
	})
}

func jsonNontrivial(e *Ev) bool {
	return e.has(func(x *Ev) bool {
		if x.T == "arr" {
			for i, y := range x.L {
				if i > 0 && y.isContainer() {
					return true
				}
			}
		}
		if x.T == "hash" {
			for i, y := range x.L {
				if i > 1 && y.isContainer() {
					return true
				}
			}
		}
		switch x.T {
		case "float", "ref":
			return true
		case "int":
			v := x.Int()
			return v > 1<<53 || v < -(1<<53)
		case "str":
			s := x.Bytes()
			for i := 0; i < len(s); i++ {
				if s[i] < 0x20 || s[i] >= 0x7f || s[i] == '"' || s[i] == '\\' || s[i] == '<' || s[i] == '>' || s[i] == '&' {
					return true
				}
			}
		}
		return false
	})
}

func (c *checker) jsonEvent(e *Ev, family string, toCoq bool) {
	r := jsonProperty(e, c.hint)
	c.res.Evaluations++
	c.res.Count("json." + family)
	c.shape(e)
	if jsonNontrivial(e) {
		c.res.Nontrivial("J" + e.String())
		c.res.Count("json.nontrivial")
	}
	if !jsonWf(e) {
		c.res.Count("json.not-wellformed(tie only)")
	}
	c.say("JSON events   : %s", e.String())
	c.say("  written     : %q (outcome %q %s) json.Valid=%v", string(r.out), r.wOutcome, r.wDetail, r.valid)
	if r.readRun {
		c.say("  read back   : %s (outcome %q %s)", evsText(r.evs), r.rOutcome, r.rDetl)
	}
	input := map[string]interface{}{"kind": "json-events", "ev": e, "hint": c.hint}
	if r.clause != "" {
		var tags []string
		if r.clause == "json-events-roundtrip" && e.has(prefFirstKey) && jsonProperty(neutralisePref(e), c.hint).clause == "" {
			// the only thing wrong with this input is a user hash whose first key is the reserved `__pref`
			tags = append(tags, "pref-first-key")
		}
		c.say("  FAILS %s: %s %v", r.clause, r.what, tags)
		if len(tags) > 0 {
			// instances of the known finding: keep a few (the result keeps at most 200 violations and a
			// different violation must never be crowded out), count the rest
			c.res.Count("json.known-finding." + tags[0])
			c.nKnown++
			if c.nKnown <= 5 {
				c.res.Violate(lib.Violation{Clause: r.clause, What: r.what, Input: input, Tags: tags})
			}
		} else {
			c.res.Violate(lib.Violation{Clause: r.clause, What: r.what, Input: input})
			c.nViolJ++
			if c.nViolJ <= 20 {
				toCoq = true
			}
		}
	} else {
		c.say("  property holds on this input")
	}
	if toCoq {
		rout := "(@None (res (list ev)))"
		if r.readRun {
			rout = gRout(r.evs, r.rOutcome)
		}
		c.jf.Add(fmt.Sprintf("(%s, %s, %s, %s)", e.gallina(), gWout(r.out, r.wOutcome), lib.GBool(r.valid), rout), input)
		// the same run at the level of bytes (every textStride-th case that goes to Coq, every failing one, every replay)
		c.nText++
		if len(r.out) <= maxTextBytes && (c.nText%textStride == 0 || r.clause != "" || family == "replay" || family == "corpus") {
			c.textWritten(e, r.out, r.wOutcome, input)
		}
	}
	c.seen++
	if c.seen%4001 == 7 {
		c.res.Sample(map[string]interface{}{"kind": "json-events", "events": e.String(), "written": string(r.out), "read_back": evsText(r.evs)})
	}
}

// jsonText: an arbitrary JSON text through encoding/json's validator and JsonToData (tie only: the
// reader model and the RFC 8259 recogniser; the property is evaluated by jsonEvent)
func (c *checker) jsonText(b []byte, family string, toCoq bool) {
	valid := json.Valid(b)
	c.res.Evaluations++
	c.res.Count("jsontext." + family)
	rout := "(@None (res (list ev)))"
	c.say("JSON text     : %q json.Valid=%v", string(b), valid)
	if valid {
		evs, ro, rd := runReader(b)
		rout = gRout(evs, ro)
		c.say("  JsonToData  : %s (outcome %q %s)", evsText(evs), ro, rd)
	}
	input := map[string]interface{}{"kind": "json-text", "hex": hex.EncodeToString(b)}
	if toCoq {
		c.rf.Add(fmt.Sprintf("(%s, %s, %s)", gToks(tokenize(b)), lib.GBool(valid), rout), input)
	}
	c.nText++
	c.textAny(b, valid, toCoq && len(b) <= maxTextBytes && (c.nText%textStride == 0 || family == "replay" || family == "corpus"), input)
}

// ------------------------------------------------------------------------------------------------
// scalar oracles (tie only): what the model assumes about strconv / encoding/json

func (c *checker) floatClass(bits uint64) {
	f := math.Float64frombits(bits)
	b, err := json.Marshal(f)
	finite := err == nil
	intlike := finite && !bytes.ContainsAny(b, ".eE")
	c.res.Count("scalar.float-class")
	c.sf.Add(fmt.Sprintf("SCFloat %s %s %s", gBits(bits), lib.GBool(finite), lib.GBool(intlike)),
		map[string]interface{}{"kind": "float-class", "bits": fmt.Sprintf("%x", bits)})
	if finite {
		// digit generation and parsing are strconv's: what is written must parse back to the same bits
		t := numTok(string(b))
		if intlike {
			// (the text jsonStreamer.write produces is this text followed by ".0")
			t = numTok(string(b) + ".0")
		}
		if t.K != "frac" || t.Bits != bits {
			c.res.Violate(lib.Violation{Clause: "json-events-roundtrip",
				What:  fmt.Sprintf("float bits %x are rendered as %s which does not parse back to the same float", bits, b),
				Input: map[string]interface{}{"kind": "json-events", "ev": evBits(bits)}})
		}
	}
}

func (c *checker) bigIntText(txt string) {
	t := numTok(txt)
	if t.K != "int" || (t.Int.Sign() == 0 && txt[0] == '-') {
		// "-0" is the integer 0 for Int64() (the only way jsontodata.go reads it); its sign exists only as a float
		return
	}
	f, _ := json.Number(txt).Float64()
	c.res.Count("scalar.int-text-to-float")
	c.sf.Add(fmt.Sprintf("SCBig %s %s", lib.GBig(t.Int), gBits(math.Float64bits(f))),
		map[string]interface{}{"kind": "int-text", "text": txt})
}

func (c *checker) utf8Coerce(s string) {
	b, err := json.Marshal(s)
	var back string
	if err == nil {
		err = json.Unmarshal(b, &back)
	}
	if err != nil {
		back = "<error>"
	}
	c.res.Count("scalar.utf8-coerce")
	c.sf.Add(fmt.Sprintf("SCUtf8 %s %s %s", lib.GStr(s), lib.GStr(back), lib.GBool(utf8.ValidString(s))),
		map[string]interface{}{"kind": "utf8", "hex": hex.EncodeToString([]byte(s))})
}

// ------------------------------------------------------------------------------------------------
// protobuf

func allStringsValid(e *Ev) bool {
	return !e.has(func(x *Ev) bool { return x.T == "str" && !utf8.ValidString(x.Bytes()) })
}

// pbEvent: one top-level event tree through NewProtoConsumer and back through ConsumePBData
func (c *checker) pbEvent(e *Ev, family string, toCoq bool) {
	c.res.Evaluations++
	c.res.Count("pb." + family)
	c.res.Count("pb.hint-" + hintNames[c.hint])
	c.shape(e)
	input := map[string]interface{}{"kind": "pb-events", "ev": e, "hint": c.hint}
	fail := func(clause, what string) {
		c.say("  FAILS %s: %s", clause, what)
		c.res.Violate(lib.Violation{Clause: clause, What: what, Input: input})
		c.nViolP++
		if c.nViolP <= 20 {
			toCoq = true
		}
	}
	wf := evenHashes(e)
	d, po, pd := runProtoConsumer(e, c.hint)
	c.say("PB events     : %s (length hints: %s)", e.String(), hintNames[c.hint])
	c.say("  message     : %s (outcome %q %s)", gPb(d), po, pd)
	consumed := "(@None (res (list ev)))"
	if po != "" {
		if wf {
			fail("pb-stream-roundtrip", fmt.Sprintf("the protobuf consumer fails (%s: %s) on the event stream %s", po, pd, short(e.String())))
		}
	} else {
		evs, co, cd := runConsumePB(d)
		c.say("  consumed as : %s (outcome %q %s)", evsText(evs), co, cd)
		consumed = "(Some " + gRes(co, "list ev", gEvs(evs)) + ")"
		if wf && (co != "" || !evsEq(evs, []*Ev{pbImage(e)})) {
			fail("pb-stream-roundtrip", fmt.Sprintf("events %s become the message %s which is consumed as %s %s", short(e.String()),
				short(gPb(d)), short(evsText(evs)), cd))
		}
		if wf && allStringsValid(e) {
			// the wire encoding is the protobuf runtime's; proto3 strings must be valid UTF-8
			d2, wo, wd := wire(d)
			if wo != "" || pbText(d2) != pbText(d) {
				fail("pb-wire-roundtrip", fmt.Sprintf("message %s of events %s is decoded from its wire encoding as %s %s", short(gPb(d)),
					short(e.String()), short(gPb(d2)), wd))
			}
		}
		if wf && co == "" && collectable(e) {
			// decoding the message into a collector rebuilds the value the stream denotes
			if want, ok := resolveRefs(pbImage(e)); ok {
				var back *Ev
				bo, bd := guarded(func() {
					coll := types.NewCollector()
					pcproto.ConsumePBData(d, coll)
					back = fromPx(coll.Value())
				})
				if bo != "" || !evEq(back, want) {
					fail("pb-stream-roundtrip", fmt.Sprintf("events %s become the message %s which a collector rebuilds as %v %s",
						short(e.String()), short(gPb(d)), back, bd))
				}
			}
		}
		if wf && isDataTree(e) {
			// a stream that is a Data value: FromPBData of the message is that value
			back, fo, fd := runFromPB(d)
			var bt *Ev
			if fo == "" {
				bt = fromPx(back)
			}
			if fo != "" || !evEq(bt, e) {
				fail("pb-stream-roundtrip", fmt.Sprintf("the calls of the Data value %s become the message %s and FromPBData of it is %v %s",
					short(e.String()), short(gPb(d)), bt, fd))
			}
		}
	}
	// the collector that turns events back into a value: every AddRef(n) must become the value at position n
	coll := "(@None (res value))"
	if wf && collectable(e) {
		v, vo, _ := runCollector(e, c.hint)
		cyclic := v != nil && v.has(func(x *Ev) bool { return x.T == "toodeep" })
		if vo == "" && v != nil && !cyclic && isValueTree(v) {
			coll = "(Some (Ok " + v.gValue() + "))"
		} else if vo != "" {
			coll = "(Some " + gRes(vo, "value", "") + ")"
		}
		if want, ok := resolveRefs(e); ok && e.T != "nil" {
			if vo != "" || !evEq(v, want) {
				fail("pb-stream-roundtrip", fmt.Sprintf("the collector builds %v (%s) from the events %s", v, vo, short(e.String())))
			}
		}
	}
	if toCoq {
		c.pf.Add(fmt.Sprintf("PE %s %s %s %s", e.gallina(), gRes(po, "pb", gPb(d)), consumed, coll), input)
	}
}

// pbValue: FromPBData(ToPBData(v)) for a value tree (no refs); the property demands equality for Data
func (c *checker) pbValue(e *Ev, family string, toCoq bool) {
	c.res.Evaluations++
	c.res.Count("pbvalue." + family)
	if e.has(func(x *Ev) bool {
		return x.T == "float" || x.isContainer() || (x.T == "int" && (x.Int() > 1<<53 || x.Int() < -(1<<53)))
	}) {
		c.res.Nontrivial("P" + e.String())
	}
	input := map[string]interface{}{"kind": "pb-value", "ev": e}
	fail := func(clause, what string) {
		c.say("  FAILS %s: %s", clause, what)
		c.res.Violate(lib.Violation{Clause: clause, What: what, Input: input})
		c.nViolP++
		if c.nViolP <= 20 {
			toCoq = true
		}
	}
	v := toPx(e, nil)
	d, to, td := runToPB(v)
	c.say("PB value      : %s", e.String())
	c.say("  ToPBData    : %s (outcome %q %s)", gPb(d), to, td)
	if to != "" {
		fail("pb-value-roundtrip", fmt.Sprintf("ToPBData fails (%s: %s) on %s", to, td, short(e.String())))
		return
	}
	back, fo, fd := runFromPB(d)
	var bt *Ev
	if fo == "" {
		bt = fromPx(back)
	}
	c.say("  FromPBData  : %v (outcome %q %s)", bt, fo, fd)
	if isDataTree(e) {
		if fo != "" || !evEq(bt, e) {
			fail("pb-value-roundtrip", fmt.Sprintf("FromPBData(ToPBData(%s)) = %v %s", short(e.String()), bt, fd))
		}
		if allStringsValid(e) {
			d2, wo, wd := wire(d)
			if wo != "" || pbText(d2) != pbText(d) {
				fail("pb-wire-roundtrip", fmt.Sprintf("message %s of value %s is decoded from its wire encoding as %s %s", short(gPb(d)),
					short(e.String()), short(gPb(d2)), wd))
			}
		}
	}
	evs, co, _ := runConsumePB(d)
	if toCoq {
		backG := gRes(fo, "value", "")
		if fo == "" {
			if !isValueTree(bt) {
				return
			}
			backG = "(Ok " + bt.gValue() + ")"
		}
		c.pf.Add(fmt.Sprintf("PV %s %s %s %s", e.gValue(), gPb(d), backG, gRes(co, "list ev", gEvs(evs))), input)
	}
}

// ------------------------------------------------------------------------------------------------
// end to end: Data value -> real Serializer -> transport -> Collector

type serOpts struct {
	Rich     bool `json:"rich_data"`
	LocalRef bool `json:"local_reference"`
	Dedup    int  `json:"dedup_level"`
}

func (o serOpts) hash() px.OrderedMap {
	return types.WrapHash([]*types.HashEntry{
		types.WrapHashEntry2("rich_data", types.WrapBoolean(o.Rich)),
		types.WrapHashEntry2("local_reference", types.WrapBoolean(o.LocalRef)),
		types.WrapHashEntry2("dedup_level", types.WrapInteger(int64(o.Dedup)))})
}

var allSerOpts = []serOpts{{false, true, 2}, {true, true, 2}, {true, false, 0}, {true, true, 1}, {false, true, 0}}

// dataValue: a Data value (string keys) with shared sub-containers through the real serializer and
// both transports; returns the event trees the serializer emitted (they feed jsonEvent/pbEvent)
func (c *checker) dataValue(e *Ev, shared bool, o serOpts, family string) (emitted []*Ev) {
	c.res.Evaluations++
	c.res.Count("data." + family)
	input := map[string]interface{}{"kind": "data-value", "ev": e, "shared": shared, "opts": o}
	fail := func(clause, what string) {
		c.say("  FAILS %s: %s", clause, what)
		c.res.Violate(lib.Violation{Clause: clause, What: what, Input: input})
	}
	var memo map[string]px.Value
	if shared {
		memo = map[string]px.Value{}
	}
	v := toPx(e, memo)
	c.say("Data value    : %s shared=%v opts=%+v", e.String(), shared, o)
	// --- JSON, by both routes the library offers: a Serializer in front of NewJsonStreamer, and DataToJson
	nonfinite := e.has(isNonFinite)
	var so, sd string
	for route := 0; route < 2; route++ {
		buf := &bytes.Buffer{}
		t := &tee{rec: newRecorder(), next: serialization.NewJsonStreamer(buf)}
		rname := "Serializer+NewJsonStreamer"
		if route == 0 {
			so, sd = guarded(func() { serialization.NewSerializer(pcore.RootContext(), o.hash()).Convert(v, t) })
		} else {
			rname = "DataToJson"
			so, sd = guarded(func() { serialization.DataToJson(v, buf) })
		}
		c.say("  JSON (%s): %q (outcome %q %s) events %s", rname, buf.String(), so, sd, evsText(t.rec.events()))
		if so != "" {
			if so == "fault" || !nonfinite {
				fail("json-data-roundtrip", fmt.Sprintf("serializing %s to JSON (%s) fails (%s: %s)", short(e.String()), rname, so, sd))
			}
			continue
		}
		if route == 0 {
			emitted = append(emitted, t.rec.events()...)
		}
		if !json.Valid(buf.Bytes()) {
			fail("json-valid", fmt.Sprintf("Data value %s is written (%s) as %s, which is not valid JSON", short(e.String()), rname, short(buf.String())))
			continue
		}
		var back *Ev
		ro, rd := guarded(func() {
			coll := types.NewCollector()
			serialization.JsonToData("/verif/c11.json", bytes.NewReader(buf.Bytes()), coll)
			back = fromPx(coll.Value())
		})
		c.say("  JSON->value : %v (outcome %q %s)", back, ro, rd)
		if ro != "" || !evEq(back, jsonImage(e)) {
			var tags []string
			if e.has(prefFirstKey) {
				ne := neutralisePref(e)
				if len(c.dataValueQuiet(ne, shared, o)) == 0 {
					tags = append(tags, "pref-first-key")
				}
			}
			if len(tags) > 0 {
				c.res.Count("data.known-finding." + tags[0])
				c.nKnown++
			}
			if len(tags) == 0 || c.nKnown <= 5 {
				c.res.Violate(lib.Violation{Clause: "json-data-roundtrip", Input: input, Tags: tags,
					What: fmt.Sprintf("Data value %s is written (%s) as %s and rebuilt as %v %s", short(e.String()), rname, short(buf.String()), back, rd)})
			}
			c.say("  FAILS json-data-roundtrip %v", tags)
		}
	}
	// --- protobuf
	pc := pcproto.NewProtoConsumer()
	tp := &tee{rec: newRecorder(), next: pc}
	var d *datapb.Data
	so, sd = guarded(func() {
		serialization.NewSerializer(pcore.RootContext(), o.hash()).Convert(v, tp)
		d = pc.Value()
	})
	c.say("  PB message  : %s (outcome %q %s)", gPb(d), so, sd)
	if so != "" {
		fail("pb-data-roundtrip", fmt.Sprintf("serializing %s to protobuf fails (%s: %s)", short(e.String()), so, sd))
		return
	}
	emitted = append(emitted, tp.rec.events()...)
	var back *Ev
	ro, rd := guarded(func() {
		coll := types.NewCollector()
		pcproto.ConsumePBData(d, coll)
		back = fromPx(coll.Value())
	})
	c.say("  PB->value   : %v (outcome %q %s)", back, ro, rd)
	if ro != "" || !evEq(back, e) {
		fail("pb-data-roundtrip", fmt.Sprintf("Data value %s becomes the message %s and is rebuilt as %v %s", short(e.String()), short(gPb(d)), back, rd))
	}
	return emitted
}

// dataValueQuiet re-runs dataValue without recording anything and returns the violations it would raise
func (c *checker) dataValueQuiet(e *Ev, shared bool, o serOpts) []lib.Violation {
	tmp := &checker{cfg: c.cfg, res: lib.NewResult("C11")}
	tmp.dataValue(e, shared, o, "quiet")
	return tmp.res.Violations
}

// shape records where the input lies relative to the capacities the code preallocates (protoConsumer.stack and
// BasicCollector.stack: 8 frames, BasicCollector.values: 64 positions, JsonToData's length hint: 8)
func (c *checker) shape(e *Ev) {
	d, w, n := e.depth(), e.width(), e.size()
	switch {
	case d >= 16:
		c.res.Count("shape.depth>=16")
	case d >= 8:
		c.res.Count("shape.depth 8..15")
	case d >= 5:
		c.res.Count("shape.depth 5..7")
	}
	switch {
	case w > 64:
		c.res.Count("shape.width>64")
	case w > 16:
		c.res.Count("shape.width 17..64")
	case w > 8:
		c.res.Count("shape.width 9..16")
	}
	if n > 64 {
		c.res.Count("shape.positions>64")
	}
}

// collectable: no back-reference to a container that is still open (the collector would build a cyclic
// Go value, which the structural image cannot walk) and the value with references expanded stays small
func collectable(e *Ev) bool {
	var sizes []int // expanded size of the value at each position; -1 while open
	ok := true
	var rec func(x *Ev) int
	rec = func(x *Ev) int {
		switch x.T {
		case "ref":
			n := x.Int()
			if n < 0 || n >= int64(len(sizes)) {
				return 1 // out of range: the collector faults, nothing is built
			}
			if sizes[n] < 0 {
				ok = false
				return 1
			}
			return sizes[n]
		case "arr", "hash":
			p := len(sizes)
			sizes = append(sizes, -1)
			t := 1
			for _, y := range x.L {
				t += rec(y)
				if t > 5000 {
					ok = false
				}
			}
			sizes[p] = t
			return t
		}
		sizes = append(sizes, 1)
		return 1
	}
	rec(e)
	return ok
}


// resolveRefs is the reference semantics of a collector: positions are numbered in call order, one per Add
// and one per AddArray/AddHash (taken when the container is opened), none for AddRef; AddRef(n) stands for the
// value at position n.  ok=false when a reference is out of range or points to a container still open.
func resolveRefs(e *Ev) (*Ev, bool) {
	var vals []*Ev
	ok := true
	var rec func(x *Ev) *Ev
	rec = func(x *Ev) *Ev {
		switch x.T {
		case "ref":
			n := x.Int()
			if n < 0 || n >= int64(len(vals)) || vals[n] == nil {
				ok = false
				return evUndef()
			}
			return vals[n]
		case "arr", "hash":
			p := len(vals)
			vals = append(vals, nil)
			l := make([]*Ev, len(x.L))
			for i, y := range x.L {
				l[i] = rec(y)
			}
			r := &Ev{T: x.T, L: l}
			vals[p] = r
			return r
		}
		vals = append(vals, x)
		return x
	}
	r := rec(e)
	return r, ok
}
