package main

import (
	"bytes"
	"encoding/json"
	"fmt"
	"io"
	"math"
	"strings"

	"verifharness/lib"
)

// The bytes of a whole JSON text (coq/Model/JsonText.v): the model writes bytes (btext) and has its own tokenizer
// (lex).  This file supplies what that model takes as oracles - json.Marshal(float64) and strconv.ParseFloat, as
// per-case tables - and the observations it is compared with: the bytes the real streamer wrote, the tokens the
// real json.Decoder delivers for them, the harness' tokenizer and json.Valid on arbitrary texts.

// decoderTokens: what jsonValues sees - json.Decoder.Token() with UseNumber until io.EOF (never ',' or ':').
// ok = false when Token() reports an error first.
func decoderTokens(b []byte) (ts []Tok, ok bool) {
	d := json.NewDecoder(bytes.NewReader(b))
	d.UseNumber()
	for {
		t, err := d.Token()
		if err == io.EOF {
			return ts, true
		}
		if err != nil {
			return nil, false
		}
		switch v := t.(type) {
		case json.Delim:
			ts = append(ts, Tok{K: string(rune(v))})
		case string:
			ts = append(ts, Tok{K: "str", S: v})
		case json.Number:
			ts = append(ts, numTok(string(v)))
		case bool:
			ts = append(ts, Tok{K: "bool", B: v})
		case nil:
			ts = append(ts, Tok{K: "null"})
		default:
			return nil, false
		}
	}
}

// numberTexts: the maximal runs of number characters outside strings (the lexemes the tokenizers hand to
// numTok / num_token), in order of first occurrence, without duplicates
func numberTexts(b []byte) []string {
	var out []string
	seen := map[string]bool{}
	for i := 0; i < len(b); {
		c := b[i]
		switch {
		case c == '"':
			j := i + 1
			for j < len(b) && b[j] != '"' {
				if b[j] == '\\' {
					j++
				}
				j++
			}
			i = j + 1
		case c == '-' || (c >= '0' && c <= '9'):
			j := i
			for j < len(b) && strings.IndexByte("+-0123456789.eE", b[j]) >= 0 {
				j++
			}
			if t := string(b[i:j]); !seen[t] {
				seen[t] = true
				out = append(out, t)
			}
			i = j
		case c >= 'a' && c <= 'z':
			for i < len(b) && b[i] >= 'a' && b[i] <= 'z' {
				i++
			}
		default:
			i++
		}
	}
	return out
}

// gPtab: strconv.ParseFloat for every fraction/exponent number lexeme of the texts (the oracle parse_float)
func gPtab(texts ...[]byte) string {
	var rows []string
	seen := map[string]bool{}
	for _, b := range texts {
		for _, t := range numberTexts(b) {
			if seen[t] {
				continue
			}
			seen[t] = true
			if k := numTok(t); k.K == "frac" {
				rows = append(rows, "("+lib.GStr(t)+", "+gBits(k.Bits)+")")
			}
		}
	}
	return lib.GList(rows, "list N * Z")
}

// gFtab: json.Marshal(float64) for every finite float of the event tree (the oracle float_text); also returns
// the texts as the streamer completes them (".0" appended to a text without '.', 'e', 'E'), whose ParseFloat the
// model needs as well
func gFtab(e *Ev) (string, []byte) {
	var rows []string
	var all []byte
	seen := map[uint64]bool{}
	walk(e, func(x *Ev) {
		if x.T != "float" {
			return
		}
		bits := x.Bits()
		f := math.Float64frombits(bits)
		if seen[bits] || math.IsNaN(f) || math.IsInf(f, 0) {
			return
		}
		seen[bits] = true
		v, err := json.Marshal(f)
		if err != nil {
			return
		}
		rows = append(rows, "("+gBits(bits)+", "+lib.GStr(string(v))+")")
		all = append(all, v...)
		if !bytes.ContainsAny(v, ".eE") {
			all = append(all, '.', '0')
		}
		all = append(all, ' ')
	})
	return lib.GList(rows, "Z * list N"), all
}

func gDec(b []byte) string {
	ts, ok := decoderTokens(b)
	return lib.GOpt(ok, gToks(ts), "list jtoken")
}

const maxTextBytes = 1500 // longer texts are compared token by token only (cases_json), to keep the term size bounded

// textWritten: one writer run as a `TW` case
func (c *checker) textWritten(e *Ev, out []byte, outcome string, input interface{}) {
	ftab, ftexts := gFtab(e)
	w := "(@Fault (list N))"
	dec := "(@None (list jtoken))"
	switch outcome {
	case "":
		w = "(Ok " + lib.GStr(string(out)) + ")"
		dec = gDec(out)
	case "error":
		w = "(@Err (list N))"
	}
	c.res.Count("text.written")
	c.tf.Add(fmt.Sprintf("TW %s %s %s %s %s", e.gallina(), ftab, gPtab(out, ftexts), w, dec), input)
}

// textAny: an arbitrary text as a `TX` case; the same comparison tokenizer/Decoder is made here on every text
// (D side), also on those that do not go to Coq
func (c *checker) textAny(b []byte, valid bool, toCoq bool, input interface{}) {
	dts, ok := decoderTokens(b)
	if ok {
		var ts []Tok
		for _, t := range tokenize(b) {
			if t.K != "," && t.K != ":" {
				ts = append(ts, t)
			}
		}
		if gToks(ts) != gToks(dts) {
			panic(fmt.Sprintf("harness tokenizer and json.Decoder disagree on %q: %s vs %s", b, gToks(ts), gToks(dts)))
		}
	}
	if toCoq {
		c.res.Count("text.any")
		c.tf.Add(fmt.Sprintf("TX %s %s %s %s %s", lib.GStr(string(b)), gPtab(b), gToks(tokenize(b)), lib.GBool(valid),
			lib.GOpt(ok, gToks(dts), "list jtoken")), input)
	}
}
