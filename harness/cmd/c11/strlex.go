package main

// Strings whose CONTENT looks like JSON text: a backslash followed by an escape letter (u0026, u003c, n, ", /,
// u0000 ...), JSON text stored as a string (once, twice, three times marshalled), strings that end in one or more
// backslashes, quotes, HTML-sensitive characters.  Any post-processing of the marshalled bytes that works on bytes
// instead of JSON tokens (a replace, a trim, an un-escape) is wrong exactly on this class.
//
// The class is exercised (a) as ordinary strings of every generator (poolStrings, randString: array elements, hash
// values, hash keys of event trees, Data values through the Serializer, the ser.* family) and (b) lexeme by lexeme
// (strLexeme): the bytes the real streamer writes for ONE string, by six routes, against the property (D) and
// against the byte-level model of Model/JsonStr.v (obligation str_lexemes).

import (
	"bytes"
	"encoding/hex"
	"encoding/json"
	"fmt"
	"strings"

	"github.com/lyraproj/pcore/px"
	"github.com/lyraproj/pcore/serialization"
	"github.com/lyraproj/pcore/types"
	"verifharness/lib"
)

// what may follow a backslash (valid escapes, HTML-safe escapes of encoding/json, the line separators, surrogates,
// upper-case hex, and things that are NOT escapes)
var escTails = []string{"u0026", "u003c", "u003e", "u0000", "u001f", "u0022", "u005c", "u002f", "u2028", "u2029", "ufffd",
	"ud83d\\ude00", "ud800", "udc00", "u003C", "u00e9", "n", "t", "r", "b", "f", "\"", "\\", "/", "'", "&", "x", "u", "u0", "u00",
	"u002", "U0026", "0", " ", ""}

// poolEscStrings: every tail after one, two and three backslashes, bare and embedded, plus JSON documents as strings
func poolEscStrings() []string {
	var out []string
	for _, t := range escTails {
		out = append(out, "\\"+t, "a\\"+t+"b")
	}
	for _, t := range []string{"u0026", "u003c", "n", "\"", "/", "u0000", "u2028", ""} {
		out = append(out, "\\\\"+t, "\\\\\\"+t, "x\\"+t+"\\"+t, "\\"+t+"\\")
	}
	out = append(out, "a\\", "\\\\", "\"", "\"\"", "a\"b", "&", "&&", "&amp;", "a=1&b=2", "<b>&</b>", "\\&", "0026", "u0026",
		`{"q":"a\u0026b"}`, `["\u003cb\u003e","\u0026"]`, `"\u0026"`, `a=1\u0026b=2`, `http://h/p?a=1\u0026b=2\u0026c=3`,
		`{"a":"{\"b\":\"\\u0026\"}"}`, `C:\dir\u0026\new\table`, `\u0026\u0026\u0026\u0026\u0026`, `\u0026 is a string longer than 20 bytes`,
		"\n\\n", "\x00\\u0000", "\u2028\\u2028", "&\\u0026&", "\\u0026&\\u0026")
	return out
}

func init() { poolStrings = append(poolStrings, poolEscStrings()...) }

var escAlphabet = []string{"\\", "\\", "\\", "\\\\", "\"", "/", "u", "u0026", "u003c", "u003e", "u0000", "u2028", "ufffd", "ud83d", "ude00",
	"0026", "00", "26", "n", "t", "b", "f", "r", "&", "<", ">", "'", "x", "a", "{", "}", "[", "]", ":", ",", " ", "\n", "\x00", "\x1f",
	"\u2028", "é", "\\u0026", "\\u003c", "\\n", "\\\"", "&amp;"}

// escString: a seeded random member of the class (always valid UTF-8)
func escString(r *lib.Rng) string {
	var s string
	switch r.Intn(5) {
	case 0:
		p := poolEscStrings()
		s = p[r.Intn(len(p))]
	case 1:
		// JSON text stored as a string: a random string marshalled one to three times
		s = escFragments(r, 1+r.Intn(4))
		for k := 1 + r.Intn(3); k > 0; k-- {
			b, _ := json.Marshal(s)
			s = string(b)
		}
	case 2:
		// a JSON document with escape-like member names and values
		b, _ := json.Marshal(map[string]interface{}{escFragments(r, 1+r.Intn(3)): []interface{}{escFragments(r, 1+r.Intn(3)), 1}})
		s = string(b)
	default:
		s = escFragments(r, 1+r.Intn(6))
	}
	if r.Chance(1, 6) {
		s += strings.Repeat("\\", 1+r.Intn(3)) // ends in backslashes
	}
	if r.Chance(1, 10) {
		s = "a string of more than twenty bytes " + s // above the dedup threshold of the JSON streamer
	}
	return s
}

func escFragments(r *lib.Rng, n int) string {
	var sb strings.Builder
	for i := 0; i < n; i++ {
		sb.WriteString(escAlphabet[r.Intn(len(escAlphabet))])
	}
	return sb.String()
}

// ------------------------------------------------------------------------------------------------

var lexRoutes = []string{"top-level Add", "array element", "hash value", "hash key", "DataToJson array element", "DataToJson hash key"}

// writeOne lets the real code write the String s by one route; returns everything written, the affixes the text
// must have around the lexeme, and the event tree the text denotes
func writeOne(s string, route int) (whole []byte, pre, suf string, want *Ev, outcome, detail string) {
	buf := &bytes.Buffer{}
	v := types.WrapString(s)
	one := types.WrapInteger(1)
	outcome, detail = guarded(func() {
		switch route {
		case 0:
			want = evStr(s)
			serialization.NewJsonStreamer(buf).Add(v)
		case 1:
			pre, suf, want = "[0,", "]", evArr(evInt(0), evStr(s))
			j := serialization.NewJsonStreamer(buf)
			j.AddArray(2, func() { j.Add(types.WrapInteger(0)); j.Add(v) })
		case 2:
			pre, suf, want = `{"k":`, "}", evHash(evStr("k"), evStr(s))
			j := serialization.NewJsonStreamer(buf)
			j.AddHash(1, func() { j.Add(types.WrapString("k")); j.Add(v) })
		case 3:
			pre, suf, want = "{", ":1}", evHash(evStr(s), evInt(1))
			j := serialization.NewJsonStreamer(buf)
			j.AddHash(1, func() { j.Add(v); j.Add(one) })
		case 4:
			pre, suf, want = "[", "]\n", evArr(evStr(s))
			serialization.DataToJson(types.WrapValues([]px.Value{v}), buf)
		default:
			pre, suf, want = "{", ":1}\n", evHash(evStr(s), evInt(1))
			serialization.DataToJson(types.WrapHash([]*types.HashEntry{types.WrapHashEntry(v, one)}), buf)
		}
	})
	return buf.Bytes(), pre, suf, want, outcome, detail
}

func gOptStr(ok bool, s string) string { return lib.GOpt(ok, lib.GStr(s), "str") }

// strLexeme: the bytes written for ONE string.  D: the text is valid JSON, the lexeme decodes (encoding/json) to the
// string with each invalid byte replaced by U+FFFD, JsonToData delivers the events.  M: case LW.
func (c *checker) strLexeme(s string, route int, family string, toCoq bool) {
	c.res.Evaluations++
	c.res.Count("strlex." + family)
	c.res.Count("strlex.route." + lexRoutes[route])
	if strings.Contains(s, "\\") {
		c.res.Count("strlex.has-backslash")
		c.res.Nontrivial("L" + s)
	}
	input := map[string]interface{}{"kind": "str-lexeme", "hex": hex.EncodeToString([]byte(s)), "route": route}
	nviol := 0
	fail := func(clause, what string) {
		c.say("  FAILS %s: %s", clause, what)
		c.res.Violate(lib.Violation{Clause: clause, What: what, Input: input})
		nviol++
	}
	whole, pre, suf, want, wo, wd := writeOne(s, route)
	c.say("String        : %q by route %q", s, lexRoutes[route])
	c.say("  written     : %q (outcome %q %s)", string(whole), wo, wd)
	if wo != "" {
		fail("json-writer-total", fmt.Sprintf("writing the string %q as %s fails (%s: %s)", s, lexRoutes[route], wo, wd))
		return
	}
	lex := whole
	if len(whole) >= len(pre)+len(suf) && bytes.HasPrefix(whole, []byte(pre)) && bytes.HasSuffix(whole, []byte(suf)) {
		lex = whole[len(pre) : len(whole)-len(suf)]
	} else if sp := stringSpans(whole); len(sp) > len(stringSpans([]byte(pre))) {
		// another layout of the same text (white space around delimiters): the lexeme is the k-th string lexeme,
		// k = the number of string lexemes the expected prefix holds
		k := len(stringSpans([]byte(pre)))
		lex = whole[sp[k][0]:sp[k][1]]
	}
	lex = bytes.TrimSpace(lex) // white space next to a delimiter is layout, not part of the lexeme
	var back string
	decoded := len(lex) > 0 && lex[0] == '"' && json.Unmarshal(lex, &back) == nil
	image := coerceUTF8(s)
	switch {
	case !json.Valid(whole):
		fail("json-valid", fmt.Sprintf("the string %q (%s) is written as %s, which is not valid JSON", s, lexRoutes[route], short(string(whole))))
	case !decoded || back != image:
		fail("json-events-roundtrip", fmt.Sprintf("the string %q (%s) is written as %s, whose string lexeme denotes %q (decoded: %v)",
			s, lexRoutes[route], short(string(whole)), back, decoded))
	case image != prefKey:
		evs, ro, rd := runReader(whole)
		c.say("  read back   : %s (outcome %q %s)", evsText(evs), ro, rd)
		if ro != "" || !evsEq(evs, []*Ev{jsonImage(want)}) {
			fail("json-events-roundtrip", fmt.Sprintf("the string %q (%s) is written as %s and read back as %s %s",
				s, lexRoutes[route], short(string(whole)), short(evsText(evs)), rd))
		}
	}
	if nviol == 0 {
		c.say("  property holds on this input")
	} else if c.nViolL++; c.nViolL <= 20 {
		toCoq = true
	}
	if toCoq {
		m, _ := json.Marshal(s)
		c.lf.Add(fmt.Sprintf("LW %s %s %s %s", lib.GStr(s), lib.GStr(string(m)), lib.GStr(string(lex)), gOptStr(decoded, back)), input)
	}
}

// lexemeTie: an arbitrary candidate lexeme against the reader model (tie only).  Candidates start with a quote and
// do not end in white space (json.Unmarshal trims white space, the lexeme reader of the model is given one lexeme).
func (c *checker) lexemeTie(lex []byte) {
	if len(lex) == 0 || lex[0] != '"' || strings.IndexByte(" \t\r\n", lex[len(lex)-1]) >= 0 {
		return
	}
	var back string
	ok := json.Unmarshal(lex, &back) == nil
	c.res.Count("strlex.candidate-lexeme")
	if ok {
		c.res.Count("strlex.candidate-lexeme.valid")
	}
	c.say("lexeme        : %q decodes to %q (%v)", string(lex), back, ok)
	c.lf.Add(fmt.Sprintf("LR %s %s", lib.GStr(string(lex)), gOptStr(ok, back)), map[string]interface{}{"kind": "lexeme", "hex": hex.EncodeToString(lex)})
}

var lexMutBytes = []byte{'\\', '\\', '"', 'u', '0', '2', '6', 'd', '8', 'D', 'c', 'n', '/', '\'', '&', 'x', 'G', 0, 0x1f, 0x7f, 0x80, 0xc3, 0xe2, 0xed, 0xf0, 0xff}

func mutateLexeme(r *lib.Rng, lex []byte) []byte {
	q := append([]byte(nil), lex...)
	if len(q) < 2 {
		return q
	}
	i := r.Intn(len(q))
	switch r.Intn(5) {
	case 0:
		return append(q[:i], q[i+1:]...)
	case 1:
		q = append(q[:i+1], q[i:]...)
		q[i] = lexMutBytes[r.Intn(len(lexMutBytes))]
		return q
	case 2:
		if i > 0 {
			q[i] = lexMutBytes[r.Intn(len(lexMutBytes))]
		}
		return q
	case 3:
		if i > 0 {
			return append(q[:i], '"')
		}
		return q
	}
	return append(q, lexMutBytes[r.Intn(len(lexMutBytes))])
}

// strFamily: every pool string by every route, seeded random members of the class by turns, and candidate lexemes
func (c *checker) strFamily(rng *lib.Rng, thorough bool) {
	nRandom, nCand, coqRandom := 3000, 900, 700
	if thorough {
		nRandom, nCand, coqRandom = 100000, 12000, 6000
	}
	esc := map[string]bool{}
	for _, s := range poolEscStrings() {
		esc[s] = true
	}
	for i, s := range poolStrings {
		for route := range lexRoutes {
			c.strLexeme(s, route, "pool", esc[s] || (i+route)%3 == 0)
		}
	}
	for i := 0; i < nRandom; i++ {
		r := rng.Fork()
		s := escString(r)
		if i%5 == 4 {
			s = randString(r) + randString(r) // any bytes, invalid UTF-8 included
		}
		c.strLexeme(s, i%len(lexRoutes), "random", i < coqRandom)
	}
	for _, l := range strLexemes {
		c.lexemeTie([]byte(l))
	}
	for i := 0; i < nCand; i++ {
		r := rng.Fork()
		var lex []byte
		switch i % 3 {
		case 0:
			// the class itself taken as the BODY of a lexeme: valid escapes, surrogate pairs, invalid escapes
			lex = []byte("\"" + escFragments(r, 1+r.Intn(6)) + "\"")
		case 1:
			lex, _ = json.Marshal(escString(r))
			lex = mutateLexeme(r, lex)
		default:
			lex, _ = json.Marshal(randString(r) + escFragments(r, r.Intn(3)))
			lex = mutateLexeme(r, mutateLexeme(r, lex))
		}
		c.lexemeTie(lex)
	}
}

// stringSpans: the [start, end) positions of the string lexemes of a text (a quote up to the next unescaped quote)
func stringSpans(b []byte) (out [][2]int) {
	for i := 0; i < len(b); i++ {
		if b[i] != '"' {
			continue
		}
		j := i + 1
		for j < len(b) && b[j] != '"' {
			if b[j] == '\\' {
				j++
			}
			j++
		}
		if j >= len(b) {
			return out
		}
		out = append(out, [2]int{i, j + 1})
		i = j
	}
	return out
}
