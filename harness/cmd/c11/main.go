// c11: JSON and protobuf transports carry Data exactly.
package main

import (
	"encoding/hex"
	"fmt"
	"math"
	"strconv"
	"time"

	"github.com/lyraproj/pcore/pcore"
	"github.com/lyraproj/pcore/px"
	"verifharness/lib"
)

func main() {
	cfg := lib.ParseFlags()
	res := lib.NewResult("C11")
	res.Rule = "an input is one top-level consumer event tree (or Data value); non-trivial when it has a container at a non-first " +
		"position of its parent, a float, a back-reference, an integer beyond 2^53 or a string needing escape/non-ASCII handling " +
		"(JSON), resp. a float, container or integer beyond 2^53 (protobuf value); distinct = distinct event trees. Families: " +
		"corpus (the defect witnesses), every forest of <= N nodes over {\"k\",7,[],{}} (bounded-exhaustive, all shapes incl. " +
		"ill-formed ones for the model tie), sizes across and beyond every preallocated capacity (chains of 1..100 nested " +
		"containers in 6 array/hash patterns x 5 sibling patterns, complete trees, containers of 0..200 elements, back-references " +
		"to positions on both sides of 64; distribution keys shape.*), every pool scalar in every position class, seeded random " +
		"trees (small; deep and narrow; wide; many positions), each stream played under one of 5 length-hint policies " +
		"(pb.hint-*), the real Serializer's output on Data values with shared sub-containers under 5 option sets, random JSON " +
		"texts for the reader (nesting to 19, up to 39 members); ANY serializer output (ser.*): values that are not Data - every " +
		"pair of 25 pool values (strings/integers/arrays/hashes/Sensitive/Binary/Default/regexp/type/timestamp/runtime values whose " +
		"text is below, at and above the JSON dedup threshold of 20 bytes, several with the SAME text in different kinds) at 9 pairs " +
		"of positions (key/key, value/key, key/value, nested key, non-first entry, four occurrences, ...), with and without a shared " +
		"pointer, under the 6 distinct option sets (rich_data x dedup_level; quick: 3 per value by turns), and seeded random rich " +
		"values with shared sub-values, through the real Serializer into both transports (ser value non-trivial: first key of a hash not a String); strings whose " +
		"CONTENT looks like JSON text (strlex.*: a backslash followed by u0026/u003c/n/quote/slash/u0000/a surrogate pair/no escape at all, " +
		"after one, two and three backslashes, marshalled one to three times, JSON documents as strings, trailing backslashes) as members of " +
		"every string generator above and lexeme by lexeme through six routes (top-level, array element, hash value, hash key, DataToJson " +
		"element and key; non-trivial: the string holds a backslash), plus random and damaged candidate lexemes for the reader model"
	c := newChecker(cfg, res)
	pcore.SetLogger(discardLogger{}) // rich_data => false logs a warning for every value it turns into a string
	if cfg.Replay != "" {
		c.verbose = true
		replay(c)
	} else {
		run(c, lib.NewRng(cfg.Seed))
	}
	c.finish()
	res.Write(cfg)
}

// replay re-runs exactly the recorded input(s) on the current implementation, prints what happens and
// emits the same case(s) for the model
func replay(c *checker) {
	for _, in := range lib.ReplayInputs(c.cfg.Replay) {
		var x struct {
			Kind   string  `json:"kind"`
			Ev     *Ev     `json:"ev"`
			Hex    string  `json:"hex"`
			Bits   string  `json:"bits"`
			Text   string  `json:"text"`
			Hint   int     `json:"hint"`
			Shared bool    `json:"shared"`
			Opts   serOpts `json:"opts"`
			Sv     *SV     `json:"sv"`
			Route  int     `json:"route"`
		}
		lib.Remarshal(in, &x)
		if x.Hint < 0 || x.Hint >= nHintModes {
			x.Hint = 0
		}
		c.hint = x.Hint
		switch x.Kind {
		case "json-events":
			c.jsonEvent(x.Ev, "replay", true)
		case "json-text":
			b, _ := hex.DecodeString(x.Hex)
			c.jsonText(b, "replay", true)
		case "pb-events":
			c.pbEvent(x.Ev, "replay", true)
		case "pb-value":
			c.pbValue(x.Ev, "replay", true)
		case "data-value":
			for _, e := range c.dataValue(x.Ev, x.Shared, x.Opts, "replay") {
				c.jsonEvent(e, "replay", true)
				c.pbEvent(e, "replay", true)
			}
		case "ser-value":
			pcore.Do(func(ctx px.Context) { c.serValue(ctx, x.Sv, x.Opts, "replay", true) })
		case "str-lexeme":
			b, _ := hex.DecodeString(x.Hex)
			if x.Route < 0 || x.Route >= len(lexRoutes) {
				x.Route = 0
			}
			c.strLexeme(string(b), x.Route, "replay", true)
		case "lexeme":
			b, _ := hex.DecodeString(x.Hex)
			c.lexemeTie(b)
		case "float-class":
			b, _ := strconv.ParseUint(x.Bits, 16, 64)
			c.floatClass(b)
		case "int-text":
			c.bigIntText(x.Text)
		case "utf8":
			b, _ := hex.DecodeString(x.Hex)
			c.utf8Coerce(string(b))
		default:
			fmt.Println("unknown replay input kind", x.Kind)
		}
	}
}

func corpus() []*Ev {
	i := evInt
	s := evStr
	return []*Ev{
		// the delimiter-state defect: an empty container / a hash at a non-first position of an array
		evArr(i(1), evArr(), i(3)),
		evArr(i(1), evHash(), i(3)),
		evArr(i(1), evHash(s("a"), i(2)), i(3), i(4)),
		evArr(i(1), evHash(), i(3), i(4)),
		evArr(i(1), evArr(i(2)), i(3)),
		evArr(evArr(), evArr(), evArr()),
		evArr(evHash(), evHash(), evHash()),
		evArr(i(0), evArr(evArr(), evArr()), evHash(s("a"), evArr(), s("b"), evHash()), i(1), i(2)),
		evHash(s("a"), evArr(), s("b"), i(2)),
		evHash(s("a"), evHash(), s("b"), evHash(s("x"), i(1)), s("c"), i(2)),
		evHash(s("a"), evArr(i(1), evHash(s("k"), evArr()), i(2), i(3)), s("b"), i(2)),
		// floats must stay floats
		evArr(evFloat(1)), evFloat(1), evFloat(math.Copysign(0, -1)), evFloat(0), evFloat(1e20), evFloat(1e21), evFloat(-3),
		evHash(s("f"), evFloat(2)),
		evFloat(math.NaN()), evArr(i(1), evFloat(math.Inf(1))),
		// 64-bit integers
		evArr(i(math.MaxInt64), i(math.MinInt64), i(1<<53+1)),
		// strings
		evArr(s("héllo \U0001F600 \u2028\u2029"), s("<>&\"\\\x00\x1f"), s("\xff\xfe"), s("")),
		// back-references
		evArr(s("a string longer than twenty bytes"), evRef(1), evRef(0)),
		evHash(s("a"), evRef(1), s("b"), evRef(123456789)),
		evRef(0),
		// the reserved key
		evHash(s(prefKey), i(1)),
		evHash(s(prefKey), s("x")),
		evHash(s(prefKey), i(1), s("b"), i(2)),
		evHash(s("a"), i(1), s(prefKey), i(2)),
		evArr(evHash(s(prefKey), evArr())),
		// scalars at top level, not-Data scalars
		i(5), s("x"), evUndef(), evBool(true), evBool(false), evBin([]byte{1, 2}), evOther(), evArr(), evHash(),
		// ill-formed streams (tie only)
		evHash(s("a")), evHash(i(1), i(2)), evHash(evArr(), i(2), s("k")), evHash(s("a"), i(1), s("b")),
	}
}

// positions: every scalar in every position class
func positions(x *Ev) []*Ev {
	i := evInt
	s := evStr
	l := []*Ev{x, evArr(x), evArr(i(1), x), evArr(x, i(1)), evArr(evArr(), x), evArr(evHash(), x, x), evHash(s("k"), x),
		evHash(s("a"), i(1), s("k"), x), evArr(evHash(s("k"), x), x), evHash(s("a"), evArr(x), s("b"), x)}
	if x.T == "str" {
		l = append(l, evHash(x, i(1)), evHash(s("a"), i(1), x, i(2)), evHash(x, evHash(x, x)))
	}
	return l
}

func run(c *checker, rng *lib.Rng) {
	thorough := c.cfg.Thorough()
	maxNodes, nRandom, nText, nData := 6, 20000, 6000, 1500
	coqExh, coqRandom, coqText, coqScalar, coqPb := 500, 500, 700, 1200, 500
	coqDeep, nBeyond := 100, 3000
	nSer, coqSer := 3000, 240
	if thorough {
		nSer, coqSer = 60000, 3000
		coqDeep, nBeyond = 600, 60000
		maxNodes, nRandom, nText, nData = 8, 600000, 100000, 40000
		coqExh, coqRandom, coqText, coqScalar, coqPb = 5000, 5000, 6000, 8000, 5000
	}
	// ---- corpus
	for _, e := range corpus() {
		c.jsonEvent(e, "corpus", true)
		c.pbEvent(e, "corpus", true)
		if isValueTree(e) {
			c.pbValue(e, "corpus", true)
		}
	}
	// ---- bounded-exhaustive structures
	memo := map[int][][]*Ev{}
	total := 0
	for n := 1; n <= maxNodes; n++ {
		total += len(treesOf(n, memo))
	}
	stride := total/coqExh + 1
	idx := 0
	for n := 1; n <= maxNodes; n++ {
		for _, t := range treesOf(n, memo) {
			idx++
			c.jsonEvent(t, "exhaustive", idx%stride == 0)
			c.pbEvent(t, "exhaustive", idx%(stride*3) == 0)
		}
	}
	c.res.Extra["exhaustive_trees"] = idx
	c.res.Extra["exhaustive_max_nodes"] = maxNodes
	c.res.Exhaustive = false
	// ---- depth, width and position count across (and far beyond) every preallocated capacity, each stream under
	// each length-hint policy by turns
	bc := beyondCapacity(rng.Fork(), thorough)
	// the model is evaluated on a sample of those of at most coqNodes nodes (depth up to ~60, width up to ~200)
	const coqNodes = 220
	nSmall := 0
	for _, fe := range bc {
		if fe.e.size() <= coqNodes {
			nSmall++
		}
	}
	bstride, kSmall := nSmall/coqDeep+1, 0
	for i, fe := range bc {
		c.hint = i % nHintModes
		toCoq := false
		if fe.e.size() <= coqNodes {
			kSmall++
			toCoq = kSmall%bstride == 0
		}
		c.jsonEvent(fe.e, fe.fam, toCoq)
		c.pbEvent(fe.e, fe.fam, toCoq)
		if isValueTree(fe.e) {
			c.pbValue(fe.e, fe.fam, toCoq && kSmall%(2*bstride) == 0)
			if isDataTree(fe.e) && jsonWf(fe.e) && i%3 == 0 {
				// the same value through the real Serializer in front of both transports
				c.dataValue(fe.e, i%2 == 0, allSerOpts[i%len(allSerOpts)], fe.fam)
			}
		}
	}
	c.hint = 0
	c.res.Extra["beyond_capacity_trees"] = len(bc)
	// ---- every pool scalar in every position class
	var scalars []*Ev
	for _, v := range poolInts {
		scalars = append(scalars, evInt(v), evRef(v))
	}
	for _, f := range poolFloats() {
		scalars = append(scalars, evFloat(f))
	}
	for _, s := range poolStrings {
		scalars = append(scalars, evStr(s))
	}
	scalars = append(scalars, evUndef(), evBool(true), evBool(false), evOther(), evBin(nil), evBin([]byte{0, 255}))
	k := 0
	for _, x := range scalars {
		for _, e := range positions(x) {
			k++
			c.jsonEvent(e, "positions", k%3 == 0)
			c.pbEvent(e, "positions", k%5 == 0)
			if isValueTree(e) {
				c.pbValue(e, "positions", k%5 == 1)
			}
		}
	}
	// ---- strings whose content looks like JSON text, lexeme by lexeme, by every route (strlex.go)
	c.strFamily(rng.Fork(), thorough)
	// ---- scalar oracles
	for _, f := range poolFloats() {
		c.floatClass(math.Float64bits(f))
	}
	for _, s := range poolStrings {
		c.utf8Coerce(s)
	}
	for _, t := range numLexemes {
		c.bigIntText(t)
	}
	for i := 0; i < coqScalar; i++ {
		r := rng.Fork()
		switch i % 3 {
		case 0:
			c.floatClass(randFloatBits(r))
		case 1:
			c.utf8Coerce(randString(r) + randString(r))
		default:
			c.bigIntText(randLexeme(r))
		}
	}
	// ---- seeded random event trees
	for i := 0; i < nRandom; i++ {
		r := rng.Fork()
		o := treeOpts{depth: 2 + r.Intn(3), width: 1 + r.Intn(5), refs: r.Chance(2, 3), maxRefs: 4, wild: r.Chance(1, 8)}
		e := randTree(r, o, 0)
		c.hint = i % nHintModes
		c.jsonEvent(e, "random", i < coqRandom)
		o.anyKeys = true
		e2 := randTree(r, o, 0)
		c.pbEvent(e2, "random", i < coqPb)
		if i%4 == 0 {
			v := randTree(r, treeOpts{depth: 2 + r.Intn(3), width: 1 + r.Intn(4), data: r.Chance(4, 5), anyKeys: r.Chance(1, 3)}, 0)
			c.pbValue(v, "random", i/4 < coqPb)
		}
	}
	c.hint = 0
	// ---- seeded random trees beyond the capacities (deep and narrow / wide and shallow / many positions)
	for i := 0; i < nBeyond; i++ {
		r := rng.Fork()
		c.hint = r.Intn(nHintModes)
		toCoq := i < coqDeep/2
		e1, e2 := randBeyond(r, r.Chance(2, 3), false, false), randBeyond(r, r.Chance(2, 3), true, false)
		c.jsonEvent(e1, "random-beyond", toCoq && e1.size() <= 220)
		c.pbEvent(e2, "random-beyond", toCoq && e2.size() <= 220)
		if i%3 == 0 {
			v := randBeyond(r, false, false, true)
			c.pbValue(v, "random-beyond", i/3 < coqDeep/4 && v.size() <= 220)
			for _, e := range c.dataValue(v, i%2 == 0, allSerOpts[i%len(allSerOpts)], "random-beyond") {
				c.jsonEvent(e, "serializer-output", false)
				c.pbEvent(e, "serializer-output", false)
			}
		}
	}
	c.hint = 0
	// ---- Data values through the real serializer, both transports
	nEmitted := 0
	for i := 0; i < nData; i++ {
		r := rng.Fork()
		v := randTree(r, treeOpts{depth: 2 + r.Intn(3), width: 1 + r.Intn(4), data: true}, 0)
		if i%50 == 0 {
			// an equal long string / an equal container twice: the serializer emits back-references
			v = evArr(v, evStr("a string longer than twenty bytes"), v, evStr("a string longer than twenty bytes"))
		}
		o := allSerOpts[i%len(allSerOpts)]
		for _, e := range c.dataValue(v, i%2 == 0, o, "serializer") {
			nEmitted++
			c.jsonEvent(e, "serializer-output", nEmitted <= coqRandom/2)
			c.pbEvent(e, "serializer-output", nEmitted <= coqPb/4)
		}
	}
	// ---- ANY serializer output: values that are not Data (keys of every kind, Sensitive, Binary, Default, stringified
	// values, shared sub-values, repeated texts around the dedup threshold) through the real Serializer, every option set
	t0 := time.Now()
	pcore.Do(func(ctx px.Context) { c.serFamily(ctx, rng.Fork(), nSer, coqSer, thorough) })
	c.res.Extra["ser_family_ms"] = time.Since(t0).Milliseconds()
	// ---- JSON texts for the reader model and the recogniser
	for i := 0; i < nText; i++ {
		r := rng.Fork()
		var ps []string
		fam := "valid"
		switch {
		case i%10 == 7:
			randJSONPiecesD(r, 0, 6+r.Intn(14), 3, &ps) // deeper than the consumers' 8 frames
			fam = "valid-deep"
		case i%10 == 9:
			randJSONPiecesD(r, 0, 2, 10+r.Intn(30), &ps) // more members than JsonToData's length hint of 8
			fam = "valid-wide"
		default:
			randJSONPieces(r, 0, &ps)
		}
		switch i % 4 {
		case 1:
			ps = mutatePieces(r, ps)
			fam += "-mutated"
		case 2:
			if i%8 == 2 {
				ps = nil
				n := r.Intn(7)
				for j := 0; j < n; j++ {
					ps = append(ps, soupAlphabet[r.Intn(len(soupAlphabet))])
				}
				fam = "soup"
			}
		}
		b := joinPieces(r, ps)
		if got := len(tokenize(b)); got != len(ps) {
			panic(fmt.Sprintf("harness tokenizer: %d tokens for %d lexemes in %q", got, len(ps), b))
		}
		c.jsonText(b, fam, i < coqText)
	}
	for _, t := range []string{`{"__pref":1}`, `{"__pref":"x"}`, `{"__pref":1.5}`, `{"__pref":1,"a":2}`, `{"__pref":[1]}`, `{"__pref":null}`,
		`{"a":1,"__pref":2}`, `{"__pref":99999999999999999999}`, `{"__pref":-1}`, `[{"__pref":0},{"__pref":{}}]`, `{"__pref":true}`,
		`{"__pref":{"__pref":1}}`, `{}`, `[]`, `[[],{}]`, `{"a":{}}`, ` [ 1 , 2 ] `, `"x"`, `1`, ``, `[1,[]3]`, `[1,{"a":2},3:4]`, `{"a"}`, `{1:2}`,
		`[1,]`, `[,1]`, `{"a":1,}`, `[1 2]`, `1 2`, `[1]]`, `{"a":1 "b":2}`, `{"a",1}`, `[1:2]`} {
		c.jsonText([]byte(t), "corpus", true)
	}
}
