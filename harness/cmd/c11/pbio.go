package main

import (
	"math"

	"github.com/golang/protobuf/proto"
	"github.com/lyraproj/data-protobuf/datapb"
	pcproto "github.com/lyraproj/pcore/proto"
	"github.com/lyraproj/pcore/px"
	"github.com/lyraproj/pcore/types"
	"verifharness/lib"
)

// Gallina term of type `pb` (coq/Model/Pb.v) for a *datapb.Data
func gPb(d *datapb.Data) string {
	if d == nil {
		return "PbNil"
	}
	switch k := d.Kind.(type) {
	case nil:
		return "PbNoKind"
	case *datapb.Data_BooleanValue:
		return "(PbBool " + lib.GBool(k.BooleanValue) + ")"
	case *datapb.Data_FloatValue:
		return "(PbFloat " + gBits(math.Float64bits(k.FloatValue)) + ")"
	case *datapb.Data_IntegerValue:
		return "(PbInt " + lib.GZ(k.IntegerValue) + ")"
	case *datapb.Data_StringValue:
		return "(PbStr " + lib.GStr(k.StringValue) + ")"
	case *datapb.Data_UndefValue:
		return "PbUndef"
	case *datapb.Data_BinaryValue:
		return "(PbBin " + lib.GStr(string(k.BinaryValue)) + ")"
	case *datapb.Data_Reference:
		return "(PbRef " + lib.GZ(k.Reference) + ")"
	case *datapb.Data_ArrayValue:
		vs := k.ArrayValue.GetValues()
		ss := make([]string, len(vs))
		for i, x := range vs {
			ss[i] = gPb(x)
		}
		return "(PbArr " + lib.GList(ss, "pb") + ")"
	case *datapb.Data_HashValue:
		es := k.HashValue.GetEntries()
		ss := make([]string, len(es))
		for i, x := range es {
			ss[i] = lib.GPair(gPb(x.GetKey()), gPb(x.GetValue()))
		}
		return "(PbHash " + lib.GList(ss, "pb * pb") + ")"
	}
	return "PbNoKind"
}

// pbText: canonical text of a message, exact (float bits, bytes) - used to compare two messages
func pbText(d *datapb.Data) string { return gPb(d) }

func runToPB(v px.Value) (d *datapb.Data, outcome, detail string) {
	outcome, detail = guarded(func() { d = pcproto.ToPBData(v) })
	return
}

func runFromPB(d *datapb.Data) (v px.Value, outcome, detail string) {
	outcome, detail = guarded(func() { v = pcproto.FromPBData(d) })
	return
}

// runProtoConsumer plays one top-level event into a real protoConsumer
func runProtoConsumer(e *Ev, hint int) (d *datapb.Data, outcome, detail string) {
	outcome, detail = guarded(func() {
		pc := pcproto.NewProtoConsumer()
		playH(e, pc, hint)
		d = pc.Value()
	})
	return
}

func runConsumePB(d *datapb.Data) (evs []*Ev, outcome, detail string) {
	rec := newRecorder()
	outcome, detail = guarded(func() { pcproto.ConsumePBData(d, rec) })
	return rec.events(), outcome, detail
}

// wire encodes and decodes the message with the protobuf runtime
func wire(d *datapb.Data) (r *datapb.Data, outcome, detail string) {
	outcome, detail = guarded(func() {
		b, err := proto.Marshal(d)
		if err != nil {
			panic(err)
		}
		r = &datapb.Data{}
		if err = proto.Unmarshal(b, r); err != nil {
			panic(err)
		}
	})
	return
}

// runCollector plays events into a real types.BasicCollector and returns the exact image of its value
func runCollector(e *Ev, hint int) (v *Ev, outcome, detail string) {
	outcome, detail = guarded(func() {
		c := types.NewCollector()
		playH(e, c, hint)
		v = fromPx(c.Value())
	})
	return
}

func gRes(outcome, typ, ok string) string {
	switch outcome {
	case "":
		return "(Ok " + ok + ")"
	case "error":
		return "(@Err (" + typ + "))"
	}
	return "(@Fault (" + typ + "))"
}
