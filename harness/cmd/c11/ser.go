package main

// "Streaming ANY serializer output as JSON always produces syntactically valid JSON": the real Serializer in
// front of both transports on values that are NOT Data - hashes with keys of every kind, Sensitive, Binary,
// Default, values that are turned into their string form (types, regexps, timestamps, runtime values) - with
// shared sub-values and with texts that occur several times (as value and as key, as a String and as the
// string form of another value), under every option set.  Mirrors `sval` / `ser` of coq/Model/JsonSer.v.

import (
	"bytes"
	"encoding/json"
	"fmt"
	"math"
	"strings"
	"time"

	"github.com/lyraproj/data-protobuf/datapb"
	"github.com/lyraproj/issue/issue"
	pcproto "github.com/lyraproj/pcore/proto"
	"github.com/lyraproj/pcore/px"
	"github.com/lyraproj/pcore/serialization"
	"github.com/lyraproj/pcore/types"
	"verifharness/lib"
)

// SV is a px.Value as the Serializer's type switch sees it
type SV struct {
	T  string `json:"t"`            // sc str default arr hash sens bin other
	E  *Ev    `json:"e,omitempty"`  // sc: the scalar (undef bool int float); str: the string; bin: the bytes
	Id int    `json:"id,omitempty"` // arr hash sens bin: the pointer - nodes with equal Id are ONE px.Value
	L  []*SV  `json:"l,omitempty"`  // arr: elements; hash: key, value, key, value, ...; sens: the wrapped value
	K  string `json:"k,omitempty"`  // other: name in otherKinds
}

// values that end in unknownToStringWithWarning (rich_data=false) resp. valueToDataHash (rich_data=true)
var otherKinds = map[string]func() px.Value{
	"regexp":      func() px.Value { return types.WrapRegexp(`^a.*b$`) },
	"regexp-long": func() px.Value { return types.WrapRegexp(`^[a-z]+(foo|bar|baz){2,3}$`) },
	"type":        func() px.Value { return types.DefaultIntegerType() },
	"type-long":   func() px.Value { return types.NewArrayType(types.NewIntegerType(1, 5), types.NewIntegerType(2, 300)) },
	"runtime": func() px.Value {
		return types.WrapRuntime(struct {
			A int
			B string
		}{7, "a runtime struct value"})
	},
	"runtime-short": func() px.Value { return types.WrapRuntime(42) },
	"timespan":      func() px.Value { return types.WrapTimespan(90 * time.Minute) },
	"timestamp":     func() px.Value { return types.WrapTimestamp(time.Unix(1500000000, 0).UTC()) },
}

var otherNames = []string{"regexp", "regexp-long", "type", "type-long", "runtime", "runtime-short", "timespan", "timestamp"}

func isRuntimeKind(k string) bool { return k == "runtime" || k == "runtime-short" }

type svGen struct{ n int }

func (g *svGen) id() int            { g.n++; return g.n }
func (g *svGen) sc(e *Ev) *SV       { return &SV{T: "sc", E: e} }
func (g *svGen) str(s string) *SV   { return &SV{T: "str", E: evStr(s)} }
func (g *svGen) arr(l ...*SV) *SV   { return &SV{T: "arr", Id: g.id(), L: l} }
func (g *svGen) hash(l ...*SV) *SV  { return &SV{T: "hash", Id: g.id(), L: l} }
func (g *svGen) sens(x *SV) *SV     { return &SV{T: "sens", Id: g.id(), L: []*SV{x}} }
func (g *svGen) bin(b []byte) *SV   { return &SV{T: "bin", Id: g.id(), E: evBin(b)} }
func (g *svGen) other(k string) *SV { return &SV{T: "other", K: k} }
func (g *svGen) dflt() *SV          { return &SV{T: "default"} }
func (g *svGen) i(v int64) *SV      { return g.sc(evInt(v)) }

func (v *SV) walk(f func(*SV)) {
	f(v)
	for _, x := range v.L {
		x.walk(f)
	}
}

func (v *SV) has(p func(*SV) bool) bool {
	r := false
	v.walk(func(x *SV) {
		if p(x) {
			r = true
		}
	})
	return r
}

func (v *SV) size() int {
	n := 0
	v.walk(func(*SV) { n++ })
	return n
}

func (v *SV) String() string {
	switch v.T {
	case "sc", "str":
		return v.E.String()
	case "bin":
		return fmt.Sprintf("bin#%d(%s)", v.Id, v.E.S)
	case "default":
		return "default"
	case "other":
		return "<" + v.K + ">"
	case "sens":
		return fmt.Sprintf("sensitive#%d(%s)", v.Id, v.L[0].String())
	}
	var b bytes.Buffer
	if v.T == "arr" {
		fmt.Fprintf(&b, "#%d[", v.Id)
	} else {
		fmt.Fprintf(&b, "#%d{", v.Id)
	}
	for i, x := range v.L {
		if i > 0 {
			if v.T == "hash" && i%2 == 1 {
				b.WriteString("=>")
			} else {
				b.WriteString(",")
			}
		}
		b.WriteString(x.String())
	}
	if v.T == "arr" {
		b.WriteString("]")
	} else {
		b.WriteString("}")
	}
	return b.String()
}

// svBuild builds the pcore value (nodes with the same Id become one pointer) and prints the model term with
// the string forms the library gives (px.Value.String(), SerializationString())
type svBuild struct {
	memo map[int]px.Value
}

func (b *svBuild) px(v *SV) px.Value {
	if v.Id != 0 {
		if x, ok := b.memo[v.Id]; ok {
			return x
		}
	}
	var r px.Value
	switch v.T {
	case "sc", "str":
		r = v.E.scalarValue()
	case "bin":
		r = types.WrapBinary([]byte(v.E.Bytes()))
	case "default":
		r = types.WrapDefault()
	case "other":
		r = otherKinds[v.K]()
	case "sens":
		r = types.WrapSensitive(b.px(v.L[0]))
	case "arr":
		l := make([]px.Value, len(v.L))
		for i, x := range v.L {
			l[i] = b.px(x)
		}
		r = types.WrapValues(l)
	case "hash":
		l := make([]*types.HashEntry, 0, len(v.L)/2)
		for i := 0; i+1 < len(v.L); i += 2 {
			l = append(l, types.WrapHashEntry(b.px(v.L[i]), b.px(v.L[i+1])))
		}
		r = types.WrapHash(l)
	default:
		panic("bad SV kind " + v.T)
	}
	if v.Id != 0 {
		b.memo[v.Id] = r
	}
	return r
}

// textOf: the string unknownToStringWithWarning uses (serializer.go:184-195)
func textOf(v px.Value) string {
	if rt, ok := v.(*types.RuntimeValue); ok {
		return fmt.Sprintf(`%v`, rt.Interface())
	}
	return v.String()
}

func (b *svBuild) g(v *SV) string {
	switch v.T {
	case "sc":
		return "(XSc " + v.E.gScalar() + ")"
	case "str":
		return "(XStr " + lib.GStr(v.E.Bytes()) + ")"
	case "default":
		return "XDefault"
	case "other":
		return "(XOther " + lib.GStr(textOf(b.px(v))) + ")"
	case "bin":
		bv := b.px(v).(*types.Binary)
		return fmt.Sprintf("(XBin %s %s %s %s)", lib.GN(uint64(v.Id)), lib.GStr(v.E.Bytes()), lib.GStr(textOf(bv)), lib.GStr(bv.SerializationString()))
	case "sens":
		return fmt.Sprintf("(XSens %s %s %s)", lib.GN(uint64(v.Id)), lib.GStr(textOf(b.px(v))), b.g(v.L[0]))
	case "arr":
		ss := make([]string, len(v.L))
		for i, x := range v.L {
			ss[i] = b.g(x)
		}
		return fmt.Sprintf("(XArr %s %s)", lib.GN(uint64(v.Id)), lib.GList(ss, "sval"))
	case "hash":
		ss := make([]string, 0, len(v.L)/2)
		for i := 0; i+1 < len(v.L); i += 2 {
			kt := ""
			if v.L[i].T != "str" {
				kt = textOf(b.px(v.L[i]))
			}
			ss = append(ss, "("+b.g(v.L[i])+", "+lib.GStr(kt)+", "+b.g(v.L[i+1])+")")
		}
		return fmt.Sprintf("(XHash %s %s)", lib.GN(uint64(v.Id)), lib.GList(ss, "sval * str * sval"))
	}
	panic("bad SV kind " + v.T)
}

// option sets: rich_data x dedup_level 0..2, and local_reference => false
var serOptSets = []serOpts{{false, true, 2}, {true, true, 2}, {false, true, 1}, {true, true, 1}, {false, true, 0}, {true, true, 0},
	{false, false, 2}, {true, false, 2}}

func (o serOpts) effDedup() int {
	if !o.LocalRef {
		return 0
	}
	return o.Dedup
}

// modelled: the value lies in the domain of Model/JsonSer.v under these options (under rich_data=true only a
// RuntimeValue ends in unknownToStringWithWarning; types, regexps, time values take valueToDataHash)
func modelled(v *SV, o serOpts) bool {
	return !o.Rich || !v.has(func(x *SV) bool { return x.T == "other" && !isRuntimeKind(x.K) })
}

func gCfg(o serOpts, ckeys, cbin bool, thr int) string {
	return fmt.Sprintf("{| rich := %s; dedup := %s; ckeys := %s; cbin := %s; thr := %s |}", lib.GBool(o.Rich), lib.GZ(int64(o.effDedup())),
		lib.GBool(ckeys), lib.GBool(cbin), lib.GZ(int64(thr)))
}

type discardLogger struct{}

func (discardLogger) Log(level px.LogLevel, args ...px.Value)                    {}
func (discardLogger) Logf(level px.LogLevel, format string, args ...interface{}) {}
func (discardLogger) LogIssue(i issue.Reported)                                  {}

// serValue: one value through Serializer -> NewJsonStreamer -> JsonToData and Serializer -> protoConsumer ->
// ConsumePBData.  Must run inside pcore.Do (the Serializer logs its conversions through the current context).
func (c *checker) serValue(ctx px.Context, v *SV, o serOpts, family string, toCoq bool) {
	c.nSer++
	again := toCoq || c.nSer%16 == 0 // the calls once more through the transports' own checks (jsonEvent, pbEvent)
	c.res.Evaluations++
	c.res.Count("ser." + family)
	if o.Rich {
		c.res.Count("ser.rich_data")
	} else {
		c.res.Count("ser.lossy")
	}
	input := map[string]interface{}{"kind": "ser-value", "sv": v, "opts": o}
	nviol := 0
	fail := func(clause, what string, tags ...string) {
		c.say("  FAILS %s: %s", clause, what)
		nviol++
		c.res.Violate(lib.Violation{Clause: clause, What: what, Input: input, Tags: tags})
	}
	b := &svBuild{memo: map[int]px.Value{}}
	var pv px.Value
	var term string
	if bo, bd := guarded(func() {
		pv = b.px(v)
		if toCoq {
			term = b.g(v)
		}
	}); bo != "" {
		c.say("Serializer value %s cannot be built/printed: %s", v.String(), bd)
		c.res.Count("ser.unbuildable")
		return
	}
	c.say("Serializer in : %s opts=%+v", v.String(), o)
	nonfinite := v.has(func(x *SV) bool { return x.T == "sc" && isNonFinite(x.E) })
	if v.has(func(x *SV) bool { return x.T == "hash" && len(x.L) > 0 && x.L[0].T != "str" }) {
		c.res.Nontrivial("ser:" + v.String() + fmt.Sprint(o))
	}
	// --- JSON
	buf := &bytes.Buffer{}
	t := &tee{rec: newRecorder(), next: serialization.NewJsonStreamer(buf)}
	so, sd := guarded(func() { serialization.NewSerializer(ctx, o.hash()).Convert(pv, t) })
	c.say("  calls (JSON consumer): %s (outcome %q %s)", evsText(t.rec.events()), so, sd)
	c.say("  written     : %s", buf.String())
	if so != "" {
		if so == "fault" || !nonfinite {
			fail("json-valid", fmt.Sprintf("serializing %s to JSON fails (%s: %s)", short(v.String()), so, sd))
		}
	} else {
		emitted := t.rec.events()
		if toCoq && modelled(v, o) {
			c.vf.Add(fmt.Sprintf("SE %s %s %s", gCfg(o, false, false, 20), term, gEvs(emitted)), input)
		}
		if !json.Valid(buf.Bytes()) {
			fail("json-valid", fmt.Sprintf("value %s (options %+v) is sent as the calls %s and written as %s, which is not valid JSON",
				short(v.String()), o, short(evsText(emitted)), short(buf.String())))
		} else {
			evs, ro, rd := runReader(buf.Bytes())
			want := make([]*Ev, len(emitted))
			pref := false
			for i, e := range emitted {
				want[i] = jsonImage(e)
				pref = pref || e.has(prefFirstKey)
			}
			c.say("  read back   : %s (outcome %q %s)", evsText(evs), ro, rd)
			if ro != "" || !evsEq(evs, want) {
				var tags []string
				if pref {
					tags = append(tags, "pref-first-key")
				}
				fail("json-events-roundtrip", fmt.Sprintf("value %s (options %+v) is sent as the calls %s, written as %s and read back as %s %s",
					short(v.String()), o, short(evsText(emitted)), short(buf.String()), short(evsText(evs)), rd), tags...)
			}
		}
		for _, e := range emitted {
			if again {
				c.jsonEvent(e, "serializer-output", toCoq && nviol == 0 && c.nSer%6 == 0)
			}
		}
	}
	// --- protobuf
	pc := pcproto.NewProtoConsumer()
	tp := &tee{rec: newRecorder(), next: pc}
	var d *datapb.Data
	so, sd = guarded(func() {
		serialization.NewSerializer(ctx, o.hash()).Convert(pv, tp)
		d = pc.Value()
	})
	c.say("  calls (protobuf consumer): %s (outcome %q %s)", evsText(tp.rec.events()), so, sd)
	if so != "" {
		fail("pb-data-roundtrip", fmt.Sprintf("serializing %s to protobuf fails (%s: %s)", short(v.String()), so, sd))
		return
	}
	emitted := tp.rec.events()
	if toCoq && modelled(v, o) {
		c.vf.Add(fmt.Sprintf("SE %s %s %s", gCfg(o, true, true, 0), term, gEvs(emitted)), input)
	}
	evs, co, cd := runConsumePB(d)
	want := make([]*Ev, len(emitted))
	for i, e := range emitted {
		want[i] = pbImage(e)
	}
	if co != "" || !evsEq(evs, want) {
		fail("pb-stream-roundtrip", fmt.Sprintf("value %s (options %+v) is sent as the calls %s; ConsumePBData replays the message as %s %s",
			short(v.String()), o, short(evsText(emitted)), short(evsText(evs)), cd))
	}
	for _, e := range emitted {
		if again {
			c.pbEvent(e, "serializer-output", false)
		}
	}
}

// ---- generators

const sLong21 = "a string of 21 bytes!"
const sMinInt = "-9223372036854775808" // exactly the JSON streamer's StringDedupThreshold, and the string form of MinInt64
const sMaxInt = "9223372036854775807"  // one below
const sSens = "Sensitive [value redacted]"
const sArr7 = "[1, 2, 3, 4, 5, 6, 7]"

// svPool: values whose text (as a String, or as the string form the Serializer turns them into) is short, just
// below, at, and above the dedup threshold; several of them have the SAME text in different kinds
func svPool(g *svGen) []func() *SV {
	ints := func(n int) []*SV {
		l := make([]*SV, n)
		for i := range l {
			l[i] = g.i(int64(i + 1))
		}
		return l
	}
	return []func() *SV{
		func() *SV { return g.str(sLong21) },
		func() *SV { return g.str(sMinInt) },
		func() *SV { return g.str(sMaxInt) },
		func() *SV { return g.str("k") },
		func() *SV { return g.i(math.MinInt64) },
		func() *SV { return g.i(math.MaxInt64) },
		func() *SV { return g.i(7) },
		func() *SV { return g.sc(evFloat(1.5)) },
		func() *SV { return g.sc(evBool(true)) },
		func() *SV { return g.sc(evUndef()) },
		func() *SV { return g.arr(ints(7)...) },
		func() *SV { return g.arr(g.str("k")) },
		func() *SV { return g.hash(g.str(sLong21), g.i(1)) },
		func() *SV { return g.hash(g.i(1), g.str(sLong21)) },
		func() *SV { return g.sens(g.i(7)) },
		func() *SV { return g.sens(g.str(sLong21)) },
		func() *SV { return g.bin([]byte("sixteen bytes....")) },
		func() *SV { return g.dflt() },
		func() *SV { return g.other("regexp-long") },
		func() *SV { return g.other("runtime") },
		func() *SV { return g.other("timestamp") },
		func() *SV { return g.other("type-long") },
		func() *SV { return g.str(sSens) },
		func() *SV { return g.str(sArr7) },
		func() *SV { return g.str("{7 a runtime struct value}") },
	}
}

const nSerTemplates = 9

// serTemplate places a and b (b2/a2: a second occurrence - the same pointer when `shared`) at two positions of a stream:
// key/key in sibling hashes, value then key, key then value, key of a nested hash, non-first entry, ...
func serTemplate(g *svGen, k int, a, b, a2, b2 *SV) *SV {
	one, two := g.i(1), g.i(2)
	switch k {
	case 0:
		return g.arr(g.hash(a, one), g.hash(b, two))
	case 1:
		return g.arr(a, g.hash(b, one))
	case 2:
		return g.arr(g.hash(a, one), b)
	case 3:
		return g.hash(a, g.hash(b, one))
	case 4:
		return g.hash(g.str("x"), a, b, two)
	case 5:
		return g.arr(a, b)
	case 6:
		return g.hash(a, b)
	case 7:
		return g.arr(a, b, b2, a2)
	}
	return g.arr(g.hash(g.str("x"), one, a, g.hash(g.str("y"), two, b, g.i(3))), g.hash(a2, b2))
}

func randSV(r *lib.Rng, g *svGen, pool []func() *SV, made *[]*SV, depth int) *SV {
	// an earlier value again (the same pointer): shared sub-values
	if len(*made) > 0 && r.Chance(1, 5) {
		return (*made)[r.Intn(len(*made))]
	}
	var v *SV
	switch {
	case depth <= 0 || r.Chance(2, 5):
		if r.Chance(1, 8) {
			v = g.str(escString(r)) // content that looks like JSON text
		} else {
			v = pool[r.Intn(len(pool))]()
		}
	case r.Chance(1, 2):
		n := r.Intn(4)
		l := make([]*SV, n)
		for i := range l {
			l[i] = randSV(r, g, pool, made, depth-1)
		}
		v = g.arr(l...)
	case r.Chance(1, 6):
		v = g.sens(randSV(r, g, pool, made, depth-1))
	default:
		n := r.Intn(4)
		var l []*SV
		for i := 0; i < n; i++ {
			var k *SV
			if r.Chance(1, 2) {
				k = g.str([]string{"a", "b", sLong21, sMinInt, "key" + fmt.Sprint(i), escString(r)}[r.Intn(6)])
			} else {
				k = randSV(r, g, pool, made, depth-1)
			}
			l = append(l, k, randSV(r, g, pool, made, depth-1))
		}
		v = g.hash(l...)
	}
	*made = append(*made, v)
	return v
}

// serFamily: every pair of pool values in every template (twice where a pointer can be shared), under every option set
// (quick tier: 3 of the 6 distinct ones by turns - each converted value costs the library a stack walk for its warning),
// then seeded random values
func (c *checker) serFamily(ctx px.Context, rng *lib.Rng, nRandom, coqCases int, allOpts bool) {
	g := &svGen{}
	pool := svPool(g)
	nOpts := 6 // serOptSets[6:] (local_reference => false) are dedup_level 0 by another name: random family only
	perValue := 3
	if allOpts {
		perValue = nOpts
	}
	nId := 0
	for _, p := range pool {
		if p().Id != 0 {
			nId++
		}
	}
	nPlain := len(pool) - nId
	total := (2*len(pool)*len(pool) - nPlain*nPlain) * nSerTemplates * perValue
	stride := total/(coqCases/2) + 1
	fams := make([]string, nSerTemplates)
	for t := range fams {
		fams[t] = fmt.Sprintf("template-%d", t)
	}
	k, nv := 0, 0
	for ia := range pool {
		for ib := range pool {
			for t := 0; t < nSerTemplates; t++ {
				for sh := 0; sh < 2; sh++ {
					a, b := pool[ia](), pool[ib]()
					a2, b2 := a, b
					if sh == 0 {
						a2, b2 = pool[ia](), pool[ib]()
					} else if a.Id == 0 && b.Id == 0 {
						continue // no pointer to share
					} else if ia == ib {
						b, b2 = a, a // one pointer at all four places
					}
					v := serTemplate(g, t, a, b, a2, b2)
					nv++
					for j, oi := range []int{0, 1, 3, 2, 4, 5} {
						if j >= perValue {
							break
						}
						k++
						c.serValue(ctx, v, serOptSets[(nv+oi)%nOpts], fams[t], k%stride == 0)
					}
				}
			}
		}
	}
	// strings whose content looks like JSON text (strlex.go) at every position of every template: as key and as value,
	// next to a long string, an Integer key (the stringified-key route) and themselves, below and above the dedup threshold
	escs := poolEscStrings()
	nEsc := 0
	for ie, es := range escs {
		if !allOpts && ie%3 != 0 && !strings.Contains(es, "u0026") {
			continue // quick tier: a third of the pool, and everything that mentions u0026
		}
		for t := 0; t < nSerTemplates; t++ {
			for ip := 0; ip < 3; ip++ {
				mk := func() *SV { return g.str(es) }
				partner := []func() *SV{func() *SV { return g.str(sLong21) }, func() *SV { return g.i(7) }, mk}[ip]
				a, b := mk(), partner()
				if (ie+t)%2 == 1 {
					a, b = b, a
				}
				nEsc++
				c.serValue(ctx, serTemplate(g, t, a, b, a, b), serOptSets[(nEsc+t)%nOpts], "escape-like-strings", nEsc%40 == 0)
			}
		}
	}
	for i := 0; i < nRandom; i++ {
		r := rng.Fork()
		var made []*SV
		v := randSV(r, g, pool, &made, 2+r.Intn(3))
		c.serValue(ctx, v, serOptSets[i%len(serOptSets)], "random", i < coqCases/2 && v.size() <= 60)
	}
}
