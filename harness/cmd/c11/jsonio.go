package main

import (
	"bytes"
	"encoding/json"
	"fmt"
	"math"
	"math/big"
	"runtime"
	"strconv"
	"strings"

	"github.com/lyraproj/pcore/serialization"
	"verifharness/lib"
)

// ---- JSON tokens (mirrors `jtoken` of coq/Model/Json.v) ----

type Tok struct {
	K    string   // [ ] { } , : null bool str int frac bad
	B    bool     // bool
	S    string   // str: the decoded string
	Int  *big.Int // int: text matches -?digits, exact value
	Bits uint64   // frac: text has a fraction or an exponent; bits of strconv.ParseFloat(text, 64)
}

func (t Tok) gallina() string {
	switch t.K {
	case "[":
		return "LBrack"
	case "]":
		return "RBrack"
	case "{":
		return "LBrace"
	case "}":
		return "RBrace"
	case ",":
		return "Comma"
	case ":":
		return "Colon"
	case "null":
		return "TNull"
	case "bool":
		return "TBool " + lib.GBool(t.B)
	case "str":
		return "TStr " + lib.GStr(t.S)
	case "int":
		return "TNum (NInt " + lib.GBig(t.Int) + ")"
	case "frac":
		return "TNum (NFrac " + gBits(t.Bits) + ")"
	}
	return "TBad"
}

func gToks(ts []Tok) string {
	ss := make([]string, len(ts))
	for i, t := range ts {
		ss[i] = t.gallina()
	}
	return lib.GList(ss, "jtoken")
}

func isIntText(s string) bool {
	if strings.HasPrefix(s, "-") {
		s = s[1:]
	}
	if s == "" {
		return false
	}
	for i := 0; i < len(s); i++ {
		if s[i] < '0' || s[i] > '9' {
			return false
		}
	}
	return true
}

func numTok(txt string) Tok {
	if !json.Valid([]byte(txt)) {
		return Tok{K: "bad"}
	}
	if isIntText(txt) {
		z, ok := new(big.Int).SetString(txt, 10)
		if !ok {
			return Tok{K: "bad"}
		}
		return Tok{K: "int", Int: z}
	}
	f, _ := strconv.ParseFloat(txt, 64) // a range error leaves ±Inf / 0, exactly what jsontodata.go:104 keeps
	return Tok{K: "frac", Bits: math.Float64bits(f)}
}

// tokenize splits a JSON text into tokens.  The text class of a scalar is decided here (by the harness)
// from the real bytes; string contents are decoded with encoding/json.
func tokenize(b []byte) []Tok {
	var ts []Tok
	for i := 0; i < len(b); {
		c := b[i]
		switch {
		case c == ' ' || c == '\t' || c == '\n' || c == '\r':
			i++
		case c == '[' || c == ']' || c == '{' || c == '}' || c == ',' || c == ':':
			ts = append(ts, Tok{K: string(c)})
			i++
		case c == '"':
			j := i + 1
			for j < len(b) && b[j] != '"' {
				if b[j] == '\\' {
					j++
				}
				j++
			}
			if j >= len(b) {
				ts = append(ts, Tok{K: "bad"})
				i = len(b)
				break
			}
			var s string
			if json.Unmarshal(b[i:j+1], &s) != nil {
				ts = append(ts, Tok{K: "bad"})
			} else {
				ts = append(ts, Tok{K: "str", S: s})
			}
			i = j + 1
		case c == '-' || (c >= '0' && c <= '9'):
			j := i
			for j < len(b) && strings.IndexByte("+-0123456789.eE", b[j]) >= 0 {
				j++
			}
			ts = append(ts, numTok(string(b[i:j])))
			i = j
		case c >= 'a' && c <= 'z':
			j := i
			for j < len(b) && b[j] >= 'a' && b[j] <= 'z' {
				j++
			}
			switch string(b[i:j]) {
			case "null":
				ts = append(ts, Tok{K: "null"})
			case "true":
				ts = append(ts, Tok{K: "bool", B: true})
			case "false":
				ts = append(ts, Tok{K: "bool", B: false})
			default:
				ts = append(ts, Tok{K: "bad"})
			}
			i = j
		default:
			ts = append(ts, Tok{K: "bad"})
			i++
		}
	}
	return ts
}

// ---- running the implementation ----

// outcome of a call that may panic: "" = returned, "error" = a reported error (panic with an error
// value, the way pcore reports), "fault" = a Go runtime fault escaped
func guarded(f func()) (outcome string, detail string) {
	defer func() {
		if r := recover(); r != nil {
			detail = fmt.Sprintf("%v", r)
			if len(detail) > 300 {
				detail = detail[:300]
			}
			if _, ok := r.(runtime.Error); ok {
				outcome = "fault"
			} else {
				outcome = "error"
			}
		}
	}()
	f()
	return "", ""
}

// runWriter streams one top-level event through the real jsonStreamer
func runWriter(e *Ev, hint int) (out []byte, outcome, detail string) {
	buf := &bytes.Buffer{}
	outcome, detail = guarded(func() { playH(e, serialization.NewJsonStreamer(buf), hint) })
	return buf.Bytes(), outcome, detail
}

// runReader feeds a JSON text to the real JsonToData with a recording consumer
func runReader(b []byte) (evs []*Ev, outcome, detail string) {
	rec := newRecorder()
	outcome, detail = guarded(func() { serialization.JsonToData("/verif/c11.json", bytes.NewReader(b), rec) })
	return rec.events(), outcome, detail
}

// Gallina terms of the observed outcomes
func gWout(out []byte, outcome string) string {
	switch outcome {
	case "":
		return "(Ok " + gToks(tokenize(out)) + ")"
	case "error":
		return "(@Err (list jtoken))"
	}
	return "(@Fault (list jtoken))"
}

func gRout(evs []*Ev, outcome string) string {
	if outcome == "" {
		return "(Some (Ok " + gEvs(evs) + "))"
	}
	// JsonToData converts every panic, runtime faults included, into an InvalidJson error
	return "(Some (@Err (list ev)))"
}
