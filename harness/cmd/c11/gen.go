package main

import (
	"math"
	"strings"
	"unicode/utf8"

	"verifharness/lib"
)

// ---- scalar pools ----

var poolInts = []int64{0, 1, -1, 7, 42, -128, math.MaxInt64, math.MinInt64, math.MaxInt64 - 1, math.MinInt64 + 1,
	1 << 53, 1<<53 + 1, -(1 << 53) - 1, 1 << 62, 1000000000000000000, 999999999999999999, 123456789012345678,
	math.MaxInt32, math.MinInt32, 1 << 32, 100000000000000000}

func poolFloats() []float64 {
	return []float64{0, math.Copysign(0, -1), 1, -1, 2, 10, 100, 1.5, -2.25, 0.1, 0.5, 1e-7, 1e-6, 9.99999e-7, 1e-5,
		1e15, 1e16, 1e17, 1e20, 1e21, 9.99999999999999e20, 999999999999999868928, 1e22, 123456789012345678, 1 << 53, 1<<53 + 2,
		9223372036854775807, -9223372036854775808, 18446744073709551616, 4294967296, math.MaxFloat64, -math.MaxFloat64,
		math.SmallestNonzeroFloat64, 2.2250738585072014e-308, 2.225073858507201e-308, 3.141592653589793, 1.0000000000000002,
		math.NaN(), math.Inf(1), math.Inf(-1), math.Float64frombits(0x7ff8000000000123), math.Float64frombits(0xfff0000000000001),
		5e-324, 1e300, -1e-300, 65536, 0.3, 1.0 / 3.0, 1e23, 8.41e21}
}

var poolStrings = []string{"", "a", "k", "key", prefKey, "__ptype", "__pvalue", "__pre", "__pref_", "héllo", "日本語",
	"\U0001F600", "  ", "<>&", "\"\\/", "\x00\x01\x1f\x7f", "\b\f\n\r\t", "\xff", "a\xc3", "\xc3", "\xed\xa0\x80", "\xc0\x80",
	"\xf4\x90\x80\x80", "\xf4\x8f\xbf\xbf", "\xef\xbf\xbd", "\xef\xbf\xbe", "\xe2\x82", "ok\xe2\x82\xacok", "\xf0\x9f\x98", "\x80",
	"abcdefghijklmnopqrstuvwxyz", "a string longer than twenty bytes", "1", "1.0", "null", "true", "\u2028", "\u2029", "\ufeff",
	"\xf0\x90\x80\x80", "\xe0\x9f\xbf", "\xe0\xa0\x80", "\xee\x80\x80\xed\x9f\xbf", "\xf1\x80\x80\x80x", "\xf5\x80\x80\x80", "\xc2\x80\xdf\xbf"}

func randInt(r *lib.Rng) int64 {
	switch r.Intn(5) {
	case 0:
		return poolInts[r.Intn(len(poolInts))]
	case 1:
		return int64(r.Intn(2001)) - 1000
	case 2:
		// around a power of two
		return (int64(1)<<uint(r.Intn(63)) + int64(r.Intn(5)) - 2) * int64(1-2*r.Intn(2))
	}
	return int64(r.Next())
}

func randFloatBits(r *lib.Rng) uint64 {
	switch r.Intn(8) {
	case 0:
		fs := poolFloats()
		return math.Float64bits(fs[r.Intn(len(fs))])
	case 1:
		return r.Next() // anything, NaNs included
	case 2:
		// small integral
		return math.Float64bits(float64(int64(r.Intn(2001)) - 1000))
	case 3:
		// k / 2^j
		return math.Float64bits(float64(int64(r.Intn(4001))-2000) / float64(int64(1)<<uint(r.Intn(12))))
	case 4:
		// large integral around 10^k (the %f / %e switch of the renderer is at 1e21)
		f := math.Pow(10, float64(r.Intn(26)))
		b := math.Float64bits(f) + uint64(r.Intn(7)) - 3
		return b ^ (uint64(r.Intn(2)) << 63)
	case 5:
		// integral, random magnitude up to 2^70
		e := uint(r.Intn(70))
		m := r.Next() >> (63 - e%64) >> 1
		return math.Float64bits(float64(m) * math.Pow(2, float64(e/64)*6))
	case 6:
		// tiny
		return uint64(r.Intn(1<<20)) | (uint64(r.Intn(40)) << 52)
	}
	// finite, random exponent
	return (r.Next() & 0x800fffffffffffff) | (uint64(r.Intn(2047)) << 52)
}

var runeRanges = [][2]rune{{0x20, 0x7e}, {0, 0x1f}, {0x7f, 0xff}, {0x100, 0x7ff}, {0x800, 0xd7ff}, {0xe000, 0xffff},
	{0x10000, 0x10ffff}, {0x2028, 0x2029}, {0xfff0, 0xffff}}

func randString(r *lib.Rng) string {
	switch r.Intn(6) {
	case 0:
		return poolStrings[r.Intn(len(poolStrings))]
	case 1:
		// arbitrary bytes
		n := r.Intn(7)
		b := make([]byte, n)
		for i := range b {
			b[i] = byte(r.Next())
		}
		return string(b)
	case 2:
		// bytes biased to UTF-8 lead / continuation bytes
		n := 1 + r.Intn(6)
		b := make([]byte, n)
		al := []byte{0x80, 0xbf, 0xc2, 0xdf, 0xe0, 0xa0, 0x9f, 0xed, 0xef, 0xf0, 0x90, 0x8f, 0xf4, 0xf5, 0xc0, 0xc1, 0x41, 0xff}
		for i := range b {
			b[i] = al[r.Intn(len(al))]
		}
		return string(b)
	case 3:
		return strings.Repeat("x", r.Intn(3)) + "key" + string(rune('a'+r.Intn(4)))
	}
	// valid Unicode
	n := r.Intn(6)
	var sb strings.Builder
	for i := 0; i < n; i++ {
		rg := runeRanges[r.Intn(len(runeRanges))]
		c := rg[0] + rune(r.Intn(int(rg[1]-rg[0]+1)))
		if !utf8.ValidRune(c) {
			c = 'x'
		}
		sb.WriteRune(c)
	}
	return sb.String()
}

// randScalar: a scalar event; data=true restricts to Data scalars
func randScalar(r *lib.Rng, data bool) *Ev {
	n := 12
	if data {
		n = 10
	}
	switch r.Intn(n) {
	case 0:
		return evUndef()
	case 1:
		return evBool(r.Bool())
	case 2, 3, 4:
		return evInt(randInt(r))
	case 5, 6, 7:
		return evBits(randFloatBits(r))
	case 8, 9:
		return evStr(randString(r))
	case 10:
		b := make([]byte, r.Intn(5))
		for i := range b {
			b[i] = byte(r.Next())
		}
		return evBin(b)
	}
	return evOther()
}

type treeOpts struct {
	depth    int
	width    int
	refs     bool // may contain AddRef events
	data     bool // only Data scalars
	wild     bool // hashes may have an odd number of children and non-string keys (tie only)
	anyKeys  bool // even hashes whose keys may be any value (a consumer with CanDoComplexKeys)
	maxRefs  int
	refCount *int
	pos      *int
}

func randTree(r *lib.Rng, o treeOpts, depth int) *Ev {
	if o.pos == nil {
		o.pos, o.refCount = new(int), new(int)
	}
	leaf := depth >= o.depth || r.Chance(2, 5)
	if leaf {
		if o.refs && *o.refCount < o.maxRefs && r.Chance(1, 6) {
			*o.refCount++
			n := int64(r.Intn(*o.pos + 2))
			if r.Chance(1, 10) {
				n = randInt(r)
			}
			return evRef(n)
		}
		*o.pos++
		return randScalar(r, o.data)
	}
	*o.pos++
	n := r.Intn(o.width + 1)
	if r.Chance(1, 2) {
		l := make([]*Ev, n)
		for i := range l {
			l[i] = randTree(r, o, depth+1)
		}
		return evArr(l...)
	}
	var l []*Ev
	for i := 0; i < n; i++ {
		var k *Ev
		switch {
		case o.wild && r.Chance(1, 4), o.anyKeys && r.Chance(1, 3):
			k = randTree(r, o, depth+1)
		default:
			*o.pos++
			k = evStr(randString(r))
			if i == 0 && r.Chance(1, 25) {
				k = evStr(prefKey)
			}
		}
		l = append(l, k)
		if o.wild && r.Chance(1, 8) {
			continue // odd
		}
		l = append(l, randTree(r, o, depth+1))
	}
	return evHash(l...)
}

// ---- bounded-exhaustive structure family ----

// forests enumerates every forest with exactly n nodes over leaves {"k", 7} and containers {arr, hash}
// (no well-formedness imposed: the writer's state machine must agree with the model on all of them)
func forests(n int, memo map[int][][]*Ev) [][]*Ev {
	if n == 0 {
		return [][]*Ev{nil}
	}
	if f, ok := memo[n]; ok {
		return f
	}
	var out [][]*Ev
	for first := 1; first <= n; first++ {
		for _, t := range treesOf(first, memo) {
			for _, rest := range forests(n-first, memo) {
				f := make([]*Ev, 0, 1+len(rest))
				f = append(f, t)
				f = append(f, rest...)
				out = append(out, f)
			}
		}
	}
	memo[n] = out
	return out
}

var leafK, leaf7 = evStr("k"), evInt(7)

func treesOf(n int, memo map[int][][]*Ev) []*Ev {
	var out []*Ev
	if n == 1 {
		out = append(out, leafK, leaf7)
	}
	for _, f := range forests(n-1, memo) {
		out = append(out, &Ev{T: "arr", L: f}, &Ev{T: "hash", L: f})
	}
	return out
}

// ---- JSON texts for the reader ----

var numLexemes = []string{"0", "-0", "1", "-1", "1.0", "0.0", "-0.0", "1e5", "1E5", "1e+5", "1e-5", "1.5e3", "100", "1.0e0",
	"9223372036854775807", "9223372036854775808", "-9223372036854775808", "-9223372036854775809", "18446744073709551616",
	"123456789012345678901234567890", "-123456789012345678901234567890", "1e999", "-1e999", "1e-999", "0.1", "3.141592653589793",
	"100000000000000000000", "100000000000000000000.0", "1e21", "9007199254740993", "9007199254740993.0", "4.9e-324", "2.5e-324",
	"179769313486231570000000000000000000000000000000000000000000000000000000000000000000000000000000000000000000000000000000000000000000000000000000000000000000000000000000000000000000000000000000000000000000000000000000000000000000000000000000000000000000000000000000000000000000000000000000000000000000000000000",
	"36893488147419103232", "36893488147419103233", "9223372036854775809", "9223372036854776833", "9223372036854776832", "9223372036854776831",
	"18446744073709553664", "18446744073709553665", "18446744073709549568"}

var strLexemes = []string{`""`, `"a"`, `"__pref"`, `"__ptype"`, `"A"`, `"😀"`, `"\ud800"`, `"\udc00x"`, `"\n\t\"\\\/"`,
	`"h` + "é" + `llo"`, `" "`, `"k"`, `"\u0000"`, "\"\xff\"", `"a string longer than twenty bytes"`}

var litLexemes = []string{"null", "true", "false"}

func randLexeme(r *lib.Rng) string {
	switch r.Intn(4) {
	case 0:
		return numLexemes[r.Intn(len(numLexemes))]
	case 1:
		return strLexemes[r.Intn(len(strLexemes))]
	case 2:
		return litLexemes[r.Intn(len(litLexemes))]
	}
	// a random integer text of random length
	n := 1 + r.Intn(25)
	var sb strings.Builder
	if r.Bool() {
		sb.WriteByte('-')
	}
	sb.WriteByte(byte('1' + r.Intn(9)))
	for i := 1; i < n; i++ {
		sb.WriteByte(byte('0' + r.Intn(10)))
	}
	return sb.String()
}

// randJSONPieces: the lexemes of a random valid JSON value
func randJSONPieces(r *lib.Rng, depth int, out *[]string) {
	if depth >= 4 || r.Chance(2, 5) {
		*out = append(*out, randLexeme(r))
		return
	}
	n := r.Intn(4)
	if r.Bool() {
		*out = append(*out, "[")
		for i := 0; i < n; i++ {
			if i > 0 {
				*out = append(*out, ",")
			}
			randJSONPieces(r, depth+1, out)
		}
		*out = append(*out, "]")
		return
	}
	*out = append(*out, "{")
	for i := 0; i < n; i++ {
		if i > 0 {
			*out = append(*out, ",")
		}
		k := strLexemes[r.Intn(len(strLexemes))]
		if r.Chance(1, 4) {
			k = `"__pref"`
		}
		*out = append(*out, k, ":")
		if k == `"__pref"` && r.Chance(1, 2) {
			*out = append(*out, []string{"1", "0", "-3", "12345678901234567890", "1.5", "1e2"}[r.Intn(6)])
		} else {
			randJSONPieces(r, depth+1, out)
		}
	}
	*out = append(*out, "}")
}

var wsPieces = []string{"", "", "", " ", "\n", "\t ", "\r\n"}

func joinPieces(r *lib.Rng, ps []string) []byte {
	var sb strings.Builder
	punct := func(p string) bool { return len(p) == 1 && strings.Contains("[]{},:", p) }
	for i, p := range ps {
		w := wsPieces[r.Intn(len(wsPieces))]
		if w == "" && i > 0 && !punct(p) && !punct(ps[i-1]) {
			w = " " // two adjacent scalars (damaged texts) must stay two lexemes
		}
		sb.WriteString(w)
		sb.WriteString(p)
	}
	sb.WriteString(wsPieces[r.Intn(len(wsPieces))])
	return []byte(sb.String())
}

// mutatePieces damages a lexeme sequence (mostly into invalid JSON): recogniser tie
func mutatePieces(r *lib.Rng, ps []string) []string {
	q := append([]string(nil), ps...)
	if len(q) == 0 {
		return []string{","}
	}
	i := r.Intn(len(q))
	switch r.Intn(5) {
	case 0:
		return append(q[:i], q[i+1:]...)
	case 1:
		q = append(q[:i+1], q[i:]...)
		return q
	case 2:
		j := r.Intn(len(q))
		q[i], q[j] = q[j], q[i]
		return q
	case 3:
		q[i] = []string{"[", "]", "{", "}", ",", ":", "1", `"s"`, "null"}[r.Intn(9)]
		return q
	}
	return append(q, []string{"]", "}", ",", "1", "[", `"x"`}[r.Intn(6)])
}

var soupAlphabet = []string{"[", "]", "{", "}", ",", ":", "1", "2.5", `"s"`, `"__pref"`, "null", "true"}
