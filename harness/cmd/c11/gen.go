package main

import (
	"math"
	"strconv"
	"strings"
	"unicode/utf8"

	"verifharness/lib"
)

// ---- scalar pools ----

var poolInts = []int64{0, 1, -1, 7, 42, -128, math.MaxInt64, math.MinInt64, math.MaxInt64 - 1, math.MinInt64 + 1,
	1 << 53, 1<<53 + 1, -(1 << 53) - 1, 1 << 62, 1000000000000000000, 999999999999999999, 123456789012345678,
	math.MaxInt32, math.MinInt32, 1 << 32, 100000000000000000}

func poolFloats() []float64 {
	return []float64{0, math.Copysign(0, -1), 1, -1, 2, 10, 100, 1.5, -2.25, 0.1, 0.5, 1e-7, 1e-6, 9.99999e-7, 1e-5,
		1e15, 1e16, 1e17, 1e20, 1e21, 9.99999999999999e20, 999999999999999868928, 1e22, 123456789012345678, 1 << 53, 1<<53 + 2,
		9223372036854775807, -9223372036854775808, 18446744073709551616, 4294967296, math.MaxFloat64, -math.MaxFloat64,
		math.SmallestNonzeroFloat64, 2.2250738585072014e-308, 2.225073858507201e-308, 3.141592653589793, 1.0000000000000002,
		math.NaN(), math.Inf(1), math.Inf(-1), math.Float64frombits(0x7ff8000000000123), math.Float64frombits(0xfff0000000000001),
		5e-324, 1e300, -1e-300, 65536, 0.3, 1.0 / 3.0, 1e23, 8.41e21}
}

var poolStrings = []string{"", "a", "k", "key", prefKey, "__ptype", "__pvalue", "__pre", "__pref_", "héllo", "日本語",
	"\U0001F600", "  ", "<>&", "\"\\/", "\x00\x01\x1f\x7f", "\b\f\n\r\t", "\xff", "a\xc3", "\xc3", "\xed\xa0\x80", "\xc0\x80",
	"\xf4\x90\x80\x80", "\xf4\x8f\xbf\xbf", "\xef\xbf\xbd", "\xef\xbf\xbe", "\xe2\x82", "ok\xe2\x82\xacok", "\xf0\x9f\x98", "\x80",
	"abcdefghijklmnopqrstuvwxyz", "a string longer than twenty bytes", "1", "1.0", "null", "true", "\u2028", "\u2029", "\ufeff",
	"\xf0\x90\x80\x80", "\xe0\x9f\xbf", "\xe0\xa0\x80", "\xee\x80\x80\xed\x9f\xbf", "\xf1\x80\x80\x80x", "\xf5\x80\x80\x80", "\xc2\x80\xdf\xbf"}

func randInt(r *lib.Rng) int64 {
	switch r.Intn(5) {
	case 0:
		return poolInts[r.Intn(len(poolInts))]
	case 1:
		return int64(r.Intn(2001)) - 1000
	case 2:
		// around a power of two
		return (int64(1)<<uint(r.Intn(63)) + int64(r.Intn(5)) - 2) * int64(1-2*r.Intn(2))
	}
	return int64(r.Next())
}

func randFloatBits(r *lib.Rng) uint64 {
	switch r.Intn(8) {
	case 0:
		fs := poolFloats()
		return math.Float64bits(fs[r.Intn(len(fs))])
	case 1:
		return r.Next() // anything, NaNs included
	case 2:
		// small integral
		return math.Float64bits(float64(int64(r.Intn(2001)) - 1000))
	case 3:
		// k / 2^j
		return math.Float64bits(float64(int64(r.Intn(4001))-2000) / float64(int64(1)<<uint(r.Intn(12))))
	case 4:
		// large integral around 10^k (the %f / %e switch of the renderer is at 1e21)
		f := math.Pow(10, float64(r.Intn(26)))
		b := math.Float64bits(f) + uint64(r.Intn(7)) - 3
		return b ^ (uint64(r.Intn(2)) << 63)
	case 5:
		// integral, random magnitude up to 2^70
		e := uint(r.Intn(70))
		m := r.Next() >> (63 - e%64) >> 1
		return math.Float64bits(float64(m) * math.Pow(2, float64(e/64)*6))
	case 6:
		// tiny
		return uint64(r.Intn(1<<20)) | (uint64(r.Intn(40)) << 52)
	}
	// finite, random exponent
	return (r.Next() & 0x800fffffffffffff) | (uint64(r.Intn(2047)) << 52)
}

var runeRanges = [][2]rune{{0x20, 0x7e}, {0, 0x1f}, {0x7f, 0xff}, {0x100, 0x7ff}, {0x800, 0xd7ff}, {0xe000, 0xffff},
	{0x10000, 0x10ffff}, {0x2028, 0x2029}, {0xfff0, 0xffff}}

func randString(r *lib.Rng) string {
	switch r.Intn(8) {
	case 6, 7:
		// content that looks like JSON text: escape sequences, marshalled strings, trailing backslashes (strlex.go)
		return escString(r)
	case 0:
		return poolStrings[r.Intn(len(poolStrings))]
	case 1:
		// arbitrary bytes
		n := r.Intn(7)
		b := make([]byte, n)
		for i := range b {
			b[i] = byte(r.Next())
		}
		return string(b)
	case 2:
		// bytes biased to UTF-8 lead / continuation bytes
		n := 1 + r.Intn(6)
		b := make([]byte, n)
		al := []byte{0x80, 0xbf, 0xc2, 0xdf, 0xe0, 0xa0, 0x9f, 0xed, 0xef, 0xf0, 0x90, 0x8f, 0xf4, 0xf5, 0xc0, 0xc1, 0x41, 0xff}
		for i := range b {
			b[i] = al[r.Intn(len(al))]
		}
		return string(b)
	case 3:
		return strings.Repeat("x", r.Intn(3)) + "key" + string(rune('a'+r.Intn(4)))
	}
	// valid Unicode
	n := r.Intn(6)
	var sb strings.Builder
	for i := 0; i < n; i++ {
		rg := runeRanges[r.Intn(len(runeRanges))]
		c := rg[0] + rune(r.Intn(int(rg[1]-rg[0]+1)))
		if !utf8.ValidRune(c) {
			c = 'x'
		}
		sb.WriteRune(c)
	}
	return sb.String()
}

// randScalar: a scalar event; data=true restricts to Data scalars
func randScalar(r *lib.Rng, data bool) *Ev {
	n := 12
	if data {
		n = 10
	}
	switch r.Intn(n) {
	case 0:
		return evUndef()
	case 1:
		return evBool(r.Bool())
	case 2, 3, 4:
		return evInt(randInt(r))
	case 5, 6, 7:
		return evBits(randFloatBits(r))
	case 8, 9:
		return evStr(randString(r))
	case 10:
		b := make([]byte, r.Intn(5))
		for i := range b {
			b[i] = byte(r.Next())
		}
		return evBin(b)
	}
	return evOther()
}

type treeOpts struct {
	depth    int
	width    int
	refs     bool // may contain AddRef events
	data     bool // only Data scalars
	wild     bool // hashes may have an odd number of children and non-string keys (tie only)
	anyKeys  bool // even hashes whose keys may be any value (a consumer with CanDoComplexKeys)
	maxRefs  int
	refCount *int
	pos      *int
	leafNum  int  // chance leafNum/leafDen that a node above the depth limit is a leaf (0: 2/5)
	leafDen  int
	minWidth int  // containers have minWidth..width children (entries)
	budget   *int // nodes left; exhausted: leaves only
}

func randTree(r *lib.Rng, o treeOpts, depth int) *Ev {
	if o.pos == nil {
		o.pos, o.refCount = new(int), new(int)
	}
	ln, ld := 2, 5
	if o.leafDen > 0 {
		ln, ld = o.leafNum, o.leafDen
	}
	leaf := depth >= o.depth || r.Chance(ln, ld)
	if o.budget != nil {
		*o.budget--
		leaf = leaf || *o.budget < 0
	}
	if leaf {
		if o.refs && *o.refCount < o.maxRefs && r.Chance(1, 6) {
			*o.refCount++
			n := int64(r.Intn(*o.pos + 2))
			if r.Chance(1, 10) {
				n = randInt(r)
			}
			return evRef(n)
		}
		*o.pos++
		return randScalar(r, o.data)
	}
	*o.pos++
	n := o.minWidth + r.Intn(o.width-o.minWidth+1)
	if r.Chance(1, 2) {
		l := make([]*Ev, n)
		for i := range l {
			l[i] = randTree(r, o, depth+1)
		}
		return evArr(l...)
	}
	var l []*Ev
	for i := 0; i < n; i++ {
		var k *Ev
		switch {
		case o.wild && r.Chance(1, 4), o.anyKeys && r.Chance(1, 3):
			k = randTree(r, o, depth+1)
		default:
			*o.pos++
			k = evStr(randString(r))
			if i == 0 && r.Chance(1, 25) {
				k = evStr(prefKey)
			}
		}
		l = append(l, k)
		if o.wild && r.Chance(1, 8) {
			continue // odd
		}
		l = append(l, randTree(r, o, depth+1))
	}
	return evHash(l...)
}

// ---- sizes beyond every capacity the code preallocates ----
//
// protoConsumer.stack and BasicCollector.stack start with room for 8 frames (convert.go:24, basiccollector.go:21),
// BasicCollector.values with room for 64 positions (:20), every frame with room for the length hint (JsonToData: 8).
// Go slices move to a new backing array when they outgrow that; code that is right only while nothing moves is
// wrong from nesting depth 8 / 9 elements / 65 positions on.  These families cover every depth, width and position
// count across those boundaries (and well beyond), with distinct scalars on both sides of every nested container
// so that a lost, duplicated or misplaced element is visible.

type famEv struct {
	fam string
	e   *Ev
}

// kind pattern of a chain of nested containers: level -> "arr" | "hash"
type kindPat struct {
	name string
	at   func(level int) bool // true: hash
}

func kindPats(r *lib.Rng) []kindPat {
	m1, m2 := r.Next(), r.Next()
	return []kindPat{
		{"arr", func(int) bool { return false }},
		{"hash", func(int) bool { return true }},
		{"alt", func(l int) bool { return l%2 == 1 }},
		{"alt2", func(l int) bool { return l%2 == 0 }},
		{"rnd1", func(l int) bool { return m1>>(uint(l)%64)&1 == 1 }},
		{"rnd2", func(l int) bool { return m2>>(uint(l)%64)&1 == 1 }},
	}
}

// distinct scalars: an integer, a float, a short string by turns
func serialScalar(n *int) *Ev {
	*n++
	switch *n % 3 {
	case 0:
		return evFloat(float64(*n) + 0.5)
	case 1:
		return evInt(int64(*n))
	}
	return evStr("s" + strconv.Itoa(*n))
}

// spine: d nested containers; at every level `before` scalars precede and `after` scalars follow the nested one
// (a hash: entries "b<i>": scalar, then "n": nested, then "a<i>": scalar; with keyPos the nested container of a hash
// is the KEY of its entry - only a consumer with CanDoComplexKeys is entitled to that)
func spine(d int, kp kindPat, before, after int, bottom *Ev, keyPos bool, n *int, level int) *Ev {
	if d == 0 {
		return bottom
	}
	var l []*Ev
	hash := kp.at(level)
	for i := 0; i < before; i++ {
		if hash {
			l = append(l, evStr("b"+strconv.Itoa(i)))
		}
		l = append(l, serialScalar(n))
	}
	inner := spine(d-1, kp, before, after, bottom, keyPos, n, level+1)
	switch {
	case hash && keyPos:
		l = append(l, inner, serialScalar(n))
	case hash:
		l = append(l, evStr("n"), inner)
	default:
		l = append(l, inner)
	}
	for i := 0; i < after; i++ {
		if hash {
			l = append(l, evStr("a"+strconv.Itoa(i)))
		}
		l = append(l, serialScalar(n))
	}
	if hash {
		return evHash(l...)
	}
	return evArr(l...)
}

// bushy: a complete tree, every container holds scalar, nested, scalar, nested, scalar (the stack shrinks back
// and grows again many times)
func bushy(d int, kp kindPat, n *int, level int) *Ev {
	if d == 0 {
		return serialScalar(n)
	}
	var l []*Ev
	hash := kp.at(level)
	add := func(k string, v *Ev) {
		if hash {
			l = append(l, evStr(k))
		}
		l = append(l, v)
	}
	add("p", serialScalar(n))
	add("l", bushy(d-1, kp, n, level+1))
	add("q", serialScalar(n))
	add("r", bushy(d-1, kp, n, level+1))
	add("s", serialScalar(n))
	if hash {
		return evHash(l...)
	}
	return evArr(l...)
}

// wide: one container of w elements / entries; every `nestEvery`-th element is itself a container
func wide(w int, hash bool, nestEvery int, n *int) *Ev {
	var l []*Ev
	for i := 0; i < w; i++ {
		if hash {
			l = append(l, evStr("k"+strconv.Itoa(i)))
		}
		switch {
		case nestEvery > 0 && i%nestEvery == nestEvery-1 && i%2 == 0:
			l = append(l, evArr(serialScalar(n)))
		case nestEvery > 0 && i%nestEvery == nestEvery-1:
			l = append(l, evHash(evStr("x"), serialScalar(n)))
		default:
			l = append(l, serialScalar(n))
		}
	}
	if hash {
		return evHash(l...)
	}
	return evArr(l...)
}

// manyRefs: w distinct values (position 0 is the array itself, element i has position i+1), one closed container among
// them, then back-references to positions on both sides of the 64-position boundary
func manyRefs(w int) *Ev {
	n := 1000
	l := []*Ev{evArr(evInt(-1), evStr("inner"))} // positions 1, 2, 3
	for i := 0; i < w; i++ {
		l = append(l, serialScalar(&n)) // position 4+i
	}
	last := int64(3 + w)
	for _, p := range []int64{1, 2, 3, 4, 62, 63, 64, 65, 66, 127, 128, 129, last - 1, last} {
		if p >= 1 && p <= last {
			l = append(l, evRef(p))
		}
	}
	return evArr(l...)
}

func beyondCapacity(r *lib.Rng, thorough bool) []famEv {
	var out []famEv
	depths := []int{1, 2, 3, 4, 5, 6, 7, 8, 9, 10, 11, 12, 13, 15, 16, 17, 18, 24, 31, 32, 33, 40, 64, 65, 100}
	widths := []int{0, 1, 2, 7, 8, 9, 10, 15, 16, 17, 31, 32, 33, 63, 64, 65, 66, 100, 127, 128, 129, 200}
	bushyMax := 7
	if thorough {
		for d := 19; d <= 48; d++ {
			depths = append(depths, d)
		}
		depths = append(depths, 128, 129, 200, 257)
		widths = append(widths, 255, 256, 257, 500, 1000, 1025)
		bushyMax = 10
	}
	kps := kindPats(r)
	sib := [][2]int{{0, 0}, {1, 0}, {0, 1}, {1, 1}, {2, 3}}
	n := 0
	for _, d := range depths {
		for _, kp := range kps {
			for si, ba := range sib {
				var bottom *Ev
				switch (d + si) % 4 {
				case 0:
					bottom = evArr()
				case 1:
					bottom = evHash()
				case 2:
					bottom = evArr(evInt(42), evFloat(0.5))
				default:
					bottom = evInt(int64(d))
				}
				out = append(out, famEv{"deep", spine(d, kp, ba[0], ba[1], bottom, false, &n, 0)})
			}
			if kp.name != "arr" {
				out = append(out, famEv{"deep-complex-key", spine(d, kp, 1, 1, evInt(int64(d)), true, &n, 0)})
			}
		}
		// a back-reference at the bottom of the chain, to a value added before the chain was entered
		out = append(out, famEv{"deep-ref", evArr(evStr("a string longer than twenty bytes"),
			spine(d, kps[d%len(kps)], 1, 1, evRef(1), false, &n, 0), evRef(1))})
	}
	for d := 1; d <= bushyMax; d++ {
		for _, kp := range kps[:4] {
			out = append(out, famEv{"bushy", bushy(d, kp, &n, 0)})
		}
	}
	for _, w := range widths {
		for _, hash := range []bool{false, true} {
			out = append(out, famEv{"wide", wide(w, hash, 0, &n)}, famEv{"wide", wide(w, hash, 3, &n)},
				famEv{"wide", evArr(evInt(0), wide(w, hash, 8, &n), evInt(1))})
		}
		out = append(out, famEv{"wide-refs", manyRefs(w)})
		// wide at the bottom of a chain that is itself beyond the stack capacity
		out = append(out, famEv{"deep-wide", spine(9+w%3, kps[w%len(kps)], 1, 1, wide(w, w%2 == 1, 4, &n), false, &n, 0)})
	}
	return out
}

// randBeyond: seeded random trees whose depth, width or position count crosses the capacities
func randBeyond(r *lib.Rng, refs, anyKeys, data bool) *Ev {
	budget := 150 + r.Intn(250)
	o := treeOpts{refs: refs, maxRefs: 6, anyKeys: anyKeys, data: data, budget: &budget}
	switch r.Intn(3) {
	case 0: // deep and narrow
		o.depth, o.width, o.minWidth, o.leafNum, o.leafDen = 6+r.Intn(14), 1+r.Intn(3), 1, 1, 8
	case 1: // wide and shallow
		o.depth, o.width, o.minWidth, o.leafNum, o.leafDen = 1+r.Intn(2), 9+r.Intn(60), 6, 4, 5
	default: // many positions
		o.depth, o.width, o.minWidth, o.leafNum, o.leafDen = 3+r.Intn(4), 2+r.Intn(5), 1, 1, 3
		budget = 100 + r.Intn(400)
	}
	return randTree(r, o, 0)
}

// ---- bounded-exhaustive structure family ----

// forests enumerates every forest with exactly n nodes over leaves {"k", 7} and containers {arr, hash}
// (no well-formedness imposed: the writer's state machine must agree with the model on all of them)
func forests(n int, memo map[int][][]*Ev) [][]*Ev {
	if n == 0 {
		return [][]*Ev{nil}
	}
	if f, ok := memo[n]; ok {
		return f
	}
	var out [][]*Ev
	for first := 1; first <= n; first++ {
		for _, t := range treesOf(first, memo) {
			for _, rest := range forests(n-first, memo) {
				f := make([]*Ev, 0, 1+len(rest))
				f = append(f, t)
				f = append(f, rest...)
				out = append(out, f)
			}
		}
	}
	memo[n] = out
	return out
}

var leafK, leaf7 = evStr("k"), evInt(7)

func treesOf(n int, memo map[int][][]*Ev) []*Ev {
	var out []*Ev
	if n == 1 {
		out = append(out, leafK, leaf7)
	}
	for _, f := range forests(n-1, memo) {
		out = append(out, &Ev{T: "arr", L: f}, &Ev{T: "hash", L: f})
	}
	return out
}

// ---- JSON texts for the reader ----

var numLexemes = []string{"0", "-0", "1", "-1", "1.0", "0.0", "-0.0", "1e5", "1E5", "1e+5", "1e-5", "1.5e3", "100", "1.0e0",
	"9223372036854775807", "9223372036854775808", "-9223372036854775808", "-9223372036854775809", "18446744073709551616",
	"123456789012345678901234567890", "-123456789012345678901234567890", "1e999", "-1e999", "1e-999", "0.1", "3.141592653589793",
	"100000000000000000000", "100000000000000000000.0", "1e21", "9007199254740993", "9007199254740993.0", "4.9e-324", "2.5e-324",
	"179769313486231570000000000000000000000000000000000000000000000000000000000000000000000000000000000000000000000000000000000000000000000000000000000000000000000000000000000000000000000000000000000000000000000000000000000000000000000000000000000000000000000000000000000000000000000000000000000000000000000000000",
	"36893488147419103232", "36893488147419103233", "9223372036854775809", "9223372036854776833", "9223372036854776832", "9223372036854776831",
	"18446744073709553664", "18446744073709553665", "18446744073709549568"}

var strLexemes = []string{`""`, `"a"`, `"__pref"`, `"__ptype"`, `"A"`, `"😀"`, `"\ud800"`, `"\udc00x"`, `"\n\t\"\\\/"`,
	`"h` + "é" + `llo"`, `" "`, `"k"`, `"\u0000"`, "\"\xff\"", `"a string longer than twenty bytes"`}

var litLexemes = []string{"null", "true", "false"}

func randLexeme(r *lib.Rng) string {
	switch r.Intn(4) {
	case 0:
		return numLexemes[r.Intn(len(numLexemes))]
	case 1:
		return strLexemes[r.Intn(len(strLexemes))]
	case 2:
		return litLexemes[r.Intn(len(litLexemes))]
	}
	// a random integer text of random length
	n := 1 + r.Intn(25)
	var sb strings.Builder
	if r.Bool() {
		sb.WriteByte('-')
	}
	sb.WriteByte(byte('1' + r.Intn(9)))
	for i := 1; i < n; i++ {
		sb.WriteByte(byte('0' + r.Intn(10)))
	}
	return sb.String()
}

// randJSONPieces: the lexemes of a random valid JSON value
func randJSONPieces(r *lib.Rng, depth int, out *[]string) { randJSONPiecesD(r, depth, 4, 4, out) }

// randJSONPiecesD: nesting up to maxDepth, up to maxN-1 members per container
func randJSONPiecesD(r *lib.Rng, depth, maxDepth, maxN int, out *[]string) {
	if maxDepth > 4 && depth < maxDepth && len(*out) < 600 && r.Chance(4, 5) {
		// the deep family: keep descending
	} else if depth >= maxDepth || len(*out) >= 600 || r.Chance(2, 5) {
		*out = append(*out, randLexeme(r))
		return
	}
	n := r.Intn(maxN)
	if maxDepth > 4 && n == 0 && depth < maxDepth {
		n = 1
	}
	if r.Bool() {
		*out = append(*out, "[")
		for i := 0; i < n; i++ {
			if i > 0 {
				*out = append(*out, ",")
			}
			randJSONPiecesD(r, depth+1, maxDepth, maxN, out)
		}
		*out = append(*out, "]")
		return
	}
	*out = append(*out, "{")
	for i := 0; i < n; i++ {
		if i > 0 {
			*out = append(*out, ",")
		}
		k := strLexemes[r.Intn(len(strLexemes))]
		if r.Chance(1, 4) {
			k = `"__pref"`
		}
		*out = append(*out, k, ":")
		if k == `"__pref"` && r.Chance(1, 2) {
			*out = append(*out, []string{"1", "0", "-3", "12345678901234567890", "1.5", "1e2"}[r.Intn(6)])
		} else {
			randJSONPieces(r, depth+1, out)
		}
	}
	*out = append(*out, "}")
}

var wsPieces = []string{"", "", "", " ", "\n", "\t ", "\r\n"}

func joinPieces(r *lib.Rng, ps []string) []byte {
	var sb strings.Builder
	punct := func(p string) bool { return len(p) == 1 && strings.Contains("[]{},:", p) }
	for i, p := range ps {
		w := wsPieces[r.Intn(len(wsPieces))]
		if w == "" && i > 0 && !punct(p) && !punct(ps[i-1]) {
			w = " " // two adjacent scalars (damaged texts) must stay two lexemes
		}
		sb.WriteString(w)
		sb.WriteString(p)
	}
	sb.WriteString(wsPieces[r.Intn(len(wsPieces))])
	return []byte(sb.String())
}

// mutatePieces damages a lexeme sequence (mostly into invalid JSON): recogniser tie
func mutatePieces(r *lib.Rng, ps []string) []string {
	q := append([]string(nil), ps...)
	if len(q) == 0 {
		return []string{","}
	}
	i := r.Intn(len(q))
	switch r.Intn(5) {
	case 0:
		return append(q[:i], q[i+1:]...)
	case 1:
		q = append(q[:i+1], q[i:]...)
		return q
	case 2:
		j := r.Intn(len(q))
		q[i], q[j] = q[j], q[i]
		return q
	case 3:
		q[i] = []string{"[", "]", "{", "}", ",", ":", "1", `"s"`, "null"}[r.Intn(9)]
		return q
	}
	return append(q, []string{"]", "}", ",", "1", "[", `"x"`}[r.Intn(6)])
}

var soupAlphabet = []string{"[", "]", "{", "}", ",", ":", "1", "2.5", `"s"`, `"__pref"`, "null", "true"}
