package lib

import (
	"crypto/md5"
	"bytes"
	"encoding/json"
	"flag"
	"fmt"
	"os"
	"path/filepath"
	"sort"
	"strings"
)

// Config is the command line every property harness understands.
type Config struct {
	Tier   string
	Seed   uint64
	Out    string
	Replay string
}

func ParseFlags() *Config {
	c := &Config{}
	flag.StringVar(&c.Tier, "tier", "quick", "quick|thorough")
	flag.Uint64Var(&c.Seed, "seed", 1, "PRNG seed")
	flag.StringVar(&c.Out, "out", "", "output directory")
	flag.StringVar(&c.Replay, "replay", "", "replay file")
	flag.Parse()
	if c.Out == "" {
		fmt.Fprintln(os.Stderr, "missing -out")
		os.Exit(2)
	}
	_ = os.MkdirAll(c.Out, 0o755)
	return c
}

func (c *Config) Thorough() bool { return c.Tier == "thorough" }

// Violation is a concrete failing input found by the direct check on the implementation.
type Violation struct {
	// Clause of the property that failed (short identifier)
	Clause string `json:"clause"`
	// What failed, human readable
	What string `json:"what"`
	// Input needed to replay (property specific)
	Input interface{} `json:"input"`
	// Tags used by known-finding matchers (never by anything else)
	Tags []string `json:"tags,omitempty"`
}

// CorrFile is one generated cases file: compile it with coqc and look for `= []` per obligation.
type CorrFile struct {
	Path string `json:"path"`
	// Obligations: names of the definitions printed by the file (each must be the empty list)
	Obligations []string `json:"obligations"`
	// Number of cases in the file
	Cases int `json:"cases"`
	// For each case index, a JSON description of the input (for replay files)
	Inputs []interface{} `json:"inputs,omitempty"`
}

type Result struct {
	Property           string                 `json:"property"`
	Evaluations        int                    `json:"evaluations"`
	DistinctNontrivial int                    `json:"distinct_nontrivial"`
	Rule               string                 `json:"rule"`
	Samples            []interface{}          `json:"samples"`
	Distribution       map[string]int         `json:"distribution"`
	Violations         []Violation            `json:"violations"`
	CorrFiles          []CorrFile             `json:"corr_files"`
	Exhaustive         bool                   `json:"exhaustive"`
	Extra              map[string]interface{} `json:"extra,omitempty"`
	distinct           map[[16]byte]struct{} // digests of the canonical texts (the texts themselves would not fit in memory in the thorough tier)
}

func NewResult(prop string) *Result {
	return &Result{Property: prop, Distribution: map[string]int{}, distinct: map[[16]byte]struct{}{},
		Extra: map[string]interface{}{}}
}

func (r *Result) Count(key string) { r.Distribution[key]++ }

// Nontrivial records a distinct non-trivial case by its canonical text.
func (r *Result) Nontrivial(canon string) {
	k := md5.Sum([]byte(canon))
	if _, ok := r.distinct[k]; !ok {
		r.distinct[k] = struct{}{}
		r.DistinctNontrivial++
	}
}

func (r *Result) Sample(s interface{}) {
	if len(r.Samples) < 6 {
		r.Samples = append(r.Samples, s)
	}
}

// Violate records a counter-example. At most 3 per (clause, tags) group are kept (and 300 in all), so
// that one frequent defect does not hide the others; the total is counted in Distribution.
func (r *Result) Violate(v Violation) {
	key := "violations." + v.Clause + "." + strings.Join(v.Tags, ",")
	r.Distribution[key]++
	if r.Distribution[key] <= 3 && len(r.Violations) < 300 {
		r.Violations = append(r.Violations, v)
	}
}

func (r *Result) Write(c *Config) {
	f, err := os.Create(filepath.Join(c.Out, "result.json"))
	if err != nil {
		panic(err)
	}
	defer f.Close()
	e := json.NewEncoder(f)
	e.SetIndent("", " ")
	if err := e.Encode(r); err != nil {
		panic(err)
	}
}

// CasesFile accumulates a Coq file of the shape
//
//	From PcoreV Require Import <imports>.
//	Definition cases : list <typ> := [ ... ].
//	Definition M_<obl> := Eval vm_compute in <obl expression over cases>. Print M_<obl>.
type CasesFile struct {
	Imports []string
	Typ     string
	Cases   []string
	Inputs  []interface{}
	// name -> expression with `cases` free, evaluating to a list of failing indices
	Obligations map[string]string
	Prelude     string
}

func (cf *CasesFile) Add(term string, input interface{}) {
	cf.Cases = append(cf.Cases, term)
	cf.Inputs = append(cf.Inputs, input)
}

func (cf *CasesFile) WriteTo(dir, name string) CorrFile {
	var b strings.Builder
	b.WriteString("From Coq Require Import ZArith NArith List.\n")
	b.WriteString("From PcoreV Require Import " + strings.Join(cf.Imports, " ") + ".\n")
	b.WriteString("Import ListNotations.\nOpen Scope Z_scope.\n")
	b.WriteString(cf.Prelude)
	b.WriteString("Definition cases : list (" + cf.Typ + ") :=\n")
	if len(cf.Cases) == 0 {
		b.WriteString(" [].\n")
	} else {
		b.WriteString(" [ ")
		b.WriteString(strings.Join(cf.Cases, "\n ; "))
		b.WriteString("\n ].\n")
	}
	names := make([]string, 0, len(cf.Obligations))
	for n := range cf.Obligations {
		names = append(names, n)
	}
	sort.Strings(names)
	for _, n := range names {
		fmt.Fprintf(&b, "Definition M_%s := Eval vm_compute in (%s).\nPrint M_%s.\n", n, cf.Obligations[n], n)
	}
	path := filepath.Join(dir, name+".v")
	if err := os.WriteFile(path, []byte(b.String()), 0o644); err != nil {
		panic(err)
	}
	return CorrFile{Path: path, Obligations: names, Cases: len(cf.Cases), Inputs: cf.Inputs}
}

// ReplayInputs returns the inputs recorded in a replay file: `input` is either one input object
// (failing-input replays) or a list of them (correspondence replays).
func ReplayInputs(path string) []interface{} {
	b, err := os.ReadFile(path)
	if err != nil {
		panic(err)
	}
	// numbers are kept as written (json.Number): an int64 bound such as 9223372036854775807 does not survive float64
	d := json.NewDecoder(bytes.NewReader(b))
	d.UseNumber()
	var body map[string]interface{}
	if err := d.Decode(&body); err != nil {
		panic(err)
	}
	switch in := body["input"].(type) {
	case []interface{}:
		return in
	case nil:
		return nil
	default:
		return []interface{}{in}
	}
}

// Remarshal converts a generic JSON value into a typed one.
func Remarshal(in interface{}, out interface{}) {
	b, err := json.Marshal(in)
	if err != nil {
		panic(err)
	}
	if err := json.Unmarshal(b, out); err != nil {
		panic(err)
	}
}
