package lib

import (
	"fmt"
	"math/big"
	"strings"
)

// Gallina term printers. Strings are `list N` of bytes, integers are Z in parentheses.

func GStr(s string) string {
	if len(s) == 0 {
		return "(@nil N)"
	}
	var b strings.Builder
	b.WriteString("[")
	for i := 0; i < len(s); i++ {
		if i > 0 {
			b.WriteString(";")
		}
		fmt.Fprintf(&b, "%d", s[i])
	}
	b.WriteString("]%N")
	return b.String()
}

func GZ(z int64) string { return fmt.Sprintf("(%d)%%Z", z) }

func GBig(z *big.Int) string { return fmt.Sprintf("(%s)%%Z", z.String()) }

func GNat(n int) string { return fmt.Sprintf("%d%%nat", n) }

func GN(n uint64) string { return fmt.Sprintf("%d%%N", n) }

func GBool(b bool) string {
	if b {
		return "true"
	}
	return "false"
}

func GList(elems []string, typ string) string {
	if len(elems) == 0 {
		return "(@nil (" + typ + "))"
	}
	return "[" + strings.Join(elems, "; ") + "]"
}

func GOpt(present bool, v string, typ string) string {
	if !present {
		return "(@None (" + typ + "))"
	}
	return "(Some " + v + ")"
}

func GPair(a, b string) string { return "(" + a + ", " + b + ")" }
