package lib

// Rng is splitmix64: every random choice of every harness derives from one state seeded by
// VERIF_SEED, so that a disagreement replays exactly.
type Rng struct{ s uint64 }

// NewRng hashes the seed into the state: with the plain state seed*gamma the stream of seed k+1 would be
// the stream of seed k shifted by one draw.
func NewRng(seed uint64) *Rng {
	z := seed*0xD1342543DE82EF95 + 0x1234567
	z = (z ^ (z >> 32)) * 0xDABA0B6EB09322E3
	z = (z ^ (z >> 29)) * 0x94D049BB133111EB
	return &Rng{s: z ^ (z >> 32)}
}

func (r *Rng) Next() uint64 {
	r.s += 0x9E3779B97F4A7C15
	z := r.s
	z = (z ^ (z >> 30)) * 0xBF58476D1CE4E5B9
	z = (z ^ (z >> 27)) * 0x94D049BB133111EB
	return z ^ (z >> 31)
}

// Intn returns a value in [0,n)
func (r *Rng) Intn(n int) int {
	if n <= 0 {
		return 0
	}
	return int(r.Next() % uint64(n))
}

func (r *Rng) Bool() bool { return r.Next()&1 == 1 }

// Chance returns true with probability num/den
func (r *Rng) Chance(num, den int) bool { return r.Intn(den) < num }

// Fork derives an independent generator (used per case, so that cases replay individually)
func (r *Rng) Fork() *Rng { return &Rng{s: r.Next()} }
