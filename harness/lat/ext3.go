package lat

// Third extension of the pools (additions only, deterministic, no iteration over Go maps). Everything here is outside the
// Rocq lattice model or at its rim and is covered by the direct checks of C01 / C03:
//
//   - Float types with an infinite bound (no type expression spells them: types.NewFloatType, and the inferred / detailed /
//     generic types of values that hold +Inf / -Inf / NaN), next to Numeric / Float / Scalar / ScalarData / Data in every
//     member position, with the values that hold the non-finite floats;
//   - declared families (parser + px.AddTypes): a tree of Object types that covers every chain of depth <= 3 whose levels
//     declare nothing / attributes / functions / both (empty marker bases, function-only middle types, interface
//     hierarchies), unrelated structural twins of every chain, instances through the constructors;
//   - systems of mutually recursive aliases in twin pairs (same shape, the leaf differs or is wider or equal), queried
//     through aliases that offer an alternative next to a member of the system, against types over the twin system with
//     and without one alias written out.

import (
	"fmt"
	"hash/fnv"
	"math"
	"strconv"
	"strings"

	"github.com/lyraproj/pcore/px"
	"github.com/lyraproj/pcore/types"
	"verifharness/lib"
)

// ---- new recipe kinds ----
//
//	{K:"FloatB", Strs:[lo, hi]}            types.NewFloatType with bounds given as strconv texts ("+Inf", "-Inf", "1.5")
//	{K:"ValType", S:how, V:value}          how = ptype | detailed | generic: the type the library infers for the value
//	{K:"Decl", S:expr, Strs:[decl...]}     the declarations (`type @T = ...`, @ = a prefix that is fresh per Build) are parsed and
//	                                       added to the context together, then expr is parsed in that context
//	{K:"DeclOnce", S:expr, Strs:[decl...]} the same with a prefix derived from the declarations, declared once per process:
//	                                       nominal types (Object types) are the same objects in every Build
//
// value kind {K:"New", T:type recipe, Sub:args}: px.New(c, type, args...)

func fbText(f float64) string { return strconv.FormatFloat(f, 'g', -1, 64) }

// FltB is the recipe of a Float type whose bounds may be infinite.
func FltB(lo, hi float64) *Spec { return &Spec{K: "FloatB", Strs: []string{fbText(lo), fbText(hi)}} }

func ValType(how string, v *VSpec) *Spec { return &Spec{K: "ValType", S: how, V: v} }

func Decl(expr string, decls ...string) *Spec { return &Spec{K: "Decl", S: expr, Strs: decls} }

func DeclOnce(expr string, decls ...string) *Spec { return &Spec{K: "DeclOnce", S: expr, Strs: decls} }

func VNew(t *Spec, args ...*VSpec) *VSpec { return &VSpec{K: "New", T: t, Sub: args} }

var declaredOnce = map[string]bool{}
var onceTypes = map[string]px.Type{}

func declare(prefix string, decls []string) {
	ts := make([]px.Type, len(decls))
	for i, d := range decls {
		ts[i] = types.Parse(strings.Replace(d, "@", prefix, -1)).(px.Type)
	}
	px.AddTypes(px.CurrentContext(), ts...)
}

func oncePrefix(decls []string) string {
	h := fnv.New32a()
	_, _ = h.Write([]byte(strings.Join(decls, "\n")))
	return fmt.Sprintf("Zo%05x", h.Sum32()&0xfffff)
}

func buildExt3(s *Spec) px.Type {
	switch s.K {
	case "FloatB":
		lo, e1 := strconv.ParseFloat(s.Strs[0], 64)
		hi, e2 := strconv.ParseFloat(s.Strs[1], 64)
		if e1 != nil || e2 != nil {
			panic("lat: bad FloatB bounds")
		}
		return types.NewFloatType(lo, hi)
	case "ValType":
		v := s.V.Build()
		switch s.S {
		case "detailed":
			return px.DetailedValueType(v)
		case "generic":
			return px.GenericValueType(v)
		}
		return v.PType()
	case "Decl":
		aliasSeq++
		prefix := fmt.Sprintf("Q%d", aliasSeq)
		declare(prefix, s.Strs)
		return px.CurrentContext().ParseType(strings.Replace(s.S, "@", prefix, -1))
	case "DeclOnce":
		prefix := oncePrefix(s.Strs)
		if !declaredOnce[prefix] {
			declaredOnce[prefix] = true
			declare(prefix, s.Strs)
		}
		key := prefix + "|" + s.S
		if t, ok := onceTypes[key]; ok {
			return t
		}
		t := px.CurrentContext().ParseType(strings.Replace(s.S, "@", prefix, -1))
		onceTypes[key] = t
		return t
	}
	// recipe kinds added by ext5.go (declarations in a context of their own)
	return buildExt5(s)
}

func buildExtVal(v *VSpec) px.Value {
	if v.K == "New" {
		args := make([]px.Value, len(v.Sub))
		for i, a := range v.Sub {
			args[i] = a.Build()
		}
		return px.New(px.CurrentContext(), v.T.Build(), args...)
	}
	return nil
}

// ---- non-finite floats ----

func vInf(sign int) *VSpec {
	if sign < 0 {
		return &VSpec{K: "Float", F: "-Inf"}
	}
	return &VSpec{K: "Float", F: "+Inf"}
}

// NonFiniteValues: values that hold +Inf / -Inf / NaN at the top and inside collections.
func NonFiniteValues() []*VSpec {
	pi, ni, nan := vInf(1), vInf(-1), &VSpec{K: "Float", F: "NaN"}
	return []*VSpec{pi, ni, nan, VA(pi), VA(ni), VA(nan), VA(pi, VF(1.5)), VA(ni, pi), VA(VI(1), pi), VA(pi, VI(1)), VA(pi, VS("a")), VA(VS("a"), pi), VA(VA(pi)),
		VA(pi, pi), VA(ni, VS("a")), VA(VU(), pi), VA(pi, VU(), VS("a")), VA(VU(), ni, VI(1)),
		VH(VS("a"), pi), VH(VS("a"), ni), VH(VS("a"), pi, VS("b"), VI(1)), VH(VS("a"), VI(1), VS("b"), pi), VH(pi, VI(1)), VH(VS("a"), VA(pi)),
		VH(VS("a"), VH(VS("b"), ni)), VH(VS("a"), nan),
		&VSpec{K: "Sensitive", Sub: []*VSpec{pi}}, &VSpec{K: "Sensitive", Sub: []*VSpec{VA(ni)}},
		// NaN next to other floats (either order), to integers, strings, undef, itself; nested; the edges of the finite floats
		// and the negative zero next to the non-finite ones
		VA(nan, VF(1.5)), VA(VF(1.5), nan), VA(nan, pi), VA(pi, nan), VA(nan, ni, pi), VA(nan, VI(1)), VA(VS("a"), nan), VA(nan, nan), VA(VU(), nan),
		VA(VA(nan)), VA(VA(nan), VA(VF(1.5))), VH(VS("a"), nan, VS("b"), VF(1.5)), VH(VS("a"), VF(1.5), VS("b"), nan), VH(VS("a"), VA(nan)), VH(VI(1), nan),
		&VSpec{K: "Sensitive", Sub: []*VSpec{nan}},
		VA(VF(math.Copysign(0, -1)), nan), VA(VF(math.Copysign(0, -1)), VF(0)), VA(VF(math.MaxFloat64), pi), VA(pi, VF(math.MaxFloat64)), VA(VF(-math.MaxFloat64), ni),
		VA(VF(math.MaxFloat64), VF(-math.MaxFloat64)), VA(VF(math.MaxFloat64), nan)}
}

// FloatFamilies: Float types with an infinite bound through the constructor and as the types the library infers for
// values; the numeric tops and the point / half-line Float types in every member position.
func FloatFamilies() []*Spec {
	inf := math.Inf(1)
	bs := []float64{-inf, -math.MaxFloat64, -2.5, 0, 1.5, math.MaxFloat64, inf}
	var out []*Spec
	for i, lo := range bs {
		for j := i; j < len(bs); j++ {
			hi := bs[j]
			if math.IsInf(lo, 0) || math.IsInf(hi, 0) || (i == j && math.Abs(lo) == math.MaxFloat64) {
				out = append(out, FltB(lo, hi))
			}
		}
	}
	for _, v := range NonFiniteValues() {
		out = append(out, ValType("ptype", v), ValType("detailed", v), ValType("generic", v))
	}
	I := Int(Min, Max)
	heads := []*Spec{FltB(inf, inf), FltB(-inf, -inf), FltB(0, inf), FltB(-inf, 1.5), FltB(-inf, inf), A("Numeric"), A("FloatDefault"), A("Scalar"), A("ScalarData"),
		Var(I, A("FloatDefault")), Var(A("String"), A("Numeric"))}
	for _, h := range heads {
		for _, f := range memberContexts() {
			out = append(out, f(h))
		}
		out = append(out, W("NotUndef", h), W("Sensitive", h), W("Type", h), Var(h, A("String")), Arr(Arr(h, 0, Max), 0, Max), Hsh(h, I, 0, Max))
	}
	return out
}

// ---- Object types ----

const objKinds = "EAFB" // per level: nothing / an attribute / a function / both

func objFuncType(level int) string {
	return []string{"Callable[[Integer], String]", "Callable[[String], String]", "Callable[[Integer, Integer], Boolean]"}[level]
}

func objBody(parent string, attrs, funcs []int, extra string) string {
	var parts []string
	if parent != "" {
		parts = append(parts, "parent => "+parent)
	}
	var as []string
	if extra != "" {
		as = append(as, extra)
	}
	for _, l := range attrs {
		as = append(as, fmt.Sprintf("a%d => Integer", l))
	}
	if len(as) > 0 {
		parts = append(parts, "attributes => {"+strings.Join(as, ", ")+"}")
	}
	var fs []string
	for _, l := range funcs {
		fs = append(fs, fmt.Sprintf("f%d => %s", l, objFuncType(l)))
	}
	if len(fs) > 0 {
		parts = append(parts, "functions => {"+strings.Join(fs, ", ")+"}")
	}
	return "Object[{" + strings.Join(parts, ", ") + "}]"
}

func objPaths() []string {
	var out []string
	var walk func(p string)
	walk = func(p string) {
		if p != "" {
			out = append(out, p)
		}
		if len(p) == 3 {
			return
		}
		for _, k := range objKinds {
			walk(p + string(k))
		}
	}
	walk("")
	return out
}

// masks of the levels of a path that declare an attribute / a function
func objMasks(path string) (am, fm int) {
	for i, k := range path {
		if k == 'A' || k == 'B' {
			am |= 1 << uint(i)
		}
		if k == 'F' || k == 'B' {
			fm |= 1 << uint(i)
		}
	}
	return
}

func levels(mask int) []int {
	var out []int
	for l := 0; l < 3; l++ {
		if mask&(1<<uint(l)) != 0 {
			out = append(out, l)
		}
	}
	return out
}

// objDecls: the one family of Object types. @N<path>: the node of the tree reached by the path (a letter of objKinds per
// level); @X<fm>: an unrelated type with an attribute of its own and the functions of the levels in fm; @Y<am><fm>: an
// unrelated parentless type with exactly the attributes and functions a chain with those masks ends up with.
func objDecls() []string {
	var ds []string
	for _, p := range objPaths() {
		parent := ""
		if len(p) > 1 {
			parent = "@N" + p[:len(p)-1]
		}
		l := len(p) - 1
		var as, fs []int
		switch p[l] {
		case 'A':
			as = []int{l}
		case 'F':
			fs = []int{l}
		case 'B':
			as, fs = []int{l}, []int{l}
		}
		ds = append(ds, "type @N"+p+" = "+objBody(parent, as, fs, ""))
	}
	for fm := 1; fm < 8; fm++ {
		ds = append(ds, fmt.Sprintf("type @X%d = %s", fm, objBody("", nil, levels(fm), "z => String")))
		for am := 0; am < 8; am++ {
			ds = append(ds, fmt.Sprintf("type @Y%d%d = %s", am, fm, objBody("", levels(am), levels(fm), "")))
		}
	}
	return ds
}

var objDeclsCache []string

// Obj is the recipe of the Object type with the given name in the family (N<path>, X<fm>, Y<am><fm>).
func Obj(name string) *Spec {
	if objDeclsCache == nil {
		objDeclsCache = objDecls()
	}
	return &Spec{K: "DeclOnce", S: "@" + name, Strs: objDeclsCache}
}

// objInstance: an instance of the named Object type through its constructor (one argument per attribute), nil when the
// expression is not a plain member of the family.
func objInstance(t *Spec, alt int) *VSpec {
	if t.K != "DeclOnce" || len(t.S) < 3 || t.S[0] != '@' {
		return nil
	}
	name := t.S[1:]
	ints := func(n int) []*VSpec {
		as := make([]*VSpec, n)
		for i := range as {
			as[i] = VI(int64(i + 1 + alt%2))
		}
		return as
	}
	switch name[0] {
	case 'N':
		am, _ := objMasks(name[1:])
		return VNew(t, ints(len(levels(am)))...)
	case 'X':
		return VNew(t, VS([]string{"s", "t"}[alt%2]))
	case 'Y':
		return VNew(t, ints(len(levels(int(name[1]-'0'))))...)
	}
	return nil
}

// ObjectNames: every member of the family (quick: the nodes of depth <= 2 and a third of the deeper nodes and of the
// Y twins, chosen by pick; pick == nil: all).
func ObjectNames(pick func(n int) bool) []string {
	var out []string
	n := 0
	for _, p := range objPaths() {
		n++
		if len(p) <= 2 || pick == nil || pick(n) {
			out = append(out, "N"+p)
		}
	}
	for fm := 1; fm < 8; fm++ {
		out = append(out, fmt.Sprintf("X%d", fm))
		for am := 0; am < 8; am++ {
			n++
			if pick == nil || pick(n) || am == 0 {
				out = append(out, fmt.Sprintf("Y%d%d", am, fm))
			}
		}
	}
	return out
}

// ObjectFamilies: the Object types, and a part of them below Array / Optional / Variant / Struct / Tuple / Type.
func ObjectFamilies(pick func(n int) bool) []*Spec {
	var out []*Spec
	names := ObjectNames(pick)
	for _, nm := range names {
		out = append(out, Obj(nm))
	}
	n := 0
	for _, nm := range names {
		short := nm[0] == 'N' && len(nm) <= 3
		n++
		if !short && !(pick == nil || pick(n+1)) {
			continue
		}
		o := Obj(nm)
		out = append(out, Arr(o, 0, 5), W("Optional", o), Var(o, A("Binary")))
		if short {
			out = append(out, Struct(Member{"a", 1, o}), Tup(o, A("String")), W("Type", o), W("NotUndef", o), Hsh(A("String"), o, 0, Max))
		}
	}
	out = append(out, &Spec{K: "DeclOnce", S: "Object", Strs: objDeclsCache}, Var(Obj("NEF"), Obj("NAF")), Var(Obj("NEFF"), Obj("X3")), Arr(Var(Obj("NE"), Obj("NA")), 0, Max))
	return out
}

// ---- systems of mutually recursive aliases ----

type aliasShape struct {
	bodies []string // %0 %1 %2: the aliases of the system, %L: the leaf
}

func aliasShapes() []aliasShape {
	return []aliasShape{
		{[]string{"Tuple[%1, %L]", "Tuple[%0]"}},
		{[]string{"Tuple[%L, %1]", "Tuple[%0]"}},
		{[]string{"Variant[Tuple[%1, %L], Undef]", "Tuple[%0]"}},
		// (a Struct member whose type is a direct reference to an alias that is still unresolved cannot be constructed:
		// NewStructElement asks the member type whether it accepts Undef and escapes with "Reference to unresolved type";
		// the references below a Struct are therefore wrapped in an Array)
		{[]string{"Struct[{n => Array[%1], v => %L}]", "Array[%0]"}},
		{[]string{"Tuple[Hash[String, %1], %L]", "Hash[String, %0]"}},
		{[]string{"Tuple[Array[%1], %L]", "Array[%0]"}},
		{[]string{"Tuple[%1, %L]", "Struct[{m => Array[%0]}]"}},
		{[]string{"Hash[String, %1]", "Variant[%L, %0]"}},
		{[]string{"Variant[%L, Array[%1]]", "Variant[Undef, Tuple[%0, %0]]"}},
		{[]string{"Tuple[%1, %L]", "Tuple[%2]", "Tuple[%0]"}},
	}
}

func aliasLeafPairs() [][2]string {
	return [][2]string{{"Integer", "String"}, {"Scalar", "Integer"}, {"Integer", "Integer"}}
}

func fillBody(body string, names []string, leaf string) string {
	for i, n := range names {
		body = strings.Replace(body, fmt.Sprintf("%%%d", i), "@"+n, -1)
	}
	return strings.Replace(body, "%L", leaf, -1)
}

// AliasSystem: the recipes around one twin pair of systems: the system T, U(, V) with the first leaf and O, P(, R) with
// the second. Left-hand forms: aliases `F[Variant[X, Any], Y]` / `F[Variant[Any, X], Y]` over all X, Y of the first system
// (the alternative makes the query go on after X has been compared and rejected) and the plain types; right-hand
// forms: `F[X', Y']` and `F[X', <Y' written out>]` over all X', Y' of the second; F = a Tuple / a Struct (references wrapped in Arrays).
func AliasSystem(sh aliasShape, leaves [2]string) []*Spec {
	ln, rn := []string{"T", "U", "V"}[:len(sh.bodies)], []string{"O", "P", "R"}[:len(sh.bodies)]
	var decls []string
	for i, b := range sh.bodies {
		decls = append(decls, "type @"+ln[i]+" = "+fillBody(b, ln, leaves[0]))
	}
	for i, b := range sh.bodies {
		decls = append(decls, "type @"+rn[i]+" = "+fillBody(b, rn, leaves[1]))
	}
	forms := []string{"Tuple[%a, %b]", "Struct[{a => Array[%a], b => Array[%b]}]"}
	if len(sh.bodies) > 2 {
		forms = forms[:1]
	}
	form := func(f, a, b string) string { return strings.Replace(strings.Replace(f, "%a", a, -1), "%b", b, -1) }
	var out []*Spec
	for _, n := range append(append([]string{}, ln...), rn...) {
		out = append(out, Decl("@"+n, decls...))
	}
	for fi, f := range forms {
		for _, x := range ln {
			for _, y := range ln {
				for _, first := range []string{"Variant[@" + x + ", Any]", "Variant[Any, @" + x + "]"} {
					ds := append(append([]string{}, decls...), "type @A = "+form(f, first, "@"+y))
					out = append(out, Decl("@A", ds...))
				}
				if fi == 0 {
					out = append(out, Decl(form(f, "Variant[@"+x+", Any]", "@"+y), decls...))
				}
			}
		}
		for _, x := range rn {
			for yi, y := range rn {
				out = append(out, Decl(form(f, "@"+x, "@"+y), decls...), Decl(form(f, "@"+x, fillBody(sh.bodies[yi], rn, leaves[1])), decls...))
			}
		}
	}
	return out
}

// AliasSystems: every shape with the leaf pair that makes the systems reject each other; the accepting and the equal
// leaf pair for every shape (all) or for two shapes chosen by the seed (quick).
func AliasSystems(r *lib.Rng, all bool) []*Spec {
	var out []*Spec
	shs, lps := aliasShapes(), aliasLeafPairs()
	for _, sh := range shs {
		out = append(out, AliasSystem(sh, lps[0])...)
	}
	for _, lp := range lps[1:] {
		if all {
			for _, sh := range shs {
				out = append(out, AliasSystem(sh, lp)...)
			}
			continue
		}
		i := r.Intn(len(shs))
		out = append(out, AliasSystem(shs[i], lp)...)
		out = append(out, AliasSystem(shs[(i+1+r.Intn(len(shs)-1))%len(shs)], lp)...)
	}
	return out
}

// ---- two Object types with one name ----

const twinObjPrefix = "Object[{name => 'ZwA', attributes => {a => "

// TwinObj: an Object type named ZwA that is not declared under that name (the expression carries the name), with an
// attribute of the given type; shared = one object for every Build (so that several occurrences inside one type are the
// same object), else a separate object per occurrence.
func TwinObj(attrType string, shared bool) *Spec {
	expr := twinObjPrefix + attrType + "}}]"
	if shared {
		return &Spec{K: "DeclOnce", S: expr}
	}
	return &Spec{K: "Decl", S: expr}
}

func twinObjInstance(t *Spec, alt int) *VSpec {
	if (t.K != "DeclOnce" && t.K != "Decl") || !strings.HasPrefix(t.S, twinObjPrefix) {
		return nil
	}
	if strings.HasPrefix(t.S[len(twinObjPrefix):], "Integer") {
		return VNew(t, VI(int64(1+alt%2)))
	}
	return VNew(t, VS([]string{"s", "t"}[alt%2]))
}

// SameNameObjectFamilies: equal and different definitions of one Object type name, alone, in Tuple / Array / Struct / Variant
// positions and in two-position Variants below a user alias (the members of the Variant then share the alias' guard).
func SameNameObjectFamilies() []*Spec {
	I, S := Int(Min, Max), A("String")
	var out []*Spec
	for _, o := range []*Spec{TwinObj("Integer", true), TwinObj("String", true), TwinObj("Integer", false), TwinObj("String", false)} {
		out = append(out, o, Tup(o, S), Tup(o, I), Arr(o, 0, 5), Tup(o, o), Struct(Member{"a", 0, o}, Member{"b", 0, I}), Struct(Member{"a", 0, o}, Member{"b", 0, S}),
			Var(Tup(o, S), Tup(o, I)), UAlias(Var(Tup(o, S), Tup(o, I))), UAlias(Var(Tup(o, I), Tup(o, S))), UAlias(Var(Arr(o, 0, 5), Tup(o, I))),
			UAlias(Var(Struct(Member{"a", 0, o}, Member{"b", 0, S}), Struct(Member{"a", 0, o}, Member{"b", 0, I}))), UAlias(Tup(o, o)), W("Optional", o), UAlias(Var(o, I)))
	}
	return out
}

// ---- recursive aliases that mention themselves below Type[..] ----

// MetaAliasFamilies: `type M = Variant[Type[M], Integer]` and relatives: the alias, its body written out, and types around
// them (a type value is an instance of M exactly when Type[M] or the other members say so).
func MetaAliasFamilies() []*Spec {
	var out []*Spec
	for _, body := range []string{"Variant[Type[@M], Integer]", "Variant[Integer, Type[@M]]", "Variant[Type[@M], Type[Integer]]", "Tuple[Type[@M], 0, 1]",
		"Variant[Array[Type[@M]], String]", "Optional[Type[@M]]", "Struct[{Optional[t] => Type[@M]}]"} {
		d := "type @M = " + body
		out = append(out, Decl("@M", d), Decl(body, d), Decl("Type[@M]", d), Decl("Array[@M]", d), Decl("Variant[@M, String]", d), Decl("Type["+body+"]", d))
	}
	return out
}

// ---- the third wave as a whole ----

// Ext3Types: Float types with infinite bounds, Object types, alias systems.
func Ext3Types(r *lib.Rng, all bool) []*Spec {
	var pick func(n int) bool
	if !all {
		off := r.Intn(3)
		pick = func(n int) bool { return n%3 == off }
	}
	out := FloatFamilies()
	out = append(out, ObjectFamilies(pick)...)
	out = append(out, SameNameObjectFamilies()...)
	out = append(out, MetaAliasFamilies()...)
	out = append(out, AliasSystems(r, all)...)
	return out
}

// Ext3Values: the non-finite floats, instances of the Object types of the given recipes (alone and inside collections),
// finite values of the alias systems that have any, and the values Inhab proposes for the recipes.
func Ext3Values(ts []*Spec) []*VSpec {
	out := NonFiniteValues()
	for _, t := range ts {
		if v := twinObjInstance(t, 0); v != nil {
			out = append(out, v, twinObjInstance(t, 1), VA(v, VI(1)), VA(v, VS("a")), VA(v), VA(v, v), VH(VS("a"), v, VS("b"), VI(1)), VH(VS("a"), v, VS("b"), VS("x")))
		}
	}
	// types as values: what the aliases that mention themselves below Type[..] are asked about
	for _, t := range []*Spec{A("String"), Int(Min, Max), Int(0, 5), W("Type", A("String")), W("Type", Int(Min, Max)), Arr(A("String"), 0, Max), A("Any"), W("Type", A("Any")),
		Var(Int(Min, Max), A("String")), W("Optional", Int(Min, Max))} {
		out = append(out, VT(t), VA(VT(t)), VH(VS("t"), VT(t)))
	}
	for _, t := range ts {
		for alt := 0; alt < 2; alt++ {
			if v := objInstance(t, alt); v != nil {
				out = append(out, v)
				if alt == 0 {
					out = append(out, VA(v), VH(VS("a"), v), VA(v, VS("a")))
				}
			}
		}
	}
	for _, l := range []*VSpec{VI(1), VS("x")} {
		t0 := VA(VA(VU()), l)
		h0 := VH(VS("n"), VA(), VS("v"), l)
		out = append(out, t0, VA(VA(t0), l), VA(VU()), VA(VA(VU())), VH(VS("a"), l), VH(VS("a"), VH(VS("b"), l)), VA(l), VA(VA(l)), VA(VA(VU(), VU())), h0,
			VH(VS("n"), VA(h0), VS("v"), l), VA(h0), VA(t0, VA(t0)), VA(VU(), VA(VU())), VA(l, VA(VU(), VU())), VA(VH(VS("a"), l), l),
			VH(VS("a"), t0, VS("b"), VA(t0)), VH(VS("a"), VU(), VS("b"), VA(VU())), VA(VA(VU()), VA(VU())), VA(VH(VS("a"), l), VH(VS("a"), l)))
	}
	for _, t := range ts {
		if t.K == "Decl" || t.K == "DeclOnce" || t.K == "ValType" {
			continue
		}
		for alt := 0; alt < 3; alt++ {
			if v := Inhab(t, alt); v != nil {
				out = append(out, v)
			}
		}
	}
	return out
}

// inhab3: values of the recipe kinds of this file (used by Inhab).
func inhab3(t *Spec, alt int) *VSpec {
	switch t.K {
	case "FloatB":
		s := t.Strs[alt%2]
		if alt%4 >= 2 && s != t.Strs[(alt+1)%2] && !strings.Contains(s, "Inf") {
			return &VSpec{K: "Float", F: t.Strs[(alt+1)%2]}
		}
		return &VSpec{K: "Float", F: s}
	case "ValType":
		return t.V
	case "DeclOnce":
		return objInstance(t, alt)
	}
	return inhab5(t, alt)
}
