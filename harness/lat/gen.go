package lat

import (
	"fmt"
	"math"
	"strconv"

	"github.com/lyraproj/pcore/px"
	"github.com/lyraproj/pcore/types"
	"verifharness/lib"
)

// Spec is a JSON-serialisable recipe for building a type through the Go constructors (so that a
// case replays exactly, independently of the printer/parser which are other properties' business).
type Spec struct {
	K       string   `json:"k"`
	Lo      int64    `json:"lo,omitempty"`
	Hi      int64    `json:"hi,omitempty"`
	FLo     float64  `json:"flo,omitempty"`
	FHi     float64  `json:"fhi,omitempty"`
	Bool    int      `json:"bool,omitempty"` // Boolean: -1 any, 0 false, 1 true
	S       string   `json:"s,omitempty"`
	Strs    []string `json:"strs,omitempty"`
	CI      bool     `json:"ci,omitempty"`
	Sub     []*Spec  `json:"sub,omitempty"`
	Names   []string `json:"names,omitempty"`
	KeyKind []int    `json:"key_kind,omitempty"` // Struct member key: 0 plain name, 1 Optional[name], 2 String[name] type given explicitly
	HasSize bool     `json:"has_size,omitempty"`
	V       *VSpec   `json:"v,omitempty"` // ext3.go: the value whose inferred / detailed / generic type the recipe "ValType" denotes
}

const Max = math.MaxInt64
const Min = math.MinInt64

func size(lo, hi int64) *types.IntegerType { return types.NewIntegerType(lo, hi) }

// Build constructs the type (fresh objects every call, except the library's own singletons).
func (s *Spec) Build() px.Type {
	sub := func(i int) px.Type { return s.Sub[i].Build() }
	switch s.K {
	case "Any":
		return types.DefaultAnyType()
	case "Unit":
		return types.DefaultUnitType()
	case "Undef":
		return types.DefaultUndefType()
	case "Default":
		return types.DefaultDefaultType()
	case "Boolean":
		if s.Bool < 0 {
			return types.DefaultBooleanType()
		}
		return types.NewBooleanType(s.Bool == 1)
	case "Integer":
		return types.NewIntegerType(s.Lo, s.Hi)
	case "Float":
		return types.NewFloatType(s.FLo, s.FHi)
	case "FloatDefault":
		return types.DefaultFloatType()
	case "Numeric":
		return types.DefaultNumericType()
	case "Scalar":
		return types.DefaultScalarType()
	case "ScalarData":
		return types.DefaultScalarDataType()
	case "String":
		return types.DefaultStringType()
	case "StringSz":
		return types.NewStringType(size(s.Lo, s.Hi), "")
	case "StringVal":
		return types.WrapString(s.S).PType()
	case "Enum":
		return types.NewEnumType(append([]string{}, s.Strs...), s.CI)
	case "Pattern":
		rx := make([]*types.RegexpType, len(s.Strs))
		for i, p := range s.Strs {
			rx[i] = types.NewRegexpType(p)
		}
		return types.NewPatternType(rx)
	case "Regexp":
		return types.NewRegexpType(s.S)
	case "Binary":
		return types.DefaultBinaryType()
	case "Collection":
		return types.NewCollectionType(size(s.Lo, s.Hi))
	case "Array":
		return types.NewArrayType(sub(0), size(s.Lo, s.Hi))
	case "Hash":
		return types.NewHashType(sub(0), sub(1), size(s.Lo, s.Hi))
	case "Tuple":
		ts := make([]px.Type, len(s.Sub))
		for i := range s.Sub {
			ts[i] = sub(i)
		}
		if s.HasSize {
			return types.NewTupleType(ts, size(s.Lo, s.Hi))
		}
		return types.NewTupleType(ts, nil)
	case "Struct":
		es := make([]*types.StructElement, len(s.Sub))
		for i := range s.Sub {
			var key px.Value = types.WrapString(s.Names[i])
			switch s.KeyKind[i] {
			case 1:
				key = types.NewOptionalType(types.WrapString(s.Names[i]).PType())
			case 2:
				key = types.WrapString(s.Names[i]).PType()
			}
			es[i] = types.NewStructElement(key, sub(i))
		}
		return types.NewStructType(es)
	case "Variant":
		ts := make([]px.Type, len(s.Sub))
		for i := range s.Sub {
			ts[i] = sub(i)
		}
		return types.NewVariantType(ts...)
	case "Optional":
		return types.NewOptionalType(sub(0))
	case "NotUndef":
		return types.NewNotUndefType(sub(0))
	case "Type":
		return types.NewTypeType(sub(0))
	case "Sensitive":
		return types.NewSensitiveType(sub(0))
	case "Iterable":
		return types.NewIterableType(sub(0))
	case "Data":
		return types.DefaultDataType()
	case "RichData":
		return types.DefaultRichDataType()
	case "Timespan":
		return types.DefaultTimespanType()
	case "Timestamp":
		return types.DefaultTimestampType()
	case "SemVer":
		return types.DefaultSemVerType()
	case "Callable":
		return types.DefaultCallableType()
	}
	if t := buildExt(s); t != nil {
		// recipe kinds added by ext.go (user aliases)
		return t
	}
	panic("lat.Spec.Build: unknown kind " + s.K)
}

func (s *Spec) String() string {
	b, _ := jsonMarshal(s)
	return string(b)
}

// VSpec is the recipe of a value.
type VSpec struct {
	K   string   `json:"k"`
	I   int64    `json:"i,omitempty"`
	F   string   `json:"f,omitempty"` // float as strconv 'g' -1 text (exact), or "NaN", "+Inf", "-Inf"
	B   bool     `json:"b,omitempty"`
	S   string   `json:"s,omitempty"`
	Sub []*VSpec `json:"sub,omitempty"`
	T   *Spec    `json:"t,omitempty"`
}

func (v *VSpec) Build() px.Value {
	switch v.K {
	case "Undef":
		return types.WrapUndef()
	case "Default":
		return types.WrapDefault()
	case "Bool":
		return types.WrapBoolean(v.B)
	case "Int":
		return types.WrapInteger(v.I)
	case "Float":
		f, err := strconv.ParseFloat(v.F, 64)
		if err != nil {
			panic(err)
		}
		return types.WrapFloat(f)
	case "Str":
		return types.WrapString(v.S)
	case "Regexp":
		return types.WrapRegexp(v.S)
	case "Binary":
		return types.WrapBinary([]byte(v.S))
	case "Arr":
		es := make([]px.Value, len(v.Sub))
		for i, e := range v.Sub {
			es[i] = e.Build()
		}
		return types.WrapValues(es)
	case "Hash":
		es := make([]*types.HashEntry, 0, len(v.Sub)/2)
		for i := 0; i+1 < len(v.Sub); i += 2 {
			es = append(es, types.WrapHashEntry(v.Sub[i].Build(), v.Sub[i+1].Build()))
		}
		return types.WrapHash(es)
	case "Type":
		return v.T.Build()
	case "Sensitive":
		return types.WrapSensitive(v.Sub[0].Build())
	case "Timespan":
		return types.WrapTimespan(1000)
	}
	if x := buildExtVal(v); x != nil {
		// value kinds added by ext3.go (instances of Object types)
		return x
	}
	panic("lat.VSpec.Build: unknown kind " + v.K)
}

func (v *VSpec) String() string {
	b, _ := jsonMarshal(v)
	return string(b)
}

// ---- constructors of recipes ----

func A(k string) *Spec                 { return &Spec{K: k, Bool: -1} }
func Int(lo, hi int64) *Spec           { return &Spec{K: "Integer", Lo: lo, Hi: hi} }
func Flt(lo, hi float64) *Spec         { return &Spec{K: "Float", FLo: lo, FHi: hi} }
func Bln(b int) *Spec                  { return &Spec{K: "Boolean", Bool: b} }
func StrSz(lo, hi int64) *Spec         { return &Spec{K: "StringSz", Lo: lo, Hi: hi} }
func StrVal(s string) *Spec            { return &Spec{K: "StringVal", S: s} }
func Enum(ci bool, vs ...string) *Spec { return &Spec{K: "Enum", CI: ci, Strs: vs} }
func Pat(ps ...string) *Spec           { return &Spec{K: "Pattern", Strs: ps} }
func Rx(p string) *Spec                { return &Spec{K: "Regexp", S: p} }
func Coll(lo, hi int64) *Spec          { return &Spec{K: "Collection", Lo: lo, Hi: hi} }
func Arr(e *Spec, lo, hi int64) *Spec  { return &Spec{K: "Array", Sub: []*Spec{e}, Lo: lo, Hi: hi} }
func Hsh(k, v *Spec, lo, hi int64) *Spec {
	return &Spec{K: "Hash", Sub: []*Spec{k, v}, Lo: lo, Hi: hi}
}
func Tup(ts ...*Spec) *Spec { return &Spec{K: "Tuple", Sub: ts} }
func TupSz(lo, hi int64, ts ...*Spec) *Spec {
	return &Spec{K: "Tuple", Sub: ts, HasSize: true, Lo: lo, Hi: hi}
}
func Var(ts ...*Spec) *Spec   { return &Spec{K: "Variant", Sub: ts} }
func W(k string, t *Spec) *Spec { return &Spec{K: k, Sub: []*Spec{t}} }

type Member struct {
	Name string
	Kind int
	T    *Spec
}

func Struct(ms ...Member) *Spec {
	s := &Spec{K: "Struct"}
	for _, m := range ms {
		s.Names = append(s.Names, m.Name)
		s.KeyKind = append(s.KeyKind, m.Kind)
		s.Sub = append(s.Sub, m.T)
	}
	return s
}

func VI(i int64) *VSpec       { return &VSpec{K: "Int", I: i} }
func VS(s string) *VSpec      { return &VSpec{K: "Str", S: s} }
func VB(b bool) *VSpec        { return &VSpec{K: "Bool", B: b} }
func VU() *VSpec              { return &VSpec{K: "Undef"} }
func VA(vs ...*VSpec) *VSpec  { return &VSpec{K: "Arr", Sub: vs} }
func VH(kvs ...*VSpec) *VSpec { return &VSpec{K: "Hash", Sub: kvs} }
func VT(t *Spec) *VSpec       { return &VSpec{K: "Type", T: t} }
func VF(f float64) *VSpec {
	return &VSpec{K: "Float", F: strconv.FormatFloat(f, 'g', -1, 64)}
}

// ---- pools ----

var sizes = [][2]int64{{0, Max}, {0, 0}, {1, 1}, {0, 1}, {1, 2}, {2, 5}, {1, Max}, {3, 3}}

// Atoms: every scalar kind, ranges at the interesting boundaries.
func Atoms() []*Spec {
	as := []*Spec{A("Any"), A("Undef"), A("Default"), Bln(-1), Bln(0), Bln(1),
		Int(Min, Max), Int(0, 5), Int(1, 1), Int(2, 5), Int(-3, 3), Int(0, Max), Int(Min, 0), Int(5, 5), Int(0, 0), Int(3, 7), Int(1, 2),
		A("FloatDefault"), Flt(0, 5.5), Flt(1, 1), Flt(-2.5, 2.5), Flt(2.5, 5.5),
		A("Numeric"), A("Scalar"), A("ScalarData"),
		A("String"), StrSz(0, 0), StrSz(1, 1), StrSz(0, 1), StrSz(1, 2), StrSz(2, 5), StrSz(1, Max), StrSz(3, 3),
		StrVal("a"), StrVal("ab"), StrVal("é"), StrVal("abc"), StrVal("A"), StrVal("b"),
		Enum(false), Enum(false, "a", "b"), Enum(false, "a"), Enum(true, "a", "b"), Enum(true, "A"), Enum(false, "A", "b"),
		Enum(false, "é"), Enum(false, "ab", "abc"), Enum(false, "a", "b", "c"),
		Pat(), Pat("a"), Pat("^a+$", "b"), Pat(".*"), Pat("^a+$"), Pat("b", "^a+$"),
		Rx(""), Rx("a"), Rx("b"),
		A("Binary"),
		Coll(0, Max), Coll(0, 0), Coll(1, 2), Coll(2, 5), Coll(1, 1), Coll(0, 1)}
	return as
}

// small sub-pool used as element types of the depth-1 constructors
func elemAtoms() []*Spec {
	return []*Spec{A("Any"), A("Undef"), Int(Min, Max), Int(0, 5), Int(1, 1), A("String"), StrSz(1, 2), StrVal("a"),
		Enum(false, "a", "b"), A("Numeric"), A("Scalar"), Bln(-1), A("FloatDefault"), Pat("^a+$")}
}

// Depth1 applies every constructor to the element atoms (bounded-exhaustive over the listed choices).
func Depth1(elems []*Spec) []*Spec {
	var out []*Spec
	for _, e := range elems {
		for _, sz := range sizes {
			out = append(out, Arr(e, sz[0], sz[1]))
		}
		for _, w := range []string{"Optional", "NotUndef", "Type", "Sensitive", "Iterable"} {
			out = append(out, W(w, e))
		}
	}
	keys := []*Spec{A("String"), StrVal("a"), Int(Min, Max), A("Scalar"), Enum(false, "a", "b"), A("Any")}
	vals := []*Spec{A("Any"), Int(Min, Max), Int(0, 5), A("String"), A("Undef"), W("Optional", Int(Min, Max))}
	for _, k := range keys {
		for _, v := range vals {
			for _, sz := range [][2]int64{{0, Max}, {1, 1}, {0, 2}, {2, 5}} {
				out = append(out, Hsh(k, v, sz[0], sz[1]))
			}
		}
	}
	// tuples: with and without explicit size, with fewer/more slots than the size
	ta := []*Spec{Int(Min, Max), A("String"), Int(0, 5), A("Any"), StrVal("a")}
	out = append(out, Tup(), TupSz(0, 0), TupSz(0, Max), TupSz(1, 3), TupSz(2, 2))
	for _, a := range ta {
		out = append(out, Tup(a), TupSz(0, 1, a), TupSz(1, 5, a), TupSz(1, Max, a), TupSz(2, 3, a), TupSz(0, 0, a))
		for _, b := range ta {
			out = append(out, Tup(a, b), TupSz(1, 2, a, b), TupSz(2, 5, a, b), TupSz(0, 3, a, b), TupSz(3, 3, a, b))
		}
	}
	out = append(out, Tup(Int(Min, Max), A("String"), Int(0, 5)), TupSz(2, 4, Int(Min, Max), A("String"), Int(0, 5)),
		TupSz(1, 2, Int(Min, Max), A("String"), Int(0, 5)))
	// structs: required / optional / NotUndef-valued / undef-accepting members
	opt := W("Optional", Int(Min, Max))
	out = append(out, Struct(),
		Struct(Member{"a", 0, Int(Min, Max)}),
		Struct(Member{"a", 0, Int(0, 5)}),
		Struct(Member{"a", 0, A("String")}),
		Struct(Member{"a", 1, Int(Min, Max)}),
		Struct(Member{"a", 0, opt}),
		Struct(Member{"a", 2, opt}),
		Struct(Member{"a", 0, A("Any")}),
		Struct(Member{"a", 2, A("Any")}),
		Struct(Member{"a", 0, W("NotUndef", A("Any"))}),
		Struct(Member{"b", 0, Int(Min, Max)}),
		Struct(Member{"a", 0, Int(Min, Max)}, Member{"b", 0, A("String")}),
		Struct(Member{"a", 0, Int(Min, Max)}, Member{"b", 1, A("String")}),
		Struct(Member{"a", 1, Int(Min, Max)}, Member{"b", 1, A("String")}),
		Struct(Member{"b", 0, A("String")}, Member{"a", 0, Int(Min, Max)}),
		Struct(Member{"a", 0, Int(0, 5)}, Member{"b", 0, opt}),
		Struct(Member{"a", 0, Int(Min, Max)}, Member{"b", 0, A("String")}, Member{"c", 1, A("Any")}),
		Struct(Member{"a", 0, Arr(Int(Min, Max), 0, Max)}),
		Struct(Member{"a", 0, Struct(Member{"b", 0, Int(Min, Max)})}),
	)
	// variants
	va := []*Spec{Int(Min, Max), A("String"), A("Undef"), Int(0, 5), StrVal("a"), Enum(false, "a", "b"), A("FloatDefault"), Bln(-1), Arr(Int(Min, Max), 0, Max)}
	out = append(out, Var())
	for i, a := range va {
		for j, b := range va {
			if i != j {
				out = append(out, Var(a, b))
			}
		}
	}
	out = append(out, Var(Int(Min, Max), A("String"), A("Undef")), Var(Int(0, 5), Int(3, 7)), Var(Int(0, 2), Int(3, 7)),
		Var(StrVal("a"), StrVal("b")), Var(Var(Int(Min, Max), A("String")), A("Undef")), Var(Int(Min, Max), Int(Min, Max)))
	// aliases and types outside the model fragment (direct checks only)
	out = append(out, A("Data"), A("RichData"), A("Timespan"), A("Timestamp"), A("SemVer"), A("Callable"), A("Unit"))
	return out
}

// RandomType draws a type of the given depth.
func RandomType(r *lib.Rng, depth int) *Spec {
	atoms := Atoms()
	if depth <= 0 || r.Chance(1, 4) {
		return atoms[r.Intn(len(atoms))]
	}
	sz := sizes[r.Intn(len(sizes))]
	sub := func() *Spec { return RandomType(r, depth-1) }
	switch r.Intn(12) {
	case 0, 1:
		return Arr(sub(), sz[0], sz[1])
	case 2:
		return Hsh(sub(), sub(), sz[0], sz[1])
	case 3, 4:
		n := r.Intn(4)
		ts := make([]*Spec, n)
		for i := range ts {
			ts[i] = sub()
		}
		if r.Bool() {
			return Tup(ts...)
		}
		lo := int64(r.Intn(3))
		return TupSz(lo, lo+int64(r.Intn(4)), ts...)
	case 5, 6:
		n := r.Intn(3) + 1
		ms := make([]Member, n)
		for i := range ms {
			ms[i] = Member{string(rune('a' + i)), r.Intn(3), sub()}
			if r.Chance(1, 4) {
				ms[i].Name = string(rune('a' + r.Intn(3) + i))
			}
		}
		// names must be distinct
		seen := map[string]bool{}
		var ok []Member
		for _, m := range ms {
			if !seen[m.Name] {
				seen[m.Name] = true
				ok = append(ok, m)
			}
		}
		return Struct(ok...)
	case 7, 8:
		n := r.Intn(3) + 2
		ts := make([]*Spec, n)
		for i := range ts {
			ts[i] = sub()
		}
		return Var(ts...)
	case 9:
		return W("Optional", sub())
	case 10:
		return W("NotUndef", sub())
	default:
		return W([]string{"Type", "Sensitive", "Iterable"}[r.Intn(3)], sub())
	}
}

// GlobalValues: generic values of every kind.
func GlobalValues() []*VSpec {
	vs := []*VSpec{VU(), {K: "Default"}, VB(true), VB(false)}
	for _, i := range []int64{-4, -3, -1, 0, 1, 2, 3, 5, 6, 7, 8, Min, Max} {
		vs = append(vs, VI(i))
	}
	for _, f := range []float64{0, math.Copysign(0, -1), 1, 2.5, 5.5, -2.5, 6, -3, math.MaxFloat64, -math.MaxFloat64, math.SmallestNonzeroFloat64} {
		vs = append(vs, VF(f))
	}
	vs = append(vs, &VSpec{K: "Float", F: "NaN"}, &VSpec{K: "Float", F: "+Inf"}, &VSpec{K: "Float", F: "-Inf"})
	for _, s := range []string{"", "a", "b", "c", "ab", "abc", "A", "B", "é", "éé", "ééé", "aaaaaa", "aa", "a\n", "É", "xay", "€"} {
		vs = append(vs, VS(s))
	}
	vs = append(vs, &VSpec{K: "Regexp", S: "a"}, &VSpec{K: "Regexp", S: "b"}, &VSpec{K: "Regexp", S: ""},
		&VSpec{K: "Binary", S: "ab"}, &VSpec{K: "Binary", S: ""}, &VSpec{K: "Timespan"})
	vs = append(vs, VA(), VA(VI(1)), VA(VI(1), VI(2)), VA(VS("a")), VA(VI(1), VS("a")), VA(VS("a"), VI(1)), VA(VU()),
		VA(VI(1), VI(2), VI(3)), VA(VI(1), VI(2), VI(3), VI(4), VI(5), VI(6)), VA(VA(VI(1))), VA(VF(1)), VA(VI(6)), VA(VI(1), VI(6)),
		VA(VS("a"), VS("b")), VA(VI(1), VS("a"), VI(2)), VA(VI(1), VU()), VA(VI(1), VS("a"), VI(9)), VA(VS("a"), VS("a"), VS("a")))
	vs = append(vs, VH(), VH(VS("a"), VI(1)), VH(VS("a"), VI(1), VS("b"), VI(2)), VH(VI(1), VS("a")), VH(VS("a"), VU()),
		VH(VS("b"), VI(1)), VH(VS("a"), VS("x")), VH(VS("a"), VI(1), VS("c"), VI(2)), VH(VA(VI(1)), VI(1)), VH(VS("a"), VI(9)),
		VH(VS("a"), VI(1), VS("b"), VS("x")), VH(VS("b"), VS("x")), VH(VS("a"), VI(1), VS("b"), VS("x"), VS("c"), VI(3)),
		VH(VS("a"), VA(VI(1))), VH(VS("a"), VH(VS("b"), VI(1))), VH(VS("b"), VS("x"), VS("a"), VI(1)), VH(VS(""), VI(1)),
		VH(VS("a"), VI(1), VS("b"), VU()), VH(VS("x"), VI(1), VS("y"), VI(2), VS("z"), VI(3)))
	vs = append(vs, &VSpec{K: "Sensitive", Sub: []*VSpec{VI(1)}}, &VSpec{K: "Sensitive", Sub: []*VSpec{VS("a")}},
		&VSpec{K: "Sensitive", Sub: []*VSpec{VU()}})
	return vs
}

// Witnesses: values built to sit at and just outside the boundaries of a type.
func Witnesses(t *Spec, depth int) []*VSpec {
	if depth < 0 {
		return nil
	}
	var out []*VSpec
	add := func(v ...*VSpec) { out = append(out, v...) }
	strOfLen := func(n int64) *VSpec {
		if n < 0 || n > 12 {
			return nil
		}
		s := ""
		for i := int64(0); i < n; i++ {
			s += "a"
		}
		return VS(s)
	}
	first := func(vs []*VSpec) *VSpec {
		if len(vs) == 0 {
			return VU()
		}
		return vs[0]
	}
	switch t.K {
	case "Integer":
		add(VI(t.Lo), VI(t.Hi))
		if t.Lo > Min {
			add(VI(t.Lo - 1))
		}
		if t.Hi < Max {
			add(VI(t.Hi + 1))
		}
	case "Float":
		add(VF(t.FLo), VF(t.FHi), VF(t.FLo-0.5), VF(t.FHi+0.5))
	case "StringSz":
		for _, n := range []int64{t.Lo, t.Hi, t.Lo - 1, t.Hi + 1} {
			if v := strOfLen(n); v != nil {
				add(v)
			}
		}
		if t.Lo >= 1 && t.Lo <= 4 {
			s := ""
			for i := int64(0); i < t.Lo; i++ {
				s += "é"
			}
			add(VS(s))
		}
	case "StringVal":
		add(VS(t.S), VS(t.S+"x"))
	case "Enum":
		for _, s := range t.Strs {
			add(VS(s), VS(upper(s)), VS(s+"x"))
		}
	case "Array":
		ws := Witnesses(t.Sub[0], depth-1)
		w := first(ws)
		for _, n := range []int64{t.Lo, t.Hi, t.Lo - 1, t.Hi + 1} {
			if n >= 0 && n <= 7 {
				es := make([]*VSpec, n)
				for i := range es {
					es[i] = w
				}
				add(VA(es...))
			}
		}
		if len(ws) > 1 && t.Lo <= 2 && t.Hi >= 2 {
			add(VA(ws[0], ws[1]), VA(ws[1], ws[0]))
		}
		if len(ws) > 2 && t.Lo <= 1 && t.Hi >= 1 {
			add(VA(ws[2]))
		}
	case "Hash":
		ks := Witnesses(t.Sub[0], depth-1)
		vs := Witnesses(t.Sub[1], depth-1)
		if len(ks) == 0 {
			ks = []*VSpec{VS("a"), VS("b"), VI(1)}
		}
		if len(vs) == 0 {
			vs = []*VSpec{VI(1)}
		}
		for _, n := range []int64{t.Lo, t.Hi, t.Lo - 1, t.Hi + 1} {
			if n >= 0 && n <= 3 {
				var kv []*VSpec
				for i := int64(0); i < n; i++ {
					k := ks[int(i)%len(ks)]
					if int(i) >= len(ks) {
						k = VS(fmt.Sprintf("k%d", i))
					}
					kv = append(kv, k, vs[int(i)%len(vs)])
				}
				add(VH(kv...))
			}
		}
	case "Tuple":
		per := make([][]*VSpec, len(t.Sub))
		for i, s := range t.Sub {
			per[i] = Witnesses(s, depth-1)
		}
		slot := func(i int, alt int) *VSpec {
			if len(per) == 0 {
				return VI(1)
			}
			if i >= len(per) {
				i = len(per) - 1
			}
			if len(per[i]) == 0 {
				return VU()
			}
			return per[i][alt%len(per[i])]
		}
		lens := map[int64]bool{int64(len(t.Sub)): true, int64(len(t.Sub)) - 1: true, int64(len(t.Sub)) + 1: true}
		if t.HasSize {
			lens[t.Lo], lens[t.Hi], lens[t.Lo-1], lens[t.Hi+1] = true, true, true, true
		}
		// in increasing order: the order of the pool must not depend on Go's map iteration order (a run replays exactly)
		for n := int64(0); n <= 7; n++ {
			if lens[n] {
				es := make([]*VSpec, n)
				for i := range es {
					es[i] = slot(i, 0)
				}
				add(VA(es...))
				if n > 0 {
					es2 := append([]*VSpec{}, es...)
					es2[n-1] = slot(int(n-1), 1)
					add(VA(es2...))
				}
			}
		}
	case "Struct":
		per := make([][]*VSpec, len(t.Sub))
		for i, s := range t.Sub {
			per[i] = Witnesses(s, depth-1)
			if len(per[i]) == 0 {
				per[i] = []*VSpec{VI(1)}
			}
		}
		var all, req []*VSpec
		for i, n := range t.Names {
			all = append(all, VS(n), per[i][0])
			if t.KeyKind[i] != 1 {
				req = append(req, VS(n), per[i][0])
			}
		}
		add(VH(all...), VH(req...), VH(append(append([]*VSpec{}, all...), VS("zz"), VI(1))...))
		if len(t.Names) > 0 {
			add(VH(all[2:]...))
			bad := append([]*VSpec{}, all...)
			bad[1] = per[0][len(per[0])-1]
			add(VH(bad...))
			und := append([]*VSpec{}, all...)
			und[1] = VU()
			add(VH(und...))
		}
	case "Variant":
		for _, s := range t.Sub {
			add(Witnesses(s, depth-1)...)
		}
	case "Optional":
		add(VU())
		add(Witnesses(t.Sub[0], depth-1)...)
	case "NotUndef":
		add(VU())
		add(Witnesses(t.Sub[0], depth-1)...)
	case "Sensitive":
		for _, w := range Witnesses(t.Sub[0], depth-1) {
			add(&VSpec{K: "Sensitive", Sub: []*VSpec{w}})
		}
	case "Type":
		add(VT(t.Sub[0]), VT(W("Optional", t.Sub[0])), VT(Var(t.Sub[0], A("String"))))
		for _, w := range Witnesses(t.Sub[0], depth-1) {
			_ = w
		}
	case "Collection":
		for _, n := range []int64{t.Lo, t.Hi, t.Lo - 1, t.Hi + 1} {
			if n >= 0 && n <= 7 {
				es := make([]*VSpec, n)
				for i := range es {
					es[i] = VI(int64(i))
				}
				add(VA(es...))
			}
		}
	}
	return out
}

func upper(s string) string {
	b := []byte(s)
	for i, c := range b {
		if c >= 'a' && c <= 'z' {
			b[i] = c - 32
		}
	}
	return string(b)
}
