package lat

// Fifth extension of the pools (additions only, deterministic, no iteration over Go maps); direct checks of C01 / C03,
// the Hash-key family is inside the Rocq lattice model except for its alias keys.
//
//   - two DISTINCT alias objects that carry one name and have different definitions: through the Go constructor
//     (types.NewTypeAliasType with a fixed name) and through declarations in a context of their own (a nested pcore.Do:
//     a new root context with a new loader, so the same name can be declared again; the type outlives the context the way
//     a type kept in a registry does). Alone and in every member position, also as the same object twice inside one type;
//     an alias named like a built-in one (Data); recursive definitions of one name; an alias of an alias where only the
//     inner definitions differ. A type answers for (A, B) by what they are, not by their names.
//   - Hash types whose KEY type is a wrapper around string types (Variant of Enums / Strings / Patterns, NotUndef, Optional,
//     an alias of a String type, nested wrappers) over the sizes and value types that let a Struct with required members
//     accept them, and the Struct types around them.

import (
	"strings"

	"github.com/lyraproj/pcore/pcore"
	"github.com/lyraproj/pcore/px"
	"verifharness/lib"
)

// ---- new recipe kind ----
//
//	{K:"CtxDecl", S:expr, Strs:[decl...], Sub:[shape]}   the declarations (`type N = ...`, literal names) are parsed and added
//	    in a root context of their own (nested pcore.Do: a new loader below the environment loader), then expr is parsed
//	    there; every Build makes a new context. shape: a recipe of the same type in terms of constructor aliases - used only
//	    to propose values, to look below the aliases (SpecContains) and to spell them out (Legend)

// NamedAlias: an alias through the Go constructor under the given name.
func NamedAlias(name string, body *Spec) *Spec { return &Spec{K: "Alias", S: name, Sub: []*Spec{body}} }

func specText(s *Spec) string {
	txt := ""
	Guarded(func() bool { txt = s.Build().String(); return true })
	return txt
}

// CtxDecl: the type the shape denotes, with every constructor alias inside it replaced by a declaration of that name in
// a context of its own (inner aliases are declared first; an alias prints as its name).
func CtxDecl(shape *Spec) *Spec {
	var decls []string
	seen := map[string]bool{}
	var walk func(s *Spec)
	walk = func(s *Spec) {
		for _, e := range s.Sub {
			walk(e)
		}
		if s.K == "Alias" && !seen[s.S] {
			seen[s.S] = true
			decls = append(decls, "type "+s.S+" = "+specText(s.Sub[0]))
		}
	}
	walk(shape)
	return &Spec{K: "CtxDecl", S: specText(shape), Strs: decls, Sub: []*Spec{shape}}
}

// CtxDeclText: the same with the texts given (recursive definitions); approx proposes the values.
func CtxDeclText(expr string, approx *Spec, decls ...string) *Spec {
	return &Spec{K: "CtxDecl", S: expr, Strs: decls, Sub: []*Spec{approx}}
}

func buildExt5(s *Spec) px.Type {
	if s.K != "CtxDecl" {
		return nil
	}
	var t px.Type
	pcore.Do(func(c px.Context) {
		declare("", s.Strs)
		t = c.ParseType(s.S)
	})
	return t
}

func inhab5(t *Spec, alt int) *VSpec {
	if t.K == "CtxDecl" && len(t.Sub) == 1 {
		return Inhab(t.Sub[0], alt)
	}
	return nil
}

// ---- one name, several definitions ----

type namedDefs struct {
	name   string
	bodies []*Spec
}

func sameNameDefs() []namedDefs {
	I, S := Int(Min, Max), A("String")
	return []namedDefs{
		{"ZzPort", []*Spec{Int(0, 65535), Var(S, I), S, I}},
		{"ZzItem", []*Spec{Arr(I, 0, Max), Arr(S, 0, Max), Struct(Member{"a", 0, I}), Struct(Member{"a", 0, S})}},
		{"ZzOpt", []*Spec{W("Optional", I), W("Optional", S), A("Undef")}},
		{"ZzE", []*Spec{Enum(false, "a", "b"), Enum(false, "a"), StrSz(1, 2)}},
		// an inner alias that differs below an outer alias that does not
		{"ZzOuter", []*Spec{NamedAlias("ZzPort", Int(0, 65535)), NamedAlias("ZzPort", Var(S, I)), Tup(NamedAlias("ZzPort", S)), Tup(NamedAlias("ZzPort", I))}},
	}
}

// positions in which two aliases face each other directly; the first `always` of them are in every run
func aliasPositions() (fs []func(x *Spec) *Spec, always int) {
	I, S := Int(Min, Max), A("String")
	return []func(x *Spec) *Spec{
		func(x *Spec) *Spec { return x },
		func(x *Spec) *Spec { return Arr(x, 0, Max) },
		func(x *Spec) *Spec { return Tup(x, x) },
		func(x *Spec) *Spec { return Struct(Member{"port", 0, x}) },
		func(x *Spec) *Spec { return Hsh(S, x, 0, Max) },
		func(x *Spec) *Spec { return Tup(x, S) },
		func(x *Spec) *Spec { return Struct(Member{"port", 1, x}, Member{"n", 0, I}) },
		func(x *Spec) *Spec { return Hsh(x, I, 0, Max) },
		func(x *Spec) *Spec { return W("Optional", x) },
		func(x *Spec) *Spec { return W("NotUndef", x) },
		func(x *Spec) *Spec { return Var(A("Undef"), x) },
		func(x *Spec) *Spec { return Var(x, A("Binary")) },
		func(x *Spec) *Spec { return W("Type", x) },
		func(x *Spec) *Spec { return W("Sensitive", x) },
		func(x *Spec) *Spec { return W("Iterable", x) },
		func(x *Spec) *Spec { return Arr(Arr(x, 0, Max), 1, 2) },
		func(x *Spec) *Spec { return TupSz(0, 3, I, x) },
	}, 5
}

// SameNameAliasFamilies: every definition of every name through both routes in the positions above (quick: the first five
// positions and three more chosen by the seed; all: every position). Context route: the whole expression parsed in the
// context (one alias object, also where it occurs twice), and the Go constructors around the context's alias.
func SameNameAliasFamilies(r *lib.Rng, all bool) []*Spec {
	fs, always := aliasPositions()
	use := make([]bool, len(fs))
	for i := range use {
		use[i] = all || i < always
	}
	if !all {
		for k := 0; k < 3; k++ {
			use[always+r.Intn(len(fs)-always)] = true
		}
	}
	var out []*Spec
	for _, nd := range sameNameDefs() {
		for _, body := range nd.bodies {
			al := NamedAlias(nd.name, body)
			ctxAl := CtxDecl(al)
			for i, f := range fs {
				if !use[i] {
					continue
				}
				out = append(out, f(al), CtxDecl(f(al)))
				if i > 0 && i < always {
					out = append(out, f(ctxAl))
				}
			}
		}
	}
	// a user alias that carries the name of a built-in one
	for _, body := range []*Spec{Rx(""), Var(A("ScalarData"), A("Undef")), A("RichData")} {
		al := NamedAlias("Data", body)
		out = append(out, al, Arr(al, 0, Max), Tup(al, A("String")), Hsh(A("String"), al, 0, Max), Struct(Member{"port", 0, al}), W("Optional", al))
	}
	out = append(out, NamedAlias("RichData", A("Data")), NamedAlias("RichData", Rx("")))
	// recursive definitions of one name (context route only: the constructor takes a resolved type)
	I, S := Int(Min, Max), A("String")
	recs := []struct {
		body   string
		approx *Spec
	}{
		{"Variant[Integer, Array[ZzRec]]", Var(I, Arr(I, 0, 2), Arr(Arr(I, 0, 1), 1, 1))},
		{"Variant[String, Array[ZzRec]]", Var(S, Arr(S, 0, 2), Arr(Arr(S, 0, 1), 1, 1))},
		{"Variant[Integer, Tuple[ZzRec]]", Var(I, Tup(I), Tup(Tup(I)))},
		{"Variant[Scalar, Array[ZzRec]]", Var(A("Scalar"), Arr(S, 0, 2), Arr(Arr(I, 0, 1), 1, 1))},
	}
	for _, rc := range recs {
		d := "type ZzRec = " + rc.body
		out = append(out, CtxDeclText("ZzRec", rc.approx, d), CtxDeclText("Array[ZzRec]", Arr(rc.approx, 0, Max), d), CtxDeclText("Tuple[ZzRec, ZzRec]", Tup(rc.approx, rc.approx), d),
			CtxDeclText("Struct[{port => Array[ZzRec]}]", Struct(Member{"port", 0, Arr(rc.approx, 0, Max)}), d), CtxDeclText(rc.body, rc.approx, d))
	}
	return out
}

// ---- Hash types whose key type is a wrapper around string types ----

func hashKeyWrappers() []*Spec {
	S := A("String")
	return []*Spec{
		Var(Enum(false, "a"), Enum(false, "b")),
		Var(StrSz(1, Max), Pat("x")),
		Var(S, StrSz(1, Max)),
		Var(StrVal("a"), StrVal("b")),
		Var(S),
		Var(),
		Var(Var(Enum(false, "a"), Enum(false, "b")), StrVal("c")),
		W("NotUndef", S),
		W("NotUndef", Enum(false, "a", "b")),
		W("NotUndef", Var(Enum(false, "a"), StrSz(1, 2))),
		W("Optional", S),
		UAlias(StrSz(1, 10)),
		UAlias(S),
		UAlias(Var(Enum(false, "a"), Enum(false, "b"))),
		W("NotUndef", UAlias(Enum(false, "a", "b"))),
		CtxDecl(NamedAlias("ZzKey", StrSz(1, 10))),
		// controls: wrappers that String does not accept
		Var(S, Int(Min, Max)),
		Var(Enum(false, "a"), A("Undef")),
	}
}

// HashKeyFamilies: Hash[<wrapper>, v, size] for every wrapper above, the plain string keys next to them, Struct types
// with required members (alone, with optional ones, nested), and both sides below Array / Optional / Variant; Hash types
// whose VALUE type is such a wrapper (Variant of Integer ranges, NotUndef, Optional, alias).
// quick: the sizes [1,1], [1,2] and unbounded and one more chosen by the seed; all: six sizes.
func HashKeyFamilies(r *lib.Rng, all bool) []*Spec {
	I, S := Int(Min, Max), A("String")
	szs := [][2]int64{{1, 1}, {1, 2}, {0, Max}, {0, 1}, {2, 2}, {1, Max}}
	if !all {
		szs = append(szs[:3:3], szs[3+r.Intn(3)])
	}
	vals := []*Spec{I, Int(0, 9), A("Any")}
	var out []*Spec
	keys := append(hashKeyWrappers(), S, Enum(false, "a", "b"), StrSz(1, 10), Pat("x"))
	for _, k := range keys {
		for _, v := range vals {
			for _, sz := range szs {
				out = append(out, Hsh(k, v, sz[0], sz[1]))
			}
		}
		h := Hsh(k, I, 1, 1)
		out = append(out, Arr(h, 0, Max), W("Optional", h), Var(h, A("Binary")))
	}
	// the VALUE type of the Hash as a wrapper too (the rule hands it to the dispatcher as well), over a few key types
	wvals := []*Spec{Var(Int(0, 5), Int(7, 9)), Var(I), Var(), W("NotUndef", I), W("NotUndef", Var(I, A("Undef"))), W("Optional", I), UAlias(Int(0, 9)),
		Var(Int(0, 5), S), W("NotUndef", A("Any"))}
	for _, k := range []*Spec{S, Enum(false, "a", "b"), Var(Enum(false, "a"), Enum(false, "b")), W("NotUndef", S)} {
		for _, v := range wvals {
			out = append(out, Hsh(k, v, 1, 1), Hsh(k, v, 1, 2))
		}
	}
	structs := []*Spec{
		Struct(Member{"a", 0, I}),
		Struct(Member{"a", 0, Int(0, 9)}),
		Struct(Member{"a", 0, A("Any")}),
		Struct(Member{"a", 0, W("NotUndef", A("Any"))}),
		Struct(Member{"a", 0, I}, Member{"b", 1, S}),
		Struct(Member{"a", 0, I}, Member{"b", 1, I}),
		Struct(Member{"a", 0, I}, Member{"b", 0, I}),
		Struct(Member{"a", 0, I}, Member{"b", 0, W("Optional", I)}),
		Struct(Member{"a", 1, I}),
		Struct(Member{"a", 1, I}, Member{"b", 1, I}),
		Struct(Member{"a", 2, I}),
	}
	for _, st := range structs {
		out = append(out, st, Arr(st, 0, Max), W("Optional", st), Var(st, A("Binary")), UAlias(st))
	}
	return out
}

// Ext5Types: the same-name alias families (C01 and C03).
func Ext5Types(r *lib.Rng, all bool) []*Spec { return SameNameAliasFamilies(r, all) }

// Ext5Values: what Inhab proposes for the recipes (the values that tell two definitions of one name apart are instances
// of one definition), alone and inside the collections the positions use.
func Ext5Values(ts []*Spec) []*VSpec {
	var out []*VSpec
	for _, t := range ts {
		for alt := 0; alt < 4; alt++ {
			if v := Inhab(t, alt); v != nil {
				out = append(out, v)
			}
		}
	}
	out = append(out, VI(65535), VI(65536), VI(70000), VA(VI(80), VS("http")), VA(VS("http")), VH(VS("port"), VS("http")), VH(VS("port"), VI(80)), VH(VS("port"), VI(70000)),
		VA(VA(VS("a"))), VA(VA(VI(1))), VA(VA(VA(VI(1)))), VA(VA(VS("a")), VA(VS("b"))), VH(VS("port"), VA(VS("a"))), VH(VS("port"), VA(VA(VI(1)))),
		VH(VS("port"), VI(1), VS("n"), VI(1)), VH(VS("port"), VS("a"), VS("n"), VI(1)), VH(VS("a"), VS("a")), VH(VI(1), VI(1)),
		VA(VH(VS("a"), VI(1))), VA(VH(VS("a"), VS("x"))), VH(VS("port"), VH(VS("a"), VS("x"))), VH(VS("port"), VH(VS("a"), VI(1))))
	return out
}

// IsCtxDecl: the recipe (or a part of it) is declared in a context of its own.
func IsCtxDecl(s *Spec) bool { return SpecContains(s, "CtxDecl") }

func legend5(s *Spec) string {
	if s.K == "CtxDecl" {
		return "in a context of its own: " + strings.Join(s.Strs, "; ")
	}
	return ""
}
