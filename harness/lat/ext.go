package lat

// Extensions of the pools (additions only; nothing in gen.go changes its behaviour): type recipes that are
// outside the Rocq lattice model and are covered by the direct checks of C01 / C03 — user aliases (through
// the Go constructor and, for recursive ones, through the parser + px.AddTypes), the recursive aliases
// Data / RichData inside Variant / Tuple / Array / Hash / Struct members, Iterable[Tuple[k, v]] against
// Struct types with optional keys, Enum types that repeat a value — plus a value generator (Inhab) that
// knows every recipe kind, and a random type generator that mixes all of it.
// Everything here is deterministic: no iteration over Go maps.

import (
	"encoding/json"
	"fmt"
	"hash/fnv"
	"os"
	"strings"

	"github.com/lyraproj/pcore/px"
	"github.com/lyraproj/pcore/types"
	"verifharness/lib"
)

// ---- new recipe kinds ----
//
//	{K:"Alias", S:name, Sub:[body]}       user alias through types.NewTypeAliasType(name, nil, body)
//	{K:"AliasRec", S:base, Strs:[text]}   recursive user alias: `type <base><n> = <text with %s for itself>` through
//	                                       types.Parse + px.AddTypes in the current context (a fresh name per Build, so
//	                                       that two builds give two separately defined aliases)

// UAlias is the recipe of a non-recursive user alias; the name is derived from the body so that equal bodies
// give equal names (alias equality compares names first).
func UAlias(body *Spec) *Spec {
	h := fnv.New32a()
	_, _ = h.Write([]byte(body.String()))
	return &Spec{K: "Alias", S: fmt.Sprintf("U%06x", h.Sum32()&0xffffff), Sub: []*Spec{body}}
}

// RecAlias is the recipe of a recursive user alias; text holds %s where the alias refers to itself.
func RecAlias(base, text string) *Spec { return &Spec{K: "AliasRec", S: base, Strs: []string{text}} }

var aliasSeq int

// buildExt builds the recipe kinds added by this file (nil: not one of them).
func buildExt(s *Spec) px.Type {
	switch s.K {
	case "Alias":
		return types.NewTypeAliasType(s.S, nil, s.Sub[0].Build())
	case "AliasRec":
		aliasSeq++
		name := fmt.Sprintf("%s%d", s.S, aliasSeq)
		text := "type " + name + " = " + strings.Replace(s.Strs[0], "%s", name, -1)
		t := types.Parse(text).(px.Type)
		px.AddTypes(px.CurrentContext(), t)
		return t
	}
	return buildExt3(s)
}

// RecAliases: the recursive user aliases of the pools.
func RecAliases() []*Spec {
	return []*Spec{
		RecAlias("Tree", "Variant[Tuple[%s,String],Tuple[%s,Integer],Boolean]"),
		RecAlias("List", "Variant[Undef,Tuple[Integer,%s]]"),
		RecAlias("Json", "Variant[ScalarData,Undef,Array[%s],Hash[String,%s]]"),
		RecAlias("Nest", "Hash[String,Variant[Integer,%s]]"),
		RecAlias("Chain", "Struct[{Optional[next]=>%s,v=>Integer}]"),
	}
}

// AliasAtoms: every alias the families below put into member positions.
func AliasAtoms() []*Spec {
	I, S := Int(Min, Max), A("String")
	as := []*Spec{A("Data"), A("RichData"),
		UAlias(Var(I, S)),
		UAlias(Var(Tup(A("Data"), S), Tup(A("Data"), I))),
		UAlias(Arr(A("Data"), 0, 1)),
		UAlias(Struct(Member{"a", 1, I}, Member{"b", 0, S})),
	}
	return append(as, RecAliases()...)
}

// non-members of Data / RichData used as leaves on the right-hand side
func foreignLeaves() []*Spec {
	return []*Spec{Rx(""), Rx("a"), A("Binary"), A("Callable"), A("Default"), W("Type", Int(Min, Max)), A("Timespan")}
}

// memberContexts: one-hole member positions of Variant / Tuple / Array / Hash / Struct / wrappers.
func memberContexts() []func(x *Spec) *Spec {
	I, S := Int(Min, Max), A("String")
	return []func(x *Spec) *Spec{
		func(x *Spec) *Spec { return Tup(x, S) },
		func(x *Spec) *Spec { return Tup(x, I) },
		func(x *Spec) *Spec { return Tup(x, A("Any"), S) },
		func(x *Spec) *Spec { return Tup(A("Any"), x, I) },
		func(x *Spec) *Spec { return Arr(x, 0, 5) },
		func(x *Spec) *Spec { return Arr(x, 0, 1) },
		func(x *Spec) *Spec { return Hsh(S, x, 0, Max) },
		func(x *Spec) *Spec { return Struct(Member{"a", 0, x}) },
		func(x *Spec) *Spec { return Struct(Member{"a", 1, x}, Member{"b", 1, I}) },
		func(x *Spec) *Spec { return W("Optional", x) },
		func(x *Spec) *Spec { return W("Iterable", x) },
	}
}

// AliasFamilies: every alias in every member position; Variants of two such positions over the same alias, in both
// orders (pick selects a subset of the ordered pairs: nil = all); the same positions over leaves that are not Data.
func AliasFamilies(pick func(n int) bool) []*Spec {
	var out []*Spec
	cx := memberContexts()
	n := 0
	for _, al := range AliasAtoms() {
		out = append(out, al)
		for _, f := range cx {
			out = append(out, f(al))
		}
		for i, f := range cx {
			for j, g := range cx {
				if i == j {
					continue
				}
				n++
				if pick == nil || pick(n) {
					out = append(out, Var(f(al), g(al)))
				}
				// the same Variant below a user alias (the members then share the alias' recursion guard)
				if pick == nil || pick(n+1) {
					out = append(out, UAlias(Var(f(al), g(al))))
				}
			}
		}
		out = append(out, Var(al, A("Binary")), Var(A("Binary"), al), Arr(Var(Tup(al, A("String")), Tup(al, Int(Min, Max))), 0, Max))
	}
	for _, lf := range foreignLeaves() {
		for _, f := range cx {
			out = append(out, f(lf))
		}
		out = append(out, Tup(lf, lf, Int(Min, Max)), Tup(lf, lf, A("String")), Arr(lf, 2, 2))
	}
	// aliases of aliases, aliases on both sides
	out = append(out, UAlias(A("Data")), UAlias(UAlias(Var(Int(Min, Max), A("String")))), W("Optional", A("Data")), W("NotUndef", A("Data")),
		W("Type", A("Data")), W("Sensitive", A("Data")), Var(A("ScalarData"), A("Undef"), Arr(A("Data"), 0, Max), Hsh(A("String"), A("Data"), 0, Max)))
	return out
}

// IterStructFamilies: Iterable[Tuple[k, v]] (and other Iterables over entry-like types) together with Struct and Hash
// types whose keys are required, explicitly optional (Optional[k]) or implicitly optional (value type accepts undef).
func IterStructFamilies() []*Spec {
	I, S := Int(Min, Max), A("String")
	var out []*Spec
	ks := []*Spec{S, StrVal("a"), Enum(false, "a", "b"), A("Any"), A("Scalar"), W("Optional", S), StrSz(1, 1)}
	vs := []*Spec{I, A("Any"), W("Optional", I), S, Int(0, 5), A("Undef")}
	for _, k := range ks {
		for _, v := range vs {
			out = append(out, W("Iterable", Tup(k, v)))
		}
	}
	out = append(out, W("Iterable", TupSz(2, 2, S, I)), W("Iterable", TupSz(1, 2, S, I)), W("Iterable", TupSz(2, 3, S, I)), W("Iterable", Tup(S)),
		W("Iterable", Tup(S, I, I)), W("Iterable", Arr(A("Scalar"), 2, 2)), W("Iterable", Arr(A("Any"), 0, Max)), W("Iterable", Var(Tup(S, I), Tup(S, S))),
		W("Iterable", W("Optional", Tup(S, I))), W("Iterable", A("Data")), W("Iterable", W("Iterable", Tup(S, I))),
		Arr(W("Iterable", Tup(S, I)), 0, Max), W("Optional", W("Iterable", Tup(S, I))))
	mv := []*Spec{I, S, W("Optional", I), A("Any"), A("Undef")}
	for kind := 0; kind <= 2; kind++ {
		for _, v := range mv {
			out = append(out, Struct(Member{"a", kind, v}))
			out = append(out, Struct(Member{"a", kind, v}, Member{"b", 0, I}))
			out = append(out, Struct(Member{"b", 0, S}, Member{"a", kind, v}))
		}
	}
	out = append(out, Struct(Member{"a", 1, I}, Member{"b", 1, I}), Struct(Member{"a", 1, I}, Member{"b", 1, S}), Struct(Member{"a", 0, S}, Member{"b", 0, I}),
		Struct(Member{"a", 0, I}, Member{"b", 0, I}), Struct(Member{"a", 1, S}, Member{"b", 0, I}), Struct(Member{"a", 0, W("Optional", I)}, Member{"b", 0, W("Optional", S)}),
		Struct(Member{"a", 1, I}, Member{"b", 0, I}, Member{"c", 1, S}), Struct(Member{"a", 0, I}, Member{"b", 0, I}, Member{"c", 0, I}))
	for _, sz := range [][2]int64{{0, Max}, {0, 1}, {1, 1}, {0, 2}, {1, 2}, {2, 2}} {
		out = append(out, Hsh(S, I, sz[0], sz[1]), Hsh(StrVal("a"), I, sz[0], sz[1]), Hsh(Enum(false, "a", "b"), A("Any"), sz[0], sz[1]), Hsh(S, W("Optional", I), sz[0], sz[1]))
	}
	return out
}

// EnumFamilies: Enum types that repeat a value, directly or through the case-insensitive flag, next to their
// repetition-free relatives of the same and of different length; also below other constructors.
func EnumFamilies() []*Spec {
	es := []*Spec{Enum(false, "b", "b"), Enum(false, "a", "a"), Enum(false, "a", "b", "a"), Enum(false, "a", "b", "b"), Enum(false, "b", "a"),
		Enum(false, "x", "y", "z"), Enum(false, "x", "y", "x"), Enum(false, "z", "y", "x"), Enum(false, "b"), Enum(false, "a", "a", "a"), Enum(false, "a", "c"),
		Enum(true, "A", "a"), Enum(true, "a", "A", "b"), Enum(true, "a", "B", "b"), Enum(true, "b", "a"), Enum(true, "a"), Enum(true, "a", "b", "c"), Enum(true, "B", "b"),
		Enum(false, "A", "a"), Enum(false, "", ""), Enum(false, "", "a")}
	out := append([]*Spec{}, es...)
	for _, e := range es[:8] {
		out = append(out, Arr(e, 0, Max), W("Optional", e), Hsh(e, Int(Min, Max), 0, Max), Tup(e), Var(e, Int(Min, Max)), Struct(Member{"a", 0, e}))
	}
	out = append(out, Pat("a", "a"), Pat("b", "a"), Pat("a", "b", "a"), Var(StrVal("a"), StrVal("a")), Var(StrVal("a"), StrVal("b"), StrVal("a")),
		Var(Int(0, 5), Int(0, 5), A("String")), Var(A("String"), Int(0, 5)))
	return out
}

// ---- random types over everything ----

func randomEnum(r *lib.Rng) *Spec {
	alpha := []string{"a", "b", "c", "A", "B", "ab"}
	n := r.Intn(4) + 1
	vs := make([]string, n)
	for i := range vs {
		vs[i] = alpha[r.Intn(len(alpha))] // with replacement: repetitions arise
	}
	return Enum(r.Chance(1, 3), vs...)
}

func randomAtomX(r *lib.Rng) *Spec {
	switch r.Intn(8) {
	case 0:
		as := AliasAtoms()
		return as[r.Intn(len(as))]
	case 1:
		return randomEnum(r)
	case 2:
		ls := foreignLeaves()
		return ls[r.Intn(len(ls))]
	case 3:
		lo := int64(r.Intn(7)) - 2
		return Int(lo, lo+int64(r.Intn(5)))
	}
	atoms := Atoms()
	return atoms[r.Intn(len(atoms))]
}

// RandomTypeX draws a type of the given depth over all recipe kinds (aliases in member positions, user aliases
// around arbitrary bodies, Iterable over entry tuples, Structs with all three key kinds, Enums with repetitions).
func RandomTypeX(r *lib.Rng, depth int) *Spec {
	if depth <= 0 || r.Chance(1, 4) {
		return randomAtomX(r)
	}
	sz := sizes[r.Intn(len(sizes))]
	sub := func() *Spec { return RandomTypeX(r, depth-1) }
	switch r.Intn(15) {
	case 0, 1:
		return Arr(sub(), sz[0], sz[1])
	case 2:
		return Hsh(sub(), sub(), sz[0], sz[1])
	case 3, 4:
		n := r.Intn(4)
		ts := make([]*Spec, n)
		for i := range ts {
			ts[i] = sub()
		}
		if r.Bool() {
			return Tup(ts...)
		}
		lo := int64(r.Intn(3))
		return TupSz(lo, lo+int64(r.Intn(4)), ts...)
	case 5, 6:
		n := r.Intn(3) + 1
		var ms []Member
		for i := 0; i < n; i++ {
			ms = append(ms, Member{string(rune('a' + i)), r.Intn(3), sub()})
		}
		return Struct(ms...)
	case 7, 8, 9:
		n := r.Intn(3) + 2
		ts := make([]*Spec, n)
		for i := range ts {
			ts[i] = sub()
		}
		if r.Chance(1, 3) {
			ts[n-1] = ts[0] // a repeated member
		}
		return Var(ts...)
	case 10:
		return W("Optional", sub())
	case 11:
		return W("NotUndef", sub())
	case 12:
		return W("Iterable", Tup(sub(), sub()))
	case 13:
		return UAlias(sub())
	default:
		return W([]string{"Type", "Sensitive", "Iterable"}[r.Intn(3)], sub())
	}
}

// ExtTypes: the families of this file + nRandom random types (depth 2-3). quick selects one ordered pair of member
// positions in three for the two-position Variants (chosen by the seed); the thorough tier takes them all.
func ExtTypes(r *lib.Rng, nRandom int, all bool) []*Spec {
	var pick func(n int) bool
	if !all {
		off := r.Intn(3)
		pick = func(n int) bool { return n%3 == off }
	}
	out := AliasFamilies(pick)
	out = append(out, IterStructFamilies()...)
	out = append(out, EnumFamilies()...)
	for i := 0; i < nRandom; i++ {
		out = append(out, RandomTypeX(r, 2+r.Intn(2)))
	}
	return out
}

// ---- values ----

func vrx(p string) *VSpec { return &VSpec{K: "Regexp", S: p} }

// Inhab proposes a value meant to be an instance of t (not guaranteed: the checks ask the implementation);
// alt selects among the alternatives (variant member, optional key present or absent, boundary).
func Inhab(t *Spec, alt int) *VSpec {
	if alt < 0 {
		alt = -alt
	}
	sub := func(i, a int) *VSpec {
		v := Inhab(t.Sub[i], a)
		if v == nil {
			return VU()
		}
		return v
	}
	switch t.K {
	case "Any":
		return []*VSpec{VI(1), VS("a"), vrx("x")}[alt%3]
	case "Undef":
		return VU()
	case "Default":
		return &VSpec{K: "Default"}
	case "Boolean":
		if t.Bool < 0 {
			return VB(alt%2 == 0)
		}
		return VB(t.Bool == 1)
	case "Integer":
		if alt%2 == 1 {
			return VI(t.Hi)
		}
		if t.Lo <= 1 && 1 <= t.Hi {
			return VI(1)
		}
		return VI(t.Lo)
	case "Float":
		return VF(t.FLo)
	case "FloatDefault":
		return VF(2.5)
	case "Numeric":
		return []*VSpec{VI(1), VF(2.5)}[alt%2]
	case "Scalar":
		return []*VSpec{VS("a"), VI(1), vrx("x"), VB(true)}[alt%4]
	case "ScalarData":
		return []*VSpec{VS("a"), VI(1), VB(true)}[alt%3]
	case "String":
		return []*VSpec{VS("a"), VS("b"), VS("")}[alt%3]
	case "StringSz":
		n := t.Lo
		if alt%2 == 1 && t.Hi < 8 {
			n = t.Hi
		}
		if n > 8 {
			return nil
		}
		return VS(strings.Repeat("a", int(n)))
	case "StringVal":
		return VS(t.S)
	case "Enum":
		if len(t.Strs) == 0 {
			return nil
		}
		s := t.Strs[alt%len(t.Strs)]
		if t.CI && alt%2 == 1 {
			s = upper(s)
		}
		return VS(s)
	case "Pattern":
		return []*VSpec{VS("a"), VS("aa"), VS("b")}[alt%3]
	case "Regexp":
		if t.S == "" {
			return []*VSpec{vrx("x"), vrx("y")}[alt%2]
		}
		return vrx(t.S)
	case "Binary":
		return &VSpec{K: "Binary", S: "ab"}
	case "Timespan":
		return &VSpec{K: "Timespan"}
	case "Collection", "Array":
		n := t.Lo
		if alt%2 == 1 && t.Hi <= 6 {
			n = t.Hi
		} else if n == 0 && t.Hi >= 2 {
			n = 2
		}
		if n > 6 {
			return nil
		}
		es := make([]*VSpec, n)
		for i := range es {
			if t.K == "Array" {
				es[i] = sub(0, alt+i)
			} else {
				es[i] = VI(int64(i))
			}
		}
		return VA(es...)
	case "Hash":
		n := t.Lo
		if n == 0 && t.Hi >= 1 && alt%2 == 0 {
			n = 1
		}
		if n > 3 {
			return nil
		}
		var kv []*VSpec
		for i := int64(0); i < n; i++ {
			kv = append(kv, sub(0, int(i)+alt/2), sub(1, alt))
		}
		return VH(kv...)
	case "Tuple":
		n := len(t.Sub)
		if t.HasSize {
			if alt%2 == 1 && t.Hi <= 6 {
				n = int(t.Hi)
			} else if int64(n) < t.Lo {
				n = int(t.Lo)
			} else if int64(n) > t.Hi {
				n = int(t.Hi)
			}
		}
		if n > 6 || (len(t.Sub) == 0 && n > 0) {
			return VA()
		}
		es := make([]*VSpec, n)
		for i := range es {
			k := i
			if k >= len(t.Sub) {
				k = len(t.Sub) - 1
			}
			es[i] = sub(k, alt+i)
		}
		return VA(es...)
	case "Struct":
		var kv []*VSpec
		for i, n := range t.Names {
			optional := t.KeyKind[i] == 1
			if optional && alt%2 == 1 {
				continue
			}
			kv = append(kv, VS(n), sub(i, alt/2))
		}
		return VH(kv...)
	case "Variant":
		if len(t.Sub) == 0 {
			return nil
		}
		return Inhab(t.Sub[alt%len(t.Sub)], alt/len(t.Sub))
	case "Optional":
		if alt%3 == 2 {
			return VU()
		}
		return sub(0, alt)
	case "NotUndef", "Alias":
		return Inhab(t.Sub[0], alt)
	case "Type":
		return VT(t.Sub[0])
	case "Sensitive":
		return &VSpec{K: "Sensitive", Sub: []*VSpec{sub(0, alt)}}
	case "Iterable":
		e := t.Sub[0]
		if e.K == "Tuple" && len(e.Sub) == 2 && alt%2 == 1 {
			return VH(sub2(e, 0, alt), sub2(e, 1, alt))
		}
		return VA(sub(0, alt), sub(0, alt+1))
	case "Data":
		return []*VSpec{VI(1), VS("a"), VA(VI(1), VS("a")), VH(VS("a"), VI(1)), VU()}[alt%5]
	case "RichData":
		return []*VSpec{VI(1), vrx("x"), VA(vrx("x"), VS("a")), VH(VS("a"), &VSpec{K: "Binary", S: "ab"}), &VSpec{K: "Default"}}[alt%5]
	case "AliasRec":
		vs := recAliasValues()
		return vs[alt%len(vs)]
	}
	return inhab3(t, alt)
}

func sub2(t *Spec, i, alt int) *VSpec {
	v := Inhab(t.Sub[i], alt)
	if v == nil {
		return VU()
	}
	return v
}

func recAliasValues() []*VSpec {
	return []*VSpec{VB(true), VA(VB(true), VS("a")), VA(VA(VB(false), VI(1)), VI(2)), VA(VI(1), VU()), VA(VI(1), VA(VI(2), VU())),
		VH(VS("a"), VI(1)), VH(VS("a"), VH(VS("b"), VI(1))), VH(VS("v"), VI(1)), VH(VS("v"), VI(1), VS("next"), VH(VS("v"), VI(2))),
		VA(VI(1), VA(VS("a"), VH(VS("k"), VU())))}
}

// ExtValues: values for the given recipes (several alternatives each), the values the recursive aliases need, and
// collections that hold things that are not Data — separate objects for separate occurrences.
func ExtValues(ts []*Spec) []*VSpec {
	out := append([]*VSpec{}, recAliasValues()...)
	out = append(out, VA(vrx("x"), VI(1)), VA(vrx("x"), VS("a")), VA(vrx("x"), vrx("y"), VI(1)), VA(vrx("x"), vrx("y"), VS("a")), VA(vrx("x")),
		VA(vrx("x"), vrx("y")), VH(VS("a"), vrx("x")), VH(VS("a"), vrx("x"), VS("b"), VI(1)), VA(VA(vrx("x"), VI(1))), VA(VA(vrx("x"), VS("a"))),
		VA(&VSpec{K: "Binary", S: "ab"}, VI(1)), VA(&VSpec{K: "Default"}, &VSpec{K: "Default"}, VI(1)), VA(VT(Int(Min, Max)), VS("a")),
		VA(VA(VS("a"), VI(1))), VA(VA(VS("a"), VI(1)), VA(VS("b"), VI(2))), VA(VA(VS("a"), VU())), VA(VA(VS("a"))), VA(VA(VU(), VI(1))),
		VH(VS("a"), VS("x"), VS("b"), VI(2)), VH(VS("b"), VI(2)), VH(VS("a"), VU(), VS("b"), VI(1)))
	for _, t := range ts {
		for alt := 0; alt < 4; alt++ {
			if v := Inhab(t, alt); v != nil {
				out = append(out, v)
			}
		}
	}
	return out
}

// SpecContains: the recipe contains a constructor of the given kind anywhere, also below aliases (which the decoded
// structure does not show).
func SpecContains(s *Spec, kind string) bool {
	if s.K == kind {
		return true
	}
	switch s.K {
	case "Data", "RichData":
		switch kind {
		case "Variant", "Hash", "Array", "Undef", "String":
			return true
		}
	case "AliasRec":
		return strings.Contains(s.Strs[0], kind)
	case "Decl":
		return strings.Contains(s.S, kind) || strings.Contains(strings.Join(s.Strs, "\n"), kind)
	case "DeclOnce":
		return strings.Contains(s.S, kind)
	case "FloatB":
		return kind == "Float"
	case "ValType":
		found := false
		Guarded(func() bool { found = Contains(types.VerifDecodeType(s.Build()), kind); return true })
		return found
	}
	for _, e := range s.Sub {
		if SpecContains(e, kind) {
			return true
		}
	}
	return false
}

// Legend spells out the user aliases of the given recipes (a type prints an alias by its name only):
// " (where U1a2b3c = Variant[Integer, String]; Tree<n> = Variant[...])", or "" when there are none.
func Legend(ss ...*Spec) string {
	var parts []string
	seen := map[string]bool{}
	var walk func(s *Spec)
	walk = func(s *Spec) {
		if s == nil {
			return
		}
		switch s.K {
		case "Alias":
			// (two aliases may carry one name: ext5.go; each definition is spelled out)
			if key := s.S + "=" + s.Sub[0].String(); !seen[key] {
				seen[key] = true
				txt := ""
				Guarded(func() bool { txt = s.Sub[0].Build().String(); return true })
				parts = append(parts, s.S+" = "+txt)
			}
		case "CtxDecl":
			if txt := legend5(s); !seen[txt] {
				seen[txt] = true
				parts = append(parts, txt)
			}
		case "AliasRec":
			if !seen[s.S] {
				seen[s.S] = true
				parts = append(parts, s.S+"<n> = "+strings.Replace(s.Strs[0], "%s", s.S+"<n>", -1))
			}
		case "Decl":
			// (the printed names carry Q<n> for @, n fresh per build)
			key := strings.Join(s.Strs, "; ")
			if key != "" && !seen[key] {
				seen[key] = true
				parts = append(parts, "declared, @ = Q<n>: "+key)
			}
		case "DeclOnce":
			if !seen["once:"+s.S] && strings.HasPrefix(s.S, "@") {
				seen["once:"+s.S] = true
				for _, d := range s.Strs {
					if strings.HasPrefix(d, "type "+s.S+" ") {
						parts = append(parts, d)
					}
				}
			}
		}
		for _, e := range s.Sub {
			walk(e)
		}
	}
	for _, s := range ss {
		walk(s)
	}
	if len(parts) == 0 {
		return ""
	}
	return " (where " + strings.Join(parts, "; ") + ")"
}

// ReplayInputs reads the inputs of a replay file like lib.ReplayInputs, but keeps the numbers exact (an int64
// bound such as 9223372036854775807 does not survive the detour through float64).
func ReplayInputs(path string) []interface{} {
	f, err := os.Open(path)
	if err != nil {
		panic(err)
	}
	defer f.Close()
	d := json.NewDecoder(f)
	d.UseNumber()
	var body map[string]interface{}
	if err := d.Decode(&body); err != nil {
		panic(err)
	}
	switch in := body["input"].(type) {
	case []interface{}:
		return in
	case nil:
		return nil
	default:
		return []interface{}{in}
	}
}
