package lat

import (
	"encoding/json"
	"fmt"
	"runtime"
	"strings"

	"github.com/lyraproj/pcore/px"
	"github.com/lyraproj/pcore/types"
	"verifharness/lib"
)

func jsonMarshal(v interface{}) ([]byte, error) { return json.Marshal(v) }

// Universe: a pool of types (each built twice, so that no comparison is decided by pointer identity
// except through the library's own singletons), a pool of values, and the observed matrices.
type Universe struct {
	Specs []*Spec
	L, R  []px.Type         // two separately constructed copies
	Dec   []*types.VerifTy  // decoded structure (what the model sees)
	InM   []bool            // inside the model fragment
	Text  []string          // t.String()
	VSpec []*VSpec
	V     []px.Value
	VDec  []*types.VerifVal
	VInM  []bool
	Inst  [][]bool // Inst[t][v] = IsInstance(L[t], V[v])
	Asg   [][]bool // Asg[a][b] = IsAssignable(L[a], R[b])
	// crashes observed while filling the matrices
	Crashes []lib.Violation
}

// Guarded runs f and maps a panic to (false, description).
func Guarded(f func() bool) (res bool, crash string) {
	defer func() {
		if r := recover(); r != nil {
			if _, ok := r.(runtime.Error); ok {
				crash = fmt.Sprintf("runtime fault: %v", r)
			} else {
				crash = fmt.Sprintf("panic: %v", r)
			}
			res = false
		}
	}()
	return f(), ""
}

func dedupSpecs(in []*Spec) []*Spec {
	seen := map[string]bool{}
	var out []*Spec
	for _, s := range in {
		k := s.String()
		if !seen[k] {
			seen[k] = true
			out = append(out, s)
		}
	}
	return out
}

// NewUniverse builds pools. nRandom random types of depth 2..3 are added to the bounded-exhaustive
// families; witnesses of every pool type join the generic values.
func NewUniverse(r *lib.Rng, nRandom int, maxVals int) *Universe {
	return NewUniverseWith(r, nRandom, maxVals, nil, nil)
}

// NewUniverseWith: as NewUniverse, with additional type and value recipes joining the pools.
func NewUniverseWith(r *lib.Rng, nRandom int, maxVals int, moreTypes []*Spec, moreValues []*VSpec) *Universe {
	u := &Universe{}
	specs := append([]*Spec{}, Atoms()...)
	specs = append(specs, moreTypes...)
	specs = append(specs, Depth1(elemAtoms())...)
	for i := 0; i < nRandom; i++ {
		specs = append(specs, RandomType(r, 2+r.Intn(2)))
	}
	specs = dedupSpecs(specs)
	for _, s := range specs {
		var l, rr px.Type
		_, crash := Guarded(func() bool { l = s.Build(); rr = s.Build(); return true })
		if crash != "" || l == nil {
			// a recipe the constructors reject (e.g. min > max): not a type, skip
			continue
		}
		u.Specs = append(u.Specs, s)
		u.L = append(u.L, l)
		u.R = append(u.R, rr)
		d := types.VerifDecodeType(l)
		u.Dec = append(u.Dec, d)
		u.InM = append(u.InM, InModel(d))
		txt := ""
		Guarded(func() bool { txt = l.String(); return true })
		u.Text = append(u.Text, txt)
	}
	// values
	vs := append([]*VSpec{}, GlobalValues()...)
	vs = append(vs, moreValues...)
	for _, s := range u.Specs {
		vs = append(vs, Witnesses(s, 2)...)
	}
	// types as values: a sample of the pool
	for i, s := range u.Specs {
		if i%7 == 0 || i < 40 {
			vs = append(vs, VT(s))
		}
	}
	seen := map[string]bool{}
	for _, v := range vs {
		k := v.String()
		if seen[k] {
			continue
		}
		seen[k] = true
		var pv px.Value
		_, crash := Guarded(func() bool { pv = v.Build(); return true })
		if crash != "" || pv == nil {
			continue
		}
		if IllFormedValue(pv) {
			// WrapHash does not look at the keys: a recipe that repeats a key, or uses a key that has no hash key
			// (a Sensitive), does not make a value (the invariant of C09; the library rejects such keys elsewhere)
			continue
		}
		u.VSpec = append(u.VSpec, v)
		u.V = append(u.V, pv)
		d := types.VerifDecodeValue(pv)
		u.VDec = append(u.VDec, d)
		u.VInM = append(u.VInM, ValInModel(d))
		if maxVals > 0 && len(u.V) >= maxVals {
			break
		}
	}
	return u
}

// Drop removes the pool types for which f answers true (before the matrices are filled).
func (u *Universe) Drop(f func(i int) bool) {
	k := 0
	for i := range u.L {
		if f(i) {
			continue
		}
		u.Specs[k], u.L[k], u.R[k], u.Dec[k], u.InM[k], u.Text[k] = u.Specs[i], u.L[i], u.R[i], u.Dec[i], u.InM[i], u.Text[i]
		k++
	}
	u.Specs, u.L, u.R, u.Dec, u.InM, u.Text = u.Specs[:k], u.L[:k], u.R[:k], u.Dec[:k], u.InM[:k], u.Text[:k]
}

func (u *Universe) FillInst() {
	u.Inst = make([][]bool, len(u.L))
	for t := range u.L {
		u.Inst[t] = make([]bool, len(u.V))
		for v := range u.V {
			res, crash := Guarded(func() bool { return px.IsInstance(u.L[t], u.V[v]) })
			u.Inst[t][v] = res
			if crash != "" {
				u.Crashes = append(u.Crashes, lib.Violation{Clause: "crash", What: fmt.Sprintf("IsInstance(%s, %s): %s", u.Text[t], ValText(u.V[v]), crash),
					Input: map[string]interface{}{"kind": "inst", "t": u.Specs[t], "v": u.VSpec[v]}, Tags: []string{"crash-inst"}})
			}
		}
	}
}

func (u *Universe) FillAsg() {
	u.Asg = make([][]bool, len(u.L))
	for a := range u.L {
		u.Asg[a] = make([]bool, len(u.R))
		for b := range u.R {
			res, crash := Guarded(func() bool { return px.IsAssignable(u.L[a], u.R[b]) })
			u.Asg[a][b] = res
			if crash != "" {
				u.Crashes = append(u.Crashes, lib.Violation{Clause: "crash", What: fmt.Sprintf("IsAssignable(%s, %s): %s", u.Text[a], u.Text[b], crash),
					Input: map[string]interface{}{"kind": "asg", "a": u.Specs[a], "b": u.Specs[b]}, Tags: []string{"crash-asg"}})
			}
		}
	}
}

func ValText(v px.Value) (s string) {
	defer func() {
		if r := recover(); r != nil {
			s = fmt.Sprintf("<unprintable %T>", v)
		}
	}()
	s = px.ToString2(v, types.Program)
	if len(s) > 120 {
		s = s[:120] + "..."
	}
	return
}

// Contains reports whether the decoded type contains a constructor of the given kind anywhere.
func Contains(t *types.VerifTy, kind string) bool {
	if t.K == kind {
		return true
	}
	for _, e := range t.Ts {
		if Contains(e, kind) {
			return true
		}
	}
	for _, e := range t.Keys {
		if Contains(e, kind) {
			return true
		}
	}
	return false
}

func ContainsOther(t *types.VerifTy, name string) bool {
	if t.K == "Other" && t.S == name {
		return true
	}
	for _, e := range t.Ts {
		if ContainsOther(e, name) {
			return true
		}
	}
	return false
}

// Oracle builds the regexp table (pattern, subject, Go regexp verdict) for the given strings.
func Oracle(pats, strs map[string]bool) string {
	var rows []string
	for p := range pats {
		rx := types.NewRegexpType(p).Regexp()
		for s := range strs {
			rows = append(rows, fmt.Sprintf("(%s, %s, %s)", lib.GStr(p), lib.GStr(s), lib.GBool(rx.MatchString(s))))
		}
	}
	// deterministic order
	sortStrings(rows)
	return "Definition orc : oracle := " + lib.GList(rows, "str * str * bool") + ".\n"
}

func sortStrings(a []string) {
	for i := 1; i < len(a); i++ {
		for j := i; j > 0 && strings.Compare(a[j-1], a[j]) > 0; j-- {
			a[j-1], a[j] = a[j], a[j-1]
		}
	}
}

// ModelStringsOK: the model treats strings as valid UTF-8 and folds case for ASCII only.
func ModelStringsOK(pats, strs map[string]bool) bool { return true }

// IllFormedValue: some hash inside v holds two equal keys or a key without a hash key (px.ToKey panics)
func IllFormedValue(v px.Value) (bad bool) {
	defer func() {
		if r := recover(); r != nil {
			bad = true
		}
	}()
	switch v := v.(type) {
	case *types.Hash:
		seen := map[px.HashKey]bool{}
		v.EachPair(func(k, x px.Value) {
			hk := px.ToKey(k)
			if seen[hk] {
				bad = true
			}
			seen[hk] = true
			if IllFormedValue(k) || IllFormedValue(x) {
				bad = true
			}
		})
	case *types.Array:
		v.Each(func(x px.Value) {
			if IllFormedValue(x) {
				bad = true
			}
		})
	case *types.Sensitive:
		return IllFormedValue(v.Unwrap())
	}
	return
}
