package lat

import (
	"regexp"
	"strings"
	"unicode/utf8"

	"github.com/lyraproj/pcore/types"
)

// RefDen is the set denotation of coq/Model/Spec.v (`den`) written once more in Go, over the DECODED
// structures, so that the direct check can name a concrete (type, value) on which IsInstance deviates from
// the specification. It is total on the model fragment; ok=false means "outside the fragment".
// asg answers Type[T] (types assignable to T): supplied by the caller from the implementation.
var rxCache = map[string]*regexp.Regexp{}

func compileRx(p string) *regexp.Regexp {
	if rx, ok := rxCache[p]; ok {
		return rx
	}
	rx, err := regexp.Compile(p)
	if err != nil {
		rx = nil
	}
	rxCache[p] = rx
	return rx
}

// FloatKeyInf is types.VerifFloatKey(math.Inf(1)), coq/Model/Lattice.v InfF.
const FloatKeyInf int64 = 0x7FF0000000000000

func RefDen(t *types.VerifTy, v *types.VerifVal, asg func(t, u *types.VerifTy) (bool, bool)) (res bool, ok bool) {
	between := func(lo, hi, n int64) bool { return lo <= n && n <= hi }
	switch t.K {
	case "Any", "Unit":
		return true, true
	case "Undef":
		return v.K == "Undef", true
	case "Default":
		return v.K == "Default", true
	case "Boolean":
		if v.K != "Bool" {
			return false, true
		}
		return t.Bool < 0 || (t.Bool == 1) == v.B, true
	case "Integer":
		return v.K == "Int" && between(t.Lo, t.Hi, v.I), true
	case "Float":
		if t.NaN {
			return false, false
		}
		// Spec.v: the floats between the bounds; NaN is not ordered and belongs to the unbounded Float type only
		// (bounds and values are order keys: FloatKeyInf is the key of +Inf)
		unbounded := t.Lo <= -FloatKeyInf && FloatKeyInf <= t.Hi
		if v.K != "Float" {
			return false, true
		}
		if v.NaN {
			return unbounded, true
		}
		return between(t.Lo, t.Hi, v.I) || unbounded, true
	case "Numeric":
		return v.K == "Int" || v.K == "Float", true
	case "Scalar":
		return v.K == "Str" || v.K == "Int" || v.K == "Float" || v.K == "Bool" || v.K == "Regexp", true
	case "ScalarData":
		return v.K == "Str" || v.K == "Int" || v.K == "Float" || v.K == "Bool", true
	case "String":
		return v.K == "Str", true
	case "StringSz":
		return v.K == "Str" && between(t.Lo, t.Hi, int64(utf8.RuneCountInString(v.S))), true
	case "StringVal":
		return v.K == "Str" && v.S == t.S, true
	case "Enum":
		if v.K != "Str" {
			return false, true
		}
		if len(t.Strs) == 0 {
			return true, true
		}
		s := v.S
		if t.CI {
			s = strings.ToLower(s)
		}
		for _, e := range t.Strs {
			if e == s {
				return true, true
			}
		}
		return false, true
	case "Pattern":
		if v.K != "Str" {
			return false, true
		}
		if len(t.Strs) == 0 {
			return true, true
		}
		for _, p := range t.Strs {
			rx := compileRx(p)
			if rx == nil {
				return false, false
			}
			if rx.MatchString(v.S) {
				return true, true
			}
		}
		return false, true
	case "Regexp":
		return v.K == "Regexp" && (t.S == "" || t.S == v.S), true
	case "Binary":
		return v.K == "Binary", true
	case "Collection":
		if v.K == "Arr" {
			return between(t.Lo, t.Hi, int64(len(v.Vs))), true
		}
		if v.K == "Hash" {
			return between(t.Lo, t.Hi, int64(len(v.Vs)/2)), true
		}
		return false, true
	case "Array":
		if v.K != "Arr" || !between(t.Lo, t.Hi, int64(len(v.Vs))) {
			return false, true
		}
		for _, e := range v.Vs {
			r, k := RefDen(t.Ts[0], e, asg)
			if !k {
				return false, false
			}
			if !r {
				return false, true
			}
		}
		return true, true
	case "Hash":
		if v.K != "Hash" || !between(t.Lo, t.Hi, int64(len(v.Vs)/2)) {
			return false, true
		}
		for i := 0; i+1 < len(v.Vs); i += 2 {
			r1, k1 := RefDen(t.Ts[0], v.Vs[i], asg)
			r2, k2 := RefDen(t.Ts[1], v.Vs[i+1], asg)
			if !k1 || !k2 {
				return false, false
			}
			if !r1 || !r2 {
				return false, true
			}
		}
		return true, true
	case "Tuple":
		if v.K != "Arr" || !between(t.Lo, t.Hi, int64(len(v.Vs))) {
			return false, true
		}
		if len(t.Ts) == 0 {
			return true, true
		}
		for i, e := range v.Vs {
			j := i
			if j > len(t.Ts)-1 {
				j = len(t.Ts) - 1
			}
			r, k := RefDen(t.Ts[j], e, asg)
			if !k {
				return false, false
			}
			if !r {
				return false, true
			}
		}
		return true, true
	case "Struct":
		if v.K != "Hash" {
			return false, true
		}
		// every entry is a declared member with a value of the member's type
		for i := 0; i+1 < len(v.Vs); i += 2 {
			if v.Vs[i].K != "Str" {
				return false, true
			}
			found := false
			for m, n := range t.Names {
				if n == v.Vs[i].S {
					r, k := RefDen(t.Ts[m], v.Vs[i+1], asg)
					if !k {
						return false, false
					}
					if !r {
						return false, true
					}
					found = true
					break
				}
			}
			if !found {
				return false, true
			}
		}
		// every required member (key not Optional[...]) is present
		for m, n := range t.Names {
			if t.Keys[m].K == "Optional" {
				continue
			}
			present := false
			for i := 0; i+1 < len(v.Vs); i += 2 {
				if v.Vs[i].K == "Str" && v.Vs[i].S == n {
					present = true
				}
			}
			if !present {
				return false, true
			}
		}
		return true, true
	case "Variant":
		for _, m := range t.Ts {
			r, k := RefDen(m, v, asg)
			if !k {
				return false, false
			}
			if r {
				return true, true
			}
		}
		return false, true
	case "Optional":
		if v.K == "Undef" {
			return true, true
		}
		return RefDen(t.Ts[0], v, asg)
	case "NotUndef":
		if v.K == "Undef" {
			return false, true
		}
		return RefDen(t.Ts[0], v, asg)
	case "Type":
		if v.K != "Type" {
			return false, true
		}
		return asg(t.Ts[0], v.T)
	case "Sensitive":
		if v.K != "Sensitive" {
			return false, true
		}
		return RefDen(t.Ts[0], v.Vs[0], asg)
	}
	return false, false
}
