package lat

// Sixth wave (worker w6-C01C03): Enum types with LONG value lists. The answer of Enum <- Enum is a function of the two value
// SETS and the two case flags; the model (`asg`, forallb (enum_inst ci vs) vs') has no notion of a list length, the code has
// one scan per value (enumtype.go:151). A size-dependent shortcut (an index built above some product of the two lengths, a
// sorted merge above some length, ...) is a second code path that must agree with the scan. The pools had no Enum with more
// than 3 values. Additions only, deterministic, no map iteration.

import (
	"fmt"
	"strings"

	"github.com/lyraproj/pcore/types"
)

// LongEnumLens: list lengths whose pairwise products lie on both sides of the powers of two a size threshold is likely to
// use (16x16 = 256, 17x16, 257x1, 32x32 = 1024, 33x32, 300x1, 20x15 = 300, 40x40 = 1600, 300x300)
var LongEnumLens = []int{1, 2, 15, 16, 17, 20, 32, 33, 40, 256, 257, 300}

// enumList: n values "k<from>".."k<from+n-1>" (three digits), spelled as the style says: 0 lower case, 1 capitals,
// 2 every third value in capitals, 3 lower case in DESCENDING order (a path that relies on an order of the values)
func enumList(from, n, style int) []string {
	out := make([]string, n)
	for i := 0; i < n; i++ {
		k := from + i
		if style == 3 {
			k = from + n - 1 - i
		}
		s := fmt.Sprintf("k%03d", k)
		if style == 1 || (style == 2 && i%3 == 0) {
			s = upper(s)
		}
		out[i] = s
	}
	return out
}

// LongEnumBare: the Enum types themselves. For every length: the prefix k000.. of the 300 values in the four spellings, with
// either flag; a window that does not start at k000 (contained in every longer prefix, not a prefix itself); the prefix with one
// foreign value at the end and at the front (contained in nothing: a path that accepts too much shows up under C01); the one-value
// Enums around 'k007' / 'K007' the README of C03-m9 names; the String types of single values (Enum <- String['K007'] is the
// path next to Enum <- Enum['K007']). small = the reduced family of the C01 pool (every value of every Enum becomes three
// values of the value pool there).
func LongEnumBare(small bool) []*Spec {
	lens := LongEnumLens
	if small {
		lens = []int{1, 15, 20, 40, 257, 300}
	}
	var out []*Spec
	for _, n := range lens {
		for _, ci := range []bool{false, true} {
			for style := 0; style < 4; style++ {
				if small && style == 3 {
					continue
				}
				if n == 1 && style >= 2 {
					continue
				}
				out = append(out, Enum(ci, enumList(0, n, style)...))
			}
			if n >= 15 && n < 300 {
				out = append(out, Enum(ci, enumList(5, n, 0)...), Enum(ci, enumList(5, n, 2)...))
			}
			if n >= 15 {
				out = append(out, Enum(ci, append(enumList(0, n-1, 0), "k999")...), Enum(ci, append([]string{"K999"}, enumList(0, n-1, 0)...)...))
				if !small || n == 20 || n == 300 {
					// a last value of another length (String[4, 4] <- Enum reads every value)
					out = append(out, Enum(ci, append(enumList(0, n-1, 0), "k999999")...))
					// as long as the prefix of n values, one value fewer: the last repeats the first (equality is one of sets)
					out = append(out, Enum(ci, append(enumList(0, n-1, 0), "k000")...))
				}
			}
		}
	}
	for _, ci := range []bool{false, true} {
		out = append(out, Enum(ci, "k007"), Enum(ci, "K007"), Enum(ci, "k007", "K007"), Enum(ci, "k299"), Enum(ci, "K299"), Enum(ci, "k999"),
			Enum(ci, "k007", "k011"), Enum(ci, "K007", "k011"), Enum(ci, "k007", "k999"))
	}
	for _, s := range []string{"k007", "K007", "k299", "K299", "k999", "k039", "K039", "k999999"} {
		out = append(out, StrVal(s))
	}
	out = append(out, Enum(false, "k999999"), Enum(true, "k999999"), StrSz(4, 4), StrSz(4, 7), StrSz(0, 4), StrSz(5, Max))
	return dedupSpecs(out)
}

// LongEnumNeighbours: Pattern types that read every value of an Enum on their right (pool only: in the model a Pattern answers
// through the regexp oracle table, one row per pattern and string)
func LongEnumNeighbours() []*Spec {
	return []*Spec{Pat("^k[0-9]{3}$"), Pat("^[kK][0-9]{3}$"), Pat("^k0", "^k1", "^k2"), Pat("^k[0-9]+$")}
}

// HasLongEnum: the recipe holds an Enum with at least 15 values
func HasLongEnum(s *Spec) bool {
	if s.K == "Enum" && len(s.Strs) >= 15 {
		return true
	}
	for _, e := range s.Sub {
		if HasLongEnum(e) {
			return true
		}
	}
	return false
}

// LongEnumCost: the largest number of values of an Enum in the recipe (1 when there is none)
func LongEnumCost(s *Spec) int {
	n := 1
	if s.K == "Enum" && len(s.Strs) > n {
		n = len(s.Strs)
	}
	for _, e := range s.Sub {
		if k := LongEnumCost(e); k > n {
			n = k
		}
	}
	return n
}

// longEnumCore: the Enums that are carried into member positions - the long ones with either flag and spelling, and the short
// ones that sit between them in a transitivity chain
func longEnumCore() []*Spec {
	var out []*Spec
	for _, ci := range []bool{false, true} {
		out = append(out, Enum(ci, enumList(0, 300, 0)...), Enum(ci, enumList(0, 20, 0)...), Enum(ci, enumList(5, 15, 2)...),
			Enum(ci, enumList(0, 40, 0)...), Enum(ci, enumList(0, 40, 1)...), Enum(ci, "k007"), Enum(ci, "K007"))
	}
	out = append(out, Enum(false, enumList(0, 300, 2)...), StrVal("K007"))
	return out
}

// LongEnumFamilies: the bare family, and its core below Array, Optional, Hash (key position), Variant (alone with another
// member; two Enums that cover a list together), Tuple and a Struct member.
func LongEnumFamilies(small bool) []*Spec {
	out := LongEnumBare(small)
	core := longEnumCore()
	for _, e := range core {
		out = append(out, Arr(e, 0, Max), W("Optional", e), Hsh(e, Int(Min, Max), 0, Max), Var(e, Int(Min, Max)))
		if !small {
			out = append(out, Tup(e), Struct(Member{"a", 0, e}))
		}
	}
	// a long list split over two variants (each value of the right Enum is in one of them, none holds all)
	out = append(out, Var(Enum(true, enumList(0, 150, 0)...), Enum(true, enumList(150, 150, 0)...)),
		Var(Enum(false, enumList(0, 150, 0)...), Enum(true, enumList(150, 150, 0)...)))
	out = append(out, LongEnumNeighbours()...)
	return dedupSpecs(out)
}

// LongEnumValues: strings at and around the lists, in either spelling (the value pool of C01)
func LongEnumValues() []*VSpec {
	var out []*VSpec
	for _, s := range []string{"k000", "k007", "k014", "k015", "k019", "k020", "k039", "k040", "k256", "k257", "k299", "k300", "k999"} {
		out = append(out, VS(s), VS(upper(s)), VA(VS(s)), VA(VS(upper(s))), VH(VS(s), VI(1)), VH(VS(upper(s)), VI(1)))
	}
	return out
}


// StrListTable interns the value lists of long Enums for a cases file: each distinct list is defined once (`LS<k>`) and
// the printed types refer to it (coqc spends ~0.1 s on every 300-string literal it reads).
type StrListTable struct {
	Defs  strings.Builder
	names map[string]string
}

func (tb *StrListTable) GTy(t *types.VerifTy) string {
	s := GTy(t)
	var walk func(t *types.VerifTy)
	walk = func(t *types.VerifTy) {
		if t.K == "Enum" && len(t.Strs) >= 15 {
			lt := gstrs(t.Strs)
			if tb.names == nil {
				tb.names = map[string]string{}
			}
			name, ok := tb.names[lt]
			if !ok {
				name = fmt.Sprintf("LS%d", len(tb.names))
				tb.names[lt] = name
				tb.Defs.WriteString("Definition " + name + " : list str := " + lt + ".\n")
			}
			s = strings.Replace(s, lt, name, -1)
		}
		for _, e := range t.Ts {
			walk(e)
		}
		for _, e := range t.Keys {
			walk(e)
		}
	}
	walk(t)
	return s
}
