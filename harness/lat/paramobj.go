package lat

// Sixth wave: parameterized Object types (an Object type that declares type_parameters, used as P[arg]: types.objectTypeExtension).
// P[x] accepts P[y] through objectTypeExtension.testAssignable: the case-expression match px.PuppetMatch(y, x) first, then, when
// both are types, IsAssignable(x, y); an instance of P[x] is an instance of P whose attribute matches x (PuppetMatch(value, x)).
// A wave-5 author observed that the two do not fit together; the family below makes the C01 check see it (open finding
// param-object-extension-*). Additions only; one declaration per process (DeclOnce).

import "strings"

var paramObjDecls = []string{"type @P = Object[{type_parameters => {a => Any}, attributes => {a => Any}}]"}

var paramObjArgs = []string{"Type[Integer]", "Integer", "Integer[0,5]", "Type[Integer[0,5]]", "Variant[Integer,String]", "Any", "Type", "3", "'abc'", "'ABC'", "/b/", "[Integer]", "[1]"}

// ParamObjectFamilies: P, P[arg] for types, type-of-type, literal, string, regexp and array arguments
func ParamObjectFamilies() []*Spec {
	out := []*Spec{DeclOnce("@P", paramObjDecls...)}
	for _, a := range paramObjArgs {
		out = append(out, DeclOnce("@P["+a+"]", paramObjDecls...))
	}
	return out
}

// ParamObjectValues: instances of P whose attribute is a number, a string in either spelling, a type, an array
func ParamObjectValues() []*VSpec {
	p := DeclOnce("@P", paramObjDecls...)
	return []*VSpec{VNew(p, VI(3)), VNew(p, VI(7)), VNew(p, VS("abc")), VNew(p, VS("ABC")), VNew(p, VS("xyz")), VNew(p, VT(Int(Min, Max))), VNew(p, VT(Int(0, 5))),
		VNew(p, VT(A("String"))), VNew(p, VA(VI(1))), VNew(p, VA(VT(Int(Min, Max)))), VNew(p, VU())}
}

// IsParamObject: a recipe of the family (P itself excluded: it is an ordinary Object type)
func IsParamObject(s *Spec) bool {
	return s != nil && s.K == "DeclOnce" && len(s.Strs) == 1 && strings.Contains(s.Strs[0], "type_parameters") && strings.Contains(s.S, "[")
}
