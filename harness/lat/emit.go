// Package lat: shared helpers of the lattice properties C01–C04 and C19 — type and value pools built
// through the Go constructors of pcore, and printers of the decoded structures as Gallina terms
// of coq/Model/Ty.v.
package lat

import (
	"fmt"
	"strings"

	"github.com/lyraproj/pcore/types"
	"verifharness/lib"
)

// InModel is true when every constructor of t belongs to the model fragment (no TOther, no alias,
// no Iterable, no NaN bound).
func InModel(t *types.VerifTy) bool {
	switch t.K {
	case "Other", "Alias", "Iterable", "Nil":
		return false
	case "Float":
		if t.NaN {
			return false
		}
	}
	for _, e := range t.Ts {
		if !InModel(e) {
			return false
		}
	}
	for _, e := range t.Keys {
		if !InModel(e) {
			return false
		}
	}
	return true
}

func ValInModel(v *types.VerifVal) bool {
	switch v.K {
	case "Other", "Nil", "Entry":
		return false
	case "Type":
		return InModel(v.T)
	}
	for _, e := range v.Vs {
		if !ValInModel(e) {
			return false
		}
	}
	return true
}

func gstrs(ss []string) string {
	gs := make([]string, len(ss))
	for i, s := range ss {
		gs[i] = lib.GStr(s)
	}
	return lib.GList(gs, "str")
}

func gtys(ts []*types.VerifTy) string {
	gs := make([]string, len(ts))
	for i, t := range ts {
		gs[i] = GTy(t)
	}
	return lib.GList(gs, "ty")
}

// GTy prints a decoded type as a term of type `ty`.
func GTy(t *types.VerifTy) string {
	switch t.K {
	case "Any", "Unit", "Undef", "Default", "Numeric", "Scalar", "ScalarData", "String", "Binary":
		return "T" + t.K
	case "Boolean":
		switch t.Bool {
		case 0:
			return "(TBoolean (Some false))"
		case 1:
			return "(TBoolean (Some true))"
		}
		return "(TBoolean None)"
	case "Integer":
		return fmt.Sprintf("(TInteger %s %s)", lib.GZ(t.Lo), lib.GZ(t.Hi))
	case "Float":
		return fmt.Sprintf("(TFloat %s %s)", lib.GZ(t.Lo), lib.GZ(t.Hi))
	case "StringSz":
		return fmt.Sprintf("(TStringSz %s %s)", lib.GZ(t.Lo), lib.GZ(t.Hi))
	case "StringVal":
		return fmt.Sprintf("(TStringVal %s)", lib.GStr(t.S))
	case "Enum":
		return fmt.Sprintf("(TEnum %s %s)", lib.GBool(t.CI), gstrs(t.Strs))
	case "Pattern":
		return fmt.Sprintf("(TPattern %s)", gstrs(t.Strs))
	case "Regexp":
		return fmt.Sprintf("(TRegexp %s)", lib.GStr(t.S))
	case "Collection":
		return fmt.Sprintf("(TCollection %s %s)", lib.GZ(t.Lo), lib.GZ(t.Hi))
	case "Array":
		return fmt.Sprintf("(TArray %s %s %s)", GTy(t.Ts[0]), lib.GZ(t.Lo), lib.GZ(t.Hi))
	case "Hash":
		return fmt.Sprintf("(THash %s %s %s %s)", GTy(t.Ts[0]), GTy(t.Ts[1]), lib.GZ(t.Lo), lib.GZ(t.Hi))
	case "Tuple":
		return fmt.Sprintf("(TTuple %s %s %s %s)", gtys(t.Ts), lib.GBool(t.HasSize), lib.GZ(t.Lo), lib.GZ(t.Hi))
	case "Struct":
		ms := make([]string, len(t.Ts))
		for i := range t.Ts {
			ms[i] = fmt.Sprintf("(%s, (%s, %s))", lib.GStr(t.Names[i]), GTy(t.Keys[i]), GTy(t.Ts[i]))
		}
		return fmt.Sprintf("(TStruct %s)", lib.GList(ms, "str * (ty * ty)"))
	case "Variant":
		return fmt.Sprintf("(TVariant %s)", gtys(t.Ts))
	case "Optional", "NotUndef", "Type", "Sensitive":
		return fmt.Sprintf("(T%s %s)", t.K, GTy(t.Ts[0]))
	}
	return fmt.Sprintf("(TOther %s)", lib.GStr(t.K+":"+t.S))
}

// GVal prints a decoded value as a term of type `value`.
func GVal(v *types.VerifVal) string {
	switch v.K {
	case "Undef":
		return "VUndef"
	case "Default":
		return "VDefault"
	case "Bool":
		return "(VBool " + lib.GBool(v.B) + ")"
	case "Int":
		return "(VInt " + lib.GZ(v.I) + ")"
	case "Float":
		if v.NaN {
			return "VNaN"
		}
		return "(VFloat " + lib.GZ(v.I) + ")"
	case "Str":
		return "(VStr " + lib.GStr(v.S) + ")"
	case "Regexp":
		return "(VRegexp " + lib.GStr(v.S) + ")"
	case "Binary":
		return "(VBinary " + lib.GStr(v.S) + ")"
	case "Arr":
		gs := make([]string, len(v.Vs))
		for i, e := range v.Vs {
			gs[i] = GVal(e)
		}
		return "(VArr " + lib.GList(gs, "value") + ")"
	case "Hash":
		gs := make([]string, 0, len(v.Vs)/2)
		for i := 0; i+1 < len(v.Vs); i += 2 {
			gs = append(gs, "("+GVal(v.Vs[i])+", "+GVal(v.Vs[i+1])+")")
		}
		return "(VHash " + lib.GList(gs, "value * value") + ")"
	case "Type":
		return "(VType " + GTy(v.T) + ")"
	case "Sensitive":
		return "(VSensitive " + GVal(v.Vs[0]) + ")"
	}
	return "(VOther " + lib.GStr(v.K+":"+v.S) + ")"
}

// Strings / patterns occurring in a type or value (for the regexp oracle table).
func TyStrings(t *types.VerifTy, pats, strs map[string]bool) {
	switch t.K {
	case "Pattern":
		for _, p := range t.Strs {
			pats[p] = true
		}
	case "Enum":
		for _, s := range t.Strs {
			strs[s] = true
		}
	case "StringVal":
		strs[t.S] = true
	}
	for _, e := range t.Ts {
		TyStrings(e, pats, strs)
	}
	for _, e := range t.Keys {
		TyStrings(e, pats, strs)
	}
	for _, n := range t.Names {
		strs[n] = true
	}
}

func ValStrings(v *types.VerifVal, pats, strs map[string]bool) {
	switch v.K {
	case "Str":
		strs[v.S] = true
	case "Type":
		TyStrings(v.T, pats, strs)
	}
	for _, e := range v.Vs {
		ValStrings(e, pats, strs)
	}
}

func IsASCII(s string) bool {
	for i := 0; i < len(s); i++ {
		if s[i] >= 128 {
			return false
		}
	}
	return true
}

// TyText is a compact description for samples and replays.
func TyText(t *types.VerifTy) string {
	var b strings.Builder
	b.WriteString(t.K)
	switch t.K {
	case "Integer", "Float", "StringSz", "Collection":
		fmt.Fprintf(&b, "[%d,%d]", t.Lo, t.Hi)
	}
	return b.String()
}
