#!/usr/bin/env python3
"""Regenerates MANIFEST.json from the table below (kept next to ./check so both stay in step)."""
import json, os
ROOT = os.path.dirname(os.path.abspath(__file__))
props = [json.loads(l) for l in open(os.path.join(ROOT, "properties.jsonl"))]

import glob
CLAIMED = {}
# CLAIMED.txt (maintained by the coordinator): ids whose check was verified green on the unchanged tree
# (seeds 1..3, evidence valid).  A props/Cxx.json that is not listed there is work in progress.
VERIFIED = set(open(os.path.join(ROOT, "CLAIMED.txt")).read().split())
REASONS = {}
rf = os.path.join(ROOT, "not_claimed_reasons.json")
if os.path.exists(rf):
    REASONS = json.load(open(rf))
for f in sorted(glob.glob(os.path.join(ROOT, "props", "*.json"))):
    p = json.load(open(f))
    if p["id"] in VERIFIED:
        CLAIMED[p["id"]] = p["manifest"]
PENDING = "not yet claimed: model and check under construction (see DESIGN.md section 9 build order)"

m = dict(
  version=1,
  setup_cmd="./check setup",
  hooks=dict(guard="verif", enable="go build -tags verif (the harness is built with the tag; hook files are add-only)",
             baseline_off_cmd="cd /repo && go test -vet=off -count=1 ./...", source_commits=[], add_only=True),
  engines=[dict(name="rocq-model+correspondence", path="check", serves_properties=sorted(CLAIMED),
                kind_free_text="machine-checked proof in Rocq (Coq 8.16.1) about hand-written executable models; "
                               "models tied to /repo by a differential correspondence run (Go harness vs vm_compute)")],
  checks=[], not_applicable=[],
  notes="All checks: ./check <id> --tier quick|thorough; VERIF_SEED / VERIF_TIER honoured. known_findings.json lists open findings and fixes.")
import subprocess
try:
    m["hooks"]["source_commits"] = subprocess.run(["git", "-C", "/repo", "log", "--format=%h", "--grep=^verif hook:"],
                                                  capture_output=True, text=True).stdout.split()
except Exception:
    pass
# the single known-findings file of the interface = concatenation of known_findings/*.json
kf = []
for f in sorted(glob.glob(os.path.join(ROOT, "known_findings", "*.json"))):
    kf += json.load(open(f)).get("findings", [])
json.dump(dict(comment="Committed list of genuine defects of lyraproj/pcore found by the checks (generated from known_findings/*.json by gen_manifest.py; "
               "never written by a check at run time). status=open: still in the tree, the check prints KNOWN-FINDING and goes on; "
               "status=fixed: repaired by the named fix: commit in /repo, suppresses nothing.", findings=kf),
          open(os.path.join(ROOT, "known_findings.json"), "w"), indent=1)
for p in props:
    pid = p["id"]
    if pid in CLAIMED:
        c = CLAIMED[pid]
        m["checks"].append(dict(
          property_id=pid, quick_cmd="./check %s --tier quick" % pid, thorough_cmd="./check %s --tier thorough" % pid,
          evidence_file="evidence/%s.json" % pid, replay_cmd_template="./check %s --replay {path}" % pid,
          engine="rocq-model+correspondence",
          level_claimed=dict(category="proof", text=c["text"], design_ref="DESIGN.md section " + c["design"]),
          level_note=c["note"], technique=c["technique"]))
    else:
        m["not_applicable"].append(dict(property_id=pid, reason=REASONS.get(pid, PENDING)))
json.dump(m, open(os.path.join(ROOT, "MANIFEST.json"), "w"), indent=1)
print("claimed:", sorted(CLAIMED))
