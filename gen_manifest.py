#!/usr/bin/env python3
"""Regenerates MANIFEST.json from the table below (kept next to ./check so both stay in step)."""
import json, os
ROOT = os.path.dirname(os.path.abspath(__file__))
props = [json.loads(l) for l in open(os.path.join(ROOT, "properties.jsonl"))]

TB = ("Trusted: Coq 8.16.1 kernel + vm_compute; the hand-written Gallina model (tied to the code by the correspondence "
      "run on every invocation); the Go harness (generators, term printers). No axioms (Print Assumptions: closed), no extraction.")

CLAIMED = {
 "C09": dict(
   text="Theorems (Rocq, all histories, unbounded): the index-carrying model of hash/stringhash.go refines the abstract "
        "insertion-ordered map for every operation sequence over any number of hashes (C09_stringhash_refines), never faults, "
        "keeps the index/entries coupling invariant; abstract-map laws for delete/put/freeze. Tie: every run executes "
        "bounded-exhaustive + random histories on the real StringHash and on the model (vm_compute) and compares every output; "
        "a Go-side reference map gives the concrete failing history.",
   note=TB + " Modelled rather than verified: Go map iteration order (irrelevant to the modelled methods), values are int64.",
   technique="Rocq refinement proof (simulation to an abstract insertion-ordered map) + model/implementation correspondence by vm_compute",
   design="5/C09"),
}
PENDING = "not yet claimed: model and check under construction (see DESIGN.md section 9 build order)"

m = dict(
  version=1,
  setup_cmd="./check setup",
  hooks=dict(guard="verif", enable="go build -tags verif (the harness is built with the tag; hook files are add-only)",
             baseline_off_cmd="cd /repo && go test -vet=off -count=1 ./...", source_commits=[], add_only=True),
  engines=[dict(name="rocq-model+correspondence", path="check", serves_properties=sorted(CLAIMED),
                kind_free_text="machine-checked proof in Rocq (Coq 8.16.1) about hand-written executable models; "
                               "models tied to /repo by a differential correspondence run (Go harness vs vm_compute)")],
  checks=[], not_applicable=[],
  notes="All checks: ./check <id> --tier quick|thorough; VERIF_SEED / VERIF_TIER honoured. known_findings.json lists open findings and fixes.")
hooks_file = os.path.join(ROOT, "hooks_commits.txt")
if os.path.exists(hooks_file):
    m["hooks"]["source_commits"] = [l.strip() for l in open(hooks_file) if l.strip()]
for p in props:
    pid = p["id"]
    if pid in CLAIMED:
        c = CLAIMED[pid]
        m["checks"].append(dict(
          property_id=pid, quick_cmd="./check %s --tier quick" % pid, thorough_cmd="./check %s --tier thorough" % pid,
          evidence_file="evidence/%s.json" % pid, replay_cmd_template="./check %s --replay {path}" % pid,
          engine="rocq-model+correspondence",
          level_claimed=dict(category="proof", text=c["text"], design_ref="DESIGN.md section " + c["design"]),
          level_note=c["note"], technique=c["technique"]))
    else:
        m["not_applicable"].append(dict(property_id=pid, reason=PENDING))
json.dump(m, open(os.path.join(ROOT, "MANIFEST.json"), "w"), indent=1)
print("claimed:", sorted(CLAIMED))
