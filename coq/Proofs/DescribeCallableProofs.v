(* DescribeCallableProofs.v — lemmas about the model of the Callable describer (C19, Model/DescribeCallable.v):
   totality of the description AND of its formatting (no mismatch carries a nil type), emptiness <->
   assignability, every mismatch lies below the given path, AssertType raises exactly when not assignable. *)
From Coq Require Import ZArith NArith Bool List Arith Lia.
From PcoreV Require Import Model.Base Model.Ty Model.Lattice Model.Describe Model.DescribeCallable Proofs.DescribeProofs.
Import ListNotations.

Section Proofs.
  Variable rx : str -> str -> bool.
  Variable teq : ty -> ty -> bool.
  Notation asg := (asg rx true).
  Notation casg := (casg rx).
  Notation casg_actual := (casg_actual rx).
  Notation describe_callable := (describe_callable rx teq).
  Notation idesc_callable := (idesc_callable rx teq).

  (* ---- CallableType.IsAssignable: the swapped recursion is IsAssignable with the arguments swapped ---- *)

  Lemma cq_flip x : forall y dir, cq rx x y dir = cq rx y x (negb dir).
  Proof.
    induction x as [xp xr|xp xr xo xb IH]; intros [yp yr|yp yr yo yb] dir; destruct dir; cbn [cq negb]; try reflexivity.
    - rewrite (IH yb false). reflexivity.
    - rewrite (IH yb true). reflexivity.
  Qed.

  (* the unfolding that reads like callabletype.go:216-248 *)
  Lemma casg_unfold e a :
    casg e a =
    (is_bare e ||
     (casg_head rx e a &&
      match cblock e, cblock a with
      | None, None => true
      | Some (eo, eb), Some (ao, ab) => implb eo ao && casg ab eb
      | _, _ => false
      end)).
  Proof.
    unfold DescribeCallable.casg. destruct e as [ep er|ep er eo eb], a as [ap ar|ap ar ao ab]; cbn [cq cblock negb]; try reflexivity.
    rewrite (cq_flip eb ab false). reflexivity.
  Qed.

  (* ---- totality of the description ---- *)

  Definition okc (r : res (list tmismatch)) : Prop := exists ms, r = Ok ms.
  Lemma okc_Ok ms : okc (Ok ms).
  Proof. eexists; reflexivity. Qed.
  Hint Resolve okc_Ok : core.

  Lemma params_ok (e : cty) (ca : cty) p :
    okc match cparams e with
        | None => Ok []
        | Some ep =>
            bind (describe_tuple rx teq (tuple_ty ep)
                    (map (fun t => idesc rx teq t (is_optional_ty t)) (tuple_types ep)) (tuple_lo ep) (tuple_hi ep)
                    (match cparams ca with Some ap => tuple_ty ap | None => default_tuple end) p)
                 (fun ms => Ok (map lift ms))
        end.
  Proof.
    destruct (cparams e) as [ep|]; auto.
    edestruct (describe_tuple_ok rx teq (tuple_ty ep)
                 (map (fun t => idesc rx teq t (is_optional_ty t)) (tuple_types ep)) (tuple_lo ep) (tuple_hi ep)
                 (match cparams ca with Some ap => tuple_ty ap | None => default_tuple end) p) as [ms ->].
    - apply Forall_map. apply Forall_forall. intros t _. apply idesc_total.
    - cbn. auto.
  Qed.

  Lemma describe_callable_ok e a p : okc (describe_callable e a p).
  Proof.
    unfold DescribeCallable.describe_callable. destruct a as [t|ca]; auto.
    destruct (params_ok e ca p) as [pe ->]. cbn [bind].
    destruct pe as [|m pe]; auto.
    match goal with |- context [if ?c then _ else _] => destruct c end; auto.
    destruct (cblock e) as [[eo eb]|]; auto.
    destruct (block_accepts rx eo eb (cblock ca)); auto.
    destruct (cblock ca); auto.
  Qed.

  Theorem idesc_callable_total e a p : exists ms, idesc_callable e a p = Ok ms.
  Proof.
    unfold DescribeCallable.idesc_callable. destruct (casg_actual e a); [eauto|].
    destruct (describe_callable_ok e a p) as [ms ->]. destruct ms; eauto.
  Qed.

  (* ---- emptiness ---- *)

  Theorem idesc_callable_empty_iff e a p : idesc_callable e a p = Ok [] <-> casg_actual e a = true.
  Proof.
    unfold DescribeCallable.idesc_callable. destruct (casg_actual e a); [tauto|].
    split; [|discriminate]. destruct (describe_callable e a p) as [[|m ms]|s]; discriminate.
  Qed.

  (* ---- no mismatch carries a nil type: formatting the message does not fault ---- *)

  Definition all_text_ok (r : res (list tmismatch)) : Prop := forall ms, r = Ok ms -> forallb text_ok ms = true.

  Lemma lift_text_ok ms : forallb text_ok (map lift ms) = true.
  Proof.
    induction ms as [|m ms IH]; cbn [map forallb]; [reflexivity|]. rewrite IH, andb_true_r.
    unfold lift, text_ok. cbn [snd]. destruct (has_types (fst m)); reflexivity.
  Qed.

  Lemma describe_callable_text_ok e a p : all_text_ok (describe_callable e a p).
  Proof.
    unfold DescribeCallable.describe_callable. destruct a as [t|ca].
    - intros ms E. inversion E. reflexivity.
    - destruct (cparams e) as [ep|].
      + destruct (describe_tuple rx teq _ _ _ _ _ p) as [pms|s]; cbn [bind]; [|intros ms E; discriminate].
        destruct (map lift pms) as [|m l] eqn:L.
        * destruct (cret e) as [er|]; cbn [present].
          -- destruct (asg er _).
             ++ destruct (cblock e) as [[eo eb]|]; [|intros ms E; inversion E; reflexivity].
                destruct (block_accepts rx eo eb (cblock ca)); [intros ms E; inversion E; reflexivity|].
                destruct (cblock ca); intros ms E; inversion E; reflexivity.
             ++ intros ms E; inversion E; reflexivity.
          -- destruct (cblock e) as [[eo eb]|]; [|intros ms E; inversion E; reflexivity].
             destruct (block_accepts rx eo eb (cblock ca)); [intros ms E; inversion E; reflexivity|].
             destruct (cblock ca); intros ms E; inversion E; reflexivity.
        * intros ms E. inversion E; subst. rewrite <- L. apply lift_text_ok.
      + cbn [bind]. destruct (cret e) as [er|]; cbn [present].
        * destruct (asg er _).
          -- destruct (cblock e) as [[eo eb]|]; [|intros ms E; inversion E; reflexivity].
             destruct (block_accepts rx eo eb (cblock ca)); [intros ms E; inversion E; reflexivity|].
             destruct (cblock ca); intros ms E; inversion E; reflexivity.
          -- intros ms E; inversion E; reflexivity.
        * destruct (cblock e) as [[eo eb]|]; [|intros ms E; inversion E; reflexivity].
          destruct (block_accepts rx eo eb (cblock ca)); [intros ms E; inversion E; reflexivity|].
          destruct (cblock ca); intros ms E; inversion E; reflexivity.
  Qed.

  Theorem idesc_callable_text_ok e a p ms : idesc_callable e a p = Ok ms -> forallb text_ok ms = true.
  Proof.
    unfold DescribeCallable.idesc_callable. destruct (casg_actual e a); [intros E; inversion E; reflexivity|].
    pose proof (describe_callable_text_ok e a p) as H.
    destruct (describe_callable e a p) as [[|m l]|s]; intros E; inversion E; subst; [reflexivity|].
    apply H. reflexivity.
  Qed.

  (* px.DescribeMismatch on an expected Callable: neither the description nor its formatting faults *)
  Theorem describe_mismatch_callable_total name e a :
    exists ms, describe_mismatch_callable rx teq name e a = Ok ms /\ idesc_callable e a (subject_path name) = Ok ms.
  Proof.
    unfold describe_mismatch_callable. destruct (idesc_callable_total e a (subject_path name)) as [ms E].
    rewrite E. cbn [bind]. rewrite (idesc_callable_text_ok _ _ _ _ E). eauto.
  Qed.

  Theorem describe_mismatch_callable_empty_iff name e a :
    describe_mismatch_callable rx teq name e a = Ok [] <-> casg_actual e a = true.
  Proof.
    destruct (describe_mismatch_callable_total name e a) as (ms & -> & E). rewrite <- (idesc_callable_empty_iff e a (subject_path name)), E.
    split; intros H; inversion H; reflexivity.
  Qed.

  (* ---- every mismatch lies below the given path ---- *)

  Definition belowc (p : path) (m : tmismatch) : Prop := exists r, snd (fst m) = p ++ r.
  Definition all_belowc (p : path) (r : res (list tmismatch)) : Prop := forall ms, r = Ok ms -> Forall (belowc p) ms.

  Lemma belowc_here c p k : belowc p ((c, p), k).
  Proof. exists []. cbn. now rewrite app_nil_r. Qed.
  Lemma belowc_pw c p kd key k : belowc p ((c, pw p kd key), k).
  Proof. exists [(kd, key)]. reflexivity. Qed.
  Lemma all_belowc_nil p : all_belowc p (Ok []).
  Proof. intros ms E; inversion E; constructor. Qed.
  Lemma all_belowc_one p m : belowc p m -> all_belowc p (Ok [m]).
  Proof. intros H ms E; inversion E; constructor; [exact H|constructor]. Qed.
  Hint Resolve all_belowc_nil all_belowc_one belowc_here belowc_pw : core.

  Lemma tail_below e ca p :
    all_belowc p
      (if match cret e, Some (match cret ca with Some t => t | None => TAny end) with
          | None, _ => true
          | Some t, Some t' => asg t t'
          | Some _, None => false
          end
       then match cblock e with
            | None => Ok []
            | Some (eo, eb) =>
                if block_accepts rx eo eb (cblock ca) then Ok [] else
                match cblock ca with
                | None => Ok [((CMissingRequiredBlock, p), NoTypes)]
                | Some ab => Ok [((CType, pw p PBlock (KName [])), Types true (present (Some ab)))]
                end
            end
       else Ok [((CType, pw p PReturn (KName [])),
                 Types (present (cret e)) (present (Some (match cret ca with Some t => t | None => TAny end))))]).
  Proof.
    match goal with |- context [if ?c then _ else _] => destruct c end; auto.
    destruct (cblock e) as [[eo eb]|]; auto.
    destruct (block_accepts rx eo eb (cblock ca)); auto.
    destruct (cblock ca); auto.
  Qed.

  Lemma describe_callable_below e a p : all_belowc p (describe_callable e a p).
  Proof.
    unfold DescribeCallable.describe_callable. destruct a as [t|ca]; auto.
    destruct (cparams e) as [ep|].
    - pose proof (describe_tuple_below rx teq (tuple_ty ep)
                    (map (fun t => idesc rx teq t (is_optional_ty t)) (tuple_types ep)) (tuple_lo ep) (tuple_hi ep)
                    (match cparams ca with Some ap => tuple_ty ap | None => default_tuple end) p) as HB.
      destruct (describe_tuple rx teq _ _ _ _ _ p) as [pms|s]; cbn [bind]; [|intros ms E; discriminate].
      assert (Hp : Forall (below p) pms).
      { apply HB; [|reflexivity]. apply Forall_map. apply Forall_forall. intros t _. apply idesc_keeps. }
      destruct (map lift pms) as [|m l] eqn:L; [apply tail_below|].
      intros ms E. inversion E; subst. rewrite <- L. apply Forall_map.
      eapply Forall_impl; [|exact Hp]. intros m' [r Hr]. exists r. exact Hr.
    - cbn [bind]. apply tail_below.
  Qed.

  Theorem idesc_callable_below e a p ms : idesc_callable e a p = Ok ms -> Forall (belowc p) ms.
  Proof.
    unfold DescribeCallable.idesc_callable. destruct (casg_actual e a); [intros E; inversion E; constructor|].
    pose proof (describe_callable_below e a p) as H.
    destruct (describe_callable e a p) as [[|m l]|s]; intros E; inversion E; subst.
    - constructor; [auto|constructor].
    - apply H. reflexivity.
  Qed.

  Theorem describe_mismatch_callable_names_subject name e a ms :
    describe_mismatch_callable rx teq name e a = Ok ms ->
    Forall (fun m => hd_error (snd (fst m)) = Some (PSubject, KName (fn_prefix ++ name ++ [58%N]))) ms.
  Proof.
    intros E. destruct (describe_mismatch_callable_total name e a) as (ms' & E' & D). rewrite E' in E. inversion E; subst ms'.
    eapply Forall_impl; [|apply (idesc_callable_below _ _ _ _ D)].
    intros [[c q] k] [r Hr]. cbn in Hr |- *. subst q. reflexivity.
  Qed.

  (* ---- AssertType ---- *)

  Theorem assert_type_callable_total name e a : exists o, assert_type_callable rx teq name e a = Ok o.
  Proof.
    unfold assert_type_callable. destruct (casg_actual e a); [eauto|].
    destruct (describe_mismatch_callable_total name e a) as (ms & -> & _). cbn. eauto.
  Qed.

  Theorem assert_type_callable_raises_iff name e a :
    (assert_type_callable rx teq name e a = Ok Returns <-> casg_actual e a = true) /\
    ((exists m ms, assert_type_callable rx teq name e a = Ok (Raises TypeMismatchIssue (m :: ms))) <-> casg_actual e a = false).
  Proof.
    unfold assert_type_callable. destruct (casg_actual e a) eqn:A.
    - split; [tauto|]. split; [intros (m & ms & E); discriminate|discriminate].
    - destruct (describe_mismatch_callable_total name e a) as (ms & E & D). rewrite E. cbn.
      split; [split; discriminate|]. split; [reflexivity|]. intros _.
      destruct ms as [|m ms]; [|cbn; eauto]. apply idesc_callable_empty_iff in D. congruence.
  Qed.
End Proofs.
