(* LoaderAddCorollaries.v — consequences for px.AddTypes, proved on the abstract specification and transferred:
   bindings are kept by histories with AddTypes; a member of a type set (or any name AddTypes binds behind the
   `le == nil || le.Value() == nil` test) that was looked up in vain before resolves to its type afterwards. *)
From Coq Require Import Arith NArith Bool List Lia.
From PcoreV Require Import Model.Base Model.Loader Model.LoaderSpec Model.LoaderAdd Proofs.LoaderNames Proofs.LoaderProofs
  Proofs.LoaderCorollaries Proofs.LoaderAddProofs Proofs.LoaderAddScoped.
Import ListNotations.

(* ---------------------------------------------------------------------------------------------- *)
(* sequences of calls *)
Section ExecApp.
  Context {S : Type}.
  Variable stp : S -> op -> S * out.
  Variable addn : S -> lkind -> S * out.
  Variable len : S -> nat.
  Variables L base : nat.

  Lemma exec_app : forall is1 is2 s,
    exec stp addn len L base s (is1 ++ is2) =
    let '(s1, o1) := exec stp addn len L base s is1 in
    match o1 with AOk => exec stp addn len L base s1 is2 | _ => (s1, o1) end.
  Proof.
    induction is1 as [|i is1 IH]; intros is2 s; [reflexivity|].
    cbn [app exec]. destruct (exec_instr stp addn len L base s i) as [s1 o1].
    destruct o1; try reflexivity. apply IH.
  Qed.
End ExecApp.

(* ---------------------------------------------------------------------------------------------- *)
(* every call keeps every binding *)
Section Ext.
  Variable cfg : config.
  Variables L base : nat.

  Lemma exec_set_ext a r n v a' o : exec_set (spec_step cfg) L base a r n v = (a', o) -> ext a a'.
  Proof.
    unfold exec_set. destruct (spec_step cfg a (ODefine (ref_idx L base r) n v)) as [a1 r1] eqn:E.
    intros H. injection H as <- _. eapply spec_step_ext; eauto.
  Qed.

  Lemma exec_act_ext a x a' o : exec_act (spec_step cfg) L base a x = (a', o) -> ext a a'.
  Proof.
    destruct x as [r n v|r n v]; cbn [exec_act]; [apply exec_set_ext|].
    destruct (spec_step cfg a (OLoadEntry (ref_idx L base r) n)) as [a1 r1] eqn:E.
    pose proof (spec_step_ext _ _ _ _ _ E) as He.
    intros H. destruct r1 as [| | | |[| |]| | | | |];
      try (injection H as <- _; exact He);
      (eapply ext_trans; [exact He|eapply exec_set_ext; eauto]).
  Qed.

  Lemma exec_acts_ext : forall acts a a' o, exec_acts (spec_step cfg) L base a acts = (a', o) -> ext a a'.
  Proof.
    induction acts as [|x acts IH]; intros a a' o H; cbn [exec_acts] in H.
    - injection H as <- _. apply ext_refl.
    - destruct (exec_act (spec_step cfg) L base a x) as [a1 o1] eqn:E.
      pose proof (exec_act_ext _ _ _ _ E) as He.
      destruct o1; try (injection H as <- _; exact He).
      eapply ext_trans; [exact He|eapply IH; eauto].
  Qed.

  Lemma exec_instr_ext a i a' o :
    exec_instr (spec_step cfg) spec_add (@length anode) L base a i = (a', o) -> ext a a'.
  Proof.
    destruct i as [x|p ts|r n body|ca]; cbn [exec_instr].
    4: { intros H. injection H as <- _. apply ext_refl. }
    - apply exec_act_ext.
    - destruct (Nat.ltb (ref_idx L base p) (length a)); intros H.
      + unfold spec_add in H. injection H as <- _. apply ext_app.
      + injection H as <- _. apply ext_refl.
    - destruct (spec_step cfg a (OLoadEntry (ref_idx L base r) n)) as [a1 r1] eqn:E.
      pose proof (spec_step_ext _ _ _ _ _ E) as He.
      intros H. destruct r1 as [| | | |[| |]| | | | |];
        try (injection H as <- _; exact He);
        (eapply ext_trans; [exact He|eapply exec_acts_ext; eauto]).
  Qed.

  Lemma exec_ext : forall is a a' o,
    exec (spec_step cfg) spec_add (@length anode) L base a is = (a', o) -> ext a a'.
  Proof.
    induction is as [|i is IH]; intros a a' o H; cbn [exec] in H.
    - injection H as <- _. apply ext_refl.
    - destruct (exec_instr (spec_step cfg) spec_add (@length anode) L base a i) as [a1 o1] eqn:E.
      pose proof (exec_instr_ext _ _ _ _ E) as He.
      destruct o1; try (injection H as <- _; exact He).
      eapply ext_trans; [exact He|eapply IH; eauto].
  Qed.
End Ext.

Lemma spec_xstep_ext cfg a x a' r : spec_xstep cfg a x = (a', r) -> ext a a'.
Proof.
  destruct x as [o|l ts|l ts]; cbn [spec_xstep].
  - destruct (spec_step cfg a o) as [a1 r1] eqn:E. intros H. injection H as <- _. eapply spec_step_ext; eauto.
  - destruct (Nat.ltb l (length a)).
    + destruct (exec (spec_step cfg) spec_add (@length anode) l (length a) a (compile (cfg_auth cfg) ts)) as [a1 o1] eqn:E.
      intros H. injection H as <- _. eapply exec_ext; eauto.
    + intros H. injection H as <- _. apply ext_refl.
  - destruct (Nat.ltb l (length a)).
    + destruct (exec (spec_step cfg) spec_add (@length anode) l (length a) a (compile_decl (cfg_auth cfg) ts)) as [a1 o1] eqn:E.
      intros H. injection H as <- _. eapply exec_ext; eauto.
    + intros H. injection H as <- _. apply ext_refl.
Qed.

Lemma spec_xrun_from_ext cfg : forall xs a, ext a (fst (spec_xrun_from cfg a xs)).
Proof.
  induction xs as [|x xs IH]; intros a; [apply ext_refl|].
  cbn [spec_xrun_from]. destruct (spec_xstep cfg a x) as [a1 r] eqn:E.
  specialize (IH a1). destruct (spec_xrun_from cfg a1 xs) as [a2 rs]. cbn [fst] in *.
  eapply ext_trans; [eapply spec_xstep_ext; eauto|exact IH].
Qed.

Lemma spec_xrun_from_app cfg : forall xs1 xs2 a,
  fst (spec_xrun_from cfg a (xs1 ++ xs2)) = fst (spec_xrun_from cfg (fst (spec_xrun_from cfg a xs1)) xs2).
Proof.
  induction xs1 as [|x xs1 IH]; intros xs2 a; [reflexivity|].
  cbn [app spec_xrun_from]. destruct (spec_xstep cfg a x) as [a1 r]. specialize (IH xs2 a1).
  destruct (spec_xrun_from cfg a1 (xs1 ++ xs2)) as [a2 rs]. destruct (spec_xrun_from cfg a1 xs1) as [a3 rs3].
  cbn [fst] in *. rewrite IH. destruct (spec_xrun_from cfg a3 xs2). reflexivity.
Qed.

(* write-once, for histories with px.AddTypes: a binding a loader owns stays what it is *)
Theorem xwrite_once cfg xs xs' l k v :
  cfg_wf cfg = true -> forallb (xop_wf cfg) (xs ++ xs') = true ->
  assoc k (own_binds (abs (fst (xrun cfg xs))) l) = Some v ->
  assoc k (own_binds (abs (fst (xrun cfg (xs ++ xs')))) l) = Some v.
Proof.
  intros Hc Hw H. pose proof Hw as Hw'. rewrite forallb_app in Hw'. apply andb_prop in Hw'. destruct Hw' as [Hw1 _].
  assert (E : ext (abs (fst (xrun cfg xs))) (abs (fst (xrun cfg (xs ++ xs'))))).
  { rewrite (xloader_state_refines cfg _ Hc Hw), (xloader_state_refines cfg _ Hc Hw1).
    unfold spec_xrun. rewrite spec_xrun_from_app. apply spec_xrun_from_ext. }
  unfold own_binds in *.
  destruct (nth_error (abs (fst (xrun cfg xs))) l) as [nd|] eqn:Hn; [|discriminate].
  destruct (E l nd Hn) as (nd' & Hn' & _ & Hb). rewrite Hn'. apply Hb. exact H.
Qed.

(* ---------------------------------------------------------------------------------------------- *)
(* the calls of one px.AddTypes through a loader L that is not a type-set loader: they bind in L only *)

Lemma def_target_same_kinds : forall f a a' l t,
  same_kinds a a' -> def_target f a l = Some t -> def_target f a' l = Some t.
Proof.
  induction f as [|f IH]; intros a a' l t Hk H; [discriminate|].
  cbn [def_target] in *. destruct (nth_error a l) as [nd|] eqn:E; [|discriminate].
  destruct (Hk l nd E) as (nd' & E' & K). rewrite E', K.
  destruct (akind nd); try exact H. eapply IH; eauto.
Qed.

Lemma def_target_mono : forall f f' a l t, def_target f a l = Some t -> f <= f' -> def_target f' a l = Some t.
Proof.
  induction f as [|f IH]; intros f' a l t H Hle; [discriminate|].
  destruct f' as [|f']; [lia|]. cbn [def_target] in *.
  destruct (nth_error a l) as [nd|]; [|discriminate].
  destruct (akind nd); try exact H. apply (IH f'); [exact H|lia].
Qed.

Definition frame (L base : nat) (ks : list str) (a a' : astate) : Prop :=
  ext a a' /\
  (forall q, q <> L -> q < base -> own_binds a' q = own_binds a q) /\
  (forall k, ~ In k ks -> assoc k (own_binds a' L) = assoc k (own_binds a L)).

Lemma frame_refl L base ks a : frame L base ks a a.
Proof. split; [apply ext_refl|]. split; reflexivity. Qed.

Lemma frame_trans L base ks1 ks2 a b c : frame L base ks1 a b -> frame L base ks2 b c -> frame L base (ks1 ++ ks2) a c.
Proof.
  intros (E1 & O1 & K1) (E2 & O2 & K2). split; [eapply ext_trans; eauto|]. split.
  - intros q Hq Hb. rewrite O2, O1; auto.
  - intros k Hk. rewrite K2, K1; auto; intros I; apply Hk; apply in_or_app; auto.
Qed.

Lemma frame_weaken L base ks ks' a b : incl ks ks' -> frame L base ks a b -> frame L base ks' a b.
Proof. intros Hi (E & O & K). split; [exact E|]. split; [exact O|]. intros k Hk. apply K. intros I. apply Hk, Hi, I. Qed.

(* the state of a call in progress: c type-set loaders made, all of them defining into L *)
Definition hid (a : astate) (L base c : nat) : Prop :=
  length a = base + c /\ L < base /\ tree_ok a /\
  (exists nd, nth_error a L = Some nd /\ is_tset (akind nd) = false) /\
  (forall k, k < c -> def_target (S (base + k)) a (base + k) = Some L).

Lemma hid_target a L base c r :
  hid a L base c -> ref_ok c r = true ->
  ref_idx L base r < length a /\ def_target (S (ref_idx L base r)) a (ref_idx L base r) = Some L.
Proof.
  intros (Hlen & HL & _ & (nd & En & Kn) & Hh) Hr. destruct r as [|k]; cbn [ref_idx ref_ok] in *.
  - split; [lia|]. cbn [def_target]. rewrite En. destruct (akind nd); try reflexivity. discriminate.
  - apply Nat.ltb_lt in Hr. split; [lia|]. apply Hh. exact Hr.
Qed.

Lemma tree_ok_same a a' : tree_ok a -> same_kinds a a' -> length a' = length a -> tree_ok a'.
Proof.
  intros Ht Hk Hl l nd p E Hp.
  assert (Hlt : l < length a) by (rewrite <- Hl; apply nth_error_Some; congruence).
  destruct (nth_error a l) as [nd0|] eqn:E0; [|apply nth_error_None in E0; lia].
  destruct (Hk l nd0 E0) as (nd' & E' & K). rewrite E in E'. injection E' as <-.
  eapply Ht; eauto. rewrite <- K. exact Hp.
Qed.

Lemma hid_set_binds a L base c bs : hid a L base c -> hid (set_binds a L bs) L base c.
Proof.
  intros (Hlen & HL & Ht & (nd & En & Kn) & Hh).
  pose proof (same_kinds_set_binds a L bs) as Hk.
  split; [rewrite set_binds_length; exact Hlen|]. split; [exact HL|].
  split; [eapply tree_ok_same; eauto; apply set_binds_length|]. split.
  - rewrite nth_set_binds, Nat.eqb_refl, En. cbn [option_map]. eexists. split; [reflexivity|exact Kn].
  - intros k Hk'. eapply def_target_same_kinds; eauto.
Qed.

Lemma hid_add a L base c j ts :
  hid a L base c -> j < length a -> def_target (S j) a j = Some L ->
  hid (a ++ [mkA (KTypeSet j ts) []]) L base (S c).
Proof.
  intros (Hlen & HL & Ht & (nd & En & Kn) & Hh) Hj Hd.
  pose proof (ext_same_kinds _ _ (ext_app a (mkA (KTypeSet j ts) []))) as Hk.
  split; [rewrite app_length; cbn [length]; lia|]. split; [exact HL|]. split; [|split].
  - intros l nd' p E Hp. destruct (Nat.lt_ge_cases l (length a)) as [Hl|Hl].
    + rewrite nth_error_app1 in E by exact Hl. eapply Ht; eauto.
    + rewrite nth_error_app2 in E by exact Hl.
      destruct (l - length a) as [|d] eqn:Ed; cbn [nth_error] in E; [|destruct d; discriminate].
      injection E as <-. cbn [akind parent_of] in Hp. injection Hp as <-. lia.
  - exists nd. split; [|exact Kn]. rewrite nth_error_app1; [exact En|lia].
  - intros k Hk'. destruct (Nat.eq_dec k c) as [->|Hne].
    + rewrite <- Hlen. cbn [def_target]. rewrite nth_error_app2 by lia. rewrite Nat.sub_diag. cbn [nth_error akind].
      eapply def_target_same_kinds; [exact Hk|]. eapply def_target_mono; [exact Hd|lia].
    + eapply def_target_same_kinds; [exact Hk|]. apply Hh. lia.
Qed.

Section Frame.
  Variable cfg : config.
  Variables L base : nat.

  Lemma spec_loadentry_state a j n : fst (spec_step cfg a (OLoadEntry j n)) = a.
  Proof. cbn [spec_step]. destruct (Nat.ltb j (length a)); reflexivity. Qed.

  Lemma exec_set_frame a c r n v a' o :
    hid a L base c -> ref_ok c r = true ->
    exec_set (spec_step cfg) L base a r n v = (a', o) ->
    hid a' L base c /\ frame L base [map_key (norm n)] a a'.
  Proof.
    intros Hh Hr H. destruct (hid_target a L base c r Hh Hr) as [Hj Hd].
    unfold exec_set in H. cbn [spec_step] in H.
    destruct (Nat.ltb_spec (ref_idx L base r) (length a)) as [_|]; [|lia].
    unfold spec_define in H. rewrite Hd in H. revert H.
    destruct (assoc (map_key (norm n)) (own_binds a L)) as [old|] eqn:Ea; intros H; injection H as <- _.
    - split; [exact Hh|apply frame_refl].
    - split; [apply hid_set_binds; exact Hh|].
      destruct Hh as (Hlen & HL & _). split; [apply ext_set_binds; exact Ea|]. split.
      + intros q Hq _. apply own_binds_set_other. exact Hq.
      + intros k Hk. rewrite own_binds_set_same by lia. rewrite assoc_app.
        destruct (assoc k (own_binds a L)); [reflexivity|]. cbn [assoc].
        destruct (str_eqb_spec (map_key (norm n)) k) as [Ek|]; [|reflexivity]. exfalso. apply Hk. left. exact Ek.
  Qed.

  Lemma exec_act_frame a c x a' o :
    hid a L base c -> ref_ok c (act_ref x) = true ->
    exec_act (spec_step cfg) L base a x = (a', o) ->
    hid a' L base c /\ frame L base [act_key x] a a'.
  Proof.
    intros Hh Hr H. destruct x as [r n v|r n v]; cbn [exec_act act_ref act_key act_name] in *.
    - eapply exec_set_frame; eauto.
    - pose proof (spec_loadentry_state a (ref_idx L base r) n) as Hs.
      destruct (spec_step cfg a (OLoadEntry (ref_idx L base r) n)) as [a1 r1]. cbn [fst] in Hs. subst a1.
      destruct r1 as [| | | |[| |]| | | | |];
        try (injection H as <- _; split; [exact Hh|apply frame_refl]);
        (eapply exec_set_frame; eauto).
  Qed.

  Lemma exec_acts_frame : forall acts a c a' o,
    hid a L base c -> forallb (fun x => ref_ok c (act_ref x)) acts = true ->
    exec_acts (spec_step cfg) L base a acts = (a', o) ->
    hid a' L base c /\ frame L base (map act_key acts) a a'.
  Proof.
    induction acts as [|x acts IH]; intros a c a' o Hh Hr H; cbn [exec_acts forallb map] in *.
    - injection H as <- _. split; [exact Hh|apply frame_refl].
    - apply andb_prop in Hr. destruct Hr as [Hrx Hr].
      destruct (exec_act (spec_step cfg) L base a x) as [a1 o1] eqn:E.
      destruct (exec_act_frame a c x a1 o1 Hh Hrx E) as [Hh1 Hf1].
      assert (Hw : frame L base (act_key x :: map act_key acts) a a1)
        by (eapply frame_weaken; [|exact Hf1]; intros k [<-|[]]; left; reflexivity).
      destruct o1; try (injection H as <- _; split; [exact Hh1|exact Hw]).
      destruct (IH a1 c a' o Hh1 Hr H) as [Hh2 Hf2]. split; [exact Hh2|].
      exact (frame_trans L base [act_key x] _ _ _ _ Hf1 Hf2).
  Qed.

  Lemma exec_instr_frame a c i a' o :
    hid a L base c -> scoped c [i] = true ->
    exec_instr (spec_step cfg) spec_add (@length anode) L base a i = (a', o) ->
    exists c', (c' = c \/ c' = S c) /\ scoped c' [] = true /\ (forall is, scoped c (i :: is) = true -> scoped c' is = true) /\
               hid a' L base c' /\ frame L base (instr_keys i) a a'.
  Proof.
    intros Hh Hs H. destruct i as [x|p ts|r n body|ca]; cbn [exec_instr scoped instr_keys] in *.
    4: { injection H as <- _. exists c. split; [left; reflexivity|]. split; [reflexivity|].
         split; [|split; [exact Hh|apply frame_refl]].
         intros is His. apply andb_prop in His. apply His. }
    - apply andb_prop in Hs. destruct Hs as [Hr _].
      destruct (exec_act_frame a c x a' o Hh Hr H) as [Hh1 Hf1].
      exists c. split; [left; reflexivity|]. split; [reflexivity|]. split; [|split; assumption].
      intros is His. apply andb_prop in His. apply His.
    - apply andb_prop in Hs. destruct Hs as [Hr _].
      destruct (hid_target a L base c p Hh Hr) as [Hj Hd].
      destruct (Nat.ltb_spec (ref_idx L base p) (length a)) as [_|]; [|lia].
      unfold spec_add in H. injection H as <- _.
      exists (S c). split; [right; reflexivity|]. split; [reflexivity|]. split; [|split].
      + intros is His. apply andb_prop in His. apply His.
      + apply hid_add; assumption.
      + split; [apply ext_app|]. destruct Hh as (Hlen & HL & _). split.
        * intros q _ Hq. unfold own_binds. rewrite nth_error_app1 by lia. reflexivity.
        * intros k _. unfold own_binds. rewrite nth_error_app1 by lia. reflexivity.
    - apply andb_prop in Hs. destruct Hs as [Hs _]. apply andb_prop in Hs. destruct Hs as [Hr Hb].
      pose proof (spec_loadentry_state a (ref_idx L base r) n) as Hst.
      destruct (spec_step cfg a (OLoadEntry (ref_idx L base r) n)) as [a1 r1]. cbn [fst] in Hst. subst a1.
      assert (Hsc : forall is, ref_ok c r && forallb (fun x => ref_ok c (act_ref x)) body && scoped c is = true -> scoped c is = true)
        by (intros is His; apply andb_prop in His; apply His).
      destruct r1 as [| | | |[| |]| | | | |];
        try (injection H as <- _; exists c; split; [left; reflexivity|]; split; [reflexivity|]; split; [exact Hsc|];
             split; [exact Hh|apply frame_refl]);
        (destruct (exec_acts_frame body a c a' o Hh Hb H) as [Hh1 Hf1];
         exists c; split; [left; reflexivity|]; split; [reflexivity|]; split; [exact Hsc|]; split; assumption).
  Qed.

  Lemma exec_frame : forall is a c a' o,
    hid a L base c -> scoped c is = true ->
    exec (spec_step cfg) spec_add (@length anode) L base a is = (a', o) ->
    exists c', hid a' L base c' /\ frame L base (flat_map instr_keys is) a a' /\
               (o = AOk -> forall rest, scoped c (is ++ rest) = true -> scoped c' rest = true).
  Proof.
    induction is as [|i is IH]; intros a c a' o Hh Hs H; cbn [exec flat_map] in *.
    - injection H as <- _. exists c. split; [exact Hh|]. split; [apply frame_refl|]. intros _ rest Hr. exact Hr.
    - destruct (exec_instr (spec_step cfg) spec_add (@length anode) L base a i) as [a1 o1] eqn:E.
      assert (Hs1 : scoped c [i] = true).
      { destruct i as [x|p ts|r n body|ca]; cbn [scoped] in *; apply andb_prop in Hs; destruct Hs as [Hs _]; rewrite Hs; reflexivity. }
      destruct (exec_instr_frame a c i a1 o1 Hh Hs1 E) as (c1 & _ & _ & Hsc & Hh1 & Hf1).
      assert (Hw : frame L base (instr_keys i ++ flat_map instr_keys is) a a1)
        by (eapply frame_weaken; [|exact Hf1]; intros k I; apply in_or_app; left; exact I).
      destruct o1; try (injection H as <- <-; exists c1; split; [exact Hh1|]; split; [exact Hw|]; intros Ho; discriminate Ho).
      destruct (IH a1 c1 a' o Hh1 (Hsc is Hs) H) as (c2 & Hh2 & Hf2 & Hr2).
      exists c2. split; [exact Hh2|]. split; [exact (frame_trans L base _ _ _ _ _ Hf1 Hf2)|].
      intros Ho rest Hr. apply (Hr2 Ho). apply Hsc. exact Hr.
  Qed.
End Frame.

Lemma scoped_app_l : forall is1 is2 c, scoped c (is1 ++ is2) = true -> scoped c is1 = true.
Proof.
  induction is1 as [|i is1 IH]; intros is2 c H; [reflexivity|].
  destruct i as [x|p ts|r n body|ca]; cbn [app scoped] in *; apply andb_prop in H; destruct H as [H1 H2]; rewrite H1;
    cbn [andb]; eapply IH; eauto.
Qed.

(* resolution through a loader that is not a type-set loader looks at the loader's ancestors and at its own
   binding of the name *)
Lemma resolve_plain_frame : forall f a a' L n,
  tree_ok a -> same_kinds a a' -> L < length a ->
  (exists nd, nth_error a L = Some nd /\ is_tset (akind nd) = false) ->
  (forall q, q < L -> own_binds a' q = own_binds a q) ->
  assoc (map_key n) (own_binds a' L) = assoc (map_key n) (own_binds a L) ->
  spec_resolve f a' L n = spec_resolve f a L n.
Proof.
  intros [|f] a a' L n Ht Hk HL (nd & En & Kn) Hq Hown; [reflexivity|].
  rewrite !spec_resolve_S. rewrite En. destruct (Hk L nd En) as (nd' & En' & K). rewrite En', K.
  rewrite (own_binds_nth _ _ _ En), (own_binds_nth _ _ _ En') in Hown.
  destruct (akind nd) as [| |p|p ts] eqn:Kd; try discriminate.
  - rewrite Hown. reflexivity.
  - rewrite Hown. reflexivity.
  - assert (Hp : p < L) by (eapply Ht; eauto; rewrite Kd; reflexivity).
    rewrite (resolve_same f a a' p n Ht Hk ltac:(lia)).
    + rewrite Hown. reflexivity.
    + intros q [->|Ha]; apply Hq; [exact Hp|]. pose proof (ancestor_lt a p q Ht Ha). lia.
Qed.

Lemma ok_pair {A} (s s' : A) (o : aout) : (s, o) = (s', AOk) -> s = s' /\ o = AOk.
Proof. intros H. injection H as -> ->. split; reflexivity. Qed.

(* On the specification: the calls of px.AddTypes through L (not a type-set loader) contain
   `le := L.LoadEntry(c, n); if le == nil || le.Value() == nil { L.SetEntry(n, v); ... }`, no earlier call of the
   sequence binds n, n did not resolve through L when px.AddTypes began and px.AddTypes ended normally: then n
   resolves to v. *)
Lemma spec_addtypes_miss cfg a L pre n v body post a' :
  tree_ok a -> L < length a -> (exists nd, nth_error a L = Some nd /\ is_tset (akind nd) = false) ->
  scoped 0 (pre ++ IUnless HL n (ASet HL n v :: body) :: post) = true ->
  ~ In (map_key (norm n)) (flat_map instr_keys pre) ->
  spec_resolve_top a L (norm n) = Some None ->
  exec (spec_step cfg) spec_add (@length anode) L (length a) a (pre ++ IUnless HL n (ASet HL n v :: body) :: post) = (a', AOk) ->
  spec_resolve_top a' L (norm n) = Some (Some v).
Proof.
  intros Ht HLt Hp Hs Hk Hr H.
  assert (Hh : hid a L (length a) 0).
  { split; [lia|]. split; [exact HLt|]. split; [exact Ht|]. split; [exact Hp|]. intros k Hlt. lia. }
  rewrite exec_app in H.
  destruct (exec (spec_step cfg) spec_add (@length anode) L (length a) a pre) as [a1 o1] eqn:E1.
  destruct (exec_frame cfg L (length a) pre a 0 a1 o1 Hh (scoped_app_l _ _ _ Hs) E1) as (c1 & Hh1 & (He1 & Hq1 & Hk1) & Hs1).
  destruct o1; try (apply ok_pair in H; destruct H as [_ H]; discriminate H).
  specialize (Hs1 eq_refl _ Hs). cbn [scoped ref_ok forallb act_ref andb] in Hs1.
  apply andb_prop in Hs1. destruct Hs1 as [Hsb Hsp].
  (* the name still does not resolve *)
  pose proof (ext_same_kinds _ _ He1) as Hsk.
  assert (Hr1 : spec_resolve_top a1 L (norm n) = Some None).
  { unfold spec_resolve_top in *. rewrite (resolve_plain_frame _ a a1 L (norm n) Ht Hsk HLt Hp); [exact Hr| |].
    - intros q Hq. apply Hq1; lia.
    - apply Hk1. exact Hk. }
  pose proof (ext_length _ _ He1) as Hlen1.
  destruct (hid_target a1 L (length a) c1 LoaderAdd.HL Hh1 eq_refl) as [HL1 Hd1].
  cbn [ref_idx] in HL1, Hd1.
  pose proof Hh1 as (_ & _ & Ht1 & _).
  pose proof (miss_target_unbound _ _ _ _ _ _ Hr1 Hd1) as Hn1.
  (* the guard and the definition *)
  cbn [exec exec_instr ref_idx spec_step] in H.
  destruct (Nat.ltb_spec L (length a1)) as [_|]; [|lia].
  rewrite Hr1 in H. cbn [eobs_of_val exec_acts exec_act] in H. unfold exec_set in H. cbn [ref_idx spec_step] in H.
  destruct (Nat.ltb_spec L (length a1)) as [_|]; [|lia].
  unfold spec_define in H. rewrite Hd1, Hn1 in H.
  set (a2 := set_binds a1 L (own_binds a1 L ++ [(map_key (norm n), v)])) in *.
  assert (Hr2 : spec_resolve_top a2 L (norm n) = Some (Some v))
    by (unfold spec_resolve_top in *; exact (define_resolves _ _ a1 L (norm n) v L Ht1 Hd1 Hn1 Hr1)).
  assert (Hh2 : hid a2 L (length a) c1) by (apply hid_set_binds; exact Hh1).
  (* the remaining calls keep the ancestors of L as they are *)
  assert (Hrest : exists ks, frame L (length a) ks a2 a').
  { destruct (exec_acts (spec_step cfg) L (length a) a2 body) as [a3 o3] eqn:E3.
    destruct (exec_acts_frame cfg L (length a) body a2 c1 a3 o3 Hh2 Hsb E3) as [Hh3 Hf3].
    destruct o3; try (apply ok_pair in H; destruct H as [_ H]; discriminate H).
    destruct (exec_frame cfg L (length a) post a3 c1 a' AOk Hh3 Hsp H) as (c4 & _ & Hf4 & _).
    eexists. exact (frame_trans _ _ _ _ _ _ _ Hf3 Hf4). }
  destruct Hrest as (ks & He2 & Hq2 & _).
  pose proof Hh2 as (Hlen2 & _ & Ht2 & _).
  unfold spec_resolve_top in *.
  apply (resolve_stable _ a2 a' L (norm n) v Ht2 He2); [lia| |exact Hr2].
  intros p Ha. pose proof (ancestor_lt a2 L p Ht2 Ha). apply Hq2; lia.
Qed.

(* misses are not sticky for px.AddTypes: after ANY history, if a lookup of n through a loader (not a type-set
   loader) fails and px.AddTypes through that loader then ends normally, and its calls contain
   `le := l.LoadEntry(c, n); if le == nil || le.Value() == nil { l.SetEntry(n, v); ... }` with no earlier call
   binding n (for a type set: n = the qualified name of a member, v = the member), then n resolves to v. *)
Theorem addtypes_miss_not_sticky cfg xs l ts pre n v body post :
  cfg_wf cfg = true -> forallb (xop_wf cfg) xs = true -> xop_wf cfg (XAddTypes l ts) = true ->
  op_wf (OLoad l n) = true -> tn_auth (norm n) = cfg_auth cfg ->
  compile (cfg_auth cfg) ts = pre ++ IUnless HL n (ASet HL n v :: body) :: post ->
  ~ In (map_key (norm n)) (flat_map instr_keys pre) ->
  (exists nd, nth_error (fst (xrun cfg xs)) l = Some nd /\ is_tset (nkind nd) = false) ->
  xresult_after cfg xs (XOp (OLoad l n)) = XR (RFound None) ->
  xresult_after cfg (xs ++ [XOp (OLoad l n)]) (XAddTypes l ts) = XA AOk ->
  xresult_after cfg (xs ++ [XOp (OLoad l n); XAddTypes l ts]) (XOp (OLoad l n)) = XR (RFound (Some v)).
Proof.
  intros Hc Hw Hwa Ho Hau Hcomp Hk (nd & En & Kn) H1 H2.
  assert (Hwo : xop_wf cfg (XOp (OLoad l n)) = true) by exact Ho.
  assert (Hw1 : forallb (xop_wf cfg) (xs ++ [XOp (OLoad l n)]) = true)
    by (rewrite forallb_app, Hw; cbn [forallb]; rewrite Hwo; reflexivity).
  assert (Hw2 : forallb (xop_wf cfg) ((xs ++ [XOp (OLoad l n)]) ++ [XAddTypes l ts]) = true)
    by (rewrite forallb_app, Hw1; cbn [forallb]; rewrite Hwa; reflexivity).
  assert (Hl : l < length (fst (xrun cfg xs))) by (apply nth_error_Some; congruence).
  (* the failed lookup *)
  destruct (xresult_after_sim cfg xs _ Hc Hw Hwo) as [Hi0 Hs1]. rewrite H1 in Hs1.
  cbn [spec_xstep spec_step xproject project] in Hs1. rewrite abs_length in Hs1.
  destruct (Nat.ltb_spec l (length (fst (xrun cfg xs)))) as [_|]; [|lia].
  rewrite Hau, str_eqb_refl in Hs1. cbn [negb] in Hs1.
  destruct (spec_resolve_top (abs (fst (xrun cfg xs))) l (norm n)) as [x|] eqn:Hr; [|discriminate].
  injection Hs1 as Ha1 Hx. subst x.
  (* px.AddTypes *)
  destruct (xresult_after_sim cfg (xs ++ [XOp (OLoad l n)]) _ Hc Hw1 Hwa) as [Hi1 Hs2]. rewrite H2 in Hs2.
  rewrite <- Ha1 in Hs2. cbn [spec_xstep xproject] in Hs2. rewrite abs_length in Hs2.
  destruct (Nat.ltb_spec l (length (fst (xrun cfg xs)))) as [_|]; [|lia].
  destruct (exec (spec_step cfg) spec_add (@length anode) l (length (fst (xrun cfg xs))) (abs (fst (xrun cfg xs)))
              (compile (cfg_auth cfg) ts)) as [a2 o2] eqn:E2.
  injection Hs2 as Ha2 Ho2. subst o2.
  pose proof (compile_scoped (cfg_auth cfg) ts) as Hsc.
  rewrite Hcomp in E2, Hsc. rewrite <- (abs_length (fst (xrun cfg xs))) in E2.
  assert (Hr2 : spec_resolve_top a2 l (norm n) = Some (Some v)).
  { eapply spec_addtypes_miss; eauto.
    - apply tree_ok_abs. exact Hi0.
    - rewrite abs_length. exact Hl.
    - rewrite nth_abs, En. cbn [option_map]. eexists. split; [reflexivity|exact Kn]. }
  pose proof (ext_length _ _ (exec_ext cfg _ _ _ _ _ _ E2)) as Hlen. rewrite abs_length in Hlen.
  (* the second lookup *)
  rewrite <- app_assoc in Hw2. cbn [app] in Hw2.
  destruct (xresult_after_sim cfg (xs ++ [XOp (OLoad l n); XAddTypes l ts]) _ Hc Hw2 Hwo) as [_ Hs3].
  change (xs ++ [XOp (OLoad l n); XAddTypes l ts]) with (xs ++ [XOp (OLoad l n)] ++ [XAddTypes l ts]) in Hs3 at 1.
  rewrite app_assoc, <- Ha2 in Hs3.
  cbn [spec_xstep spec_step] in Hs3.
  destruct (Nat.ltb_spec l (length a2)) as [_|]; [|lia].
  rewrite Hau, str_eqb_refl, Hr2 in Hs3. cbn [negb] in Hs3. injection Hs3 as _ Hr3.
  destruct (xresult_after cfg (xs ++ [XOp (OLoad l n); XAddTypes l ts]) (XOp (OLoad l n))) as [r3|a3]; [|discriminate].
  cbn [xproject] in Hr3. injection Hr3 as Hr3. f_equal. apply project_inv; [symmetry; exact Hr3|discriminate].
Qed.
