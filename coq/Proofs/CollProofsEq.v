(* CollProofsEq.v — value equality (veq, Model/Coll.v: Equals of Array / Hash / HashEntry and of the scalars) is an
   equivalence relation on the well-formed values of the universe: the values in which every hash, at any depth,
   has pairwise non-equal keys, and which hold none of the three markers PNil / PCut / PBad (these exist only in
   observed snapshots of a defective tree; they are equal to nothing, not even to themselves).
   Outside the well-formed values veq is NOT symmetric (a hash that repeats a key), see veq_not_symmetric_refuted. *)
From Coq Require Import ZArith NArith Bool List Lia.
From PcoreV Require Import Model.Base Model.Coll Proofs.CollInd Proofs.CollProofsKeyed.
Import ListNotations.
Local Open Scope nat_scope.

(* every hash anywhere in the value has pairwise non-equal keys; no marker *)
Fixpoint wf_pv (p : pv) : bool :=
  match p with
  | PUndef | PBool _ | PInt _ | PStr _ => true
  | PArr l => forallb wf_pv l
  | PHash es => (fix all (es : list (pv * pv)) : bool :=
                   match es with
                   | [] => true
                   | (k, v) :: t => wf_pv k && wf_pv v && all t
                   end) es && nodup_keys (map fst es)
  | PEntry k v => wf_pv k && wf_pv v
  | PNil | PCut | PBad => false
  end.

Definition wf_entry (e : pv * pv) : bool := wf_pv (fst e) && wf_pv (snd e).

Lemma wf_pv_hash es : wf_pv (PHash es) = forallb wf_entry es && nodup_keys (map fst es).
Proof.
  cbn [wf_pv]. f_equal. induction es as [|[k v] t IH]; cbn [forallb]; [reflexivity|].
  unfold wf_entry at 1; cbn [fst snd]. now rewrite IH.
Qed.

Lemma wf_pv_arr l : wf_pv (PArr l) = forallb wf_pv l.
Proof. reflexivity. Qed.

(* the same with an explicit bound on the nesting depth: the induction measure *)
Fixpoint wfd (n : nat) (p : pv) : bool :=
  match p with
  | PUndef | PBool _ | PInt _ | PStr _ => true
  | PNil | PCut | PBad => false
  | PArr l => match n with O => false | S n' => forallb (wfd n') l end
  | PHash es => match n with
                | O => false
                | S n' => forallb (fun e => wfd n' (fst e) && wfd n' (snd e)) es && nodup_keys (map fst es)
                end
  | PEntry k v => match n with O => false | S n' => wfd n' k && wfd n' v end
  end.

Lemma forallb_impl {A} (f g : A -> bool) l : (forall x, In x l -> f x = true -> g x = true) ->
  forallb f l = true -> forallb g l = true.
Proof. rewrite !forallb_forall. auto. Qed.

Lemma wfd_S n : forall p, wfd n p = true -> wfd (S n) p = true.
Proof.
  induction n as [|n IH]; intros p H.
  - destruct p; cbn in H; try discriminate; reflexivity.
  - destruct p; try exact H; try reflexivity.
    + cbn [wfd] in *. revert H. apply forallb_impl. auto.
    + cbn [wfd] in *. apply andb_true_iff in H as [H1 H2]. rewrite H2, andb_true_r.
      revert H1. apply forallb_impl. intros e _ He. apply andb_true_iff in He as [Hk Hv].
      now rewrite (IH _ Hk), (IH _ Hv).
    + cbn [wfd] in *. apply andb_true_iff in H as [Hk Hv]. now rewrite (IH _ Hk), (IH _ Hv).
Qed.

Lemma wfd_le n m p : n <= m -> wfd n p = true -> wfd m p = true.
Proof. induction 1; auto using wfd_S. Qed.

Lemma wf_wfd p : wf_pv p = true -> exists n, wfd n p = true.
Proof.
  induction p as [ | | | |l IH|es IH|k v IHk IHv| | | ] using pv_ind'; intros H; try (exists 0; reflexivity); try discriminate.
  - rewrite wf_pv_arr in H.
    assert (G : exists n, forallb (wfd n) l = true).
    { induction IH as [|x l Hx Hl IHl]; [exists 0; reflexivity|].
      cbn [forallb] in H. apply andb_true_iff in H as [H1 H2].
      destruct (Hx H1) as [n1 Hn1]. destruct (IHl H2) as [n2 Hn2]. exists (max n1 n2). cbn [forallb].
      rewrite (wfd_le n1 _ x (Nat.le_max_l _ _) Hn1). cbn [andb].
      revert Hn2. apply forallb_impl. intros y _. apply wfd_le, Nat.le_max_r. }
    destruct G as [n G]. exists (S n). exact G.
  - rewrite wf_pv_hash in H. apply andb_true_iff in H as [H Hn].
    assert (G : exists n, forallb (fun e => wfd n (fst e) && wfd n (snd e)) es = true).
    { induction IH as [|x l Hx Hl IHl]; [exists 0; reflexivity|].
      cbn [forallb] in H. apply andb_true_iff in H as [H1 H2]. apply andb_true_iff in H1 as [Hk Hv].
      destruct Hx as [Hxk Hxv]. destruct (Hxk Hk) as [n1 Hn1]. destruct (Hxv Hv) as [n2 Hn2].
      cbn [map nodup_keys] in Hn. apply andb_true_iff in Hn as [_ Hn].
      destruct (IHl H2 Hn) as [n3 Hn3]. exists (max (max n1 n2) n3). cbn [forallb].
      rewrite (wfd_le n1 _ (fst x)), (wfd_le n2 _ (snd x)); auto; try lia. cbn [andb].
      revert Hn3. apply forallb_impl. intros y _ Hy. apply andb_true_iff in Hy as [Hy1 Hy2].
      rewrite (wfd_le n3 _ (fst y)), (wfd_le n3 _ (snd y)); auto; lia. }
    destruct G as [n G]. exists (S n). cbn [wfd]. now rewrite G, Hn.
  - cbn [wf_pv] in H. apply andb_true_iff in H as [Hk Hv].
    destruct (IHk Hk) as [n1 Hn1]. destruct (IHv Hv) as [n2 Hn2]. exists (S (max n1 n2)). cbn [wfd].
    rewrite (wfd_le n1 _ k), (wfd_le n2 _ v); auto; lia.
Qed.

Lemma wfd_wf n : forall p, wfd n p = true -> wf_pv p = true.
Proof.
  induction n as [|n IH]; intros p H; destruct p; cbn [wfd] in H; try discriminate; try reflexivity.
  - rewrite wf_pv_arr. revert H. apply forallb_impl. auto.
  - rewrite wf_pv_hash. apply andb_true_iff in H as [H Hn]. rewrite Hn, andb_true_r.
    revert H. apply forallb_impl. intros e _ He. apply andb_true_iff in He as [Hk Hv].
    unfold wf_entry. now rewrite (IH _ Hk), (IH _ Hv).
  - cbn [wf_pv]. apply andb_true_iff in H as [Hk Hv]. now rewrite (IH _ Hk), (IH _ Hv).
Qed.

(* ---------------------------------------------------------------------------------------------- *)
(* veq, unfolded by the kind of its arguments *)

Lemma veq_arr la lb : veq (PArr la) (PArr lb) = veq_list la lb.
Proof.
  revert lb; induction la as [|x la IH]; intros [|y lb]; reflexivity.
Qed.

Lemma veq_hash ea eb : veq (PHash ea) (PHash eb) = heq ea eb.
Proof.
  unfold heq. cbn [veq]. f_equal.
  induction ea as [|[k v] ea IH]; [reflexivity|]. unfold hsub; cbn [forallb fst snd]. f_equal; [clear IH|exact IH].
  unfold fm. induction eb as [|[k' v'] eb IHb]; [reflexivity|]. cbn [find fst snd].
  destruct (veq k k'); [reflexivity|exact IHb].
Qed.

(* arrays and hash entries are the sequences; an entry is the sequence of its key and its value *)
Definition as_seq (p : pv) : option (list pv) :=
  match p with PArr l => Some l | PEntry k v => Some [k; v] | _ => None end.

Lemma veq_seq a b la lb : as_seq a = Some la -> as_seq b = Some lb -> veq a b = veq_list la lb.
Proof.
  destruct a as [| | | |la'| |ka va| | |], b as [| | | |lb'| |kb vb| | |]; cbn [as_seq]; intros Ha Hb;
    try discriminate; inversion Ha; inversion Hb; subst.
  - apply veq_arr.
  - cbn [veq]. destruct la as [|x [|y [|z t]]]; cbn [veq_list]; try reflexivity.
    + now destruct (veq x kb).
    + now rewrite andb_true_r.
    + now rewrite !andb_false_r.
  - cbn [veq]. destruct lb as [|x [|y [|z t]]]; cbn [veq_list]; try reflexivity.
    + now rewrite andb_false_r.
    + now rewrite andb_true_r.
    + now rewrite !andb_false_r.
  - cbn [veq veq_list]. now rewrite andb_true_r.
Qed.

Inductive kind := KLeaf | KSeq (l : list pv) | KHash (es : list (pv * pv)) | KMark.
Definition kind_of (p : pv) : kind :=
  match p with
  | PUndef | PBool _ | PInt _ | PStr _ => KLeaf
  | PArr l => KSeq l
  | PEntry k v => KSeq [k; v]
  | PHash es => KHash es
  | PNil | PCut | PBad => KMark
  end.

(* a scalar is equal exactly to itself *)
Lemma veq_leaf_l a b : kind_of a = KLeaf -> veq a b = true -> b = a.
Proof.
  destruct a, b; cbn [kind_of veq]; intros Hk H; try discriminate; try reflexivity.
  - apply eqb_prop in H. now subst.
  - apply Z.eqb_eq in H. now subst.
  - apply str_eqb_eq in H. now subst.
Qed.

Lemma veq_leaf_r a b : kind_of b = KLeaf -> veq a b = true -> a = b.
Proof.
  destruct b, a; cbn [kind_of veq]; intros Hk H; try discriminate; try reflexivity.
  - apply eqb_prop in H. now subst.
  - apply Z.eqb_eq in H. now subst.
  - apply str_eqb_eq in H. now subst.
Qed.

Lemma veq_leaf_refl a : kind_of a = KLeaf -> veq a a = true.
Proof.
  destruct a; cbn [kind_of veq]; intros Hk; try discriminate; try reflexivity.
  - apply eqb_reflx.
  - apply Z.eqb_refl.
  - apply str_eqb_refl.
Qed.

(* equal values are of the same kind *)
Lemma veq_kinds a b : veq a b = true ->
  match kind_of a, kind_of b with
  | KLeaf, KLeaf => a = b
  | KSeq la, KSeq lb => veq_list la lb = true
  | KHash ea, KHash eb => heq ea eb = true
  | _, _ => False
  end.
Proof.
  intros H. destruct (kind_of a) as [|la|ea|] eqn:Ka.
  - pose proof (veq_leaf_l a b Ka H) as ->. now rewrite Ka.
  - assert (Ha : as_seq a = Some la) by (destruct a; cbn in Ka |- *; congruence).
    destruct (kind_of b) as [|lb|eb|] eqn:Kb.
    + pose proof (veq_leaf_r a b Kb H) as ->. congruence.
    + assert (Hb : as_seq b = Some lb) by (destruct b; cbn in Kb |- *; congruence).
      now rewrite <- (veq_seq a b la lb Ha Hb).
    + destruct a, b; cbn in Ka, Kb, H; try discriminate.
    + destruct a, b; cbn in Ka, Kb, H; try discriminate;
        try (destruct l as [|x [|y [|z t]]]; discriminate).
  - destruct a; cbn in Ka; try discriminate. inversion Ka; subst.
    destruct b; cbn [kind_of]; try (cbn in H; discriminate). now rewrite <- veq_hash.
  - destruct a; cbn in Ka, H; discriminate.
Qed.

(* ---------------------------------------------------------------------------------------------- *)
(* the equivalence, by induction on the nesting depth *)

Definition equiv_upto (n : nat) : Prop := equiv_on (fun x => wfd n x = true).

Lemma wfd_seq n p l : kind_of p = KSeq l -> wfd (S n) p = true -> Forall (fun x => wfd n x = true) l.
Proof.
  destruct p; cbn [kind_of]; intros Hk H; try discriminate; inversion Hk; subst; cbn [wfd] in H.
  - apply Forall_forall. now apply forallb_forall.
  - apply andb_true_iff in H as [H1 H2]. repeat constructor; assumption.
Qed.

Lemma wfd_hash n p es : kind_of p = KHash es -> wfd (S n) p = true ->
  Forall (okE (fun x => wfd n x = true)) es /\ nodupG fst es = true.
Proof.
  destruct p; cbn [kind_of]; intros Hk H; try discriminate; inversion Hk; subst; cbn [wfd] in H.
  apply andb_true_iff in H as [H1 H2]. split; [|now rewrite <- nodup_keys_map].
  apply Forall_forall. intros e He. rewrite forallb_forall in H1. specialize (H1 e He).
  apply andb_true_iff in H1. exact H1.
Qed.

Lemma wfd_mark n p : kind_of p = KMark -> wfd n p = true -> False.
Proof. destruct p, n; cbn; intros; discriminate. Qed.

Lemma seq_is_seq a la : kind_of a = KSeq la -> as_seq a = Some la.
Proof. destruct a; cbn; congruence. Qed.

Lemma hash_is_hash a ea : kind_of a = KHash ea -> a = PHash ea.
Proof. destruct a; cbn; congruence. Qed.

Lemma equiv_all n : equiv_upto n.
Proof.
  induction n as [|n IH].
  - (* depth 0: scalars only *)
    assert (L : forall a, wfd 0 a = true -> kind_of a = KLeaf) by (intros a; destruct a; cbn; congruence).
    repeat split.
    + intros a Ha. apply veq_leaf_refl; auto.
    + intros a b Ha Hb H. rewrite (veq_leaf_l a b (L _ Ha) H). apply veq_leaf_refl; auto.
    + intros a b c Ha Hb Hc H1 H2. rewrite (veq_leaf_l a b (L _ Ha) H1) in H2. exact H2.
  - set (ok := fun x => wfd n x = true).
    repeat split.
    + intros a Ha. destruct (kind_of a) as [|la|ea|] eqn:Ka.
      * now apply veq_leaf_refl.
      * rewrite (veq_seq a a la la) by now apply seq_is_seq.
        apply (veq_list_refl ok IH). exact (wfd_seq n a la Ka Ha).
      * rewrite (hash_is_hash a ea Ka), veq_hash. destruct (wfd_hash n a ea Ka Ha) as [Ho Hn].
        now apply (heq_refl ok IH).
      * destruct (wfd_mark _ _ Ka Ha).
    + intros a b Ha Hb H. pose proof (veq_kinds a b H) as K.
      destruct (kind_of a) as [|la|ea|] eqn:Ka, (kind_of b) as [|lb|eb|] eqn:Kb; try contradiction.
      * subst b. exact H.
      * rewrite (veq_seq b a lb la) by now apply seq_is_seq.
        apply (veq_list_sym ok IH); eauto using wfd_seq.
      * rewrite (hash_is_hash a ea Ka), (hash_is_hash b eb Kb), veq_hash.
        destruct (wfd_hash n a ea Ka Ha) as [Ho Hn]. destruct (wfd_hash n b eb Kb Hb) as [Ho' Hn'].
        now apply (heq_sym ok IH).
    + intros a b c Ha Hb Hc H1 H2. pose proof (veq_kinds a b H1) as K1. pose proof (veq_kinds b c H2) as K2.
      destruct (kind_of a) as [|la|ea|] eqn:Ka, (kind_of b) as [|lb|eb|] eqn:Kb; try contradiction;
        destruct (kind_of c) as [|lc|ec|] eqn:Kc; try contradiction.
      * subst b. exact H2.
      * rewrite (veq_seq a c la lc) by now apply seq_is_seq.
        apply (veq_list_trans ok IH la lb lc); eauto using wfd_seq.
      * rewrite (hash_is_hash a ea Ka), (hash_is_hash c ec Kc), veq_hash.
        destruct (wfd_hash n a ea Ka Ha) as [Ho Hn]. destruct (wfd_hash n b eb Kb Hb) as [Ho' Hn'].
        destruct (wfd_hash n c ec Kc Hc) as [Ho'' Hn''].
        now apply (heq_trans ok IH ea eb ec).
Qed.

Definition wf (p : pv) : Prop := wf_pv p = true.

Theorem veq_refl a : wf a -> veq a a = true.
Proof. intros Ha. destruct (wf_wfd a Ha) as [n Hn]. exact (proj1 (equiv_all n) a Hn). Qed.

Theorem veq_sym a b : wf a -> wf b -> veq a b = true -> veq b a = true.
Proof.
  intros Ha Hb. destruct (wf_wfd a Ha) as [n Hn]. destruct (wf_wfd b Hb) as [m Hm].
  apply (proj1 (proj2 (equiv_all (max n m)))); [apply (wfd_le n)|apply (wfd_le m)]; auto; lia.
Qed.

Theorem veq_trans a b c : wf a -> wf b -> wf c -> veq a b = true -> veq b c = true -> veq a c = true.
Proof.
  intros Ha Hb Hc. destruct (wf_wfd a Ha) as [n Hn]. destruct (wf_wfd b Hb) as [m Hm]. destruct (wf_wfd c Hc) as [k Hk].
  apply (proj2 (proj2 (equiv_all (max n (max m k))))); [apply (wfd_le n)|apply (wfd_le m)|apply (wfd_le k)]; auto; lia.
Qed.

(* where it fails: a hash that repeats a key (reachable only through the open finding on literal text) equals a
   hash that does not equal it; a marker is not equal to itself *)
Lemma veq_not_symmetric_refuted :
  exists a b, veq a b = true /\ veq b a = false /\ wf_pv a = false.
Proof.
  exists (PHash [(PInt 1, PInt 1); (PInt 1, PInt 1)]), (PHash [(PInt 1, PInt 1); (PInt 2, PInt 2)]).
  vm_compute. auto.
Qed.

Lemma veq_not_reflexive_refuted : exists a, veq a a = false /\ wf_pv a = false.
Proof. exists PNil. vm_compute. auto. Qed.

Lemma wf_equiv : equiv_on wf.
Proof. repeat split; [exact veq_refl|exact veq_sym|exact veq_trans]. Qed.
