(* C13 - pending declarations and pcore.Do (Model/ConcReg.v), for every program and every schedule:
     - lock discipline: exactly the thread that is inside resolveResolvables holds resolveLock (linv_reg);
     - no deadlock, and some continuation of every schedule finishes every operation (reg_no_deadlock, reg_can_complete):
       the lock is released on every path, also when a Resolve panics;
     - an item is never taken from a list and processed more often than it has been declared (reg_once): what a
       Pop hands out is private to the thread that called it;
     - the function of a Do sees every item that its own thread declared before as usable (reg_sees_own), when no
       declaration of the program fails to resolve. *)
From Coq Require Import NArith Arith Bool List Lia.
From PcoreV Require Import Model.Conc Model.ConcReg Proofs.ConcProofs.
Import ListNotations.

Local Arguments Nat.eqb : simpl never.

(* ---- items ------------------------------------------------------------------------------------------------ *)

Lemma kind_eqb_eq a b : kind_eqb a b = true <-> a = b.
Proof. destruct a, b; cbn; split; congruence. Qed.

Lemma item_eqb_eq a b : item_eqb a b = true <-> a = b.
Proof.
  unfold item_eqb. destruct a as [ka na], b as [kb nb]. cbn [fst snd]. rewrite andb_true_iff, kind_eqb_eq, Nat.eqb_eq.
  split; [intros [-> ->]; reflexivity | intros H; inversion H; auto].
Qed.

Lemma item_eqb_refl a : item_eqb a a = true.
Proof. now apply item_eqb_eq. Qed.

Lemma mem_In x l : mem x l = true <-> In x l.
Proof.
  unfold mem. rewrite existsb_exists. split.
  - intros (y & Hy & He). apply item_eqb_eq in He. now subst.
  - intros H. exists x. split; [assumption | apply item_eqb_refl].
Qed.

Lemma goes_home x : goes_to x (home x) = true.
Proof. destruct x as [[] n]; reflexivity. Qed.

Lemma home_not_1 x : home x <> 1.
Proof. destruct x as [[] n]; cbn; discriminate. Qed.

(* how often x occurs in a list *)
Fixpoint cnt (x : item) (l : list item) : nat :=
  match l with [] => 0 | y :: l' => (if item_eqb y x then 1 else 0) + cnt x l' end.

Lemma cnt_app x a b : cnt x (a ++ b) = cnt x a + cnt x b.
Proof. induction a as [|y a IH]; cbn [app cnt]; [reflexivity | rewrite IH; lia]. Qed.

(* ---- steps ------------------------------------------------------------------------------------------------ *)

Lemma rexec_inv (I : rstate -> Prop) p :
  I (rinit p) -> (forall st t, I st -> I (rstep st t)) -> forall s, I (rexec p s).
Proof.
  intros H0 HS s. unfold rexec. generalize (rinit p) H0. induction s as [|t s IH]; intros st Hst; cbn [fold_left]; auto.
Qed.

Definition inside (q : rpc) : bool :=
  match q with QIdle | QBeforeLock => false | _ => true end.

Inductive rmove (st : rstate) (t : tid) : rstate -> Prop :=
| MDecl x todo :
    q_pc (rs_thr st t) = QIdle -> q_todo (rs_thr st t) = RDecl x :: todo ->
    rmove st t (mkRSt (mkRS (append_item (pend (rs_sh st)) x) (r_lock (rs_sh st)) (r_bound (rs_sh st)) (r_done (rs_sh st)))
                      (upd1 (rs_thr st) t (mkRT QIdle todo (q_own (rs_thr st t) ++ [x])))
                      (rs_log st ++ [EvR t (RDecl x) RRDeclared]))
| MDo todo :
    q_pc (rs_thr st t) = QIdle -> q_todo (rs_thr st t) = RDo :: todo ->
    rmove st t (mkRSt (rs_sh st) (upd1 (rs_thr st) t (mkRT QBeforeLock todo (q_own (rs_thr st t)))) (rs_log st))
| MSeg sh' q' evs :
    q_pc (rs_thr st t) <> QIdle ->
    rseg (rs_sh st) t (q_own (rs_thr st t)) (q_pc (rs_thr st t)) = Some (sh', (q', evs)) ->
    rmove st t (mkRSt sh' (upd1 (rs_thr st) t (mkRT q' (q_todo (rs_thr st t)) (q_own (rs_thr st t)))) (rs_log st ++ evs)).

Lemma rstep_cases st t : rstep st t = st \/ rmove st t (rstep st t).
Proof.
  unfold rstep. destruct (q_pc (rs_thr st t)) eqn:Hpc.
  - destruct (q_todo (rs_thr st t)) as [|[x|] todo] eqn:Htd; [now left | right; now apply MDecl | right; now apply MDo].
  - match goal with |- context [rseg ?a ?b ?c ?q] => destruct (rseg a b c q) as [[sh' [q' evs]]|] eqn:Hs end; [|now left].
    right. rewrite <- Hpc in Hs. apply MSeg; [congruence | exact Hs].
  - match goal with |- context [rseg ?a ?b ?c ?q] => destruct (rseg a b c q) as [[sh' [q' evs]]|] eqn:Hs end; [|now left].
    right. rewrite <- Hpc in Hs. apply MSeg; [congruence | exact Hs].
  - match goal with |- context [rseg ?a ?b ?c ?q] => destruct (rseg a b c q) as [[sh' [q' evs]]|] eqn:Hs end; [|now left].
    right. rewrite <- Hpc in Hs. apply MSeg; [congruence | exact Hs].
  - match goal with |- context [rseg ?a ?b ?c ?q] => destruct (rseg a b c q) as [[sh' [q' evs]]|] eqn:Hs end; [|now left].
    right. rewrite <- Hpc in Hs. apply MSeg; [congruence | exact Hs].
  - match goal with |- context [rseg ?a ?b ?c ?q] => destruct (rseg a b c q) as [[sh' [q' evs]]|] eqn:Hs end; [|now left].
    right. rewrite <- Hpc in Hs. apply MSeg; [congruence | exact Hs].
  - match goal with |- context [rseg ?a ?b ?c ?q] => destruct (rseg a b c q) as [[sh' [q' evs]]|] eqn:Hs end; [|now left].
    right. rewrite <- Hpc in Hs. apply MSeg; [congruence | exact Hs].
Qed.

Lemma resolve_prefix_ok ts :
  (forall x, In x ts -> fst x <> KX) -> resolve_prefix ts = (ts, false).
Proof.
  induction ts as [|x ts IH]; intros H; cbn [resolve_prefix]; [reflexivity|].
  assert (Hx : fst x <> KX) by (apply H; now left).
  rewrite IH by (intros y Hy; apply H; now right).
  destruct (fst x); try reflexivity. congruence.
Qed.

Lemma resolve_prefix_cnt ts x : cnt x (fst (resolve_prefix ts)) <= cnt x ts.
Proof.
  induction ts as [|y ts IH]; cbn [resolve_prefix]; [cbn; lia|].
  destruct (resolve_prefix ts) as [r f]. cbn [fst] in IH.
  destruct (fst y); cbn [fst cnt]; lia.
Qed.

(* the transitions of a thread inside resolveResolvables, spelled out *)
Inductive rtrans (sh : rshared) (t : tid) (own : list item) : rpc -> rshared -> rpc -> list rev -> Prop :=
| TLock :
    r_lock sh = None ->
    rtrans sh t own QBeforeLock (mkRS (clear (pend sh) 0) (Some t) (r_bound sh) (r_done sh)) (QTypes (pend sh 0)) []
| TTypes ts :
    rtrans sh t own (QTypes ts) (mkRS (clear (pend sh) 1) (r_lock sh) (r_bound sh ++ ts) (r_done sh))
           (after_maps ts (pend sh 1) []) []
| TMapNil ts mine :
    rtrans sh t own (QMapping ts [] mine) sh (QBound ts mine) []
| TMap ts m ms mine :
    rtrans sh t own (QMapping ts (m :: ms) mine) sh (after_maps ts ms (m :: mine)) [EvProc t 1 m]
| TResolve ts mine :
    snd (resolve_prefix ts) = false ->
    rtrans sh t own (QBound ts mine)
           (mkRS (clear (pend sh) 2) (r_lock sh) (r_bound sh) (r_done sh ++ fst (resolve_prefix ts)))
           (QCtors (pend sh 2) mine) (procs t 0 (fst (resolve_prefix ts)))
| TPanic ts mine :
    snd (resolve_prefix ts) = true ->
    rtrans sh t own (QBound ts mine)
           (mkRS (pend sh) None (r_bound sh) (r_done sh ++ fst (resolve_prefix ts)))
           QIdle (procs t 0 (fst (resolve_prefix ts)) ++ [EvR t RDo RRPanic])
| TCtors cs mine :
    rtrans sh t own (QCtors cs mine) (mkRS (clear (pend sh) 3) (r_lock sh) (r_bound sh) (r_done sh ++ cs))
           (QFuns (pend sh 3) mine) (procs t 2 cs)
| TFuns fs mine :
    rtrans sh t own (QFuns fs mine) (mkRS (pend sh) None (r_bound sh) (r_done sh ++ fs)) QIdle
           (procs t 3 fs ++ [EvR t RDo (RRDone (map (fun x => (x, look (mkRS (pend sh) None (r_bound sh) (r_done sh ++ fs)) mine x)) own))]).

Lemma rseg_rtrans sh t own q sh' q' evs :
  rseg sh t own q = Some (sh', (q', evs)) -> rtrans sh t own q sh' q' evs.
Proof.
  intros Hs. destruct q; cbn [rseg] in Hs.
  - discriminate.
  - destruct (r_lock sh) eqn:Hl; [discriminate|]. injection Hs as <- <- <-. now apply TLock.
  - injection Hs as <- <- <-. apply TTypes.
  - destruct ms as [|m ms']; injection Hs as <- <- <-; [apply TMapNil | apply TMap].
  - destruct (resolve_prefix ts) as [res failed] eqn:Hr. destruct failed; injection Hs as <- <- <-.
    + replace res with (fst (resolve_prefix ts)) by now rewrite Hr. apply TPanic. now rewrite Hr.
    + replace res with (fst (resolve_prefix ts)) by now rewrite Hr. apply TResolve. now rewrite Hr.
  - injection Hs as <- <- <-. apply TCtors.
  - injection Hs as <- <- <-. apply TFuns.
Qed.

Lemma after_maps_inside ts ms mine : inside (after_maps ts ms mine) = true.
Proof. destruct ms; reflexivity. Qed.

(* ---- lock discipline ---------------------------------------------------------------------------------------- *)

Record linv_reg (st : rstate) : Prop := {
  lr_holder : forall t, r_lock (rs_sh st) = Some t -> inside (q_pc (rs_thr st t)) = true;
  lr_inside : forall t, inside (q_pc (rs_thr st t)) = true -> r_lock (rs_sh st) = Some t
}.

Lemma linv_reg_init p : linv_reg (rinit p).
Proof. split; cbn; intros; discriminate. Qed.

Lemma linv_reg_step st t : linv_reg st -> linv_reg (rstep st t).
Proof.
  intros [Hh Hi]. destruct (rstep_cases st t) as [-> | Hm]; [split; auto|].
  inversion Hm as [x todo Hpc Htd Heq | todo Hpc Htd Heq | sh' q' evs Hpc Hs Heq]; clear Hm.
  - (* a declaration *)
    split; cbn [rs_sh rs_thr r_lock]; intros t0 H0.
    + destruct (Nat.eq_dec t0 t) as [->|Hne].
      * apply Hh in H0. rewrite Hpc in H0. discriminate.
      * rewrite upd1_neq by assumption. auto.
    + destruct (Nat.eq_dec t0 t) as [->|Hne].
      * rewrite upd1_eq in H0. discriminate.
      * rewrite upd1_neq in H0 by assumption. auto.
  - split; cbn [rs_sh rs_thr r_lock]; intros t0 H0.
    + destruct (Nat.eq_dec t0 t) as [->|Hne].
      * apply Hh in H0. rewrite Hpc in H0. discriminate.
      * rewrite upd1_neq by assumption. auto.
    + destruct (Nat.eq_dec t0 t) as [->|Hne].
      * rewrite upd1_eq in H0. discriminate.
      * rewrite upd1_neq in H0 by assumption. auto.
  - apply rseg_rtrans in Hs.
    assert (Hmine : inside (q_pc (rs_thr st t)) = true -> r_lock (rs_sh st) = Some t) by apply Hi.
    inversion Hs as [Hfree Hq | ts Hq | ts mine Hq | ts m ms mine Hq | ts mine Hok Hq | ts mine Hbad Hq | cs mine Hq | fs mine Hq];
      subst sh' q' evs; rewrite <- Hq in Hmine; cbn [inside] in Hmine;
      split; cbn [rs_sh rs_thr r_lock]; intros t0 H0;
      (destruct (Nat.eq_dec t0 t) as [->|Hne];
       [rewrite ?upd1_eq in *; cbn [q_pc inside] in *; try rewrite after_maps_inside; try reflexivity; try congruence; auto
       |rewrite ?upd1_neq in * by assumption]).
    all: try (apply Hh; congruence).
    all: try (apply Hi in H0; congruence).
    all: try (now apply Hi).
    all: try (specialize (Hmine eq_refl); apply Hi in H0; congruence).
Qed.

Lemma linv_reg_exec p s : linv_reg (rexec p s).
Proof. apply rexec_inv; [apply linv_reg_init | intros; now apply linv_reg_step]. Qed.

(* ---- no deadlock, and every operation returns ------------------------------------------------------------- *)

Definition routside_idle (k : nat) (st : rstate) : Prop :=
  forall t, k <= t -> q_pc (rs_thr st t) = QIdle /\ q_todo (rs_thr st t) = [].

Lemma routside_init p : routside_idle (length p) (rinit p).
Proof. intros t Ht. cbn. now rewrite nth_overflow. Qed.

Lemma routside_step k st t : routside_idle k st -> routside_idle k (rstep st t).
Proof.
  intros Ho t0 Ht0. destruct (le_lt_dec k t) as [Hge|Hlt].
  - assert (Hs : rstep st t = st) by (unfold rstep; destruct (Ho t Hge) as [-> ->]; reflexivity). rewrite Hs. auto.
  - destruct (rstep_cases st t) as [-> | Hm]; auto.
    inversion Hm; cbn [rs_thr]; rewrite upd1_neq by lia; auto.
Qed.

Lemma routside_exec p s : routside_idle (length p) (rexec p s).
Proof. apply (rexec_inv (routside_idle (length p))); [apply routside_init | intros; now apply routside_step]. Qed.

Lemma rnot_enabled st t :
  renabled st t = false ->
  (q_pc (rs_thr st t) = QIdle /\ q_todo (rs_thr st t) = []) \/
  (q_pc (rs_thr st t) = QBeforeLock /\ exists t', r_lock (rs_sh st) = Some t').
Proof.
  unfold renabled. destruct (q_pc (rs_thr st t)) eqn:Hpc; cbn [rseg].
  - destruct (q_todo (rs_thr st t)); [auto | discriminate].
  - destruct (r_lock (rs_sh st)) as [t'|] eqn:Hl; [|discriminate]. intros _. right. eauto.
  - discriminate.
  - destruct ms; discriminate.
  - destruct (resolve_prefix ts) as [res failed]. destruct failed; discriminate.
  - discriminate.
  - discriminate.
Qed.

Lemma rholder_enabled st t : inside (q_pc (rs_thr st t)) = true -> renabled st t = true.
Proof.
  unfold renabled. destruct (q_pc (rs_thr st t)); cbn [inside rseg]; intros H; try discriminate; try reflexivity.
  - destruct ms; reflexivity.
  - destruct (resolve_prefix ts) as [res failed]. destruct failed; reflexivity.
Qed.

Lemma rall_done_false st k :
  rall_done st k = false -> exists t, t < k /\ ~ (q_pc (rs_thr st t) = QIdle /\ q_todo (rs_thr st t) = []).
Proof.
  induction k as [|k IH]; cbn [rall_done]; [discriminate|]. intros H.
  apply andb_false_iff in H. destruct H as [H|H].
  - exists k. split; [lia|]. intros [Hp Ht]. rewrite Hp, Ht in H. discriminate.
  - destruct (IH H) as (t & Hlt & Hn). exists t. split; [lia|auto].
Qed.

Lemma reg_no_deadlock_st k st :
  linv_reg st -> routside_idle k st -> rall_done st k = false -> exists t, t < k /\ renabled st t = true.
Proof.
  intros [Hh Hi] Ho Hnd. destruct (rall_done_false _ _ Hnd) as (t & Hlt & Hn).
  destruct (renabled st t) eqn:He; [eauto|].
  destruct (rnot_enabled _ _ He) as [Hfin | (Hpc & t' & Hl)]; [contradiction|].
  pose proof (Hh _ Hl) as Hin. exists t'. split; [|now apply rholder_enabled].
  destruct (le_lt_dec k t') as [Hge|]; [|assumption].
  destruct (Ho _ Hge) as [Hq _]. rewrite Hq in Hin. discriminate.
Qed.

Lemma reg_no_deadlock p s :
  rall_done (rexec p s) (length p) = false -> exists t, t < length p /\ renabled (rexec p s) t = true.
Proof. apply reg_no_deadlock_st; [apply linv_reg_exec | apply routside_exec]. Qed.

(* the remaining work: per thread the steps of its current and coming operations, and the registrations that the
   pending mappings will cost the Do that takes them *)
Definition rrank (q : rpc) : nat :=
  match q with
  | QIdle => 0
  | QFuns _ _ => 1
  | QCtors _ _ => 2
  | QBound _ _ => 3
  | QMapping _ ms _ => 4 + length ms
  | QTypes _ => 5
  | QBeforeLock => 6
  end.
Definition ropw (o : rop) : nat := match o with RDecl _ => 2 | RDo => 7 end.
Fixpoint rtodow (os : list rop) : nat := match os with [] => 0 | o :: os' => ropw o + rtodow os' end.
Definition rtm (th : rthread) : nat := rrank (q_pc th) + rtodow (q_todo th).

Fixpoint rsum (thr : tid -> rthread) (k : nat) : nat :=
  match k with 0 => 0 | S k' => rtm (thr k') + rsum thr k' end.
Definition rtotal (st : rstate) (k : nat) : nat := rsum (rs_thr st) k + length (pend (rs_sh st) 1).

Lemma rsum_upd1_out thr t v k : k <= t -> rsum (upd1 thr t v) k = rsum thr k.
Proof.
  induction k as [|k IH]; intros H; cbn [rsum]; [reflexivity|].
  rewrite upd1_neq by lia. rewrite IH by lia. reflexivity.
Qed.

Lemma rsum_upd1 thr t v k : t < k -> rsum (upd1 thr t v) k + rtm (thr t) = rsum thr k + rtm v.
Proof.
  induction k as [|k IH]; intros H; [lia|]. cbn [rsum].
  destruct (Nat.eq_dec t k) as [->|Hne].
  - rewrite upd1_eq. rewrite rsum_upd1_out by lia. lia.
  - rewrite upd1_neq by lia. assert (Hlt : t < k) by lia. specialize (IH Hlt). lia.
Qed.

Lemma after_maps_rank ts ms mine : rrank (after_maps ts ms mine) <= 4 + length ms.
Proof. destruct ms; cbn; lia. Qed.

Lemma after_maps_rank_nil ts mine : rrank (after_maps ts [] mine) = 3.
Proof. reflexivity. Qed.

Lemma renabled_moves st t : renabled st t = true -> rmove st t (rstep st t).
Proof.
  unfold renabled, rstep. destruct (q_pc (rs_thr st t)) eqn:Hpc.
  - destruct (q_todo (rs_thr st t)) as [|[x|] todo] eqn:Htd; [discriminate | intros _; now apply MDecl | intros _; now apply MDo].
  - match goal with |- context [rseg ?a ?b ?c ?q] => destruct (rseg a b c q) as [[sh' [q' evs]]|] eqn:Hs end; [|discriminate].
    intros _. rewrite <- Hpc in Hs. apply MSeg; [congruence | exact Hs].
  - match goal with |- context [rseg ?a ?b ?c ?q] => destruct (rseg a b c q) as [[sh' [q' evs]]|] eqn:Hs end; [|discriminate].
    intros _. rewrite <- Hpc in Hs. apply MSeg; [congruence | exact Hs].
  - match goal with |- context [rseg ?a ?b ?c ?q] => destruct (rseg a b c q) as [[sh' [q' evs]]|] eqn:Hs end; [|discriminate].
    intros _. rewrite <- Hpc in Hs. apply MSeg; [congruence | exact Hs].
  - match goal with |- context [rseg ?a ?b ?c ?q] => destruct (rseg a b c q) as [[sh' [q' evs]]|] eqn:Hs end; [|discriminate].
    intros _. rewrite <- Hpc in Hs. apply MSeg; [congruence | exact Hs].
  - match goal with |- context [rseg ?a ?b ?c ?q] => destruct (rseg a b c q) as [[sh' [q' evs]]|] eqn:Hs end; [|discriminate].
    intros _. rewrite <- Hpc in Hs. apply MSeg; [congruence | exact Hs].
  - match goal with |- context [rseg ?a ?b ?c ?q] => destruct (rseg a b c q) as [[sh' [q' evs]]|] eqn:Hs end; [|discriminate].
    intros _. rewrite <- Hpc in Hs. apply MSeg; [congruence | exact Hs].
Qed.

Lemma rtotal_decreases st t k :
  t < k -> renabled st t = true -> rtotal (rstep st t) k < rtotal st k.
Proof.
  intros Hlt He. pose proof (renabled_moves _ _ He) as Hm.
  inversion Hm as [x todo Hpc Htd Heq | todo Hpc Htd Heq | sh' q' evs Hpc Hs Heq]; clear Hm; unfold rtotal; cbn [rs_thr rs_sh pend].
  - pose proof (rsum_upd1 (rs_thr st) t (mkRT QIdle todo (q_own (rs_thr st t) ++ [x])) k Hlt) as Hsum.
    unfold rtm in Hsum at 1 2. rewrite Hpc, Htd in Hsum. cbn [q_pc q_todo rrank rtodow ropw] in Hsum.
    unfold append_item. destruct (goes_to x 1); [rewrite app_length; cbn [length]|]; lia.
  - pose proof (rsum_upd1 (rs_thr st) t (mkRT QBeforeLock todo (q_own (rs_thr st t))) k Hlt) as Hsum.
    unfold rtm in Hsum at 1 2. rewrite Hpc, Htd in Hsum. cbn [q_pc q_todo rrank rtodow ropw] in Hsum. lia.
  - apply rseg_rtrans in Hs.
    pose proof (rsum_upd1 (rs_thr st) t (mkRT q' (q_todo (rs_thr st t)) (q_own (rs_thr st t))) k Hlt) as Hsum.
    unfold rtm in Hsum at 1 2. cbn [q_pc q_todo] in Hsum.
    inversion Hs as [Hfree Hq | ts Hq | ts mine Hq | ts m ms mine Hq | ts mine Hok Hq | ts mine Hbad Hq | cs mine Hq | fs mine Hq];
      subst sh' q' evs; rewrite <- Hq in Hsum; cbn [rrank pend] in Hsum |- *; unfold clear; cbn [Nat.eqb];
      try (change (Nat.eqb 1 0) with false); try (change (Nat.eqb 1 1) with true); try (change (Nat.eqb 1 2) with false);
      try (change (Nat.eqb 1 3) with false); cbn [length]; try lia.
    + (* QTypes *) pose proof (after_maps_rank ts (pend (rs_sh st) 1) []) as Hr.
      destruct (pend (rs_sh st) 1) as [|m ms] eqn:Hp1.
      * rewrite after_maps_rank_nil in Hsum. cbn [length]. lia.
      * cbn [length] in *. lia.
    + (* QMapping *) pose proof (after_maps_rank ts ms (m :: mine)) as Hr. cbn [length] in Hsum. lia.
Qed.

Lemma reg_can_complete_st k : forall m st,
  linv_reg st -> routside_idle k st -> rtotal st k <= m ->
  exists s', rall_done (fold_left rstep s' st) k = true.
Proof.
  induction m as [|m IH]; intros st Hl Ho Hm.
  - destruct (rall_done st k) eqn:Hd; [exists []; exact Hd|].
    destruct (reg_no_deadlock_st k st Hl Ho Hd) as (t & Hlt & Hen).
    pose proof (rtotal_decreases st t k Hlt Hen). lia.
  - destruct (rall_done st k) eqn:Hd; [exists []; exact Hd|].
    destruct (reg_no_deadlock_st k st Hl Ho Hd) as (t & Hlt & Hen).
    pose proof (rtotal_decreases st t k Hlt Hen) as Hdec.
    destruct (IH (rstep st t)) as [s' Hs'].
    + now apply linv_reg_step.
    + now apply routside_step.
    + lia.
    + exists (t :: s'). exact Hs'.
Qed.

Lemma reg_can_complete p s : exists s', rall_done (rexec p (s ++ s')) (length p) = true.
Proof.
  destruct (reg_can_complete_st (length p) (rtotal (rexec p s) (length p)) (rexec p s)) as [s' Hs'].
  - apply linv_reg_exec.
  - apply routside_exec.
  - lia.
  - exists s'. unfold rexec in *. now rewrite fold_left_app.
Qed.

(* ---- what a Pop hands out is private: nothing is processed more often than it was declared ---------------------- *)

Definition inflight (l : nat) (q : rpc) : list item :=
  match l, q with
  | 0, QTypes ts => ts
  | 0, QMapping ts _ _ => ts
  | 0, QBound ts _ => ts
  | 1, QMapping _ ms _ => ms
  | 2, QCtors cs _ => cs
  | 3, QFuns fs _ => fs
  | _, _ => []
  end.

(* the items that have been taken from list l and are still to be processed: they are in the hands of the one
   thread that is inside resolveResolvables *)
Definition infl (st : rstate) (l : nat) : list item :=
  match r_lock (rs_sh st) with Some t => inflight l (q_pc (rs_thr st t)) | None => [] end.

Definition conserved (st : rstate) : Prop :=
  forall l x, cnt x (pend (rs_sh st) l) + cnt x (infl st l) + nproc l x (rs_log st)
              <= (if goes_to x l then ndecl x (rs_log st) else 0).

Lemma nproc_app l x a b : nproc l x (a ++ b) = nproc l x a + nproc l x b.
Proof. induction a as [|e a IH]; cbn [app nproc]; [reflexivity|]. destruct e; rewrite IH; lia. Qed.

Lemma ndecl_app x a b : ndecl x (a ++ b) = ndecl x a + ndecl x b.
Proof. induction a as [|e a IH]; cbn [app ndecl]; [reflexivity|]. destruct e as [t o r|]; [destruct o|]; rewrite IH; lia. Qed.

Lemma nproc_procs t l0 xs l x : nproc l x (procs t l0 xs) = if Nat.eqb l0 l then cnt x xs else 0.
Proof.
  unfold procs. induction xs as [|y xs IH]; cbn [map nproc cnt]; [destruct (Nat.eqb l0 l); reflexivity|].
  rewrite IH. destruct (Nat.eqb l0 l); cbn [andb]; lia.
Qed.

Lemma ndecl_procs t l0 xs x : ndecl x (procs t l0 xs) = 0.
Proof. unfold procs. induction xs as [|y xs IH]; cbn [map ndecl]; auto. Qed.

Lemma clear_same f l : clear f l l = [].
Proof. unfold clear. now rewrite Nat.eqb_refl. Qed.

Lemma clear_other f l l' : l' <> l -> clear f l l' = f l'.
Proof. intros H. unfold clear. destruct (Nat.eqb_spec l' l); [contradiction|reflexivity]. Qed.

Lemma infl_other st t sh' v log' l :
  r_lock (rs_sh st) <> Some t -> r_lock sh' = r_lock (rs_sh st) ->
  infl (mkRSt sh' (upd1 (rs_thr st) t v) log') l = infl st l.
Proof.
  intros Hn Hl. unfold infl. cbn [rs_sh rs_thr]. rewrite Hl. destruct (r_lock (rs_sh st)) as [t'|]; [|reflexivity].
  rewrite upd1_neq; [reflexivity | congruence].
Qed.

Lemma infl_holder st t sh' q' todo own log' l :
  r_lock sh' = Some t -> infl (mkRSt sh' (upd1 (rs_thr st) t (mkRT q' todo own)) log') l = inflight l q'.
Proof. intros Hl. unfold infl. cbn [rs_sh rs_thr]. rewrite Hl, upd1_eq. reflexivity. Qed.

Lemma infl_none thr sh' log' l : r_lock sh' = None -> infl (mkRSt sh' thr log') l = [].
Proof. intros Hl. unfold infl. cbn [rs_sh]. now rewrite Hl. Qed.

Lemma infl_of_holder st t l : r_lock (rs_sh st) = Some t -> infl st l = inflight l (q_pc (rs_thr st t)).
Proof. intros Hl. unfold infl. now rewrite Hl. Qed.

Lemma inflight_after_maps_0 ts ms mine : inflight 0 (after_maps ts ms mine) = ts.
Proof. destruct ms; reflexivity. Qed.
Lemma inflight_after_maps_1 ts ms mine : inflight 1 (after_maps ts ms mine) = ms.
Proof. destruct ms; reflexivity. Qed.
Lemma inflight_after_maps_S ts ms mine l : inflight (S (S l)) (after_maps ts ms mine) = [].
Proof. destruct ms; destruct l as [|[|l]]; reflexivity. Qed.

Ltac lcases l := destruct l as [|[|[|[|l]]]].
Ltac gl := try match goal with |- context [if goes_to ?x ?l then _ else _] => destruct (goes_to x l) end; lia.

(* comparisons of list numbers (Nat.eqb is opaque to cbn in this file) *)
Ltac eqbs :=
  repeat match goal with
         | |- context [Nat.eqb ?a ?b] =>
             let v := eval compute in (Nat.eqb a b) in
             match v with true => change (Nat.eqb a b) with true | false => change (Nat.eqb a b) with false end
         end; cbn [andb].

Lemma conserved_init p : conserved (rinit p).
Proof. intros l x. cbn. destruct (goes_to x l); lia. Qed.

Lemma conserved_step st t : linv_reg st -> conserved st -> conserved (rstep st t).
Proof.
  intros [Hh Hi] Hc. destruct (rstep_cases st t) as [-> | Hm]; [assumption|].
  inversion Hm as [y todo Hpc Htd Heq | todo Hpc Htd Heq | sh' q' evs Hpc Hs Heq]; clear Hm; intros l x; specialize (Hc l x).
  - (* a declaration *)
    assert (Hnh : r_lock (rs_sh st) <> Some t) by (intros H; apply Hh in H; rewrite Hpc in H; discriminate).
    rewrite infl_other by (cbn; auto). cbn [rs_sh rs_log pend].
    rewrite nproc_app, ndecl_app. cbn [nproc ndecl]. unfold append_item.
    destruct (item_eqb y x) eqn:Hex.
    + apply item_eqb_eq in Hex. subst y. destruct (goes_to x l); [rewrite cnt_app; cbn [cnt]; rewrite item_eqb_refl|]; lia.
    + destruct (goes_to y l); [rewrite cnt_app; cbn [cnt]; rewrite Hex|]; destruct (goes_to x l); lia.
  - assert (Hnh : r_lock (rs_sh st) <> Some t) by (intros H; apply Hh in H; rewrite Hpc in H; discriminate).
    rewrite infl_other by (cbn; auto). cbn [rs_sh rs_log]. exact Hc.
  - apply rseg_rtrans in Hs.
    inversion Hs as [Hfree Hq | ts Hq | ts mine Hq | ts m ms mine Hq | ts mine Hok Hq | ts mine Hbad Hq | cs mine Hq | fs mine Hq];
      subst sh' q' evs.
    + (* lock, take the types *)
      unfold infl in Hc. rewrite Hfree in Hc. cbn [cnt] in Hc.
      rewrite infl_holder by reflexivity. cbn [rs_sh rs_log pend]. rewrite app_nil_r.
      lcases l; [rewrite clear_same | rewrite clear_other by discriminate ..]; cbn [inflight cnt]; gl.
    + assert (Hlock : r_lock (rs_sh st) = Some t) by (apply Hi; rewrite <- Hq; reflexivity).
      rewrite (infl_of_holder _ _ _ Hlock) in Hc. rewrite <- Hq in Hc.
      rewrite infl_holder by (cbn; assumption). cbn [rs_sh rs_log pend]. rewrite app_nil_r.
      lcases l; [rewrite clear_other by discriminate; rewrite inflight_after_maps_0
                | rewrite clear_same; rewrite inflight_after_maps_1
                | rewrite clear_other by discriminate; rewrite inflight_after_maps_S ..]; cbn [inflight cnt] in *; gl.
    + assert (Hlock : r_lock (rs_sh st) = Some t) by (apply Hi; rewrite <- Hq; reflexivity).
      rewrite (infl_of_holder _ _ _ Hlock) in Hc. rewrite <- Hq in Hc.
      rewrite infl_holder by assumption. cbn [rs_sh rs_log]. rewrite app_nil_r.
      lcases l; cbn [inflight cnt] in *; gl.
    + assert (Hlock : r_lock (rs_sh st) = Some t) by (apply Hi; rewrite <- Hq; reflexivity).
      rewrite (infl_of_holder _ _ _ Hlock) in Hc. rewrite <- Hq in Hc.
      rewrite infl_holder by assumption. cbn [rs_sh rs_log]. rewrite nproc_app, ndecl_app. cbn [nproc ndecl].
      lcases l; [rewrite inflight_after_maps_0 | rewrite inflight_after_maps_1 | rewrite inflight_after_maps_S ..];
        cbn [inflight cnt] in *; eqbs; gl.
    + assert (Hlock : r_lock (rs_sh st) = Some t) by (apply Hi; rewrite <- Hq; reflexivity).
      rewrite (infl_of_holder _ _ _ Hlock) in Hc. rewrite <- Hq in Hc.
      rewrite infl_holder by (cbn; assumption). cbn [rs_sh rs_log pend]. rewrite nproc_app, ndecl_app, nproc_procs, ndecl_procs.
      pose proof (resolve_prefix_cnt ts x) as Hle.
      lcases l; [rewrite clear_other by discriminate | rewrite clear_other by discriminate | rewrite clear_same
                | rewrite clear_other by discriminate ..]; cbn [inflight cnt] in *; eqbs; gl.
    + assert (Hlock : r_lock (rs_sh st) = Some t) by (apply Hi; rewrite <- Hq; reflexivity).
      rewrite (infl_of_holder _ _ _ Hlock) in Hc. rewrite <- Hq in Hc.
      rewrite infl_none by reflexivity. cbn [rs_sh rs_log pend].
      rewrite !nproc_app, !ndecl_app, nproc_procs, ndecl_procs. cbn [nproc ndecl].
      pose proof (resolve_prefix_cnt ts x) as Hle.
      lcases l; cbn [inflight cnt] in *; eqbs; gl.
    + assert (Hlock : r_lock (rs_sh st) = Some t) by (apply Hi; rewrite <- Hq; reflexivity).
      rewrite (infl_of_holder _ _ _ Hlock) in Hc. rewrite <- Hq in Hc.
      rewrite infl_holder by (cbn; assumption). cbn [rs_sh rs_log pend]. rewrite nproc_app, ndecl_app, nproc_procs, ndecl_procs.
      lcases l; [rewrite clear_other by discriminate | rewrite clear_other by discriminate | rewrite clear_other by discriminate
                | rewrite clear_same | rewrite clear_other by discriminate]; cbn [inflight cnt] in *; eqbs; gl.
    + assert (Hlock : r_lock (rs_sh st) = Some t) by (apply Hi; rewrite <- Hq; reflexivity).
      rewrite (infl_of_holder _ _ _ Hlock) in Hc. rewrite <- Hq in Hc.
      rewrite infl_none by reflexivity. cbn [rs_sh rs_log pend].
      rewrite !nproc_app, !ndecl_app, nproc_procs, ndecl_procs. cbn [nproc ndecl].
      lcases l; cbn [inflight cnt] in *; eqbs; gl.
Qed.

Lemma conserved_exec p s : conserved (rexec p s).
Proof.
  assert (H : linv_reg (rexec p s) /\ conserved (rexec p s)).
  { apply (rexec_inv (fun st => linv_reg st /\ conserved st)).
    - split; [apply linv_reg_init | apply conserved_init].
    - intros st t [H1 H2]. split; [now apply linv_reg_step | now apply conserved_step]. }
  apply H.
Qed.

(* an item is never taken from a list and processed more often than it has been declared so far; never from a list
   that its kind of declaration does not go to *)
Lemma reg_once p s l x :
  nproc l x (rtrace p s) <= (if goes_to x l then ndecl x (rtrace p s) else 0).
Proof. pose proof (conserved_exec p s l x) as H. unfold rtrace. lia. Qed.

(* ---- the function of a Do sees what its own thread declared before --------------------------------------------- *)

(* no declaration of the program fails to resolve *)
Definition no_failing (p : rprog) : Prop := forall t n, ~ In (RDecl (KX, n)) (nth t p []).

(* has the thread (not) yet taken list l in its current Do? *)
Definition notpopped (l : nat) (q : rpc) : bool :=
  match q with
  | QIdle | QBeforeLock => true
  | QTypes _ | QMapping _ _ _ | QBound _ _ => Nat.leb 2 l
  | QCtors _ _ => Nat.leb 3 l
  | QFuns _ _ => false
  end.

Record sinv (p : rprog) (st : rstate) : Prop := {
  s_todo : forall t o, In o (q_todo (rs_thr st t)) -> In o (nth t p []);
  s_pendx : forall l x, In x (pend (rs_sh st) l) -> fst x <> KX;
  s_inflx : forall l x, In x (infl st l) -> fst x <> KX;
  s_ownx : forall t x, In x (q_own (rs_thr st t)) -> fst x <> KX;
  s_own : forall t x, In x (q_own (rs_thr st t)) ->
            In x (r_done (rs_sh st)) \/ In x (infl st (home x)) \/
            (In x (pend (rs_sh st) (home x)) /\ notpopped (home x) (q_pc (rs_thr st t)) = true);
  s_log : forall t obs, In (EvR t RDo (RRDone obs)) (rs_log st) ->
            forall x b, In (x, b) obs -> fst x <> KG -> b = true
}.

Lemma sinv_init p : sinv p (rinit p).
Proof.
  split; cbn; intros; try contradiction; auto.
Qed.

Lemma home_cases x : home x = 0 \/ home x = 2 \/ home x = 3.
Proof. destruct x as [[] n]; cbn; auto. Qed.

Lemma In_append_item f y l x : In x (f l) -> In x (append_item f y l).
Proof. intros H. unfold append_item. destruct (goes_to y l); [apply in_or_app; now left | assumption]. Qed.

Lemma In_append_item_inv f y l x : In x (append_item f y l) -> In x (f l) \/ x = y.
Proof.
  unfold append_item. destruct (goes_to y l); [|auto]. intros H. apply in_app_or in H. destruct H as [H|[H|[]]]; auto.
Qed.

Lemma In_clear f l0 l x : In x (clear f l0 l) -> In x (f l).
Proof. unfold clear. destruct (Nat.eqb l l0); [intros [] | auto]. Qed.

Lemma notpopped_after_maps l ts ms mine : notpopped l (after_maps ts ms mine) = Nat.leb 2 l.
Proof. destruct ms; reflexivity. Qed.

Lemma inflight_after_maps_home x ts ms mine : inflight (home x) (after_maps ts ms mine) = inflight (home x) (QBound ts mine).
Proof. destruct (home_cases x) as [-> | [-> | ->]]; destruct ms; reflexivity. Qed.

Lemma in_procs_RDo t l xs t' obs : ~ In (EvR t' RDo (RRDone obs)) (procs t l xs).
Proof. unfold procs. induction xs as [|y xs IH]; cbn; [auto | intros [H|H]; [discriminate | auto]]. Qed.

Section SeesOwn.
  Variable p : rprog.
  Hypothesis Hnf : no_failing p.

  Lemma decl_not_failing t y : In (RDecl y) (nth t p []) -> fst y <> KX.
  Proof. destruct y as [k n]. cbn. intros H ->. exact (Hnf t n H). Qed.

  Lemma sinv_step st t : linv_reg st -> sinv p st -> sinv p (rstep st t).
  Proof.
    intros [Hh Hi] [Htodo Hpx Hix Hox Hown Hlog].
    destruct (rstep_cases st t) as [-> | Hm]; [split; auto|].
    inversion Hm as [y todo Hpc Htd Heq | todo Hpc Htd Heq | sh' q' evs Hpc Hs Heq]; clear Hm.
    - (* a declaration *)
      assert (Hnh : r_lock (rs_sh st) <> Some t) by (intros H; apply Hh in H; rewrite Hpc in H; discriminate).
      assert (Hy : fst y <> KX) by (apply (decl_not_failing t); apply Htodo; rewrite Htd; now left).
      split; cbn [rs_sh rs_thr rs_log pend r_done].
      + intros t0 o. destruct (Nat.eq_dec t0 t) as [->|Hne]; [rewrite upd1_eq | rewrite upd1_neq by assumption]; cbn [q_todo]; eauto.
        intros H. apply Htodo. rewrite Htd. now right.
      + intros l x H. apply In_append_item_inv in H. destruct H as [H| ->]; eauto.
      + intros l x. rewrite infl_other by (cbn; auto). apply Hix.
      + intros t0 x. destruct (Nat.eq_dec t0 t) as [->|Hne]; [rewrite upd1_eq | rewrite upd1_neq by assumption]; cbn [q_own]; eauto.
        intros H. apply in_app_or in H. destruct H as [H|[<-|[]]]; eauto.
      + intros t0 x. rewrite infl_other by (cbn; auto).
        destruct (Nat.eq_dec t0 t) as [->|Hne]; [rewrite upd1_eq | rewrite upd1_neq by assumption]; cbn [q_own q_pc].
        * intros H. apply in_app_or in H. destruct H as [H|[<-|[]]].
          -- destruct (Hown _ _ H) as [Hd | [Hf | [Hp Hn]]]; auto.
             right; right. split; [now apply In_append_item | reflexivity].
          -- right; right. split; [|reflexivity]. unfold append_item. rewrite goes_home. apply in_or_app. right. now left.
        * intros H. destruct (Hown _ _ H) as [Hd | [Hf | [Hp Hn]]]; auto.
          right; right. split; [now apply In_append_item | assumption].
      + intros t0 obs H. apply in_app_or in H. destruct H as [H|[H|[]]]; [eauto | discriminate].
    - (* a Do starts *)
      assert (Hnh : r_lock (rs_sh st) <> Some t) by (intros H; apply Hh in H; rewrite Hpc in H; discriminate).
      split; cbn [rs_sh rs_thr rs_log].
      + intros t0 o. destruct (Nat.eq_dec t0 t) as [->|Hne]; [rewrite upd1_eq | rewrite upd1_neq by assumption]; cbn [q_todo]; eauto.
        intros H. apply Htodo. rewrite Htd. now right.
      + exact Hpx.
      + intros l x. rewrite infl_other by (cbn; auto). apply Hix.
      + intros t0 x. destruct (Nat.eq_dec t0 t) as [->|Hne]; [rewrite upd1_eq | rewrite upd1_neq by assumption]; cbn [q_own]; eauto.
      + intros t0 x. rewrite infl_other by (cbn; auto).
        destruct (Nat.eq_dec t0 t) as [->|Hne]; [rewrite upd1_eq | rewrite upd1_neq by assumption]; cbn [q_own q_pc]; auto.
        intros H. destruct (Hown _ _ H) as [Hd | [Hf | [Hp Hn]]]; auto.
      + exact Hlog.
    - (* a step inside resolveResolvables *)
      apply rseg_rtrans in Hs.
      assert (Htodo' : forall t0 o q1, In o (q_todo (upd1 (rs_thr st) t (mkRT q1 (q_todo (rs_thr st t)) (q_own (rs_thr st t))) t0)) ->
                                       In o (nth t0 p [])).
      { intros t0 o q1. destruct (Nat.eq_dec t0 t) as [->|Hne]; [rewrite upd1_eq | rewrite upd1_neq by assumption]; cbn [q_todo]; eauto. }
      assert (Hox' : forall t0 x q1, In x (q_own (upd1 (rs_thr st) t (mkRT q1 (q_todo (rs_thr st t)) (q_own (rs_thr st t))) t0)) ->
                                     fst x <> KX).
      { intros t0 x q1. destruct (Nat.eq_dec t0 t) as [->|Hne]; [rewrite upd1_eq | rewrite upd1_neq by assumption]; cbn [q_own]; eauto. }
      inversion Hs as [Hfree Hq | ts Hq | ts mine Hq | ts m ms mine Hq | ts mine Hok Hq | ts mine Hbad Hq | cs mine Hq | fs mine Hq];
        subst sh' q' evs.
      + (* lock, take the types *)
        assert (Hinfl0 : forall l, infl st l = []) by (intros l; unfold infl; now rewrite Hfree).
        split; cbn [rs_sh rs_thr rs_log pend r_done]; [intros t0 o; apply Htodo' | | | intros t0 x; apply Hox' | | ].
        * intros l x H. apply In_clear in H. eauto.
        * intros l x. rewrite infl_holder by reflexivity. lcases l; cbn [inflight]; try contradiction. apply Hpx.
        * intros t0 x. rewrite infl_holder by reflexivity. intros H.
          assert (Hin : In x (q_own (rs_thr st t0))).
          { revert H. destruct (Nat.eq_dec t0 t) as [->|Hne]; [rewrite upd1_eq | rewrite upd1_neq by assumption]; cbn [q_own]; eauto. }
          destruct (Hown _ _ Hin) as [Hd | [Hf | [Hp Hn]]]; auto.
          { rewrite Hinfl0 in Hf. contradiction. }
          destruct (home_cases x) as [Hh0 | Hh23].
          -- right; left. rewrite Hh0 in *. exact Hp.
          -- right; right. split.
             ++ rewrite clear_other by (destruct Hh23 as [-> | ->]; discriminate). exact Hp.
             ++ destruct (Nat.eq_dec t0 t) as [->|Hne]; [rewrite upd1_eq | rewrite upd1_neq by assumption]; cbn [q_pc]; auto.
                cbn [notpopped]. destruct Hh23 as [-> | ->]; reflexivity.
        * rewrite app_nil_r. exact Hlog.
      + (* bind the types, take the mappings *)
        assert (Hlock : r_lock (rs_sh st) = Some t) by (apply Hi; rewrite <- Hq; reflexivity).
        assert (Hinfl : forall l, infl st l = inflight l (QTypes ts)) by (intros l; rewrite (infl_of_holder _ _ _ Hlock), <- Hq; reflexivity).
        split; cbn [rs_sh rs_thr rs_log pend r_done]; [intros t0 o; apply Htodo' | | | intros t0 x; apply Hox' | | ].
        * intros l x H. apply In_clear in H. eauto.
        * intros l x. rewrite infl_holder by (cbn; assumption).
          lcases l; [rewrite inflight_after_maps_0 | rewrite inflight_after_maps_1 | rewrite inflight_after_maps_S ..]; try contradiction.
          -- intros H. apply (Hix 0). rewrite Hinfl. exact H.
          -- apply Hpx.
        * intros t0 x. rewrite infl_holder by (cbn; assumption). intros H.
          assert (Hin : In x (q_own (rs_thr st t0))).
          { revert H. destruct (Nat.eq_dec t0 t) as [->|Hne]; [rewrite upd1_eq | rewrite upd1_neq by assumption]; cbn [q_own]; eauto. }
          destruct (Hown _ _ Hin) as [Hd | [Hf | [Hp Hn]]]; auto.
          { right; left. rewrite Hinfl in Hf. rewrite inflight_after_maps_home.
            destruct (home_cases x) as [Hh0 | [Hh0 | Hh0]]; rewrite Hh0 in *; exact Hf. }
          right; right. split.
          -- rewrite clear_other by apply home_not_1. exact Hp.
          -- destruct (Nat.eq_dec t0 t) as [->|Hne]; [rewrite upd1_eq | rewrite upd1_neq by assumption]; cbn [q_pc]; auto.
             rewrite notpopped_after_maps. rewrite <- Hq in Hn. exact Hn.
        * rewrite app_nil_r. exact Hlog.
      + (* no mapping left *)
        assert (Hlock : r_lock (rs_sh st) = Some t) by (apply Hi; rewrite <- Hq; reflexivity).
        assert (Hinfl : forall l, infl st l = inflight l (QMapping ts [] mine)) by (intros l; rewrite (infl_of_holder _ _ _ Hlock), <- Hq; reflexivity).
        split; cbn [rs_sh rs_thr rs_log]; [intros t0 o; apply Htodo' | exact Hpx | | intros t0 x; apply Hox' | | ].
        * intros l x. rewrite infl_holder by assumption. intros H. apply (Hix l). rewrite Hinfl. revert H. lcases l; cbn [inflight]; auto.
        * intros t0 x. rewrite infl_holder by assumption. intros H.
          assert (Hin : In x (q_own (rs_thr st t0))).
          { revert H. destruct (Nat.eq_dec t0 t) as [->|Hne]; [rewrite upd1_eq | rewrite upd1_neq by assumption]; cbn [q_own]; eauto. }
          destruct (Hown _ _ Hin) as [Hd | [Hf | [Hp Hn]]]; auto.
          { right; left. rewrite Hinfl in Hf. destruct (home_cases x) as [Hh0 | [Hh0 | Hh0]]; rewrite Hh0 in *; exact Hf. }
          right; right. split; [exact Hp|].
          destruct (Nat.eq_dec t0 t) as [->|Hne]; [rewrite upd1_eq | rewrite upd1_neq by assumption]; cbn [q_pc]; auto.
          rewrite <- Hq in Hn. exact Hn.
        * rewrite app_nil_r. exact Hlog.
      + (* register a mapping *)
        assert (Hlock : r_lock (rs_sh st) = Some t) by (apply Hi; rewrite <- Hq; reflexivity).
        assert (Hinfl : forall l, infl st l = inflight l (QMapping ts (m :: ms) mine)) by (intros l; rewrite (infl_of_holder _ _ _ Hlock), <- Hq; reflexivity).
        split; cbn [rs_sh rs_thr rs_log]; [intros t0 o; apply Htodo' | exact Hpx | | intros t0 x; apply Hox' | | ].
        * intros l x. rewrite infl_holder by assumption. intros H. apply (Hix l). rewrite Hinfl. revert H.
          lcases l; [rewrite inflight_after_maps_0 | rewrite inflight_after_maps_1 | rewrite inflight_after_maps_S ..]; cbn [inflight]; auto.
          intros H. now right.
        * intros t0 x. rewrite infl_holder by assumption. intros H.
          assert (Hin : In x (q_own (rs_thr st t0))).
          { revert H. destruct (Nat.eq_dec t0 t) as [->|Hne]; [rewrite upd1_eq | rewrite upd1_neq by assumption]; cbn [q_own]; eauto. }
          destruct (Hown _ _ Hin) as [Hd | [Hf | [Hp Hn]]]; auto.
          { right; left. rewrite Hinfl in Hf. rewrite inflight_after_maps_home.
            destruct (home_cases x) as [Hh0 | [Hh0 | Hh0]]; rewrite Hh0 in *; exact Hf. }
          right; right. split; [exact Hp|].
          destruct (Nat.eq_dec t0 t) as [->|Hne]; [rewrite upd1_eq | rewrite upd1_neq by assumption]; cbn [q_pc]; auto.
          rewrite notpopped_after_maps. rewrite <- Hq in Hn. exact Hn.
        * intros t0 obs H. apply in_app_or in H. destruct H as [H|[H|[]]]; [eauto | discriminate].
      + (* resolve the types, take the constructors *)
        assert (Hlock : r_lock (rs_sh st) = Some t) by (apply Hi; rewrite <- Hq; reflexivity).
        assert (Hinfl : forall l, infl st l = inflight l (QBound ts mine)) by (intros l; rewrite (infl_of_holder _ _ _ Hlock), <- Hq; reflexivity).
        assert (Hts : resolve_prefix ts = (ts, false)).
        { apply resolve_prefix_ok. intros x Hx. apply (Hix 0). rewrite Hinfl. exact Hx. }
        rewrite Hts. cbn [fst].
        split; cbn [rs_sh rs_thr rs_log pend r_done]; [intros t0 o; apply Htodo' | | | intros t0 x; apply Hox' | | ].
        * intros l x H. apply In_clear in H. eauto.
        * intros l x. rewrite infl_holder by (cbn; assumption). lcases l; cbn [inflight]; try contradiction. apply Hpx.
        * intros t0 x. rewrite infl_holder by (cbn; assumption). intros H.
          assert (Hin : In x (q_own (rs_thr st t0))).
          { revert H. destruct (Nat.eq_dec t0 t) as [->|Hne]; [rewrite upd1_eq | rewrite upd1_neq by assumption]; cbn [q_own]; eauto. }
          destruct (Hown _ _ Hin) as [Hd | [Hf | [Hp Hn]]].
          { left. apply in_or_app. now left. }
          { left. apply in_or_app. right. rewrite Hinfl in Hf.
            destruct (home_cases x) as [Hh0 | [Hh0 | Hh0]]; rewrite Hh0 in Hf; cbn [inflight] in Hf; [exact Hf | contradiction ..]. }
          destruct (home_cases x) as [Hh0 | [Hh0 | Hh0]]; rewrite Hh0 in *.
          -- right; right. split; [rewrite clear_other by discriminate; exact Hp|].
             destruct (Nat.eq_dec t0 t) as [->|Hne]; [rewrite upd1_eq | rewrite upd1_neq by assumption]; cbn [q_pc]; auto.
             rewrite <- Hq in Hn. cbn in Hn. discriminate.
          -- right; left. exact Hp.
          -- right; right. split; [rewrite clear_other by discriminate; exact Hp|].
             destruct (Nat.eq_dec t0 t) as [->|Hne]; [rewrite upd1_eq | rewrite upd1_neq by assumption]; cbn [q_pc]; auto.
        * intros t0 obs H. apply in_app_or in H. destruct H as [H|H]; [eauto | exfalso; eapply in_procs_RDo; eauto].
      + (* a Resolve panics: impossible here *)
        exfalso.
        assert (Hlock : r_lock (rs_sh st) = Some t) by (apply Hi; rewrite <- Hq; reflexivity).
        assert (Hts : resolve_prefix ts = (ts, false)).
        { apply resolve_prefix_ok. intros x Hx. apply (Hix 0). rewrite (infl_of_holder _ _ _ Hlock), <- Hq. exact Hx. }
        rewrite Hts in Hbad. discriminate.
      + (* bind the constructors, take the functions *)
        assert (Hlock : r_lock (rs_sh st) = Some t) by (apply Hi; rewrite <- Hq; reflexivity).
        assert (Hinfl : forall l, infl st l = inflight l (QCtors cs mine)) by (intros l; rewrite (infl_of_holder _ _ _ Hlock), <- Hq; reflexivity).
        split; cbn [rs_sh rs_thr rs_log pend r_done]; [intros t0 o; apply Htodo' | | | intros t0 x; apply Hox' | | ].
        * intros l x H. apply In_clear in H. eauto.
        * intros l x. rewrite infl_holder by (cbn; assumption). lcases l; cbn [inflight]; try contradiction. apply Hpx.
        * intros t0 x. rewrite infl_holder by (cbn; assumption). intros H.
          assert (Hin : In x (q_own (rs_thr st t0))).
          { revert H. destruct (Nat.eq_dec t0 t) as [->|Hne]; [rewrite upd1_eq | rewrite upd1_neq by assumption]; cbn [q_own]; eauto. }
          destruct (Hown _ _ Hin) as [Hd | [Hf | [Hp Hn]]].
          { left. apply in_or_app. now left. }
          { left. apply in_or_app. right. rewrite Hinfl in Hf.
            destruct (home_cases x) as [Hh0 | [Hh0 | Hh0]]; rewrite Hh0 in Hf; cbn [inflight] in Hf; [contradiction | exact Hf | contradiction]. }
          destruct (home_cases x) as [Hh0 | [Hh0 | Hh0]]; rewrite Hh0 in *.
          -- right; right. split; [rewrite clear_other by discriminate; exact Hp|].
             destruct (Nat.eq_dec t0 t) as [->|Hne]; [rewrite upd1_eq | rewrite upd1_neq by assumption]; cbn [q_pc]; auto.
             rewrite <- Hq in Hn. cbn in Hn. discriminate.
          -- right; right. split; [rewrite clear_other by discriminate; exact Hp|].
             destruct (Nat.eq_dec t0 t) as [->|Hne]; [rewrite upd1_eq | rewrite upd1_neq by assumption]; cbn [q_pc]; auto.
             rewrite <- Hq in Hn. cbn in Hn. discriminate.
          -- right; left. exact Hp.
        * intros t0 obs H. apply in_app_or in H. destruct H as [H|H]; [eauto | exfalso; eapply in_procs_RDo; eauto].
      + (* bind the functions, unlock, run the function of the Do *)
        assert (Hlock : r_lock (rs_sh st) = Some t) by (apply Hi; rewrite <- Hq; reflexivity).
        assert (Hinfl : forall l, infl st l = inflight l (QFuns fs mine)) by (intros l; rewrite (infl_of_holder _ _ _ Hlock), <- Hq; reflexivity).
        assert (Hmine : forall x, In x (q_own (rs_thr st t)) -> In x (r_done (rs_sh st) ++ fs)).
        { intros x Hin. apply in_or_app. destruct (Hown _ _ Hin) as [Hd | [Hf | [Hp Hn]]]; auto.
          - right. rewrite Hinfl in Hf.
            destruct (home_cases x) as [Hh0 | [Hh0 | Hh0]]; rewrite Hh0 in Hf; cbn [inflight] in Hf; [contradiction | contradiction | exact Hf].
          - rewrite <- Hq in Hn. cbn in Hn. discriminate. }
        split; cbn [rs_sh rs_thr rs_log pend r_done]; [intros t0 o; apply Htodo' | | | intros t0 x; apply Hox' | | ].
        * exact Hpx.
        * intros l x. rewrite infl_none by reflexivity. intros [].
        * intros t0 x. rewrite infl_none by reflexivity. intros H.
          assert (Hin : In x (q_own (rs_thr st t0))).
          { revert H. destruct (Nat.eq_dec t0 t) as [->|Hne]; [rewrite upd1_eq | rewrite upd1_neq by assumption]; cbn [q_own]; eauto. }
          destruct (Nat.eq_dec t0 t) as [->|Hne]; [left; now apply Hmine|].
          rewrite upd1_neq by assumption.
          destruct (Hown _ _ Hin) as [Hd | [Hf | [Hp Hn]]].
          { left. apply in_or_app. now left. }
          { left. apply in_or_app. right. rewrite Hinfl in Hf.
            destruct (home_cases x) as [Hh0 | [Hh0 | Hh0]]; rewrite Hh0 in Hf; cbn [inflight] in Hf; [contradiction | contradiction | exact Hf]. }
          right; right. auto.
        * intros t0 obs H. apply in_app_or in H. destruct H as [H|H]; [eauto|].
          apply in_app_or in H. destruct H as [H|[H|[]]]; [exfalso; eapply in_procs_RDo; eauto|].
          inversion H; subst. intros x b Hxb Hg.
          apply in_map_iff in Hxb. destruct Hxb as (x0 & Hx0 & Hin). inversion Hx0; subst.
          pose proof (Hox _ _ Hin) as Hnx. pose proof (Hmine _ Hin) as Hd.
          unfold look. cbn [r_done].
          destruct (fst x) eqn:Hk; try congruence; now apply mem_In.
  Qed.

  Lemma sinv_exec s : sinv p (rexec p s).
  Proof.
    assert (H : linv_reg (rexec p s) /\ sinv p (rexec p s)).
    { apply (rexec_inv (fun st => linv_reg st /\ sinv p st)).
      - split; [apply linv_reg_init | apply sinv_init].
      - intros st t [H1 H2]. split; [now apply linv_reg_step | now apply sinv_step]. }
    apply H.
  Qed.
End SeesOwn.

(* the function of a Do finds every item that its own thread declared before resolved and usable (for an item with
   a mapping: the type; the mapping is registered in the context of whichever Do took it) *)
Lemma reg_sees_own p s :
  no_failing p ->
  forall t obs, In (EvR t RDo (RRDone obs)) (rtrace p s) -> forall x b, In (x, b) obs -> fst x <> KG -> b = true.
Proof. intros Hnf. apply (s_log _ _ (sinv_exec p Hnf s)). Qed.
