(* Lemmas about Model/InferRuntime.v (Runtime types: the leaf types with a reflect.Type behind their name). *)
From Coq Require Import NArith Bool List.
From PcoreV Require Import Model.Base Model.InferRuntime.
Import ListNotations.

(* all tests on strings become equalities / disequalities in the context *)
Ltac str_cases :=
  repeat match goal with
         | |- context [str_eqb ?a ?b] => destruct (str_eqb_spec a b); try subst; cbn [negb orb andb]
         end.

Section RuntimeProofs.
  Variable gasg : N -> N -> bool.
  Variable tname : N -> str.

  (* T accepts the type of a wrapped Go value exactly when the value is an instance of T: both directions of the
     clause, no hypothesis (both sides ask reflect the same question, or read the same fields) *)
  Lemma rt_accepts_iff t v : rt_asg gasg t (rt_of tname v) = rt_inst gasg tname t v.
  Proof.
    unfold rt_asg, rt_inst, rt_of; cbn [r_go r_runtime r_name r_pat].
    destruct (r_go t) as [g|]; [reflexivity|].
    destruct (str_eqb (r_runtime t) []) eqn:E0; [reflexivity|].
    destruct (str_eqb (r_runtime t) s_go) eqn:E1; cbn [negb orb].
    - destruct (r_pat t) as [p|]; [rewrite andb_false_r|]; reflexivity.
    - reflexivity.
  Qed.

  Lemma rt_asg_runtime r o : rt_asg gasg (rt_of_runtime r) o = str_eqb r [] || str_eqb r (r_runtime o).
  Proof.
    unfold rt_asg, rt_of_runtime; cbn [r_go r_runtime r_name r_pat].
    destruct (str_eqb r []); [reflexivity|]. destruct (str_eqb r (r_runtime o)); reflexivity.
  Qed.

  Lemma rt_inst_go_runtime v : rt_inst gasg tname (rt_of_runtime s_go) v = true.
  Proof. reflexivity. Qed.

  Lemma rt_inst_default v : rt_inst gasg tname rt_default v = true.
  Proof. reflexivity. Qed.

  Section Refl.
    Hypothesis gasg_refl : forall x, gasg x x = true.

    Lemma rt_infer_inst v : rt_inst gasg tname (rt_of tname v) v = true.
    Proof. unfold rt_inst, rt_of; cbn [r_go]. apply gasg_refl. Qed.

    Lemma rt_asg_refl t : rt_asg gasg t t = true.
    Proof.
      unfold rt_asg. destruct (r_go t) as [g|]; [apply gasg_refl|].
      destruct (str_eqb (r_runtime t) []); [reflexivity|]. rewrite str_eqb_refl; cbn [negb].
      destruct (r_pat t) as [p|]; [rewrite !str_eqb_refl; reflexivity|].
      destruct (str_eqb (r_name t) []); [reflexivity|apply str_eqb_refl].
    Qed.

    Lemma rt_common_ub a b :
      rt_asg gasg (rt_common gasg a b) a = true /\ rt_asg gasg (rt_common gasg a b) b = true.
    Proof.
      unfold rt_common. destruct (rt_asg gasg a b) eqn:Eab; [split; [apply rt_asg_refl|exact Eab]|].
      destruct (rt_asg gasg b a) eqn:Eba; [split; [exact Eba|apply rt_asg_refl]|].
      destruct (str_eqb (r_runtime a) (r_runtime b)) eqn:Er.
      - rewrite !rt_asg_runtime, str_eqb_refl, Er, !orb_true_r. split; reflexivity.
      - split; reflexivity.
    Qed.

    Section Trans.
      Hypothesis gasg_trans : forall x y z, gasg x y = true -> gasg y z = true -> gasg x z = true.

      (* a wider type has the instances of the narrower one (well-formed types) *)
      Lemma rt_inst_mono t' t v :
        rwf tname t' = true -> rwf tname t = true -> rt_asg gasg t' t = true -> rt_inst gasg tname t v = true ->
        rt_inst gasg tname t' v = true.
      Proof.
        destruct t' as [r' n' p' g'], t as [r n p g].
        unfold rwf, rt_asg, rt_inst, s_go; cbn [r_go r_runtime r_name r_pat].
        destruct g' as [g'|], g as [g|], p' as [p'|], p as [p|]; str_cases;
          intros; try discriminate; try congruence; eauto.
      Qed.

      Lemma rwf_of v : tname v <> [] -> rwf tname (rt_of tname v) = true.
      Proof.
        intros Hn. unfold rwf, rt_of; cbn [r_go r_runtime r_name r_pat]. rewrite !str_eqb_refl; cbn [andb].
        destruct (str_eqb_spec (tname v) []); [contradiction|reflexivity].
      Qed.

      Lemma rt_common_step t x v :
        rwf tname t = true -> tname x <> [] -> rt_inst gasg tname t v = true \/ v = x ->
        rt_inst gasg tname (rt_common gasg t (rt_of tname x)) v = true /\ rwf tname (rt_common gasg t (rt_of tname x)) = true.
      Proof.
        intros Wt Hx Hv. unfold rt_common.
        destruct (rt_asg gasg t (rt_of tname x)) eqn:E1.
        - split; [|exact Wt]. destruct Hv as [Hv| ->]; [exact Hv|]. rewrite <- rt_accepts_iff. exact E1.
        - destruct (rt_asg gasg (rt_of tname x) t) eqn:E2.
          + split; [|apply rwf_of; exact Hx]. destruct Hv as [Hv| ->]; [|apply rt_infer_inst].
            exact (rt_inst_mono _ _ _ (rwf_of _ Hx) Wt E2 Hv).
          + destruct (str_eqb (r_runtime t) (r_runtime (rt_of tname x))) eqn:E3.
            * apply str_eqb_eq in E3. cbn [rt_of r_runtime] in E3. rewrite E3. split; reflexivity.
            * split; reflexivity.
      Qed.

      (* the element type inferred for an array of wrapped Go values has every element as an instance *)
      Lemma rt_fold_inst vs : forall t seen,
        rwf tname t = true -> (forall v, In v vs -> tname v <> []) -> Forall (fun v => rt_inst gasg tname t v = true) seen ->
        Forall (fun v => rt_inst gasg tname (rt_fold gasg tname t vs) v = true) (seen ++ vs).
      Proof.
        induction vs as [|x vs IH]; intros t seen Wt Hn Hs; cbn [rt_fold fold_left].
        - rewrite app_nil_r. exact Hs.
        - replace (seen ++ x :: vs) with ((seen ++ [x]) ++ vs) by (rewrite <- app_assoc; reflexivity).
          assert (Hx : tname x <> []) by (apply Hn; left; reflexivity).
          apply IH.
          + exact (proj2 (rt_common_step t x x Wt Hx (or_intror eq_refl))).
          + intros v Hv. apply Hn. right. exact Hv.
          + apply Forall_app. split.
            * rewrite Forall_forall in Hs |- *. intros v Hv. exact (proj1 (rt_common_step t x v Wt Hx (or_introl (Hs v Hv)))).
            * constructor; [|constructor]. exact (proj1 (rt_common_step t x x Wt Hx (or_intror eq_refl))).
      Qed.

      Lemma rt_elem_inst vs t :
        (forall v, In v vs -> tname v <> []) -> rt_elem gasg tname vs = Some t ->
        Forall (fun v => rt_inst gasg tname t v = true) vs.
      Proof.
        destruct vs as [|x vs]; [discriminate|]. intros Hn [= <-].
        change (x :: vs) with ([x] ++ vs). apply rt_fold_inst.
        - apply rwf_of. apply Hn. left. reflexivity.
        - intros v Hv. apply Hn. right. exact Hv.
        - constructor; [apply rt_infer_inst|constructor].
      Qed.
    End Trans.
  End Refl.
End RuntimeProofs.
