(* JsonSerProofs.v — lemmas about the model of the Serializer's call placement (Model/JsonSer.v): whatever the
   value, the options and the state of the dedup memo, a consumer that cannot do complex keys receives
   Add(String) - never AddRef, never a container - at every key position; hence the JSON streamer writes
   valid JSON for every value the model covers. *)
From Coq Require Import ZArith NArith Bool List Lia.
From PcoreV Require Import Model.Base Model.Json Model.JsonSer Proofs.JsonProofs.
Import ListNotations.
Open Scope Z_scope.

(* induction over values (children are nested in lists, entries in triples) *)
Lemma sval_ind' (P : sval -> Prop) :
  (forall s, P (XSc s)) -> (forall s, P (XStr s)) -> P XDefault ->
  (forall id l, Forall P l -> P (XArr id l)) ->
  (forall id l, Forall (fun p => P (fst (fst p)) /\ P (snd p)) l -> P (XHash id l)) ->
  (forall id t x, P x -> P (XSens id t x)) ->
  (forall id b t s, P (XBin id b t s)) -> (forall t, P (XOther t)) ->
  forall v, P v.
Proof.
  intros Hsc Hstr Hd Ha Hh Hs Hb Ho.
  fix IH 1. intros [s|s| |id l|id l|id t x|id b t s|t].
  - apply Hsc.
  - apply Hstr.
  - apply Hd.
  - apply Ha. induction l as [|x l IHl]; constructor; [apply IH | exact IHl].
  - apply Hh. induction l as [|[[k kt] x] l IHl]; constructor; [split; apply IH | exact IHl].
  - apply Hs. apply IH.
  - apply Hb.
  - apply Ho.
Qed.

Lemma process_end_fst k i reg r : fst (process_end k i reg r) = fst r.
Proof. unfold process_end. destruct (reg && (idx (snd r) =? i)); reflexivity. Qed.

Lemma process_fst c k st doer :
  (exists r, fst (process c k st doer) = ERef r) \/ (exists s, fst (process c k st doer) = fst (doer s)).
Proof.
  unfold process. destruct (process_begin c k st) as [r|s1 reg].
  - left. exists r. reflexivity.
  - right. exists s1. apply process_end_fst.
Qed.

(* a string is sent as itself or, when it was sent before and dedup applies at this level, as a reference *)
Lemma ser_str_fst c level s st :
  fst (ser_str c level s st) = EAdd (SStr s) \/ exists r, fst (ser_str c level s st) = ERef r.
Proof.
  unfold ser_str. destruct ((level <=? eff_dedup c) && (thr c <=? Z.of_nat (length s))).
  - destruct (process_fst c (MStr s) st (add_data (SStr s))) as [[r H]|[s1 H]].
    + right. exists r. exact H.
    + left. rewrite H. reflexivity.
  - left. reflexivity.
Qed.

(* Convert lowers the dedup level below that of a key when the consumer cannot do complex keys *)
Lemma eff_dedup_no_keys c : ckeys c = false -> (2 <=? eff_dedup c) = false.
Proof.
  intros H. unfold eff_dedup. rewrite H. cbn [negb]. rewrite andb_true_r.
  destruct (2 <=? dedup c) eqn:E; [reflexivity | exact E].
Qed.

(* ... so a string at level 2 (a key) is always sent as itself *)
Lemma ser_str_key c s st : ckeys c = false -> fst (ser_str c 2 s st) = EAdd (SStr s).
Proof.
  intros H. unfold ser_str. rewrite (eff_dedup_no_keys c H). reflexivity.
Qed.

Lemma lossy_key_is_str c k kt st : ckeys c = false -> is_str (fst (lossy_key c k kt st)) = true.
Proof.
  intros H. destruct k; cbn [lossy_key]; rewrite ser_str_key by exact H; reflexivity.
Qed.

Section Shape.
  (* R: a property of event trees that holds of references and strings and is inherited by arrays and by
     hashes whose keys are strings; Pre: what it needs of the value (its scalars) *)
  Variable R : ev -> Prop.
  Variable Pre : sval -> Prop.
  Variable c : scfg.
  Variable lk : scfg -> sval -> str -> sst -> ev * sst.
  Hypothesis Hck : ckeys c = false.
  Hypothesis R_ref : forall n, R (ERef n).
  Hypothesis R_str : forall s, R (EAdd (SStr s)).
  Hypothesis R_bin : forall b, R (EAdd (SBin b)).
  Hypothesis R_arr : forall l, Forall R l -> R (EArr l).
  Hypothesis R_hash : forall l, keys_ok l = true -> Forall R l -> R (EHash l).
  Hypothesis Pre_sc : forall s, Pre (XSc s) -> R (EAdd s).
  Hypothesis Pre_arr : forall id l, Pre (XArr id l) -> Forall Pre l.
  Hypothesis Pre_hash : forall id l, Pre (XHash id l) -> Forall (fun p => Pre (fst (fst p)) /\ Pre (snd p)) l.
  Hypothesis Pre_sens : forall id t x, Pre (XSens id t x) -> Pre x.
  Hypothesis lk_key : forall k kt st, is_str (fst (lk c k kt st)) = true.
  Hypothesis lk_R : forall k kt st, R (fst (lk c k kt st)).

  Lemma ser_str_R level s st : R (fst (ser_str c level s st)).
  Proof. destruct (ser_str_fst c level s st) as [H|[r H]]; rewrite H; auto. Qed.

  Lemma ext_hash_R tname st last : (forall s, R (fst (last s))) -> R (fst (ext_hash c tname st last)).
  Proof.
    intros Hl. unfold ext_hash.
    pose proof (ser_str_key c s_ptype (bump st) Hck) as K1.
    destruct (ser_str c 2 s_ptype (bump st)) as [k1 s1]. cbn [fst] in K1. subst k1.
    pose proof (ser_str_R 1 tname s1) as V1.
    destruct (ser_str c 1 tname s1) as [v1 s2]. cbn [fst] in V1.
    pose proof (ser_str_key c s_pvalue s2 Hck) as K2.
    destruct (ser_str c 2 s_pvalue s2) as [k2 s3]. cbn [fst] in K2. subst k2.
    pose proof (Hl s3) as V2.
    destruct (last s3) as [v2 s4]. cbn [fst] in V2 |- *.
    apply R_hash; [reflexivity | repeat constructor; auto].
  Qed.

  Lemma ser_list_R f l :
    Forall (fun x => forall st, R (fst (f x st))) l -> forall st, Forall R (fst (ser_list f l st)).
  Proof.
    induction 1 as [|x l Hx Hl IH]; intros st; cbn [ser_list].
    - constructor.
    - pose proof (Hx st) as H1. destruct (f x st) as [e s1]. cbn [fst] in H1.
      pose proof (IH s1) as H2. destruct (ser_list f l s1) as [es s2]. cbn [fst] in H2 |- *.
      constructor; assumption.
  Qed.

  Lemma ser_entries_R fk fv l :
    Forall (fun p => (forall st, R (fst (fk (fst (fst p)) (snd (fst p)) st))) /\ (forall st, R (fst (fv (snd p) st)))) l ->
    forall st, Forall R (fst (ser_entries fk fv l st)).
  Proof.
    induction 1 as [|[[k kt] x] l [Hk Hx] Hl IH]; intros st; cbn [ser_entries].
    - constructor.
    - cbn [fst snd] in Hk, Hx.
      pose proof (Hk st) as H1. destruct (fk k kt st) as [ek s1]. cbn [fst] in H1.
      pose proof (Hx s1) as H2. destruct (fv x s1) as [ex s2]. cbn [fst] in H2.
      pose proof (IH s2) as H3. destruct (ser_entries fk fv l s2) as [es s3]. cbn [fst] in H3 |- *.
      repeat constructor; assumption.
  Qed.

  Lemma ser_entries_keys fk fv l :
    Forall (fun p => forall st, is_str (fst (fk (fst (fst p)) (snd (fst p)) st)) = true) l ->
    forall st, keys_ok (fst (ser_entries fk fv l st)) = true.
  Proof.
    induction 1 as [|[[k kt] x] l Hk Hl IH]; intros st; cbn [ser_entries].
    - reflexivity.
    - cbn [fst snd] in Hk.
      pose proof (Hk st) as H1. destruct (fk k kt st) as [ek s1]. cbn [fst] in H1.
      destruct (fv x s1) as [ex s2].
      pose proof (IH s2) as H3. destruct (ser_entries fk fv l s2) as [es s3]. cbn [fst] in H3 |- *.
      cbn [keys_ok]. rewrite H1, H3. reflexivity.
  Qed.

  Definition P_shape (v : sval) : Prop := Pre v -> forall level st, R (fst (ser_gen lk c level v st)).

  Lemma ser_shape : forall v, P_shape v.
  Proof.
    induction v as [s|s| |id l IH|id l IH|id t x IH|id b t s|t] using sval_ind'; intros HP level st; cbn [ser_gen].
    - apply Pre_sc. exact HP.
    - apply ser_str_R.
    - destruct (rich c).
      + pose proof (ser_str_key c s_ptype (bump st) Hck) as K1.
        destruct (ser_str c 2 s_ptype (bump st)) as [k1 s1]. cbn [fst] in K1. subst k1.
        pose proof (ser_str_R 1 s_Default s1) as V1.
        destruct (ser_str c 1 s_Default s1) as [v1 s2]. cbn [fst] in V1 |- *.
        apply R_hash; [reflexivity | repeat constructor; auto].
      + apply ser_str_R.
    - destruct (process_begin c (MId id) st) as [r|sa reg]; [apply R_ref|].
      rewrite process_end_fst.
      assert (HF : Forall (fun x => forall st', R (fst (ser_gen lk c 1 x st'))) l).
      { pose proof (Pre_arr id l HP) as HPl. rewrite Forall_forall in *. intros x Hx st'. apply IH; auto. }
      pose proof (ser_list_R (fun x s => ser_gen lk c 1 x s) l HF (bump sa)) as H.
      destruct (ser_list (fun x s => ser_gen lk c 1 x s) l (bump sa)) as [es sb]. cbn [fst] in H |- *.
      apply R_arr. exact H.
    - destruct (process_begin c (MId id) st) as [r|sa reg]; [apply R_ref|].
      rewrite process_end_fst.
      pose proof (Pre_hash id l HP) as HPl.
      assert (HV : forall lev, Forall (fun p => (forall st', R (fst (ser_gen lk c lev (fst (fst p)) st'))) /\
                                   (forall st', R (fst (ser_gen lk c 1 (snd p) st')))) l).
      { intros lev. rewrite Forall_forall in *. intros p Hp. destruct (IH p Hp) as [I1 I2]. destruct (HPl p Hp) as [P1 P2].
        split; intros st'; [apply I1 | apply I2]; assumption. }
      rewrite Hck. cbn [orb].
      destruct (all_keys_strings l) eqn:EK.
      + (* every key is a String: toData(2, key) *)
        assert (HK : Forall (fun p => forall st', is_str (fst (ser_gen lk c 2 (fst (fst p)) st')) = true) l).
        { unfold all_keys_strings in EK. rewrite forallb_forall in EK. rewrite Forall_forall. intros p Hp st'.
          specialize (EK p Hp). destruct (fst (fst p)); try discriminate EK.
          cbn [ser_gen]. rewrite ser_str_key by exact Hck. reflexivity. }
        pose proof (ser_entries_R (fun k _ s => ser_gen lk c 2 k s) (fun x s => ser_gen lk c 1 x s) l (HV 2) (bump sa)) as H1.
        pose proof (ser_entries_keys (fun k _ s => ser_gen lk c 2 k s) (fun x s => ser_gen lk c 1 x s) l HK (bump sa)) as H2.
        destruct (ser_entries (fun k _ s => ser_gen lk c 2 k s) (fun x s => ser_gen lk c 1 x s) l (bump sa)) as [es sb].
        cbn [fst] in H1, H2 |- *. apply R_hash; assumption.
      + destruct (rich c).
        * (* key-extended hash: keys and values alternate in an ARRAY *)
          apply ext_hash_R. intros s.
          pose proof (ser_entries_R (fun k _ s' => ser_gen lk c 1 k s') (fun x s' => ser_gen lk c 1 x s') l (HV 1) (bump s)) as H1.
          destruct (ser_entries (fun k _ s' => ser_gen lk c 1 k s') (fun x s' => ser_gen lk c 1 x s') l (bump s)) as [es sb].
          cbn [fst] in H1 |- *. apply R_arr. exact H1.
        * (* keys turned into strings *)
          assert (HL : Forall (fun p => (forall st', R (fst (lk c (fst (fst p)) (snd (fst p)) st'))) /\
                                   (forall st', R (fst (ser_gen lk c 1 (snd p) st')))) l).
          { specialize (HV 1). rewrite Forall_forall in *. intros p Hp. destruct (HV p Hp) as [_ I2]. split; [intros st'; apply lk_R | exact I2]. }
          assert (HK : Forall (fun p => forall st', is_str (fst (lk c (fst (fst p)) (snd (fst p)) st')) = true) l).
          { rewrite Forall_forall. intros p Hp st'. apply lk_key. }
          pose proof (ser_entries_R (lk c) (fun x s => ser_gen lk c 1 x s) l HL (bump sa)) as H1.
          pose proof (ser_entries_keys (lk c) (fun x s => ser_gen lk c 1 x s) l HK (bump sa)) as H2.
          destruct (ser_entries (lk c) (fun x s => ser_gen lk c 1 x s) l (bump sa)) as [es sb].
          cbn [fst] in H1, H2 |- *. apply R_hash; assumption.
    - destruct (process_begin c (MId id) st) as [r|sa reg]; [apply R_ref|].
      rewrite process_end_fst.
      destruct (rich c).
      + apply ext_hash_R. intros s. apply IH. exact (Pre_sens id t x HP).
      + apply ser_str_R.
    - destruct (process_fst c (MId id) st (fun sa =>
        if cbin c then add_data (SBin b) sa
        else if rich c then ext_hash c s_Binary sa (ser_str c 1 s)
        else ser_str c level t sa)) as [[r H]|[s1 H]]; rewrite H; [apply R_ref|].
      destruct (cbin c); [apply R_bin|].
      destruct (rich c); [apply ext_hash_R; intros s'; apply ser_str_R | apply ser_str_R].
    - apply ser_str_R.
  Qed.
End Shape.

(* ---------------------------------------------------------------------------------------------- *)
(* 1. a consumer without complex keys gets a String at every key position: for ALL values (NaN included),
      all options, every state of the memo *)
Theorem ser_keys_are_strings c level v st :
  ckeys c = false -> keys_wf (fst (ser c level v st)) = true.
Proof.
  intros Hck. unfold ser.
  apply (ser_shape (fun e => keys_wf e = true) (fun _ => True) c lossy_key Hck).
  - reflexivity.
  - reflexivity.
  - reflexivity.
  - intros l H. cbn [keys_wf]. rewrite forallb_forall. rewrite Forall_forall in H. exact H.
  - intros l Hk H. cbn [keys_wf]. rewrite Hk. cbn [andb]. rewrite forallb_forall. rewrite Forall_forall in H. exact H.
  - intros s _. reflexivity.
  - intros id l _. rewrite Forall_forall. auto.
  - intros id l _. rewrite Forall_forall. auto.
  - auto.
  - intros k kt st'. apply lossy_key_is_str. exact Hck.
  - intros k kt st'. pose proof (lossy_key_is_str c k kt st' Hck) as H.
    destruct (fst (lossy_key c k kt st')) as [[]| | |]; try discriminate H. reflexivity.
  - exact I.
Qed.

(* 2. finite floats in, finite floats out *)
Theorem ser_floats_finite c level v st :
  ckeys c = false -> sval_finite v = true -> floats_finite (fst (ser c level v st)) = true.
Proof.
  intros Hck Hf. unfold ser.
  apply (ser_shape (fun e => floats_finite e = true) (fun v => sval_finite v = true) c lossy_key Hck).
  - reflexivity.
  - reflexivity.
  - reflexivity.
  - intros l H. cbn [floats_finite]. rewrite forallb_forall. rewrite Forall_forall in H. exact H.
  - intros l _ H. cbn [floats_finite]. rewrite forallb_forall. rewrite Forall_forall in H. exact H.
  - intros s H. destruct s; try reflexivity. exact H.
  - intros id l H. cbn [sval_finite] in H. rewrite forallb_forall in H. rewrite Forall_forall. exact H.
  - intros id l H. cbn [sval_finite] in H. rewrite forallb_forall in H. rewrite Forall_forall. intros p Hp.
    apply andb_true_iff. apply H. exact Hp.
  - intros id t x H. exact H.
  - intros k kt st'. apply lossy_key_is_str. exact Hck.
  - intros k kt st'. pose proof (lossy_key_is_str c k kt st' Hck) as H.
    destruct (fst (lossy_key c k kt st')) as [[]| | |]; try discriminate H. reflexivity.
  - exact Hf.
Qed.

(* 3. hence: whatever the Serializer (as modelled) hands to the JSON streamer is written as valid JSON *)
Theorem ser_json_valid rich_data dedup_level v :
  sval_finite v = true ->
  exists toks, stream_top (ser_top (json_cfg rich_data dedup_level) v) = Ok toks /\ json_valid toks = true.
Proof.
  intros Hf. exists (render (ser_top (json_cfg rich_data dedup_level) v)). split.
  - apply stream_top_render. apply ser_floats_finite; [reflexivity | exact Hf].
  - apply render_valid. apply ser_keys_are_strings. reflexivity.
Qed.

(* the writer reports an error (and never faults) when a float is not finite: total on every value *)
Theorem ser_json_total rich_data dedup_level v :
  let e := ser_top (json_cfg rich_data dedup_level) v in
  stream_top e = if floats_finite e then Ok (render e) else Err.
Proof. intros e. apply stream_top_total. Qed.

(* ---------------------------------------------------------------------------------------------- *)
(* 4. the variant of seeded change C11-m5 (stringified key sent at the level of a value) is told apart:
      [{MinInt64 => "a"}, {MinInt64 => "b"}] under rich_data=false: the second key is a reference *)
Definition minint_text : str := [45;57;50;50;51;51;55;50;48;51;54;56;53;52;55;55;53;56;48;56]%N.
Definition m5_witness : sval :=
  XArr 1 [XHash 2 [(XSc (SInt (-9223372036854775808)), minint_text, XStr [97%N])];
          XHash 3 [(XSc (SInt (-9223372036854775808)), minint_text, XStr [98%N])]].

Theorem ser_level1_key_refuted :
  sval_finite m5_witness = true /\
  ser_top_level1 (json_cfg false 2) m5_witness =
    EArr [EHash [EAdd (SStr minint_text); EAdd (SStr [97%N])]; EHash [ERef 2; EAdd (SStr [98%N])]] /\
  exists toks, stream_top (ser_top_level1 (json_cfg false 2) m5_witness) = Ok toks /\ json_valid toks = false.
Proof.
  split; [reflexivity|]. split; [vm_compute; reflexivity|].
  eexists. split; vm_compute; reflexivity.
Qed.

(* ... while the code as it is sends both keys as strings *)
Lemma ser_m5_witness_ok :
  ser_top (json_cfg false 2) m5_witness =
    EArr [EHash [EAdd (SStr minint_text); EAdd (SStr [97%N])]; EHash [EAdd (SStr minint_text); EAdd (SStr [98%N])]].
Proof. vm_compute. reflexivity. Qed.
