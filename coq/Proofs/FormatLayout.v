(* Proofs/FormatLayout.v — property C20, container formats for EVERY layout: the recursion theorems of Proofs/FormatTotal.v
   (array_recursive, hash_recursive: flat layout) without the hypotheses `f_alt f = false` and `i_indenting ind = false`,
   and the alternate ('#', indented) layout as a closed formula. *)
From Coq Require Import ZArith NArith Bool Lia List.
From PcoreV Require Import Model.Base Model.Format Proofs.FormatProofs Proofs.FormatTotal.
Import ListNotations.
Open Scope Z_scope.

(* the context of the children of a container rendered under f inside `ind` *)
Definition child_ind (f : format) (ind : indentation) : indentation :=
  i_increase (i_set_indenting ind (f_alt f || i_indenting ind)) (f_alt f).

(* Array, any layout: the children rendered under child_ind (marked "subsequent"), containers under the parent's map,
   scalars under the container formats of f; the text is arr_layout of (is container, text) *)
Theorem array_recursive_any n o ind m es f ts :
  get_format o m (VArr es) = ROk f -> mem (f_char f) set_array = true ->
  Forall2 (fun e t => render n o (i_subsequent (child_ind f ind))
                             (if is_container e then m else cf_or_default f) false e = Some (OText t)) es ts ->
  render (S n) o ind m false (VArr es) = Some (OText (arr_layout f ind 91 (combine (map is_container es) ts))).
Proof.
  intros Hf Hc Hall. cbn [render]. rewrite Hf, Hc. cbn [negb].
  rewrite (map_m_ok _ es (combine (map is_container es) ts)); [reflexivity|].
  clear - Hall. induction Hall as [|e t es ts He _ IH]; [constructor|].
  cbn [combine map]. constructor; [|exact IH]. cbn [negb andb]. unfold child_ind in He. rewrite He. reflexivity.
Qed.

Theorem hash_recursive_any n o ind m es f ts :
  get_format o m (VHash es) = ROk f -> N.eqb (f_char f) 97 = false -> mem (f_char f) l_hsp = true ->
  Forall2 (fun kv t =>
             render n o (child_ind f ind) (if is_container (fst kv) then m else cf_or_default f) false (fst kv) = Some (OText (fst t)) /\
             render n o (child_ind f ind) (if is_container (snd kv) then m else cf_or_default f) false (snd kv) = Some (OText (snd t))) es ts ->
  render (S n) o ind m false (VHash es) = Some (OText (hash_layout f ind ts)).
Proof.
  intros Hf Hn Hc Hall. cbn [render]. rewrite Hf, Hn, Hc. cbn [negb].
  rewrite (map_m_ok _ es ts); [reflexivity|].
  clear - Hall. induction Hall as [|kv t es ts [Hk Hv] _ IH]; [constructor|].
  constructor; [|exact IH]. unfold child_ind in Hk, Hv. rewrite Hk. cbn [obind]. rewrite Hv. cbn [obind]. destruct t; reflexivity.
Qed.

(* a Hash under %a is the array of its entries, each entry the array [key, value] *)
Theorem hash_as_array n o ind m es f :
  get_format o m (VHash es) = ROk f -> N.eqb (f_char f) 97 = true ->
  render (S n) o ind m false (VHash es) = render n o ind m true (VArr (map entry_array es)).
Proof. intros Hf Hn. cbn [render]. rewrite Hf, Hn. reflexivity. Qed.

(* ------------------------------------------------------------------------------------------ *)
(* the alternate layout in closed form *)

Definition line_break (ind : indentation) : str := 10%N :: i_padding ind.

(* hash_layout under '#': optional line break + padding of the own level (when nested in an indenting context and not
   first), delimiter, then one line per entry at the children's level, entries separated by separator + newline, the
   closing delimiter on a line of its own at the own level *)
Theorem hash_layout_alternate f ind items :
  f_alt f = true ->
  let own := i_set_indenting ind true in
  hash_layout f ind items =
  (if i_breaks own then line_break own else []) ++
  opt_byte (fst (delim_pair (if N.eqb (f_delim f) 0 then 123%N else f_delim f))) ++ [10%N] ++
  join (sep_or (f_sep f) s_comma ++ [10%N])
       (map (fun kv => i_padding (i_increase own true) ++ fst kv ++ sep_or (f_sep2 f) s_arrow ++ snd kv) items) ++
  line_break own ++
  opt_byte (snd (delim_pair (if N.eqb (f_delim f) 0 then 123%N else f_delim f))).
Proof.
  intros Ha. cbv zeta. unfold hash_layout, line_break. rewrite Ha. cbn [orb].
  destruct (delim_pair _) as [dl dr]. cbn [fst snd]. reflexivity.
Qed.

(* arr_rest when every element is a scalar and no line is broken for size: separator + space *)
Lemma arr_rest_scalars alt pad sep rest s0 :
  Forall (fun it => fst it = false) rest ->
  s0 ++ arr_rest alt false pad sep rest false = join (sep ++ [32%N]) (s0 :: map snd rest).
Proof.
  revert s0. induction rest as [|[ah s] rest IH]; intros s0 Hr.
  - cbn. now rewrite app_nil_r.
  - inversion Hr as [|? ? Hah Hrest]; subst. cbn [fst] in Hah. subst ah.
    cbn [arr_rest map snd orb andb negb]. rewrite !andb_false_r. cbn [negb].
    change (join (sep ++ [32%N]) (s0 :: s :: map snd rest)) with (s0 ++ (sep ++ [32%N]) ++ join (sep ++ [32%N]) (s :: map snd rest)).
    rewrite <- (app_assoc sep [32%N]). do 3 f_equal. apply IH. exact Hrest.
Qed.

(* arr_layout, any alt / indentation, scalar elements, no width (so no break for size): the flat text after the
   optional line break of the own level *)
Theorem arr_layout_scalars f ind delim items :
  Forall (fun it => fst it = false) items -> f_width f < 0 ->
  let own := i_set_indenting ind (f_alt f || i_indenting ind) in
  arr_layout f ind delim items =
  (if i_breaks own then line_break own else []) ++
  opt_byte (fst (delim_pair (if N.eqb (f_delim f) 0 then delim else f_delim f))) ++
  join (sep_or (f_sep f) s_comma ++ [32%N]) (map snd items) ++
  opt_byte (snd (delim_pair (if N.eqb (f_delim f) 0 then delim else f_delim f))).
Proof.
  intros Hs Hw. cbv zeta. unfold arr_layout, line_break.
  assert (Hz : (0 <=? f_width f) = false) by (apply Z.leb_gt; exact Hw). rewrite Hz, andb_false_r. cbn [andb].
  destruct (delim_pair _) as [dl dr]. cbn [fst snd]. do 2 f_equal. f_equal.
  destruct items as [|[ah0 s0] rest]; [reflexivity|].
  inversion Hs as [|? ? Hah Hrest]; subst. cbn [fst] in Hah. subst ah0. cbn [map snd app].
  now apply arr_rest_scalars.
Qed.

(* arr_rest in the alternate layout: what stands between two elements *)
Lemma arr_rest_alternate_step szb pad sep ah s r prev :
  arr_rest true szb pad sep ((ah, s) :: r) prev =
  sep ++ (if ah then []                                  (* a container child breaks the line itself (its own `pre`) *)
          else if szb || prev then 10%N :: pad           (* a scalar after a container, or lines broken for size *)
          else [32%N]) ++ s ++ arr_rest true szb pad sep r ah.
Proof. cbn [arr_rest]. destruct ah, szb, prev; reflexivity. Qed.

(* nesting: a container child of an alternate ('#') ARRAY starts on a new line, padded to the children's
   level; a container child of a HASH (key or value) does not break (it follows its key on the same line) *)
Lemma nested_in_array_breaks f ind f' :
  f_alt f = true ->
  let own' := i_set_indenting (i_subsequent (child_ind f ind)) (f_alt f' || i_indenting (i_subsequent (child_ind f ind))) in
  i_breaks own' = true /\ i_level own' = S (i_level ind).
Proof.
  intros H. cbv zeta. unfold i_breaks, i_set_indenting, i_subsequent, child_ind, i_increase.
  cbn [i_indenting i_level i_first]. rewrite H. destruct (f_alt f'); split; reflexivity.
Qed.

Lemma nested_in_hash_no_break f ind f' :
  let own' := i_set_indenting (child_ind f ind) (f_alt f' || i_indenting (child_ind f ind)) in
  i_breaks own' = false /\ i_level own' = S (i_level ind).
Proof.
  cbv zeta. unfold i_breaks, i_set_indenting, child_ind, i_increase. cbn [i_indenting i_level i_first].
  split; [|reflexivity]. now rewrite andb_false_r.
Qed.
