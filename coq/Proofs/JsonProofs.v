(* JsonProofs.v — lemmas about the model of the JSON transport (Model/Json.v). *)
From Coq Require Import ZArith NArith Bool List Lia.
From PcoreV Require Import Model.Base Model.Json.
Import ListNotations.
Open Scope Z_scope.

(* ---------------------------------------------------------------------------------------------- *)
(* induction over event trees (the children lists are nested) *)

Lemma ev_ind' (P : ev -> Prop) :
  (forall s, P (EAdd s)) -> (forall n, P (ERef n)) ->
  (forall l, Forall P l -> P (EArr l)) -> (forall l, Forall P l -> P (EHash l)) ->
  forall e, P e.
Proof.
  intros Hs Hr Ha Hh.
  fix IH 1. intros [s|n|l|l].
  - apply Hs.
  - apply Hr.
  - apply Ha. induction l as [|x l IHl]; constructor; [apply IH | exact IHl].
  - apply Hh. induction l as [|x l IHl]; constructor; [apply IH | exact IHl].
Qed.

(* ---------------------------------------------------------------------------------------------- *)
(* 1. the five-state machine writes the canonical text *)

Definition prefix (st : jstate) : list jtoken :=
  match st with
  | FirstInArray | FirstInObject => []
  | AfterKey => [Colon]
  | AfterValue | AfterElement => [Comma]
  end.

Definition next (st : jstate) : jstate :=
  match st with
  | FirstInArray => AfterElement
  | FirstInObject => AfterKey
  | AfterKey => AfterValue
  | AfterValue => AfterKey
  | AfterElement => AfterElement
  end.

Fixpoint floats_finite (e : ev) : bool :=
  match e with
  | EAdd (SFloat b) => float_finite b
  | EAdd _ | ERef _ => true
  | EArr l | EHash l => forallb floats_finite l
  end.

Lemma delimit_ok st o st' :
  delimit st (Ok (o, st')) = Ok (prefix st ++ o, next st).
Proof. destruct st; reflexivity. Qed.

Lemma write_ok s :
  floats_finite (EAdd s) = true -> write s = Ok [scalar_token s].
Proof.
  destruct s as [ |b|z|b|x|b| ]; cbn [floats_finite write scalar_token]; intros H; try reflexivity.
  rewrite H. destruct (float_intlike b); reflexivity.
Qed.

Lemma stream_ev_unfold st e :
  stream_ev st e =
  delimit st
    match e with
    | EAdd s => let* o := write s in Ok (o, st)
    | ERef n => Ok (ref_tokens n, st)
    | EArr l => let* (o, st') := stream_list FirstInArray l in Ok (LBrack :: o ++ [RBrack], st')
    | EHash l => let* (o, st') := stream_list FirstInObject l in Ok (LBrace :: o ++ [RBrace], st')
    end.
Proof. destruct e; reflexivity. Qed.

Lemma stream_list_nil st : stream_list st [] = Ok ([], st).
Proof. reflexivity. Qed.

Lemma stream_list_cons st x l :
  stream_list st (x :: l) =
  let* (o1, st1) := stream_ev st x in let* (o2, st2) := stream_list st1 l in Ok (o1 ++ o2, st2).
Proof. reflexivity. Qed.

(* the state after the children of an array / a hash *)
Definition arr_state (l : list ev) : jstate := match l with [] => FirstInArray | _ => AfterElement end.
Fixpoint hash_state (st : jstate) (l : list ev) : jstate :=
  match l with [] => st | _ :: l' => hash_state (next st) l' end.

Definition P_stream (e : ev) : Prop :=
  floats_finite e = true -> forall st, stream_ev st e = Ok (prefix st ++ render e, next st).

Lemma stream_list_after_element l :
  Forall P_stream l -> forallb floats_finite l = true ->
  stream_list AfterElement l = Ok (flat_map (fun y => Comma :: render y) l, AfterElement).
Proof.
  induction 1 as [|x l Hx _ IH]; intros Hf; [reflexivity|].
  cbn [forallb] in Hf. apply andb_true_iff in Hf as [Hfx Hfl].
  rewrite stream_list_cons, (Hx Hfx). cbn [bind next prefix]. rewrite (IH Hfl). reflexivity.
Qed.

Lemma stream_list_array l :
  Forall P_stream l -> forallb floats_finite l = true ->
  stream_list FirstInArray l =
  Ok (match l with [] => [] | x :: l' => render x ++ flat_map (fun y => Comma :: render y) l' end, arr_state l).
Proof.
  intros HP Hf. destruct l as [|x l]; [reflexivity|].
  inversion HP as [|? ? Hx Hl]; subst.
  cbn [forallb] in Hf. apply andb_true_iff in Hf as [Hfx Hfl].
  rewrite stream_list_cons, (Hx Hfx). cbn [bind next prefix app].
  rewrite (stream_list_after_element l Hl Hfl). reflexivity.
Qed.

Lemma stream_list_hash_tail l : forall colon : bool,
  Forall P_stream l -> forallb floats_finite l = true ->
  stream_list (if colon then AfterKey else AfterValue) l =
  Ok (alt_gen render colon l, hash_state (if colon then AfterKey else AfterValue) l).
Proof.
  induction l as [|x l IH]; intros colon HP Hf; [reflexivity|].
  inversion HP as [|? ? Hx Hl]; subst.
  cbn [forallb] in Hf. apply andb_true_iff in Hf as [Hfx Hfl].
  rewrite stream_list_cons, (Hx Hfx). cbn [bind].
  specialize (IH (negb colon) Hl Hfl).
  destruct colon; cbn [negb next prefix] in *; rewrite IH; reflexivity.
Qed.

Lemma stream_list_hash l :
  Forall P_stream l -> forallb floats_finite l = true ->
  stream_list FirstInObject l =
  Ok (match l with [] => [] | k :: l' => render k ++ alt_gen render true l' end, hash_state FirstInObject l).
Proof.
  intros HP Hf. destruct l as [|x l]; [reflexivity|].
  inversion HP as [|? ? Hx Hl]; subst.
  cbn [forallb] in Hf. apply andb_true_iff in Hf as [Hfx Hfl].
  rewrite stream_list_cons, (Hx Hfx). cbn [bind next prefix app].
  rewrite (stream_list_hash_tail l true Hl Hfl). reflexivity.
Qed.

Lemma stream_ev_render : forall e, P_stream e.
Proof.
  induction e as [s|n|l IH|l IH] using ev_ind'; intros Hf st; rewrite stream_ev_unfold.
  - rewrite (write_ok s Hf). cbn [bind]. apply delimit_ok.
  - apply delimit_ok.
  - cbn [floats_finite] in Hf. rewrite (stream_list_array l IH Hf). cbn [bind]. apply delimit_ok.
  - cbn [floats_finite] in Hf. rewrite (stream_list_hash l IH Hf). cbn [bind]. apply delimit_ok.
Qed.

Theorem stream_top_render e :
  floats_finite e = true -> stream_top e = Ok (render e).
Proof.
  intros Hf. unfold stream_top. rewrite (stream_ev_render e Hf). reflexivity.
Qed.

(* ---------------------------------------------------------------------------------------------- *)
(* 2. the canonical text of a well-formed event tree is RFC 8259 JSON *)

Definition value_start (t : jtoken) : bool :=
  match t with
  | RBrack | RBrace | Comma | Colon | TBad => false
  | _ => true
  end.

Lemma render_starts e : exists t r, render e = t :: r /\ value_start t = true.
Proof.
  destruct e as [s|n|l|l]; cbn [render ref_tokens].
  - eexists. eexists. split; [reflexivity|]. destruct s; reflexivity.
  - eexists. eexists. split; reflexivity.
  - exists LBrack. eexists. split; [cbn [app]; reflexivity|reflexivity].
  - exists LBrace. eexists. split; [cbn [app]; reflexivity|reflexivity].
Qed.

(* well-formedness implies its structural part, whatever the guard *)
Fixpoint keys_wf (e : ev) : bool :=
  match e with
  | EArr l => forallb keys_wf l
  | EHash l => keys_ok l && forallb keys_wf l
  | _ => true
  end.

Lemma json_wf_gen_keys g e : json_wf_gen g e = true -> keys_wf e = true.
Proof.
  induction e as [s|n|l IH|l IH] using ev_ind'; cbn [json_wf_gen keys_wf]; intros H; try reflexivity.
  - rewrite forallb_forall in *. rewrite Forall_forall in IH. intros x Hx. apply IH; auto.
  - apply andb_true_iff in H as [H H2]. apply andb_true_iff in H as [H0 H1].
    rewrite H0. cbn [andb]. rewrite forallb_forall in *. rewrite Forall_forall in IH. intros x Hx. apply IH; auto.
Qed.

Lemma json_wf_gen_finite g e : json_wf_gen g e = true -> floats_finite e = true.
Proof.
  induction e as [s|n|l IH|l IH] using ev_ind'; cbn [json_wf_gen floats_finite]; intros H; try reflexivity.
  - destruct s; try reflexivity. exact H.
  - rewrite forallb_forall in *. rewrite Forall_forall in IH. intros x Hx. apply IH; auto.
  - apply andb_true_iff in H as [_ H2].
    rewrite forallb_forall in *. rewrite Forall_forall in IH. intros x Hx. apply IH; auto.
Qed.

Definition P_valid (e : ev) : Prop :=
  keys_wf e = true ->
  forall fuel rest, (length (render e) <= fuel)%nat -> parse_value fuel (render e ++ rest) = Some rest.

Definition elems_len (l : list ev) : nat := fold_right (fun y n => (1 + length (render y) + n)%nat) 0%nat l.

Lemma parse_value_S f toks :
  parse_value (S f) toks =
  match toks with
  | TNull :: r | TBool _ :: r | TStr _ :: r | TNum _ :: r => Some r
  | LBrack :: RBrack :: r => Some r
  | LBrack :: r => parse_elems f r
  | LBrace :: RBrace :: r => Some r
  | LBrace :: r => parse_members f r
  | _ => None
  end.
Proof. reflexivity. Qed.

Lemma parse_elems_S f toks :
  parse_elems (S f) toks =
  match parse_value f toks with
  | Some (Comma :: r) => parse_elems f r
  | Some (RBrack :: r) => Some r
  | _ => None
  end.
Proof. reflexivity. Qed.

Lemma parse_members_S f toks :
  parse_members (S f) toks =
  match toks with
  | TStr _ :: Colon :: r =>
    match parse_value f r with
    | Some (Comma :: r') => parse_members f r'
    | Some (RBrace :: r') => Some r'
    | _ => None
    end
  | _ => None
  end.
Proof. reflexivity. Qed.

Lemma parse_elems_ok l : forall x,
  Forall P_valid (x :: l) -> forallb keys_wf (x :: l) = true ->
  forall fuel rest, (elems_len (x :: l) <= fuel)%nat ->
  parse_elems fuel (render x ++ flat_map (fun y => Comma :: render y) l ++ RBrack :: rest) = Some rest.
Proof.
  induction l as [|y l IH]; intros x HP Hk fuel rest Hfuel;
    inversion HP as [|? ? Hx Hl]; subst;
    cbn [forallb] in Hk; apply andb_true_iff in Hk as [Hkx Hkl];
    cbn [elems_len fold_right] in Hfuel; (destruct fuel as [|f]; [lia|]);
    rewrite parse_elems_S.
  - cbn [flat_map app]. rewrite (Hx Hkx) by lia. reflexivity.
  - cbn [flat_map]. rewrite <- !app_assoc. cbn [app]. rewrite (Hx Hkx) by lia.
    apply IH; auto. cbn [elems_len fold_right]. lia.
Qed.

Lemma alt_gen_false_cons k v l :
  alt_gen render false (k :: v :: l) = Comma :: render k ++ Colon :: render v ++ alt_gen render false l.
Proof. reflexivity. Qed.

Lemma parse_members_ok : forall n l s v,
  (length l <= n)%nat -> keys_ok l = true ->
  Forall P_valid (v :: l) -> forallb keys_wf (v :: l) = true ->
  forall fuel rest, (2 + length (render v) + length (alt_gen render false l) <= fuel)%nat ->
  parse_members fuel (TStr s :: Colon :: render v ++ alt_gen render false l ++ RBrace :: rest) = Some rest.
Proof.
  induction n as [|n IH]; intros l s v Hn Hko HP Hk fuel rest Hfuel;
    inversion HP as [|? ? Hv Hl]; subst;
    cbn [forallb] in Hk; apply andb_true_iff in Hk as [Hkv Hkl];
    (destruct fuel as [|f]; [lia|]); rewrite parse_members_S.
  - destruct l; [|cbn in Hn; lia]. cbn [alt_gen app]. rewrite (Hv Hkv) by lia. reflexivity.
  - destruct l as [|k [|v' l]]; [| discriminate Hko |].
    + cbn [alt_gen app]. rewrite (Hv Hkv) by lia. reflexivity.
    + cbn [keys_ok] in Hko. apply andb_true_iff in Hko as [Hstr Hko].
      destruct k as [[ | | | |ks| | ]| | |]; try discriminate Hstr.
      rewrite alt_gen_false_cons. cbn [render scalar_token]. cbn [app].
      rewrite <- !app_assoc. cbn [app].
      rewrite (Hv Hkv); [|rewrite alt_gen_false_cons in Hfuel; cbn [length] in Hfuel; rewrite ?app_length in Hfuel; cbn [length] in Hfuel; lia].
      inversion Hl as [|? ? _ Hl']; subst.
      cbn [forallb] in Hkl. apply andb_true_iff in Hkl as [_ Hkl].
      apply IH.
      * cbn [length] in Hn. lia.
      * exact Hko.
      * exact Hl'.
      * exact Hkl.
      * rewrite alt_gen_false_cons in Hfuel. cbn [length render scalar_token app] in Hfuel.
        rewrite ?app_length in Hfuel. cbn [length] in Hfuel. rewrite ?app_length in Hfuel. lia.
Qed.

Lemma flat_map_comma_length l :
  length (flat_map (fun y => Comma :: render y) l) = elems_len l.
Proof.
  induction l as [|y l IH]; [reflexivity|].
  cbn [flat_map elems_len fold_right]. rewrite app_length. cbn [length]. unfold elems_len in IH. lia.
Qed.

Lemma parse_value_render : forall e, P_valid e.
Proof.
  induction e as [s|n|l IH|l IH] using ev_ind'; intros Hk fuel rest Hfuel.
  - destruct fuel as [|f]; [cbn in Hfuel; lia|]. destruct s; reflexivity.
  - cbn [render ref_tokens length] in Hfuel.
    do 3 (destruct fuel as [|fuel]; [lia|]). reflexivity.
  - cbn [keys_wf] in Hk. destruct l as [|x l].
    + destruct fuel as [|f]; [cbn in Hfuel; lia|]. reflexivity.
    + cbn [render] in *. destruct fuel as [|f]; [cbn in Hfuel; lia|].
      rewrite parse_value_S. cbn [app].
      destruct (render_starts x) as (t & r & Hr & Ht).
      assert (Hgo : forall tl, match (render x ++ tl) with
                               | RBrack :: r0 => Some r0
                               | _ => parse_elems f (render x ++ tl) end = parse_elems f (render x ++ tl)).
      { intros tl. rewrite Hr. cbn [app]. destruct t; try reflexivity; discriminate Ht. }
      rewrite <- !app_assoc.
      change (match render x ++ flat_map (fun y => Comma :: render y) l ++ [RBrack] ++ rest with
              | RBrack :: r0 => Some r0
              | _ => parse_elems f (render x ++ flat_map (fun y => Comma :: render y) l ++ [RBrack] ++ rest)
              end = Some rest).
      rewrite Hgo. cbn [app].
      apply parse_elems_ok; auto.
      cbn [length] in Hfuel. rewrite !app_length in Hfuel. cbn [length] in Hfuel.
      rewrite flat_map_comma_length in Hfuel. cbn [elems_len fold_right]. unfold elems_len in Hfuel. lia.
  - cbn [keys_wf] in Hk. apply andb_true_iff in Hk as [Hko Hk].
    destruct l as [|k [|v l]]; [| discriminate Hko |].
    + destruct fuel as [|f]; [cbn in Hfuel; lia|]. reflexivity.
    + cbn [keys_ok] in Hko. apply andb_true_iff in Hko as [Hstr Hko].
      destruct k as [[ | | | |ks| | ]| | |]; try discriminate Hstr.
      cbn [render scalar_token app alt_gen negb] in *.
      destruct fuel as [|f]; [cbn in Hfuel; lia|].
      rewrite parse_value_S. rewrite <- !app_assoc. cbn [app].
      inversion IH as [|? ? _ IH']; subst.
      cbn [forallb keys_wf] in Hk.
      apply (parse_members_ok (length l) l); auto.
      cbn [length] in Hfuel. rewrite !app_length in Hfuel. cbn [length] in Hfuel. lia.
Qed.

Theorem render_valid e : keys_wf e = true -> json_valid (render e) = true.
Proof.
  intros Hk. unfold json_valid.
  pose proof (parse_value_render e Hk (S (length (render e))) [] ltac:(lia)) as H.
  rewrite app_nil_r in H. rewrite H. reflexivity.
Qed.

(* ---------------------------------------------------------------------------------------------- *)
(* 3. JsonToData on the canonical text delivers the same events *)

Definition is_sep (t : jtoken) : bool := match t with Comma | Colon => true | _ => false end.
Definition is_closer (t : jtoken) : bool := match t with RBrack | RBrace => true | _ => false end.

Lemma jv_sep fuel s t : is_sep s = true -> jv fuel (s :: t) = jv fuel t.
Proof. destruct fuel; destruct s; intros H; try discriminate H; reflexivity. Qed.

(* a sequence of rendered values with separators anywhere between them *)
Inductive Sepd : list ev -> list jtoken -> Prop :=
| Sepd_nil : Sepd [] []
| Sepd_cons x l t : Sepd l t -> Sepd (x :: l) (render x ++ t)
| Sepd_sep s l t : is_sep s = true -> Sepd l t -> Sepd l (s :: t).

Lemma Sepd_commas l : Sepd l (flat_map (fun y => Comma :: render y) l).
Proof.
  induction l as [|y l IH]; [constructor|].
  cbn [flat_map app]. apply Sepd_sep; [reflexivity|]. apply Sepd_cons. exact IH.
Qed.

Lemma Sepd_alt l : forall c, Sepd l (alt_gen render c l).
Proof.
  induction l as [|y l IH]; intros c; [constructor|].
  cbn [alt_gen]. apply Sepd_sep; [destruct c; reflexivity|]. apply Sepd_cons. apply IH.
Qed.

Definition P_read (e : ev) : Prop :=
  json_wf e = true ->
  forall f k, (length (render e ++ k) <= f)%nat ->
  jv (S f) (render e ++ k) = let* (tl, r) := jv f k in Ok (json_image e :: tl, r).

Lemma render_length_pos e : (1 <= length (render e))%nat.
Proof. destruct (render_starts e) as (t & r & Hr & _). rewrite Hr. cbn [length]. lia. Qed.

Lemma jv_seq l t :
  Sepd l t -> Forall P_read l -> forallb json_wf l = true ->
  forall f closer rest, is_closer closer = true -> (length (t ++ closer :: rest) <= f)%nat ->
  jv (S f) (t ++ closer :: rest) = Ok (map json_image l, rest).
Proof.
  induction 1 as [|x l t _ IH|s l t Hs _ IH]; intros HP Hwf f closer rest Hc Hlen.
  - destruct closer; try discriminate Hc; reflexivity.
  - inversion HP as [|? ? Hx Hl]; subst.
    cbn [forallb] in Hwf. apply andb_true_iff in Hwf as [Hwx Hwl].
    rewrite <- app_assoc. rewrite <- app_assoc in Hlen.
    rewrite (Hx Hwx) by exact Hlen.
    pose proof (render_length_pos x) as Hpos. rewrite app_length in Hlen.
    destruct f as [|f']; [lia|].
    rewrite (IH Hl Hwl f' closer rest Hc) by lia. reflexivity.
  - cbn [app]. rewrite jv_sep by exact Hs. apply IH; auto. cbn [app length] in Hlen. lia.
Qed.

Lemma add_value_scalar s :
  scalar_ok s = true -> add_value (scalar_token s) = [EAdd (scalar_image s)].
Proof.
  destruct s as [ |b|z|b|x|b| ]; cbn [scalar_ok scalar_token add_value scalar_image num_int64 num_float64];
    intros H; try reflexivity.
  rewrite H. reflexivity.
Qed.

Lemma jv_scalar f s k :
  jv (S f) (scalar_token s :: k) = let* (tl, r) := jv f k in Ok (add_value (scalar_token s) ++ tl, r).
Proof. destruct s; reflexivity. Qed.

Lemma str_eqb_pref_refl : str_eqb pref_key pref_key = true.
Proof. reflexivity. Qed.

Lemma jv_ref f n k :
  in_int64 n = true ->
  jv (S f) (ref_tokens n ++ k) = let* (tl, r) := jv f k in Ok (ERef n :: tl, r).
Proof.
  intros Hn. cbn [ref_tokens app jv next_token more is_pref andb].
  rewrite str_eqb_pref_refl. cbn [andb num_int64]. rewrite Hn. reflexivity.
Qed.

Lemma jv_array f body k :
  jv (S f) (LBrack :: body ++ RBrack :: k) =
  let* (inner, rest1) := jv f (body ++ RBrack :: k) in
  let* (tl, r) := jv f rest1 in Ok (EArr inner :: tl, r).
Proof. reflexivity. Qed.

Lemma jv_hash_empty f k :
  jv (S (S f)) (LBrace :: RBrace :: k) = let* (tl, r) := jv (S f) k in Ok (EHash [] :: tl, r).
Proof. reflexivity. Qed.

Lemma jv_hash_key f cs body k :
  str_eqb cs pref_key = false ->
  jv (S f) (LBrace :: TStr cs :: body ++ RBrace :: k) =
  let* (inner, rest2) := jv f (body ++ RBrace :: k) in
  let* (tl, r) := jv f rest2 in Ok (EHash (EAdd (SStr cs) :: inner) :: tl, r).
Proof.
  intros Hne. cbn [jv next_token more is_pref]. rewrite Hne. reflexivity.
Qed.

Lemma jv_render : forall e, P_read e.
Proof.
  induction e as [s|n|l IH|l IH] using ev_ind'; intros Hwf f k Hlen.
  - cbn [render app]. rewrite jv_scalar. unfold json_wf in Hwf. cbn [json_wf_gen] in Hwf.
    rewrite (add_value_scalar s Hwf). reflexivity.
  - unfold json_wf in Hwf. cbn [json_wf_gen] in Hwf. cbn [render]. apply jv_ref. exact Hwf.
  - unfold json_wf in Hwf. cbn [json_wf_gen] in Hwf. fold json_wf in Hwf.
    cbn [render json_image app] in *. rewrite <- app_assoc. cbn [app].
    rewrite jv_array.
    rewrite <- app_assoc in Hlen. cbn [app length] in Hlen.
    destruct f as [|f']; [lia|].
    assert (HS : Sepd l (match l with [] => [] | x :: l' => render x ++ flat_map (fun y => Comma :: render y) l' end)).
    { destruct l as [|x l']; [constructor|]. apply Sepd_cons. apply Sepd_commas. }
    rewrite (jv_seq l _ HS IH Hwf f' RBrack k eq_refl) by (cbn [length] in Hlen; lia).
    reflexivity.
  - unfold json_wf in Hwf. cbn [json_wf_gen] in Hwf. fold json_wf in Hwf.
    apply andb_true_iff in Hwf as [Hwf Hall]. apply andb_true_iff in Hwf as [Hko Hg].
    destruct l as [|key l'].
    + cbn [render app json_image map length] in *. destruct f as [|f']; [lia|]. apply jv_hash_empty.
    + destruct l' as [|v l']; [discriminate Hko|].
      cbn [keys_ok] in Hko. apply andb_true_iff in Hko as [Hstr Hko].
      destruct key as [[ | | | |ks| | ]| | |]; try discriminate Hstr.
      cbn [first_key_is_pref] in Hg. apply negb_true_iff in Hg.
      cbn [render scalar_token json_image map scalar_image] in *.
      cbn [app] in *. rewrite <- app_assoc. rewrite <- app_assoc in Hlen. cbn [app length] in Hlen.
      rewrite (jv_hash_key f _ _ k Hg).
      destruct f as [|f']; [lia|].
      inversion IH as [|? ? _ IH']; subst.
      cbn [forallb] in Hall. apply andb_true_iff in Hall as [_ Hall].
      rewrite (jv_seq (v :: l') _ (Sepd_alt (v :: l') true) IH' Hall f' RBrace k eq_refl)
        by (cbn [length] in Hlen; lia).
      reflexivity.
Qed.

Theorem read_render e : json_wf e = true -> read (render e) = Ok [json_image e].
Proof.
  intros Hwf. unfold read.
  pose proof (jv_render e Hwf (length (render e)) [] ltac:(rewrite app_nil_r; lia)) as H.
  rewrite app_nil_r in H. rewrite H.
  pose proof (render_length_pos e) as Hpos.
  destruct (length (render e)) as [|f']; [lia|]. reflexivity.
Qed.

(* ---------------------------------------------------------------------------------------------- *)
(* the property theorems *)

Theorem json_always_valid e :
  json_wf_all e = true -> exists toks, stream_top e = Ok toks /\ json_valid toks = true.
Proof.
  intros Hwf. exists (render e). split.
  - apply stream_top_render. eapply json_wf_gen_finite. exact Hwf.
  - apply render_valid. eapply json_wf_gen_keys. exact Hwf.
Qed.

Theorem json_events_roundtrip e :
  json_wf e = true -> exists toks, stream_top e = Ok toks /\ read toks = Ok [json_image e].
Proof.
  intros Hwf. exists (render e). split.
  - apply stream_top_render. eapply json_wf_gen_finite. exact Hwf.
  - apply read_render. exact Hwf.
Qed.

(* ---------------------------------------------------------------------------------------------- *)
(* 4. the writer is total: it reports an error exactly when a float is NaN or ±Inf, and never faults *)

Lemma delimit_err st : delimit st (@Err (list jtoken * jstate)) = Err.
Proof. destruct st; reflexivity. Qed.

Definition P_total (e : ev) : Prop :=
  floats_finite e = false -> forall st, stream_ev st e = Err.

Lemma stream_list_err l :
  Forall P_total l -> forallb floats_finite l = false -> forall st, stream_list st l = Err.
Proof.
  induction 1 as [|x l Hx _ IH]; intros Hf st; [discriminate Hf|].
  cbn [forallb] in Hf. rewrite stream_list_cons.
  destruct (floats_finite x) eqn:Hfx.
  - rewrite (stream_ev_render x Hfx). cbn [bind]. cbn [andb] in Hf. rewrite (IH Hf). reflexivity.
  - rewrite (Hx Hfx). reflexivity.
Qed.

Lemma stream_ev_err : forall e, P_total e.
Proof.
  induction e as [s|n|l IH|l IH] using ev_ind'; intros Hf st; rewrite stream_ev_unfold.
  - destruct s as [ |b|z|b|x|b| ]; try discriminate Hf. cbn [floats_finite] in Hf.
    cbn [write]. rewrite Hf. cbn [bind]. apply delimit_err.
  - discriminate Hf.
  - cbn [floats_finite] in Hf. rewrite (stream_list_err l IH Hf). cbn [bind]. apply delimit_err.
  - cbn [floats_finite] in Hf. rewrite (stream_list_err l IH Hf). cbn [bind]. apply delimit_err.
Qed.

Theorem stream_top_total e :
  stream_top e = if floats_finite e then Ok (render e) else Err.
Proof.
  destruct (floats_finite e) eqn:Hf.
  - apply stream_top_render. exact Hf.
  - unfold stream_top. rewrite (stream_ev_err e Hf). reflexivity.
Qed.

(* ---------------------------------------------------------------------------------------------- *)
(* 5. UTF-8: what a JSON string keeps *)

Lemma utf8_valid_coerce_n : forall n s, (length s <= n)%nat -> utf8_valid s = true -> utf8_coerce s = s.
Proof.
  induction n as [|n IH]; intros s Hn Hv.
  - destruct s; [reflexivity|cbn [length] in Hn; lia].
  - destruct s as [|b0 r0]; [reflexivity|].
    cbn [utf8_valid utf8_coerce] in *. cbn [length] in Hn.
    destruct (N.ltb b0 128).
    { f_equal. apply IH; [lia|exact Hv]. }
    destruct r0 as [|b1 r1]; [discriminate Hv|]. cbn [length] in Hn.
    destruct (two_ok b0 b1).
    { do 2 f_equal. apply IH; [lia|exact Hv]. }
    destruct r1 as [|b2 r2]; [discriminate Hv|]. cbn [length] in Hn.
    destruct (three_ok b0 b1 b2).
    { do 3 f_equal. apply IH; [lia|exact Hv]. }
    destruct r2 as [|b3 r3]; [discriminate Hv|]. cbn [length] in Hn.
    destruct (four_ok b0 b1 b2 b3); [|discriminate Hv].
    do 4 f_equal. apply IH; [lia|exact Hv].
Qed.

(* every Unicode character is kept: a valid UTF-8 string is written and read back unchanged *)
Theorem utf8_valid_coerce s : utf8_valid s = true -> utf8_coerce s = s.
Proof. apply (utf8_valid_coerce_n (length s)). lia. Qed.

Lemma utf8_valid_replacement x : utf8_valid (replacement ++ x) = utf8_valid x.
Proof. reflexivity. Qed.

Lemma utf8_coerce_valid_n : forall n s, (length s <= n)%nat -> utf8_valid (utf8_coerce s) = true.
Proof.
  induction n as [|n IH]; intros s Hn.
  - destruct s; [reflexivity|cbn [length] in Hn; lia].
  - destruct s as [|b0 r0]; [reflexivity|].
    cbn [utf8_coerce]. cbn [length] in Hn.
    assert (Hbad : utf8_valid (replacement ++ utf8_coerce r0) = true).
    { rewrite utf8_valid_replacement. apply IH. lia. }
    destruct (N.ltb b0 128) eqn:H1.
    { cbn [utf8_valid]. rewrite H1. apply IH. lia. }
    destruct r0 as [|b1 r1]; [exact Hbad|]. cbn [length] in Hn.
    destruct (two_ok b0 b1) eqn:H2.
    { cbn [utf8_valid]. rewrite H1, H2. apply IH. lia. }
    destruct r1 as [|b2 r2]; [exact Hbad|]. cbn [length] in Hn.
    destruct (three_ok b0 b1 b2) eqn:H3.
    { cbn [utf8_valid]. rewrite H1, H2, H3. apply IH. lia. }
    destruct r2 as [|b3 r3]; [exact Hbad|]. cbn [length] in Hn.
    destruct (four_ok b0 b1 b2 b3) eqn:H4; [|exact Hbad].
    cbn [utf8_valid]. rewrite H1, H2, H3, H4. apply IH. lia.
Qed.

(* what is read back is always valid UTF-8, and coercion is idempotent (a second trip changes nothing) *)
Theorem utf8_coerce_valid s : utf8_valid (utf8_coerce s) = true.
Proof. apply (utf8_coerce_valid_n (length s)). lia. Qed.

Theorem utf8_coerce_idem s : utf8_coerce (utf8_coerce s) = utf8_coerce s.
Proof. apply utf8_valid_coerce, utf8_coerce_valid. Qed.

(* exactly representable event trees are their own image *)
Lemma scalar_image_exact s : scalar_exact s = true -> scalar_image s = s.
Proof.
  destruct s as [ |b|z|b|x|b| ]; cbn [scalar_exact scalar_image]; intros H; try reflexivity; try discriminate H.
  rewrite (utf8_valid_coerce x H). reflexivity.
Qed.

Lemma map_id_Forall {A} (f : A -> A) (l : list A) : Forall (fun x => f x = x) l -> map f l = l.
Proof. induction 1 as [|x l Hx _ IH]; [reflexivity|]. cbn [map]. rewrite Hx, IH. reflexivity. Qed.

Theorem json_image_exact : forall e, data_exact e = true -> json_image e = e.
Proof.
  induction e as [s|n|l IH|l IH] using ev_ind'; cbn [data_exact json_image]; intros H.
  - rewrite (scalar_image_exact s H). reflexivity.
  - reflexivity.
  - f_equal. apply map_id_Forall. rewrite Forall_forall in *. rewrite forallb_forall in H. intros x Hx. apply IH; auto.
  - f_equal. apply map_id_Forall. rewrite Forall_forall in *. rewrite forallb_forall in H. intros x Hx. apply IH; auto.
Qed.

Theorem json_events_roundtrip_exact e :
  json_wf e = true -> data_exact e = true ->
  exists toks, stream_top e = Ok toks /\ json_valid toks = true /\ read toks = Ok [e].
Proof.
  intros Hwf Hex. exists (render e). split; [|split].
  - apply stream_top_render. eapply json_wf_gen_finite. exact Hwf.
  - apply render_valid. eapply json_wf_gen_keys. exact Hwf.
  - rewrite (read_render e Hwf), (json_image_exact e Hex). reflexivity.
Qed.

(* the image is itself exactly representable, so a second trip is exact *)
Lemma scalar_image_is_exact s : scalar_exact (scalar_image s) = true.
Proof. destruct s; cbn [scalar_image scalar_exact]; try reflexivity. apply utf8_coerce_valid. Qed.

Theorem json_image_is_exact : forall e, data_exact (json_image e) = true.
Proof.
  induction e as [s|n|l IH|l IH] using ev_ind'; cbn [data_exact json_image].
  - apply scalar_image_is_exact.
  - reflexivity.
  - rewrite forallb_forall. intros y Hy. apply in_map_iff in Hy as (x & <- & Hx).
    rewrite Forall_forall in IH. apply IH; auto.
  - rewrite forallb_forall. intros y Hy. apply in_map_iff in Hy as (x & <- & Hx).
    rewrite Forall_forall in IH. apply IH; auto.
Qed.

(* ---------------------------------------------------------------------------------------------- *)
(* 6. witnesses: the open finding (reserved first key) and the two repaired defects of the pinned tree *)

Definition pref_hash (x : ev) (more : list ev) : ev := EHash (EAdd (SStr pref_key) :: x :: more).

(* {"__pref":1} is a well-formed user hash; it is written as valid JSON and read back as AddRef(1) *)
Theorem pref_read_as_ref :
  json_wf_all (pref_hash (EAdd (SInt 1)) []) = true /\
  stream_top (pref_hash (EAdd (SInt 1)) []) = Ok (render (pref_hash (EAdd (SInt 1)) [])) /\
  json_valid (render (pref_hash (EAdd (SInt 1)) [])) = true /\
  read (render (pref_hash (EAdd (SInt 1)) [])) = Ok [ERef 1].
Proof. repeat split; vm_compute; reflexivity. Qed.

(* {"__pref":"x"} and {"__pref":1,"b":2} make the reader fail *)
Theorem pref_read_fails :
  let e1 := pref_hash (EAdd (SStr [120%N])) [] in
  let e2 := pref_hash (EAdd (SInt 1)) [EAdd (SStr [98%N]); EAdd (SInt 2)] in
  json_wf_all e1 = true /\ stream_top e1 = Ok (render e1) /\ read (render e1) = Err /\
  json_wf_all e2 = true /\ stream_top e2 = Ok (render e2) /\ read (render e2) = Err.
Proof. repeat split; vm_compute; reflexivity. Qed.

Theorem pref_first_key_refuted :
  exists e, json_wf_all e = true /\
            exists toks, stream_top e = Ok toks /\ json_valid toks = true /\ read toks <> Ok [json_image e].
Proof.
  exists (pref_hash (EAdd (SInt 1)) []). split; [reflexivity|].
  exists (render (pref_hash (EAdd (SInt 1)) [])).
  destruct pref_read_as_ref as (_ & Hs & Hv & Hr).
  split; [exact Hs|]. split; [exact Hv|]. rewrite Hr. vm_compute. discriminate.
Qed.

(* pinned tree, before 1ed663c: [1,[],3] was written `[1,[]3]` *)
Theorem json_invalid_refuted_pinned fit :
  exists e, json_wf_all e = true /\
            exists toks, stream_top_pinned fit e = Ok toks /\ json_valid toks = false.
Proof.
  exists (EArr [EAdd (SInt 1); EArr []; EAdd (SInt 3)]). split; [reflexivity|].
  eexists. split; [vm_compute; reflexivity | vm_compute; reflexivity].
Qed.

(* ... and [1,{"a":2},3,4] was written `[1,{"a":2},3:4]` *)
Theorem json_invalid_refuted_pinned_hash fit :
  stream_top_pinned fit (EArr [EAdd (SInt 1); EHash [EAdd (SStr [97%N]); EAdd (SInt 2)]; EAdd (SInt 3); EAdd (SInt 4)])
  = Ok [LBrack; TNum (NInt 1); Comma; LBrace; TStr [97%N]; Colon; TNum (NInt 2); RBrace; Comma; TNum (NInt 3);
        Colon; TNum (NInt 4); RBrack].
Proof. vm_compute. reflexivity. Qed.

(* pinned tree, before 1f092e9: the float 1.0 (bits 0x3FF0000000000000) was written `1` and read back as the
   Integer 1 *)
Theorem float_kind_refuted_pinned :
  exists e, json_wf_all e = true /\
            exists toks, stream_top_pinned (fun _ => 1) e = Ok toks /\ read toks = Ok [EAdd (SInt 1)] /\
                         json_image e <> EAdd (SInt 1).
Proof.
  exists (EAdd (SFloat 4607182418800017408)). split; [reflexivity|].
  eexists. split; [vm_compute; reflexivity|]. split; [vm_compute; reflexivity | vm_compute; discriminate].
Qed.

(* hence the round-trip statement without the guard is false of the code *)
Theorem json_roundtrip_statement_refuted :
  ~ (forall e, json_wf_all e = true -> exists toks, stream_top e = Ok toks /\ read toks = Ok [json_image e]).
Proof.
  intros H. destruct pref_read_as_ref as (Hwf & Hs & _ & Hr).
  destruct (H _ Hwf) as (toks & Hs' & Hr').
  assert (Ht : toks = render (pref_hash (EAdd (SInt 1)) [])) by congruence.
  subst toks. rewrite Hr in Hr'. vm_compute in Hr'. discriminate Hr'.
Qed.

(* ---------------------------------------------------------------------------------------------- *)
(* 7. the reader's fuel is adequate: on EVERY token list (valid JSON or not) the model of JsonToData
      terminates within the fuel `read` gives it *)

Lemma next_token_length toks : forall t r, next_token toks = Some (t, r) -> (length r < length toks)%nat.
Proof.
  induction toks as [|x toks IH]; intros t r H; [discriminate H|].
  cbn [next_token] in H. cbn [length].
  destruct x; try (injection H as <- <-; lia); apply IH in H; lia.
Qed.

Definition jv_good (toks : list jtoken) (r : res (list ev * list jtoken)) : Prop :=
  match r with
  | Ok (_, rest) => (length rest <= length toks)%nat
  | OutOfFuel => False
  | _ => True
  end.

Lemma good_bind toks toks' (r : res (list ev * list jtoken))
      (k : list ev * list jtoken -> res (list ev * list jtoken)) :
  jv_good toks' r -> (length toks' <= length toks)%nat ->
  (forall evs rest, (length rest <= length toks')%nat -> jv_good toks (k (evs, rest))) ->
  jv_good toks (bind r k).
Proof.
  destruct r as [[evs rest]| | |]; cbn [bind jv_good]; intros Hr Hle Hk; auto.
Qed.

Lemma jv_fuel : forall fuel toks, (length toks < fuel)%nat -> jv_good toks (jv fuel toks).
Proof.
  induction fuel as [|f IH]; intros toks Hlen; [lia|].
  cbn [jv].
  destruct (next_token toks) as [[t rest]|] eqn:Hnt; [|cbn [jv_good length]; lia].
  apply next_token_length in Hnt.
  assert (IHle : forall l, (length l <= length rest)%nat -> jv_good l (jv f l)) by (intros l Hl; apply IH; lia).
  assert (Hseq : forall l (g : list ev -> list ev -> list ev), (length l <= length rest)%nat ->
            jv_good toks (let* (inner, rest1) := jv f l in let* (tl, r) := jv f rest1 in Ok (g inner tl, r))).
  { intros l g Hl. eapply good_bind; [apply IHle; exact Hl | lia |].
    intros inner rest1 H1. eapply good_bind; [apply IHle; lia | lia |].
    intros tl r H2. cbn [jv_good]. lia. }
  assert (Hone : forall l (g : list ev -> list ev), (length l <= length rest)%nat ->
            jv_good toks (let* (tl, r) := jv f l in Ok (g tl, r))).
  { intros l g Hl. eapply good_bind; [apply IHle; exact Hl | lia |].
    intros tl r H2. cbn [jv_good]. lia. }
  destruct t; try (apply (Hone rest (fun tl => _ ++ tl)); lia); try exact I; try (cbn [jv_good]; lia).
  - (* [ *) apply (Hseq rest (fun inner tl => EArr inner :: tl)). lia.
  - (* { *)
    destruct (more rest).
    + destruct (next_token rest) as [[k rest1]|] eqn:Hk; [|exact I].
      apply next_token_length in Hk.
      destruct (is_pref k && more rest1).
      * destruct (next_token rest1) as [[t2 rest2]|] eqn:H2; [|exact I].
        apply next_token_length in H2.
        destruct t2; try exact I.
        destruct (num_int64 n); [|exact I].
        destruct (next_token rest2) as [[t3 rest3]|] eqn:H3; [|exact I].
        apply next_token_length in H3.
        destruct t3; try exact I.
        apply (Hone rest3 (fun tl => ERef z :: tl)). lia.
      * apply (Hseq rest1 (fun inner tl => EHash (add_value k ++ inner) :: tl)). lia.
    + apply (Hseq rest (fun inner tl => EHash inner :: tl)). lia.
Qed.

Theorem read_never_out_of_fuel toks : read toks <> OutOfFuel.
Proof.
  unfold read. pose proof (jv_fuel (S (length toks)) toks ltac:(lia)) as H.
  destruct (jv (S (length toks)) toks) as [[evs r]| | |]; try discriminate. contradiction.
Qed.
