(* Lemmas about Model/ObjNest.v (C17, attributes whose type is or contains another Object type). *)
From Coq Require Import ZArith NArith Bool List.
From PcoreV Require Import Model.Base Model.ObjNest.
Import ListNotations.

(* coerceTo returns an instance as it is (coerce.go:113) *)
Lemma coerce_instance_id t v : ninst t v = true -> coerce t v = Some v.
Proof. unfold coerce. intros H. rewrite H. reflexivity. Qed.

Lemma nhget_app h1 h2 k :
  nhget (h1 ++ h2) k = match nhget h1 k with Some v => Some v | None => nhget h2 k end.
Proof.
  induction h1 as [|[k' v] r IH]; cbn [app nhget]; [reflexivity|].
  destruct (str_eqb k' k); [reflexivity|exact IH].
Qed.

Lemma nhget_map_merge h o k :
  nhget (map (fun kv => match nhget o (fst kv) with Some v => (fst kv, v) | None => kv end) h) k
  = match nhget h k with
    | Some v0 => match nhget o k with Some v => Some v | None => Some v0 end
    | None => None
    end.
Proof.
  induction h as [|[k' v0] r IH]; cbn [map nhget fst]; [reflexivity|].
  destruct (nhget o k') as [n|] eqn:Eo; cbn [nhget]; destruct (str_eqb_spec k' k) as [Hk|Hn].
  - subst k'. rewrite Eo. reflexivity.
  - exact IH.
  - subst k'. rewrite Eo. reflexivity.
  - exact IH.
Qed.

Lemma nhget_filter_notin h o k :
  nhget h k = None ->
  nhget (filter (fun kv => match nhget h (fst kv) with Some _ => false | None => true end) o) k = nhget o k.
Proof.
  intros Hk. induction o as [|[k' v] r IH]; cbn [filter nhget fst]; [reflexivity|].
  destruct (nhget h k') as [x|] eqn:E.
  - destruct (str_eqb_spec k' k) as [He|Hn]; [subst k'; congruence|exact IH].
  - cbn [nhget]. destruct (str_eqb k' k); [reflexivity|exact IH].
Qed.

(* Hash.Merge: the argument wins.  In the named creator the receiver is the hash the caller gave and the argument holds the
   coerced entries: under every name the merged hash holds the coerced value when there is one *)
Lemma nhget_merge h o k :
  nhget (nhmerge h o) k = match nhget o k with Some v => Some v | None => nhget h k end.
Proof.
  unfold nhmerge. rewrite nhget_app, nhget_map_merge.
  destruct (nhget h k) as [v0|] eqn:Eh.
  - destruct (nhget o k); reflexivity.
  - rewrite (nhget_filter_notin h o k Eh). destruct (nhget o k); reflexivity.
Qed.

Lemma forallb_impl {A} (f g : A -> bool) l :
  (forall x, f x = true -> g x = true) -> forallb f l = true -> forallb g l = true.
Proof.
  intros H. induction l as [|x r IH]; cbn [forallb]; [reflexivity|].
  intros E. apply andb_true_iff in E. destruct E as [E1 E2]. rewrite (H _ E1), (IH E2). reflexivity.
Qed.

(* an instance of T is an instance of typeAndInit(T) = the type the named creator checks: Variant[T, ..] keeps T *)
Lemma ginst_false_true t :
  (forall v, ginst false t v = true -> ginst true t v = true)
  /\ (forall h, ginst_members false t h = true -> ginst_members true t h = true)
  /\ (forall vals, ginst_vals false t vals = true -> ginst_vals true t vals = true).
Proof.
  induction t as [| |t' IH|t' IH|t' IH| |k d vt IHv rest IHr|ms IH|n attrs IH].
  - repeat split; intros x H; exact H.
  - repeat split; intros x H; exact H.
  - destruct IH as [IH1 _]. repeat split; try (intros x H; exact H).
    intros v H. cbn [ginst] in *. destruct v; try exact H; apply IH1; exact H.
  - destruct IH as [IH1 _]. repeat split; try (intros x H; exact H).
    intros v H. cbn [ginst] in *. destruct v; try exact H. revert H. apply forallb_impl. exact IH1.
  - destruct IH as [IH1 _]. repeat split; try (intros x H; exact H).
    intros v H. cbn [ginst] in *. destruct v; try exact H. revert H. apply forallb_impl. intros x. apply IH1.
  - repeat split; intros x H; exact H.
  - destruct IHv as [IHv1 _]. destruct IHr as [_ [IHr2 IHr3]]. repeat split.
    + intros v H. exact H.
    + intros h H. cbn [ginst_members] in *. apply andb_true_iff in H. destruct H as [H1 H2].
      rewrite (IHr2 _ H2), andb_true_r. destruct (nhget h k); [apply IHv1; exact H1|exact H1].
    + intros vals H. cbn [ginst_vals] in *. destruct vals as [|v r]; [exact H|].
      apply andb_true_iff in H. destruct H as [H1 H2]. rewrite H1, (IHr3 _ H2). reflexivity.
  - destruct IH as [_ [IH2 _]]. repeat split; try (intros x H; exact H).
    intros v H. cbn [ginst] in *. destruct v; try exact H.
    apply andb_true_iff in H. destruct H as [H1 H2]. rewrite H1, (IH2 _ H2). reflexivity.
  - destruct IH as [_ [_ IH3]]. repeat split; try (intros x H; exact H).
    intros v H. cbn [ginst] in *. destruct v; try exact H; try discriminate.
    apply andb_true_iff in H. destruct H as [H1 H2]. rewrite H1, (IH3 _ H2). reflexivity.
Qed.

Lemma ninst_ninst_init t v : ninst t v = true -> ninst_init t v = true.
Proof. exact (proj1 (ginst_false_true t) v). Qed.

(* ---- what coerceTo returns is an instance of the type ---- *)

Lemma all_some_map_forallb {A B} (f : A -> option B) (p : B -> bool) :
  (forall x y, f x = Some y -> p y = true) ->
  forall l l', all_some (map f l) = Some l' -> forallb p l' = true.
Proof.
  intros H. induction l as [|x r IH]; cbn [map all_some]; intros l' E.
  - inversion E. reflexivity.
  - destruct (f x) as [y|] eqn:Ef; [|discriminate].
    destruct (all_some (map f r)) as [r'|] eqn:Er; cbn [option_map] in E; [|discriminate].
    inversion E; subst l'. cbn [forallb]. rewrite (H _ _ Ef), (IH _ eq_refl). reflexivity.
Qed.

(* el holds, under every attribute name the given hash has, the coerced value (and nothing else under that name) *)
Lemma cattrs_spec t : forall h el, cattrs t h = Some el ->
  forall k, nmem k (nnames t) = true ->
  match nhget h k with
  | Some v0 => exists v, centry t k v0 = Some v /\ nhget el k = Some v
  | None => nhget el k = None
  end.
Proof.
  induction t as [| |t' _|t' _|t' _| |k0 d vt _ rest IHr|ms _|n attrs _]; intros h el E k Hk;
    try (cbn [nnames nmem] in Hk; discriminate).
  cbn [cattrs] in E. cbn [nnames nmem] in Hk. cbn [centry].
  destruct (nhget h k0) as [v0|] eqn:Eh0.
  - destruct (if ginst false vt v0 then Some v0 else csw vt v0) as [v'|] eqn:Ec; [|discriminate].
    destruct (cattrs rest h) as [el'|] eqn:Er; [|discriminate]. inversion E; subst el. clear E.
    cbn [nhget]. destruct (str_eqb_spec k0 k) as [He|Hn].
    + subst k0. rewrite Eh0. exists v'. split; [exact Ec|reflexivity].
    + cbn [orb] in Hk. exact (IHr _ _ Er k Hk).
  - destruct (str_eqb_spec k0 k) as [He|Hn].
    + subst k0. rewrite Eh0.
      (* no entry under k in el: k is not among the names of rest that h has — h has no k at all *)
      clear Hk. revert el E. clear IHr. generalize rest. intros r. induction r as [| |t' _|t' _|t' _| |k1 d1 vt1 _ r1 IH1|ms _|n1 a1 _];
        intros el E; cbn [cattrs] in E; try (inversion E; reflexivity).
      destruct (nhget h k1) as [v1|] eqn:Eh1.
      * destruct (if ginst false vt1 v1 then Some v1 else csw vt1 v1) as [v1'|]; [|discriminate].
        destruct (cattrs r1 h) as [el1|] eqn:E1; [|discriminate]. inversion E; subst el. cbn [nhget].
        destruct (str_eqb_spec k1 k) as [He|Hn]; [subst k1; congruence|]. exact (IH1 _ eq_refl).
      * exact (IH1 _ E).
    + cbn [orb] in Hk. exact (IHr _ _ E k Hk).
Qed.

Definition coerce_ok (t : nty) : Prop :=
  forall v v', nwf_at true t = true -> csw t v = Some v' -> ginst false t v' = true.

Definition build_ok (t : nty) : Prop :=
  forall m vals, nwf_at true t = true ->
  (forall k, nmem k (nnames t) = true ->
     match nhget m k with Some v => exists v0, centry t k v0 = Some v | None => True end) ->
  build t m = Some vals -> ginst_vals false t vals = true.

Lemma nmem_neq k k' l : nmem k l = false -> nmem k' l = true -> k <> k'.
Proof. intros H1 H2 He. subst k'. congruence. Qed.

Lemma csw_instance t : coerce_ok t /\ build_ok t.
Proof.
  induction t as [| |t' IH|t' IH|t' IH| |k d vt IHv rest IHr|ms IH|n attrs IH].
  - split; [intros v v' _ E; discriminate|intros m vals _ _ E; inversion E; reflexivity].
  - split; [intros v v' _ E; discriminate|intros m vals _ _ E; inversion E; reflexivity].
  - destruct IH as [IHc _]. split; [|intros m vals _ _ E; inversion E; reflexivity].
    intros v v' W E. cbn [nwf_at] in W. apply andb_true_iff in W. destruct W as [W _].
    apply andb_true_iff in W. destruct W as [W _].
    assert (G : ginst false t' v' = true).
    { cbn [csw] in E. destruct t'; try discriminate; exact (IHc _ _ W E). }
    cbn [ginst]. destruct v'; try exact G; reflexivity.
  - destruct IH as [IHc _]. split; [|intros m vals _ _ E; inversion E; reflexivity].
    intros v v' W E. cbn [nwf_at] in W. apply andb_true_iff in W. destruct W as [W _].
    cbn [csw] in E. destruct v as [| | |l| |]; try discriminate.
    destruct (all_some (map (fun x => if ginst false t' x then Some x else csw t' x) l)) as [l'|] eqn:El; [|discriminate].
    inversion E; subst v'. cbn [ginst].
    refine (all_some_map_forallb _ (ginst false t') _ l l' El).
    intros x y Hxy. destruct (ginst false t' x) eqn:Gx; [inversion Hxy; subst y; exact Gx|exact (IHc _ _ W Hxy)].
  - destruct IH as [IHc _]. split; [|intros m vals _ _ E; inversion E; reflexivity].
    intros v v' W E. cbn [nwf_at] in W. apply andb_true_iff in W. destruct W as [W _].
    cbn [csw] in E. destruct v as [| | | |h|]; try discriminate.
    destruct (all_some (map (fun kv : str * nvalue => option_map (pair (fst kv))
               (if ginst false t' (snd kv) then Some (snd kv) else csw t' (snd kv))) h)) as [h'|] eqn:Eh; [|discriminate].
    inversion E; subst v'. cbn [ginst].
    refine (all_some_map_forallb _ (fun kv : str * nvalue => ginst false t' (snd kv)) _ h h' Eh).
    intros x y Hxy. destruct (ginst false t' (snd x)) eqn:Gx; cbn [option_map] in Hxy.
    + inversion Hxy; subst y. exact Gx.
    + destruct (csw t' (snd x)) as [z|] eqn:Ez; [|discriminate]. inversion Hxy; subst y. exact (IHc _ _ W Ez).
  - split; [intros v v' _ E; discriminate|intros m vals _ _ E; inversion E; reflexivity].
  - destruct IHv as [IHvc _]. destruct IHr as [_ IHrb]. split; [intros v v' _ E; discriminate|].
    intros m vals W Hm E. cbn [nwf_at] in W.
    repeat (apply andb_true_iff in W; destruct W as [W ?]).
    rename H into Wd, H0 into Wk, H1 into Wl, H2 into Wr, H3 into Wnl. cbn [negb orb] in Wd.
    apply negb_true_iff in Wk.
    cbn [build] in E. cbn [ginst_vals].
    assert (Hrest : forall k', nmem k' (nnames rest) = true ->
              match nhget m k' with Some v => exists v0, centry rest k' v0 = Some v | None => True end).
    { intros k' Hk'. specialize (Hm k'). cbn [nnames nmem centry] in Hm. rewrite Hk', orb_true_r in Hm. specialize (Hm eq_refl).
      destruct (nhget m k') as [v|]; [|exact I]. destruct Hm as [v0 Hv0]. exists v0.
      destruct (str_eqb_spec k k') as [He|Hn]; [exfalso; exact (nmem_neq _ _ _ Wk Hk' He)|exact Hv0]. }
    specialize (Hm k). cbn [nnames nmem centry] in Hm. rewrite str_eqb_refl in Hm. specialize (Hm eq_refl).
    destruct (nhget m k) as [v|] eqn:Emk.
    + destruct (build rest m) as [vs|] eqn:Eb; cbn [option_map] in E; [|discriminate]. inversion E; subst vals.
      destruct Hm as [v0 Hv0]. rewrite (IHrb _ _ Wr Hrest Eb), andb_true_r.
      destruct (ginst false vt v0) eqn:G0; [inversion Hv0; subst v; exact G0|exact (IHvc _ _ W Hv0)].
    + destruct d as [dv|]; [|discriminate].
      destruct (build rest m) as [vs|] eqn:Eb; cbn [option_map] in E; [|discriminate]. inversion E; subst vals.
      rewrite (IHrb _ _ Wr Hrest Eb), andb_true_r. exact Wd.
  - split; [|intros m vals _ _ E; inversion E; reflexivity].
    intros v v' _ E. cbn [csw] in E. destruct v as [| | | |h|]; try discriminate.
    destruct (all_some _) as [h'|]; [|discriminate].
    destruct (ginst false (NStruct ms) (NVHash h')) eqn:G; [|discriminate]. inversion E; subst v'. exact G.
  - destruct IH as [_ IHb]. split; [|intros m vals _ _ E; inversion E; reflexivity].
    intros v v' W E. cbn [nwf_at] in W. apply andb_true_iff in W. destruct W as [W _].
    cbn [csw] in E. destruct v as [| | | |h|]; try discriminate.
    destruct (cattrs attrs h) as [el|] eqn:Ec; [|discriminate].
    destruct (keys_known attrs (nhmerge h el)); [|discriminate].
    destruct (build attrs (nhmerge h el)) as [vals|] eqn:Eb; cbn [option_map] in E; [|discriminate].
    inversion E; subst v'. cbn [ginst]. rewrite str_eqb_refl. cbn [andb].
    refine (IHb _ _ W _ Eb). intros k Hk. rewrite nhget_merge.
    pose proof (cattrs_spec attrs h el Ec k Hk) as S.
    destruct (nhget h k) as [v0|].
    + destruct S as [v [S1 S2]]. rewrite S2. exists v0. exact S1.
    + rewrite S. exact I.
Qed.

(* coerceTo: what it returns is an instance of the type *)
Lemma coerce_gives_instance t v v' : nwf t = true -> coerce t v = Some v' -> ninst t v' = true.
Proof.
  unfold coerce, ninst, nwf. intros W E. destruct (ginst false t v) eqn:G.
  - inversion E; subst v'. exact G.
  - exact (proj1 (csw_instance t) _ _ W E).
Qed.

(* the named creator: the object it builds holds, for every attribute, an instance of the attribute's type *)
Lemma named_new_instance n attrs h v :
  nwf (NObj n attrs) = true -> named_new n attrs h = NOk v -> ninst (NObj n attrs) v = true.
Proof.
  unfold nwf, named_new, ninst. intros W E. cbn [nwf_at] in W. apply andb_true_iff in W. destruct W as [W _].
  destruct (negb _); [discriminate|].
  destruct (cattrs attrs h) as [el|] eqn:Ec; [|discriminate].
  destruct (build attrs (nhmerge h el)) as [vals|] eqn:Eb; [|discriminate].
  inversion E; subst v. cbn [ginst]. rewrite str_eqb_refl. cbn [andb].
  refine (proj2 (csw_instance attrs) _ _ W _ Eb). intros k Hk. rewrite nhget_merge.
  pose proof (cattrs_spec attrs h el Ec k Hk) as S.
  destruct (nhget h k) as [v0|].
  - destruct S as [v [S1 S2]]. rewrite S2. exists v0. exact S1.
  - rewrite S. exact I.
Qed.

(* the positional creator (after the fix: 0abd0ef): the same *)
Lemma positional_vals_instance attrs : forall args vs,
  nwf_at true attrs = true -> positional_vals attrs args = inr vs -> ginst_vals false attrs vs = true.
Proof.
  induction attrs as [| |t' _|t' _|t' _| |k d vt _ rest IHr|ms _|n a _]; intros args vs W E;
    try (cbn [positional_vals] in E; destruct args; [inversion E; reflexivity|discriminate]).
  cbn [nwf_at] in W. repeat (apply andb_true_iff in W; destruct W as [W ?]).
  rename H into Wd, H2 into Wr. cbn [negb orb] in Wd.
  cbn [positional_vals] in E. cbn [ginst_vals]. destruct args as [|v r].
  - destruct d as [dv|]; [|discriminate].
    destruct (positional_vals rest []) as [e|vs'] eqn:Ep; [discriminate|]. inversion E; subst vs.
    rewrite (IHr _ _ Wr Ep), andb_true_r. exact Wd.
  - destruct (ginst (is_obj_ty vt) vt v); [|discriminate].
    destruct (if ginst false vt v then Some v else csw vt v) as [v'|] eqn:Ec; [|discriminate].
    destruct (positional_vals rest r) as [e|vs'] eqn:Ep; [discriminate|]. inversion E; subst vs.
    rewrite (IHr _ _ Wr Ep), andb_true_r.
    destruct (ginst false vt v) eqn:G; [inversion Ec; subst v'; exact G|exact (proj1 (csw_instance vt) _ _ W Ec)].
Qed.

Lemma positional_vals_inl attrs : forall args e v, positional_vals attrs args = inl e -> e <> NOk v.
Proof.
  induction attrs as [| |t' _|t' _|t' _| |k d vt _ rest IHr|ms _|n a _]; intros args e v E;
    try (cbn [positional_vals] in E; destruct args; inversion E; discriminate).
  cbn [positional_vals] in E. destruct args as [|x r].
  - destruct d as [dv|]; [|inversion E; discriminate].
    destruct (positional_vals rest []) as [e'|vs'] eqn:Ep; [|discriminate]. inversion E; subst e'. exact (IHr _ _ v Ep).
  - destruct (ginst (is_obj_ty vt) vt x); [|inversion E; discriminate].
    destruct (if ginst false vt x then Some x else csw vt x); [|inversion E; discriminate].
    destruct (positional_vals rest r) as [e'|vs'] eqn:Ep; [|discriminate]. inversion E; subst e'. exact (IHr _ _ v Ep).
Qed.

Lemma nnew_instance n attrs args v :
  nwf (NObj n attrs) = true -> nnew n attrs args = NOk v -> ninst (NObj n attrs) v = true.
Proof.
  intros W E.
  assert (P : positional_new n attrs args = NOk v -> ninst (NObj n attrs) v = true).
  { unfold positional_new, ninst. intros E'. destruct (positional_vals attrs args) as [e|vs] eqn:Ep; [exfalso; exact (positional_vals_inl _ _ _ v Ep E')|].
    inversion E'; subst v. cbn [ginst]. rewrite str_eqb_refl. cbn [andb].
    unfold nwf in W. cbn [nwf_at] in W. apply andb_true_iff in W. destruct W as [W _].
    exact (positional_vals_instance _ _ _ W Ep). }
  unfold nnew in E. destruct args as [|a [|b r]]; try exact (P E); destruct a; try exact (P E).
  destruct (keys_known attrs l && ginst_members true attrs l); [exact (named_new_instance _ _ _ _ W E)|exact (P E)].
Qed.
