(* StrBytesProofs.v — C02, strings as bytes: what utf8.RuneCountInString counts, for EVERY byte string. *)
From Coq Require Import ZArith NArith Bool List Lia Arith.
From PcoreV Require Import Model.Base Model.Ty Model.Lattice Model.Spec Model.StrBytes.
Import ListNotations.
Open Scope Z_scope.

Lemma str_len_ind (P : str -> Prop) :
  (forall s, (forall s', (length s' < length s)%nat -> P s') -> P s) -> forall s, P s.
Proof.
  intros H s. remember (length s) as n eqn:E. revert s E.
  induction n as [n IH] using lt_wf_ind. intros s ->. apply H. intros s' L. exact (IH _ L _ eq_refl).
Qed.

Lemma first_multi b sz lo hi : first b = LMulti sz lo hi ->
  (sz = 2 \/ sz = 3 \/ sz = 4)%nat /\ (128 <= lo)%N /\ (hi <= 191)%N /\ (194 <= b)%N.
Proof.
  unfold first.
  repeat match goal with |- context [if ?c then _ else _] => destruct c eqn:? end;
    intros H; try discriminate; injection H as <- <- <-;
    rewrite ?N.ltb_lt, ?N.ltb_ge, ?N.eqb_eq, ?N.eqb_neq in *; repeat split; auto; lia.
Qed.

Lemma first_ascii b : first b = LAscii <-> (b < 128)%N.
Proof.
  unfold first. destruct (N.ltb b 128) eqn:E; [apply N.ltb_lt in E; tauto|].
  apply N.ltb_ge in E.
  split; [|lia].
  repeat match goal with |- context [if ?c then _ else _] => destruct c end; discriminate.
Qed.

Lemma first_invalid b : first b = LInvalid -> (128 <= b)%N.
Proof. unfold first. destruct (N.ltb b 128) eqn:E; [discriminate|]. apply N.ltb_ge in E. auto. Qed.

Lemma steps_cons b0 r : steps (b0 :: r) =
    match first b0 with
    | LAscii => (b0, 1%nat) :: steps r
    | LInvalid => (RuneError, 1%nat) :: steps r
    | LMulti sz lo hi =>
      match r with
      | [] => (RuneError, 1%nat) :: steps r
      | b1 :: r1 =>
        if negb (in_rng lo hi b1) then (RuneError, 1%nat) :: steps r
        else match sz with
        | 2%nat => (cp2 b0 b1, 2%nat) :: steps r1
        | _ =>
          match r1 with
          | [] => (RuneError, 1%nat) :: steps r
          | b2 :: r2 =>
            if negb (is_cont b2) then (RuneError, 1%nat) :: steps r
            else match sz with
            | 3%nat => (cp3 b0 b1 b2, 3%nat) :: steps r2
            | _ =>
              match r2 with
              | [] => (RuneError, 1%nat) :: steps r
              | b3 :: r3 =>
                if negb (is_cont b3) then (RuneError, 1%nat) :: steps r
                else (cp4 b0 b1 b2 b3, 4%nat) :: steps r3
              end
            end
          end
        end
      end
    end.
Proof. reflexivity. Qed.

Lemma count_cons b0 r : utf8_rune_count (b0 :: r) =
    match first b0 with
    | LAscii => 1 + utf8_rune_count r
    | LInvalid => 1 + utf8_rune_count r
    | LMulti sz lo hi =>
      match r with
      | [] => 1 + utf8_rune_count r
      | b1 :: r1 =>
        if negb (in_rng lo hi b1) then 1 + utf8_rune_count r
        else match sz with
        | 2%nat => 1 + utf8_rune_count r1
        | _ =>
          match r1 with
          | [] => 1 + utf8_rune_count r
          | b2 :: r2 =>
            if negb (is_cont b2) then 1 + utf8_rune_count r
            else match sz with
            | 3%nat => 1 + utf8_rune_count r2
            | _ =>
              match r2 with
              | [] => 1 + utf8_rune_count r
              | b3 :: r3 =>
                if negb (is_cont b3) then 1 + utf8_rune_count r
                else 1 + utf8_rune_count r3
              end
            end
          end
        end
      end
    end.
Proof. reflexivity. Qed.

(* The shape of one iteration: what `steps` does with b0 :: r, as a disjunction of the six outcomes.
   Every later proof is a strong induction over this lemma. *)
Inductive step_shape (b0 : N) (r : str) : (N * nat) -> str -> Prop :=
| SAscii : (b0 < 128)%N -> step_shape b0 r (b0, 1%nat) r
| SError : (128 <= b0)%N -> step_shape b0 r (RuneError, 1%nat) r
| STwo b1 r1 : r = b1 :: r1 -> (194 <= b0)%N -> is_cont b1 = true -> step_shape b0 r (cp2 b0 b1, 2%nat) r1
| SThree b1 b2 r2 : r = b1 :: b2 :: r2 -> (194 <= b0)%N -> is_cont b1 = true -> is_cont b2 = true ->
    step_shape b0 r (cp3 b0 b1 b2, 3%nat) r2
| SFour b1 b2 b3 r3 : r = b1 :: b2 :: b3 :: r3 -> (194 <= b0)%N -> is_cont b1 = true -> is_cont b2 = true ->
    is_cont b3 = true -> step_shape b0 r (cp4 b0 b1 b2 b3, 4%nat) r3.

Lemma in_rng_cont lo hi b : (128 <= lo)%N -> (hi <= 191)%N -> in_rng lo hi b = true -> is_cont b = true.
Proof. unfold is_cont, in_rng. intros. rewrite andb_true_iff, !N.leb_le in *. lia. Qed.

Lemma step_cases b0 r : exists st rest,
  step_shape b0 r st rest /\ steps (b0 :: r) = st :: steps rest /\
  utf8_rune_count (b0 :: r) = 1 + utf8_rune_count rest.
Proof.
  rewrite steps_cons, count_cons.
  destruct (first b0) as [| |sz lo hi] eqn:F.
  - apply first_ascii in F. eexists _, _. split; [apply SAscii; exact F|split; reflexivity].
  - apply first_invalid in F. eexists _, _. split; [apply SError; exact F|split; reflexivity].
  - destruct (first_multi _ _ _ _ F) as (Hsz & Hlo & Hhi & Hb).
    assert (E : forall x, step_shape b0 r (RuneError, 1%nat) r /\
                          (RuneError, 1%nat) :: steps r = (RuneError, 1%nat) :: steps r /\ 1 + x = 1 + x)
      by (intros x; split; [apply SError; lia|split; reflexivity]).
    destruct r as [|b1 r1]; [eexists _, _; apply E|].
    destruct (in_rng lo hi b1) eqn:R1; cbn [negb]; [|eexists _, _; apply E].
    apply (in_rng_cont _ _ _ Hlo Hhi) in R1.
    destruct Hsz as [->|[->| ->]].
    + eexists _, _. split; [eapply STwo; eauto|split; reflexivity].
    + destruct r1 as [|b2 r2]; [eexists _, _; apply E|].
      destruct (is_cont b2) eqn:R2; cbn [negb]; [|eexists _, _; apply E].
      eexists _, _. split; [eapply SThree; eauto|split; reflexivity].
    + destruct r1 as [|b2 r2]; [eexists _, _; apply E|].
      destruct (is_cont b2) eqn:R2; cbn [negb]; [|eexists _, _; apply E].
      destruct r2 as [|b3 r3]; [eexists _, _; apply E|].
      destruct (is_cont b3) eqn:R3; cbn [negb]; [|eexists _, _; apply E].
      eexists _, _. split; [eapply SFour; eauto|split; reflexivity].
Qed.

(* the rest is shorter than the input by exactly the width of the step *)
Lemma shape_len b0 r st rest : step_shape b0 r st rest -> (length (b0 :: r) = snd st + length rest)%nat.
Proof. intros H; destruct H; subst; cbn; lia. Qed.

Lemma shape_width b0 r st rest : step_shape b0 r st rest -> (1 <= snd st <= 4)%nat.
Proof. intros H; destruct H; cbn; lia. Qed.

(* ---- 1. RuneCountInString counts the code points of the decoded text ---- *)

Theorem count_is_steps s : utf8_rune_count s = zlen (steps s).
Proof.
  induction s as [s IH] using str_len_ind. destruct s as [|b0 r]; [reflexivity|].
  destruct (step_cases b0 r) as (st & rest & Sh & -> & ->).
  apply shape_len in Sh as L. pose proof (shape_width _ _ _ _ Sh) as W.
  rewrite IH by (cbn [length] in *; lia). unfold zlen. cbn [length]. lia.
Qed.

Theorem count_is_decoded s : utf8_rune_count s = zlen (decode s).
Proof. rewrite count_is_steps. unfold zlen, decode. now rewrite map_length. Qed.

(* ---- 2. the iteration consumes every byte exactly once; a code point takes 1 to 4 bytes ---- *)

Definition width_sum (l : list (N * nat)) : nat := fold_right (fun st n => (snd st + n)%nat) O l.

Theorem widths_cover s : width_sum (steps s) = length s.
Proof.
  induction s as [s IH] using str_len_ind. destruct s as [|b0 r]; [reflexivity|].
  destruct (step_cases b0 r) as (st & rest & Sh & -> & _).
  apply shape_len in Sh as L. pose proof (shape_width _ _ _ _ Sh) as W.
  cbn [width_sum fold_right]. fold (width_sum (steps rest)). rewrite IH by (cbn [length] in *; lia). lia.
Qed.

Theorem width_bounds s st : In st (steps s) -> (1 <= snd st <= 4)%nat.
Proof.
  induction s as [s IH] using str_len_ind. destruct s as [|b0 r]; [intros []|].
  destruct (step_cases b0 r) as (st' & rest & Sh & -> & _).
  apply shape_len in Sh as L. pose proof (shape_width _ _ _ _ Sh) as W.
  intros [<-|Hin]; [exact W|]. apply (IH rest); [cbn in *; lia|exact Hin].
Qed.

(* ---- 3. the count never exceeds the byte length; equality characterised ---- *)

Theorem count_le_len s : utf8_rune_count s <= zlen s.
Proof.
  induction s as [s IH] using str_len_ind. destruct s as [|b0 r]; [cbn; lia|].
  destruct (step_cases b0 r) as (st & rest & Sh & _ & ->).
  apply shape_len in Sh as L. pose proof (shape_width _ _ _ _ Sh) as W.
  specialize (IH rest ltac:(cbn [length] in *; lia)). unfold zlen in *. cbn [length] in *. lia.
Qed.

(* equal exactly when no iteration took more than one byte (no well-formed multi-byte sequence) *)
Theorem count_eq_len_iff s : utf8_rune_count s = zlen s <-> (forall st, In st (steps s) -> snd st = 1%nat).
Proof.
  induction s as [s IH] using str_len_ind. destruct s as [|b0 r]; [cbn; split; [intros _ ? []|reflexivity]|].
  destruct (step_cases b0 r) as (st & rest & Sh & -> & ->).
  apply shape_len in Sh as L. pose proof (shape_width _ _ _ _ Sh) as W.
  pose proof (count_le_len rest) as Le.
  specialize (IH rest ltac:(cbn [length] in *; lia)). unfold zlen in *. cbn [length] in *.
  split.
  - intros E st' [<-|Hin]; [lia|]. apply IH; [lia|exact Hin].
  - intros A. pose proof (A st (or_introl eq_refl)) as W1.
    assert (E : utf8_rune_count rest = Z.of_nat (length rest)) by (apply IH; intros st' Hin; apply A; right; exact Hin).
    lia.
Qed.

Lemma is_ascii_cons b r : is_ascii (b :: r) = true <-> (b < 128)%N /\ is_ascii r = true.
Proof. unfold is_ascii. cbn [forallb]. rewrite andb_true_iff, N.ltb_lt. tauto. Qed.

Theorem ascii_steps s : is_ascii s = true -> steps s = map (fun b => (b, 1%nat)) s.
Proof.
  induction s as [|b r IH]; [reflexivity|]. rewrite is_ascii_cons. intros (Hb & Hr).
  rewrite steps_cons. apply first_ascii in Hb. rewrite Hb. cbn [map]. now rewrite IH.
Qed.

Theorem ascii_count s : is_ascii s = true -> utf8_rune_count s = zlen s.
Proof. intros H. rewrite count_is_steps, (ascii_steps _ H). unfold zlen. now rewrite map_length. Qed.

Theorem ascii_valid s : is_ascii s = true -> valid_utf8 s = true.
Proof.
  intros H. unfold valid_utf8. rewrite (ascii_steps _ H). apply forallb_forall. intros st Hin.
  apply in_map_iff in Hin. destruct Hin as (b & <- & Hb).
  unfold is_ascii in H. rewrite forallb_forall in H. apply H in Hb. apply N.ltb_lt in Hb.
  unfold err_step. cbn [fst snd]. destruct (N.eqb b RuneError) eqn:E; [|reflexivity].
  apply N.eqb_eq in E. unfold RuneError in E. lia.
Qed.

Lemma valid_cons b0 r st rest : steps (b0 :: r) = st :: steps rest ->
  valid_utf8 (b0 :: r) = true <-> err_step st = false /\ valid_utf8 rest = true.
Proof.
  intros E. unfold valid_utf8. rewrite E. cbn [forallb]. rewrite andb_true_iff, negb_true_iff. tauto.
Qed.

(* on well-formed UTF-8: the count is the byte length exactly for ASCII text *)
Theorem valid_count_eq_len_ascii s : valid_utf8 s = true -> (utf8_rune_count s = zlen s <-> is_ascii s = true).
Proof.
  intros V. split; [|apply ascii_count].
  revert V. induction s as [s IH] using str_len_ind. destruct s as [|b0 r]; [reflexivity|].
  destruct (step_cases b0 r) as (st & rest & Sh & Es & Ec). rewrite Ec.
  intros V. apply (valid_cons _ _ _ _ Es) in V. destruct V as (Ve & Vr).
  apply shape_len in Sh as L. pose proof (count_le_len rest) as Le. unfold zlen in *. cbn [length] in *.
  intros E. destruct Sh; cbn [snd] in *; subst; cbn [length] in *; try lia.
  - apply is_ascii_cons. split; [assumption|]. apply IH; [cbn [length]; lia|exact Vr|lia].
  - discriminate Ve.
Qed.

(* ---- 4. on well-formed UTF-8 the count is the number of non-continuation bytes (Ty.rune_count):
           Lattice.inst IS the byte-level model on valid text ---- *)

Lemma rune_count_cons b r : rune_count (b :: r) = (if (N.ltb b 128 || N.leb 192 b)%bool then 1 else 0) + rune_count r.
Proof. unfold rune_count. cbn [filter]. destruct (N.ltb b 128 || N.leb 192 b)%bool; cbn [length]; lia. Qed.

Lemma cont_not_start b : is_cont b = true -> (N.ltb b 128 || N.leb 192 b)%bool = false.
Proof.
  unfold is_cont, in_rng. rewrite andb_true_iff, !N.leb_le. intros (A & B).
  apply orb_false_iff. split; [apply N.ltb_ge; lia|apply N.leb_gt; lia].
Qed.

Lemma lead_start b : (b < 128 \/ 194 <= b)%N -> (N.ltb b 128 || N.leb 192 b)%bool = true.
Proof. intros [H|H]; apply orb_true_iff; [left; apply N.ltb_lt; lia|right; apply N.leb_le; lia]. Qed.

Theorem valid_count_agrees s : valid_utf8 s = true -> utf8_rune_count s = rune_count s.
Proof.
  induction s as [s IH] using str_len_ind. destruct s as [|b0 r]; [reflexivity|].
  destruct (step_cases b0 r) as (st & rest & Sh & Es & Ec). rewrite Ec.
  intros V. apply (valid_cons _ _ _ _ Es) in V. destruct V as (Ve & Vr).
  apply shape_len in Sh as L. pose proof (shape_width _ _ _ _ Sh) as W.
  rewrite (IH rest) by (exact Vr || (cbn [length] in *; lia)).
  destruct Sh; subst; try discriminate Ve;
    rewrite !rune_count_cons, ?lead_start by lia;
    repeat match goal with H : is_cont _ = true |- _ => rewrite (cont_not_start _ H); clear H end; lia.
Qed.

(* ---- 5. ASCII case folding on bytes ---- *)

Definition upper_byte (b : N) : bool := (N.leb 65 b && N.leb b 90)%bool.

Lemma lower_byte_cases b : (upper_byte b = true /\ lower_ascii_byte b = (b + 32)%N) \/
                           (upper_byte b = false /\ lower_ascii_byte b = b).
Proof. unfold lower_ascii_byte, upper_byte. destruct (N.leb 65 b && N.leb b 90)%bool; auto. Qed.

Theorem lower_len s : length (lower_ascii s) = length s.
Proof. apply map_length. Qed.

Theorem lower_nth s i : nth i (lower_ascii s) 0%N = lower_ascii_byte (nth i s 0%N).
Proof. unfold lower_ascii. now rewrite <- (map_nth lower_ascii_byte). Qed.

(* a byte that is not an ASCII capital letter stays; a capital becomes its small letter *)
Theorem lower_nonletter b : upper_byte b = false -> lower_ascii_byte b = b.
Proof. destruct (lower_byte_cases b) as [(U & _)|(_ & E)]; congruence. Qed.

Theorem lower_idem s : lower_ascii (lower_ascii s) = lower_ascii s.
Proof.
  unfold lower_ascii. rewrite map_map. apply map_ext. intros b.
  destruct (lower_byte_cases b) as [(U & ->)|(U & ->)].
  - apply lower_nonletter. unfold upper_byte in *. rewrite andb_true_iff, !N.leb_le in U.
    apply andb_false_iff. right. apply N.leb_gt. lia.
  - apply lower_nonletter. exact U.
Qed.

Lemma lower_high b : (128 <= b)%N -> lower_ascii_byte b = b.
Proof. intros H. apply lower_nonletter. unfold upper_byte. apply andb_false_iff. right. apply N.leb_gt. lia. Qed.

Lemma lower_low b : (b < 128)%N -> (lower_ascii_byte b < 128)%N.
Proof.
  intros H. destruct (lower_byte_cases b) as [(U & ->)|(U & ->)]; [|exact H].
  unfold upper_byte in U. rewrite andb_true_iff, !N.leb_le in U. lia.
Qed.

Lemma cont_high b : is_cont b = true -> (128 <= b)%N.
Proof. unfold is_cont, in_rng. rewrite andb_true_iff, !N.leb_le. lia. Qed.

Lemma first_lower b : first (lower_ascii_byte b) = first b.
Proof.
  destruct (N.ltb b 128) eqn:E.
  - apply N.ltb_lt in E. pose proof (lower_low _ E) as E'.
    apply first_ascii in E. apply first_ascii in E'. congruence.
  - apply N.ltb_ge in E. now rewrite lower_high.
Qed.

(* a step of the folded string: the same width; an ASCII letter folded, everything else (multi-byte code
   points, U+FFFD for an invalid byte) untouched *)
Definition lower_step (st : N * nat) : N * nat :=
  match snd st with 1%nat => (lower_ascii_cp (fst st), 1%nat) | _ => st end.

Lemma in_rng_lower lo hi b : (128 <= lo)%N -> in_rng lo hi (lower_ascii_byte b) = in_rng lo hi b.
Proof.
  intros Hlo. destruct (N.ltb b 128) eqn:E.
  - apply N.ltb_lt in E. pose proof (lower_low _ E) as E'. unfold in_rng.
    replace (N.leb lo (lower_ascii_byte b)) with false by (symmetry; apply N.leb_gt; lia).
    replace (N.leb lo b) with false by (symmetry; apply N.leb_gt; lia). reflexivity.
  - apply N.ltb_ge in E. now rewrite lower_high.
Qed.

Theorem steps_lower s : steps (lower_ascii s) = map lower_step (steps s).
Proof.
  induction s as [s IH] using str_len_ind. destruct s as [|b0 r]; [reflexivity|].
  change (lower_ascii (b0 :: r)) with (lower_ascii_byte b0 :: lower_ascii r).
  pose proof (IH r ltac:(cbn; lia)) as IHr.
  rewrite (steps_cons b0 r), steps_cons, first_lower.
  destruct (first b0) as [| |sz lo hi] eqn:F.
  - cbn [map]. rewrite IHr. reflexivity.
  - cbn [map]. rewrite IHr. reflexivity.
  - destruct (first_multi _ _ _ _ F) as (Hsz & Hlo & Hhi & Hb).
    rewrite (lower_high b0) by lia.
    destruct r as [|b1 r1]; [reflexivity|].
    change (lower_ascii (b1 :: r1)) with (lower_ascii_byte b1 :: lower_ascii r1) in *. cbv beta iota.
    pose proof (IH r1 ltac:(cbn; lia)) as IHr1.
    rewrite (in_rng_lower _ _ _ Hlo).
    destruct (in_rng lo hi b1) eqn:R1; cbn [negb]; [|cbn [map]; rewrite IHr; reflexivity].
    assert (H1 : lower_ascii_byte b1 = b1) by (apply lower_high, cont_high; eapply in_rng_cont; eauto).
    rewrite H1 in *.
    destruct Hsz as [->|[->| ->]]; cbv beta iota.
    + cbn [map]. rewrite IHr1. reflexivity.
    + destruct r1 as [|b2 r2]; [cbn [map]; rewrite IHr; reflexivity|].
      change (lower_ascii (b2 :: r2)) with (lower_ascii_byte b2 :: lower_ascii r2) in *. cbv beta iota.
      pose proof (IH r2 ltac:(cbn; lia)) as IHr2.
      unfold is_cont. rewrite (in_rng_lower 128 191 b2) by lia.
      destruct (in_rng 128 191 b2) eqn:R2; cbn [negb]; [|cbn [map]; rewrite IHr; reflexivity].
      rewrite (lower_high b2) by (apply cont_high; exact R2).
      cbn [map]. rewrite IHr2. reflexivity.
    + destruct r1 as [|b2 r2]; [cbn [map]; rewrite IHr; reflexivity|].
      change (lower_ascii (b2 :: r2)) with (lower_ascii_byte b2 :: lower_ascii r2) in *. cbv beta iota.
      unfold is_cont. rewrite (in_rng_lower 128 191 b2) by lia.
      destruct (in_rng 128 191 b2) eqn:R2; cbn [negb]; [|cbn [map]; rewrite IHr; reflexivity].
      assert (H2 : lower_ascii_byte b2 = b2) by (apply lower_high, cont_high; exact R2).
      rewrite H2 in *.
      destruct r2 as [|b3 r3]; [cbn [map]; rewrite IHr; reflexivity|].
      change (lower_ascii (b3 :: r3)) with (lower_ascii_byte b3 :: lower_ascii r3) in *. cbv beta iota.
      pose proof (IH r3 ltac:(cbn; lia)) as IHr3.
      rewrite (in_rng_lower 128 191 b3) by lia.
      destruct (in_rng 128 191 b3) eqn:R3; cbn [negb]; [|cbn [map]; rewrite IHr; reflexivity].
      rewrite (lower_high b3) by (apply cont_high; exact R3).
      cbn [map]. rewrite IHr3. reflexivity.
Qed.

Lemma lower_step_width st : snd (lower_step st) = snd st.
Proof. destruct st as [c [|[|w]]]; reflexivity. Qed.

(* folding moves no code point boundary and changes no count *)
Theorem lower_widths s : map snd (steps (lower_ascii s)) = map snd (steps s).
Proof. rewrite steps_lower, map_map. apply map_ext. apply lower_step_width. Qed.

Theorem lower_count s : utf8_rune_count (lower_ascii s) = utf8_rune_count s.
Proof. rewrite !count_is_steps, steps_lower. unfold zlen. now rewrite map_length. Qed.

(* the decoded text of the folded bytes is the decoded text folded: code points of one byte are folded as
   ASCII letters (U+FFFD, standing for an invalid byte, is no letter), the others stay *)
Theorem lower_decode s : decode (lower_ascii s) =
  map (fun st => match snd st with 1%nat => lower_ascii_cp (fst st) | _ => fst st end) (steps s).
Proof.
  unfold decode. rewrite steps_lower, map_map. apply map_ext. intros [c [|[|w]]]; reflexivity.
Qed.
