(* Model/InferRuntime.v: where exactly the inference of an element type needs transitivity of reflect's AssignableTo.
   The fold of commonType keeps, at every step, the type of one ELEMENT of the array (or a type without reflect.Type, which
   has every Go value as an instance); the only inference that uses transitivity is rt_inst_mono: an element v that is an
   instance of the kept type Runtime[x] stays an instance when Runtime[y] replaces it because Runtime[y] accepts Runtime[x]
   (v -> x and x -> y must give v -> y), with v, x, y Go types of three elements of the array.  So transitivity among the
   Go types of the ELEMENTS is enough (this is the class the harness tags: nonTransitive in runtime.go). *)
From Coq Require Import NArith Bool List.
From PcoreV Require Import Model.Base Model.InferRuntime Proofs.InferRuntimeProofs.
Import ListNotations.

Section Local.
  Variable gasg : N -> N -> bool.
  Variable tname : N -> str.
  Hypothesis gasg_refl : forall x, gasg x x = true.
  Variable ds : list N.
  Hypothesis gasg_trans_on :
    forall x y z, In x ds -> In y ds -> In z ds -> gasg x y = true -> gasg y z = true -> gasg x z = true.
  Hypothesis named : forall v, In v ds -> tname v <> [].

  (* the reflect.Type of t, if it has one, is the Go type of an element *)
  Definition tin (t : rty) : Prop := match r_go t with Some g => In g ds | None => True end.

  Lemma rt_inst_mono_on t' t v :
    rwf tname t' = true -> rwf tname t = true -> tin t' -> tin t -> In v ds ->
    rt_asg gasg t' t = true -> rt_inst gasg tname t v = true -> rt_inst gasg tname t' v = true.
  Proof.
    destruct t' as [r' n' p' g'], t as [r n p g].
    unfold rwf, rt_asg, rt_inst, tin, s_go; cbn [r_go r_runtime r_name r_pat].
    destruct g' as [g'|], g as [g|], p' as [p'|], p as [p|]; str_cases;
      intros; try discriminate; try congruence; eauto.
  Qed.

  Lemma rt_common_step_on t x v :
    rwf tname t = true -> tin t -> In x ds -> In v ds -> rt_inst gasg tname t v = true \/ v = x ->
    rt_inst gasg tname (rt_common gasg t (rt_of tname x)) v = true /\
    rwf tname (rt_common gasg t (rt_of tname x)) = true /\ tin (rt_common gasg t (rt_of tname x)).
  Proof.
    intros Wt Tt Hx Hvd Hv. unfold rt_common.
    destruct (rt_asg gasg t (rt_of tname x)) eqn:E1.
    - split; [|split; [exact Wt|exact Tt]]. destruct Hv as [Hv| ->]; [exact Hv|]. rewrite <- rt_accepts_iff. exact E1.
    - destruct (rt_asg gasg (rt_of tname x) t) eqn:E2.
      + split; [|split; [apply rwf_of; apply named; exact Hx|exact Hx]].
        destruct Hv as [Hv| ->]; [|apply rt_infer_inst; exact gasg_refl].
        exact (rt_inst_mono_on _ _ _ (rwf_of tname _ (named _ Hx)) Wt Hx Tt Hvd E2 Hv).
      + destruct (str_eqb (r_runtime t) (r_runtime (rt_of tname x))) eqn:E3.
        * apply str_eqb_eq in E3. cbn [rt_of r_runtime] in E3. rewrite E3. split; [reflexivity|split; [reflexivity|exact I]].
        * split; [reflexivity|split; [reflexivity|exact I]].
  Qed.

  Lemma rt_fold_inst_on vs : forall t seen,
    rwf tname t = true -> tin t -> (forall v, In v vs -> In v ds) -> (forall v, In v seen -> In v ds) ->
    Forall (fun v => rt_inst gasg tname t v = true) seen ->
    Forall (fun v => rt_inst gasg tname (rt_fold gasg tname t vs) v = true) (seen ++ vs).
  Proof.
    induction vs as [|x vs IH]; intros t seen Wt Tt Hd Hsd Hs; cbn [rt_fold fold_left].
    - rewrite app_nil_r. exact Hs.
    - replace (seen ++ x :: vs) with ((seen ++ [x]) ++ vs) by (rewrite <- app_assoc; reflexivity).
      assert (Hx : In x ds) by (apply Hd; left; reflexivity).
      destruct (rt_common_step_on t x x Wt Tt Hx Hx (or_intror eq_refl)) as [Hix [Wc Tc]].
      apply IH.
      + exact Wc.
      + exact Tc.
      + intros v Hv. apply Hd. right. exact Hv.
      + intros v Hv. apply in_app_or in Hv as [Hv|[<-|[]]]; [apply Hsd; exact Hv|exact Hx].
      + apply Forall_app. split.
        * rewrite Forall_forall in Hs |- *. intros v Hv.
          exact (proj1 (rt_common_step_on t x v Wt Tt Hx (Hsd v Hv) (or_introl (Hs v Hv)))).
        * constructor; [exact Hix|constructor].
  Qed.
End Local.

(* the element type inferred for an array of wrapped Go values has every element as an instance when AssignableTo is
   transitive AMONG THE GO TYPES OF THE ELEMENTS *)
Lemma rt_elem_inst_on (gasg : N -> N -> bool) (tname : N -> str) vs t :
  (forall x, gasg x x = true) ->
  (forall x y z, In x vs -> In y vs -> In z vs -> gasg x y = true -> gasg y z = true -> gasg x z = true) ->
  (forall v, In v vs -> tname v <> []) -> rt_elem gasg tname vs = Some t ->
  Forall (fun v => rt_inst gasg tname t v = true) vs.
Proof.
  intros Hr Ht Hn. destruct vs as [|x vs]; [discriminate|]. intros [= <-].
  change (x :: vs) with ([x] ++ vs).
  apply (rt_fold_inst_on gasg tname Hr (x :: vs) Ht Hn).
  - apply rwf_of. apply Hn. left. reflexivity.
  - left. reflexivity.
  - intros v Hv. right. exact Hv.
  - intros v [<-|[]]. left. reflexivity.
  - constructor; [apply rt_infer_inst; exact Hr|constructor].
Qed.
