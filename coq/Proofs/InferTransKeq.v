(* InferTransKeq.v — C04: types with the same hash key (Infer.tkeq: what UniqueTypes compares - the members of Enum,
   Pattern and Variant as sets, a Tuple's size whether given or not) accept each other.  Hence UniqueTypes may keep any
   representative of a group of key-equal members of a merged Variant: the Variant still accepts every member. *)
From Coq Require Import ZArith NArith Bool List Lia.
From PcoreV Require Import Model.Base Model.Ty Model.Lattice Model.Infer Proofs.LatticeUnfold Proofs.LatticeBasics
  Proofs.LatticeRule Proofs.LatticeSound Proofs.LatticeOrder Proofs.InferProofs Proofs.InferCommon.
Import ListNotations.
Open Scope Z_scope.

Definition tklist := fix go (l l' : list ty) {struct l} : bool :=
  match l, l' with
  | [], [] => true
  | x :: r, y :: r' => tkeq x y && go r r'
  | _, _ => false
  end.
Definition tkmembers := fix go (l l' : list (str * (ty * ty))) {struct l} : bool :=
  match l, l' with
  | [], [] => true
  | (n, (k, v)) :: r, (n', (k', v')) :: r' => str_eqb n n' && tkeq k k' && tkeq v v' && go r r'
  | _, _ => false
  end.

Lemma tkeq_tuple ts g lo hi ts' g' lo' hi' :
  tkeq (TTuple ts g lo hi) (TTuple ts' g' lo' hi') = tklist ts ts' && Z.eqb lo lo' && Z.eqb hi hi'.
Proof. reflexivity. Qed.
Lemma tkeq_struct ms ms' : tkeq (TStruct ms) (TStruct ms') = tkmembers ms ms'.
Proof. reflexivity. Qed.

Lemma tklist_nth ts : forall ts', tklist ts ts' = true ->
  length ts = length ts' /\ forall i t o, nth_error ts i = Some t -> nth_error ts' i = Some o -> tkeq t o = true.
Proof.
  induction ts as [|x r IH]; intros [|y r'] H; cbn in H; try discriminate H.
  - split; [reflexivity|]. intros [|i] t o Ht; discriminate Ht.
  - apply andb_true_iff in H. destruct H as [H1 H2]. destruct (IH r' H2) as [Hl Hn]. split; [cbn; congruence|].
    intros [|i] t o Ht Ho; cbn in Ht, Ho.
    + injection Ht as <-. injection Ho as <-. exact H1.
    + eauto.
Qed.

(* members correspond position by position: same name, key-equal key and value types *)
Lemma tkmembers_spec ms : forall ms', tkmembers ms ms' = true ->
  map fst ms = map fst ms' /\
  forall m, In m ms -> exists m', In m' ms' /\ fst m' = fst m /\
    tkeq (fst (snd m)) (fst (snd m')) = true /\ tkeq (snd (snd m)) (snd (snd m')) = true.
Proof.
  induction ms as [|[n [k v]] r IH]; intros [|[n' [k' v']] r'] H; cbn in H; try discriminate H.
  - split; [reflexivity|]. intros m [].
  - apply andb_true_iff in H. destruct H as [H H4]. apply andb_true_iff in H. destruct H as [H H3].
    apply andb_true_iff in H. destruct H as [H1 H2]. apply str_eqb_eq in H1. subst n'.
    destruct (IH r' H4) as [Hn Hm]. split; [cbn; congruence|].
    intros m [<-|Hin].
    + exists (n, (k', v')). cbn. auto.
    + destruct (Hm m Hin) as (m' & Hin' & Hrest). exists m'. split; [right; exact Hin'|exact Hrest].
Qed.

Section Keq.
  Variable rx : str -> str -> bool.
  Notation A := (asg rx true).

  Lemma subset_in a b s : subset_str a b = true -> In s a -> In s b.
  Proof. unfold subset_str. rewrite forallb_forall. intros H Hs. apply mem_str_In. apply H. exact Hs. Qed.

  Theorem tkeq_asg : forall a b, tkeq a b = true -> wf_ty a = true -> wf_ty b = true -> A a b = true.
  Proof.
    induction a using ty_ind'; intros b Hk Wa Wb;
      try (cbn [tkeq] in Hk; apply ty_eqb_eq in Hk; subst b; apply (LatticeOrder.asg_refl rx true); exact Wa);
      destruct b; try (cbn [tkeq] in Hk; apply ty_eqb_eq in Hk; discriminate Hk).
    - (* Enum *) cbn [tkeq] in Hk. apply andb_true_iff in Hk. destruct Hk as [Hk H3]. apply andb_true_iff in Hk.
      destruct Hk as [H1 H2]. apply eqb_prop in H1. subst ci0.
      apply (is_any_false_recv rx true); [reflexivity|]. cbn [recv].
      destruct vs as [|v0 vs]; [reflexivity|]. set (l := v0 :: vs) in *.
      assert (Hne : vs0 <> []).
      { intros ->. pose proof (subset_in l [] v0 H2 (or_introl eq_refl)) as Hf. destruct Hf. }
      apply andb_true_iff. split; [apply andb_true_iff; split|].
      + destruct vs0; [congruence|reflexivity].
      + destruct ci; reflexivity.
      + apply forallb_forall. intros s Hs. unfold l at 1. cbn [enum_inst]. fold l. apply mem_str_In.
        destruct ci; [|exact (subset_in _ _ s H3 Hs)].
        cbn [wf_ty] in Wb. rewrite forallb_forall in Wb. specialize (Wb s Hs). unfold is_lower in Wb.
        apply str_eqb_eq in Wb. rewrite Wb. exact (subset_in _ _ s H3 Hs).
    - (* Pattern *) cbn [tkeq] in Hk. apply andb_true_iff in Hk. destruct Hk as [H2 H3].
      apply (is_any_false_recv rx true); [reflexivity|]. cbn [recv].
      destruct rxs as [|r0 rxs]; [reflexivity|]. set (l := r0 :: rxs) in *.
      assert (Hne : rxs0 <> []).
      { intros ->. pose proof (subset_in l [] r0 H2 (or_introl eq_refl)) as Hf. destruct Hf. }
      apply andb_true_iff. split; [destruct rxs0; [congruence|reflexivity]|exact H3].
    - (* Array *) cbn [tkeq] in Hk. apply andb_true_iff in Hk. destruct Hk as [Hk H3]. apply andb_true_iff in Hk.
      destruct Hk as [H1 H2]. apply Z.eqb_eq in H2, H3. subst. apply (LatticeOrder.mono_array rx true). apply IHa; assumption.
    - (* Hash *) cbn [tkeq] in Hk. apply andb_true_iff in Hk. destruct Hk as [Hk H4]. apply andb_true_iff in Hk.
      destruct Hk as [Hk H3]. apply andb_true_iff in Hk. destruct Hk as [H1 H2]. apply Z.eqb_eq in H3, H4. subst.
      cbn [wf_ty] in Wa, Wb. apply andb_true_iff in Wa, Wb. destruct Wa as [Wa1 Wa2]. destruct Wb as [Wb1 Wb2].
      apply (is_any_false_recv rx true); [reflexivity|]. cbn [recv].
      rewrite (LatticeOrder.size_sub_refl), (IHa1 _ H1 Wa1 Wb1), (IHa2 _ H2 Wa2 Wb2). cbn [andb]. apply orb_true_r.
    - (* Tuple *) rewrite tkeq_tuple in Hk. apply andb_true_iff in Hk. destruct Hk as [Hk H3]. apply andb_true_iff in Hk.
      destruct Hk as [H1 H2]. apply Z.eqb_eq in H2, H3. subst.
      cbn [wf_ty] in Wa, Wb. apply andb_true_iff in Wa, Wb. destruct Wa as [_ Wa]. destruct Wb as [_ Wb].
      rewrite forallb_forall in Wa, Wb. rewrite Forall_forall in H.
      destruct (tklist_nth ts ts0 H1) as [Hlen Hnth].
      apply (is_any_false_recv rx true); [reflexivity|]. cbn [recv]. rewrite LatticeOrder.size_sub_refl. cbn [andb].
      destruct ts as [|t0 ts]; [reflexivity|]. destruct ts0 as [|o0 ts0]; [discriminate Hlen|].
      apply orb_true_iff. right. apply (LatticeOrder.tpairs_pointwise rx true); [exact Hlen|].
      intros i t o Ht Ho. apply (H t (nth_error_In _ _ Ht)); [exact (Hnth i t o Ht Ho)| |].
      + apply Wa. exact (nth_error_In _ _ Ht).
      + apply Wb. exact (nth_error_In _ _ Ho).
    - (* Struct *) rewrite tkeq_struct in Hk. destruct (tkmembers_spec ms ms0 Hk) as [Hnames Hmem].
      cbn [wf_ty] in Wa, Wb. apply andb_true_iff in Wa, Wb. destruct Wa as [Da Wa]. destruct Wb as [Db Wb].
      rewrite forallb_forall in Wa, Wb. rewrite Forall_forall in H.
      assert (Hfind : forall m, In m ms -> exists m', In m' ms0 /\ find_member (fst m) ms0 = Some (snd m') /\
                 tkeq (fst (snd m)) (fst (snd m')) = true /\ tkeq (snd (snd m)) (snd (snd m')) = true).
      { intros m Hm. destruct (Hmem m Hm) as (m' & Hin' & Hn & Hk1 & Hk2). exists m'. split; [exact Hin'|]. split; [|split; assumption].
        rewrite <- Hn. apply (LatticeOrder.struct_self_found ms0 Db m' Hin'). }
      apply (is_any_false_recv rx true); [reflexivity|]. cbn [recv]. apply andb_true_iff. split.
      + apply forallb_forall. intros m Hm. destruct (Hfind m Hm) as (m' & Hin' & Hf & Hk1 & Hk2). rewrite Hf.
        destruct m' as [n' [k' v']]. cbn [fst snd] in *.
        destruct (H m Hm) as [IHk IHv]. specialize (Wa m Hm). specialize (Wb _ Hin'). cbn [fst snd] in Wb.
        apply andb_true_iff in Wa, Wb. destruct Wa as [Ka Va]. destruct Wb as [Kb Vb].
        rewrite (IHk k' Hk1 (key_ok_wf _ _ Ka) (key_ok_wf _ _ Kb)), (IHv v' Hk2 Va Vb). reflexivity.
      + rewrite (LatticeOrder.filter_all).
        * unfold zlen. rewrite <- (map_length fst ms), Hnames, map_length. apply Z.eqb_refl.
        * intros m Hm. destruct (Hfind m Hm) as (m' & _ & Hf & _). rewrite Hf. reflexivity.
    - (* Variant *) cbn [tkeq] in Hk. apply andb_true_iff in Hk. destruct Hk as [_ H2].
      cbn [wf_ty] in Wa, Wb. rewrite forallb_forall in Wa, Wb, H2. rewrite Forall_forall in H.
      rewrite asg_variant_r. apply orb_true_iff. right. apply forallb_forall. intros u Hu.
      specialize (H2 u Hu). apply existsb_exists in H2. destruct H2 as (t & Ht & Htu).
      apply (variant_intro rx true ts t Ht). apply (H t Ht); auto.
    - (* Optional *) cbn [tkeq] in Hk. apply (LatticeOrder.mono_optional rx true). apply IHa; assumption.
    - (* NotUndef *) cbn [tkeq] in Hk. apply (LatticeOrder.mono_notundef rx true). apply IHa; assumption.
    - (* Type *) cbn [tkeq] in Hk. apply (LatticeOrder.mono_type rx true). apply IHa; assumption.
    - (* Sensitive *) cbn [tkeq] in Hk. apply (LatticeOrder.mono_sensitive rx true). apply IHa; assumption.
  Qed.

  (* UniqueTypes keeps, of every member, the member itself or an earlier one with the same hash key *)
  Lemma udedup_from_rep seen l t : In t l ->
    (exists s, In s seen /\ tkeq s t = true) \/ (exists u, In u (udedup_from seen l) /\ (u = t \/ tkeq u t = true)).
  Proof.
    revert seen. induction l as [|y l IH]; intros seen Ht; [destruct Ht|]. cbn [udedup_from].
    destruct (existsb (fun s => tkeq s y) seen) eqn:Es.
    - destruct Ht as [<-|Ht]; [|apply IH; exact Ht].
      left. apply existsb_exists in Es. exact Es.
    - destruct Ht as [<-|Ht]; [right; exists y; split; [left; reflexivity|left; reflexivity]|].
      destruct (IH (seen ++ [y]) Ht) as [(s & Hs & Hst)|(u & Hu & Hut)].
      + apply in_app_or in Hs. destruct Hs as [Hs|[<-|[]]]; [left; eauto|].
        right. exists y. split; [left; reflexivity|right; exact Hst].
      + right. exists u. split; [right; exact Hu|exact Hut].
  Qed.

  Lemma udedup_rep l t : In t l -> exists u, In u (udedup l) /\ (u = t \/ tkeq u t = true).
  Proof.
    intros Ht. destruct l as [|x [|y l]].
    - destruct Ht.
    - exists t. split; [exact Ht|left; reflexivity].
    - cbn [udedup]. destruct (udedup_from_rep [] _ t Ht) as [(s & [] & _)|H]. exact H.
  Qed.

  (* the Variant built from the deduplicated members accepts every member *)
  Lemma mk_variant_udedup_accepts l t : forallb wf_ty l = true -> In t l -> A (mk_variant (udedup l)) t = true.
  Proof.
    intros Hw Ht. rewrite forallb_forall in Hw. destruct (udedup_rep l t Ht) as (u & Hu & Hut).
    assert (Hau : A u t = true).
    { destruct Hut as [->|Hk]; [apply (LatticeOrder.asg_refl rx true); auto|].
      apply tkeq_asg; [exact Hk| |]; apply Hw; [apply udedup_incl; exact Hu|exact Ht]. }
    destruct (udedup l) as [|u0 [|u1 us]] eqn:E.
    - destruct Hu.
    - destruct Hu as [<-|[]]. exact Hau.
    - cbn [mk_variant]. exact (variant_intro rx true _ u Hu t Hau).
  Qed.
End Keq.
