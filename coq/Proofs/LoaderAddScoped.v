(* LoaderAddScoped.v — the call sequence of every px.AddTypes refers only to the context's loader and to type-set
   loaders the same call has created before (`scoped 0 (compile auth ts) = true` for all ts): the second half of the
   domain condition `xop_wf` holds by construction. *)
From Coq Require Import Arith NArith Bool List Lia.
From PcoreV Require Import Model.Base Model.Loader Model.LoaderSpec Model.LoaderAdd.
Import ListNotations.

(* induction over types with their members *)
Section MtypeInd.
  Variable P : mtype -> Prop.
  Hypothesis Hp : forall n v, P (MPlain n v).
  Hypothesis Ho : forall n v a c, P (MObject n v a c).
  Hypothesis Hs : forall n v ms, Forall (fun km => P (snd km)) ms -> P (MSet n v ms).
  Hypothesis Hb : forall n v, P (MBroken n v).

  Fixpoint mtype_ind' (m : mtype) : P m :=
    match m with
    | MPlain n v => Hp n v
    | MObject n v a c => Ho n v a c
    | MSet n v ms =>
      Hs n v ms ((fix go (ms : list (str * mtype)) : Forall (fun km => P (snd km)) ms :=
                    match ms with
                    | [] => Forall_nil _
                    | km :: ms' => Forall_cons km (mtype_ind' (snd km)) (go ms')
                    end) ms)
    | MBroken n v => Hb n v
    end.
End MtypeInd.

Definition nodes (is : list instr) : nat :=
  length (filter (fun i => match i with INode _ _ => true | _ => false end) is).

(* an instruction that creates no loader and refers to loaders below N *)
Definition guard_ok (N : nat) (i : instr) : bool :=
  match i with
  | IAct a => ref_ok N (act_ref a)
  | INode _ _ => false
  | IUnless r _ body => ref_ok N r && forallb (fun a => ref_ok N (act_ref a)) body
  | ICtx _ => false
  end.

Lemma ref_ok_mono c c' r : ref_ok c r = true -> c <= c' -> ref_ok c' r = true.
Proof. destruct r as [|k]; cbn [ref_ok]; [reflexivity|]. rewrite !Nat.ltb_lt. lia. Qed.

Lemma guard_ok_mono N N' i : guard_ok N i = true -> N <= N' -> guard_ok N' i = true.
Proof.
  intros H Hle. destruct i as [a|p ts|r n body|ca]; cbn [guard_ok] in *; try discriminate.
  - eapply ref_ok_mono; eauto.
  - apply andb_prop in H. destruct H as [H1 H2]. rewrite (ref_ok_mono _ _ _ H1 Hle). cbn [andb].
    rewrite forallb_forall in *. intros a Ha. eapply ref_ok_mono; eauto.
Qed.

Lemma guards_mono N N' is : forallb (guard_ok N) is = true -> N <= N' -> forallb (guard_ok N') is = true.
Proof. rewrite !forallb_forall. intros H Hle i Hi. eapply guard_ok_mono; eauto. Qed.

Lemma nodes_app is1 is2 : nodes (is1 ++ is2) = nodes is1 + nodes is2.
Proof. unfold nodes. rewrite filter_app, app_length. reflexivity. Qed.

Lemma scoped_app : forall is1 is2 c, scoped c (is1 ++ is2) = scoped c is1 && scoped (c + nodes is1) is2.
Proof.
  induction is1 as [|i is1 IH]; intros is2 c.
  - cbn [app scoped nodes filter length andb]. rewrite Nat.add_0_r. reflexivity.
  - destruct i as [a|p ts|r n body|ca]; cbn [app scoped]; rewrite IH; unfold nodes; cbn [filter length].
    + rewrite andb_assoc. reflexivity.
    + rewrite andb_assoc. replace (S c + length (filter _ is1)) with (c + S (length (filter (fun i => match i with INode _ _ => true | _ => false end) is1))) by lia.
      reflexivity.
    + rewrite !andb_assoc. reflexivity.
    + rewrite andb_assoc. reflexivity.
Qed.

Lemma guards_scoped : forall is N c, forallb (guard_ok N) is = true -> N <= c -> scoped c is = true.
Proof.
  induction is as [|i is IH]; intros N c H Hle; [reflexivity|].
  cbn [forallb] in H. apply andb_prop in H. destruct H as [Hi H].
  pose proof (guard_ok_mono _ _ _ Hi Hle) as Hi'.
  destruct i as [a|p ts|r n body|ca]; cbn [guard_ok scoped] in *; try discriminate.
  - rewrite Hi'. cbn [andb]. eapply IH; eauto.
  - rewrite Hi'. cbn [andb]. eapply IH; eauto.
Qed.

Lemma guards_nodes : forall is N, forallb (guard_ok N) is = true -> nodes is = 0.
Proof.
  induction is as [|i is IH]; intros N H; [reflexivity|].
  cbn [forallb] in H. apply andb_prop in H. destruct H as [Hi H].
  destruct i as [a|p ts|r n body|ca]; cbn [guard_ok] in Hi; try discriminate; unfold nodes; cbn [filter]; eapply IH; eauto.
Qed.

Section Plan.
  Variable auth : str.

  (* the inner loop of `plan`, by name *)
  Definition plan_list (me : lref) :=
    fix go (nx0 : nat) (ms : list (str * mtype)) {struct ms} : list instr * list instr * nat :=
      match ms with
      | [] => ([], [], nx0)
      | km :: ms' =>
        let '(k1, i1, n1) := plan auth me nx0 (snd km) in
        let '(k2, i2, n2) := go n1 ms' in
        (k1 ++ k2, i1 ++ member_instr auth me (snd km) :: i2, n2)
      end.

  Lemma plan_set h next name v ms :
    plan auth h next (MSet name v ms) =
    let '(ks, is, nx) := plan_list (HH next) (S next) ms in
    (INode h (tset_of auth name ms) :: ICtx (CEnter (HH next)) :: ks ++ [ICtx CLeave], is, nx).
  Proof. reflexivity. Qed.

  Lemma construct_refs N tl name al ct :
    ref_ok N tl = true -> forallb (fun a => ref_ok N (act_ref a)) (construct auth tl name al ct) = true.
  Proof. intros H. unfold construct. destruct al, ct; cbn [app forallb act_ref ref_ok]; rewrite ?H; reflexivity. Qed.

  Lemma member_instr_guard N me m : ref_ok N me = true -> guard_ok N (member_instr auth me m) = true.
  Proof.
    intros H. destruct m as [n v|n v al ct|n v ms|n v]; cbn [member_instr guard_ok forallb act_ref ref_ok andb]; try reflexivity.
    apply construct_refs. exact H.
  Qed.

  Definition plan_ok (m : mtype) : Prop :=
    forall h next ks is nx, plan auth h next m = (ks, is, nx) ->
      nx = next + nodes ks /\ (ref_ok next h = true -> scoped next ks = true) /\ forallb (guard_ok nx) is = true.

  Lemma plan_list_ok : forall ms, Forall (fun km => plan_ok (snd km)) ms ->
    forall me nx0 ks is nx, plan_list me nx0 ms = (ks, is, nx) -> ref_ok nx0 me = true ->
      nx = nx0 + nodes ks /\ scoped nx0 ks = true /\ forallb (guard_ok nx) is = true.
  Proof.
    induction ms as [|km ms IH]; intros Hall me nx0 ks is nx H Hme; cbn [plan_list] in H.
    - injection H as <- <- <-. cbn. split; [lia|]. split; reflexivity.
    - inversion Hall as [|? ? Hkm Hms]; subst.
      destruct (plan auth me nx0 (snd km)) as [[k1 i1] n1] eqn:E1.
      fold (plan_list me) in H.
      destruct (plan_list me n1 ms) as [[k2 i2] n2] eqn:E2.
      injection H as <- <- <-.
      destruct (Hkm me nx0 k1 i1 n1 E1) as (Hn1 & Hs1 & Hg1).
      assert (Hme1 : ref_ok n1 me = true) by (eapply ref_ok_mono; [exact Hme|lia]).
      destruct (IH Hms me n1 k2 i2 n2 E2 Hme1) as (Hn2 & Hs2 & Hg2).
      split; [rewrite nodes_app; lia|]. split.
      + rewrite scoped_app, (Hs1 Hme). cbn [andb]. rewrite <- Hn1. exact Hs2.
      + rewrite forallb_app. rewrite (guards_mono n1 n2 i1 Hg1 ltac:(lia)). cbn [andb forallb].
        rewrite (member_instr_guard n2 me (snd km)) by (eapply ref_ok_mono; [exact Hme1|lia]). exact Hg2.
  Qed.

  Lemma plan_all m : plan_ok m.
  Proof.
    induction m as [n v|n v al ct|n v ms IH|n v] using mtype_ind'; intros h next ks is nx H.
    4: { cbn [plan] in H. injection H as <- <- <-. cbn. split; [lia|]. split; reflexivity. }
    - cbn [plan] in H. injection H as <- <- <-. cbn. split; [lia|]. split; reflexivity.
    - cbn [plan] in H. injection H as <- <- <-. cbn. split; [lia|]. split; reflexivity.
    - rewrite plan_set in H. destruct (plan_list (HH next) (S next) ms) as [[k1 i1] n1] eqn:E.
      injection H as <- <- <-.
      destruct (plan_list_ok ms IH (HH next) (S next) k1 i1 n1 E) as (Hn & Hs & Hg).
      { cbn [ref_ok]. apply Nat.ltb_lt. lia. }
      split; [unfold nodes in *; cbn [filter length]; rewrite filter_app, app_length; cbn [filter length]; lia|]. split; [|exact Hg].
      intros Hh. assert (Hlt : Nat.ltb next (S next) = true) by (apply Nat.ltb_lt; lia).
      cbn [scoped ref_ok]. rewrite Hh, Hlt, scoped_app, Hs. reflexivity.
  Qed.

  Lemma phase1_guards : forall ts, forallb (guard_ok 0) (phase1 auth ts) = true.
  Proof. induction ts as [|[n v|n v al ct|n v ms|n v] ts IH]; cbn [phase1 forallb guard_ok act_ref ref_ok andb]; auto. Qed.

  Lemma phase3_guards : forall ts, forallb (guard_ok 0) (phase3 auth ts) = true.
  Proof. induction ts as [|[n v|n v al ct|n v ms|n v] ts IH]; cbn [phase3 forallb guard_ok act_ref ref_ok andb]; auto. Qed.

  Lemma phase2_ok : forall ts next a b, phase2 auth next ts = (a, b) ->
    scoped next a = true /\ forallb (guard_ok (next + nodes a)) b = true.
  Proof.
    induction ts as [|t ts IH]; intros next a b H; cbn [phase2] in H.
    - injection H as <- <-. cbn. split; reflexivity.
    - destruct t as [n v|n v al ct|n v ms|n v].
      4: { destruct (phase2 auth next ts) as [a1 b1] eqn:E. injection H as <- <-.
           destruct (IH next a1 b1 E) as [Hs Hg].
           split; [cbn [scoped andb]; exact Hs|unfold nodes in *; cbn [filter]; exact Hg]. }
      + eapply IH; eauto.
      + destruct (phase2 auth next ts) as [a1 b1] eqn:E. injection H as <- <-.
        destruct (IH next a1 b1 E) as [Hs Hg].
        assert (Hc : forallb (guard_ok next) (map IAct (construct auth HL n al ct)) = true).
        { rewrite forallb_forall. intros i Hi. apply in_map_iff in Hi. destruct Hi as (x & <- & Hx).
          cbn [guard_ok]. pose proof (construct_refs next HL n al ct eq_refl) as Hr.
          rewrite forallb_forall in Hr. apply Hr. exact Hx. }
        rewrite scoped_app, nodes_app, (guards_nodes _ _ Hc), (guards_scoped _ next next Hc ltac:(lia)).
        cbn [andb]. rewrite !Nat.add_0_r, Nat.add_0_l. split; assumption.
      + destruct (plan auth HL next (MSet n v ms)) as [[ks is] nx] eqn:Ep.
        destruct (phase2 auth nx ts) as [a1 b1] eqn:E. injection H as <- <-.
        destruct (plan_all (MSet n v ms) HL next ks is nx Ep) as (Hn & Hs & Hg).
        destruct (IH nx a1 b1 E) as [Hs1 Hg1].
        rewrite scoped_app, nodes_app, (Hs eq_refl), <- Hn. cbn [andb]. split; [exact Hs1|].
        rewrite forallb_app. replace (next + (nodes ks + nodes a1)) with (nx + nodes a1) by lia.
        rewrite Hg1, andb_true_r. eapply guards_mono; [exact Hg|lia].
  Qed.

  Lemma phase1_all_guards : forall ts, forallb (guard_ok 0) (phase1_all auth ts) = true.
  Proof. induction ts as [|t ts IH]; cbn [phase1_all forallb guard_ok act_ref ref_ok andb]; auto. Qed.

  (* the calls of the declaration route (resolveResolvables) refer to the context's loader and to the type-set
     loaders the same call has made *)
  Theorem compile_decl_scoped ts : scoped 0 (compile_decl auth ts) = true.
  Proof.
    unfold compile_decl. destruct (phase2 auth 0 ts) as [a b] eqn:E. cbn [fst snd].
    destruct (phase2_ok ts 0 a b E) as [Hs Hg]. cbn [Nat.add] in Hg.
    pose proof (phase1_all_guards ts) as H1.
    rewrite scoped_app, (guards_scoped _ 0 0 H1 ltac:(lia)), (guards_nodes _ _ H1). cbn [andb Nat.add].
    rewrite scoped_app, Hs. cbn [andb Nat.add].
    eapply guards_scoped; [exact Hg|lia].
  Qed.

  Theorem compile_scoped ts : scoped 0 (compile auth ts) = true.
  Proof.
    unfold compile. destruct (phase2 auth 0 ts) as [a b] eqn:E. cbn [fst snd].
    destruct (phase2_ok ts 0 a b E) as [Hs Hg]. cbn [Nat.add] in Hg.
    pose proof (phase1_guards ts) as H1. pose proof (phase3_guards ts) as H3.
    rewrite scoped_app, (guards_scoped _ 0 0 H1 ltac:(lia)), (guards_nodes _ _ H1). cbn [andb Nat.add].
    rewrite scoped_app, Hs. cbn [andb Nat.add].
    rewrite scoped_app, (guards_scoped _ _ _ Hg (le_n _)), (guards_nodes _ _ Hg). cbn [andb].
    eapply guards_scoped; [exact H3|lia].
  Qed.
End Plan.
