(* SerEqProofs.v — the structural equality test pv_eqb (Model/SerEq.v) decides equality of pvalue; the boolean
   checkers of the attribute hypotheses are sound; the object-instance theorems of Proofs/SerStructProofs.v at the
   instance veq := pv_eqb without the soundness hypothesis, and - using completeness - what the consumer's second
   trimming keeps (property C10). *)
From Coq Require Import ZArith NArith Bool List Lia.
From PcoreV Require Import Model.Base Model.Ser Model.SerAttrs Model.SerStruct Model.SerEq
  Proofs.SerProofs Proofs.SerDeserProofs Proofs.SerAttrsProofs Proofs.SerStructProofs.
Import ListNotations.
Local Open Scope nat_scope.

(* ---- an induction principle for pvalue that reaches through the lists ---- *)
Section PInd.
Context {payload : Type}.
Notation pvalue := (@pvalue payload).
Variable P : pvalue -> Prop.
Hypothesis Hundef : P PUndef.
Hypothesis Hbool : forall b, P (PBool b).
Hypothesis Hint : forall z, P (PInt z).
Hypothesis Hfloat : forall z, P (PFloat z).
Hypothesis Hstr : forall s, P (PStr s).
Hypothesis Hdefault : P PDefault.
Hypothesis Harr : forall l, Forall P l -> P (PArr l).
Hypothesis Hhash : forall l, Forall (fun kv => P (fst kv) /\ P (snd kv)) l -> P (PHash l).
Hypothesis Hsens : forall v, P v -> P (PSens v).
Hypothesis Hrich : forall tn p, P (PRich tn p).
Hypothesis Hobj : forall ty l, P ty -> Forall (fun kv => P (fst kv) /\ P (snd kv)) l -> P (PObj ty l).

Fixpoint pvalue_ind' (v : pvalue) : P v :=
  match v with
  | PUndef => Hundef
  | PBool b => Hbool b
  | PInt z => Hint z
  | PFloat z => Hfloat z
  | PStr s => Hstr s
  | PDefault => Hdefault
  | PArr l =>
      Harr l ((fix go (l : list pvalue) : Forall P l :=
                 match l with
                 | [] => Forall_nil _
                 | x :: l' => Forall_cons _ (pvalue_ind' x) (go l')
                 end) l)
  | PHash l =>
      Hhash l ((fix go (l : list (pvalue * pvalue)) : Forall (fun kv => P (fst kv) /\ P (snd kv)) l :=
                  match l with
                  | [] => Forall_nil _
                  | kv :: l' => Forall_cons _ (conj (pvalue_ind' (fst kv)) (pvalue_ind' (snd kv))) (go l')
                  end) l)
  | PSens x => Hsens x (pvalue_ind' x)
  | PRich tn p => Hrich tn p
  | PObj ty l =>
      Hobj ty l (pvalue_ind' ty)
        ((fix go (l : list (pvalue * pvalue)) : Forall (fun kv => P (fst kv) /\ P (snd kv)) l :=
            match l with
            | [] => Forall_nil _
            | kv :: l' => Forall_cons _ (conj (pvalue_ind' (fst kv)) (pvalue_ind' (snd kv))) (go l')
            end) l)
  end.
End PInd.

Ltac split_andb :=
  repeat match goal with
         | H : _ && _ = true |- _ => apply andb_prop in H; destruct H
         end.

(* ---- pv_eqb decides equality ---- *)
Section EqbSound.
Context {payload : Type}.
Notation pvalue := (@pvalue payload).
Variable peqb : payload -> payload -> bool.
Hypothesis peqb_sound : forall p q, peqb p q = true -> p = q.

Theorem pv_eqb_sound (a : pvalue) : forall b, pv_eqb peqb a b = true -> a = b.
Proof.
  induction a as [ | x | x | x | x | | xs IH | xs IH | x IH | tn p | ty xs IHty IH ] using pvalue_ind';
    intros b H; destruct b; cbn [pv_eqb] in H; try discriminate.
  - reflexivity.
  - f_equal. now apply Bool.eqb_prop.
  - f_equal. now apply Z.eqb_eq.
  - f_equal. now apply Z.eqb_eq.
  - f_equal. now apply str_eqb_eq.
  - reflexivity.
  - f_equal. revert l H. induction IH as [|x xs Hx _ IHl]; intros [|y ys] Hl; try discriminate; [reflexivity|].
    apply andb_prop in Hl as [H1 H2]. f_equal; [now apply Hx|now apply IHl].
  - f_equal. revert l H. induction IH as [|[k x] xs [Hk Hx] _ IHl]; intros [|[k2 y] ys] Hl; try discriminate;
      [reflexivity|].
    split_andb. cbn [fst snd] in *. f_equal; [|now apply IHl]. f_equal; [now apply Hk|now apply Hx].
  - f_equal. now apply IH.
  - split_andb. f_equal; [now apply str_eqb_eq|now apply peqb_sound].
  - apply andb_prop in H as [Hty Hl]. f_equal; [now apply IHty|].
    revert attrs Hl. induction IH as [|[k x] xs [Hk Hx] _ IHl]; intros [|[k2 y] ys] Hl; try discriminate;
      [reflexivity|].
    split_andb. cbn [fst snd] in *. f_equal; [|now apply IHl]. f_equal; [now apply Hk|now apply Hx].
Qed.
End EqbSound.

Section EqbRefl.
Context {payload : Type}.
Notation pvalue := (@pvalue payload).
Variable peqb : payload -> payload -> bool.
Hypothesis peqb_refl : forall p, peqb p p = true.

Theorem pv_eqb_refl (a : pvalue) : pv_eqb peqb a a = true.
Proof.
  induction a as [ | x | x | x | x | | xs IH | xs IH | x IH | tn p | ty xs IHty IH ] using pvalue_ind';
    cbn [pv_eqb].
  - reflexivity.
  - now destruct x.
  - apply Z.eqb_refl.
  - apply Z.eqb_refl.
  - apply str_eqb_refl.
  - reflexivity.
  - induction IH as [|x xs Hx _ IHl]; [reflexivity|]. now rewrite Hx, IHl.
  - induction IH as [|[k x] xs [Hk Hx] _ IHl]; [reflexivity|]. cbn [fst snd] in *. now rewrite Hk, Hx, IHl.
  - exact IH.
  - now rewrite str_eqb_refl, peqb_refl.
  - rewrite IHty. cbn [andb].
    induction IH as [|[k x] xs [Hk Hx] _ IHl]; [reflexivity|]. cbn [fst snd] in *. now rewrite Hk, Hx, IHl.
Qed.
End EqbRefl.

(* for every payload test that decides equality, pv_eqb decides equality of pvalue *)
Theorem pv_eqb_eq {payload} (peqb : payload -> payload -> bool) :
  (forall p q, peqb p q = true <-> p = q) ->
  forall a b : @pvalue payload, pv_eqb peqb a b = true <-> a = b.
Proof.
  intros Hp a b. split.
  - apply pv_eqb_sound. intros p q. apply Hp.
  - intros ->. apply pv_eqb_refl. intros p. now apply Hp.
Qed.

(* the instance of the correspondence run (payload = the observed serialization string) *)
Theorem pv_eqb_str_eq (a b : @pvalue str) : pv_eqb str_eqb a b = true <-> a = b.
Proof. apply pv_eqb_eq. intros p q. apply str_eqb_eq. Qed.

Theorem list_pv_eqb_str_eq (x y : list (@pvalue str)) : list_eqb (pv_eqb str_eqb) x y = true <-> x = y.
Proof.
  revert y. induction x as [|a x IH]; intros [|b y]; cbn [list_eqb]; split; intros H; try discriminate; auto.
  - apply andb_prop in H as [H1 H2]. f_equal; [now apply pv_eqb_str_eq|now apply IH].
  - inversion H; subst. rewrite (proj2 (pv_eqb_str_eq b b) eq_refl). now apply IH.
Qed.

(* ---- the boolean checkers of the attribute hypotheses are sound ---- *)
Section Checkers.
Context {payload : Type}.
Variable peqb : payload -> payload -> bool.
Hypothesis peqb_sound : forall p q, peqb p q = true -> p = q.

Lemma isdef_soundb_sound (a : attr payload) (d : decl payload) :
  isdef_soundb peqb a d = true -> d_name d = a_name a /\ isdef_sound a d.
Proof.
  unfold isdef_soundb, isdef_sound. intros H. apply andb_prop in H as [Hn Hd]. split; [now apply str_eqb_eq|].
  intros Hf. rewrite Hf in Hd. cbn [negb orb] in Hd.
  destruct (d_default d) as [dv|]; [|discriminate]. f_equal. now apply (pv_eqb_sound peqb peqb_sound).
Qed.

Lemma forallb2_Forall2 {A B} (f : A -> B -> bool) (R : A -> B -> Prop) :
  (forall a b, f a b = true -> R a b) ->
  forall x y, forallb2 f x y = true -> Forall2 R x y.
Proof.
  intros Hf. induction x as [|a x IH]; intros [|b y] H; cbn [forallb2] in H; try discriminate; constructor.
  - apply andb_prop in H as [H1 _]. now apply Hf.
  - apply andb_prop in H as [_ H2]. now apply IH.
Qed.

Lemma nodupb_NoDup (l : list str) : nodupb l = true -> NoDup l.
Proof.
  induction l as [|s l IH]; intros H; cbn [nodupb] in H; constructor.
  - apply andb_prop in H as [H1 _]. intros Hin. apply negb_true_iff in H1.
    assert (Hex : existsb (str_eqb s) l = true) by (apply existsb_exists; exists s; split; [exact Hin|apply str_eqb_refl]).
    congruence.
  - apply andb_prop in H as [_ H2]. now apply IH.
Qed.

Theorem attr_hyps_okb_sound (l : list (attr payload)) (ds : list (decl payload)) :
  attr_hyps_okb peqb l ds = true ->
  Forall2 (fun a d => d_name d = a_name a /\ isdef_sound a d) l ds /\ NoDup (map a_name l).
Proof.
  unfold attr_hyps_okb. intros H. apply andb_prop in H as [H1 H2]. split.
  - revert H1. apply forallb2_Forall2. exact isdef_soundb_sound.
  - now apply nodupb_NoDup.
Qed.
End Checkers.

(* ---- the consumer's Equals is structural equality: what the SECOND trimming keeps, exactly ----
   (completeness of veq is what the converse direction needs: a value equal to the declared default IS recognised) *)
Section Exact.
Context {payload : Type}.
Notation decl := (decl payload).
Variable veq : @pvalue payload -> @pvalue payload -> bool.
Hypothesis veq_eq : forall a b, veq a b = true <-> a = b.

Lemma decl_isdef_iff (d : decl) v : decl_isdef veq d v = true <-> d_default d = Some v.
Proof.
  unfold decl_isdef. destruct (d_default d) as [dv|]; split; intros H; try discriminate.
  - f_equal. now apply veq_eq.
  - inversion H; subst. now apply veq_eq.
Qed.

Lemma drop_defaults_p_head n (rl : list (decl * @pvalue payload)) p rest :
  drop_defaults_p veq n rl = p :: rest ->
  decl_isdef veq (fst p) (snd p) = false \/ length rl - n = S (length rest).
Proof.
  revert rl. induction n as [|n IH]; intros rl H.
  - cbn [drop_defaults_p] in H. right. subst rl. cbn [length]. lia.
  - destruct rl as [|q rl]; cbn [drop_defaults_p] in H; [discriminate|].
    destruct (decl_isdef veq (fst q) (snd q)) eqn:Hq.
    + destruct (IH rl H) as [Hl|Hr]; [now left|right]. cbn [length]. lia.
    + inversion H; subst. now left.
Qed.

Lemma drop_defaults_p_length n (rl : list (decl * @pvalue payload)) :
  length rl - n <= length (drop_defaults_p veq n rl).
Proof.
  revert rl. induction n as [|n IH]; intros rl; cbn [drop_defaults_p]; [lia|].
  destruct rl as [|q rl]; [cbn; lia|]. destruct (decl_isdef veq (fst q) (snd q)).
  - specialize (IH rl). cbn [length]. lia.
  - cbn [length]. lia.
Qed.

(* the positional slice is as short as possible: its last value is at a required position or differs from the
   declared default of its attribute (attributesinfo.go:58-63 stops only there) *)
Theorem trim_p_maximal (req : nat) (ds : list decl) (vs : list (@pvalue payload)) K d v :
  length ds = length vs ->
  rev (drop_defaults_p veq (length vs - req) (rev (combine ds vs))) = K ++ [(d, v)] ->
  req <= length K -> d_default d <> Some v.
Proof.
  intros Hlen HK Hreq Hdef.
  assert (Hr : drop_defaults_p veq (length vs - req) (rev (combine ds vs)) = (d, v) :: rev K).
  { rewrite <- (rev_involutive (drop_defaults_p _ _ _)), HK, rev_app_distr. reflexivity. }
  destruct (drop_defaults_p_head _ _ _ _ Hr) as [Hf|Hl].
  - cbn [fst snd] in Hf. apply decl_isdef_iff in Hdef. congruence.
  - rewrite rev_length, combine_length, Hlen, Nat.min_id, rev_length in Hl. lia.
Qed.

Lemma nth_error_combine_fst {A B} (x : list A) (y : list B) n a b :
  nth_error (combine x y) n = Some (a, b) -> nth_error x n = Some a.
Proof.
  revert y n. induction x as [|a' x IH]; intros [|b' y] [|n] H; cbn in H; try discriminate.
  - now inversion H.
  - cbn. now apply (IH y).
Qed.

Lemma map_snd_last {A B} (K : list (A * B)) ks v :
  map snd K = ks ++ [v] -> exists K0 d, K = K0 ++ [(d, v)] /\ map snd K0 = ks.
Proof.
  destruct K as [|p K'] using rev_ind; intros H.
  - destruct ks; discriminate.
  - rewrite map_app in H. cbn [map] in H. apply app_inj_tail in H as [H1 H2].
    destruct p as [d v']. cbn [snd] in H2. subst v'. now exists K', d.
Qed.

(* the same about trim_p: the attribute at the last position kept declares no default equal to the value *)
Theorem trim_p_last (req : nat) (ds : list decl) (vs ks : list (@pvalue payload)) v d :
  length ds = length vs ->
  trim_p veq req ds vs = ks ++ [v] -> req <= length ks ->
  nth_error ds (length ks) = Some d -> d_default d <> Some v.
Proof.
  intros Hlen Ht Hreq Hd. unfold trim_p in Ht.
  apply map_snd_last in Ht as (K0 & d' & HK & Hks).
  assert (Hsound : forall a b, veq a b = true -> a = b) by (intros a b; apply veq_eq).
  destruct (drop_defaults_p_spec veq (length vs - req) (rev (combine ds vs))) as (dr & Hdr & _ & _).
  assert (Hc : combine ds vs = K0 ++ (d', v) :: rev dr).
  { rewrite <- (rev_involutive (combine ds vs)), Hdr, rev_app_distr, HK, <- app_assoc. reflexivity. }
  assert (Hn : nth_error (combine ds vs) (length K0) = Some (d', v)).
  { rewrite Hc, nth_error_app2 by lia. now rewrite Nat.sub_diag. }
  apply nth_error_combine_fst in Hn.
  assert (HlK : length K0 = length ks) by (now rewrite <- Hks, map_length).
  rewrite HlK in Hn. assert (d' = d) by congruence. subst d'.
  apply (trim_p_maximal req ds vs K0 d v Hlen HK). lia.
Qed.

End Exact.

(* ---- the theorems of SerStructProofs at veq := pv_eqb: no hypothesis on Equals left ---- *)
Section Instance.
Context {payload : Type}.
Variable peqb : payload -> payload -> bool.
Hypothesis peqb_sound : forall p q, peqb p q = true -> p = q.

Theorem init_from_hash_is_fill_eqb (req : nat) (ds : list (decl payload)) given vs :
  fill ds given = Ok vs -> init_from_hash (pv_eqb peqb) req ds given = Ok vs.
Proof. apply init_from_hash_is_fill. exact (pv_eqb_sound peqb peqb_sound). Qed.

Theorem struct_roundtrip_eqb (to_s : str -> payload -> str) (of_s : str -> str -> option payload) :
  (forall tn p, of_s tn (to_s tn p) = Some p) ->
  forall (o : opts) (c : caps) id ty req (l : list (attr payload)) disp (ds : list (decl payload)),
    rich_data o = true ->
    wf_rich (VObjS id ty l disp) -> rt_ok to_s (env_of o c) (VObjS id ty l disp) = true ->
    Forall2 (fun a d => d_name d = a_name a /\ isdef_sound a d) l ds ->
    NoDup (map a_name l) ->
    bind (roundtrip to_s of_s o c (VObjS id ty l disp))
         (fun p => init_from_hash (pv_eqb peqb) req ds (pobj_attrs p))
      = Ok (map (fun a => erase (a_val a)) l).
Proof.
  intros Hinv. apply struct_roundtrip; [exact Hinv|exact (pv_eqb_sound peqb peqb_sound)].
Qed.
End Instance.

(* with a payload test that decides equality the consumer's second trimming is characterised exactly:
   what it cuts off is a suffix of optional attributes whose value IS the declared default ... *)
Section InstanceExact.
Context {payload : Type}.
Variable peqb : payload -> payload -> bool.
Hypothesis peqb_eq : forall p q, peqb p q = true <-> p = q.

Theorem trim_p_prefix_eqb (req : nat) (ds : list (decl payload)) (vs : list (@pvalue payload)) :
  exists K D,
    combine ds vs = K ++ D /\ trim_p (pv_eqb peqb) req ds vs = map snd K /\
    Forall (fun p => d_default (fst p) = Some (snd p)) D /\
    length D <= length vs - req.
Proof.
  assert (Hs : forall a b, pv_eqb peqb a b = true -> a = b) by (intros a b; apply (pv_eqb_eq peqb peqb_eq)).
  destruct (trim_p_prefix (pv_eqb peqb) req ds vs) as (K & D & Hc & Ht & Hall & Hlen).
  exists K, D. repeat split; auto.
  revert Hall. apply Forall_impl. intros p Hp. now apply (decl_isdef_iff (pv_eqb peqb) (pv_eqb_eq peqb peqb_eq)).
Qed.

(* ... and it stops only at a required position or at a value that is NOT the declared default *)
Theorem trim_p_last_eqb (req : nat) (ds : list (decl payload)) (vs ks : list (@pvalue payload)) v d :
  length ds = length vs ->
  trim_p (pv_eqb peqb) req ds vs = ks ++ [v] -> req <= length ks ->
  nth_error ds (length ks) = Some d -> d_default d <> Some v.
Proof. apply trim_p_last. exact (pv_eqb_eq peqb peqb_eq). Qed.
End InstanceExact.

(* every hypothesis a boolean that the correspondence run evaluates on each instance (payload = str):
   struct_check / ser_check of Corr/CorrC10.v compute exactly attr_hyps_okb, wf_richb and rt_ok *)
Theorem struct_roundtrip_checked (o : opts) (c : caps) id ty req (l : list (attr str)) disp (ds : list (decl str)) :
  rich_data o = true ->
  wf_richb (rvalue_eqb str_eqb) (VObjS id ty l disp) = true ->
  rt_ok (fun _ p => p) (env_of o c) (VObjS id ty l disp) = true ->
  attr_hyps_okb str_eqb l ds = true ->
  bind (roundtrip (fun _ p => p) (fun _ s => Some s) o c (VObjS id ty l disp))
       (fun p => init_from_hash (pv_eqb str_eqb) req ds (pobj_attrs p))
    = Ok (map (fun a => erase (a_val a)) l).
Proof.
  intros Hrich Hwf Hrt Hok.
  assert (Hs : forall p q : str, str_eqb p q = true -> p = q) by (intros p q; apply str_eqb_eq).
  destruct (attr_hyps_okb_sound str_eqb Hs l ds Hok) as [Hds Hnd].
  apply (struct_roundtrip_eqb str_eqb Hs (fun _ p => p) (fun _ s => Some s)); auto.
  now apply wf_richb_str_sound.
Qed.

(* the same for the attribute route (values that travel as an instance of their meta type): ser_check + attrs_check *)
Theorem attr_route_roundtrip_checked (o : opts) (c : caps) id ty req (l : list (attr str)) disp (ds : list (decl str)) :
  rich_data o = true ->
  wf_richb (rvalue_eqb str_eqb) (VObjT id ty req l disp) = true ->
  rt_ok (fun _ p => p) (env_of o c) (VObjT id ty req l disp) = true ->
  attr_hyps_okb str_eqb l ds = true ->
  bind (roundtrip (fun _ p => p) (fun _ s => Some s) o c (VObjT id ty req l disp)) (fun p => fill ds (pobj_attrs p))
    = Ok (map (fun a => erase (a_val a)) l).
Proof.
  intros Hrich Hwf Hrt Hok.
  assert (Hs : forall p q : str, str_eqb p q = true -> p = q) by (intros p q; apply str_eqb_eq).
  destruct (attr_hyps_okb_sound str_eqb Hs l ds Hok) as [Hds Hnd].
  apply (attr_route_roundtrip (fun _ p => p) (fun _ s => Some s)); auto.
  now apply wf_richb_str_sound.
Qed.
