(* C13 - no operation blocks for ever: the per-name mutexes of fileBasedLoader.instantiate (filebased.go:252-269)
   are released on every path, also when the instantiator panics (the Unlock is in the deferred function), so

     - whoever holds a mutex is a thread inside the critical section, and such a thread can always move (hinv);
     - a state in which some thread has not finished has an enabled thread (no_deadlock);
     - every enabled step makes the moving thread's remaining work smaller (step_decreases), hence from every
       reachable state some continuation of the schedule finishes every operation (can_complete), and then every
       operation of the program has returned exactly one result (all_results).

   All statements are for every configuration, program (any number of threads) and schedule. *)
From Coq Require Import NArith Arith Bool List Lia.
From PcoreV Require Import Model.Conc Proofs.ConcProofs Proofs.ConcLockProofs.
Import ListNotations.

Local Arguments Nat.eqb : simpl never.
Local Arguments N.eqb : simpl never.

(* ---- whoever holds a mutex is inside the critical section ------------------------------------------------ *)

Definition hinv (st : state) : Prop :=
  forall lk t, held (st_sh st) lk = Some t ->
    exists d n ph, info (t_pc (st_thr st t)) = Some (d, n, lk, ph) /\ holds ph = true.

Lemma hinv_init p : hinv (init p).
Proof. intros lk t H. cbn in H. discriminate. Qed.

Lemma hinv_move st t sh' p' todo' log' evs :
  hinv st ->
  ltrans t (st_sh st) sh' (info (t_pc (st_thr st t))) (info p') evs ->
  hinv (mkSt sh' (upd1 (st_thr st) t (mkT p' todo')) log').
Proof.
  intros Hinv Ht lk t0 Hh. cbn [st_sh st_thr] in *.
  (* what the mover's old pc says about the mutexes it held *)
  assert (Hme : forall lk1, held (st_sh st) lk1 = Some t ->
            exists d n ph, info (t_pc (st_thr st t)) = Some (d, n, lk1, ph) /\ holds ph = true)
    by (intros; now apply Hinv).
  destruct (Nat.eq_dec t0 t) as [->|Hne].
  - (* the mover holds lk afterwards *)
    rewrite upd1_eq. cbn [t_pc].
    inversion Ht as [evs0 Hl Hhe Hnp Hi Hi' | d n lk0 He Hhe Hlm Hi Hi' | d n lk0 He Hl Hfree Hhe Hi Hi'
                    | d n lk0 Hsh He Hi Hi' | d n lk0 He Hl Hen Hhe Hi Hi' | d n lk0 Hl Hhe Hen Hi Hi'
                    | d n lk0 Hl Hhe Hi Hi' | d n lk0 evs0 He Hhe Hl Hnp Hi Hi']; subst; symmetry in Hi.
    + rewrite Hhe in Hh. destruct (Hme _ Hh) as (d & n & ph & Hx & _). congruence.
    + rewrite Hhe in Hh. destruct (Hme _ Hh) as (d1 & n1 & ph & Hx & _). congruence.
    + rewrite Hhe in Hh. destruct (Nat.eq_dec lk lk0) as [->|Hl0].
      * exists d, n, PhLocked. auto.
      * rewrite upd1_neq in Hh by assumption. destruct (Hme _ Hh) as (d1 & n1 & ph & Hx & Hho).
        rewrite Hi in Hx. inversion Hx; subst. discriminate.
    + destruct (Hme _ Hh) as (d1 & n1 & ph & Hx & Hho). rewrite Hi in Hx. inversion Hx; subst.
      exists d1, n1, PhChecked. auto.
    + rewrite Hhe in Hh. destruct (Nat.eq_dec lk lk0) as [->|Hl0].
      * rewrite upd1_eq in Hh. discriminate.
      * rewrite upd1_neq in Hh by assumption. destruct (Hme _ Hh) as (d1 & n1 & ph & Hx & Hho).
        rewrite Hi in Hx. inversion Hx; subst. congruence.
    + rewrite Hhe in Hh. destruct (Hme _ Hh) as (d1 & n1 & ph & Hx & Hho). rewrite Hi in Hx. inversion Hx; subst.
      exists d1, n1, PhMarked. auto.
    + rewrite Hhe in Hh. destruct (Nat.eq_dec lk lk0) as [->|Hl0].
      * rewrite upd1_eq in Hh. discriminate.
      * rewrite upd1_neq in Hh by assumption. destruct (Hme _ Hh) as (d1 & n1 & ph & Hx & Hho).
        rewrite Hi in Hx. inversion Hx; subst. congruence.
    + rewrite Hhe in Hh. destruct (Hme _ Hh) as (d1 & n1 & ph & Hx & Hho). rewrite Hi in Hx. inversion Hx; subst.
      discriminate.
  - (* another thread holds lk afterwards: it held it before, and its pc is unchanged *)
    rewrite upd1_neq by assumption. apply Hinv.
    inversion Ht as [evs0 Hl Hhe Hnp Hi Hi' | d n lk0 He Hhe Hlm Hi Hi' | d n lk0 He Hl Hfree Hhe Hi Hi'
                    | d n lk0 Hsh He Hi Hi' | d n lk0 He Hl Hen Hhe Hi Hi' | d n lk0 Hl Hhe Hen Hi Hi'
                    | d n lk0 Hl Hhe Hi Hi' | d n lk0 evs0 He Hhe Hl Hnp Hi Hi']; subst;
      try (rewrite Hhe in Hh; exact Hh); try exact Hh;
      (rewrite Hhe in Hh; destruct (Nat.eq_dec lk lk0) as [->|Hl0];
       [rewrite upd1_eq in Hh; congruence | rewrite upd1_neq in Hh by assumption; exact Hh]).
Qed.

Lemma hinv_step cfg st t : hinv st -> hinv (step cfg st t).
Proof.
  intros Hh. destruct (step_cases cfg st t) as [He | (sh' & p' & todo' & evs & Hm & He)]; rewrite He; auto.
  destruct Hm as [(Hpc & o & Ht & Hs) | (Hpc & _ & Hs)].
  - eapply hinv_move; eauto. rewrite Hpc. cbn [info]. eapply start_ltrans; eauto.
  - eapply hinv_move; eauto. eapply seg_ltrans; eauto.
Qed.

Lemma hinv_exec cfg p s : hinv (exec cfg p s).
Proof. apply exec_inv; [apply hinv_init | intros; now apply hinv_step]. Qed.

(* ---- threads outside the program never do anything --------------------------------------------------------- *)

Definition outside_idle (k : nat) (st : state) : Prop :=
  forall t, k <= t -> st_thr st t = mkT PIdle [].

Lemma outside_init p : outside_idle (length p) (init p).
Proof. intros t Ht. cbn. now rewrite nth_overflow. Qed.

Lemma outside_step cfg k st t : outside_idle k st -> outside_idle k (step cfg st t).
Proof.
  intros Ho t0 Ht0. destruct (le_lt_dec k t) as [Hge|Hlt].
  - assert (Hs : step cfg st t = st) by (unfold step; now rewrite (Ho t Hge)). rewrite Hs. auto.
  - destruct (step_cases cfg st t) as [He | (sh' & p' & todo' & evs & _ & He)]; rewrite He; auto.
    cbn [st_thr]. rewrite upd1_neq by lia. auto.
Qed.

(* ---- a thread that cannot move has finished or waits for a mutex that somebody holds ----------------------- *)

Lemma not_enabled cfg st t :
  enabled cfg st t = false ->
  (t_pc (st_thr st t) = PIdle /\ t_todo (st_thr st t) = []) \/
  exists l n d lk rest t', t_pc (st_thr st t) = PBeforeLock l n d lk rest /\ held (st_sh st) lk = Some t'.
Proof.
  unfold enabled. destruct (t_pc (st_thr st t)) eqn:Hpc; cbn [seg].
  - destruct (t_todo (st_thr st t)); [auto | discriminate].
  - discriminate.
  - discriminate.
  - destruct (file_of cfg d n); [destruct (lockmap (st_sh st) d n)|]; discriminate.
  - discriminate.
  - destruct (held (st_sh st) lk) as [t'|] eqn:Hh; [|discriminate]. intros _. right. do 6 eexists. eauto.
  - destruct (get (st_sh st) d n); discriminate.
  - discriminate.
  - destruct (file_of cfg d n); [destruct (file_bad cfg d n); [discriminate|]|discriminate].
    destruct (set_entry (st_sh st) d n (Some v)) as [sh1 [r1|]]; discriminate.
  - destruct r; discriminate.
Qed.

(* a thread inside the critical section can move *)
Lemma holder_enabled cfg st t d n lk ph :
  info (t_pc (st_thr st t)) = Some (d, n, lk, ph) -> holds ph = true -> enabled cfg st t = true.
Proof.
  unfold enabled. destruct (t_pc (st_thr st t)); cbn [info seg]; intros Hi Hh; inversion Hi; subst; try discriminate.
  - destruct (get (st_sh st) d n); reflexivity.
  - reflexivity.
  - destruct (file_of cfg d n); [destruct (file_bad cfg d n); [reflexivity|]|reflexivity].
    destruct (set_entry (st_sh st) d n (Some v)) as [sh1 [r1|]]; reflexivity.
Qed.

Lemma all_done_false st k :
  all_done st k = false -> exists t, t < k /\ ~ (t_pc (st_thr st t) = PIdle /\ t_todo (st_thr st t) = []).
Proof.
  induction k as [|k IH]; cbn [all_done]; [discriminate|]. intros H.
  apply andb_false_iff in H. destruct H as [H|H].
  - exists k. split; [lia|]. intros [Hp Ht]. rewrite Hp, Ht in H. discriminate.
  - destruct (IH H) as (t & Hlt & Hn). exists t. split; [lia|auto].
Qed.

Lemma all_done_true st k :
  all_done st k = true -> forall t, t < k -> t_pc (st_thr st t) = PIdle /\ t_todo (st_thr st t) = [].
Proof.
  induction k as [|k IH]; cbn [all_done]; intros H t Ht; [lia|].
  apply andb_true_iff in H. destruct H as [H1 H2].
  destruct (Nat.eq_dec t k) as [->|Hne]; [|apply IH; auto; lia].
  destruct (t_pc (st_thr st k)); try discriminate. destruct (t_todo (st_thr st k)); try discriminate. auto.
Qed.

(* no deadlock: while some thread of the program has not finished, some thread of the program can move *)
Lemma no_deadlock_st cfg k st :
  hinv st -> outside_idle k st -> all_done st k = false -> exists t, t < k /\ enabled cfg st t = true.
Proof.
  intros Hh Ho Hnd. destruct (all_done_false _ _ Hnd) as (t & Hlt & Hn).
  destruct (enabled cfg st t) eqn:He; [eauto|].
  destruct (not_enabled _ _ _ He) as [Hfin | (l & n & d & lk & rest & t' & Hpc & Hheld)]; [contradiction|].
  destruct (Hh _ _ Hheld) as (d1 & n1 & ph & Hi & Hho).
  exists t'. split; [|eapply holder_enabled; eauto].
  destruct (le_lt_dec k t') as [Hge|]; [|assumption].
  rewrite (Ho _ Hge) in Hi. discriminate.
Qed.

Lemma no_deadlock cfg p s :
  all_done (exec cfg p s) (length p) = false ->
  exists t, t < length p /\ enabled cfg (exec cfg p s) t = true.
Proof.
  apply no_deadlock_st; [apply hinv_exec|].
  apply (exec_inv (outside_idle (length p))); [apply outside_init | intros; now apply outside_step].
Qed.

(* a thread that waits for a mutex waits for a thread that can move *)
Lemma waits_for_a_running_thread cfg p s t l n d lk rest :
  t_pc (st_thr (exec cfg p s) t) = PBeforeLock l n d lk rest -> enabled cfg (exec cfg p s) t = false ->
  exists t', held (st_sh (exec cfg p s)) lk = Some t' /\ t' <> t /\ enabled cfg (exec cfg p s) t' = true.
Proof.
  intros Hpc He. destruct (not_enabled _ _ _ He) as [[Hx _] | (l0 & n0 & d0 & lk0 & rest0 & t' & Hpc' & Hheld)]; [congruence|].
  rewrite Hpc in Hpc'. inversion Hpc'; subst.
  destruct (hinv_exec cfg p s _ _ Hheld) as (d1 & n1 & ph & Hi & Hho).
  exists t'. split; [assumption|split; [|eapply holder_enabled; eauto]].
  intros ->. rewrite Hpc in Hi. cbn in Hi. inversion Hi; subst. discriminate.
Qed.

(* ---- every enabled step makes the remaining work smaller ---------------------------------------------------- *)

Definition rank (p : pc) : nat :=
  match p with
  | PIdle => 0
  | PAfterLookup _ _ => 1
  | PBetween _ _ _ rest => 10 * length rest + 11
  | PBeforeFind _ _ _ rest => 10 * length rest + 10
  | PBeforeSet _ _ _ rest => 10 * length rest + 9
  | PBeforeLock _ _ _ _ rest => 10 * length rest + 9
  | PLocked _ _ _ _ rest => 10 * length rest + 8
  | PChecked _ _ _ _ rest => 10 * length rest + 7
  | PMarked _ _ _ _ rest => 10 * length rest + 6
  | PUnlocked _ _ _ _ _ rest => 10 * length rest + 5
  end.

Definition opw (cfg : config) (o : op) : nat :=
  match o with
  | OLoad l _ => 10 * length (chain cfg l) + 2
  | _ => 1
  end.

Fixpoint todow (cfg : config) (os : list op) : nat :=
  match os with [] => 0 | o :: os' => opw cfg o + todow cfg os' end.

Definition tm (cfg : config) (th : thread) : nat := rank (t_pc th) + todow cfg (t_todo th).

Lemma finish_load_rank t l n e : rank (fst (finish_load t l n e)) <= 1.
Proof. destruct e; cbn; lia. Qed.

Lemma next_level_rank t l n e rest : rank (fst (next_level t l n e rest)) <= 10 * length rest + 1.
Proof.
  unfold next_level. destruct e; try (pose proof (finish_load_rank t l n (RdVal v)); lia);
    (destruct rest as [|d rest']; [match goal with |- context [finish_load ?a ?b ?c ?e] => pose proof (finish_load_rank a b c e) end; lia
                                  | cbn; lia]).
Qed.

Lemma after_read_rank cfg t l n d e rest : rank (fst (after_read cfg t l n d e rest)) <= 10 * length rest + 10.
Proof.
  unfold after_read. pose proof (next_level_rank t l n e rest) as Hn.
  destruct (is_file cfg d); [|lia]. destruct e; try lia. cbn. lia.
Qed.

Lemma seg_rank cfg sh t p sh' p' evs :
  seg cfg sh t p = Some (sh', (p', evs)) -> rank p' < rank p.
Proof.
  intros Hs. destruct p; cbn [seg] in Hs.
  - discriminate.
  - injection Hs as _ Hx. destruct (pair_eq_inv _ _ _ Hx) as [-> _].
    pose proof (after_read_rank cfg t l n d (get sh d n) rest). cbn [rank]. lia.
  - injection Hs as _ <- _. cbn. lia.
  - destruct (file_of cfg d n); [destruct (lockmap sh d n)|]; injection Hs as _ <- _; cbn; lia.
  - injection Hs as _ Hx.
    assert (Hx' : next_level t l n RdHole rest = (p', evs)) by exact Hx.
    destruct (pair_eq_inv _ _ _ Hx') as [-> _]. pose proof (next_level_rank t l n RdHole rest). cbn [rank]. lia.
  - destruct (held sh lk); [discriminate|]. injection Hs as _ <- _. cbn. lia.
  - destruct (get sh d n); injection Hs as _ <- _; cbn; lia.
  - injection Hs as _ <- _. cbn. lia.
  - destruct (file_of cfg d n); [destruct (file_bad cfg d n)|].
    + injection Hs as _ <- _. cbn. lia.
    + destruct (set_entry sh d n (Some v)) as [sh1 [r1|]]; injection Hs as _ <- _; cbn; lia.
    + injection Hs as _ <- _. cbn. lia.
  - destruct r as [e|].
    + injection Hs as _ Hx. destruct (pair_eq_inv _ _ _ Hx) as [-> _].
      pose proof (next_level_rank t l n e rest). cbn [rank]. lia.
    + injection Hs as _ <- _. cbn. lia.
Qed.

Lemma start_rank cfg sh t o sh' p' evs :
  start cfg sh t o = (sh', (p', evs)) -> rank p' < opw cfg o.
Proof.
  intros Hs. destruct o; cbn [start] in Hs; cbn [opw].
  - destruct (chain cfg l) as [|d0 rest] eqn:Hc.
    + injection Hs as _ <- _. cbn. lia.
    + injection Hs as _ Hx. destruct (pair_eq_inv _ _ _ Hx) as [-> _].
      pose proof (after_read_rank cfg t l n d0 (get sh d0 n) rest). cbn [length]. lia.
  - destruct (set_entry sh l n (Some v)) as [sh1 [[r1|]|]]; injection Hs as _ <- _; cbn; lia.
  - injection Hs as _ <- _. cbn. lia.
Qed.

Lemma step_decreases cfg st t :
  enabled cfg st t = true ->
  tm cfg (st_thr (step cfg st t) t) < tm cfg (st_thr st t) /\
  forall t', t' <> t -> st_thr (step cfg st t) t' = st_thr st t'.
Proof.
  intros Hen. unfold enabled in Hen.
  destruct (step_cases cfg st t) as [He | (sh' & p' & todo' & evs & Hm & He)].
  - (* the step did nothing: impossible for an enabled thread *)
    exfalso. unfold step in He.
    destruct (t_pc (st_thr st t)) eqn:Hpc.
    1: { destruct (t_todo (st_thr st t)) as [|o todo] eqn:Htd; [discriminate|].
         destruct (start cfg (st_sh st) t o) as [sh1 [p1 evs1]].
         assert (Hx : st_thr (mkSt sh1 (upd1 (st_thr st) t (mkT p1 todo)) (st_log st ++ evs1)) t = st_thr st t) by (rewrite He; reflexivity).
         cbn in Hx. rewrite upd1_eq in Hx. rewrite <- Hx in Htd. cbn in Htd.
         assert (Hl : length todo = length (o :: todo)) by (rewrite Htd at 1; reflexivity). cbn in Hl. lia. }
    all: match type of He with context [seg ?c ?s ?u ?q] => destruct (seg c s u q) as [[sh1 [p1 evs1]]|] eqn:Hs end; try discriminate;
      pose proof (seg_rank _ _ _ _ _ _ _ Hs) as Hr;
      assert (Hx : t_pc (st_thr (mkSt sh1 (upd1 (st_thr st) t (mkT p1 (t_todo (st_thr st t)))) (st_log st ++ evs1)) t) = t_pc (st_thr st t))
        by (rewrite He; reflexivity);
      cbn in Hx; rewrite upd1_eq in Hx; cbn in Hx; rewrite Hpc in Hx; rewrite Hx in Hr; lia.
  - rewrite He. cbn [st_thr]. split; [|intros t' Hne; now rewrite upd1_neq].
    rewrite upd1_eq. unfold tm. cbn [t_pc t_todo].
    destruct Hm as [(Hpc & o & Ht & Hs) | (Hpc & -> & Hs)].
    + rewrite Hpc, Ht. cbn [rank todow]. pose proof (start_rank _ _ _ _ _ _ _ Hs). lia.
    + pose proof (seg_rank _ _ _ _ _ _ _ Hs). lia.
Qed.

Fixpoint total (cfg : config) (st : state) (k : nat) : nat :=
  match k with 0 => 0 | S k' => tm cfg (st_thr st k') + total cfg st k' end.

Lemma total_same cfg st st' k :
  (forall t, t < k -> st_thr st' t = st_thr st t) -> total cfg st' k = total cfg st k.
Proof.
  induction k as [|k IH]; intros H; cbn [total]; [reflexivity|].
  rewrite H by lia. rewrite IH; [reflexivity|]. intros; apply H; lia.
Qed.

Lemma total_decreases cfg st t k :
  t < k -> enabled cfg st t = true -> total cfg (step cfg st t) k < total cfg st k.
Proof.
  intros Hlt Hen. destruct (step_decreases _ _ _ Hen) as [Hd Hsame].
  induction k as [|k IH]; [lia|]. cbn [total].
  destruct (Nat.eq_dec t k) as [->|Hne].
  - rewrite (total_same cfg st (step cfg st k) k); [lia|]. intros t' Ht'. apply Hsame. lia.
  - rewrite Hsame by auto. assert (t < k) by lia. specialize (IH H). lia.
Qed.

(* from every state that a schedule can reach, some continuation finishes every operation *)
Lemma can_complete_st cfg k : forall m st,
  hinv st -> outside_idle k st -> total cfg st k <= m ->
  exists s', all_done (fold_left (step cfg) s' st) k = true.
Proof.
  induction m as [|m IH]; intros st Hh Ho Hm.
  - destruct (all_done st k) eqn:Hd; [exists []; exact Hd|].
    destruct (no_deadlock_st cfg k st Hh Ho Hd) as (t & Hlt & Hen).
    pose proof (total_decreases cfg st t k Hlt Hen). lia.
  - destruct (all_done st k) eqn:Hd; [exists []; exact Hd|].
    destruct (no_deadlock_st cfg k st Hh Ho Hd) as (t & Hlt & Hen).
    pose proof (total_decreases cfg st t k Hlt Hen) as Hdec.
    destruct (IH (step cfg st t)) as [s' Hs'].
    + now apply hinv_step.
    + now apply outside_step.
    + lia.
    + exists (t :: s'). exact Hs'.
Qed.

Lemma can_complete cfg p s :
  exists s', all_done (exec cfg p (s ++ s')) (length p) = true.
Proof.
  destruct (can_complete_st cfg (length p) (total cfg (exec cfg p s) (length p)) (exec cfg p s)) as [s' Hs'].
  - apply hinv_exec.
  - apply (exec_inv (outside_idle (length p))); [apply outside_init | intros; now apply outside_step].
  - lia.
  - exists s'. unfold exec in *. now rewrite fold_left_app.
Qed.

(* ---- ... and then every operation has returned exactly one result ----------------------------------------- *)

Lemma results_of_app t a b : results_of t (a ++ b) = results_of t a ++ results_of t b.
Proof.
  induction a as [|e a IH]; cbn [app results_of]; [reflexivity|].
  destruct e; [destruct (Nat.eqb t0 t); cbn; now rewrite IH | exact IH].
Qed.

(* what a move emits: one result of the moving thread when the operation ends (the thread is idle again), none otherwise *)
Definition emits (t : tid) (p' : pc) (evs : list event) : Prop :=
  (forall t', t' <> t -> results_of t' evs = []) /\
  ((p' = PIdle /\ length (results_of t evs) = 1) \/ (p' <> PIdle /\ results_of t evs = [])).

Lemma fin_emits t o r : emits t (fst (fin t o r)) (snd (fin t o r)).
Proof.
  unfold fin. cbn [fst snd]. split.
  - intros t' Hne. cbn [results_of]. destruct (Nat.eqb_spec t t'); [congruence|reflexivity].
  - left. cbn [results_of]. rewrite Nat.eqb_refl. auto.
Qed.

Lemma silent_emits t p' : p' <> PIdle -> emits t p' [].
Proof. intros H. split; [reflexivity|right; auto]. Qed.

Lemma finish_load_emits t l n e : emits t (fst (finish_load t l n e)) (snd (finish_load t l n e)).
Proof. unfold finish_load. destruct e; [apply silent_emits; discriminate | apply fin_emits ..]. Qed.

Lemma next_level_emits t l n e rest : emits t (fst (next_level t l n e rest)) (snd (next_level t l n e rest)).
Proof.
  unfold next_level. destruct e; try apply finish_load_emits;
    (destruct rest; [apply finish_load_emits | apply silent_emits; discriminate]).
Qed.

Lemma after_read_emits cfg t l n d e rest :
  emits t (fst (after_read cfg t l n d e rest)) (snd (after_read cfg t l n d e rest)).
Proof.
  unfold after_read. destruct (is_file cfg d); [|apply next_level_emits].
  destruct e; try apply next_level_emits. apply silent_emits; discriminate.
Qed.

Lemma parse_emits t p' d n : p' <> PIdle -> emits t p' [EvParse t d n].
Proof. intros H. split; [reflexivity|right; auto]. Qed.

Lemma seg_emits cfg sh t p sh' p' evs :
  seg cfg sh t p = Some (sh', (p', evs)) -> emits t p' evs.
Proof.
  intros Hs. destruct p; cbn [seg] in Hs.
  - discriminate.
  - injection Hs as _ Hx. destruct (pair_eq_inv _ _ _ Hx) as [-> ->]. apply after_read_emits.
  - injection Hs as _ <- <-. apply (fin_emits t (OLoad l n) (RFound None)).
  - destruct (file_of cfg d n); [destruct (lockmap sh d n)|]; injection Hs as _ <- <-; apply silent_emits; discriminate.
  - injection Hs as _ Hx.
    assert (Hx' : next_level t l n RdHole rest = (p', evs)) by exact Hx.
    destruct (pair_eq_inv _ _ _ Hx') as [-> ->]. apply next_level_emits.
  - destruct (held sh lk); [discriminate|]. injection Hs as _ <- <-. apply silent_emits; discriminate.
  - destruct (get sh d n); injection Hs as _ <- <-; apply silent_emits; discriminate.
  - injection Hs as _ <- <-. apply silent_emits; discriminate.
  - destruct (file_of cfg d n); [destruct (file_bad cfg d n)|].
    + injection Hs as _ <- <-. apply parse_emits; discriminate.
    + destruct (set_entry sh d n (Some v)) as [sh1 [r1|]]; injection Hs as _ <- <-; apply parse_emits; discriminate.
    + injection Hs as _ <- <-. apply parse_emits; discriminate.
  - destruct r as [e|].
    + injection Hs as _ Hx. destruct (pair_eq_inv _ _ _ Hx) as [-> ->]. apply next_level_emits.
    + injection Hs as _ <- <-. apply (fin_emits t (OLoad l n)).
Qed.

Lemma start_emits cfg sh t o sh' p' evs :
  start cfg sh t o = (sh', (p', evs)) -> emits t p' evs.
Proof.
  intros Hs. destruct o; cbn [start] in Hs.
  - destruct (chain cfg l) as [|d0 rest].
    + injection Hs as _ <- <-. apply (fin_emits t (OLoad l n) RFault).
    + injection Hs as _ Hx. destruct (pair_eq_inv _ _ _ Hx) as [-> ->]. apply after_read_emits.
  - destruct (set_entry sh l n (Some v)) as [sh1 [[r1|]|]]; injection Hs as _ <- <-; apply (fin_emits t (ODefine l n v)).
  - injection Hs as _ <- <-. apply (fin_emits t (OHas l n)).
Qed.

(* results so far + the operation in progress + the operations to come = the thread's program *)
Definition busy (p : pc) : nat := match p with PIdle => 0 | _ => 1 end.

Definition counted (p : prog) (st : state) : Prop :=
  forall t, length (results_of t (st_log st)) + busy (t_pc (st_thr st t)) + length (t_todo (st_thr st t))
            = length (nth t p []).

Lemma counted_init p : counted p (init p).
Proof. intros t. cbn. lia. Qed.

Lemma busy_not_idle p : p <> PIdle -> busy p = 1.
Proof. destruct p; cbn; congruence. Qed.

Lemma counted_step cfg p st t : counted p st -> counted p (step cfg st t).
Proof.
  intros Hc. destruct (step_cases cfg st t) as [He | (sh' & p' & todo' & evs & Hm & He)]; rewrite He; auto.
  assert (Hem : emits t p' evs).
  { destruct Hm as [(_ & o & _ & Hs) | (_ & _ & Hs)]; [eapply start_emits | eapply seg_emits]; eauto. }
  destruct Hem as [Hoth Hmine].
  intros t0. cbn [st_log st_thr]. rewrite results_of_app, app_length.
  destruct (Nat.eq_dec t0 t) as [->|Hne].
  - rewrite upd1_eq. cbn [t_pc t_todo]. specialize (Hc t).
    destruct Hm as [(Hpc & o & Ht & _) | (Hpc & -> & _)].
    + rewrite Hpc, Ht in Hc. cbn [busy length] in Hc.
      destruct Hmine as [[-> Hl] | [Hp' ->]]; [cbn [busy]; lia | rewrite (busy_not_idle _ Hp'); cbn [length]; lia].
    + rewrite (busy_not_idle _ Hpc) in Hc.
      destruct Hmine as [[-> Hl] | [Hp' ->]]; [cbn [busy]; lia | rewrite (busy_not_idle _ Hp'); cbn [length]; lia].
  - rewrite upd1_neq by assumption. rewrite (Hoth t0 Hne). cbn [length]. specialize (Hc t0). lia.
Qed.

Lemma all_results cfg p s :
  all_done (exec cfg p s) (length p) = true ->
  forall t, length (results_of t (trace cfg p s)) = length (nth t p []).
Proof.
  intros Hd t.
  assert (Hc : counted p (exec cfg p s)) by (apply exec_inv; [apply counted_init | intros; now apply counted_step]).
  specialize (Hc t). unfold trace.
  destruct (le_lt_dec (length p) t) as [Hge|Hlt].
  - assert (Ho : outside_idle (length p) (exec cfg p s))
      by (apply (exec_inv (outside_idle (length p))); [apply outside_init | intros; now apply outside_step]).
    rewrite (Ho t Hge) in Hc. cbn in Hc. lia.
  - destruct (all_done_true _ _ Hd t Hlt) as [Hp Ht]. rewrite Hp, Ht in Hc. cbn in Hc. lia.
Qed.
