(* JsonTextProofs.v - the tokenizer of Model/JsonText.v inverts the byte-level writer:
   lex (bytes written for e) = tokens written for e (Model/Json.v), for EVERY event tree; hence every token-level
   theorem of C11 (validity, events round trip, collector round trip) holds of the BYTES of the text. *)
From Coq Require Import ZArith NArith Bool List Lia Decimal DecimalZ DecimalPos DecimalN.
From PcoreV Require Import Model.Base Model.Json Model.JsonStr Model.JsonText Model.Pb.
From PcoreV Require Import Model.JsonSer Proofs.JsonProofs Proofs.JsonStrProofs Proofs.PbProofs Proofs.JsonSerProofs.
Import ListNotations.
Local Open Scope N_scope.

(* ---------------------------------------------------------------------------------------------- *)
(* 1. integers in decimal *)

Lemma bytes_uint_bytes u : bytes_uint (uint_bytes u) = Some u.
Proof. induction u as [|u IH|u IH|u IH|u IH|u IH|u IH|u IH|u IH|u IH|u IH];
  cbn [uint_bytes bytes_uint]; try reflexivity; rewrite IH; reflexivity. Qed.

Lemma uint_bytes_digits u : forallb is_digit (uint_bytes u) = true.
Proof. induction u as [|u IH|u IH|u IH|u IH|u IH|u IH|u IH|u IH|u IH|u IH];
  cbn [uint_bytes forallb]; try reflexivity; rewrite IH; reflexivity. Qed.

Lemma is_digit_numchar c : is_digit c = true -> numchar c = true.
Proof. intros H. unfold numchar. rewrite H. reflexivity. Qed.

Lemma is_digit_not_minus c : is_digit c = true -> (c =? 45) = false.
Proof.
  unfold is_digit, in_rng. intros H. apply andb_prop in H as [H1 H2].
  apply N.leb_le in H1. apply N.eqb_neq. lia.
Qed.

Lemma digits_numchars t : forallb is_digit t = true -> forallb numchar t = true.
Proof.
  induction t as [|c t IH]; intros H; [reflexivity|].
  cbn [forallb] in *. apply andb_prop in H as [Hc Ht]. rewrite (is_digit_numchar c Hc), (IH Ht). reflexivity.
Qed.

Lemma drop_digits_all t : forallb is_digit t = true -> drop_digits t = [].
Proof.
  induction t as [|c t IH]; intros H; [reflexivity|].
  cbn [forallb] in H. apply andb_prop in H as [Hc Ht]. cbn [drop_digits]. rewrite Hc. exact (IH Ht).
Qed.

(* a canonical decimal numeral: "0" or no leading zero *)
Definition head_ok (u : uint) : Prop :=
  match u with Nil => False | D0 Nil => True | D0 _ => False | _ => True end.

Lemma nzhead_shape u : match nzhead u with D0 _ => False | _ => True end.
Proof. induction u; cbn [nzhead]; auto. Qed.

Lemma unorm_head u : head_ok (unorm u).
Proof.
  unfold unorm. pose proof (nzhead_shape u) as H.
  destruct (nzhead u); cbn [head_ok]; try exact I; try contradiction.
Qed.

Lemma to_uint_head p : head_ok (Pos.to_uint p).
Proof.
  pose proof (DecimalPos.Unsigned.to_of (Pos.to_uint p)) as H.
  rewrite DecimalPos.Unsigned.of_to in H. cbn [N.to_uint] in H. rewrite H. apply unorm_head.
Qed.

Lemma head_ok_nonnil u : head_ok u -> exists c r, uint_bytes u = c :: r /\ is_digit c = true.
Proof.
  destruct u; cbn [head_ok uint_bytes]; intros H; try contradiction; eexists; eexists; split; reflexivity.
Qed.

Lemma num_int_uint u : head_ok u -> num_int (uint_bytes u) = true.
Proof.
  destruct u as [|u|u|u|u|u|u|u|u|u|u]; cbn [head_ok]; intros H; try contradiction;
    try (cbn [uint_bytes]; unfold num_int; cbn [N.eqb Pos.eqb in_rng N.leb N.compare Pos.compare Pos.compare_cont andb];
         rewrite (drop_digits_all _ (uint_bytes_digits u)); reflexivity).
  destruct u; try contradiction. reflexivity.
Qed.

Lemma digits_num_ok t : forallb is_digit t = true -> num_ok t = num_int t.
Proof.
  destruct t as [|c r]; intros H; [reflexivity|].
  cbn [forallb] in H. apply andb_prop in H as [Hc _].
  unfold num_ok. rewrite (is_digit_not_minus c Hc). reflexivity.
Qed.

Lemma int_text_cases z :
  (exists u, head_ok u /\ int_text z = uint_bytes u /\ Z.of_int (Pos u) = z) \/
  (exists u, head_ok u /\ int_text z = 45 :: uint_bytes u /\ Z.of_int (Neg u) = z).
Proof.
  pose proof (DecimalZ.of_to z) as Hz. unfold int_text.
  destruct z as [|p|p]; cbn [Z.to_int] in *.
  - left. exists zero. repeat split.
  - left. exists (Pos.to_uint p). split; [apply to_uint_head|split; [reflexivity|exact Hz]].
  - right. exists (Pos.to_uint p). split; [apply to_uint_head|split; [reflexivity|exact Hz]].
Qed.

Theorem int_of_text_int_text z : int_of_text (int_text z) = Some z.
Proof.
  destruct (int_text_cases z) as [(u & Hh & -> & Hz)|(u & Hh & -> & Hz)];
    destruct (head_ok_nonnil u Hh) as (c & r & Hu & Hc).
  - unfold int_of_text. rewrite Hu, (is_digit_not_minus c Hc), <- Hu, bytes_uint_bytes, Hz. reflexivity.
  - unfold int_of_text. cbn [N.eqb Pos.eqb]. rewrite Hu, <- Hu, bytes_uint_bytes, Hz. reflexivity.
Qed.

Theorem int_text_num_ok z : num_ok (int_text z) = true.
Proof.
  destruct (int_text_cases z) as [(u & Hh & -> & _)|(u & Hh & -> & _)].
  - rewrite (digits_num_ok _ (uint_bytes_digits u)). apply num_int_uint, Hh.
  - unfold num_ok. cbn [N.eqb Pos.eqb]. apply num_int_uint, Hh.
Qed.

Theorem int_text_shape z : num_shape (int_text z) = true.
Proof.
  destruct (int_text_cases z) as [(u & Hh & -> & _)|(u & Hh & -> & _)].
  - destruct (head_ok_nonnil u Hh) as (c & r & Hu & Hc).
    pose proof (digits_numchars _ (uint_bytes_digits u)) as Hn. rewrite Hu in *.
    cbn [forallb] in Hn. apply andb_prop in Hn as [_ Hn].
    cbn [num_shape]. unfold numstart. rewrite Hc, Hn, orb_true_r. reflexivity.
  - cbn [num_shape]. rewrite (digits_numchars _ (uint_bytes_digits u)). reflexivity.
Qed.

(* ---------------------------------------------------------------------------------------------- *)
(* 2. a text with '.', 'e' or 'E' is not integer-looking *)

Lemma bytes_uint_nofrac t : forall u, bytes_uint t = Some u -> has_frac t = false.
Proof.
  induction t as [|a t IH]; intros u H; [reflexivity|].
  cbn [bytes_uint] in H. destruct (bytes_uint t) as [u0|] eqn:E; [|discriminate].
  pose proof (IH u0 eq_refl) as Hf.
  unfold has_frac in *. cbn [existsb]. rewrite Hf.
  destruct (a =? 46) eqn:E1; [apply N.eqb_eq in E1; subst a; discriminate H|].
  destruct (a =? 101) eqn:E2; [apply N.eqb_eq in E2; subst a; discriminate H|].
  destruct (a =? 69) eqn:E3; [apply N.eqb_eq in E3; subst a; discriminate H|].
  reflexivity.
Qed.

Lemma int_of_text_frac t : has_frac t = true -> int_of_text t = None.
Proof.
  intros H. destruct t as [|c r]; [reflexivity|]. unfold int_of_text.
  destruct (c =? 45) eqn:E.
  - destruct r as [|d q]; [reflexivity|].
    destruct (bytes_uint (d :: q)) as [u|] eqn:Eu; [|reflexivity].
    apply bytes_uint_nofrac in Eu. apply N.eqb_eq in E. subst c.
    unfold has_frac in *. cbn [existsb] in H. cbn [existsb] in Eu. rewrite Eu in H. discriminate H.
  - destruct (bytes_uint (c :: r)) as [u|] eqn:Eu; [|reflexivity].
    apply bytes_uint_nofrac in Eu. rewrite Eu in H. discriminate H.
Qed.

Lemma has_frac_fix t : has_frac (fix_float t) = true.
Proof.
  unfold fix_float. destruct (has_frac t) eqn:E; [exact E|].
  unfold has_frac. rewrite existsb_app. apply orb_true_r.
Qed.

Lemma num_shape_fix t : num_shape t = true -> num_shape (fix_float t) = true.
Proof.
  unfold fix_float. destruct (has_frac t); [auto|].
  destruct t as [|c r]; [discriminate|]. cbn [Datatypes.app]. cbn [num_shape]. intros H. apply andb_prop in H as [Hc Hr].
  rewrite Hc, forallb_app, Hr. reflexivity.
Qed.

(* a text that matches the RFC 8259 number grammar starts with '-' or a digit and consists of number characters:
   a tokenizer that takes a maximal run of number characters takes all of it *)
Lemma drop_digits_numchars r : forallb numchar (drop_digits r) = true -> forallb numchar r = true.
Proof.
  induction r as [|c r IH]; intros H; [reflexivity|].
  cbn [drop_digits] in H. destruct (is_digit c) eqn:E; [|exact H].
  cbn [forallb]. rewrite (is_digit_numchar c E), (IH H). reflexivity.
Qed.

Lemma digits_tail q : match drop_digits q with [] => true | _ :: _ => false end = true -> forallb numchar q = true.
Proof.
  destruct (drop_digits q) eqn:E; [|discriminate]. intros _. apply drop_digits_numchars. rewrite E. reflexivity.
Qed.

Lemma num_exp_chars t : num_exp t = true -> forallb numchar t = true.
Proof.
  destruct t as [|c r]; intros H; [reflexivity|]. unfold num_exp in H.
  destruct ((c =? 101) || (c =? 69)) eqn:Ec; [|discriminate H].
  assert (Hc : numchar c = true).
  { apply orb_prop in Ec as [E|E]; apply N.eqb_eq in E; subst c; reflexivity. }
  cbn [forallb]. rewrite Hc. cbn [andb].
  destruct r as [|s q]; [discriminate H|].
  destruct ((s =? 43) || (s =? 45)) eqn:Es.
  - assert (Hs : numchar s = true).
    { apply orb_prop in Es as [E|E]; apply N.eqb_eq in E; subst s; reflexivity. }
    destruct q as [|d q']; [discriminate H|]. apply andb_prop in H as [Hd Hq].
    cbn [forallb]. rewrite Hs, (is_digit_numchar d Hd), (digits_tail q' Hq). reflexivity.
  - apply andb_prop in H as [Hd Hq].
    cbn [forallb]. rewrite (is_digit_numchar s Hd), (digits_tail q Hq). reflexivity.
Qed.

Lemma num_frac_chars t : num_frac t = true -> forallb numchar t = true.
Proof.
  destruct t as [|c r]; [reflexivity|]. unfold num_frac. destruct (c =? 46) eqn:E.
  - apply N.eqb_eq in E; subst c. destruct r as [|d q]; [discriminate|]. intros H.
    apply andb_prop in H as [Hd He]. cbn [forallb].
    rewrite (is_digit_numchar d Hd), (drop_digits_numchars q (num_exp_chars _ He)). reflexivity.
  - apply num_exp_chars.
Qed.

Lemma num_int_shape t : num_int t = true ->
  exists d r, t = d :: r /\ is_digit d = true /\ forallb numchar r = true.
Proof.
  destruct t as [|c r]; [discriminate|]. unfold num_int. destruct (c =? 48) eqn:E0.
  - apply N.eqb_eq in E0; subst c. intros H. exists 48, r. repeat split. apply num_frac_chars, H.
  - destruct (in_rng 49 c 57) eqn:E1; [|discriminate]. intros H. exists c, r. split; [reflexivity|]. split.
    + unfold is_digit, in_rng in *. apply andb_prop in E1 as [H1 H2]. apply N.leb_le in H1. rewrite H2.
      assert (H3 : N.leb 48 c = true) by (apply N.leb_le; lia). rewrite H3. reflexivity.
    + apply drop_digits_numchars, num_frac_chars, H.
Qed.

Theorem num_ok_shape t : num_ok t = true -> num_shape t = true.
Proof.
  destruct t as [|c r]; [discriminate|]. unfold num_ok. destruct (c =? 45) eqn:E.
  - intros H. destruct (num_int_shape r H) as (d & r' & -> & Hd & Hr).
    cbn [num_shape]. unfold numstart. rewrite E. cbn [orb forallb].
    rewrite (is_digit_numchar d Hd), Hr. reflexivity.
  - intros H. destruct (num_int_shape _ H) as (d & r' & Heq & Hd & Hr). injection Heq as -> ->.
    cbn [num_shape]. unfold numstart. rewrite Hd, Hr, orb_true_r. reflexivity.
Qed.

(* ---------------------------------------------------------------------------------------------- *)
(* 3. the string scan: where a tokenizer finds the closing quote of what json.Marshal wrote *)

(* the scan of a string body ends exactly at the last byte of `body`, an unescaped quote *)
Fixpoint scan_ok (esc : bool) (body : list N) : bool :=
  match body with
  | [] => false
  | c :: r =>
    if esc then scan_ok false r
    else if c =? 92 then scan_ok true r
    else if c =? 34 then match r with [] => true | _ :: _ => false end
    else scan_ok false r
  end.

(* the escape flag after a piece without unescaped quote *)
Fixpoint scan_st (esc : bool) (a : list N) : option bool :=
  match a with
  | [] => Some esc
  | c :: r =>
    if esc then scan_st false r
    else if c =? 92 then scan_st true r
    else if c =? 34 then None
    else scan_st false r
  end.

Lemma scan_ok_st a : forall esc esc' b, scan_st esc a = Some esc' -> scan_ok esc (a ++ b) = scan_ok esc' b.
Proof.
  induction a as [|c a IH]; intros esc esc' b H.
  - cbn [scan_st] in H. injection H as ->. reflexivity.
  - cbn [scan_st] in H. cbn [Datatypes.app scan_ok]. destruct esc; [exact (IH _ _ _ H)|].
    destruct (c =? 92); [exact (IH _ _ _ H)|].
    destruct (c =? 34); [discriminate H|exact (IH _ _ _ H)].
Qed.

Lemma scan_st_ascii : forall b rest, N.ltb b 128 = true -> scan_st false (esc_ascii b ++ rest) = scan_st false rest.
Proof.
  intros b rest Hb.
  destruct b as [|p]; [reflexivity|].
  do 8 (try (destruct p as [p|p|]; try discriminate Hb; try reflexivity)).
Qed.

Lemma scan_st_high b r : N.ltb b 128 = false -> scan_st false (b :: r) = scan_st false r.
Proof. intros H. destruct (high_byte b H) as (H1 & H2 & _). cbn [scan_st]. rewrite H2, H1. reflexivity. Qed.

Ltac high_tac :=
  unfold two_ok, three_ok, four_ok, cont, in_rng in *;
  repeat match goal with
         | H : _ && _ = true |- _ => apply andb_prop in H; destruct H
         | H : _ || _ = true |- _ => apply orb_prop in H; destruct H
         | H : N.leb _ _ = true |- _ => apply N.leb_le in H
         | H : N.eqb _ _ = true |- _ => apply N.eqb_eq in H
         end; apply N.ltb_ge; lia.

Lemma two_high b0 b1 : two_ok b0 b1 = true -> N.ltb b1 128 = false.
Proof. intros H. high_tac. Qed.
Lemma three_high1 b0 b1 b2 : three_ok b0 b1 b2 = true -> N.ltb b1 128 = false.
Proof. intros H. high_tac. Qed.
Lemma three_high2 b0 b1 b2 : three_ok b0 b1 b2 = true -> N.ltb b2 128 = false.
Proof. intros H. high_tac. Qed.
Lemma four_high1 b0 b1 b2 b3 : four_ok b0 b1 b2 b3 = true -> N.ltb b1 128 = false.
Proof. intros H. high_tac. Qed.
Lemma four_high2 b0 b1 b2 b3 : four_ok b0 b1 b2 b3 = true -> N.ltb b2 128 = false.
Proof. intros H. high_tac. Qed.
Lemma four_high3 b0 b1 b2 b3 : four_ok b0 b1 b2 b3 = true -> N.ltb b3 128 = false.
Proof. intros H. high_tac. Qed.

Lemma scan_esc_body_n : forall n s tail, (length s <= n)%nat ->
  scan_st false (esc_body s ++ tail) = scan_st false tail.
Proof.
  induction n as [|n IH]; intros s tail Hn.
  - destruct s; [reflexivity|cbn [length] in Hn; lia].
  - destruct s as [|b0 r0]; [reflexivity|].
    cbn [esc_body]. cbn [length] in Hn.
    assert (Hbad : scan_st false ((ufffd_text ++ esc_body r0) ++ tail) = scan_st false tail).
    { rewrite <- app_assoc.
      change (scan_st false (ufffd_text ++ esc_body r0 ++ tail)) with (scan_st false (esc_body r0 ++ tail)).
      apply IH. lia. }
    destruct (N.ltb b0 128) eqn:H1.
    { rewrite <- app_assoc, (scan_st_ascii b0 _ H1). apply IH. lia. }
    destruct r0 as [|b1 r1]; [exact Hbad|]. cbn [length] in Hn.
    destruct (two_ok b0 b1) eqn:H2.
    { cbn [Datatypes.app]. rewrite (scan_st_high b0 _ H1), (scan_st_high b1 _ (two_high _ _ H2)). apply IH. lia. }
    destruct r1 as [|b2 r2]; [exact Hbad|]. cbn [length] in Hn.
    destruct (three_ok b0 b1 b2) eqn:H3.
    { destruct (is_linesep b0 b1 b2) eqn:H5.
      - destruct (linesep_inv _ _ _ H5) as (-> & -> & [-> | ->]).
        + rewrite <- app_assoc.
          change (scan_st false ([92; 117; 50; 48; 50; hexd (168 mod 16)] ++ esc_body r2 ++ tail))
            with (scan_st false (esc_body r2 ++ tail)).
          apply IH. lia.
        + rewrite <- app_assoc.
          change (scan_st false ([92; 117; 50; 48; 50; hexd (169 mod 16)] ++ esc_body r2 ++ tail))
            with (scan_st false (esc_body r2 ++ tail)).
          apply IH. lia.
      - cbn [Datatypes.app]. rewrite (scan_st_high b0 _ H1), (scan_st_high b1 _ (three_high1 _ _ _ H3)),
          (scan_st_high b2 _ (three_high2 _ _ _ H3)). apply IH. lia. }
    destruct r2 as [|b3 r3]; [exact Hbad|]. cbn [length] in Hn.
    destruct (four_ok b0 b1 b2 b3) eqn:H4; [|exact Hbad].
    cbn [Datatypes.app]. rewrite (scan_st_high b0 _ H1), (scan_st_high b1 _ (four_high1 _ _ _ _ H4)),
      (scan_st_high b2 _ (four_high2 _ _ _ _ H4)), (scan_st_high b3 _ (four_high3 _ _ _ _ H4)). apply IH. lia.
Qed.

(* the body json.Marshal writes never shows an unescaped quote before its closing one *)
Theorem scan_ok_escape x : scan_ok false (esc_body x ++ [34]) = true.
Proof.
  pose proof (scan_esc_body_n (length x) x [] (le_n _)) as H. rewrite app_nil_r in H. cbn [scan_st] in H.
  rewrite (scan_ok_st _ _ _ _ H). reflexivity.
Qed.

(* ---------------------------------------------------------------------------------------------- *)
(* 4. the tokenizer, lexeme by lexeme *)

Section Lex.
  Variable ft : Z -> list N.
  Variable pf : list N -> Z.

  Lemma lx_top_cons c r : lx pf LTop (c :: r) = (let (o, st') := start c in o ++ lx pf st' r).
  Proof. reflexivity. Qed.

  Lemma lx_str body : forall acc esc rest, scan_ok esc body = true ->
    lx pf (LStr acc esc) (body ++ rest) = str_token (List.rev acc ++ body) :: lx pf LTop rest.
  Proof.
    induction body as [|c b IH]; intros acc esc rest H; [discriminate H|].
    cbn [scan_ok] in H. cbn [Datatypes.app lx]. destruct esc.
    - rewrite (IH _ _ _ H). cbn [List.rev]. rewrite <- app_assoc. reflexivity.
    - destruct (c =? 92) eqn:E1.
      { rewrite (IH _ _ _ H). cbn [List.rev]. rewrite <- app_assoc. reflexivity. }
      destruct (c =? 34) eqn:E2.
      { destruct b; [|discriminate H]. reflexivity. }
      rewrite (IH _ _ _ H). cbn [List.rev]. rewrite <- app_assoc. reflexivity.
  Qed.

  Lemma lx_string x rest : lx pf LTop (write_string x ++ rest) = TStr (utf8_coerce x) :: lx pf LTop rest.
  Proof.
    unfold write_string, json_escape. cbn [Datatypes.app].
    change (lx pf LTop (34 :: (esc_body x ++ [34]) ++ rest)) with (lx pf (LStr [34] false) ((esc_body x ++ [34]) ++ rest)).
    rewrite (lx_str _ _ _ _ (scan_ok_escape x)). cbn [List.rev Datatypes.app].
    change (34 :: esc_body x ++ [34]) with (write_string x). rewrite write_string_token. reflexivity.
  Qed.

  Lemma lx_num t : forall acc rest, forallb numchar t = true -> dstart rest = true ->
    lx pf (LNum acc) (t ++ rest) = num_token pf (List.rev acc ++ t) :: lx pf LTop rest.
  Proof.
    induction t as [|c t IH]; intros acc rest Ht Hr.
    - cbn [Datatypes.app]. rewrite app_nil_r. destruct rest as [|d r]; [reflexivity|].
      cbn [dstart] in Hr. apply andb_prop in Hr as [Hn _]. apply negb_true_iff in Hn.
      cbn [lx]. rewrite Hn. reflexivity.
    - cbn [forallb] in Ht. apply andb_prop in Ht as [Hc Ht].
      cbn [Datatypes.app lx]. rewrite Hc, (IH _ _ Ht Hr). cbn [List.rev]. rewrite <- app_assoc. reflexivity.
  Qed.

  Lemma lx_word t : forall acc rest, forallb lower t = true -> dstart rest = true ->
    lx pf (LWord acc) (t ++ rest) = word_token (List.rev acc ++ t) :: lx pf LTop rest.
  Proof.
    induction t as [|c t IH]; intros acc rest Ht Hr.
    - cbn [Datatypes.app]. rewrite app_nil_r. destruct rest as [|d r]; [reflexivity|].
      cbn [dstart] in Hr. apply andb_prop in Hr as [_ Hl]. apply negb_true_iff in Hl.
      cbn [lx]. rewrite Hl. reflexivity.
    - cbn [forallb] in Ht. apply andb_prop in Ht as [Hc Ht].
      cbn [Datatypes.app lx]. rewrite Hc, (IH _ _ Ht Hr). cbn [List.rev]. rewrite <- app_assoc. reflexivity.
  Qed.

  Lemma start_numstart c : numstart c = true -> start c = ([], LNum [c]).
  Proof.
    intros H. unfold numstart, is_digit, in_rng in H.
    assert (Hc : c = 45 \/ c = 48 \/ c = 49 \/ c = 50 \/ c = 51 \/ c = 52 \/ c = 53 \/ c = 54 \/ c = 55 \/ c = 56 \/ c = 57).
    { apply orb_prop in H as [H|H]; [apply N.eqb_eq in H; lia|].
      apply andb_prop in H as [H1 H2]. apply N.leb_le in H1, H2. lia. }
    repeat (destruct Hc as [->|Hc]; [reflexivity|]). subst c. reflexivity.
  Qed.

  (* bytes b are lexemes denoting the tokens t, whatever follows them (provided it cannot continue a number or
     a literal) *)
  Definition Lx (b : list N) (t : list jtoken) : Prop :=
    forall rest, dstart rest = true -> lx pf LTop (b ++ rest) = t ++ lx pf LTop rest.

  Lemma dstart_app b rest : dstart b = true -> dstart rest = true -> dstart (b ++ rest) = true.
  Proof. destruct b; auto. Qed.

  Lemma Lx_nil : Lx [] [].
  Proof. intros rest _. reflexivity. Qed.

  Lemma Lx_app a ta b tb : Lx a ta -> Lx b tb -> dstart b = true -> Lx (a ++ b) (ta ++ tb).
  Proof.
    intros Ha Hb Hd rest Hr. rewrite <- !app_assoc.
    rewrite (Ha _ (dstart_app _ _ Hd Hr)), (Hb _ Hr). reflexivity.
  Qed.

  Lemma Lx_pre c tok b t : start c = ([tok], LTop) -> Lx b t -> Lx (c :: b) (tok :: t).
  Proof.
    intros Hs Hb rest Hr. cbn [Datatypes.app]. rewrite lx_top_cons, Hs. cbn [Datatypes.app]. rewrite (Hb _ Hr). reflexivity.
  Qed.

  Lemma Lx_arr b t : Lx b t -> Lx (91 :: b ++ [93]) (LBrack :: t ++ [RBrack]).
  Proof.
    intros Hb rest _. cbn [Datatypes.app]. rewrite <- app_assoc.
    change (lx pf LTop (91 :: b ++ [93] ++ rest)) with (LBrack :: lx pf LTop (b ++ 93 :: rest)).
    rewrite (Hb (93 :: rest) eq_refl).
    change (lx pf LTop (93 :: rest)) with (RBrack :: lx pf LTop rest).
    rewrite <- app_assoc. reflexivity.
  Qed.

  Lemma Lx_hash b t : Lx b t -> Lx (123 :: b ++ [125]) (LBrace :: t ++ [RBrace]).
  Proof.
    intros Hb rest _. cbn [Datatypes.app]. rewrite <- app_assoc.
    change (lx pf LTop (123 :: b ++ [125] ++ rest)) with (LBrace :: lx pf LTop (b ++ 125 :: rest)).
    rewrite (Hb (125 :: rest) eq_refl).
    change (lx pf LTop (125 :: rest)) with (RBrace :: lx pf LTop rest).
    rewrite <- app_assoc. reflexivity.
  Qed.

  Lemma Lx_string x : Lx (write_string x) [TStr (utf8_coerce x)].
  Proof. intros rest _. apply lx_string. Qed.

  Lemma Lx_number t tok : num_shape t = true -> num_token pf t = tok -> Lx t [tok].
  Proof.
    intros Hs Ht rest Hr. destruct t as [|c t']; [discriminate Hs|].
    cbn [num_shape] in Hs. apply andb_prop in Hs as [Hc Hf].
    cbn [Datatypes.app]. rewrite lx_top_cons, (start_numstart c Hc). cbn [Datatypes.app].
    rewrite (lx_num _ _ _ Hf Hr). cbn [List.rev Datatypes.app]. rewrite Ht. reflexivity.
  Qed.

  Lemma num_token_int z : num_token pf (int_text z) = TNum (NInt z).
  Proof. unfold num_token. rewrite int_text_num_ok, int_of_text_int_text. reflexivity. Qed.

  Lemma Lx_int z : Lx (int_text z) [TNum (NInt z)].
  Proof. apply Lx_number; [apply int_text_shape|apply num_token_int]. Qed.

  Lemma Lx_float b : float_finite b = true -> float_law ft pf b = true ->
    Lx (fix_float (ft b)) [TNum (NFrac b)].
  Proof.
    intros Hfin Hl. unfold float_law in Hl. rewrite Hfin in Hl. cbn [negb orb] in Hl.
    apply andb_prop in Hl as [H2 H3]. apply Z.eqb_eq in H3.
    apply Lx_number; [apply num_ok_shape, H2|].
    unfold num_token. rewrite H2, (int_of_text_frac _ (has_frac_fix _)), H3. reflexivity.
  Qed.

  Lemma Lx_lit w tok : (exists c t, w = c :: t /\ start c = ([], LWord [c]) /\ forallb lower t = true /\ word_token w = tok) ->
    Lx w [tok].
  Proof.
    intros (c & t & -> & Hs & Hl & Hw) rest Hr.
    cbn [Datatypes.app]. rewrite lx_top_cons, Hs. cbn [Datatypes.app]. rewrite (lx_word _ _ _ Hl Hr). cbn [List.rev Datatypes.app].
    rewrite Hw. reflexivity.
  Qed.

  Lemma Lx_null : Lx w_null [TNull].
  Proof. apply Lx_lit. eexists; eexists; repeat split. Qed.
  Lemma Lx_true : Lx w_true [TBool true].
  Proof. apply Lx_lit. eexists; eexists; repeat split. Qed.
  Lemma Lx_false : Lx w_false [TBool false].
  Proof. apply Lx_lit. eexists; eexists; repeat split. Qed.

  Lemma Lx_ref n : Lx (bref n) (ref_tokens n).
  Proof.
    intros rest _. unfold bref, ref_tokens. rewrite <- !app_assoc.
    change (lx pf LTop ([123; 34] ++ pref_key ++ [34; 58] ++ int_text n ++ [125] ++ rest))
      with (LBrace :: TStr pref_key :: Colon :: lx pf LTop (int_text n ++ 125 :: rest)).
    rewrite (Lx_int n (125 :: rest) eq_refl). reflexivity.
  Qed.

  (* ---------------------------------------------------------------------------------------------- *)
  (* 5. the byte machine and the token machine run in lock step *)

  Definition nonfirst (st : jstate) : bool :=
    match st with FirstInArray | FirstInObject => false | _ => true end.

  Definition R_body (r1 : res (list jtoken * jstate)) (r2 : res (list N * jstate)) : Prop :=
    match r1, r2 with
    | Ok (t, _), Ok (b, _) => Lx b t
    | Err, Err | Fault, Fault | OutOfFuel, OutOfFuel => True
    | _, _ => False
    end.

  Definition R_out (st : jstate) (r1 : res (list jtoken * jstate)) (r2 : res (list N * jstate)) : Prop :=
    match r1, r2 with
    | Ok (t, s1), Ok (b, s2) => s1 = s2 /\ Lx b t /\ (nonfirst st = true -> dstart b = true)
    | Err, Err | Fault, Fault | OutOfFuel, OutOfFuel => True
    | _, _ => False
    end.

  Definition R_el (st : jstate) (r1 : res (list jtoken * jstate)) (r2 : res (list N * jstate)) : Prop :=
    match r1, r2 with
    | Ok (t, s1), Ok (b, s2) => s1 = s2 /\ Lx b t /\ (nonfirst st = true -> dstart b = true) /\ nonfirst s1 = true
    | Err, Err | Fault, Fault | OutOfFuel, OutOfFuel => True
    | _, _ => False
    end.

  Lemma sim_delimit st r1 r2 : R_body r1 r2 -> R_el st (delimit st r1) (bdelimit st r2).
  Proof.
    destruct r1 as [[t s1]| | |], r2 as [[b s2]| | |]; cbn [R_body]; intros H; try contradiction;
      try (destruct st; exact I).
    destruct st; cbn [delimit bdelimit bind R_el nonfirst].
    - split; [reflexivity|split; [exact H|split; [discriminate|reflexivity]]].
    - split; [reflexivity|split; [exact H|split; [discriminate|reflexivity]]].
    - split; [reflexivity|split; [apply Lx_pre; [reflexivity|exact H]|split; [intros _; reflexivity|reflexivity]]].
    - split; [reflexivity|split; [apply Lx_pre; [reflexivity|exact H]|split; [intros _; reflexivity|reflexivity]]].
    - split; [reflexivity|split; [apply Lx_pre; [reflexivity|exact H]|split; [intros _; reflexivity|reflexivity]]].
  Qed.

  Lemma bstream_ev_unfold st e :
    bstream_ev ft st e =
    bdelimit st
      match e with
      | EAdd s => let* o := bwrite ft s in Ok (o, st)
      | ERef n => Ok (bref n, st)
      | EArr l => let* (o, st') := bstream_list ft FirstInArray l in Ok (91 :: o ++ [93], st')
      | EHash l => let* (o, st') := bstream_list ft FirstInObject l in Ok (123 :: o ++ [125], st')
      end.
  Proof. destruct e; reflexivity. Qed.

  Lemma bstream_list_cons st x l :
    bstream_list ft st (x :: l) =
    let* (o1, st1) := bstream_ev ft st x in let* (o2, st2) := bstream_list ft st1 l in Ok (o1 ++ o2, st2).
  Proof. reflexivity. Qed.

  Definition P_sim (e : ev) : Prop :=
    floats_lawful ft pf e = true -> forall st, R_el st (stream_ev st e) (bstream_ev ft st e).

  Lemma sim_seq l : Forall P_sim l -> forallb (floats_lawful ft pf) l = true ->
    forall st, R_out st (stream_list st l) (bstream_list ft st l).
  Proof.
    induction 1 as [|x l Hx _ IH]; intros Hf st.
    - cbn [R_out]. change (stream_list st []) with (@Ok (list jtoken * jstate) ([], st)).
      change (bstream_list ft st []) with (@Ok (list N * jstate) ([], st)).
      cbn [R_out]. split; [reflexivity|split; [apply Lx_nil|intros _; reflexivity]].
    - cbn [forallb] in Hf. apply andb_prop in Hf as [Hfx Hfl].
      rewrite stream_list_cons, bstream_list_cons. specialize (Hx Hfx st).
      destruct (stream_ev st x) as [[t1 s1]| | |], (bstream_ev ft st x) as [[b1 s2]| | |];
        unfold R_el in Hx; try contradiction; cbn [bind R_out]; try exact I.
      destruct Hx as (-> & HL1 & Hd1 & Hnf). specialize (IH Hfl s2).
      destruct (stream_list s2 l) as [[t2 s3]| | |], (bstream_list ft s2 l) as [[b2 s4]| | |];
        unfold R_out in IH; try contradiction; cbn [bind R_out]; try exact I.
      destruct IH as (-> & HL2 & Hd2). split; [reflexivity|]. split.
      + apply Lx_app; [exact HL1|exact HL2|exact (Hd2 Hnf)].
      + intros Hn. apply dstart_app; [exact (Hd1 Hn)|exact (Hd2 Hnf)].
  Qed.

  Lemma sim_scalar s : floats_lawful ft pf (EAdd s) = true -> forall st,
    R_body (let* o := write s in Ok (o, st)) (let* o := bwrite ft s in Ok (o, st)).
  Proof.
    intros Hl st. destruct s as [ |b|z|b|x|b| ]; cbn [write bwrite bind R_body].
    - apply Lx_null.
    - destruct b; [apply Lx_true|apply Lx_false].
    - apply Lx_int.
    - cbn [floats_lawful] in Hl. destruct (float_finite b) eqn:Hfin; [|exact I].
      destruct (float_intlike b); cbn [bind R_body]; apply Lx_float; assumption.
    - apply Lx_string.
    - apply Lx_null.
    - apply Lx_null.
  Qed.

  Lemma sim_ev : forall e, P_sim e.
  Proof.
    induction e as [s|n|l IH|l IH] using ev_ind'; intros Hl st; rewrite stream_ev_unfold, bstream_ev_unfold;
      apply sim_delimit.
    - apply sim_scalar. exact Hl.
    - cbn [R_body]. apply Lx_ref.
    - cbn [floats_lawful] in Hl. pose proof (sim_seq l IH Hl FirstInArray) as H.
      destruct (stream_list FirstInArray l) as [[t s1]| | |], (bstream_list ft FirstInArray l) as [[b s2]| | |];
        unfold R_out in H; try contradiction; cbn [bind R_body]; try exact I.
      destruct H as (_ & H & _). apply Lx_arr, H.
    - cbn [floats_lawful] in Hl. pose proof (sim_seq l IH Hl FirstInObject) as H.
      destruct (stream_list FirstInObject l) as [[t s1]| | |], (bstream_list ft FirstInObject l) as [[b s2]| | |];
        unfold R_out in H; try contradiction; cbn [bind R_body]; try exact I.
      destruct H as (_ & H & _). apply Lx_hash, H.
  Qed.

  Lemma floats_lawful_all : (forall b, float_law ft pf b = true) -> forall e, floats_lawful ft pf e = true.
  Proof.
    intros Hall. induction e as [s|n|l IH|l IH] using ev_ind'.
    - destruct s; cbn [floats_lawful]; auto.
    - reflexivity.
    - cbn [floats_lawful]. apply forallb_forall. rewrite Forall_forall in IH. exact IH.
    - cbn [floats_lawful]. apply forallb_forall. rewrite Forall_forall in IH. exact IH.
  Qed.

  (* ---------------------------------------------------------------------------------------------- *)
  (* 6. theorems *)

  (* the tokens of the bytes written ARE the tokens the token model writes; an error is an error *)
  Theorem text_lex e : floats_lawful ft pf e = true -> lex_res pf (btext ft e) = stream_top e.
  Proof.
    intros Hl. unfold btext, stream_top. pose proof (sim_ev e Hl FirstInArray) as H.
    destruct (stream_ev FirstInArray e) as [[t s1]| | |], (bstream_ev ft FirstInArray e) as [[b s2]| | |];
      unfold R_el in H; try contradiction; cbn [bind lex_res]; try reflexivity.
    destruct H as (_ & H & _). specialize (H [] eq_refl). rewrite app_nil_r in H.
    unfold lex. rewrite H. cbn [lx finish]. rewrite app_nil_r. reflexivity.
  Qed.

  Lemma text_lift e toks : floats_lawful ft pf e = true -> stream_top e = Ok toks ->
    exists bs, btext ft e = Ok bs /\ lex pf bs = toks.
  Proof.
    intros Hl Hs. pose proof (text_lex e Hl) as H. rewrite Hs in H.
    destruct (btext ft e) as [bs| | |]; cbn [lex_res] in H; try discriminate H.
    exists bs. split; [reflexivity|]. injection H as H. exact H.
  Qed.

  Theorem text_writer_total e : floats_lawful ft pf e = true ->
    match btext ft e with
    | Ok _ => floats_finite e = true
    | Err => floats_finite e = false
    | _ => False
    end.
  Proof.
    intros Hl. pose proof (text_lex e Hl) as H. rewrite stream_top_total in H.
    destruct (floats_finite e); destruct (btext ft e); cbn [lex_res] in H; try discriminate H; reflexivity.
  Qed.

  Theorem text_always_valid e : json_wf_all e = true -> floats_lawful ft pf e = true ->
    exists bs, btext ft e = Ok bs /\ json_valid (lex pf bs) = true.
  Proof.
    intros Hwf Hl. destruct (json_always_valid e Hwf) as (toks & Hs & Hv).
    destruct (text_lift e toks Hl Hs) as (bs & Hb & <-). exists bs. split; assumption.
  Qed.

  Theorem text_events_roundtrip e : json_wf e = true -> floats_lawful ft pf e = true ->
    exists bs, btext ft e = Ok bs /\ read_text pf bs = Ok [json_image e].
  Proof.
    intros Hwf Hl. destruct (json_events_roundtrip e Hwf) as (toks & Hs & Hr).
    destruct (text_lift e toks Hl Hs) as (bs & Hb & <-). exists bs. split; assumption.
  Qed.

  Theorem text_events_roundtrip_exact e : json_wf e = true -> data_exact e = true -> floats_lawful ft pf e = true ->
    exists bs, btext ft e = Ok bs /\ json_valid (lex pf bs) = true /\ read_text pf bs = Ok [e].
  Proof.
    intros Hwf Hex Hl. destruct (json_events_roundtrip_exact e Hwf Hex) as (toks & Hs & Hv & Hr).
    destruct (text_lift e toks Hl Hs) as (bs & Hb & <-). exists bs. repeat split; assumption.
  Qed.

  Theorem text_collect_image e : json_wf e = true -> floats_lawful ft pf e = true ->
    exists bs, btext ft e = Ok bs /\
    exists e', read_text pf bs = Ok [e'] /\ collect e' = res_map vimage (collect e).
  Proof.
    intros Hwf Hl. destruct (json_collect_image e Hwf) as (toks & Hs & e' & Hr & Hc).
    destruct (text_lift e toks Hl Hs) as (bs & Hb & <-). exists bs. split; [exact Hb|]. exists e'. split; assumption.
  Qed.

  (* from_json (to_json v) = v *)
  Theorem text_data_roundtrip v :
    json_wf (events_of v) = true -> data_exact (events_of v) = true -> floats_lawful ft pf (events_of v) = true ->
    exists bs, btext ft (events_of v) = Ok bs /\ json_valid (lex pf bs) = true /\
    exists e', read_text pf bs = Ok [e'] /\ collect e' = Ok v.
  Proof.
    intros Hwf Hex Hl. destruct (json_data_roundtrip v Hwf Hex) as (toks & Hs & Hv & e' & Hr & Hc).
    destruct (text_lift _ toks Hl Hs) as (bs & Hb & <-). exists bs. split; [exact Hb|]. split; [exact Hv|].
    exists e'. split; assumption.
  Qed.

  (* serialization.DataToJson writes the text and then a newline (jsonstreamer.go:34): the same tokens *)
  Theorem text_lex_newline e bs : floats_lawful ft pf e = true -> btext ft e = Ok bs ->
    lex pf (bs ++ [10]) = lex pf bs.
  Proof.
    intros Hl Hb. unfold btext in Hb. pose proof (sim_ev e Hl FirstInArray) as H.
    destruct (stream_ev FirstInArray e) as [[t s1]| | |], (bstream_ev ft FirstInArray e) as [[b s2]| | |];
      unfold R_el in H; try contradiction; cbn [bind] in Hb; try discriminate Hb.
    injection Hb as <-. destruct H as (_ & H & _).
    pose proof (H [10] eq_refl) as H1. pose proof (H [] eq_refl) as H2. rewrite app_nil_r in H2.
    unfold lex. rewrite H1, H2. reflexivity.
  Qed.

  (* "ANY serializer output", over bytes: Serializer (as modelled in Model/JsonSer.v) -> NewJsonStreamer writes bytes
     that are RFC 8259 JSON, for every value with finite floats under every option set (the law is asked of the floats
     the Serializer hands on; the stringified texts of the model need no law: strings are not an oracle) *)
  Theorem text_ser_always_valid rich_data dedup_level v :
    sval_finite v = true -> floats_lawful ft pf (ser_top (json_cfg rich_data dedup_level) v) = true ->
    exists bs, btext ft (ser_top (json_cfg rich_data dedup_level) v) = Ok bs /\ json_valid (lex pf bs) = true.
  Proof.
    intros Hf Hl. destruct (ser_json_valid rich_data dedup_level v Hf) as (toks & Hs & Hv).
    destruct (text_lift _ toks Hl Hs) as (bs & Hb & <-). exists bs. split; assumption.
  Qed.
End Lex.

(* the mutant whose fraction test only looks for '.' is told apart at the level of bytes *)
Definition text_1e21 : list N := [49; 101; 43; 50; 49].
Lemma fraction_test_refuted pf :
  lex pf (fix_float_dot text_1e21) = [TBad] /\ num_ok (fix_float text_1e21) = true /\
  lex pf (fix_float text_1e21) = [TNum (NFrac (pf text_1e21))].
Proof. repeat split. Qed.
