(* Proofs about the model of types.PuppetSprintf / PuppetFprintf (Model/FormatSprintf.v):
   a format text made of literal runes, `%%`, and directives renders as the concatenation of the literal
   text, '%', and the text of EVERY directive as that directive ALONE renders its value
   (px.NewFormatContext3(value, directive) + ToString, i.e. format_value) - whatever directives and
   values came before it in the same call; the first directive that fails decides the error. *)
From Coq Require Import ZArith NArith Bool Lia List.
From PcoreV Require Import Model.Base Model.Format Model.FormatSprintf.
Import ListNotations.
Open Scope Z_scope.

(* one segment of a format text, on the level of runes *)
Inductive seg :=
| SLit (rs : list rune)                                                   (* literal runes *)
| SPct                                                                    (* %% *)
| SDir (body : list rune) (l : N) (v : value) (o : oracle)                (* %<body><l> for the next argument *)
| SKey (key : list rune) (body : list rune) (l : N) (v : value) (o : oracle)   (* %<key>body l *)
| SBrace (key : list rune) (v : value) (o : oracle).                      (* %{key} *)

Definition seg_runes (s : seg) : list rune :=
  match s with
  | SLit rs => rs
  | SPct => [[37%N]; [37%N]]
  | SDir body l _ _ => [37%N] :: body ++ [[l]]
  | SKey key body l _ _ => [37%N] :: [60%N] :: key ++ [62%N] :: body ++ [[l]]
  | SBrace key _ _ => [37%N] :: [123%N] :: key ++ [[125%N]]
  end.

Definition seg_vals (s : seg) : list value := match s with SDir _ _ v _ => [v] | _ => [] end.
Definition seg_os (s : seg) : list oracle :=
  match s with SDir _ _ _ o | SKey _ _ _ _ o | SBrace _ _ o => [o] | _ => [] end.

Definition directive_text (body : list rune) (l : N) : str := 37%N :: concat body ++ [l].

(* the reference: every directive on its own *)
Fixpoint expect (segs : list seg) (out : str) : sp_res :=
  match segs with
  | [] => SpText out
  | SLit rs :: r => expect r (out ++ concat rs)
  | SPct :: r => expect r (out ++ [37%N])
  | SDir body l v o :: r | SKey _ body l v o :: r =>
    match sp_apply o v (FStr (directive_text body l)) with
    | SpText t => expect r (out ++ t)
    | SpErr e => SpErr e
    end
  | SBrace _ v o :: r =>
    match sp_apply o v FDefault with
    | SpText t => expect r (out ++ t)
    | SpErr e => SpErr e
    end
  end.

Definition no_pct (r : rune) : Prop := is_pct r = false.
Definition no_letter (r : rune) : Prop := rune_letter r = false.
Definition head_plain (body : list rune) : Prop :=
  match body with [] => True | r :: _ => is_pct r = false /\ key_open r = None end.

Definition pos_ok (s : seg) : Prop :=
  match s with
  | SLit rs => Forall no_pct rs
  | SPct => True
  | SDir body l _ _ => is_letter l = true /\ Forall no_letter body /\ head_plain body
  | _ => False
  end.

Definition key_ok (es : list (value * value)) (s : seg) : Prop :=
  match s with
  | SLit rs => Forall no_pct rs
  | SPct => True
  | SDir _ _ _ _ => False
  | SKey key body l v _ =>
    Forall (fun r => str_eqb r [62%N] = false) key /\ assoc value_eqb (VStr (concat key)) es = Some v
    /\ is_letter l = true /\ Forall no_letter body
  | SBrace key v _ =>
    Forall (fun r => str_eqb r [125%N] = false) key /\ assoc value_eqb (VStr (concat key)) es = Some v
  end.

(* --- the single rendering --------------------------------------------------------------------- *)

Lemma sp_apply_text o v spec t :
  sp_apply o v spec = SpText t <-> format_value o v spec = Some (OText t).
Proof.
  unfold sp_apply, format_value.
  destruct (context_of spec) as [[m|e]|]; try (split; discriminate).
  destruct (render (S (vdepth v)) o default_indentation m false v) as [[t'|e']|];
    split; intro H; try discriminate; inversion H; reflexivity.
Qed.

(* the error of the whole is the error of the directive alone: a context error (grammar) is reported as
   the illegal-argument issue, an error of ToString passes through *)
Lemma sp_apply_err o v spec e :
  sp_apply o v spec = SpErr (SpFormat e) ->
  format_value o v spec = Some (OErr e).
Proof.
  unfold sp_apply, format_value.
  destruct (context_of spec) as [[m|e0]|]; try discriminate.
  destruct (render (S (vdepth v)) o default_indentation m false v) as [[t'|e']|]; try discriminate.
  intro H; inversion H; reflexivity.
Qed.

Lemma sp_apply_illegal o v spec :
  sp_apply o v spec = SpErr SpIllegalArgument <-> exists e, context_of spec = Some (RErr e).
Proof.
  unfold sp_apply.
  destruct (context_of spec) as [[m|e0]|].
  - destruct (render (S (vdepth v)) o default_indentation m false v) as [[t'|e']|];
      split; try discriminate; intros [e H]; discriminate.
  - split; eauto.
  - split; try discriminate; intros [e H]; discriminate.
Qed.

(* --- the walk ---------------------------------------------------------------------------------- *)

Lemma letter_plain l : is_letter l = true -> is_pct [l] = false /\ key_open [l] = None /\ rune_letter [l] = true.
Proof.
  intro H. unfold is_pct, key_open. cbn [str_eqb rune_letter].
  destruct (N.eqb_spec l 37) as [->|_]; [discriminate H|].
  destruct (N.eqb_spec l 123) as [->|_]; [discriminate H|].
  destruct (N.eqb_spec l 60) as [->|_]; [discriminate H|].
  cbn. auto.
Qed.

Lemma next_bad_some (l : list rune) rest : next_bad (map Some l ++ map Some rest) = false.
Proof. destruct l; [destruct rest|]; reflexivity. Qed.

Lemma next_bad_map (l : list rune) : next_bad (map Some l) = false.
Proof. destruct l; reflexivity. Qed.

Lemma run_lit rs : forall rest args pos keyed os out,
  Forall no_pct rs ->
  sp_run (map Some rs ++ rest) args MText pos keyed os out = sp_run rest args MText pos keyed os (out ++ concat rs).
Proof.
  induction rs as [|r rs IH]; intros rest args pos keyed os out H.
  - cbn [map app concat]. now rewrite app_nil_r.
  - inversion H as [|? ? Hr Hrs]; subst. cbn [map app concat sp_run].
    unfold no_pct in Hr. rewrite Hr. rewrite IH by assumption. now rewrite app_assoc.
Qed.

Lemma run_pattern body : forall rest args v acc pos keyed os out l,
  Forall no_letter body -> is_letter l = true -> next_bad rest = false ->
  sp_run (map Some body ++ Some [l] :: rest) args (MPattern v acc) pos keyed os out =
  match sp_directive os v (FStr (acc ++ concat body ++ [l])) out with
  | inl e => SpErr e
  | inr (os', out') => sp_run rest args MText pos keyed os' out'
  end.
Proof.
  induction body as [|r body IH]; intros rest args v acc pos keyed os out l Hb Hl Hn.
  - cbn [map app concat sp_run]. destruct (letter_plain l Hl) as (_ & _ & Hrl). rewrite Hrl, Hn. reflexivity.
  - inversion Hb as [|? ? Hr Hbody]; subst. cbn [map app concat sp_run].
    unfold no_letter in Hr. rewrite Hr. rewrite IH by assumption. now rewrite <- !app_assoc.
Qed.

Lemma run_key key : forall rest args b acc pos keyed os out,
  Forall (fun r => str_eqb r [if N.eqb b 123 then 125%N else 62%N] = false) key ->
  sp_run (map Some key ++ rest) args (MKey b acc) pos keyed os out =
  sp_run rest args (MKey b (acc ++ concat key)) pos keyed os out.
Proof.
  induction key as [|r key IH]; intros rest args b acc pos keyed os out H.
  - cbn [map app concat]. now rewrite app_nil_r.
  - inversion H as [|? ? Hr Hk]; subst. cbn [map app concat sp_run].
    rewrite Hr. rewrite IH by assumption. now rewrite app_assoc.
Qed.

Lemma skipn_cons_nth {A} : forall pos (args : list A) v tl,
  skipn pos args = v :: tl -> nth_error args pos = Some v /\ skipn (S pos) args = tl.
Proof.
  induction pos as [|pos IH]; intros [|a args] v tl H; cbn in H; try discriminate.
  - inversion H; subst. split; reflexivity.
  - apply IH in H. exact H.
Qed.

(* the directive applied to the next argument: the pattern collected is exactly '%' body letter *)
Lemma run_dir body l rest args v pos os out :
  is_letter l = true -> Forall no_letter body -> head_plain body ->
  nth_error args pos = Some v -> next_bad rest = false ->
  sp_run (Some [37%N] :: map Some body ++ Some [l] :: rest) args MText pos false os out =
  match sp_directive os v (FStr (directive_text body l)) out with
  | inl e => SpErr e
  | inr (os', out') => sp_run rest args MText (S pos) false os' out'
  end.
Proof.
  intros Hl Hb Hh Hnth Hn. unfold directive_text.
  destruct (letter_plain l Hl) as (Hp & Hk & Hrl).
  destruct body as [|r body].
  - cbn [map app concat sp_run]. change (is_pct [37%N]) with true. cbn iota.
    rewrite Hp, Hk, Hnth, Hrl, Hn. reflexivity.
  - destruct Hh as [Hp' Hk']. inversion Hb as [|? ? Hr Hbody]; subst.
    cbn [map app concat sp_run]. change (is_pct [37%N]) with true. cbn iota.
    rewrite Hp', Hk', Hnth. unfold no_letter in Hr. rewrite Hr.
    rewrite run_pattern by assumption. cbn [app]. now rewrite <- !app_assoc.
Qed.

Lemma map_some_app (a b : list rune) : map Some (a ++ b) = map Some a ++ map Some b.
Proof. apply map_app. Qed.

Theorem sprintf_positional : forall segs pos args out,
  Forall pos_ok segs ->
  skipn pos args = flat_map seg_vals segs ->
  sp_run (map Some (flat_map seg_runes segs)) args MText pos false (flat_map seg_os segs) out = expect segs out.
Proof.
  induction segs as [|s segs IH]; intros pos args out Hok Hargs.
  - reflexivity.
  - inversion Hok as [|? ? Hs Hrest]; subst.
    cbn [flat_map]. rewrite map_some_app.
    destruct s as [rs| |body l v o|key body l v o|key v o]; cbn [pos_ok] in Hs; try contradiction.
    + cbn [seg_runes seg_os seg_vals app expect] in *. rewrite run_lit by assumption. now apply IH.
    + cbn [seg_runes seg_os seg_vals app expect map sp_run] in *. change (is_pct [37%N]) with true. cbn iota.
      now apply IH.
    + destruct Hs as (Hl & Hb & Hh).
      cbn [seg_vals app] in Hargs. apply skipn_cons_nth in Hargs. destruct Hargs as [Hnth Hskip].
      cbn [seg_runes seg_os app expect map].
      rewrite map_some_app. cbn [map]. rewrite <- app_assoc. cbn [app].
      rewrite (run_dir body l _ args v pos) by (try assumption; apply (next_bad_some [])).
      cbn [sp_directive].
      destruct (sp_apply o v (FStr (directive_text body l))) as [t|e]; [|reflexivity].
      now apply IH.
Qed.

Theorem sprintf_keyed es : forall segs keyed out,
  Forall (key_ok es) segs ->
  sp_run (map Some (flat_map seg_runes segs)) [VHash es] MText 0 keyed (flat_map seg_os segs) out = expect segs out.
Proof.
  induction segs as [|s segs IH]; intros keyed out Hok.
  - reflexivity.
  - inversion Hok as [|? ? Hs Hrest]; subst.
    cbn [flat_map]. rewrite map_some_app.
    destruct s as [rs| |body l v o|key body l v o|key v o]; cbn [key_ok] in Hs; try contradiction.
    + cbn [seg_runes seg_os app expect]. rewrite run_lit by assumption. now apply IH.
    + cbn [seg_runes seg_os app expect map sp_run]. change (is_pct [37%N]) with true. cbn iota. now apply IH.
    + destruct Hs as (Hk & Hget & Hl & Hb).
      cbn [seg_runes seg_os app expect map].
      assert (Hstep : forall rest, sp_run (Some [37%N] :: Some [60%N] :: rest) [VHash es] MText 0 keyed (o :: flat_map seg_os segs) out
                     = sp_run rest [VHash es] (MKey 60%N []) 0 true (o :: flat_map seg_os segs) out).
      { intro rest. cbn [sp_run]. change (is_pct [37%N]) with true. change (is_pct [60%N]) with false.
        change (key_open [60%N]) with (Some 62%N). cbn [hash_arg hd Nat.ltb Nat.leb]. destruct keyed; reflexivity. }
      rewrite Hstep. rewrite map_some_app, <- app_assoc.
      rewrite (run_key key _ _ 60%N) by exact Hk.
      cbn [map app sp_run]. change (N.eqb 60 123) with false. cbn iota.
      rewrite str_eqb_refl. cbn [hash_arg app]. rewrite Hget.
      rewrite map_some_app, <- app_assoc. cbn [map app].
      assert (Hnb : forall (a : list rune) x (b : list (option rune)), next_bad (map Some a ++ Some x :: b) = false)
        by (intros [|? ?] ? ?; reflexivity).
      rewrite Hnb.
      rewrite run_pattern by (try assumption; apply (next_bad_some [])).
      cbn [sp_directive app]. fold (directive_text body l).
      destruct (sp_apply o v (FStr (directive_text body l))) as [t|e]; [|reflexivity].
      now apply IH.
    + destruct Hs as (Hk & Hget).
      cbn [seg_runes seg_os app expect map].
      assert (Hstep : forall rest, sp_run (Some [37%N] :: Some [123%N] :: rest) [VHash es] MText 0 keyed (o :: flat_map seg_os segs) out
                     = sp_run rest [VHash es] (MKey 123%N []) 0 true (o :: flat_map seg_os segs) out).
      { intro rest. cbn [sp_run]. change (is_pct [37%N]) with true. change (is_pct [123%N]) with false.
        change (key_open [123%N]) with (Some 125%N). cbn [hash_arg hd Nat.ltb Nat.leb]. destruct keyed; reflexivity. }
      rewrite Hstep. rewrite map_some_app, <- app_assoc.
      rewrite (run_key key _ _ 123%N) by exact Hk.
      cbn [map app sp_run]. change (N.eqb 123 123) with true. cbn iota.
      rewrite str_eqb_refl. cbn [hash_arg app]. rewrite Hget.
      rewrite next_bad_map. cbn [sp_directive].
      destruct (sp_apply o v FDefault) as [t|e]; [|reflexivity].
      now apply IH.
Qed.

(* --- format texts of plain ASCII: the runes are the bytes --------------------------------------- *)

Lemma runes_ascii s : is_ascii s = true -> runes 0 s = map (fun b => Some [b]) s.
Proof.
  induction s as [|b s IH]; intro H; [reflexivity|].
  unfold is_ascii in H. cbn [forallb] in H. apply andb_prop in H. destruct H as [Hb Hs].
  cbn [runes map]. rewrite Hb. now rewrite IH.
Qed.

Lemma concat_ascii (rs : list rune) : Forall (fun r => exists b, r = [b] /\ N.ltb b 128 = true) rs ->
  runes 0 (concat rs) = map Some rs.
Proof.
  induction rs as [|r rs IH]; intro H; [reflexivity|].
  inversion H as [|? ? (b & -> & Hb) Hrs]; subst. cbn [concat app runes map]. rewrite Hb. now rewrite IH.
Qed.

Definition ascii_rune (r : rune) : Prop := exists b, r = [b] /\ N.ltb b 128 = true.

Definition seg_ascii (s : seg) : Prop :=
  match s with
  | SLit rs => Forall ascii_rune rs
  | SPct => True
  | SDir body l _ _ => Forall ascii_rune body /\ N.ltb l 128 = true
  | SKey key body l _ _ => Forall ascii_rune key /\ Forall ascii_rune body /\ N.ltb l 128 = true
  | SBrace key _ _ => Forall ascii_rune key
  end.

Lemma ascii_37 : ascii_rune [37%N]. Proof. exists 37%N. split; reflexivity. Qed.

Lemma seg_runes_ascii s : seg_ascii s -> Forall ascii_rune (seg_runes s).
Proof.
  assert (Hc : forall b, N.ltb b 128 = true -> ascii_rune [b]) by (intros b Hb; exists b; auto).
  destruct s as [rs| |body l v o|key body l v o|key v o]; cbn [seg_ascii seg_runes]; intro H.
  - exact H.
  - repeat constructor; apply ascii_37.
  - destruct H as [Hb Hl]. constructor; [apply ascii_37|]. apply Forall_app. split; [exact Hb|]. repeat constructor. now apply Hc.
  - destruct H as (Hk & Hb & Hl). constructor; [apply ascii_37|]. constructor; [now apply Hc|].
    apply Forall_app. split; [exact Hk|]. constructor; [now apply Hc|].
    apply Forall_app. split; [exact Hb|]. repeat constructor. now apply Hc.
  - constructor; [apply ascii_37|]. constructor; [now apply Hc|].
    apply Forall_app. split; [exact H|]. repeat constructor. now apply Hc.
Qed.

Definition format_text (segs : list seg) : str := concat (flat_map seg_runes segs).

Lemma runes_format_text segs : Forall seg_ascii segs ->
  runes 0 (format_text segs) = map Some (flat_map seg_runes segs).
Proof.
  intro H. unfold format_text. apply concat_ascii.
  induction segs as [|s segs IH]; [constructor|].
  inversion H; subst. cbn [flat_map]. apply Forall_app. split; [now apply seg_runes_ascii|now apply IH].
Qed.

(* PuppetSprintf(text, values...) where the text is written in ASCII *)
Theorem sprintf_positional_text segs :
  Forall pos_ok segs -> Forall seg_ascii segs ->
  sprintf (flat_map seg_os segs) (format_text segs) (flat_map seg_vals segs) = expect segs [].
Proof.
  intros Hok Hasc. unfold sprintf. rewrite runes_format_text by assumption.
  now apply sprintf_positional.
Qed.

Theorem sprintf_keyed_text es segs :
  Forall (key_ok es) segs -> Forall seg_ascii segs ->
  sprintf (flat_map seg_os segs) (format_text segs) [VHash es] = expect segs [].
Proof.
  intros Hok Hasc. unfold sprintf. rewrite runes_format_text by assumption.
  now apply sprintf_keyed.
Qed.

(* the reference spelled out: when every directive alone gives a text, the whole gives the texts in order *)
Fixpoint seg_texts (segs : list seg) (ts : list str) : option str :=
  match segs with
  | [] => Some []
  | SLit rs :: r => option_map (app (concat rs)) (seg_texts r ts)
  | SPct :: r => option_map (cons 37%N) (seg_texts r ts)
  | _ :: r => match ts with
              | [] => None
              | t :: ts' => option_map (app t) (seg_texts r ts')
              end
  end.

Definition seg_spec (s : seg) : option (oracle * value * fspec) :=
  match s with
  | SDir body l v o | SKey _ body l v o => Some (o, v, FStr (directive_text body l))
  | SBrace _ v o => Some (o, v, FDefault)
  | _ => None
  end.

Fixpoint seg_specs (segs : list seg) : list (oracle * value * fspec) :=
  match segs with
  | [] => []
  | s :: r => match seg_spec s with Some x => x :: seg_specs r | None => seg_specs r end
  end.

Lemma expect_texts : forall segs ts out whole,
  Forall2 (fun x t => format_value (fst (fst x)) (snd (fst x)) (snd x) = Some (OText t)) (seg_specs segs) ts ->
  seg_texts segs ts = Some whole ->
  expect segs out = SpText (out ++ whole).
Proof.
  induction segs as [|s segs IH]; intros ts out whole HF Hw.
  - cbn in Hw. inversion Hw; subst. cbn. now rewrite app_nil_r.
  - destruct s as [rs| |body l v o|key body l v o|key v o]; cbn [seg_specs seg_spec seg_texts expect] in *.
    + destruct (seg_texts segs ts) as [w|] eqn:E; [|discriminate]. cbn in Hw. inversion Hw; subst.
      rewrite (IH ts _ w HF E). now rewrite app_assoc.
    + destruct (seg_texts segs ts) as [w|] eqn:E; [|discriminate]. cbn in Hw. inversion Hw; subst.
      rewrite (IH ts _ w HF E). now rewrite <- app_assoc.
    + inversion HF as [|? t ? ts' Ht HF']; subst. cbn [fst snd] in Ht.
      destruct (seg_texts segs ts') as [w|] eqn:E; [|discriminate]. cbn in Hw. inversion Hw; subst.
      apply sp_apply_text in Ht. rewrite Ht. rewrite (IH ts' _ w HF' E). now rewrite app_assoc.
    + inversion HF as [|? t ? ts' Ht HF']; subst. cbn [fst snd] in Ht.
      destruct (seg_texts segs ts') as [w|] eqn:E; [|discriminate]. cbn in Hw. inversion Hw; subst.
      apply sp_apply_text in Ht. rewrite Ht. rewrite (IH ts' _ w HF' E). now rewrite app_assoc.
    + inversion HF as [|? t ? ts' Ht HF']; subst. cbn [fst snd] in Ht.
      destruct (seg_texts segs ts') as [w|] eqn:E; [|discriminate]. cbn in Hw. inversion Hw; subst.
      apply sp_apply_text in Ht. rewrite Ht. rewrite (IH ts' _ w HF' E). now rewrite app_assoc.
Qed.
